// Package c07 holds the guest-program generator of the C07 harness: a small structured-control AST that is
// (a) printed as the Lean model's program text, (b) encoded as a real WebAssembly module with wazero's own
// test encoder, and (c) concretised (all constant-driven decisions resolved) for the model's prediction of
// whether the concrete run ever reaches an exit-code check again.
package c07

import (
	"fmt"
	"math/rand"
	"strings"

	"github.com/tetratelabs/wazero/internal/leb128"
	"github.com/tetratelabs/wazero/internal/testing/binaryencoding"
	"github.com/tetratelabs/wazero/internal/wasm"
)

// Ins is one instruction of the abstract guest language (mirror of Wz.Model.Ctl.Instr).
type Ins struct {
	K     string // op block loop if br brif brtable call calli rcall rcalli ret host
	ID    int    // label id of block/loop/if
	Param bool   // loop carrying one i32 parameter
	Body  []*Ins
	Else  []*Ins
	L     int   // target label id of br/brif; -1 = the function's own label (return)
	Ls    []int // br_table targets, last = default
	C     int   // constant driving the decision: brif/if condition (0/1), br_table index, table slot; -1 = from local 0
	F     int   // callee: local function index (call/rcall) or host index (host)
	Dec   bool  // call/rcall passes local0-1 instead of local0
}

// Prog is a module: local functions (all of type (i32)->()), a funcref table of local function indexes, and
// host imports h0..: HostCB[k] = local function the host function k calls back (-1 = none). Host 0 is the
// trigger (fires the cause when the schedule says "in a host callback").
type Prog struct {
	Name   string   `json:"name"`
	Funcs  [][]*Ins `json:"-"`
	Table  []int    `json:"table"`
	HostCB []int    `json:"host_cb"`
	Entry  int      `json:"entry"`
	Arg    uint64   `json:"arg"`
	// NonTerm: by construction the concrete run never ends on its own.
	NonTerm bool   `json:"nonterm"`
	Text    string `json:"text"`
}

type lblInfo struct {
	id    int
	loop  bool
	param bool
}

// ---- dead code elimination (both lowerings drop unreachable code; the model text must not contain any) ----

// pruneSeq removes instructions after an unconditional transfer; returns the pruned sequence and whether its
// end is reachable. targeted collects the label ids that are branch targets (of reachable branches).
func pruneSeq(s []*Ins, targeted map[int]bool) ([]*Ins, bool) {
	var out []*Ins
	for _, i := range s {
		switch i.K {
		case "block", "loop":
			b, fall := pruneSeq(i.Body, targeted)
			n := *i
			n.Body = b
			out = append(out, &n)
			if i.K == "block" && targeted[i.ID] {
				fall = true
			}
			if !fall {
				return out, false
			}
		case "if":
			t, f1 := pruneSeq(i.Body, targeted)
			e, f2 := pruneSeq(i.Else, targeted)
			n := *i
			n.Body, n.Else = t, e
			out = append(out, &n)
			if !(f1 || f2 || targeted[i.ID]) {
				return out, false
			}
		case "br":
			targeted[i.L] = true
			out = append(out, i)
			return out, false
		case "brif":
			targeted[i.L] = true
			out = append(out, i)
		case "brtable":
			for _, l := range i.Ls {
				targeted[l] = true
			}
			out = append(out, i)
			return out, false
		case "ret", "rcall", "rcalli":
			out = append(out, i)
			return out, false
		default:
			out = append(out, i)
		}
	}
	return out, true
}

// Prune removes dead code from every function (iterating, since removing a branch can make a label untargeted).
func (p *Prog) Prune() {
	for fi := range p.Funcs {
		for it := 0; it < 8; it++ {
			targeted := map[int]bool{}
			p.Funcs[fi], _ = pruneSeq(p.Funcs[fi], targeted)
		}
	}
}

// ---- model text ----

func depthOf(stack []lblInfo, id int) int {
	if id < 0 {
		return len(stack)
	}
	for k := len(stack) - 1; k >= 0; k-- {
		if stack[k].id == id {
			return len(stack) - 1 - k
		}
	}
	panic(fmt.Sprintf("label %d not in scope", id))
}

func infoOf(stack []lblInfo, id int) lblInfo {
	for k := len(stack) - 1; k >= 0; k-- {
		if stack[k].id == id {
			return stack[k]
		}
	}
	return lblInfo{id: -1}
}

// textSeq prints the model text. With concrete=true every constant-driven decision is resolved.
func (p *Prog) textSeq(s []*Ins, stack []lblInfo, concrete bool, sb *[]string) {
	emit := func(t ...string) { *sb = append(*sb, t...) }
	for _, i := range s {
		switch i.K {
		case "op":
			emit("op")
		case "block", "loop":
			emit(i.K)
			p.textSeq(i.Body, append(stack, lblInfo{i.ID, i.K == "loop", i.Param}), concrete, sb)
			emit("end")
		case "if":
			st := append(stack, lblInfo{i.ID, false, false})
			if concrete && i.C >= 0 {
				emit("block")
				if i.C != 0 {
					p.textSeq(i.Body, st, concrete, sb)
				} else {
					p.textSeq(i.Else, st, concrete, sb)
				}
				emit("end")
			} else {
				emit("if")
				p.textSeq(i.Body, st, concrete, sb)
				emit("else")
				p.textSeq(i.Else, st, concrete, sb)
				emit("end")
			}
		case "br":
			emit("br", fmt.Sprint(depthOf(stack, i.L)))
		case "brif":
			if concrete && i.C >= 0 {
				if i.C != 0 {
					emit("br", fmt.Sprint(depthOf(stack, i.L)))
				} else {
					emit("op")
				}
			} else {
				emit("brif", fmt.Sprint(depthOf(stack, i.L)))
			}
		case "brtable":
			if concrete {
				k := i.C
				if k >= len(i.Ls)-1 {
					k = len(i.Ls) - 1
				}
				emit("br", fmt.Sprint(depthOf(stack, i.Ls[k])))
			} else {
				emit("brtable", fmt.Sprint(len(i.Ls)-1))
				for _, l := range i.Ls {
					emit(fmt.Sprint(depthOf(stack, l)))
				}
			}
		case "call":
			emit("call", fmt.Sprint(i.F))
		case "rcall":
			emit("rcall", fmt.Sprint(i.F))
		case "calli":
			if concrete {
				if i.C < len(p.Table) {
					emit("call", fmt.Sprint(p.Table[i.C]))
				} else {
					emit("calli") // traps
				}
			} else {
				emit("calli")
			}
		case "rcalli":
			if concrete && i.C < len(p.Table) {
				emit("rcall", fmt.Sprint(p.Table[i.C]))
			} else {
				emit("rcalli")
			}
		case "ret":
			emit("ret")
		case "host":
			cb := p.HostCB[i.F]
			if cb < 0 {
				if concrete {
					emit("op")
				} else {
					emit("host", "0")
				}
			} else if concrete {
				emit("call", fmt.Sprint(cb))
			} else {
				emit("host", "1", fmt.Sprint(cb))
			}
		default:
			panic("unknown instruction " + i.K)
		}
	}
}

// FuncText is the model text of one function body.
func (p *Prog) FuncText(f int, concrete bool) string {
	var sb []string
	p.textSeq(p.Funcs[f], nil, concrete, &sb)
	return strings.Join(sb, " ")
}

// ProgText is the model text of all functions, separated by ` ; `.
func (p *Prog) ProgText(concrete bool) string {
	var fs []string
	for f := range p.Funcs {
		fs = append(fs, p.FuncText(f, concrete))
	}
	return strings.Join(fs, " ; ")
}

func (p *Prog) TableText() string {
	if len(p.Table) == 0 {
		return "-"
	}
	var s []string
	for _, t := range p.Table {
		s = append(s, fmt.Sprint(t))
	}
	return "[" + strings.Join(s, ",") + "]"
}

// HasHostCallback reports whether some host import calls back into the guest.
func (p *Prog) HasHostCallback() bool {
	for _, cb := range p.HostCB {
		if cb >= 0 {
			return true
		}
	}
	return false
}

// HasTail reports whether the program contains a tail call.
func (p *Prog) HasTail() bool {
	var rec func(s []*Ins) bool
	rec = func(s []*Ins) bool {
		for _, i := range s {
			if i.K == "rcall" || i.K == "rcalli" || rec(i.Body) || rec(i.Else) {
				return true
			}
		}
		return false
	}
	for _, f := range p.Funcs {
		if rec(f) {
			return true
		}
	}
	return false
}

// ---- wasm encoding ----

func u32(v int) []byte { return leb128.EncodeUint32(uint32(v)) }

func (p *Prog) cond(c int) []byte {
	if c < 0 {
		return []byte{wasm.OpcodeLocalGet, 0}
	}
	return append([]byte{wasm.OpcodeI32Const}, leb128.EncodeInt32(int32(c))...)
}

func (p *Prog) arg(dec bool) []byte {
	if dec {
		return []byte{wasm.OpcodeLocalGet, 0, wasm.OpcodeI32Const, 1, wasm.OpcodeI32Sub}
	}
	return []byte{wasm.OpcodeLocalGet, 0}
}

// encSeq encodes a sequence. loopParamType is the type index of (i32)->().
func (p *Prog) encSeq(s []*Ins, stack []lblInfo, out *[]byte, nimp int, fnType int) {
	emit := func(b ...byte) { *out = append(*out, b...) }
	for _, i := range s {
		switch i.K {
		case "op":
			emit(wasm.OpcodeNop)
		case "block":
			emit(wasm.OpcodeBlock, 0x40)
			p.encSeq(i.Body, append(stack, lblInfo{i.ID, false, false}), out, nimp, fnType)
			emit(wasm.OpcodeEnd)
		case "loop":
			if i.Param {
				emit(wasm.OpcodeI32Const, 5)
				emit(wasm.OpcodeLoop, byte(fnType)) // block type = type index 0: (i32)->()
				emit(wasm.OpcodeDrop)
			} else {
				emit(wasm.OpcodeLoop, 0x40)
			}
			p.encSeq(i.Body, append(stack, lblInfo{i.ID, true, i.Param}), out, nimp, fnType)
			emit(wasm.OpcodeEnd)
		case "if":
			emit(p.cond(i.C)...)
			emit(wasm.OpcodeIf, 0x40)
			st := append(stack, lblInfo{i.ID, false, false})
			p.encSeq(i.Body, st, out, nimp, fnType)
			emit(wasm.OpcodeElse)
			p.encSeq(i.Else, st, out, nimp, fnType)
			emit(wasm.OpcodeEnd)
		case "br":
			if infoOf(stack, i.L).param {
				emit(wasm.OpcodeI32Const, 6)
			}
			emit(wasm.OpcodeBr)
			emit(u32(depthOf(stack, i.L))...)
		case "brif":
			par := infoOf(stack, i.L).param
			if par {
				emit(wasm.OpcodeI32Const, 6)
			}
			emit(p.cond(i.C)...)
			emit(wasm.OpcodeBrIf)
			emit(u32(depthOf(stack, i.L))...)
			if par {
				emit(wasm.OpcodeDrop)
			}
		case "brtable":
			emit(append([]byte{wasm.OpcodeI32Const}, leb128.EncodeInt32(int32(i.C))...)...)
			emit(wasm.OpcodeBrTable)
			emit(u32(len(i.Ls) - 1)...)
			for _, l := range i.Ls {
				emit(u32(depthOf(stack, l))...)
			}
		case "call":
			emit(p.arg(i.Dec)...)
			emit(wasm.OpcodeCall)
			emit(u32(nimp + i.F)...)
		case "rcall":
			emit(p.arg(i.Dec)...)
			emit(wasm.OpcodeTailCallReturnCall)
			emit(u32(nimp + i.F)...)
		case "calli", "rcalli":
			emit(p.arg(i.Dec)...)
			emit(append([]byte{wasm.OpcodeI32Const}, leb128.EncodeInt32(int32(i.C))...)...)
			if i.K == "calli" {
				emit(wasm.OpcodeCallIndirect)
			} else {
				emit(wasm.OpcodeTailCallReturnCallIndirect)
			}
			emit(u32(fnType)...)
			emit(0) // table 0
		case "ret":
			emit(wasm.OpcodeReturn)
		case "host":
			emit(p.arg(false)...)
			emit(wasm.OpcodeCall)
			emit(u32(i.F)...)
		}
	}
}

// Module builds the real module. Imports: env.h0.. ; exports: f0.. ; table 0 holds the Table functions.
func (p *Prog) Module() *wasm.Module {
	m := &wasm.Module{}
	m.TypeSection = []wasm.FunctionType{{Params: []wasm.ValueType{wasm.ValueTypeI32}}}
	nimp := len(p.HostCB)
	for k := 0; k < nimp; k++ {
		m.ImportSection = append(m.ImportSection, wasm.Import{Type: wasm.ExternTypeFunc, Module: "env", Name: fmt.Sprintf("h%d", k), DescFunc: 0})
	}
	m.ImportFunctionCount = uint32(nimp)
	for f, body := range p.Funcs {
		var b []byte
		p.encSeq(body, nil, &b, nimp, 0)
		b = append(b, wasm.OpcodeEnd)
		m.FunctionSection = append(m.FunctionSection, 0)
		m.CodeSection = append(m.CodeSection, wasm.Code{Body: b})
		m.ExportSection = append(m.ExportSection, wasm.Export{Name: fmt.Sprintf("f%d", f), Type: wasm.ExternTypeFunc, Index: uint32(nimp + f)})
	}
	n := uint32(len(p.Table))
	if n == 0 {
		n = 1
	}
	m.TableSection = []wasm.Table{{Min: n, Type: wasm.RefTypeFuncref}}
	if len(p.Table) > 0 {
		var init []wasm.Index
		for _, t := range p.Table {
			init = append(init, wasm.Index(nimp+t))
		}
		m.ElementSection = []wasm.ElementSegment{{
			OffsetExpr: wasm.ConstantExpression{Opcode: wasm.OpcodeI32Const, Data: []byte{0}},
			Init:       init, Type: wasm.RefTypeFuncref, Mode: wasm.ElementModeActive,
		}}
	}
	return m
}

func (p *Prog) Bytes() []byte { return binaryencoding.EncodeModule(p.Module()) }

// ---- generator ----

type Gen struct {
	R      *rand.Rand
	nextID int
}

func (g *Gen) id() int { g.nextID++; return g.nextID }

func op() *Ins                      { return &Ins{K: "op"} }
func br(l int) *Ins                 { return &Ins{K: "br", L: l} }
func brif(l, c int) *Ins            { return &Ins{K: "brif", L: l, C: c} }
func call(f int) *Ins               { return &Ins{K: "call", F: f} }
func rcall(f int) *Ins              { return &Ins{K: "rcall", F: f} }
func calli(slot int) *Ins           { return &Ins{K: "calli", C: slot} }
func rcalli(slot int) *Ins          { return &Ins{K: "rcalli", C: slot} }
func host(k int) *Ins               { return &Ins{K: "host", F: k} }
func ret() *Ins                     { return &Ins{K: "ret"} }
func (g *Gen) block(b ...*Ins) *Ins { return &Ins{K: "block", ID: g.id(), Body: b} }
func (g *Gen) loop(param bool, b ...*Ins) *Ins {
	return &Ins{K: "loop", ID: g.id(), Param: param, Body: b}
}
func (g *Gen) ifc(c int, t, e []*Ins) *Ins { return &Ins{K: "if", ID: g.id(), C: c, Body: t, Else: e} }

// noise: a terminating, fall-through snippet.
func (g *Gen) noise() []*Ins {
	switch g.R.Intn(7) {
	case 0:
		return []*Ins{op()}
	case 1:
		b := g.block()
		b.Body = []*Ins{brif(b.ID, g.R.Intn(2)), op()}
		return []*Ins{b}
	case 2:
		l := g.loop(g.R.Intn(3) == 0)
		l.Body = []*Ins{op(), brif(l.ID, 0)} // loop header, never repeated
		return []*Ins{l}
	case 3:
		return []*Ins{g.ifc(g.R.Intn(2), []*Ins{op()}, []*Ins{op(), op()})}
	case 4:
		b := g.block()
		in := g.block()
		in.Body = []*Ins{{K: "brtable", Ls: []int{in.ID, b.ID, in.ID}, C: g.R.Intn(4)}}
		b.Body = []*Ins{in, op()}
		return []*Ins{b}
	case 5:
		return nil
	default:
		l := g.loop(false) // loop without any back edge
		l.Body = []*Ins{op()}
		return []*Ins{l}
	}
}

// wrap nests a snippet in control structure that executes it exactly in place (constant conditions).
func (g *Gen) wrap(body []*Ins, depth int) []*Ins {
	for d := 0; d < depth; d++ {
		pre := g.noise()
		switch g.R.Intn(5) {
		case 0:
			body = append(pre, g.block(body...))
		case 1:
			body = append(pre, g.ifc(1, body, g.noise()))
		case 2:
			body = append(pre, g.ifc(0, g.noise(), body))
		case 3:
			body = append(pre, g.loop(g.R.Intn(4) == 0, body...)) // entered once, falls out (or leaves by branch)
		default:
			body = append(pre, body...)
		}
	}
	return body
}

// backEdge builds a branch to loop label l taken forever, in one of the three branch forms, at extra nesting.
func (g *Gen) backEdge(l *Ins, nest int) []*Ins {
	var e []*Ins
	switch g.R.Intn(3) {
	case 0:
		e = []*Ins{br(l.ID)}
	case 1:
		e = []*Ins{brif(l.ID, 1), op()}
	default:
		if l.Param {
			e = []*Ins{br(l.ID)}
		} else {
			// br_table whose selected entry is the loop; other entries leave an inner block
			in := g.block()
			k := g.R.Intn(3)
			ls := []int{in.ID, in.ID, in.ID}
			ls[k] = l.ID
			c := k
			if k == 2 {
				c = 2 + g.R.Intn(3) // default entry, index beyond the table
			}
			in.Body = []*Ins{{K: "brtable", Ls: ls, C: c}}
			e = []*Ins{in}
		}
	}
	return g.wrap(e, nest)
}

// Kinds lists the cycle constructors.
var Kinds = []string{
	"loop-br", "loop-nested", "loop-calls", "loop-in-callee", "loop-in-indirect-callee", "loop-in-host-callback",
	"loop-bounded-recursion", "tail-self", "tail-mutual", "tail-indirect", "tail-mixed-indirect", "tail-with-loop-on-cycle",
	"tail-into-loop", "tail-cycle-in-callee", "tail-cycle-in-host-callback", "recursion-direct", "recursion-mutual", "recursion-indirect",
	"loop-tail-in-body",
}

// Make builds a program of the given kind. Function 0 is the entry and first calls host 0 (the trigger).
func (g *Gen) Make(kind string) *Prog {
	p := &Prog{Name: kind, HostCB: []int{-1}, Entry: 0, Arg: 3, NonTerm: true}
	nest := g.R.Intn(4)
	pre := func() []*Ins { return append([]*Ins{host(0)}, g.noise()...) }
	foreverLoop := func() []*Ins {
		l := g.loop(g.R.Intn(3) == 0)
		l.Body = append(g.noise(), g.backEdge(l, g.R.Intn(3))...)
		return g.wrap([]*Ins{l}, nest)
	}
	switch kind {
	case "loop-br":
		p.Funcs = [][]*Ins{append(pre(), foreverLoop()...)}
	case "loop-nested":
		outer := g.loop(g.R.Intn(3) == 0)
		inner := g.loop(false)
		inner.Body = []*Ins{op(), brif(inner.ID, 0)}
		outer.Body = append([]*Ins{inner}, g.backEdge(outer, g.R.Intn(3))...)
		p.Funcs = [][]*Ins{append(pre(), g.wrap([]*Ins{outer}, nest)...)}
	case "loop-calls":
		l := g.loop(false)
		l.Body = append([]*Ins{call(1), calli(0)}, g.backEdge(l, g.R.Intn(2))...)
		p.Funcs = [][]*Ins{append(pre(), g.wrap([]*Ins{l}, nest)...), g.noise(), append(g.noise(), op())}
		p.Table = []int{2}
	case "loop-in-callee":
		p.Funcs = [][]*Ins{append(pre(), g.wrap([]*Ins{call(1)}, nest)...), append(g.noise(), call(2)), foreverLoop()}
	case "loop-in-indirect-callee":
		p.Funcs = [][]*Ins{append(pre(), g.wrap([]*Ins{calli(1)}, nest)...), foreverLoop(), {op()}}
		p.Table = []int{2, 1}
	case "loop-in-host-callback":
		p.HostCB = []int{-1, 1}
		p.Funcs = [][]*Ins{append(pre(), g.wrap([]*Ins{host(1)}, nest)...), foreverLoop()}
	case "loop-bounded-recursion":
		l := g.loop(false)
		l.Body = append([]*Ins{call(1)}, g.backEdge(l, 0)...)
		rec := g.ifc(-1, []*Ins{{K: "call", F: 1, Dec: true}}, []*Ins{op()})
		p.Funcs = [][]*Ins{append(pre(), g.wrap([]*Ins{l}, nest)...), {rec}}
	case "tail-self":
		p.Funcs = [][]*Ins{append(pre(), call(1)), append(g.noise(), g.wrap([]*Ins{rcall(1)}, nest)...)}
		if g.R.Intn(3) == 0 { // the bare witness of F4 (plus the trigger)
			p.Funcs = [][]*Ins{{host(0), call(1)}, {rcall(1)}}
		}
	case "tail-mutual":
		p.Funcs = [][]*Ins{append(pre(), g.wrap([]*Ins{rcall(1)}, nest)...), append(g.noise(), rcall(2)), g.wrap([]*Ins{rcall(1)}, g.R.Intn(3))}
	case "tail-indirect":
		p.Funcs = [][]*Ins{append(pre(), rcalli(0)), g.wrap([]*Ins{rcalli(0)}, nest)}
		p.Table = []int{1}
	case "tail-mixed-indirect":
		p.Funcs = [][]*Ins{append(pre(), call(1)), append(g.noise(), rcalli(1)), append(g.noise(), g.wrap([]*Ins{rcall(1)}, nest)...)}
		p.Table = []int{0, 2}
	case "tail-with-loop-on-cycle":
		// every turn of the tail-call cycle passes a loop header: stops properly even on the as-is tree
		l := g.loop(false)
		l.Body = []*Ins{op(), brif(l.ID, 0)}
		p.Funcs = [][]*Ins{append(pre(), call(1)), append(g.wrap([]*Ins{l}, nest), rcall(1))}
	case "tail-into-loop":
		p.Funcs = [][]*Ins{append(pre(), g.wrap([]*Ins{rcall(1)}, nest)...), foreverLoop()}
	case "tail-cycle-in-callee":
		p.Funcs = [][]*Ins{append(pre(), g.wrap([]*Ins{call(1)}, nest)...), {op(), rcall(2)}, {rcall(1)}}
	case "tail-cycle-in-host-callback":
		p.HostCB = []int{-1, 1}
		p.Funcs = [][]*Ins{append(pre(), host(1)), g.wrap([]*Ins{rcall(1)}, nest)}
	case "recursion-direct":
		p.NonTerm = false
		p.Funcs = [][]*Ins{append(pre(), call(1)), append(g.noise(), g.wrap([]*Ins{call(1)}, nest)...)}
	case "recursion-mutual":
		p.NonTerm = false
		p.Funcs = [][]*Ins{append(pre(), call(1)), {op(), call(2)}, g.wrap([]*Ins{call(1)}, nest)}
	case "recursion-indirect":
		p.NonTerm = false
		p.Funcs = [][]*Ins{append(pre(), calli(0)), g.wrap([]*Ins{calli(0)}, nest)}
		p.Table = []int{1}
	case "loop-tail-in-body":
		// a loop whose body tail-calls the function containing the loop: every turn passes the header
		l := g.loop(false)
		l.Body = []*Ins{op(), rcall(1)}
		p.Funcs = [][]*Ins{append(pre(), call(1)), g.wrap([]*Ins{l}, nest)}
	default:
		panic("unknown kind " + kind)
	}
	p.Prune()
	p.Text = p.ProgText(false)
	return p
}

// Random builds an arbitrary (possibly terminating) program for the structural tie only.
func (g *Gen) Random() *Prog {
	nf := 1 + g.R.Intn(3)
	p := &Prog{Name: "random", HostCB: []int{-1, g.R.Intn(nf)}, Entry: 0, Arg: 1}
	for k := 0; k < 1+g.R.Intn(3); k++ {
		p.Table = append(p.Table, g.R.Intn(nf))
	}
	var seq func(depth int, scope []lblInfo) []*Ins
	seq = func(depth int, scope []lblInfo) []*Ins {
		var out []*Ins
		n := 1 + g.R.Intn(4)
		pick := func(plain bool) int { // a label in scope (or -1 = return)
			var c []int
			for _, s := range scope {
				if !plain || !s.param {
					c = append(c, s.id)
				}
			}
			c = append(c, -1)
			return c[g.R.Intn(len(c))]
		}
		for k := 0; k < n; k++ {
			switch x := g.R.Intn(16); {
			case x < 2:
				out = append(out, op())
			case x < 4 && depth < 4:
				b := g.block()
				b.Body = seq(depth+1, append(scope, lblInfo{b.ID, false, false}))
				out = append(out, b)
			case x < 7 && depth < 4:
				l := g.loop(g.R.Intn(3) == 0)
				l.Body = seq(depth+1, append(scope, lblInfo{l.ID, true, l.Param}))
				out = append(out, l)
			case x < 9 && depth < 4:
				i := g.ifc(g.R.Intn(2), nil, nil)
				sc := append(scope, lblInfo{i.ID, false, false})
				i.Body, i.Else = seq(depth+1, sc), seq(depth+1, sc)
				out = append(out, i)
			case x == 9:
				out = append(out, br(pick(false)))
			case x == 10:
				out = append(out, brif(pick(false), g.R.Intn(2)))
			case x == 11:
				t := &Ins{K: "brtable", C: g.R.Intn(4)}
				for j := 0; j < 1+g.R.Intn(3); j++ {
					t.Ls = append(t.Ls, pick(true))
				}
				out = append(out, t)
			case x == 12:
				out = append(out, call(g.R.Intn(nf)), calli(g.R.Intn(len(p.Table)+1)))
			case x == 13:
				out = append(out, rcall(g.R.Intn(nf)))
			case x == 14:
				out = append(out, rcalli(g.R.Intn(len(p.Table))))
			default:
				if g.R.Intn(2) == 0 {
					out = append(out, host(g.R.Intn(2)))
				} else {
					out = append(out, ret())
				}
			}
		}
		return out
	}
	for f := 0; f < nf; f++ {
		p.Funcs = append(p.Funcs, seq(0, nil))
	}
	p.Prune()
	p.Text = p.ProgText(false)
	return p
}
