module github.com/tetratelabs/wazero/verifharness

go 1.23

require github.com/tetratelabs/wazero v0.0.0

replace github.com/tetratelabs/wazero => /repo
