// Package gen generates valid-by-construction WebAssembly modules (a stack-typed random walk) and
// emits them twice: as a binary (through wazero's own test encoder) and as the token text that the
// Lean reference semantics (`Wz.Spec.Wasm`, oracle topic c01) parses.  The fragment ("W0") is:
// i32/i64/f32/f64 numeric, comparison, conversion, sign-extension and saturating-truncation
// instructions; locals, globals; block/loop/if/br/br_if/br_table/return/call/call_indirect/
// unreachable/drop/select; loads and stores of all widths; memory.size/grow; host imports.
// Termination: every function entry burns one unit of a fuel global (trap `unreachable` at zero) and
// every loop is bounded by a counter local.
package gen

import (
	"encoding/binary"
	"fmt"
	"math"
	"math/rand"
	"strings"

	"github.com/tetratelabs/wazero/internal/leb128"
	"github.com/tetratelabs/wazero/internal/testing/binaryencoding"
	"github.com/tetratelabs/wazero/internal/wasm"
	"github.com/tetratelabs/wazero/verifharness/memcat"
)

type VT = wasm.ValueType

const (
	I32 = wasm.ValueTypeI32
	I64 = wasm.ValueTypeI64
	F32 = wasm.ValueTypeF32
	F64 = wasm.ValueTypeF64
)

const V128 = wasm.ValueTypeV128

var allTypes = []VT{I32, I64, F32, F64}

func TName(t VT) string { return wasm.ValueTypeName(t) }

// Asm accumulates one function body in both forms.
type Asm struct {
	B []byte
	T []string
}

func (a *Asm) op(name string, b ...byte) {
	a.B = append(a.B, b...)
	a.T = append(a.T, name)
}

func (a *Asm) opU(name string, opc byte, imm uint32) {
	a.B = append(a.B, opc)
	a.B = append(a.B, leb128.EncodeUint32(imm)...)
	a.T = append(a.T, fmt.Sprintf("%s:%d", name, imm))
}

func (a *Asm) I32Const(v uint32) {
	a.B = append(a.B, wasm.OpcodeI32Const)
	a.B = append(a.B, leb128.EncodeInt32(int32(v))...)
	a.T = append(a.T, fmt.Sprintf("i32.const:%d", v))
}
func (a *Asm) I64Const(v uint64) {
	a.B = append(a.B, wasm.OpcodeI64Const)
	a.B = append(a.B, leb128.EncodeInt64(int64(v))...)
	a.T = append(a.T, fmt.Sprintf("i64.const:%d", v))
}
func (a *Asm) F32Const(bits uint32) {
	a.B = append(a.B, wasm.OpcodeF32Const, 0, 0, 0, 0)
	binary.LittleEndian.PutUint32(a.B[len(a.B)-4:], bits)
	a.T = append(a.T, fmt.Sprintf("f32.const:%d", bits))
}
func (a *Asm) F64Const(bits uint64) {
	a.B = append(a.B, wasm.OpcodeF64Const, 0, 0, 0, 0, 0, 0, 0, 0)
	binary.LittleEndian.PutUint64(a.B[len(a.B)-8:], bits)
	a.T = append(a.T, fmt.Sprintf("f64.const:%d", bits))
}
func (a *Asm) Const(t VT, bits uint64) {
	switch t {
	case I32:
		a.I32Const(uint32(bits))
	case I64:
		a.I64Const(bits)
	case F32:
		a.F32Const(uint32(bits))
	default:
		a.F64Const(bits)
	}
}
func (a *Asm) LocalGet(i uint32)  { a.opU("local.get", wasm.OpcodeLocalGet, i) }
func (a *Asm) LocalSet(i uint32)  { a.opU("local.set", wasm.OpcodeLocalSet, i) }
func (a *Asm) LocalTee(i uint32)  { a.opU("local.tee", wasm.OpcodeLocalTee, i) }
func (a *Asm) GlobalGet(i uint32) { a.opU("global.get", wasm.OpcodeGlobalGet, i) }
func (a *Asm) GlobalSet(i uint32) { a.opU("global.set", wasm.OpcodeGlobalSet, i) }
func (a *Asm) Call(i uint32)      { a.opU("call", wasm.OpcodeCall, i) }
func (a *Asm) CallIndirect(typeIdx uint32) {
	a.B = append(a.B, wasm.OpcodeCallIndirect)
	a.B = append(a.B, leb128.EncodeUint32(typeIdx)...)
	a.B = append(a.B, 0)
	a.T = append(a.T, fmt.Sprintf("call_indirect:%d", typeIdx))
}
func (a *Asm) Br(l uint32)   { a.opU("br", wasm.OpcodeBr, l) }
func (a *Asm) BrIf(l uint32) { a.opU("br_if", wasm.OpcodeBrIf, l) }
func (a *Asm) BrTable(ls []uint32, def uint32) {
	a.B = append(a.B, wasm.OpcodeBrTable)
	a.B = append(a.B, leb128.EncodeUint32(uint32(len(ls)))...)
	var ss []string
	for _, l := range ls {
		a.B = append(a.B, leb128.EncodeUint32(l)...)
		ss = append(ss, fmt.Sprint(l))
	}
	a.B = append(a.B, leb128.EncodeUint32(def)...)
	ss = append(ss, fmt.Sprint(def))
	a.T = append(a.T, "br_table:"+strings.Join(ss, ","))
}
func btByte(t VT, has bool) (byte, string) {
	if !has {
		return 0x40, "e"
	}
	return t, TName(t)
}
func (a *Asm) Block(t VT, has bool) {
	b, s := btByte(t, has)
	a.B = append(a.B, wasm.OpcodeBlock, b)
	a.T = append(a.T, "block:"+s)
}
func (a *Asm) Loop(t VT, has bool) {
	b, s := btByte(t, has)
	a.B = append(a.B, wasm.OpcodeLoop, b)
	a.T = append(a.T, "loop:"+s)
}
func (a *Asm) If(t VT, has bool) {
	b, s := btByte(t, has)
	a.B = append(a.B, wasm.OpcodeIf, b)
	a.T = append(a.T, "if:"+s)
}

// BlockT opens a block / loop / if whose block type is a type index (parameters and several results).
func (a *Asm) BlockT(opc byte, name string, typeIdx uint32) {
	a.B = append(a.B, opc)
	a.B = append(a.B, leb128.EncodeInt64(int64(typeIdx))...)
	a.T = append(a.T, fmt.Sprintf("%s:@%d", name, typeIdx))
}
func (a *Asm) Else()        { a.op("else", wasm.OpcodeElse) }
func (a *Asm) End()         { a.op("end", wasm.OpcodeEnd) }
func (a *Asm) Drop()        { a.op("drop", wasm.OpcodeDrop) }
func (a *Asm) Select()      { a.op("select", wasm.OpcodeSelect) }
func (a *Asm) Return()      { a.op("return", wasm.OpcodeReturn) }
func (a *Asm) Unreachable() { a.op("unreachable", wasm.OpcodeUnreachable) }
func (a *Asm) MemSize() {
	a.B = append(a.B, wasm.OpcodeMemorySize, 0)
	a.T = append(a.T, "memory.size")
}
func (a *Asm) MemGrow() {
	a.B = append(a.B, wasm.OpcodeMemoryGrow, 0)
	a.T = append(a.T, "memory.grow")
}
func (a *Asm) Mem(name string, opc byte, align, off uint32) {
	a.B = append(a.B, opc)
	a.B = append(a.B, leb128.EncodeUint32(align)...)
	a.B = append(a.B, leb128.EncodeUint32(off)...)
	a.T = append(a.T, fmt.Sprintf("%s:%d", name, off))
}

func (a *Asm) ReturnCall(i uint32) { a.opU("return_call", wasm.OpcodeTailCallReturnCall, i) }

// Vec emits a vector instruction with raw immediate bytes; the token is `vec:<opcode>:<immhex>`.
func (a *Asm) Vec(opc uint32, imm []byte) {
	a.B = append(a.B, wasm.OpcodeVecPrefix)
	a.B = append(a.B, leb128.EncodeUint32(opc)...)
	a.B = append(a.B, imm...)
	a.T = append(a.T, fmt.Sprintf("vec:%d:%x", opc, imm))
}

func (a *Asm) MemCopy() {
	a.B = append(a.B, wasm.OpcodeMiscPrefix, byte(wasm.OpcodeMiscMemoryCopy), 0, 0)
	a.T = append(a.T, "memory.copy")
}
func (a *Asm) MemFill() {
	a.B = append(a.B, wasm.OpcodeMiscPrefix, byte(wasm.OpcodeMiscMemoryFill), 0)
	a.T = append(a.T, "memory.fill")
}

// Num emits a plain numeric instruction by opcode (name taken from wazero's table).
func (a *Asm) Num(opc byte) { a.op(stdName(wasm.InstructionName(opc)), opc) }
func (a *Asm) Misc(m byte) {
	a.B = append(a.B, wasm.OpcodeMiscPrefix, m)
	a.T = append(a.T, wasm.MiscInstructionName(wasm.OpcodeMisc(m)))
}

func stdName(n string) string {
	if n == "f32.convert_i64u" {
		return "f32.convert_i64_u"
	}
	return n
}

// ---- numeric instruction tables --------------------------------------------------------------

type numOp struct {
	opc    byte
	misc   bool
	params []VT
	result VT
	float  bool // float arithmetic whose NaN result must be canonicalised
}

var unops, binops = map[VT][]numOp{}, map[VT][]numOp{}
var convs = map[VT][]numOp{} // keyed by result type

func init() {
	ty := func(s string) VT {
		switch s {
		case "i32":
			return I32
		case "i64":
			return I64
		case "f32":
			return F32
		}
		return F64
	}
	cmp := map[string]bool{"eq": true, "ne": true, "lt": true, "gt": true, "le": true, "ge": true, "lt_s": true, "lt_u": true, "gt_s": true, "gt_u": true, "le_s": true, "le_u": true, "ge_s": true, "ge_u": true}
	for opc := 0x45; opc <= 0xc4; opc++ {
		n := stdName(wasm.InstructionName(byte(opc)))
		parts := strings.SplitN(n, ".", 2)
		t, op := ty(parts[0]), parts[1]
		isF := t == F32 || t == F64
		switch {
		case op == "eqz":
			convs[I32] = append(convs[I32], numOp{opc: byte(opc), params: []VT{t}, result: I32})
		case cmp[op]:
			binops[I32] = append(binops[I32], numOp{opc: byte(opc), params: []VT{t, t}, result: I32})
		case strings.Contains(op, "_") && (strings.HasPrefix(op, "wrap") || strings.HasPrefix(op, "trunc_") || strings.HasPrefix(op, "extend_i32") || strings.HasPrefix(op, "convert") || strings.HasPrefix(op, "demote") || strings.HasPrefix(op, "promote") || strings.HasPrefix(op, "reinterpret")):
			src := ty(op[strings.LastIndex(op[:len(op)-2], "_")+1:][:3])
			if strings.HasPrefix(op, "wrap") || strings.HasPrefix(op, "demote") || strings.HasPrefix(op, "promote") || strings.HasPrefix(op, "reinterpret") {
				src = ty(op[strings.Index(op, "_")+1:])
			}
			if strings.HasPrefix(op, "reinterpret") && (src == F32 || src == F64) {
				continue // exposes NaN payloads: excluded (see package comment of hc01)
			}
			fl := strings.HasPrefix(op, "demote") || strings.HasPrefix(op, "promote")
			convs[t] = append(convs[t], numOp{opc: byte(opc), params: []VT{src}, result: t, float: fl})
		case op == "clz" || op == "ctz" || op == "popcnt" || op == "abs" || op == "neg" || op == "ceil" || op == "floor" || op == "trunc" || op == "nearest" || op == "sqrt" || strings.HasPrefix(op, "extend"):
			fl := isF && op != "abs" && op != "neg"
			unops[t] = append(unops[t], numOp{opc: byte(opc), params: []VT{t}, result: t, float: fl})
		default:
			fl := isF && op != "copysign"
			binops[t] = append(binops[t], numOp{opc: byte(opc), params: []VT{t, t}, result: t, float: fl})
		}
	}
	for m := 0; m <= 7; m++ {
		n := wasm.MiscInstructionName(wasm.OpcodeMisc(m)) // iNN.trunc_sat_fMM_s
		t := ty(n[:3])
		src := ty(n[strings.Index(n, "_f")+1:][:3])
		convs[t] = append(convs[t], numOp{opc: byte(m), misc: true, params: []VT{src}, result: t})
	}
}

// vector instruction tables for the SIMD profile: deterministic ops only (no float arithmetic whose
// NaN payload is unspecified).
type vecOp struct {
	opc  uint32
	name string
}

var vecBin, vecUn, vecShift, vecTest []vecOp // (v,v)->v ; v->v ; (v,i32)->v ; v->i32
type laneOp struct {
	opc   uint32
	lanes int
	t     VT
}

var vecSplat, vecExtract, vecReplace []laneOp

func init() {
	for i := 0; i < 256; i++ {
		n := wasm.VectorInstructionName(wasm.OpcodeVec(i))
		if n == "" || strings.Contains(n, "load") || strings.Contains(n, "store") || n == "v128.const" || n == "v128.shuffle" {
			continue
		}
		parts := strings.SplitN(n, ".", 2)
		shape, op := parts[0], parts[1]
		isF := strings.HasPrefix(shape, "f")
		lanes := map[string]int{"i8x16": 16, "i16x8": 8, "i32x4": 4, "i64x2": 2, "f32x4": 4, "f64x2": 2}[shape]
		lt := map[string]VT{"i8x16": I32, "i16x8": I32, "i32x4": I32, "i64x2": I64, "f32x4": F32, "f64x2": F64}[shape]
		v := vecOp{uint32(i), n}
		switch {
		case op == "splat":
			vecSplat = append(vecSplat, laneOp{uint32(i), lanes, lt})
		case strings.HasPrefix(op, "extract_lane"):
			vecExtract = append(vecExtract, laneOp{uint32(i), lanes, lt})
		case op == "replace_lane":
			vecReplace = append(vecReplace, laneOp{uint32(i), lanes, lt})
		case op == "shl" || op == "shr_s" || op == "shr_u":
			vecShift = append(vecShift, v)
		case op == "all_true" || op == "any_true" || op == "bitmask":
			vecTest = append(vecTest, v)
		case op == "bitselect":
			// ternary: skipped
		case isF && (op == "add" || op == "sub" || op == "mul" || op == "div" || op == "min" || op == "max" || op == "sqrt" || op == "ceil" || op == "floor" || op == "trunc" || op == "nearest" || strings.HasPrefix(op, "demote") || strings.HasPrefix(op, "promote")):
			// NaN payload unspecified: excluded
		case op == "abs" || op == "neg" || op == "not" || op == "popcnt" || strings.HasPrefix(op, "extend_") || strings.HasPrefix(op, "extadd_") || strings.HasPrefix(op, "trunc_sat") || strings.HasPrefix(op, "convert"):
			vecUn = append(vecUn, v)
		default:
			vecBin = append(vecBin, v)
		}
	}
}

// ---- module ---------------------------------------------------------------------------------

type FuncType struct{ Params, Results []VT }

type Func struct {
	Type   int
	Locals []VT
	Code   *Asm
}

type Global struct {
	T    VT
	Init uint64
}

type Module struct {
	Types   []FuncType
	Imports []int // type index of each imported host function
	Funcs   []Func
	Globals []Global // all mutable and exported as g<i>; global 0 is the fuel (i32)
	HasMem  bool
	MemMin  uint32
	MemMax  uint32
	HasMax  bool
	Table   []uint32 // function indices
	Data    []byte   // at offset DataOff
	DataOff uint32
}

func vts(ts []VT) string {
	if len(ts) == 0 {
		return "-"
	}
	var ss []string
	for _, t := range ts {
		ss = append(ss, TName(t))
	}
	return strings.Join(ss, ",")
}

// Lines renders the module in the oracle's line protocol (topic c01), for module id `id`.
func (m *Module) Lines(id int) []string {
	out := []string{fmt.Sprintf("c01 mod %d", id)}
	for _, t := range m.Types {
		out = append(out, fmt.Sprintf("c01 type %d %s %s", id, vts(t.Params), vts(t.Results)))
	}
	for _, ti := range m.Imports {
		out = append(out, fmt.Sprintf("c01 import %d %d", id, ti))
	}
	for _, f := range m.Funcs {
		out = append(out, fmt.Sprintf("c01 func %d %d %s %s", id, f.Type, vts(f.Locals), strings.Join(f.Code.T, " ")))
	}
	if m.HasMem {
		mx := "-"
		if m.HasMax {
			mx = fmt.Sprint(m.MemMax)
		}
		out = append(out, fmt.Sprintf("c01 mem %d %d %s", id, m.MemMin, mx))
	}
	for _, g := range m.Globals {
		out = append(out, fmt.Sprintf("c01 global %d %s %d", id, TName(g.T), g.Init))
	}
	if len(m.Table) > 0 {
		var ss []string
		for _, f := range m.Table {
			ss = append(ss, fmt.Sprint(f))
		}
		out = append(out, fmt.Sprintf("c01 table %d %s", id, strings.Join(ss, ",")))
	}
	if len(m.Data) > 0 {
		out = append(out, fmt.Sprintf("c01 data %d %d %x", id, m.DataOff, m.Data))
	}
	out = append(out, fmt.Sprintf("c01 inst %d", id))
	return out
}

func constExpr(t VT, bits uint64) wasm.ConstantExpression {
	var a Asm
	a.Const(t, bits)
	op := a.B[0]
	return wasm.ConstantExpression{Opcode: op, Data: a.B[1:]}
}

// Binary encodes the module. Host imports are `host.h<i>`.
func (m *Module) Binary() []byte {
	w := &wasm.Module{}
	for _, t := range m.Types {
		w.TypeSection = append(w.TypeSection, wasm.FunctionType{Params: t.Params, Results: t.Results})
	}
	for i, ti := range m.Imports {
		w.ImportSection = append(w.ImportSection, wasm.Import{Type: wasm.ExternTypeFunc, Module: "host", Name: fmt.Sprintf("h%d", i), DescFunc: uint32(ti)})
	}
	w.ImportFunctionCount = uint32(len(m.Imports))
	for i := range m.Imports {
		// imported functions are re-exported as well: calling them through the API needs no guest code at all
		w.ExportSection = append(w.ExportSection, wasm.Export{Name: fmt.Sprintf("i%d", i), Type: wasm.ExternTypeFunc, Index: uint32(i)})
	}
	for i, f := range m.Funcs {
		w.FunctionSection = append(w.FunctionSection, uint32(f.Type))
		w.CodeSection = append(w.CodeSection, wasm.Code{LocalTypes: f.Locals, Body: append(append([]byte{}, f.Code.B...), wasm.OpcodeEnd)})
		w.ExportSection = append(w.ExportSection, wasm.Export{Name: fmt.Sprintf("f%d", i), Type: wasm.ExternTypeFunc, Index: uint32(len(m.Imports) + i)})
	}
	if m.HasMem {
		w.MemorySection = &wasm.Memory{Min: m.MemMin, Max: m.MemMax, IsMaxEncoded: m.HasMax}
		w.ExportSection = append(w.ExportSection, wasm.Export{Name: "memory", Type: wasm.ExternTypeMemory, Index: 0})
	}
	for i, g := range m.Globals {
		w.GlobalSection = append(w.GlobalSection, wasm.Global{Type: wasm.GlobalType{ValType: g.T, Mutable: true}, Init: constExpr(g.T, g.Init)})
		w.ExportSection = append(w.ExportSection, wasm.Export{Name: fmt.Sprintf("g%d", i), Type: wasm.ExternTypeGlobal, Index: uint32(i)})
	}
	if len(m.Table) > 0 {
		n := uint32(len(m.Table))
		w.TableSection = []wasm.Table{{Min: n, Max: &n, Type: wasm.RefTypeFuncref}}
		w.ElementSection = []wasm.ElementSegment{{OffsetExpr: constExpr(I32, 0), Init: append([]uint32{}, m.Table...), Type: wasm.RefTypeFuncref, Mode: wasm.ElementModeActive}}
	}
	if len(m.Data) > 0 {
		w.DataSection = []wasm.DataSegment{{OffsetExpression: constExpr(I32, uint64(m.DataOff)), Init: m.Data}}
	}
	return binaryencoding.EncodeModule(w)
}

// ---- generator -------------------------------------------------------------------------------

// Stats counts what the special statement forms emitted (read by the harness into its evidence).
var Stats = map[string]int{}

type Config struct {
	MaxFuncs, MaxDepth, MaxStmts int
	Floats                       bool
	Memory                       bool
	Imports                      int
	MaxParams, MaxResults        int  // 0 = defaults (4, 2)
	MaxLocals                    int  // 0 = default 6
	Bulk                         bool // memory.copy / memory.fill
	TailCalls                    bool // return_call (needs experimental.CoreFeaturesTailCall)
	SIMD                         bool // v128 locals and lane-wise integer ops (outside the Lean fragment)
	Atomics                      bool // atomic loads / stores / read-modify-writes / compare-exchanges / notify (threads feature, run single-threaded; outside the Lean fragment)
	Dense                        bool // the statements of the enabled families (block parameters, catalogue accesses) are drawn four times as often
	BlockParams                  bool // block / loop / if with parameters and several results, taken back edges with operands (outside the Lean fragment)
}

// RandomProfile draws which instruction families beyond the base fragment a generated module uses: every harness
// that wants "all programs" draws from here, so that a family added to the generator reaches all of them.
func RandomProfile(r *rand.Rand, cfg Config) Config {
	cfg.TailCalls = r.Intn(3) == 0
	cfg.SIMD = r.Intn(4) == 0
	cfg.BlockParams = r.Intn(4) == 0
	cfg.Atomics = r.Intn(4) == 0
	if r.Intn(4) == 0 { // register-pressure / ABI-cliff profile: many params, results and locals
		cfg.MaxParams, cfg.MaxResults, cfg.MaxLocals = 6+r.Intn(10), 1+r.Intn(5), 8+r.Intn(16)
		cfg.MaxDepth = 2 + r.Intn(2)
	}
	return cfg
}

// NeedsExtendedFeatures: the module uses tail calls or atomics (features beyond WebAssembly 2.0).
func (c Config) NeedsExtendedFeatures() bool { return c.TailCalls || c.Atomics }

type fgen struct {
	leafOnly  bool // no fuel prelude, hence no calls of guest functions
	delayBusy bool
	r         *rand.Rand
	m         *Module
	cfg       Config
	self      int // index into m.Funcs of the function being generated
	params    []VT
	results   []VT
	locals    []VT // params + declared locals
	a         *Asm
	labels    []labelInfo // innermost last
	nLoops    int
}

type labelInfo struct {
	arity  []VT // types expected by a branch to this label
	isLoop bool
}

var boundary = map[VT][]uint64{
	I32: {0, 1, 2, 7, 31, 32, 33, 0xff, 0x7fffffff, 0x80000000, 0xfffffffe, 0xffffffff, 65535, 65536},
	I64: {0, 1, 2, 63, 64, 65, 0xffffffff, 0x100000000, 0x7fffffffffffffff, 0x8000000000000000, 0xffffffffffffffff},
	F32: {0, 0x80000000, 0x3f800000, 0xbf800000, 0x3f000000, 0x4f000000, 0xcf000000, 0x4f800000, 0x5f000000, 0x7f800000, 0xff800000, 0x7fc00000, 0x00000001, 0x7f7fffff, 0x40490fdb},
	F64: {0, 0x8000000000000000, 0x3ff0000000000000, 0xbff0000000000000, 0x41e0000000000000, 0xc1e0000000000000, 0x41f0000000000000, 0x43e0000000000000, 0x43f0000000000000, 0x7ff0000000000000, 0xfff0000000000000, 0x7ff8000000000000, 1, 0x7fefffffffffffff, 0x400921fb54442d18},
}

// RandVal returns an argument value of type t (bit pattern), boundary-biased.
func RandVal(r *rand.Rand, t VT) uint64 {
	if r.Intn(3) > 0 {
		b := boundary[t]
		return b[r.Intn(len(b))]
	}
	switch t {
	case I32:
		return uint64(r.Uint32())
	case F32:
		return uint64(math.Float32bits(float32((r.Float64() - 0.5) * math.Pow(2, float64(r.Intn(40))))))
	case F64:
		return math.Float64bits((r.Float64() - 0.5) * math.Pow(2, float64(r.Intn(70))))
	}
	return r.Uint64()
}

func (g *fgen) types() []VT {
	if g.cfg.Floats {
		return allTypes
	}
	return []VT{I32, I64}
}

func (g *fgen) localsOf(t VT) []uint32 {
	var out []uint32
	for i, lt := range g.locals[:len(g.locals)-7] { // delay slot, loop counters and scratch locals are reserved
		if lt == t {
			out = append(out, uint32(i))
		}
	}
	return out
}

func (g *fgen) globalsOf(t VT) []uint32 {
	var out []uint32
	for i, gl := range g.m.Globals {
		if i > 0 && gl.T == t { // global 0 is the fuel
			out = append(out, uint32(i))
		}
	}
	return out
}

// canon canonicalises a possibly-NaN float on top of the stack (payload bits are unspecified).
func (g *fgen) canon(t VT) {
	tmp := g.scratch(t)
	g.a.LocalTee(tmp)
	g.a.LocalGet(tmp)
	if t == F32 {
		g.a.Num(wasm.OpcodeF32Ne)
		g.a.If(F32, true)
		g.a.F32Const(0x7fc00000)
	} else {
		g.a.Num(wasm.OpcodeF64Ne)
		g.a.If(F64, true)
		g.a.F64Const(0x7ff8000000000000)
	}
	g.a.Else()
	g.a.LocalGet(tmp)
	g.a.End()
}

// scratch returns the index of the scratch local of type t (the last four locals).
func (g *fgen) scratch(t VT) uint32 {
	base := uint32(len(g.locals)) - 4
	switch t {
	case I32:
		return base
	case I64:
		return base + 1
	case F32:
		return base + 2
	}
	return base + 3
}

func (g *fgen) address() uint32 {
	// pushes an i32 address; returns a static offset. Mostly in bounds of the first page.
	switch g.r.Intn(10) {
	case 0: // arbitrary expression: may be out of bounds
		g.expr(I32, 1)
		return uint32(g.r.Intn(4))
	case 1: // near the end of memory
		g.a.I32Const(uint32(int(g.m.MemMin)*65536 - g.r.Intn(12)))
		return uint32(g.r.Intn(12))
	default:
		g.expr(I32, 1)
		g.a.I32Const(0xfff8)
		g.a.Num(wasm.OpcodeI32And)
		return uint32(g.r.Intn(64))
	}
}

type memOp struct {
	name string
	opc  byte
	t    VT
	al   uint32
}

var loads = []memOp{{"i32.load", wasm.OpcodeI32Load, I32, 2}, {"i64.load", wasm.OpcodeI64Load, I64, 3}, {"f32.load", wasm.OpcodeF32Load, F32, 2}, {"f64.load", wasm.OpcodeF64Load, F64, 3},
	{"i32.load8_s", wasm.OpcodeI32Load8S, I32, 0}, {"i32.load8_u", wasm.OpcodeI32Load8U, I32, 0}, {"i32.load16_s", wasm.OpcodeI32Load16S, I32, 1}, {"i32.load16_u", wasm.OpcodeI32Load16U, I32, 1},
	{"i64.load8_s", wasm.OpcodeI64Load8S, I64, 0}, {"i64.load8_u", wasm.OpcodeI64Load8U, I64, 0}, {"i64.load16_s", wasm.OpcodeI64Load16S, I64, 1}, {"i64.load16_u", wasm.OpcodeI64Load16U, I64, 1},
	{"i64.load32_s", wasm.OpcodeI64Load32S, I64, 2}, {"i64.load32_u", wasm.OpcodeI64Load32U, I64, 2}}
var stores = []memOp{{"i32.store", wasm.OpcodeI32Store, I32, 2}, {"i64.store", wasm.OpcodeI64Store, I64, 3}, {"f32.store", wasm.OpcodeF32Store, F32, 2}, {"f64.store", wasm.OpcodeF64Store, F64, 3},
	{"i32.store8", wasm.OpcodeI32Store8, I32, 0}, {"i32.store16", wasm.OpcodeI32Store16, I32, 1}, {"i64.store8", wasm.OpcodeI64Store8, I64, 0}, {"i64.store16", wasm.OpcodeI64Store16, I64, 1}, {"i64.store32", wasm.OpcodeI64Store32, I64, 2}}

func (g *fgen) ok(t VT) bool {
	if t == V128 {
		return g.cfg.SIMD
	}
	return g.cfg.Floats || t == I32 || t == I64
}

// callable functions returning exactly [t] (or anything when t == 0): imports and earlier or later
// functions alike (recursion is bounded by the fuel).
func (g *fgen) callees(want []VT) []uint32 {
	var out []uint32
	total := len(g.m.Imports) + len(g.m.Funcs)
	if g.leafOnly {
		total = len(g.m.Imports) // a function without the fuel prelude calls no guest function
	}
	for i := 0; i < total; i++ {
		var ti int
		if i < len(g.m.Imports) {
			ti = g.m.Imports[i]
		} else {
			ti = g.m.Funcs[i-len(g.m.Imports)].Type
		}
		if string(g.m.Types[ti].Results) == string(want) {
			out = append(out, uint32(i))
		}
	}
	return out
}

func (g *fgen) typeOfFunc(i uint32) FuncType {
	if int(i) < len(g.m.Imports) {
		return g.m.Types[g.m.Imports[i]]
	}
	return g.m.Types[g.m.Funcs[int(i)-len(g.m.Imports)].Type]
}

// expr pushes one value of type t.
func (g *fgen) expr(t VT, depth int) {
	r := g.r
	if t == V128 {
		g.vexpr(depth)
		return
	}
	if depth >= g.cfg.MaxDepth {
		g.leaf(t)
		return
	}
	if g.cfg.SIMD && r.Intn(12) == 0 {
		// a scalar out of a vector
		if t == I32 && r.Intn(2) == 0 {
			op := vecTest[r.Intn(len(vecTest))]
			g.vexpr(depth + 1)
			g.a.Vec(op.opc, nil)
			return
		}
		var cands []laneOp
		for _, e := range vecExtract {
			if e.t == t {
				cands = append(cands, e)
			}
		}
		if len(cands) > 0 {
			e := cands[r.Intn(len(cands))]
			g.vexpr(depth + 1)
			g.a.Vec(e.opc, []byte{byte(r.Intn(e.lanes))})
			if t == F32 || t == F64 {
				g.canon(t)
			}
			return
		}
	}
	switch r.Intn(16) {
	case 0, 1:
		g.leaf(t)
	case 2, 3, 4:
		ops := binops[t]
		if len(ops) == 0 {
			g.leaf(t)
			return
		}
		op := ops[r.Intn(len(ops))]
		if !g.ok(op.params[0]) {
			g.leaf(t)
			return
		}
		g.expr(op.params[0], depth+1)
		g.expr(op.params[1], depth+1)
		g.a.Num(op.opc)
		if op.float {
			g.canon(t)
		}
	case 5:
		ops := unops[t]
		if len(ops) == 0 {
			g.leaf(t)
			return
		}
		op := ops[r.Intn(len(ops))]
		g.expr(t, depth+1)
		g.a.Num(op.opc)
		if op.float {
			g.canon(t)
		}
	case 6, 7:
		ops := convs[t]
		op := ops[r.Intn(len(ops))]
		if !g.ok(op.params[0]) {
			g.leaf(t)
			return
		}
		g.expr(op.params[0], depth+1)
		if op.misc {
			g.a.Misc(op.opc)
		} else {
			g.a.Num(op.opc)
		}
		if op.float {
			g.canon(t)
		}
	case 8:
		if !g.m.HasMem {
			g.leaf(t)
			return
		}
		var cands []memOp
		for _, l := range loads {
			if l.t == t {
				cands = append(cands, l)
			}
		}
		l := cands[r.Intn(len(cands))]
		off := g.address()
		g.a.Mem(l.name, l.opc, l.al, off)
		if t == F32 || t == F64 {
			g.canon(t) // memory may hold arbitrary NaN payloads written as integers; harmless but uniform
		}
	case 9:
		g.expr(t, depth+1)
		g.expr(t, depth+1)
		g.expr(I32, depth+1)
		g.a.Select()
	case 10:
		g.expr(I32, depth+1)
		g.a.If(t, true)
		g.labels = append(g.labels, labelInfo{arity: []VT{t}})
		g.stmts(depth+1, r.Intn(2))
		g.expr(t, depth+1)
		g.a.Else()
		g.stmts(depth+1, r.Intn(2))
		g.expr(t, depth+1)
		g.labels = g.labels[:len(g.labels)-1]
		g.a.End()
	case 11:
		// block with an early exit carrying a value
		g.a.Block(t, true)
		g.labels = append(g.labels, labelInfo{arity: []VT{t}})
		g.stmts(depth+1, r.Intn(2))
		g.expr(t, depth+1)
		g.expr(I32, depth+1)
		g.a.BrIf(0)
		g.a.Drop()
		g.expr(t, depth+1)
		g.labels = g.labels[:len(g.labels)-1]
		g.a.End()
	case 12, 13:
		cs := g.callees([]VT{t})
		if len(cs) == 0 {
			g.leaf(t)
			return
		}
		f := cs[r.Intn(len(cs))]
		for _, p := range g.typeOfFunc(f).Params {
			g.expr(p, depth+1)
		}
		if len(g.m.Table) > 0 && int(f) >= len(g.m.Imports) && r.Intn(3) == 0 {
			// the table holds function i at slot i - imports (+ extra slots); sometimes a wrong / OOB slot
			slot := uint32(int(f) - len(g.m.Imports))
			switch r.Intn(12) {
			case 0:
				slot = uint32(len(g.m.Table)) + uint32(r.Intn(3)) // out of bounds -> trap
			case 1:
				slot = uint32(r.Intn(len(g.m.Table))) // maybe signature mismatch -> trap
			}
			g.a.I32Const(slot)
			ti := g.m.Funcs[int(f)-len(g.m.Imports)].Type
			g.a.CallIndirect(uint32(ti))
		} else {
			g.a.Call(f)
		}
	case 14:
		ls := g.localsOf(t)
		if len(ls) == 0 {
			g.leaf(t)
			return
		}
		g.expr(t, depth+1)
		g.a.LocalTee(ls[r.Intn(len(ls))])
	default:
		if t == I32 && g.m.HasMem && r.Intn(2) == 0 {
			if r.Intn(4) == 0 {
				g.a.I32Const(uint32(r.Intn(3)))
				g.a.MemGrow()
			} else {
				g.a.MemSize()
			}
			return
		}
		g.leaf(t)
	}
}

func (g *fgen) leaf(t VT) {
	r := g.r
	switch r.Intn(4) {
	case 0:
		if ls := g.localsOf(t); len(ls) > 0 {
			g.a.LocalGet(ls[r.Intn(len(ls))])
			return
		}
	case 1:
		if gs := g.globalsOf(t); len(gs) > 0 {
			g.a.GlobalGet(gs[r.Intn(len(gs))])
			return
		}
	}
	g.a.Const(t, RandVal(r, t))
}

// stmts emits n statements (stack-neutral).
func (g *fgen) stmts(depth, n int) {
	for i := 0; i < n; i++ {
		g.stmt(depth)
	}
}

func (g *fgen) stmt(depth int) {
	r := g.r
	ts := g.types()
	t := ts[r.Intn(len(ts))]
	if depth >= g.cfg.MaxDepth {
		if ls := g.localsOf(t); len(ls) > 0 {
			g.leaf(t)
			g.a.LocalSet(ls[r.Intn(len(ls))])
		}
		return
	}
	if g.cfg.Dense && r.Intn(4) == 0 {
		switch {
		case g.cfg.BlockParams && r.Intn(2) == 0:
			g.paramBlock(depth)
			return
		case g.m.HasMem && (g.cfg.Atomics || g.cfg.SIMD):
			g.catalogueAccess(depth)
			return
		}
	}
	switch r.Intn(21) {
	case 17, 18:
		g.delayed(depth)
	case 0, 1, 2:
		if ls := g.localsOf(t); len(ls) > 0 {
			g.expr(t, depth+1)
			g.a.LocalSet(ls[r.Intn(len(ls))])
		}
	case 3:
		if gs := g.globalsOf(t); len(gs) > 0 {
			g.expr(t, depth+1)
			g.a.GlobalSet(gs[r.Intn(len(gs))])
		}
	case 4, 5:
		if !g.m.HasMem {
			return
		}
		var cands []memOp
		for _, s := range stores {
			if g.ok(s.t) {
				cands = append(cands, s)
			}
		}
		s := cands[r.Intn(len(cands))]
		off := g.address()
		g.expr(s.t, depth+1)
		g.a.Mem(s.name, s.opc, s.al, off)
	case 6:
		g.expr(t, depth+1)
		g.a.Drop()
	case 7:
		g.expr(I32, depth+1)
		g.a.If(0, false)
		g.labels = append(g.labels, labelInfo{})
		g.stmts(depth+1, 1+r.Intn(2))
		if r.Intn(2) == 0 {
			g.a.Else()
			g.stmts(depth+1, 1+r.Intn(2))
		}
		g.labels = g.labels[:len(g.labels)-1]
		g.a.End()
	case 8:
		// bounded loop: counter local is a dedicated i32 scratch per nesting level
		if g.nLoops >= 2 {
			return
		}
		cnt := uint32(len(g.locals)) - 6 + uint32(g.nLoops) // two loop counters precede the scratch locals
		g.nLoops++
		g.a.I32Const(uint32(1 + r.Intn(6)))
		g.a.LocalSet(cnt)
		g.a.Block(0, false)
		g.labels = append(g.labels, labelInfo{})
		g.a.Loop(0, false)
		g.labels = append(g.labels, labelInfo{isLoop: true})
		g.stmts(depth+1, 1+r.Intn(3))
		// counter--, continue while != 0; sometimes exit the outer block conditionally
		if r.Intn(3) == 0 {
			g.expr(I32, depth+1)
			g.a.BrIf(1)
		}
		g.a.LocalGet(cnt)
		g.a.I32Const(1)
		g.a.Num(wasm.OpcodeI32Sub)
		g.a.LocalTee(cnt)
		g.a.BrIf(0)
		g.labels = g.labels[:len(g.labels)-1]
		g.a.End()
		g.labels = g.labels[:len(g.labels)-1]
		g.a.End()
		g.nLoops--
	case 9:
		// block with br_table over enclosing forward labels of arity 0
		g.a.Block(0, false)
		g.labels = append(g.labels, labelInfo{})
		g.a.Block(0, false)
		g.labels = append(g.labels, labelInfo{})
		g.a.Block(0, false)
		g.labels = append(g.labels, labelInfo{})
		g.expr(I32, depth+1)
		n := 1 + r.Intn(4)
		ls := make([]uint32, n)
		for i := range ls {
			ls[i] = uint32(r.Intn(3))
		}
		g.a.BrTable(ls, uint32(r.Intn(3)))
		g.labels = g.labels[:len(g.labels)-1]
		g.a.End()
		g.stmts(depth+1, r.Intn(2))
		g.labels = g.labels[:len(g.labels)-1]
		g.a.End()
		g.stmts(depth+1, r.Intn(2))
		g.labels = g.labels[:len(g.labels)-1]
		g.a.End()
	case 10:
		// conditional early return with the function's results
		g.expr(I32, depth+1)
		g.a.If(0, false)
		g.labels = append(g.labels, labelInfo{})
		for _, rt := range g.results {
			g.expr(rt, depth+1)
		}
		g.a.Return()
		g.labels = g.labels[:len(g.labels)-1]
		g.a.End()
	case 11:
		// conditional branch out of an enclosing arity-0 forward label
		var cands []uint32
		for i := range g.labels {
			l := g.labels[len(g.labels)-1-i]
			if !l.isLoop && len(l.arity) == 0 {
				cands = append(cands, uint32(i))
			}
		}
		if len(cands) == 0 {
			return
		}
		g.expr(I32, depth+1)
		g.a.BrIf(cands[r.Intn(len(cands))])
	case 12:
		total := len(g.m.Imports) + len(g.m.Funcs)
		if g.leafOnly {
			total = len(g.m.Imports)
		}
		if total == 0 {
			return
		}
		f := uint32(r.Intn(total))
		ft := g.typeOfFunc(f)
		for _, p := range ft.Params {
			g.expr(p, depth+1)
		}
		g.a.Call(f)
		// multi-value results: keep one in a local sometimes, drop the rest
		for k := len(ft.Results) - 1; k >= 0; k-- {
			if ls := g.localsOf(ft.Results[k]); len(ls) > 0 && r.Intn(2) == 0 {
				g.a.LocalSet(ls[r.Intn(len(ls))])
			} else {
				g.a.Drop()
			}
		}
	case 19, 20:
		if g.m.HasMem && r.Intn(3) == 0 {
			g.stackedLoadStore(depth)
		} else if g.cfg.BlockParams && (r.Intn(2) == 0 || !(g.cfg.Atomics || g.cfg.SIMD)) {
			g.paramBlock(depth)
		} else if g.m.HasMem && (g.cfg.Atomics || g.cfg.SIMD) {
			g.catalogueAccess(depth)
		}
	case 13:
		g.pressure(depth)
	case 15:
		if g.cfg.SIMD {
			if ls := g.localsOf(V128); len(ls) > 0 && r.Intn(2) == 0 {
				g.vexpr(depth + 1)
				g.a.LocalSet(ls[r.Intn(len(ls))])
			} else if g.m.HasMem {
				g.expr(I32, depth+1)
				g.a.I32Const(0xfff0)
				g.a.Num(wasm.OpcodeI32And)
				g.vexpr(depth + 1)
				g.a.Vec(uint32(wasm.OpcodeVecV128Store), append(leb128.EncodeUint32(0), leb128.EncodeUint32(uint32(r.Intn(32)))...))
			}
		}
	case 16:
		if g.cfg.TailCalls {
			// conditional tail call to a function with the same result types
			cs := g.callees(g.results)
			if len(cs) == 0 {
				return
			}
			f := cs[r.Intn(len(cs))]
			g.expr(I32, depth+1)
			g.a.If(0, false)
			g.labels = append(g.labels, labelInfo{})
			for _, p := range g.typeOfFunc(f).Params {
				g.expr(p, depth+1)
			}
			g.a.ReturnCall(f)
			g.labels = g.labels[:len(g.labels)-1]
			g.a.End()
		}
	case 14:
		if !g.m.HasMem || !g.cfg.Bulk {
			return
		}
		// dst, src|val, n
		g.bulkAddr()
		if r.Intn(2) == 0 {
			g.bulkAddr()
			g.bulkLen()
			g.a.MemCopy()
		} else {
			g.expr(I32, depth+1)
			g.bulkLen()
			g.a.MemFill()
		}
	default:
		if r.Intn(40) == 0 {
			g.expr(I32, depth+1)
			g.a.If(0, false)
			g.a.Unreachable()
			g.a.End()
		}
	}
}

// catalogueAccess: one memory instruction from the complete catalogue (package memcat) that the plain load/store
// statements do not reach: every atomic form (with cfg.Atomics) and the v128 splat / extend / zero / lane forms
// (with cfg.SIMD).  The address is aligned and mostly in bounds; operands are expressions; results go to locals.
func (g *fgen) catalogueAccess(depth int) {
	r := g.r
	var cands []memcat.Op
	for _, o := range memcat.All() {
		vec := o.Kind == "vload" || o.Kind == "vlload" || o.Kind == "vlstore"
		if (o.Atomic && g.cfg.Atomics) || (vec && g.cfg.SIMD) {
			cands = append(cands, o)
		}
	}
	if len(cands) == 0 {
		return
	}
	o := cands[r.Intn(len(cands))]
	vt := func(c byte) VT {
		switch c {
		case 'I':
			return I64
		case 'f':
			return F32
		case 'F':
			return F64
		case 'v':
			return V128
		}
		return I32
	}
	// address: (expr & 0xfff8) so that it is aligned for every width and within the first page (a memory of 0 pages
	// traps on both engines alike); one in eight unmasked (unaligned / out of bounds: both engines must trap alike)
	g.expr(I32, depth+1)
	if r.Intn(8) > 0 {
		g.a.I32Const(0xfff8)
		g.a.Num(wasm.OpcodeI32And)
	}
	switch o.Kind {
	case "store", "rmw":
		g.expr(vt(o.Res), depth+1)
	case "cmpxchg":
		g.expr(vt(o.Res), depth+1)
		g.expr(vt(o.Res), depth+1)
	case "notify":
		g.expr(I32, depth+1)
	case "vlload", "vlstore":
		g.vexpr(depth + 1)
	}
	g.a.B = append(g.a.B, o.Instr(uint32(r.Intn(3))*uint32(o.W))...)
	g.a.T = append(g.a.T, "memcat:"+o.Name)
	Stats["memcat:"+o.Kind]++
	if res := o.Result(); res != 0 {
		t := vt(res)
		if !g.ok(t) {
			g.a.Drop()
		} else if ls := g.localsOf(t); len(ls) > 0 {
			g.a.LocalSet(ls[r.Intn(len(ls))])
		} else {
			g.a.Drop()
		}
	}
}

// stackedLoadStore: a loaded value WAITS ON THE OPERAND STACK while a store through the SAME address value
// overwrites (part of) the bytes it read; only then it is consumed, once, by a binary operator:
//
//	a := expr & 0xff8 ; [other] ; load(a+x) ; store_w(a+y, v) ; [other] ; op
//
// The store needs no bounds check of its own (same base value, smaller ceiling), so nothing but the store itself
// stands between the load and its consumer: instruction selection that folds the load into the consumer as a
// memory operand must not move it past the store - whatever the store's width (8, 16, 32, 64 bits, float).
func (g *fgen) stackedLoadStore(depth int) {
	r := g.r
	var ts []VT
	for _, t := range g.types() {
		if len(binops[t]) > 0 {
			ts = append(ts, t)
		}
	}
	t := ts[r.Intn(len(ts))]
	var ld memOp
	for _, l := range loads {
		if l.t == t && (l.name == TName(t)+".load" || r.Intn(4) == 0) {
			ld = l
			if l.name == TName(t)+".load" {
				break
			}
		}
	}
	size := uint32(4)
	if t == I64 || t == F64 {
		size = 8
	}
	sa := g.scratch(I32)
	g.expr(I32, depth+1)
	g.a.I32Const(0xff8)
	g.a.Num(wasm.OpcodeI32And)
	g.a.LocalSet(sa)
	loadFirst := r.Intn(2) == 0
	if !loadFirst {
		g.expr(t, g.cfg.MaxDepth)
	}
	x := uint32(r.Intn(3)) * 8
	g.a.LocalGet(sa)
	g.a.Mem(ld.name, ld.opc, ld.al, x)
	// the store: any width, inside the bytes the load read (y + w <= x + size)
	var cands []memOp
	for _, st := range stores {
		if g.ok(st.t) {
			cands = append(cands, st)
		}
	}
	st := cands[r.Intn(len(cands))]
	w := uint32(1) << st.al
	y := x
	if w < size {
		y = x + uint32(r.Intn(int(size-w)+1))
	} else if w > size {
		w, y = size, x
		for _, c := range cands { // a store of the load's own width instead
			if uint32(1)<<c.al == size && c.t == t {
				st = c
			}
		}
	}
	g.a.LocalGet(sa)
	g.expr(st.t, g.cfg.MaxDepth)
	g.a.Mem(st.name, st.opc, st.al, y)
	Stats["stacked:"+ld.name+"/"+st.name]++
	if loadFirst {
		g.expr(t, g.cfg.MaxDepth)
	}
	var ops2 []numOp
	for _, o := range binops[t] {
		if o.params[0] == t && o.params[1] == t {
			ops2 = append(ops2, o)
		}
	}
	op := ops2[r.Intn(len(ops2))]
	g.a.Num(op.opc)
	if op.float {
		g.canon(t)
	}
	t = op.result
	// mostly straight into a global: what the consumer computed must be observable
	if gs := g.globalsOf(t); len(gs) > 0 && r.Intn(4) > 0 {
		g.a.GlobalSet(gs[r.Intn(len(gs))])
	} else if ls := g.localsOf(t); len(ls) > 0 {
		g.a.LocalSet(ls[r.Intn(len(ls))])
	} else {
		g.a.Drop()
	}
}

func (g *fgen) typeIdxOf(p, r []VT) uint32 {
	for i, t := range g.m.Types {
		if string(t.Params) == string(p) && string(t.Results) == string(r) {
			return uint32(i)
		}
	}
	g.m.Types = append(g.m.Types, FuncType{Params: append([]VT{}, p...), Results: append([]VT{}, r...)})
	return uint32(len(g.m.Types) - 1)
}

// sink consumes the values of the given types from the stack (top = last): into locals or dropped.
func (g *fgen) sink(ts []VT) {
	for k := len(ts) - 1; k >= 0; k-- {
		if ls := g.localsOf(ts[k]); len(ls) > 0 && g.r.Intn(3) > 0 {
			g.a.LocalSet(ls[g.r.Intn(len(ls))])
		} else {
			g.a.Drop()
		}
	}
}

// paramBlock: a block, loop or if whose block type has PARAMETERS (and any number of results), of every value
// type incl. v128: the operands enter through the label, a loop's back edge is TAKEN with fresh operands (the
// values that survive a branch are counted in slots, not in values: a v128 takes two in the interpreter),
// forward branches carry the results past junk on the stack.
func (g *fgen) paramBlock(depth int) {
	r := g.r
	ts := g.types()
	if g.cfg.SIMD {
		ts = append(append([]VT{}, ts...), V128, V128)
	}
	pick := func(n int) []VT {
		out := make([]VT, n)
		for i := range out {
			out[i] = ts[r.Intn(len(ts))]
		}
		return out
	}
	P, R := pick(1+r.Intn(3)), pick(r.Intn(3))
	kind := r.Intn(3) // 0 block, 1 loop, 2 if
	Stats[fmt.Sprintf("paramblock:kind%d", kind)]++
	if kind == 1 && g.nLoops >= 2 {
		kind = 0
	}
	ti := g.typeIdxOf(P, R)
	var cnt uint32
	if kind == 1 {
		cnt = uint32(len(g.locals)) - 6 + uint32(g.nLoops)
		g.nLoops++
		g.a.I32Const(uint32(2 + r.Intn(3)))
		g.a.LocalSet(cnt)
	}
	junk := r.Intn(3) == 0 // a value below the operands that must survive untouched
	if junk {
		g.expr(I64, depth+1)
	}
	for _, p := range P {
		g.expr(p, depth+1)
	}
	switch kind {
	case 0:
		g.a.BlockT(wasm.OpcodeBlock, "block", ti)
	case 1:
		g.a.BlockT(wasm.OpcodeLoop, "loop", ti)
	default:
		g.expr(I32, depth+1)
		g.a.BlockT(wasm.OpcodeIf, "if", ti)
	}
	arity := R
	if kind == 1 {
		arity = P
	}
	g.labels = append(g.labels, labelInfo{arity: arity, isLoop: kind == 1})
	g.sink(P)
	g.stmts(depth+1, r.Intn(2))
	if kind == 1 {
		// back edge with operands: cnt--; new operands; br_if 0 while cnt != 0; the fall-through leaves them on the stack
		g.a.LocalGet(cnt)
		g.a.I32Const(1)
		g.a.Num(wasm.OpcodeI32Sub)
		g.a.LocalSet(cnt)
		for _, p := range P {
			g.expr(p, depth+1)
		}
		g.a.LocalGet(cnt)
		g.a.BrIf(0)
		g.sink(P)
	} else if r.Intn(2) == 0 {
		// conditional early exit carrying the results
		for _, t := range R {
			g.expr(t, depth+1)
		}
		g.expr(I32, depth+1)
		g.a.BrIf(0)
		g.sink(R)
	}
	for _, t := range R {
		g.expr(t, depth+1)
	}
	if kind == 2 {
		g.a.Else()
		g.sink(P)
		for _, t := range R {
			g.expr(t, depth+1)
		}
	}
	g.labels = g.labels[:len(g.labels)-1]
	g.a.End()
	g.sink(R)
	if junk {
		if ls := g.localsOf(I64); len(ls) > 0 {
			g.a.LocalSet(ls[r.Intn(len(ls))])
		} else {
			g.a.Drop()
		}
	}
	if kind == 1 {
		g.nLoops--
	}
}

// delayed emits a value that is produced here and consumed exactly once only after other statements have
// run in between: `cond = (load <relop> x); <statements with side effects>; br_if/if/select cond`.
// Instruction selection that fuses a single-use producer (a load, a comparison) into its consumer must not
// move it across the stores, calls and traps in between (finding F39).
func (g *fgen) delayed(depth int) { g.delayedF(depth, false) }

// delayedF: focused = the producer is `x <relop> global` / `global <relop> x` with x free of side effects,
// the statement in between overwrites exactly that global, and the consumer is never trivial.
func (g *fgen) delayedF(depth int, focused bool) {
	r := g.r
	if g.delayBusy {
		return
	}
	d := uint32(len(g.locals)) - 7
	g.delayBusy = true
	readGlobal, readT := -1, I32
	// producer: mostly a comparison whose first operand is a plain load
	pick := r.Intn(4)
	if focused {
		pick = 1
	}
	switch pick {
	case 0:
		g.expr(I32, depth+1)
	default:
		t := []VT{I32, I64}[r.Intn(2)]
		if focused && len(g.globalsOf(t)) == 0 {
			t = I32 + I64 - t
		}
		other := func() {
			if ls := g.localsOf(t); focused && len(ls) > 0 && r.Intn(2) == 0 {
				g.a.LocalGet(ls[r.Intn(len(ls))])
			} else if focused || r.Intn(2) == 0 {
				g.a.Const(t, RandVal(r, t))
			} else {
				g.expr(t, g.cfg.MaxDepth)
			}
		}
		// the load is the first or the second operand (back ends fuse memory operands on one side only)
		loadFirst := r.Intn(2) == 0
		if !loadFirst {
			other()
		}
		gs := g.globalsOf(t)
		switch {
		case len(gs) > 0 && (focused || r.Intn(3) > 0):
			readGlobal, readT = int(gs[r.Intn(len(gs))]), t
			g.a.GlobalGet(uint32(readGlobal))
		case g.m.HasMem && r.Intn(2) == 0:
			for _, l := range loads {
				if l.t == t {
					g.a.I32Const(uint32(r.Intn(4096)))
					g.a.Mem(l.name, l.opc, l.al, uint32(r.Intn(64)))
					break
				}
			}
		default:
			g.expr(t, g.cfg.MaxDepth)
		}
		if loadFirst {
			other()
		}
		var rel []numOp
		for _, o := range binops[I32] {
			if o.params[0] == t {
				rel = append(rel, o)
			}
		}
		g.a.Num(rel[r.Intn(len(rel))].opc)
	}
	g.a.LocalSet(d)
	// the statements in between: at least one with a side effect on what the producer read
	if readGlobal >= 0 && (focused || r.Intn(4) > 0) {
		// overwrite exactly what the producer read
		if focused {
			g.a.Const(readT, RandVal(r, readT))
		} else {
			g.expr(readT, g.cfg.MaxDepth)
		}
		g.a.GlobalSet(uint32(readGlobal))
	} else if gs := g.globalsOf(I32); len(gs) > 0 && r.Intn(2) == 0 {
		g.expr(I32, g.cfg.MaxDepth)
		g.a.GlobalSet(gs[r.Intn(len(gs))])
	} else if gs := g.globalsOf(I64); len(gs) > 0 && r.Intn(2) == 0 {
		g.expr(I64, g.cfg.MaxDepth)
		g.a.GlobalSet(gs[r.Intn(len(gs))])
	} else {
		g.stmts(depth+1, 1+r.Intn(2))
	}
	g.delayBusy = false
	// consumer
	switch r.Intn(4) {
	case 0:
		g.a.LocalGet(d)
		g.a.If(0, false)
		g.labels = append(g.labels, labelInfo{})
		g.stmts(depth+1, 1)
		g.labels = g.labels[:len(g.labels)-1]
		g.a.End()
	case 1:
		if ls := g.localsOf(I32); len(ls) > 0 {
			g.a.I32Const(uint32(r.Intn(100)))
			g.a.I32Const(uint32(r.Intn(100)))
			g.a.LocalGet(d)
			g.a.Select()
			g.a.LocalSet(ls[r.Intn(len(ls))])
		}
	default:
		// conditional branch to the end of a block: skipping the statements after it, or (when the block is
		// the last thing before a merge) an edge the compiler has to split
		g.a.Block(0, false)
		g.labels = append(g.labels, labelInfo{})
		g.a.LocalGet(d)
		g.a.BrIf(0)
		if focused {
			g.stmts(depth+1, 1)
		} else {
			g.stmts(depth+1, r.Intn(2))
		}
		g.labels = g.labels[:len(g.labels)-1]
		g.a.End()
	}
}

func (g *fgen) bulkAddr() {
	switch g.r.Intn(8) {
	case 0:
		g.a.I32Const(uint32(int(g.m.MemMin)*65536 - g.r.Intn(40)))
	case 1:
		g.expr(I32, 2)
	default:
		g.expr(I32, 2)
		g.a.I32Const(0xffff)
		g.a.Num(wasm.OpcodeI32And)
	}
}

func (g *fgen) bulkLen() {
	switch g.r.Intn(8) {
	case 0:
		g.a.I32Const(0)
	case 1:
		g.expr(I32, 2)
		g.a.I32Const(0x1ff)
		g.a.Num(wasm.OpcodeI32And)
	default:
		g.a.I32Const(uint32(g.r.Intn(70)))
	}
}

// vexpr pushes one v128 value.
func (g *fgen) vexpr(depth int) {
	r := g.r
	if depth >= g.cfg.MaxDepth+1 {
		g.vleaf()
		return
	}
	switch r.Intn(11) {
	case 0, 1:
		g.vleaf()
	case 9:
		// i8x16.shuffle with 16 lane indices below 32
		g.vexpr(depth + 1)
		g.vexpr(depth + 1)
		imm := make([]byte, 16)
		for i := range imm {
			imm[i] = byte(r.Intn(32))
		}
		g.a.Vec(uint32(wasm.OpcodeVecV128i8x16Shuffle), imm)
	case 10:
		g.vexpr(depth + 1)
		g.vexpr(depth + 1)
		g.vexpr(depth + 1)
		g.a.Vec(uint32(wasm.OpcodeVecV128Bitselect), nil)
	case 2, 3, 4:
		op := vecBin[r.Intn(len(vecBin))]
		g.vexpr(depth + 1)
		g.vexpr(depth + 1)
		g.a.Vec(op.opc, nil)
	case 5:
		op := vecUn[r.Intn(len(vecUn))]
		g.vexpr(depth + 1)
		g.a.Vec(op.opc, nil)
	case 6:
		op := vecShift[r.Intn(len(vecShift))]
		g.vexpr(depth + 1)
		g.expr(I32, depth+1)
		g.a.Vec(op.opc, nil)
	case 7:
		sp := vecSplat[r.Intn(len(vecSplat))]
		if !g.ok(sp.t) {
			g.vleaf()
			return
		}
		g.expr(sp.t, depth+1)
		g.a.Vec(sp.opc, nil)
	default:
		rp := vecReplace[r.Intn(len(vecReplace))]
		if !g.ok(rp.t) {
			g.vleaf()
			return
		}
		g.vexpr(depth + 1)
		g.expr(rp.t, depth+1)
		g.a.Vec(rp.opc, []byte{byte(r.Intn(rp.lanes))})
	}
}

func (g *fgen) vleaf() {
	r := g.r
	if ls := g.localsOf(V128); len(ls) > 0 && r.Intn(2) == 0 {
		g.a.LocalGet(ls[r.Intn(len(ls))])
		return
	}
	if g.m.HasMem && r.Intn(3) == 0 {
		g.expr(I32, g.cfg.MaxDepth)
		g.a.I32Const(0xfff0)
		g.a.Num(wasm.OpcodeI32And)
		g.a.Vec(uint32(wasm.OpcodeVecV128Load), append(leb128.EncodeUint32(0), leb128.EncodeUint32(uint32(r.Intn(32)))...))
		return
	}
	imm := make([]byte, 16)
	if r.Intn(2) == 0 {
		r.Read(imm)
	} else {
		pat := []byte{0, 1, 0x7f, 0x80, 0xff}
		for i := range imm {
			imm[i] = pat[r.Intn(len(pat))]
		}
	}
	g.a.Vec(uint32(wasm.OpcodeVecV128Const), imm)
}

// pressure keeps many values live across a call: fill locals, call, then fold them all.
func (g *fgen) pressure(depth int) {
	r := g.r
	var used []uint32
	n := len(g.locals) - 7
	for i := 0; i < n; i++ {
		if !g.ok(g.locals[i]) {
			continue
		}
		g.expr(g.locals[i], depth+2)
		g.a.LocalSet(uint32(i))
		used = append(used, uint32(i))
	}
	// a call in the middle (any callee), results dropped
	total := len(g.m.Imports) + len(g.m.Funcs)
	if g.leafOnly {
		total = len(g.m.Imports)
	}
	if total > 0 {
		f := uint32(r.Intn(total))
		ft := g.typeOfFunc(f)
		for _, p := range ft.Params {
			if ls := g.localsOf(p); len(ls) > 0 {
				g.a.LocalGet(ls[r.Intn(len(ls))])
			} else {
				g.leaf(p)
			}
		}
		g.a.Call(f)
		for range ft.Results {
			g.a.Drop()
		}
	}
	// v128 locals: combine them pairwise (binary ops and shuffles) and store the result to memory
	if g.cfg.SIMD && g.m.HasMem {
		var vs []uint32
		for _, i := range used {
			if g.locals[i] == V128 {
				vs = append(vs, i)
			}
		}
		if len(vs) >= 2 {
			g.a.I32Const(uint32(16 * r.Intn(64)))
			g.a.LocalGet(vs[0])
			for _, i := range vs[1:] {
				g.a.LocalGet(i)
				if r.Intn(2) == 0 {
					imm := make([]byte, 16)
					for k := range imm {
						imm[k] = byte(r.Intn(32))
					}
					g.a.Vec(uint32(wasm.OpcodeVecV128i8x16Shuffle), imm)
				} else {
					g.a.Vec(vecBin[r.Intn(len(vecBin))].opc, nil)
				}
			}
			g.a.Vec(uint32(wasm.OpcodeVecV128Store), append(leb128.EncodeUint32(0), leb128.EncodeUint32(0)...))
		}
	}
	// fold every local of each type into one and store it where it is observable
	for _, t := range g.types() {
		var ls []uint32
		for _, i := range used {
			if g.locals[i] == t {
				ls = append(ls, i)
			}
		}
		if len(ls) < 2 {
			continue
		}
		ops := binops[t]
		g.a.LocalGet(ls[0])
		for _, i := range ls[1:] {
			g.a.LocalGet(i)
			var op numOp
			for {
				op = ops[r.Intn(len(ops))]
				// avoid trapping folds
				nm := wasm.InstructionName(op.opc)
				if op.params[0] == t && !strings.Contains(nm, "div") && !strings.Contains(nm, "rem") {
					break
				}
			}
			g.a.Num(op.opc)
			if op.float {
				g.canon(t)
			}
		}
		if gs := g.globalsOf(t); len(gs) > 0 {
			g.a.GlobalSet(gs[r.Intn(len(gs))])
		} else {
			g.a.LocalSet(ls[0])
		}
	}
}

// Generate builds a module.
func Generate(r *rand.Rand, cfg Config) *Module {
	m := &Module{}
	ts := allTypes
	if !cfg.Floats {
		ts = []VT{I32, I64}
	}
	// globals: fuel + 0..4
	m.Globals = []Global{{I32, 0}}
	for i := r.Intn(5); i > 0; i-- {
		t := ts[r.Intn(len(ts))]
		m.Globals = append(m.Globals, Global{t, RandVal(r, t)})
	}
	if cfg.Memory && r.Intn(5) > 0 {
		m.HasMem = true
		m.MemMin = uint32(1 + r.Intn(2))
		if r.Intn(2) == 0 {
			m.HasMax = true
			m.MemMax = m.MemMin + uint32(r.Intn(3))
		}
		m.Data = make([]byte, 16+r.Intn(64))
		r.Read(m.Data)
		m.DataOff = uint32(r.Intn(200))
	}
	typeIdx := func(ft FuncType) int {
		for i, t := range m.Types {
			if string(t.Params) == string(ft.Params) && string(t.Results) == string(ft.Results) {
				return i
			}
		}
		m.Types = append(m.Types, ft)
		return len(m.Types) - 1
	}
	maxP, maxR, maxL := 4, 2, 6
	if cfg.MaxParams > 0 {
		maxP = cfg.MaxParams
	}
	if cfg.MaxResults > 0 {
		maxR = cfg.MaxResults
	}
	if cfg.MaxLocals > 0 {
		maxL = cfg.MaxLocals
	}
	randType := func(maxRes int) FuncType {
		var ft FuncType
		for i := r.Intn(maxP + 1); i > 0; i-- {
			ft.Params = append(ft.Params, ts[r.Intn(len(ts))])
		}
		for i := r.Intn(maxRes + 1); i > 0; i-- {
			ft.Results = append(ft.Results, ts[r.Intn(len(ts))])
		}
		return ft
	}
	for i := 0; i < cfg.Imports; i++ {
		m.Imports = append(m.Imports, typeIdx(randType(1)))
	}
	nf := 1 + r.Intn(cfg.MaxFuncs)
	for i := 0; i < nf; i++ {
		m.Funcs = append(m.Funcs, Func{Type: typeIdx(randType(maxR))})
	}
	if r.Intn(4) > 0 {
		for i := range m.Funcs {
			m.Table = append(m.Table, uint32(len(m.Imports)+i))
		}
		m.Table = append(m.Table, uint32(len(m.Imports))) // one duplicate slot
	}
	for i := range m.Funcs {
		ft := m.Types[m.Funcs[i].Type]
		g := &fgen{r: r, m: m, cfg: cfg, self: i, params: ft.Params, results: ft.Results, a: &Asm{}}
		g.locals = append(g.locals, ft.Params...)
		var decl []VT
		for k := r.Intn(maxL + 1); k > 0; k-- {
			decl = append(decl, ts[r.Intn(len(ts))])
		}
		if cfg.SIMD {
			for k := 1 + r.Intn(4); k > 0; k-- {
				decl = append(decl, V128)
			}
		}
		decl = append(decl, I32)                // delay slot (see delayed)
		decl = append(decl, I32, I32)           // loop counters
		decl = append(decl, I32, I64, F32, F64) // scratch
		g.locals = append(g.locals, decl...)
		// fuel check; a third of the functions are leaves without it (they call imports only), so that their
		// first instructions are not preceded by any side effect
		g.leafOnly = r.Intn(3) == 0
		if !g.leafOnly {
			g.a.GlobalGet(0)
			g.a.Num(wasm.OpcodeI32Eqz)
			g.a.If(0, false)
			g.a.Unreachable()
			g.a.End()
			g.a.GlobalGet(0)
			g.a.I32Const(1)
			g.a.Num(wasm.OpcodeI32Sub)
			g.a.GlobalSet(0)
		}
		if g.leafOnly && r.Intn(2) == 0 {
			g.delayedF(0, true) // first thing in the function: nothing with a side effect precedes the producer
		}
		g.stmts(0, 1+r.Intn(cfg.MaxStmts))
		for _, rt := range ft.Results {
			g.expr(rt, 1)
		}
		m.Funcs[i].Locals = decl
		m.Funcs[i].Code = g.a
	}
	return m
}
