package gen

import (
	"fmt"
	"strconv"
	"strings"

	"github.com/tetratelabs/wazero/internal/wasm"
)

// FromLines rebuilds a Module from its oracle line rendering (the inverse of Module.Lines), so that
// a replay file can be edited by hand / shrunk and re-run on the engines and the Lean reference.
func FromLines(lines []string) (*Module, error) {
	m := &Module{}
	pt := func(s string) ([]VT, error) {
		if s == "-" {
			return nil, nil
		}
		var out []VT
		for _, x := range strings.Split(s, ",") {
			switch x {
			case "i32":
				out = append(out, I32)
			case "i64":
				out = append(out, I64)
			case "f32":
				out = append(out, F32)
			case "f64":
				out = append(out, F64)
			case "v128":
				out = append(out, V128)
			default:
				return nil, fmt.Errorf("type %q", x)
			}
		}
		return out, nil
	}
	for _, l := range lines {
		f := strings.Fields(l)
		if len(f) < 3 || f[0] != "c01" {
			continue
		}
		switch f[1] {
		case "type":
			p, err := pt(f[3])
			if err != nil {
				return nil, err
			}
			r, err := pt(f[4])
			if err != nil {
				return nil, err
			}
			m.Types = append(m.Types, FuncType{p, r})
		case "import":
			ti, _ := strconv.Atoi(f[3])
			m.Imports = append(m.Imports, ti)
		case "func":
			ti, _ := strconv.Atoi(f[3])
			ls, err := pt(f[4])
			if err != nil {
				return nil, err
			}
			a, err := Assemble(f[5:])
			if err != nil {
				return nil, err
			}
			m.Funcs = append(m.Funcs, Func{Type: ti, Locals: ls, Code: a})
		case "mem":
			m.HasMem = true
			mn, _ := strconv.Atoi(f[3])
			m.MemMin = uint32(mn)
			if f[4] != "-" {
				mx, _ := strconv.Atoi(f[4])
				m.HasMax, m.MemMax = true, uint32(mx)
			}
		case "global":
			t, err := pt(f[3])
			if err != nil {
				return nil, err
			}
			v, _ := strconv.ParseUint(f[4], 10, 64)
			m.Globals = append(m.Globals, Global{t[0], v})
		case "table":
			for _, x := range strings.Split(f[3], ",") {
				v, _ := strconv.Atoi(x)
				m.Table = append(m.Table, uint32(v))
			}
		case "data":
			off, _ := strconv.Atoi(f[3])
			m.DataOff = uint32(off)
			fmt.Sscanf(f[4], "%x", &m.Data)
		}
	}
	return m, nil
}

// Assemble turns a token list back into an Asm (bytes + tokens).
func Assemble(toks []string) (*Asm, error) {
	a := &Asm{}
	names := map[string]byte{}
	for opc := 0x45; opc <= 0xc4; opc++ {
		names[stdName(wasm.InstructionName(byte(opc)))] = byte(opc)
	}
	misc := map[string]byte{}
	for mo := 0; mo <= 7; mo++ {
		misc[wasm.MiscInstructionName(wasm.OpcodeMisc(mo))] = byte(mo)
	}
	mems := map[string]memOp{}
	for _, l := range loads {
		mems[l.name] = l
	}
	for _, s := range stores {
		mems[s.name] = s
	}
	bt := func(s string) (VT, bool) {
		switch s {
		case "i32":
			return I32, true
		case "i64":
			return I64, true
		case "f32":
			return F32, true
		case "f64":
			return F64, true
		}
		return 0, false
	}
	for _, tok := range toks {
		name, imm := tok, ""
		if i := strings.Index(tok, ":"); i >= 0 {
			name, imm = tok[:i], tok[i+1:]
		}
		u, _ := strconv.ParseUint(imm, 10, 64)
		switch name {
		case "i32.const":
			a.I32Const(uint32(u))
		case "i64.const":
			a.I64Const(u)
		case "f32.const":
			a.F32Const(uint32(u))
		case "f64.const":
			a.F64Const(u)
		case "local.get":
			a.LocalGet(uint32(u))
		case "local.set":
			a.LocalSet(uint32(u))
		case "local.tee":
			a.LocalTee(uint32(u))
		case "global.get":
			a.GlobalGet(uint32(u))
		case "global.set":
			a.GlobalSet(uint32(u))
		case "call":
			a.Call(uint32(u))
		case "return_call":
			a.ReturnCall(uint32(u))
		case "vec":
			parts := strings.SplitN(imm, ":", 2)
			opc, _ := strconv.Atoi(parts[0])
			var ib []byte
			if len(parts) > 1 && parts[1] != "" {
				fmt.Sscanf(parts[1], "%x", &ib)
			}
			a.Vec(uint32(opc), ib)
		case "call_indirect":
			a.CallIndirect(uint32(u))
		case "br":
			a.Br(uint32(u))
		case "br_if":
			a.BrIf(uint32(u))
		case "br_table":
			var ls []uint32
			for _, x := range strings.Split(imm, ",") {
				v, _ := strconv.Atoi(x)
				ls = append(ls, uint32(v))
			}
			a.BrTable(ls[:len(ls)-1], ls[len(ls)-1])
		case "block":
			t, has := bt(imm)
			a.Block(t, has)
		case "loop":
			t, has := bt(imm)
			a.Loop(t, has)
		case "if":
			t, has := bt(imm)
			a.If(t, has)
		case "else":
			a.Else()
		case "end":
			a.End()
		case "drop":
			a.Drop()
		case "select":
			a.Select()
		case "return":
			a.Return()
		case "unreachable":
			a.Unreachable()
		case "memory.size":
			a.MemSize()
		case "memory.grow":
			a.MemGrow()
		case "memory.copy":
			a.MemCopy()
		case "memory.fill":
			a.MemFill()
		default:
			if mo, ok := mems[name]; ok {
				a.Mem(mo.name, mo.opc, mo.al, uint32(u))
			} else if opc, ok := names[name]; ok {
				a.Num(opc)
			} else if mc, ok := misc[name]; ok {
				a.Misc(mc)
			} else {
				return nil, fmt.Errorf("unknown token %q", tok)
			}
		}
	}
	return a, nil
}
