// Package memcat is the complete catalogue of WebAssembly memory instructions (scalar loads/stores incl. the
// sign-extending and float forms, v128 load forms and lane accesses, every atomic load / store / read-modify-write
// / compare-exchange of every width, memory.atomic.notify) with enough of their meaning for harnesses to generate
// them and to compute a byte-exact reference: bytes touched, operands, result type.
package memcat

import (
	"encoding/binary"
	"fmt"
	"math/bits"

	"github.com/tetratelabs/wazero/internal/leb128"
	"github.com/tetratelabs/wazero/internal/wasm"
	"github.com/tetratelabs/wazero/verifharness/wb"
)

// Op describes one memory instruction.
//
//	Kind: load (Res i|I|f|F, Sext) | store (Res) | rmw (Rop add|sub|and|or|xor|xchg) | cmpxchg |
//	      vload (Vk splat|ext-s|ext-u|zero, LaneW) | vlload / vlstore (Lane) | notify
type Op struct {
	Name               string
	W                  int // bytes accessed
	Enc                []byte
	Align              uint32
	Kind               string
	Res                byte
	Sext               bool
	Rop, Vk            string
	LaneW, Lane        int
	Atomic, Store, Rmw bool
}

var all []Op

// All returns the catalogue (stable order).
func All() []Op { return all }

func add(o Op) {
	for _, x := range all {
		if x.Name == o.Name {
			panic("memcat: duplicate " + o.Name)
		}
	}
	all = append(all, o)
}

func log2(w int) uint32 { return uint32(bits.TrailingZeros(uint(w))) }

func init() {
	sc := func(name string, opc byte, w int, res byte, sext, store bool) {
		k := "load"
		if store {
			k = "store"
		}
		add(Op{Name: name, W: w, Store: store, Enc: []byte{opc}, Align: log2(w), Kind: k, Res: res, Sext: sext})
	}
	sc("i32.load", wasm.OpcodeI32Load, 4, 'i', false, false)
	sc("i64.load", wasm.OpcodeI64Load, 8, 'I', false, false)
	sc("f32.load", wasm.OpcodeF32Load, 4, 'f', false, false)
	sc("f64.load", wasm.OpcodeF64Load, 8, 'F', false, false)
	sc("i32.load8_s", wasm.OpcodeI32Load8S, 1, 'i', true, false)
	sc("i32.load8_u", wasm.OpcodeI32Load8U, 1, 'i', false, false)
	sc("i32.load16_s", wasm.OpcodeI32Load16S, 2, 'i', true, false)
	sc("i32.load16_u", wasm.OpcodeI32Load16U, 2, 'i', false, false)
	sc("i64.load8_s", wasm.OpcodeI64Load8S, 1, 'I', true, false)
	sc("i64.load8_u", wasm.OpcodeI64Load8U, 1, 'I', false, false)
	sc("i64.load16_s", wasm.OpcodeI64Load16S, 2, 'I', true, false)
	sc("i64.load16_u", wasm.OpcodeI64Load16U, 2, 'I', false, false)
	sc("i64.load32_s", wasm.OpcodeI64Load32S, 4, 'I', true, false)
	sc("i64.load32_u", wasm.OpcodeI64Load32U, 4, 'I', false, false)
	sc("i32.store", wasm.OpcodeI32Store, 4, 'i', false, true)
	sc("i64.store", wasm.OpcodeI64Store, 8, 'I', false, true)
	sc("f32.store", wasm.OpcodeF32Store, 4, 'f', false, true)
	sc("f64.store", wasm.OpcodeF64Store, 8, 'F', false, true)
	sc("i32.store8", wasm.OpcodeI32Store8, 1, 'i', false, true)
	sc("i32.store16", wasm.OpcodeI32Store16, 2, 'i', false, true)
	sc("i64.store8", wasm.OpcodeI64Store8, 1, 'I', false, true)
	sc("i64.store16", wasm.OpcodeI64Store16, 2, 'I', false, true)
	sc("i64.store32", wasm.OpcodeI64Store32, 4, 'I', false, true)

	v := func(name string, opc byte, w int, vk string, lanew int) {
		add(Op{Name: name, W: w, Enc: []byte{wasm.OpcodeVecPrefix, opc}, Align: log2(w), Kind: "vload", Res: 'v', Vk: vk, LaneW: lanew})
	}
	v("v128.load8x8_s", wasm.OpcodeVecV128Load8x8s, 8, "ext-s", 1)
	v("v128.load8x8_u", wasm.OpcodeVecV128Load8x8u, 8, "ext-u", 1)
	v("v128.load16x4_s", wasm.OpcodeVecV128Load16x4s, 8, "ext-s", 2)
	v("v128.load16x4_u", wasm.OpcodeVecV128Load16x4u, 8, "ext-u", 2)
	v("v128.load32x2_s", wasm.OpcodeVecV128Load32x2s, 8, "ext-s", 4)
	v("v128.load32x2_u", wasm.OpcodeVecV128Load32x2u, 8, "ext-u", 4)
	v("v128.load8_splat", wasm.OpcodeVecV128Load8Splat, 1, "splat", 1)
	v("v128.load16_splat", wasm.OpcodeVecV128Load16Splat, 2, "splat", 2)
	v("v128.load32_splat", wasm.OpcodeVecV128Load32Splat, 4, "splat", 4)
	v("v128.load64_splat", wasm.OpcodeVecV128Load64Splat, 8, "splat", 8)
	v("v128.load32_zero", wasm.OpcodeVecV128Load32zero, 4, "zero", 4)
	v("v128.load64_zero", wasm.OpcodeVecV128Load64zero, 8, "zero", 8)
	for _, l := range []struct {
		w      int
		ld, st byte
	}{{1, wasm.OpcodeVecV128Load8Lane, wasm.OpcodeVecV128Store8Lane}, {2, wasm.OpcodeVecV128Load16Lane, wasm.OpcodeVecV128Store16Lane},
		{4, wasm.OpcodeVecV128Load32Lane, wasm.OpcodeVecV128Store32Lane}, {8, wasm.OpcodeVecV128Load64Lane, wasm.OpcodeVecV128Store64Lane}} {
		n := 16 / l.w
		for _, lane := range []int{0, n - 1, n / 2} {
			add(Op{Name: fmt.Sprintf("v128.load%d_lane:%d", 8*l.w, lane), W: l.w, Enc: []byte{wasm.OpcodeVecPrefix, l.ld}, Align: log2(l.w), Kind: "vlload", Res: 'v', Lane: lane})
			add(Op{Name: fmt.Sprintf("v128.store%d_lane:%d", 8*l.w, lane), W: l.w, Store: true, Enc: []byte{wasm.OpcodeVecPrefix, l.st}, Align: log2(l.w), Kind: "vlstore", Res: 'v', Lane: lane})
			if n == 2 {
				break
			}
		}
	}

	at := func(name string, opc byte, w int, i64 bool, kind, rop string) {
		res := byte('i')
		if i64 {
			res = 'I'
		}
		add(Op{Name: name, W: w, Atomic: true, Store: kind == "store", Rmw: kind == "rmw" || kind == "cmpxchg", Enc: []byte{wasm.OpcodeAtomicPrefix, opc},
			Align: log2(w), Kind: kind, Res: res, Rop: rop})
	}
	at("i32.atomic.load", wasm.OpcodeAtomicI32Load, 4, false, "load", "")
	at("i64.atomic.load", wasm.OpcodeAtomicI64Load, 8, true, "load", "")
	at("i32.atomic.load8_u", wasm.OpcodeAtomicI32Load8U, 1, false, "load", "")
	at("i32.atomic.load16_u", wasm.OpcodeAtomicI32Load16U, 2, false, "load", "")
	at("i64.atomic.load8_u", wasm.OpcodeAtomicI64Load8U, 1, true, "load", "")
	at("i64.atomic.load16_u", wasm.OpcodeAtomicI64Load16U, 2, true, "load", "")
	at("i64.atomic.load32_u", wasm.OpcodeAtomicI64Load32U, 4, true, "load", "")
	at("i32.atomic.store", wasm.OpcodeAtomicI32Store, 4, false, "store", "")
	at("i64.atomic.store", wasm.OpcodeAtomicI64Store, 8, true, "store", "")
	at("i32.atomic.store8", wasm.OpcodeAtomicI32Store8, 1, false, "store", "")
	at("i32.atomic.store16", wasm.OpcodeAtomicI32Store16, 2, false, "store", "")
	at("i64.atomic.store8", wasm.OpcodeAtomicI64Store8, 1, true, "store", "")
	at("i64.atomic.store16", wasm.OpcodeAtomicI64Store16, 2, true, "store", "")
	at("i64.atomic.store32", wasm.OpcodeAtomicI64Store32, 4, true, "store", "")
	// the seven width/type forms of every read-modify-write operation are consecutive opcodes
	forms := []struct {
		suffix string
		w      int
		i64    bool
	}{{"i32.atomic.rmw.%s", 4, false}, {"i64.atomic.rmw.%s", 8, true}, {"i32.atomic.rmw8.%s_u", 1, false}, {"i32.atomic.rmw16.%s_u", 2, false},
		{"i64.atomic.rmw8.%s_u", 1, true}, {"i64.atomic.rmw16.%s_u", 2, true}, {"i64.atomic.rmw32.%s_u", 4, true}}
	for _, o := range []struct {
		rop  string
		base byte
	}{{"add", wasm.OpcodeAtomicI32RmwAdd}, {"sub", wasm.OpcodeAtomicI32RmwSub}, {"and", wasm.OpcodeAtomicI32RmwAnd}, {"or", wasm.OpcodeAtomicI32RmwOr},
		{"xor", wasm.OpcodeAtomicI32RmwXor}, {"xchg", wasm.OpcodeAtomicI32RmwXchg}, {"cmpxchg", wasm.OpcodeAtomicI32RmwCmpxchg}} {
		for k, f := range forms {
			kind := "rmw"
			if o.rop == "cmpxchg" {
				kind = "cmpxchg"
			}
			name := fmt.Sprintf(f.suffix, o.rop)
			if got := wasm.AtomicInstructionName(o.base + byte(k)); got != name {
				panic(fmt.Sprintf("memcat: opcode fe %02x is %q, expected %q", o.base+byte(k), got, name))
			}
			at(name, o.base+byte(k), f.w, f.i64, kind, o.rop)
		}
	}
	add(Op{Name: "memory.atomic.notify", W: 4, Atomic: true, Enc: []byte{wasm.OpcodeAtomicPrefix, wasm.OpcodeAtomicMemoryNotify}, Align: 2, Kind: "notify", Res: 'i'})
}

// Const is a constant of the operand type res (i32, i64, f32 or f64) with the bit pattern v.
func Const(res byte, v uint64) []byte {
	switch res {
	case 'i':
		return wb.I32Const(int32(uint32(v)))
	case 'I':
		return wb.I64Const(int64(v))
	case 'f':
		b := []byte{wasm.OpcodeF32Const, 0, 0, 0, 0}
		binary.LittleEndian.PutUint32(b[1:], uint32(v))
		return b
	}
	b := []byte{wasm.OpcodeF64Const, 0, 0, 0, 0, 0, 0, 0, 0}
	binary.LittleEndian.PutUint64(b[1:], v)
	return b
}

// Operands pushes the operands that follow the address: the stored value / the read-modify-write operand v,
// for compare-exchange the expected value v2 first; lane accesses take the vector i64x2.splat(v).
func (o Op) Operands(v, v2 uint64) []byte {
	switch o.Kind {
	case "store", "rmw":
		return Const(o.Res, v)
	case "cmpxchg":
		return wb.Cat(Const(o.Res, v2), Const(o.Res, v))
	case "notify":
		return wb.I32Const(int32(uint32(v)))
	case "vlload", "vlstore":
		return wb.Cat(wb.I64Const(int64(v)), wb.Op(wasm.OpcodeVecPrefix, wasm.OpcodeVecI64x2Splat))
	}
	return nil
}

// Instr is the instruction itself with its memarg (natural alignment hint) and lane immediate.
func (o Op) Instr(off uint32) []byte {
	b := wb.Cat(o.Enc, leb128.EncodeUint32(o.Align), leb128.EncodeUint32(off))
	if o.Kind == "vlload" || o.Kind == "vlstore" {
		b = append(b, byte(o.Lane))
	}
	return b
}

// Result is the type left on the stack: 0 (none), 'i', 'I', 'f', 'F' or 'v'.
func (o Op) Result() byte {
	switch o.Kind {
	case "store", "vlstore":
		return 0
	}
	return o.Res
}
