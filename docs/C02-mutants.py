import subprocess, os, sys
repo='/work/repo-C02'
env=dict(os.environ, GOFLAGS='-mod=mod', GOPROXY='off', GOSUMDB='off', GOTOOLCHAIN='local', VERIF_REPO=repo)
F='internal/engine/wazevo/frontend/'
M=[
 ('M1 ceil-1<=bound', F+'lower.go', '\t\tif ceil <= known.bound {', '\t\tif ceil-1 <= known.bound {'),
 ('M2 no resetAbsoluteAddress after call', F+'lower.go', '\tc.resetAbsoluteAddressInSafeBounds()\n', '\t// c.resetAbsoluteAddressInSafeBounds()\n'),
 ('M3 signed compare in bounds check', F+'lower.go', 'cmp.AsIcmp(memLen, baseAddrPlusCeil.Return(), ssa.IntegerCmpCondUnsignedLessThan)', 'cmp.AsIcmp(memLen, baseAddrPlusCeil.Return(), ssa.IntegerCmpCondSignedLessThan)'),
 ('M4 popMemoryOffset accepts 2^32', 'internal/engine/interpreter/interpreter.go', '\tif offset > math.MaxUint32 {\n\t\tpanic(wasmruntime.ErrRuntimeOutOfBoundsMemoryAccess)\n\t}\n\treturn uint32(offset)', '\tif offset > math.MaxUint32+1 {\n\t\tpanic(wasmruntime.ErrRuntimeOutOfBoundsMemoryAccess)\n\t}\n\treturn uint32(offset)'),
 ('M5 asImm32(u64,true) in lowerAddendsToAmode', 'internal/engine/wazevo/backend/isa/amd64/lower_mem.go', 'if _, ok := asImm32(u64, false); !ok {', 'if _, ok := asImm32(u64, true); !ok {'),
 ('M6 block merge takes max bound', F+'frontend.go', '\t\t\t\t\tif cb.bound < minBound {', '\t\t\t\t\tif minBound == math.MaxUint64 || cb.bound > minBound {'),
 ('M7 memory.copy forgets destination check', 'internal/engine/interpreter/interpreter.go', 'if sourceOffset+copySize > memLen || destinationOffset+copySize > memLen {', 'if sourceOffset+copySize > memLen {'),
 ('M8 unsealed block keeps absolute address', F+'frontend.go', '\t\t\tif currentBlk.Sealed() {\n\t\t\t\taddr = kb.absoluteAddr', '\t\t\tif true {\n\t\t\t\taddr = kb.absoluteAddr'),
 ('M9 memory.fill 32-bit sum', 'internal/engine/interpreter/interpreter.go', 'if fillSize+offset > uint64(len(memoryInst.Buffer)) {', 'if uint64(uint32(fillSize+offset)) > uint64(len(memoryInst.Buffer)) {'),
 ('M10 ceil drops the access width', F+'lower.go', '\tceil := constOffset + operationSizeInBytes\n\tif known := c.getKnownSafeBound(baseAddrID); known.valid() {', '\tceil := constOffset + 1\n\tif known := c.getKnownSafeBound(baseAddrID); known.valid() {'),
 ('M12 base sign-extended in memOpSetup', F+'lower.go', """	// We calculate the offset in 64-bit space.
	extBaseAddr := builder.AllocateInstruction().
		AsUExtend(baseAddr, 32, 64).""", """	// We calculate the offset in 64-bit space.
	extBaseAddr := builder.AllocateInstruction().
		AsSExtend(baseAddr, 32, 64)."""),
 ('M13 bounds check off by one (<=)', F+'lower.go', 'cmp.AsIcmp(memLen, baseAddrPlusCeil.Return(), ssa.IntegerCmpCondUnsignedLessThan)', 'cmp.AsIcmp(memLen, baseAddrPlusCeil.Return(), ssa.IntegerCmpCondUnsignedLessThanOrEqual)'),
 ('M14 reload of memory base dropped after call', F+'lower.go', """	_ = c.getMemoryBaseValue(true)
	_ = c.getMemoryLenValue(true)
""", """	_ = c.getMemoryLenValue(true)
"""),
 ('M11 huge-offset path sign-extends offsetBase', 'internal/engine/wazevo/backend/isa/amd64/lower_mem.go', 'off64 := a.off + int64(offsetBase)\n\t\toffsetBaseReg', 'off64 := a.off + int64(int32(offsetBase))\n\t\toffsetBaseReg'),
]
only = sys.argv[1:] 
for name, f, old, new in M:
    if only and not any(name.startswith(o+' ') for o in only): continue
    p=os.path.join(repo,f)
    s=open(p).read()
    if s.count(old)!=1:
        print(name, 'PATTERN COUNT', s.count(old)); continue
    open(p,'w').write(s.replace(old,new))
    try:
        r=subprocess.run(['./check','C02','--tier','quick','--seed','1'],cwd='/work/verif-C02',env=env,capture_output=True,text=True)
        lines=[l for l in (r.stdout+r.stderr).split('\n') if l and not l.startswith('KNOWN-FINDING')]
        print('=== ',name,'exit',r.returncode); print('\n'.join(lines[:8]))
    finally:
        open(p,'w').write(s)
    sys.stdout.flush()
