#!/usr/bin/env python3
"""Mutation self-test of ./check C03: apply one semantic mutant at a time to a scratch wazero checkout,
run the quick tier, record which component fired, revert.   usage: C03-mutants.py <scratch-repo> [names...]"""
import subprocess, sys, os, re, json, time

repo = sys.argv[1]
only = sys.argv[2:]
verif = os.path.dirname(os.path.dirname(os.path.abspath(__file__)))

MUTANTS = [
 ("M1-leb-u32-5th-byte-mask-e0", "internal/leb128/leb128.go",
  "if i == maxVarintLen32-1 && (b&0xf0) > 0 {", "if i == maxVarintLen32-1 && (b&0xe0) > 0 {"),
 ("M2-leb-i64-unused-mask", "internal/leb128/leb128.go",
  "} else if unused := b & 0b00111110; bytesRead == maxVarintLen64 && ret < 0 && unused != 0b00111110 {",
  "} else if unused := b & 0b00111100; bytesRead == maxVarintLen64 && ret < 0 && unused != 0b00111100 {"),
 ("M3-validator-i32-compare-pops-one-operand", "internal/wasm/func_validation.go",
  """				if err := valueTypeStack.popAndVerifyType(ValueTypeI32); err != nil {
					return fmt.Errorf("cannot pop the 2nd i32 operand for %s: %v", InstructionName(op), err)
				}
				valueTypeStack.push(ValueTypeI32)
			case OpcodeI64Eqz:""",
  """				valueTypeStack.push(ValueTypeI32)
			case OpcodeI64Eqz:"""),
 ("M4-validator-local.set-does-not-check-type", "internal/wasm/func_validation.go",
  """				if err := valueTypeStack.popAndVerifyType(expType); err != nil {
					return err
				}
			case OpcodeLocalTee:""",
  """				_ = expType
				if _, err := valueTypeStack.pop(); err != nil {
					return err
				}
			case OpcodeLocalTee:"""),
 ("M5-decoder-drops-section-length-check", "internal/wasm/binary/decoder.go",
  "if err == nil && int(sectionSize) != readBytes {", "if false && err == nil && int(sectionSize) != readBytes {"),
 ("M6-blocktype-index-off-by-one", "internal/wasm/func_validation.go",
  "if raw < 0 || (raw >= int64(len(types))) {", "if raw < 0 || (raw > int64(len(types))) {"),
 ("M7-validator-br_if-does-not-check-label-types", "internal/wasm/func_validation.go",
  None, None),  # filled below (regex)
 ("M8-constexpr-global-index-off-by-one", "internal/wasm/module.go", None, None),
 ("M9-interpreter-lowering-drop-pops-twice", "internal/engine/interpreter/compiler.go", None, None),
 ("M10-decoder-export-index-not-read", "internal/wasm/binary/export.go",
  "if ret.Index, _, err = leb128.DecodeUint32(r); err != nil {", "if ret.Index, _, err = leb128.DecodeUint32(r); err != nil && false {"),
 ("M11-start-index-check-dropped", "internal/wasm/module.go", None, None),
 ("M12-export-function-index-off-by-one", "internal/wasm/module.go", None, None),
 ("M13-leb-i33-reads-six-bytes", "internal/leb128/leb128.go", "\tfor shift < 35 {", "\tfor shift < 42 {"),
 ("M14-validator-if-without-else-result-check-dropped", "internal/wasm/func_validation.go",
  "if !bytes.Equal(bl.blockType.Results, bl.blockType.Params) {", "if false && !bytes.Equal(bl.blockType.Results, bl.blockType.Params) {"),
]

def apply(name, path, old, new):
    p = os.path.join(repo, path)
    s = open(p).read()
    if name.startswith("M7"):
        i = s.index("} else if op == OpcodeBrIf {")
        old = """\t\t\tif err := valueTypeStack.popResults(op, targetResultType, false); err != nil {
\t\t\t\treturn err
\t\t\t}
\t\t\t// Push back the result
\t\t\tfor _, t := range targetResultType {
\t\t\t\tvalueTypeStack.push(t)
\t\t\t}
"""
        j = s.index(old, i)
        assert j - i < 2500, "M7 anchor"
        s = s[:j] + "\t\t\t_ = targetResultType\n" + s[j+len(old):]
    elif name.startswith("M8"):
        m = re.search(r'(case OpcodeGlobalGet:.*?)if uint32\(len\(globals\)\) <= id \{', s, re.S)
        assert m, "M8 anchor"
        s = s[:m.end(1)] + "if uint32(len(globals)) < id {" + s[m.end():]
    elif name.startswith("M11"):
        m = re.search(r'func \(m \*Module\) validateStartSection\(\) error \{.*?\n\}', s, re.S)
        assert m, "M11 anchor"
        s = s[:m.start()] + "func (m *Module) validateStartSection() error {\n\treturn nil\n}" + s[m.end():]
    elif name.startswith("M12"):
        old = "if index >= uint32(len(functions)) {"
        assert s.count(old) >= 1, "M12 anchor"
        s = s.replace(old, "if index > uint32(len(functions)) {", 1)
    elif name.startswith("M9"):
        old = "\tcase wasm.OpcodeDrop:\n"
        assert s.count(old) == 1, "M9 anchor"
        s = s.replace(old, old + "\t\tif len(c.stack) > 1 && !c.unreachableState.on {\n\t\t\tc.stackPop()\n\t\t}\n")
    else:
        assert s.count(old) == 1, (name, s.count(old))
        s = s.replace(old, new)
    open(p, "w").write(s)

env = dict(os.environ, GOFLAGS="-mod=mod", GOPROXY="off", GOSUMDB="off", GOTOOLCHAIN="local", VERIF_REPO=repo)
results = []
for name, path, old, new in MUTANTS:
    if only and not any(name.startswith(o) for o in only):
        continue
    subprocess.run(["git", "-C", repo, "checkout", "--", "."], check=True)
    try:
        apply(name, path, old, new)
    except AssertionError as e:
        results.append((name, "ANCHOR-NOT-FOUND " + str(e)))
        continue
    b = subprocess.run(["go", "build", "./..."], cwd=repo, env=env, capture_output=True, text=True)
    if b.returncode != 0:
        results.append((name, "DOES-NOT-COMPILE " + b.stderr[-300:]))
        continue
    t0 = time.time()
    p = subprocess.run([os.path.join(verif, "check"), "C03", "--tier", "quick"], cwd=verif, env=env, capture_output=True, text=True)
    out = [l for l in p.stdout.split("\n") if l and not l.startswith("KNOWN-FINDING")]
    results.append((name, f"exit={p.returncode} {time.time()-t0:.0f}s | " + " | ".join(l[:260] for l in out[:6])))
    print(results[-1], flush=True)
subprocess.run(["git", "-C", repo, "checkout", "--", "."], check=True)
print("\n== summary ==")
for r in results:
    print(r[0], "::", r[1])
