import Oracle.Util
import Wz.Spec.Wasm
namespace Oracle.C01
open Oracle Wz.Spec Wz.Spec.Wasm

structure Inst where
  m : Module := {}
  st : Store := {}

abbrev St := List (Nat × Inst)
def init : St := []

def parseVT (s : String) : Option VT :=
  match s with
  | "i32" => some .i32 | "i64" => some .i64 | "f32" => some .f32 | "f64" => some .f64 | _ => none

def parseVTs (s : String) : Option (List VT) :=
  if s == "-" then some [] else (s.splitOn ",").mapM parseVT

def arityOfBT (s : String) : Nat := if s == "e" then 0 else 1

/-- memory instruction name → (type, width, signed) -/
def parseMemName (name : String) : Option (VT × Nat × Bool × Bool) := do
  -- returns (type, width, signed, isLoad)
  let parts := name.splitOn "."
  match parts with
  | [t, op] =>
    let vt ← parseVT t
    let isLoad := op.startsWith "load"
    let isStore := op.startsWith "store"
    if !isLoad && !isStore then none
    else
      let sfx := if isLoad then (op.drop 4).toString else (op.drop 5).toString
      let signed := sfx.endsWith "_s"
      let digits := if sfx.endsWith "_s" || sfx.endsWith "_u" then (sfx.dropEnd 2).toString else sfx
      let width := if digits == "" then vt.bits else digits.toNat?.getD 0
      if width == 0 then none else some (vt, width, signed, isLoad)
  | _ => none

partial def parseSeq (toks : List String) : Option (List Instr × List String × String) :=
  match toks with
  | [] => some ([], [], "")
  | "end" :: rest => some ([], rest, "end")
  | "else" :: rest => some ([], rest, "else")
  | tok :: rest =>
    let parts := tok.splitOn ":"
    let name := parts.headD ""
    let imm := parts.getD 1 ""
    let cont (i : Instr) (rest : List String) : Option (List Instr × List String × String) := do
      let (is, r, t) ← parseSeq rest
      pure (i :: is, r, t)
    match name with
    | "block" => do
      let (body, r, _) ← parseSeq rest
      cont (.block (arityOfBT imm) body) r
    | "loop" => do
      let (body, r, _) ← parseSeq rest
      cont (.loop body) r
    | "if" => do
      let (th, r, t) ← parseSeq rest
      if t == "else" then
        let (el, r2, _) ← parseSeq r
        cont (.ite (arityOfBT imm) th el) r2
      else cont (.ite (arityOfBT imm) th []) r
    | "i32.const" | "i64.const" | "f32.const" | "f64.const" => do cont (.const (← imm.toNat?)) rest
    | "local.get" => do cont (.localGet (← imm.toNat?)) rest
    | "local.set" => do cont (.localSet (← imm.toNat?)) rest
    | "local.tee" => do cont (.localTee (← imm.toNat?)) rest
    | "global.get" => do cont (.globalGet (← imm.toNat?)) rest
    | "global.set" => do cont (.globalSet (← imm.toNat?)) rest
    | "memory.size" => cont .memSize rest
    | "memory.grow" => cont .memGrow rest
    | "memory.copy" => cont .memCopy rest
    | "memory.fill" => cont .memFill rest
    | "drop" => cont .drop rest
    | "select" => cont .select rest
    | "unreachable" => cont .unreachable rest
    | "return" => cont .ret rest
    | "br" => do cont (.br (← imm.toNat?)) rest
    | "br_if" => do cont (.brIf (← imm.toNat?)) rest
    | "br_table" => do
      let ls ← (imm.splitOn ",").mapM (·.toNat?)
      cont (.brTable ls.dropLast (ls.getLastD 0)) rest
    | "call" => do cont (.call (← imm.toNat?)) rest
    | "return_call" => do cont (.retCall (← imm.toNat?)) rest
    | "call_indirect" => do cont (.callIndirect (← imm.toNat?)) rest
    | _ =>
      match parseMemName name with
      | some (vt, w, sg, true) => do cont (.load vt w sg (← imm.toNat?)) rest
      | some (_, w, _, false) => do cont (.store w (← imm.toNat?)) rest
      | none =>
        if (Num.scalar name [0]).isSome then cont (.num1 name) rest
        else if (Num.scalar name [0, 0]).isSome then cont (.num2 name) rest
        else none

def fnv64 (b : ByteArray) : UInt64 :=
  b.foldl (fun h x => (h ^^^ x.toUInt64) * 1099511628211) 14695981039346656037

def hex (n : Nat) : String := String.ofList (Nat.toDigits 16 n)

def observe (m : Module) (o : Outcome) (st : Store) : String :=
  let head := match o with
    | .values vs => "ok" ++ String.join (vs.map (fun v => " " ++ hex v))
    | .trap k => "trap:" ++ k
    | .exhausted => "exhausted"
  let log := ";".intercalate st.log.reverse
  let mem := if m.hasMem then s!" | mem={st.mem.size / 65536}:{hex (fnv64 st.mem).toNat}" else ""
  let gs := String.join ((st.globals.toList.drop 1).map (fun v => hex v ++ ","))
  s!"{head} | log={log}{mem} | g={gs}"

def upd (st : St) (id : Nat) (f : Inst → Inst) : St :=
  match assocGet st id with
  | some i => assocSet st id (f i)
  | none => st

def step (st : St) (args : List String) : St × String :=
  match args with
  | ["mod", id] =>
    match parseNat id with
    | some id => (assocSet st id {}, "ok")
    | none => (st, "bad-op")
  | ["type", id, ps, rs] =>
    match parseNat id, parseVTs ps, parseVTs rs with
    | some id, some ps, some rs =>
      (upd st id fun i => { i with m := { i.m with types := i.m.types ++ [⟨ps, rs⟩] } }, "ok")
    | _, _, _ => (st, "bad-op")
  | ["import", id, ti] =>
    match parseNat id, parseNat ti with
    | some id, some ti => (upd st id fun i => { i with m := { i.m with imports := i.m.imports ++ [ti] } }, "ok")
    | _, _ => (st, "bad-op")
  | "func" :: id :: ti :: locals :: toks =>
    match parseNat id, parseNat ti, parseVTs locals, parseSeq toks with
    | some id, some ti, some ls, some (body, [], "") =>
      (upd st id fun i => { i with m := { i.m with funcs := i.m.funcs ++ [⟨ti, ls, body⟩] } }, "ok")
    | _, _, _, _ => (st, "bad-op")
  | ["mem", id, mn, mx] =>
    match parseNat id, parseNat mn with
    | some id, some mn =>
      let mxo := if mx == "-" then none else parseNat mx
      (upd st id fun i => { i with m := { i.m with hasMem := true, memMin := mn, memMax := mxo } }, "ok")
    | _, _ => (st, "bad-op")
  | ["global", id, t, v] =>
    match parseNat id, parseVT t, parseNat v with
    | some id, some t, some v => (upd st id fun i => { i with m := { i.m with globals := i.m.globals ++ [(t, v)] } }, "ok")
    | _, _, _ => (st, "bad-op")
  | ["table", id, fs] =>
    match parseNat id, (fs.splitOn ",").mapM parseNat with
    | some id, some fs => (upd st id fun i => { i with m := { i.m with table := fs } }, "ok")
    | _, _ => (st, "bad-op")
  | ["data", id, off, bytes] =>
    match parseNat id, parseNat off, parseBytes bytes with
    | some id, some off, some bs => (upd st id fun i => { i with m := { i.m with dataOff := off, data := bs } }, "ok")
    | _, _, _ => (st, "bad-op")
  | ["inst", id] =>
    match parseNat id with
    | some id => (upd st id fun i => { i with st := instantiate i.m }, "ok")
    | none => (st, "bad-op")
  | "call" :: id :: f :: fuel :: as =>
    match parseNat id, parseNat f, parseNat fuel, as.mapM parseHex with
    | some id, some f, some fuel, some as =>
      match assocGet st id with
      | none => (st, "bad-op")
      | some i =>
        let f := f + i.m.imports.length
        let ft := funcType i.m f
        let as := (ft.params.zip as).map (fun (p, v) => v % 2 ^ p.bits)
        -- global 0 is the fuel counter of the generated programs
        let st0 := { i.st with globals := i.st.globals.set! 0 fuel }
        let (o, st') := invoke i.m 3000000 f as st0
        (assocSet st id { i with st := st' }, observe i.m o st')
    | _, _, _, _ => (st, "bad-op")
  | "callimp" :: id :: k :: fuel :: as =>
    -- a re-exported import called through the API: function index k itself (no guest code runs)
    match parseNat id, parseNat k, parseNat fuel, as.mapM parseHex with
    | some id, some k, some fuel, some as =>
      match assocGet st id with
      | none => (st, "bad-op")
      | some i =>
        if k < i.m.imports.length then
          let ft := funcType i.m k
          let as := (ft.params.zip as).map (fun (p, v) => v % 2 ^ p.bits)
          let st0 := { i.st with globals := i.st.globals.set! 0 fuel }
          let (o, st') := invoke i.m 3000000 k as st0
          (assocSet st id { i with st := st' }, observe i.m o st')
        else (st, "bad-op")
    | _, _, _, _ => (st, "bad-op")
  | ["drop", id] =>
    match parseNat id with
    | some id => (st.filter (·.1 != id), "ok")
    | none => (st, "bad-op")
  | _ => (st, "bad-op")

end Oracle.C01
