/-
Oracle commands for the model of wazevo's front end on straight-line integer code, `Wz.Model.FrontendSL`
(C01, tie of the model to the real `frontend.Compiler.LowerToSSA`):

  c01front lower <params> <results> <locals> <body tokens…>
      the lowered function in the text format of `ssaBuilder.Format()`, lines separated by " | "
      (`blk0: (exec_ctx:i64, module_ctx:i64, v2:i32) | v3:i32 = Iadd v2, v2 | Jump blk_ret, v3`)
  c01front ssa   <params> <results> <locals> <body tokens…>
      the same function in the token syntax of the `c01ssa` commands (Oracle/C01Ssa.lean), `Jump blk_ret` as `ret`
  c01front wt    <params> <results> <locals> <body tokens…>     `wellTyped`: 1 / 0
  c01front wf    <params> <results> <locals> <body tokens…>     `SsaPass.wellFormed (lowerSL f)`: 1 / 0
  c01front run   <params> <results> <locals> <args> <body tokens…>
      `spec=<o> ssa=<o> opt=<o>`: the reference semantics (`Wz.Spec.Wasm.invoke`), `SsaPass.run` on `lowerSL f`,
      and on `runPasses (lowerSL f)`; execution context / module context arguments are 0xec / 0x3c
  c01front runssa <args> <function in c01ssa token syntax>
      `SsaPass.run` (fuel 4) on a function given as SSA text, with the same two context arguments in front of
      <args>: used on the output of the REAL front end

<params>, <results>, <locals>: comma separated `i32` / `i64`, or `-`;  <args>: comma separated hex, or `-`.
Body tokens: `i32.const:<hex> i64.const:<hex> local.get:<n> local.set:<n> local.tee:<n> drop select return`
and the instruction names `i32.add … i64.rotr`, `i32.eq … i64.ge_u`, `i32.eqz i64.eqz`, `i32.clz … i64.popcnt`,
`i32.wrap_i64 i64.extend_i32_s i64.extend_i32_u i64.extend32_s`, `i32.div_s … i64.rem_u`.
<o>: `ok:<hex,…|->` / `trap:<div0|overflow|…>` / `exhausted` / `error`.
-/
import Oracle.Util
import Oracle.C01Ssa
import Wz.Model.FrontendSL
namespace Oracle.C01Front
open Oracle Wz.Model.SsaPass Wz.Model.FrontendSL

def parseTys (s : String) : Option (List Ty) :=
  if s == "-" then some [] else (s.splitOn ",").mapM C01Ssa.parseTy

def allTys : List Ty := [.i32, .i64]
def allBin : List IBin := [.add, .sub, .mul, .and, .or, .xor, .shl, .shrS, .shrU, .rotl, .rotr]
def allRel : List IRel := [.eq, .ne, .ltS, .ltU, .gtS, .gtU, .leS, .leU, .geS, .geU]
def allCnt : List ICnt := [.clz, .ctz, .popcnt]
def allDiv : List IDiv := [.divS, .divU, .remS, .remU]

/-- every instruction without immediate, by its name -/
def nameTable : List (String × SI) :=
  allTys.flatMap (fun t =>
    allBin.map (fun op => (binName t op, SI.bin t op)) ++
    allRel.map (fun op => (relName t op, SI.rel t op)) ++
    [(eqzName t, SI.eqz t)] ++
    allCnt.map (fun op => (cntName t op, SI.cnt t op)) ++
    allDiv.map (fun op => (divName t op, SI.div t op))) ++
  [("i32.wrap_i64", .wrap), ("i64.extend_i32_s", .extendS), ("i64.extend_i32_u", .extendU),
   ("i64.extend32_s", .extend32S), ("drop", .drop), ("select", .select), ("return", .ret)]

def parseSI (tok : String) : Option SI :=
  match tok.splitOn ":" with
  | ["i32.const", v] => (parseHex v).map (SI.const .i32)
  | ["i64.const", v] => (parseHex v).map (SI.const .i64)
  | ["local.get", n] => (parseNat n).map SI.localGet
  | ["local.set", n] => (parseNat n).map SI.localSet
  | ["local.tee", n] => (parseNat n).map SI.localTee
  | [name] => C01Ssa.lookup nameTable name
  | _ => none

def parseFn (ps rs ls : String) (body : List String) : Option Fn := do
  pure { params := (← parseTys ps), results := (← parseTys rs), locals := (← parseTys ls),
         body := (← body.mapM parseSI) }

def hex (n : Nat) : String := String.ofList (Nat.toDigits 16 n)

def showHexs (vs : List Nat) : String := if vs.isEmpty then "-" else ",".intercalate (vs.map hex)

def showSpec : Wz.Spec.Wasm.Outcome → String
  | .values vs => s!"ok:{showHexs vs}"
  | .trap k => s!"trap:{k}"
  | .exhausted => "exhausted"

def codeName (c : Nat) : String :=
  if c = codeDivByZero then "div0" else if c = codeOverflow then "overflow" else s!"code{c}"

def showSsa : Outcome → String
  | .values vs _ _ => s!"ok:{showHexs vs}"
  | .trap c _ _ => s!"trap:{codeName c}"
  | .outOfFuel => "exhausted"
  | .error => "error"

def ctxArgs : List Nat := [0xec, 0x3c]

abbrev St := Unit
def init : St := ()

def step (st : St) (args : List String) : St × String :=
  match args with
  | "lower" :: ps :: rs :: ls :: body =>
    match parseFn ps rs ls body with
    | some f => (st, " | ".intercalate (format f))
    | none => (st, "bad-op")
  | "ssa" :: ps :: rs :: ls :: body =>
    match parseFn ps rs ls body with
    | some f => (st, C01Ssa.showFn (lowerSL f))
    | none => (st, "bad-op")
  | "wt" :: ps :: rs :: ls :: body =>
    match parseFn ps rs ls body with
    | some f => (st, b2s (wellTyped f))
    | none => (st, "bad-op")
  | "wf" :: ps :: rs :: ls :: body =>
    match parseFn ps rs ls body with
    | some f => (st, b2s (wellFormed (lowerSL f)))
    | none => (st, "bad-op")
  | "run" :: ps :: rs :: ls :: as :: body =>
    match parseFn ps rs ls body, C01Ssa.parseArgs as with
    | some f, some as =>
      let g := lowerSL f
      (st, s!"spec={showSpec (runSpec f as (f.body.length + 3))} ssa={showSsa (run C01Ssa.world g (ctxArgs ++ as) 4)} opt={showSsa (run C01Ssa.world (runPasses g) (ctxArgs ++ as) 4)}")
    | _, _ => (st, "bad-op")
  | "runssa" :: as :: toks =>
    match C01Ssa.parseFn toks, C01Ssa.parseArgs as with
    | some g, some as => (st, showSsa (run C01Ssa.world g (ctxArgs ++ as) 4))
    | _, _ => (st, "bad-op")
  | _ => (st, "bad-op")

end Oracle.C01Front
