import Oracle.Util
import Wz.Model.Isolation
import Wz.Gen.C11Sharing
/-
Oracle topic c11: `c11 <world> <cmd> …`. One world = one heap with compiled modules (shared objects) and
instances; ops run through `hstep` (the heap semantics with sharing), with the instantiation shape
regenerated from the Go source (`Wz.Gen.C11Sharing.shape`).
-/
namespace Oracle.C11
open Oracle Wz.Model.Isolation

structure World where
  env : Env := ⟨[], [], []⟩
  heap : Heap := Heap.empty
  mods : List (Nat × Module) := []
  insts : List (Nat × Inst) := []

abbrev St := List (Nat × World)
def init : St := []

def emptyMod : Module := ⟨0, 0, 0, 0, [], [], [], [], [], []⟩

def parseRefs (s : String) : Option (List Nat) :=
  if s == "-" then some [] else (s.splitOn ",").mapM parseNat

def suffixNat (name pre : String) : Option Nat :=
  if name.startsWith pre then (name.drop pre.length).toString.toNat? else none

def parseOp (name : String) (a : List Nat) : Option Op :=
  match name, a with
  | "store32", [x, v] => some (.m (.store32 x v))
  | "load32", [x] => some (.m (.load32 x))
  | "store8", [x, v] => some (.m (.store8 x v))
  | "load8", [x] => some (.m (.load8 x))
  | "mgrow", [n] => some (.m (.grow n))
  | "msize", [] => some (.m .size)
  | "mfill", [d, v, n] => some (.m (.fill d v n))
  | "mcopy", [d, s, n] => some (.m (.copy d s n))
  | "tnull", [i] => some (.t (.null i))
  | "tref0", [i] => some (.t (.reff i 0))
  | "tref1", [i] => some (.t (.reff i 1))
  | "tref2", [i] => some (.t (.reff i 2))
  | "tref3", [i] => some (.t (.reff i 3))
  | "tmove", [i, j] => some (.t (.move i j))
  | "tisnull", [i] => some (.t (.isnull i))
  | "tgrow", [n] => some (.t (.grow n))
  | "tsize", [] => some (.t .size)
  | "tcopy", [d, s, n] => some (.t (.copy d s n))
  | "calli", [i] => some (.calli i)
  | "w_write", [fd, p, n] => some (.s (.write fd p n))
  | "w_read", [fd, p, n] => some (.s (.read fd p n))
  | "w_close", [fd] => some (.s (.close fd))
  | "w_renumber", [x, y] => some (.s (.renumber x y))
  | "w_open", [dirfd, p, l, oflags, _, _] => some (.s (.open_ dirfd p l oflags))
  | "w_clock", [id] => some (.s (.clock id))
  | "w_random", [p, n] => some (.s (.random p n))
  | _, _ =>
    match suffixNat name "gset", suffixNat name "gget", suffixNat name "minit", suffixNat name "ddrop",
          suffixNat name "tinit", suffixNat name "edrop", a with
    | some k, _, _, _, _, _, [v] => some (.g (.set k v))
    | _, some k, _, _, _, _, [] => some (.g (.get k))
    | _, _, some k, _, _, _, [d, s, n] => some (.minit k d s n)
    | _, _, _, some k, _, _, [] => some (.ddrop k)
    | _, _, _, _, some k, _, [d, s, n] => some (.tinit k d s n)
    | _, _, _, _, _, some k, [] => some (.edrop k)
    | _, _, _, _, _, _, _ => none

def showRes : Res → String
  | .ok vs => vs.foldl (fun s v => s ++ " " ++ toString v) "ok"
  | .trap k => "trap:" ++ k
  | .fault => "fault"

def showState (s : LState) : String :=
  let cells := (s.mem.cells.filter (fun c => c.2 != 0)).mergeSort (fun a b => a.1 ≤ b.1)
  let tblS := s.tbl.foldl (fun acc r =>
    acc ++ (match r with
      | 0 => "n"
      | f + 1 => match s.fns[f]? with
        | some (c, true) => toString ((c + glob0 s.glob) % 4294967296)
        | _ => "x") ++ ",") ""
  s!"pages={s.mem.pages} glob=" ++ s.glob.foldl (fun acc g => acc ++ toString g.2 ++ ",") "" ++
  " tbl=" ++ tblS ++ " mem=" ++ cells.foldl (fun acc c => acc ++ toString c.1 ++ ":" ++ toString c.2 ++ ",") ""

def updMod (w : World) (mid : Nat) (f : Module → Module) : World :=
  { w with mods := assocSet w.mods mid (f ((assocGet w.mods mid).getD emptyMod)) }

def stepW (w : World) (args : List String) : Option (World × String) :=
  match args with
  | ["world", rnd, stdin] => do
    let r ← parseBytes rnd
    let s ← parseBytes stdin
    pure ({ w with env := ⟨r, [], s⟩ }, "ok")
  | ["file", name, content] => do
    let n ← parseBytes name
    let c ← parseBytes content
    pure ({ w with env := { w.env with files := w.env.files ++ [(n, c)] } }, "ok")
  | ["mod", mid, a, b, c, d] => do
    let mid ← parseNat mid; let a ← parseNat a; let b ← parseNat b; let c ← parseNat c; let d ← parseNat d
    pure (updMod w mid (fun _ => { emptyMod with memMin := a, memMax := b, tblMin := c, tblMax := d }), "ok")
  | ["glob", mid, bits, v] => do
    let mid ← parseNat mid; let bits ← parseNat bits; let v ← parseNat v
    pure (updMod w mid (fun m => { m with globals := m.globals ++ [(bits, v)] }), "ok")
  | ["fn", mid, c, ok] => do
    let mid ← parseNat mid; let c ← parseNat c; let ok ← parseBool ok
    pure (updMod w mid (fun m => { m with fns := m.fns ++ [(c, ok)] }), "ok")
  | ["dpas", mid, bs] => do
    let mid ← parseNat mid; let bs ← parseBytes bs
    pure (updMod w mid (fun m => { m with dpas := m.dpas ++ [bs] }), "ok")
  | ["dact", mid, off, bs] => do
    let mid ← parseNat mid; let off ← parseNat off; let bs ← parseBytes bs
    pure (updMod w mid (fun m => { m with dact := m.dact ++ [(off, bs)] }), "ok")
  | ["epas", mid, rs] => do
    let mid ← parseNat mid; let rs ← parseRefs rs
    pure (updMod w mid (fun m => { m with epas := m.epas ++ [rs] }), "ok")
  | ["eact", mid, off, rs] => do
    let mid ← parseNat mid; let off ← parseNat off; let rs ← parseRefs rs
    pure (updMod w mid (fun m => { m with eact := m.eact ++ [(off, rs)] }), "ok")
  | ["seal", mid] => do
    let mid ← parseNat mid
    let m ← assocGet w.mods mid
    pure ({ w with heap := loadModule w.heap mid m }, "ok")
  | ["inst", iid, mid] => do
    let iid ← parseNat iid; let mid ← parseNat mid
    let m ← assocGet w.mods mid
    let r := instantiate Wz.Gen.C11Sharing.shape w.heap mid m iid
    pure ({ w with heap := r.1, insts := assocSet w.insts iid r.2 }, "ok")
  | "op" :: iid :: name :: rest => do
    let iid ← parseNat iid
    let a ← parseNats rest
    let o ← parseOp name a
    let i ← assocGet w.insts iid
    let r := hstep w.env w.heap i o
    pure ({ w with heap := r.1 }, showRes r.2)
  | ["state", iid] => do
    let iid ← parseNat iid
    let i ← assocGet w.insts iid
    match view w.heap i with
    | some s => pure (w, showState s)
    | none => pure (w, "fault")
  | ["out", iid] => do
    let iid ← parseNat iid
    let i ← assocGet w.insts iid
    match view w.heap i with
    | some s => pure (w, bytesToHex s.sys.out)
    | none => pure (w, "fault")
  | _ => none

def step (st : St) (args : List String) : St × String :=
  match args with
  | [wid, "drop"] =>
    match parseNat wid with
    | some wid => (st.filter (·.1 != wid), "ok")
    | none => (st, "bad-op")
  | wid :: rest =>
    match parseNat wid with
    | some wid =>
      match stepW ((assocGet st wid).getD {}) rest with
      | some (w, ans) => (assocSet st wid w, ans)
      | none => (st, "bad-op")
    | none => (st, "bad-op")
  | _ => (st, "bad-op")

end Oracle.C11
