import Oracle.Util
import Wz.Model.Wasi
import Wz.Model.WasiFs2
import Wz.Model.DescTable
namespace Oracle.C15
open Oracle Wz.Model Wz.Model.Wasi

/-- Topic state: host configuration, named memory images, the finding switch, and the table under test. -/
structure St where
  host : Host := {}
  imgs : List (String × Mem) := []
  fixed : Bool := false
  fixedRecv : Bool := false
  fixedRead : Bool := false
  tbl : DescTable.Table Nat := DescTable.empty

def init : St := {}

def parseHexList (s : String) : Option (List (List Nat)) :=
  if s == "-" then some [] else (s.splitOn ",").mapM parseBytes

def parseRuns (s : String) : Option (List (Nat × List Nat)) :=
  if s == "-" then some [] else
  (s.splitOn ",").mapM (fun r =>
    match r.splitOn ":" with
    | [o, h] => do
      let off ← parseNat o
      let bs ← parseBytes h
      pure (off, bs)
    | _ => none)

def parseKind : String → Option Kind
  | "in" => some .stdin
  | "out" => some .stdout
  | "err" => some .stderr
  | "pre" => some .pre
  | "file" => some .file
  | "dir" => some .dir
  | "lsn" => some .lsn
  | "conn" => some .conn
  | _ => none

def kindStr : Kind → String
  | .stdin => "in"
  | .stdout => "out"
  | .stderr => "err"
  | .pre => "pre"
  | .file => "file"
  | .dir => "dir"
  | .lsn => "lsn"
  | .conn => "conn"

def parseFds (s : String) : Option Fds :=
  if s == "-" then some DescTable.empty else
  (s.splitOn ",").foldlM (fun (t : Fds) e =>
    match e.splitOn ":" with
    | [f, k] => do
      let fd ← parseNat f
      let kd ← parseKind k
      pure (DescTable.insertAt t kd (fd : Int)).1
    | _ => none) DescTable.empty

def fdsStr (t : Fds) : String :=
  let es := (List.range t.items.length).filterMap (fun i =>
    match t.items.getD i none with
    | some k => some s!"{i}:{kindStr k}"
    | none => none)
  if es.isEmpty then "-" else String.intercalate "," es

def wrStr : Wr → Option String
  | .bytes o bs => if bs.isEmpty then none else some s!"w={o}:{bytesToHex bs}"
  | .region o l => if l == 0 then none else some s!"w={o}+{l}"

def errStr : Err → String
  | .errno n => s!"e={n}"
  | .any => "e=any"
  | .panic => "e=panic"
  | .exit => "e=exit"
  | .nz => "e=nz"

def resStr (r : Res) : String :=
  let parts := [errStr r.err] ++ r.writes.filterMap wrStr ++
    (match r.fds with | some t => [s!"t={fdsStr t}"] | none => []) ++
    (if r.alloc > 0 then [s!"a={r.alloc}"] else [])
  String.intercalate " " parts

def tblShape (t : DescTable.Table Nat) : String :=
  s!"m={t.masks.length} i={t.items.length} n={DescTable.count t}"

partial def step (st : St) (args : List String) : St × String :=
  match args with
  | ["modelled"] => (st, String.intercalate " " modelled)
  | ["modelled2"] => (st, String.intercalate " " modelled2)
  | ["variant", v] =>
    if v == "asis" then ({ st with fixed := false }, "ok")
    else if v == "fixed" then ({ st with fixed := true }, "ok") else (st, "bad-op")
  | ["variant2", v] =>
    if v == "asis" then ({ st with fixedRecv := false }, "ok")
    else if v == "fixed" then ({ st with fixedRecv := true }, "ok") else (st, "bad-op")
  | ["variant3", v] =>
    if v == "asis" then ({ st with fixedRead := false }, "ok")
    else if v == "fixed" then ({ st with fixedRead := true }, "ok") else (st, "bad-op")
  | ["host", as, es, sin, wall, wres, mono, mres, pre] =>
    match parseHexList as, parseHexList es, parseBytes sin, parseNat wall, parseNat wres, parseNat mono, parseNat mres, parseBytes pre with
    | some a, some e, some s, some w, some wr, some mo, some mr, some p =>
      ({ st with host := { args := a, env := e, stdin := s, wall := w, wallRes := wr, mono := mo, monoRes := mr, preName := p } }, "ok")
    | _, _, _, _, _, _, _, _ => (st, "bad-op")
  | ["img", name, size, fill, runs] =>
    match parseNat size, parseNat fill, parseRuns runs with
    | some sz, some f, some rs =>
      ({ st with imgs := (name, Mem.ofRuns sz f rs) :: st.imgs.filter (·.1 != name) }, "ok")
    | _, _, _ => (st, "bad-op")
  | "callr" :: rest =>
    let (_, ans) := step { st with host := { st.host with cacheFull := true } } ("call" :: rest)
    (st, ans)
  | "call" :: fn :: img :: fds :: rest =>
    match (st.imgs.find? (·.1 == img)).map (·.2), parseFds fds, parseNats rest with
    | some m, some t, some a =>
      -- fd_renumber onto a large target: the table is not materialised (that is finding F16); the errno comes
      -- from the decision part and the allocation from `slotsAfterInsertAt`
      if fn == "fd_renumber" && a.length == 2 && w32 (a.getD 1 0) ≥ 65536 && w32 (a.getD 1 0) < 2147483648 then
        match renumberCheck none t (w32 (a.getD 0 0)) (w32 (a.getD 1 0)) with
        | .error e => (st, errStr e)
        | .ok (_, _, dst) => (st, s!"e=0 a={8 * (slotsAfterInsertAt t dst - DescTable.slots t)}")
      else
      match call st.fixed st.fixedRecv st.fixedRead st.host t m fn a with
      | some rs => (st, String.intercalate " | " (rs.map resStr))
      | none => (st, "bad-op")
    | _, _, _ => (st, "bad-op")
  | ["hostdirs", pre, dir] =>
    -- entries `hexname:type` in host listing order
    let p := fun (x : String) => if x == "-" then some [] else (x.splitOn ",").mapM (fun e =>
      match e.splitOn ":" with
      | [n, t] => do
        let nb ← parseBytes n
        let ty ← parseNat t
        pure (nb, ty)
      | _ => none)
    match p pre, p dir with
    | some a, some b =>
      ({ st with host := { st.host with preEntries := a.map (·.1.length), dirEntries := b.map (·.1.length),
                                         preNames := a, dirNames := b } }, "ok")
    | _, _ => (st, "bad-op")
  | "designated" :: fn :: img :: rest =>
    match (st.imgs.find? (·.1 == img)).map (·.2), parseNats rest with
    | some m, some a =>
      let rs := (designated st.host m fn (a.map w32)).filter (fun r => r.2 > 0)
      (st, s!"{rs.length} {rs.foldl (fun h r => (h * 1000003 + r.1 * 65537 + r.2) % 1099511627776) 0}")
    | _, _ => (st, "bad-op")
  | ["tbl", "new"] => ({ st with tbl := DescTable.empty }, "ok")
  | ["tbl", "insert", id] =>
    match parseNat id with
    | some id =>
      let (t, key, ok) := DescTable.insert st.tbl id
      ({ st with tbl := t }, s!"{key} {b2s ok} {tblShape t}")
    | none => (st, "bad-op")
  | ["tbl", "insertat", id, key] =>
    match parseNat id, parseInt key with
    | some id, some k =>
      let (t, ok) := DescTable.insertAt st.tbl id k
      ({ st with tbl := t }, s!"{b2s ok} {tblShape t}")
    | _, _ => (st, "bad-op")
  | ["tbl", "delete", key] =>
    match parseInt key with
    | some k =>
      let t := DescTable.delete st.tbl k
      ({ st with tbl := t }, s!"ok {tblShape t}")
    | none => (st, "bad-op")
  | ["tbl", "lookup", key] =>
    match parseInt key with
    | some k =>
      let r := match DescTable.lookup st.tbl k with
        | some id => toString id
        | none => "-"
      (st, s!"{r} {tblShape st.tbl}")
    | none => (st, "bad-op")
  | ["tbl", "reset"] =>
    let t := DescTable.reset st.tbl
    ({ st with tbl := t }, s!"ok {tblShape t}")
  | _ => (st, "bad-op")

end Oracle.C15
