/-
Oracle topic c10: the registry specification `Reg` and the implementation model `Impl`
(Wz.Model.Registry) behind the line protocol.

  c10 new <sid> <cfg>                 fresh Reg + Impl pair (cfg = 5 bits: fixF8 fixF9 atomicClose atomicRtClose notifierAtRegister)
  c10 op <sid> <op>                   run one operation sequentially on both; answer "<reg-result> <impl-result>"
  c10 dump <sid>                      effects of the Impl: "h:name:closed:notified:fscloses;..."
  c10 drop <sid>
  c10 exec <cfg> <sched> T <op>.. T <op>..   run the threads' programs on Impl under the given schedule
                                      (comma separated thread numbers; then round-robin until all are done)
                                      answer "<results thread0>|<results thread1>|... # <dump>"
  c10 check <machine> <cfg> <budget> <hop>...   is the recorded concurrent history producible?
        machine = reg : linearizability w.r.t. the atomic specification (WGL-style search, one
                        linearization point per operation between invocation and response)
        machine = impl: producible by the implementation model (every atomic action of an operation
                        between its invocation and response)
        hop = thread,inv,resp,<result>,<op>     answer "ok <nodes>" | "fail <nodes>" | "unknown <nodes>"

  op tokens:   inst,h,name,none|bin|host   look,name   comp   hcomp,0|1   close,h,code   rtclose,code   isclosed,h
  results:     ok dup closed found,h none isclosed,0|1 panic bad
-/
import Oracle.Util
import Wz.Model.Registry
import Std.Data.HashSet
namespace Oracle.C10
open Oracle Wz.Model.Registry

def parseCfg (s : String) : Option Cfg :=
  match s.toList.map (fun c => c == '1') with
  | [a, b, c, d, e] => some ⟨a, b, c, d, e⟩
  | _ => none

def parsePre (s : String) : Option Pre :=
  if s == "none" then some .none else if s == "bin" then some .bin else if s == "host" then some .host else none

def parseOpToks : List String → Option Op
  | ["inst", h, n, p] => do
    let h ← parseNat h; let n ← parseNat n; let p ← parsePre p
    pure (.instantiate h n p)
  | ["look", n] => (parseNat n).map .lookup
  | ["comp"] => some .compile
  | ["hcomp", f] => (parseBool f).map .hostCompile
  | ["close", h, c] => do
    let h ← parseNat h; let c ← parseNat c
    pure (.closeModule h c)
  | ["rtclose", c] => (parseNat c).map .closeRuntime
  | ["isclosed", h] => (parseNat h).map .isClosed
  | _ => none

def parseOp (s : String) : Option Op := parseOpToks (s.splitOn ",")

def parseResToks : List String → Option Res
  | ["ok"] => some .ok
  | ["dup"] => some .errDup
  | ["closed"] => some .errClosed
  | ["found", h] => (parseNat h).map .found
  | ["none"] => some .notFound
  | ["isclosed", b] => (parseBool b).map .closedIs
  | ["panic"] => some .panic
  | ["bad"] => some .bad
  | _ => none

def showRes : Res → String
  | .ok => "ok" | .errDup => "dup" | .errClosed => "closed" | .found h => s!"found,{h}"
  | .notFound => "none" | .closedIs b => s!"isclosed,{b2s b}" | .panic => "panic" | .bad => "bad"

def insertSorted (i : Inst) : List Inst → List Inst
  | [] => [i]
  | j :: js => if i.h ≤ j.h then i :: j :: js else j :: insertSorted i js

def dumpImpl (s : Impl) : String :=
  let is := s.insts.foldl (fun acc i => insertSorted i acc) []
  let one (i : Inst) : String :=
    let c := match i.closed with | none => "-" | some c => toString c
    let n := if i.notified.isEmpty then "-" else "+".intercalate (i.notified.map toString)
    s!"{i.h}:{i.name}:{c}:{n}:{i.fsCloses}"
  if is.isEmpty then "-" else ";".intercalate (is.map one)

/-! ### history checking -/

structure HOp where
  thread : Nat
  inv : Nat
  resp : Nat
  op : Op
  res : Res
deriving Inhabited

def parseHOp (s : String) : Option HOp :=
  match s.splitOn "," with
  | t :: i :: r :: rest => do
    let t ← parseNat t; let i ← parseNat i; let r ← parseNat r
    -- result tokens: 1 or 2
    match rest with
    | a :: more =>
      let two := a == "found" || a == "isclosed"
      let (rt, ot) := if two then ([a] ++ more.take 1, more.drop 1) else ([a], more)
      let res ← parseResToks rt
      let op ← parseOpToks ot
      pure ⟨t, i, r, op, res⟩
    | [] => none
  | _ => none

/-- A machine: where an operation starts and one atomic action. -/
structure Machine (σ : Type) where
  start : Op → Pc
  step : σ → Op → Pc → σ × Pc
  /-- projection used as memoisation key: forgets what cannot influence any later result -/
  norm : σ → σ
  /-- actions that cannot influence (or be influenced by) another thread's results: taken eagerly -/
  invisible : Pc → Bool

/-- Results depend only on: which instances exist, their names, whether closed; list; names; rtClosed. -/
def normImpl (s : Impl) : Impl :=
  { s with insts := s.insts.map (fun i => { i with closed := i.closed.map (fun _ => 0), notifier := false,
                                                   sys := false, notified := [], fsCloses := 0 }),
           rtClosed := s.rtClosed.map (fun _ => 0) }

def invisibleImpl : Pc → Bool
  | .fCas _ => true | .fRes _ => true | .mRes => true | .iNote => true | _ => false

def implMachine (cfg : Cfg) : Machine Impl := ⟨startPc cfg, stepOp cfg, normImpl, invisibleImpl⟩

/-- The specification as a one-action machine: the single action is the linearization point. -/
def regMachine : Machine Reg :=
  ⟨fun _ => .look, fun r op pc => match pc with
    | .done x => (r, .done x)
    | _ => let (r1, x) := r.step op; (r1, .done x), id, fun _ => false⟩

structure SState (σ : Type) [BEq σ] [Hashable σ] where
  vis : Std.HashSet (List Nat × List Pc × σ)
  nodes : Nat

/-- Depth-first search with memoisation over schedules. `prog[t]` = index of thread t's current
operation, `pcs[t]` its pc. Thread t may act iff no other thread's current (unfinished) operation
responded before t's current operation was invoked. -/
partial def search {σ : Type} [BEq σ] [Hashable σ] (M : Machine σ) (ops : Array (Array HOp)) (budget : Nat)
    (st : σ) (prog : Array Nat) (pcs : Array Pc) (S : SState σ) : Option Bool × SState σ :=
  let T := ops.size
  if (List.range T).all (fun t => prog[t]! ≥ ops[t]!.size) then (some true, S) else
  let key := (prog.toList, pcs.toList, M.norm st)
  if S.vis.contains key then (some false, S) else
  if S.nodes ≥ budget then (none, S) else
  let S := { vis := S.vis.insert key, nodes := S.nodes + 1 }
  let enabled (t : Nat) : Bool :=
    prog[t]! < ops[t]!.size &&
    (let o := ops[t]![prog[t]!]!
     !(List.range T).any (fun u => u != t && prog[u]! < ops[u]!.size && (ops[u]![prog[u]!]!).resp < o.inv))
  let cands := (List.range T).filter enabled
  -- eager: an enabled thread at an invisible action moves alone
  let cands := match cands.find? (fun t => M.invisible pcs[t]!) with
    | some t => [t]
    | none =>
      -- heuristic order: the operation that responded first is tried first
      let ins (t : Nat) (l : List Nat) : List Nat :=
        let r := (ops[t]![prog[t]!]!).resp
        let rec go : List Nat → List Nat
          | [] => [t]
          | u :: us => if r ≤ (ops[u]![prog[u]!]!).resp then t :: u :: us else u :: go us
        go l
      cands.foldr ins []
  let rec loop (ts : List Nat) (S : SState σ) (unknown : Bool) : Option Bool × SState σ :=
    match ts with
    | [] => (if unknown then none else some false, S)
    | t :: rest =>
    let o := ops[t]![prog[t]!]!
    let (st1, pc1) := M.step st o.op pcs[t]!
    match pc1 with
    | .done r =>
      if r == o.res then
        let prog1 := prog.set! t (prog[t]! + 1)
        let pcs1 :=
          if prog1[t]! < ops[t]!.size then pcs.set! t (M.start (ops[t]![prog1[t]!]!).op) else pcs.set! t (.done .ok)
        match search M ops budget st1 prog1 pcs1 S with
        | (some true, S) => (some true, S)
        | (some false, S) => loop rest S unknown
        | (none, S) => loop rest S true
      else loop rest S unknown
    | _ =>
      match search M ops budget st1 prog (pcs.set! t pc1) S with
      | (some true, S) => (some true, S)
      | (some false, S) => loop rest S unknown
      | (none, S) => loop rest S true
  loop cands S false

def insertByInv (o : HOp) : List HOp → List HOp
  | [] => [o]
  | p :: ps => if o.inv ≤ p.inv then o :: p :: ps else p :: insertByInv o ps

def checkHistory {σ : Type} [BEq σ] [Hashable σ] (M : Machine σ) (init : σ) (h : List HOp) (budget : Nat) : String :=
  let T := h.foldl (fun m o => max m (o.thread + 1)) 0
  let ops : Array (Array HOp) := (Array.range T).map (fun t =>
    ((h.filter (·.thread == t)).foldl (fun acc o => insertByInv o acc) []).toArray)
  let prog := (Array.range T).map (fun _ => 0)
  let pcs := (Array.range T).map (fun t => if ops[t]!.size > 0 then M.start (ops[t]![0]!).op else .done .ok)
  let (r, S) := search M ops budget init prog pcs { vis := {}, nodes := 0 }
  match r with
  | some true => s!"ok {S.nodes}"
  | some false => s!"fail {S.nodes}"
  | none => s!"unknown {S.nodes}"

/-! ### schedule execution -/

def splitThreads (toks : List String) : List (List String) :=
  let acc := toks.foldl (fun (acc : List (List String)) tok =>
    if tok == "T" then [] :: acc else
    match acc with
    | [] => []
    | p :: ps => (p ++ [tok]) :: ps) []
  acc.reverse

def allDone (c : Conc) : Bool := c.threads.all (fun th => th.cur.isNone && th.todo.isEmpty)

def finish (cfg : Cfg) : Nat → Conc → Conc
  | 0, c => c
  | n + 1, c =>
    if allDone c then c else
    finish cfg n ((List.range c.threads.length).foldl (fun c t => c.step cfg t) c)

/-! ### the topic -/

structure Sess where
  cfg : Cfg
  reg : Reg
  impl : Impl

abbrev St := List (Nat × Sess)
def init : St := []

def step (st : St) (args : List String) : St × String :=
  match args with
  | ["new", sid, cfg] =>
    match parseNat sid, parseCfg cfg with
    | some sid, some cfg => (assocSet st sid ⟨cfg, {}, {}⟩, "ok")
    | _, _ => (st, "bad-op")
  | ["drop", sid] =>
    match parseNat sid with
    | some sid => (st.filter (·.1 != sid), "ok")
    | none => (st, "bad-op")
  | ["op", sid, op] =>
    match parseNat sid, parseOp op with
    | some sid, some op =>
      match assocGet st sid with
      | none => (st, "bad-op")
      | some s =>
        let (r1, x) := s.reg.step op
        let (i1, y) := s.impl.runOp s.cfg op
        (assocSet st sid { s with reg := r1, impl := i1 }, s!"{showRes x} {showRes y}")
    | _, _ => (st, "bad-op")
  | ["dump", sid] =>
    match parseNat sid with
    | some sid =>
      match assocGet st sid with
      | none => (st, "bad-op")
      | some s => (st, dumpImpl s.impl)
    | none => (st, "bad-op")
  | "exec" :: cfg :: sched :: rest =>
    match parseCfg cfg, (if sched == "-" then some [] else parseNats (sched.splitOn ",")),
          (splitThreads rest).mapM (fun p => p.mapM parseOp) with
    | some cfg, some sched, some progs =>
      let c := finish cfg 1000 ((Conc.start progs).exec cfg sched)
      let rs := c.threads.map (fun th => ",".intercalate (th.results.map (fun x => (showRes x.2).replace "," ":")))
      (st, s!"{"|".intercalate rs} # {dumpImpl c.shared}")
    | _, _, _ => (st, "bad-op")
  | "check" :: machine :: cfg :: budget :: hops =>
    match parseCfg cfg, parseNat budget, hops.mapM parseHOp with
    | some cfg, some budget, some h =>
      if machine == "reg" then (st, checkHistory regMachine Reg.init h budget)
      else if machine == "impl" then (st, checkHistory (implMachine cfg) Impl.init h budget)
      else (st, "bad-op")
    | _, _, _ => (st, "bad-op")
  | _ => (st, "bad-op")

end Oracle.C10
