import Oracle.Util
import Wz.Model.Config
import Wz.Gen.ConfigEffects
/-
Oracle topic c19: the configuration heap model driven by the regenerated effect table.

  c19 reset                                   -> ok
  c19 new <kind> f=<init> …                   -> <node id>      init: s:<v> | l:<cap>|<n>|v1,v2 | m:<n>|k~i,k~i
  c19 call <recv id> <Method> [hints=field~cap,…] p=<arg> …  -> <node id> | refuse     arg: s:<v> | l:<n>|v1,v2
  c19 dump                                    -> canonical dump of every node (backing arrays numbered by first appearance)
  c19 guest <id>                              -> args=… env=… fs=…   (what a guest instantiated with the node sees)
  c19 safe                                    -> all-safe | unsafe:<recv.Method>,…
  c19 sig <recv> <Method>                     -> params=a,b derived=c flags=f delegate=T | unknown
  c19 refwriters                              -> methods whose effects write through a slice/map
  c19 methods                                 -> <recv.Method>,…
Values never contain space , ; ~ | (the harness pools guarantee it).
-/
namespace Oracle.C19
open Oracle Wz.Model.Config

abbrev St := State
def init : St := {}

def tbl : List Method := Wz.Gen.ConfigEffects.methods

def splitList (n : Nat) (s : String) : List String := if n == 0 then [] else s.splitOn ","

/-- `k=rest` -/
def splitEq (s : String) : Option (String × String) :=
  match s.splitOn "=" with
  | k :: v :: more => some (k, "=".intercalate (v :: more))
  | _ => none

def parseInit (s : String) : Option Init :=
  if s.startsWith "s:" then some (.scalar (s.drop 2).toString)
  else if s.startsWith "l:" then
    match ((s.drop 2).toString).splitOn "|" with
    | [cap, n, vs] => do
      let cap ← parseNat cap
      let n ← parseNat n
      let l := splitList n vs
      if l.length == n then some (.slice l cap) else none
    | _ => none
  else if s.startsWith "m:" then
    match ((s.drop 2).toString).splitOn "|" with
    | [n, kvs] => do
      let n ← parseNat n
      let l := splitList n kvs
      let kv ← l.mapM (fun e => match e.splitOn "~" with
        | [k, v] => (parseNat v).map (fun x => (k, x))
        | _ => none)
      if kv.length == n then some (.map kv) else none
    | _ => none
  else none

def parseArg (s : String) : Option ArgV :=
  if s.startsWith "s:" then some (.one (s.drop 2).toString)
  else if s.startsWith "l:" then
    match ((s.drop 2).toString).splitOn "|" with
    | [n, vs] => do
      let n ← parseNat n
      let l := splitList n vs
      if l.length == n then some (.many l) else none
    | _ => none
  else none

def parseArgs (ws : List String) : Option Args :=
  ws.foldlM (fun (a : Args) w => do
    let (k, v) ← splitEq w
    if k == "hints" then
      let hs ← (if v == "" then some [] else (v.splitOn ",").mapM (fun e => match e.splitOn "~" with
        | [f, n] => (parseNat n).map (fun x => (f, x))
        | _ => none))
      pure { a with hints := hs }
    else
      let x ← parseArg v
      pure { a with vals := a.vals ++ [(k, x)] }) {}

/-- number object pointers by first appearance -/
def canon (seen : List Nat) (p : Nat) : List Nat × Nat :=
  match seen.idxOf? p with
  | some i => (seen, i)
  | none => (seen ++ [p], seen.length)

def sortKV (kv : List (String × Nat)) : List (String × Nat) :=
  kv.mergeSort (fun a b => decide (a.1 ≤ b.1))

def dumpRef (objs : List Obj) (seen : List Nat) (f : String) (r : Ref) : List Nat × String :=
  match objs[r.ptr]? with
  | some (.arr cells) =>
    if r.cap == 0 then (seen, s!"{f}=[]0/0")
    else
      let (seen', k) := canon seen r.ptr
      (seen', s!"{f}=[{",".intercalate (cells.take r.len)}]{r.len}/{r.cap}@{k}")
  | some (.map kv) =>
    let (seen', k) := canon seen r.ptr
    (seen', s!"{f}=\{{",".intercalate ((sortKV kv).map (fun p => s!"{p.1}~{p.2}"))}}@{k}")
  | none => (seen, s!"{f}=DANGLING")

def dumpCfg (objs : List Obj) (seen : List Nat) (c : Cfg) : List Nat × String :=
  let sc := c.scalars.map (fun p => s!"{p.1}={p.2}")
  let (seen', rs) := c.refs.foldl (fun (acc : List Nat × List String) p =>
    let (s', d) := dumpRef objs acc.1 p.1 p.2
    (s', acc.2 ++ [d])) (seen, [])
  (seen', s!"{c.kind};{";".intercalate (sc ++ rs)}")

def dumpAll (st : State) : String :=
  let (_, ds) := st.nodes.foldl (fun (acc : List Nat × List String) c =>
    let (s', d) := dumpCfg st.objs acc.1 c
    (s', acc.2 ++ [d])) ([], [])
  if ds.isEmpty then "-" else "||".intercalate ds

def pairs : List Val → List String
  | k :: v :: rest => s!"{k}={v}" :: pairs rest
  | _ => []

def sliceVals (st : State) (c : Cfg) (f : String) : List Val :=
  match c.getRef f with
  | some r => match view st.objs r with
    | .arr vs => vs
    | _ => []
  | none => []

def guest (st : State) (i : Nat) : String :=
  match st.nodes[i]? with
  | none => "refuse"
  | some c =>
    let args := sliceVals st c "args"
    let env := pairs (sliceVals st c "environ")
    let fs := (c.scalars.lookup "fsConfig").getD "?"
    s!"args=[{",".intercalate args}] env=[{",".intercalate env}] fs={fs}"

def step (st : St) (args : List String) : St × String :=
  match args with
  | ["reset"] => ({}, "ok")
  | "new" :: kind :: fields =>
    match fields.mapM (fun w => do let (k, v) ← splitEq w; let i ← parseInit v; pure (k, i)) with
    | some fs => let (st', id) := newNode st kind fs; (st', toString id)
    | none => (st, "bad-op")
  | "call" :: recv :: name :: rest =>
    match parseNat recv, parseArgs rest with
    | some r, some a =>
      match call tbl st r name a with
      | some (st', id) => (st', toString id)
      | none => (st, "refuse")
    | _, _ => (st, "bad-op")
  | ["dump"] => (st, dumpAll st)
  | ["guest", i] =>
    match parseNat i with
    | some i => (st, guest st i)
    | none => (st, "bad-op")
  | ["safe"] =>
    let bad := tbl.filter (fun m => !methodSafe tbl m)
    (st, if bad.isEmpty then "all-safe" else "unsafe:" ++ ",".intercalate (bad.map (fun m => s!"{m.recv}.{m.name}")))
  | ["sig", recv, name] =>
    match Wz.Gen.ConfigEffects.sigs.find? (fun s => s.recv == recv && s.name == name) with
    | some s => (st, s!"params={",".intercalate s.params} derived={",".intercalate s.derived} flags={",".intercalate s.flags} delegate={((findMethod tbl recv name).bind (·.delegate)).getD ""}")
    | none => (st, "unknown")
  | ["refwriters"] =>
    let ws := tbl.filter (fun m => ((resolve tbl m).getD []).any (fun p => p.effs.any (fun e =>
      match e with
      | .indexWrite .. => true
      | .append .. => true
      | .mapWrite .. => true
      | _ => false)))
    (st, ",".intercalate (ws.map (fun m => s!"{m.recv}.{m.name}")))
  | ["methods"] => (st, ",".intercalate (tbl.map (fun m => s!"{m.recv}.{m.name}")))
  | _ => (st, "bad-op")

end Oracle.C19
