/-
Oracle commands for the EXTENDED model of wazevo's front end on straight-line integer code
(`Wz.Model.FrontendSLX`: `Wz.Model.FrontendSL` plus `i32.extend8_s i32.extend16_s i64.extend8_s i64.extend16_s`,
for which the front end emits `SExtend x, 8->32` etc., wrapped around the SSA model):

  c01frontx lower <params> <results> <locals> <body tokens…>     as `c01front lower` (text of `ssaBuilder.Format()`)
  c01frontx wt    <params> <results> <locals> <body tokens…>     `wellTypedX`: 1 / 0
  c01frontx run   <params> <results> <locals> <args> <body tokens…>
      `spec=<o> ssa=<o>`: `Wz.Spec.Wasm.invoke`, and `runX` on `lowerX f` (context arguments 0xec / 0x3c)
  c01frontx runssa <args> <one-block function: tokens of `c01ssa` plus `sext:<r>:<from>:<ty>:<x>`>
      `runX` on SSA text (the output of the REAL front end)

Body tokens: those of `c01front` plus the four names.  <o> as for `c01front`.
-/
import Oracle.Util
import Oracle.C01Ssa
import Oracle.C01Front
import Wz.Model.FrontendSLX
namespace Oracle.C01FrontX
open Oracle Wz.Model.SsaPass Wz.Model.FrontendSL Wz.Model.FrontendSLX

def extTable : List (String × SIX) :=
  [.i32, .i64].flatMap (fun t => [ExtW.w8, ExtW.w16].map (fun w => (extName t w, SIX.ext t w)))

def parseSIX (tok : String) : Option SIX :=
  match C01Ssa.lookup extTable tok with
  | some i => some i
  | none => (C01Front.parseSI tok).map SIX.base

def parseFnX (ps rs ls : String) (body : List String) : Option FnX := do
  pure { params := (← C01Front.parseTys ps), results := (← C01Front.parseTys rs), locals := (← C01Front.parseTys ls),
         body := (← body.mapM parseSIX) }

def parseXInstr (tok : String) : Option XInstr :=
  match tok.splitOn ":" with
  | ["sext", r, frm, ty, x] => do
    pure (.sext (← r.toNat?) (← frm.toNat?) (← C01Ssa.parseTy ty) (← x.toNat?))
  | _ => (C01Ssa.parseInstr tok).map XInstr.base

/-- `B0:0 P… <instructions>`: one block -/
def parseXFunc (toks : List String) : Option XFunc :=
  match toks with
  | b :: rest =>
    if !b.startsWith "B" then none else
    let ps := rest.takeWhile (·.startsWith "P")
    let is := rest.dropWhile (·.startsWith "P")
    do
      let params ← ps.mapM (fun tok =>
        match (tok.drop 1).toString.splitOn ":" with
        | [v, ty] => do pure ((← v.toNat?), (← C01Ssa.parseTy ty))
        | _ => none)
      let instrs ← is.mapM parseXInstr
      pure { params := params, instrs := instrs }
  | [] => none

abbrev St := Unit
def init : St := ()

def step (st : St) (args : List String) : St × String :=
  match args with
  | "lower" :: ps :: rs :: ls :: body =>
    match parseFnX ps rs ls body with
    | some f => (st, " | ".intercalate (formatX f))
    | none => (st, "bad-op")
  | "wt" :: ps :: rs :: ls :: body =>
    match parseFnX ps rs ls body with
    | some f => (st, b2s (wellTypedX f))
    | none => (st, "bad-op")
  | "run" :: ps :: rs :: ls :: as :: body =>
    match parseFnX ps rs ls body, C01Ssa.parseArgs as with
    | some f, some as =>
      (st, s!"spec={C01Front.showSpec (runSpecX f as (f.body.length + 3))} ssa={C01Front.showSsa (runX C01Ssa.world (lowerX f) (C01Front.ctxArgs ++ as))}")
    | _, _ => (st, "bad-op")
  | "runssa" :: as :: toks =>
    match parseXFunc toks, C01Ssa.parseArgs as with
    | some g, some as => (st, C01Front.showSsa (runX C01Ssa.world g (C01Front.ctxArgs ++ as)))
    | _, _ => (st, "bad-op")
  | _ => (st, "bad-op")

end Oracle.C01FrontX
