import Oracle.Util
import Wz.Spec.Num
namespace Oracle.C05
open Oracle Wz.Spec.Num

abbrev St := Unit
def init : St := ()

def hex (n : Nat) : String := String.ofList (Nat.toDigits 16 n)

def showRes : Res → String
  | .val v => s!"v:{hex v}"
  | .nanArith w => s!"nan:{w}"
  | .trap k => s!"trap:{k}"
  | .lanes w ls =>
    let parts := ls.map (fun r => match r with
      | .val v => hex v
      | .nanArith _ => "nan"
      | _ => "?")
    s!"l:{w}:" ++ ",".intercalate parts

def parseImm (s : String) : Option (List Nat) :=
  if s == "-" then some [] else (s.splitOn ",").mapM parseNat

/-- `c05 s <name> <arg>…` scalar;  `c05 v <name> <imm|-> <arg>…` vector.  Arguments are hex without prefix. -/
def step (st : St) (args : List String) : St × String :=
  match args with
  | "s" :: name :: rest =>
    match rest.mapM parseHex with
    | none => (st, "bad-op")
    | some vs =>
      match scalar name vs with
      | some r => (st, showRes r)
      | none => (st, "unsupported")
  | "v" :: name :: imm :: rest =>
    match rest.mapM parseHex, parseImm imm with
    | some vs, some im =>
      match vector name vs im with
      | some r => (st, showRes r)
      | none => (st, "unsupported")
    | _, _ => (st, "bad-op")
  | _ => (st, "bad-op")

end Oracle.C05
