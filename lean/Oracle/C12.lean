import Oracle.Util
import Wz.Model.Sizer
import Wz.Model.ModuleID
import Wz.Model.Cache
namespace Oracle.C12
open Oracle Wz.Gen.Memory Wz.Model.Sizer Wz.Model.ModuleID Wz.Model.Cache

/-- settings of one runtime of a cache machine: termination flag, and the listener object its factory
hands out (`none` = no factory in the compile context) -/
structure RtSet where
  term : Bool
  lst : Option Nat

structure Machine where
  rts : List RtSet
  useDisk : Bool
  variant : Variant
  st : St String String

abbrev St := List (Nat × Machine)
def init : St := []

def parseMax (s : String) : Option (Option (BitVec 32)) :=
  if s == "-" then some none else (parseNat s).map (fun v => some (BitVec.ofNat 32 v))

/-- `-` = no factory; otherwise one character per local function: `n` = nil listener, a digit = object id -/
def parseListeners (s : String) : Option (Option (List (Option Nat))) :=
  if s == "-" then some none
  else
    (s.toList.mapM (fun c => if c == 'n' then some none else if c.isDigit then some (some (c.toNat - '0'.toNat)) else none)).map some

def hexOf (l : List Nat) : String := bytesToHex l

def mkReq (bin : Nat) (ls : Option (List (Option Nat))) (term : Bool) : Req :=
  { bin := [bin], listeners := ls, term := term, memLimit := 0, capFromMax := false, debugInfo := false,
    customSections := false, hasDwarf := false }

def rtReq (rts : List RtSet) (rt b : Nat) : Req :=
  match rts[rt]? with
  | none => mkReq b none false
  | some r => mkReq b (r.lst.map (fun i => [some i])) r.term

def paramsOf (rts : List RtSet) (useDisk : Bool) : Params String String :=
  { key := fun rt b => s!"b{b}{keyClass (rtReq rts rt b)}",
    code := fun rt b => s!"b{b}{keyClass (rtReq rts rt b)}",
    lst := fun rt b => (rtReq rts rt b).lst,
    useDisk := useDisk }

def showLst (l : Lst) : String :=
  if l.isEmpty then "-" else String.ofList (l.map (fun o => match o with | none => 'n' | some i => hexDigit (i % 16)))

def showOut : Out String → String
  | .compiled => "compiled"
  | .closed => "closed"
  | .noHandle => "nohandle"
  | .failed => "failed"
  | .ran c l => s!"ran {c} {showLst l}"

def parseRt (s : String) : Option RtSet :=
  match s.toList with
  | ['t', t, 'l', l] =>
    let tb := if t == '1' then some true else if t == '0' then some false else none
    let lo : Option (Option Nat) := if l == '-' then some none else if l.isDigit then some (some (l.toNat - '0'.toNat)) else none
    match tb, lo with
    | some tb, some lo => some { term := tb, lst := lo }
    | _, _ => none
  | _ => none

def step (st : St) (args : List String) : St × String :=
  match args with
  | ["variant"] =>
    let r := memorySizer 5#32 true 1#32 (some 10#32)
    if r == (1#32, 10#32, 10#32) then (st, "asis")
    else if r == (1#32, 5#32, 5#32) then (st, "fixed") else (st, "neither")
  | ["decode", limit, cfm, mn, mx] =>
    match parseNat limit, parseBool cfm, parseNat mn, parseMax mx with
    | some l, some c, some m, some mo =>
      match decodeWith memorySizer (BitVec.ofNat 32 l) c (BitVec.ofNat 32 m) mo with
      | some r => (st, s!"ok {r.1.toNat} {r.2.toNat}")
      | none => (st, "err")
    | _, _, _, _ => (st, "bad-op")
  | ["indep", limit, mn, mx] =>
    match parseNat limit, parseNat mn, parseMax mx with
    | some l, some m, some mo =>
      (st, b2s (decide (CapacityIndependent memorySizer (BitVec.ofNat 32 l) (BitVec.ofNat 32 m) mo)))
    | _, _, _ => (st, "bad-op")
  | ["key", term, ls] =>
    match parseBool term, parseListeners ls with
    | some t, some lo =>
      let r := mkReq 0 lo t
      (st, s!"key={hexOf (encL 0 r.presence ++ [b2n r.term])} cg={keyClass r} wl={b2s (codegenInputs r).withListener}")
    | _, _ => (st, "bad-op")
  | "cnew" :: id :: disk :: rebind :: refc :: rts =>
    match parseNat id, parseBool disk, parseBool rebind, parseBool refc, rts.mapM parseRt with
    | some id, some d, some rb, some rc, some rs =>
      (assocSet st id { rts := rs, useDisk := d, variant := { rebind := rb, refcount := rc }, st := Wz.Model.Cache.St.init }, "ok")
    | _, _, _, _, _ => (st, "bad-op")
  | ["cop", id, op, rt, b] =>
    match parseNat id, parseNat rt, parseNat b with
    | some id, some rt, some b =>
      match assocGet st id with
      | none => (st, "bad-op")
      | some m =>
        let o : Option Op := if op == "compile" then some (.compile rt b) else if op == "inst" then some (.instantiate rt b)
          else if op == "close" then some (.closeCompiled rt b) else none
        match o with
        | none => (st, "bad-op")
        | some o =>
          let (s', out) := Wz.Model.Cache.step (paramsOf m.rts m.useDisk) m.variant m.st o
          (assocSet st id { m with st := s' }, showOut out)
    | _, _, _ => (st, "bad-op")
  | _ => (st, "bad-op")

end Oracle.C12
