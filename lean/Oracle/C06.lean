import Oracle.Util
import Wz.Model.Calls
import Wz.Model.CallEngine
/-
Oracle topic c06.

  c06 world <wid> <D> <enc>         define a world (instances `|`, functions `;`, instructions `,`), fresh state
  c06 call <wid> <inst> <fn> <arg>  call through the public API; answer `<outcome> # <dump>`
  c06 start <wid> <inst> <fn>       (re)instantiate the transient instance <inst> and run its start function <fn>
  c06 dump <wid>                    state dump
  c06 drop <wid>
  c06 grow <len> <req>              compiler growStack model: new length or `overflow`
  c06 growseq <len> <req>           lengths visited by repeated growth until overflow
  c06 ce ...                        call-engine state machine (see below)

instruction: <guard>.<op>   guard: a | e<n> | n<n>
  op: sg.<g>.<v> | ag.<g> | st.<a>.<v> | sx.<a> | tr.<k> | ca.<i>.<f>.<arg> | ho.<h>.<arg>
  arg: c<n> | x | m        host: ok | pe | ps | pv | cl | ex | rc-<j>-<g> | rp-<j>-<g>
-/
namespace Oracle.C06
open Oracle Wz.Model.Calls

structure WSt where
  W : World
  D : Nat
  σ : State

abbrev St := List (Nat × WSt)
def init : St := []

def parseArg (s : String) : Option ArgE :=
  if s == "x" then some .x
  else if s == "m" then some .xm1
  else if s.startsWith "c" then (parseNat (s.drop 1).toString).map .const
  else none

def parseGuard (s : String) : Option Guard :=
  if s == "a" then some .always
  else if s.startsWith "e" then (parseNat (s.drop 1).toString).map .eq
  else if s.startsWith "n" then (parseNat (s.drop 1).toString).map .ne
  else none

def parseTrap (s : String) : Option TrapKind :=
  match s with
  | "unreachable" => some .unreachable
  | "divzero" => some .divZero
  | "divoverflow" => some .divOverflow
  | "truncoverflow" => some .truncOverflow
  | "invalidconv" => some .invalidConv
  | "oobload" => some .oobLoad
  | "oobstore" => some .oobStore
  | "oobtable" => some .oobTable
  | "nulltable" => some .nullTable
  | "sigmismatch" => some .sigMismatch
  | "unaligned" => some .unaligned
  | _ => none

def parseHost (s : String) : Option HostFn :=
  match s.splitOn "-" with
  | ["ok"] => some .ok
  | ["pe"] => some (.panic .err)
  | ["ps"] => some (.panic .str)
  | ["pv"] => some (.panic .val)
  | ["cl"] => some .close
  | ["ex"] => some .exit
  | ["rc", j, g] => do let j ← parseNat j; let g ← parseNat g; pure (.reenter j g true)
  | ["rp", j, g] => do let j ← parseNat j; let g ← parseNat g; pure (.reenter j g false)
  | _ => none

def parseInstr (s : String) : Option Instr :=
  match s.splitOn "." with
  | g :: rest => do
    let g ← parseGuard g
    let op ← (match rest with
      | ["sg", a, b] => do let a ← parseNat a; let b ← parseNat b; pure (Op.setg a b)
      | ["ag", a] => do let a ← parseNat a; pure (Op.addg a)
      | ["st", a, b] => do let a ← parseNat a; let b ← parseNat b; pure (Op.store a b)
      | ["sx", a] => do let a ← parseNat a; pure (Op.storex a)
      | ["tr", k] => (parseTrap k).map Op.trap
      | ["ca", i, f, a] => do let i ← parseNat i; let f ← parseNat f; let a ← parseArg a; pure (Op.call i f a)
      | ["ho", h, a] => do let h ← parseHost h; let a ← parseArg a; pure (Op.host h a)
      | _ => none : Option Op)
    pure (g, op)
  | _ => none

def parseFunc (s : String) : Option Func :=
  if s == "-" then some [] else (s.splitOn ",").mapM parseInstr

def parseInst (s : String) : Option (List Func) :=
  if s == "_" then some [] else (s.splitOn ";").mapM parseFunc

def parseWorld (s : String) : Option World := (s.splitOn "|").mapM parseInst

def clsName : ErrClass → String
  | .unreachable => "unreachable" | .intDivZero => "int_div_zero" | .intOverflow => "int_overflow"
  | .invalidConv => "invalid_conv" | .oobMemory => "oob_memory" | .invalidTable => "invalid_table"
  | .typeMismatch => "type_mismatch" | .unalignedAtomic => "unaligned_atomic"

def outcomeStr : Except Failure Nat → String
  | .ok v => s!"ok {v}"
  | .error (.trap c) => s!"trap {clsName c}"
  | .error .overflow => "overflow"
  | .error (.hostPanic .err n) => s!"perr {n}"
  | .error (.hostPanic .str n) => s!"pstr {n}"
  | .error (.hostPanic .val n) => s!"pval {n}"
  | .error (.exit c) => s!"exit {c}"
  | .error .outOfFuel => "fuel"
  | .error .badRef => "badref"

def insertSorted (p : Nat × Nat) : List (Nat × Nat) → List (Nat × Nat)
  | [] => [p]
  | q :: rest => if p.1 ≤ q.1 then p :: q :: rest else q :: insertSorted p rest

def sortMem (m : List (Nat × Nat)) : List (Nat × Nat) := m.foldl (fun acc p => insertSorted p acc) []

def dumpInst (k : Nat) (s : InstState) : String :=
  let c := match s.closed with | none => "-" | some c => toString c
  let g := ",".intercalate (s.globals.map toString)
  let cells := (sortMem (s.mem.filter (fun p => p.2 != 0))).map (fun p => s!"{p.1}={p.2}")
  let m := if cells.isEmpty then "-" else ",".intercalate cells
  s!"i{k}:c={c}:g={g}:m={m}"

/-- Dump of the persistent instances (all but the last, transient one). -/
def dumpState (σ : State) : String :=
  let n := σ.length - 1
  " ".intercalate (((List.range n).zip (σ.take n)).map (fun p => dumpInst p.1 p.2))

def answer (r : R) : String := outcomeStr r.1 ++ " # " ++ dumpState r.2

open Wz.Model.CallEngine in
def stepCE (args : List String) : String :=
  match args with
  | ["grow", len, req] =>
    match parseNat len, parseNat req with
    | some l, some r =>
      match growLen false l r with
      | none => "overflow"
      | some n => toString n
    | _, _ => "bad-op"
  | ["growseq", len, req] =>
    match parseNat len, parseNat req with
    | some l, some r => " ".intercalate ((growSeq false 64 l r).map toString)
    | _, _ => "bad-op"
  | ["required", n] =>
    match parseNat n with
    | some n => toString (requiredInitial n)
    | none => "bad-op"
  | _ => "bad-op"

def step (st : St) (args : List String) : St × String :=
  match args with
  | ["world", wid, d, enc] =>
    match parseNat wid, parseNat d, parseWorld enc with
    | some wid, some d, some W => (assocSet st wid { W := W, D := d, σ := initState W }, "ok")
    | _, _, _ => (st, "bad-op")
  | ["call", wid, i, f, a] =>
    match parseNat wid, parseNat i, parseNat f, parseNat a with
    | some wid, some i, some f, some a =>
      match assocGet st wid with
      | none => (st, "bad-op")
      | some w =>
        let r := apiCall w.W w.D defaultFuel i f a w.σ
        (assocSet st wid { w with σ := r.2 }, answer r)
    | _, _, _, _ => (st, "bad-op")
  | ["start", wid, i, f] =>
    match parseNat wid, parseNat i, parseNat f with
    | some wid, some i, some f =>
      match assocGet st wid with
      | none => (st, "bad-op")
      | some w =>
        -- instantiation resolves imports by module name first: a closed module is unregistered
        -- (registry behaviour, property C10); the transient instance imports instances 0 and 2
        if (w.σ.closedOf 0).isSome || (w.σ.closedOf 2).isSome then (st, "noimport # " ++ dumpState w.σ) else
        let σ0 := w.σ.modify i (fun _ => {})
        let r := apiCall w.W w.D defaultFuel i f 0 σ0
        (assocSet st wid { w with σ := r.2 }, answer r)
    | _, _, _ => (st, "bad-op")
  | ["dump", wid] =>
    match parseNat wid with
    | some wid =>
      match assocGet st wid with
      | none => (st, "bad-op")
      | some w => (st, dumpState w.σ)
    | none => (st, "bad-op")
  | ["drop", wid] =>
    match parseNat wid with
    | some wid => (st.filter (·.1 != wid), "ok")
    | none => (st, "bad-op")
  | "ce" :: rest => (st, stepCE rest)
  | _ => (st, "bad-op")

end Oracle.C06
