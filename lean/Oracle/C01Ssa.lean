/-
Oracle commands for the model of wazevo's SSA passes `Wz.Model.SsaPass` (C01, tie of the model to the real passes):

  c01ssa passes <function>             the function after `runPasses` (dead blocks, redundant block parameters,
                                       no-op shifts, dead code), every instruction with its group id (`@g`)
  c01ssa stages <function>             the function after each of the four passes, separated by ` | `, every
                                       operand resolved through the alias table (group ids only in the last one)
  c01ssa run <fuel> <args> <function>      `run` on the function as given
  c01ssa runopt <fuel> <args> <function>   `run` on `runPasses` of it
  c01ssa wf <function>                 `wellFormed`: 1 / 0      (wfwhy: which part fails, debugging)
  c01ssa wfstages <function>           `WF` with the certificate of the input for the input / after phi / after nop
  c01ssa rpo <function>                reverse post-order after dead-block elimination (debugging)
  c01ssa phipanic <function>           1 if `passRedundantPhiEliminationOpt` would panic on the first round

<args>: comma separated hex, or `-`.

Function text: tokens separated by one space.
  B<id>:<key>           starts a block (`key`: id of its first instruction); the first block is the entry
  P<v>:<ty>             block parameter (`i32` / `i64`)
  iconst:<r>:<ty>:<c>
  iadd|isub|imul|band|bor|bxor|ishl|ushr|sshr|rotl|rotr:<r>:<ty>:<x>:<y>
  icmp:<r>:<ty>:<cond>:<x>:<y>        cond: eq neq lt_s ge_s gt_s le_s lt_u ge_u gt_u le_u; <ty> of the operands
  select:<r>:<ty>:<c>:<x>:<y>
  clz|ctz|popcnt|uextend|sextend|ireduce:<r>:<ty>:<x>
  load:<r>:<ty>:<ptr>:<off>
  store|istore8|istore16|istore32:<ty>:<v>:<ptr>:<off>
  call:<fn>:<sig>:<r.ty,…|->:<args|->
  udiv|sdiv|urem|srem:<r>:<ty>:<x>:<y>:<ctx>
  exitif:<ctx>:<c>:<code>     exit:<ctx>:<code>
  jump:<blk>:<args|->    brz:<c>:<blk>:<args|->    brnz:<c>:<blk>:<args|->    ret:<args|->
Values, blocks, constants: decimal naturals.  Invalid (dead) blocks are not printed.
-/
import Oracle.Util
import Wz.Model.SsaPass
namespace Oracle.C01Ssa
open Oracle Wz.Model.SsaPass

def parseTy (s : String) : Option Ty :=
  match s with
  | "i32" => some .i32 | "i64" => some .i64 | _ => none

def showTy : Ty → String
  | .i32 => "i32" | .i64 => "i64"

def parseVals (s : String) : Option (List Nat) :=
  if s == "-" then some [] else (s.splitOn ",").mapM (·.toNat?)

def showVals (vs : List Nat) : String :=
  if vs.isEmpty then "-" else ",".intercalate (vs.map toString)

def parseRs (s : String) : Option (List (Val × Ty)) :=
  if s == "-" then some [] else
    (s.splitOn ",").mapM (fun e =>
      match e.splitOn "." with
      | [r, t] => do pure ((← r.toNat?), (← parseTy t))
      | _ => none)

def showRs (rs : List (Val × Ty)) : String :=
  if rs.isEmpty then "-" else ",".intercalate (rs.map (fun p => s!"{p.1}.{showTy p.2}"))

def binOps : List (String × BinOp) :=
  [("iadd", .iadd), ("isub", .isub), ("imul", .imul), ("band", .band), ("bor", .bor), ("bxor", .bxor),
   ("ishl", .ishl), ("ushr", .ushr), ("sshr", .sshr), ("rotl", .rotl), ("rotr", .rotr)]

def unOps : List (String × UnOp) :=
  [("clz", .clz), ("ctz", .ctz), ("popcnt", .popcnt), ("uextend", .uextend), ("sextend", .sextend),
   ("ireduce", .ireduce)]

def divOps : List (String × DivOp) := [("udiv", .udiv), ("sdiv", .sdiv), ("urem", .urem), ("srem", .srem)]

def storeOps : List (String × StoreOp) :=
  [("store", .store), ("istore8", .istore8), ("istore16", .istore16), ("istore32", .istore32)]

def conds : List (String × Cond) :=
  [("eq", .eq), ("neq", .ne), ("lt_s", .slt), ("ge_s", .sge), ("gt_s", .sgt), ("le_s", .sle),
   ("lt_u", .ult), ("ge_u", .uge), ("gt_u", .ugt), ("le_u", .ule)]

def lookup {α} (t : List (String × α)) (s : String) : Option α := (t.find? (·.1 == s)).map (·.2)
def nameOf {α} [DecidableEq α] (t : List (String × α)) (a : α) : String :=
  ((t.find? (fun p => p.2 = a)).map (·.1)).getD "?"

def parseInstr (tok : String) : Option Instr :=
  match tok.splitOn ":" with
  | ["iconst", r, ty, c] => do pure (.iconst (← r.toNat?) (← parseTy ty) (← c.toNat?))
  | ["icmp", r, ty, c, x, y] => do
    pure (.icmp (← r.toNat?) (← parseTy ty) (← lookup conds c) (← x.toNat?) (← y.toNat?))
  | ["select", r, ty, c, x, y] => do
    pure (.select (← r.toNat?) (← parseTy ty) (← c.toNat?) (← x.toNat?) (← y.toNat?))
  | ["load", r, ty, p, off] => do pure (.load (← r.toNat?) (← parseTy ty) (← p.toNat?) (← off.toNat?))
  | ["call", fn, sig, rs, args] => do
    pure (.call (← fn.toNat?) (← sig.toNat?) (← parseRs rs) (← parseVals args))
  | ["exitif", ctx, c, code] => do pure (.exitIf (← ctx.toNat?) (← c.toNat?) (← code.toNat?))
  | ["exit", ctx, code] => do pure (.exit (← ctx.toNat?) (← code.toNat?))
  | ["jump", t, args] => do pure (.jump (← t.toNat?) (← parseVals args))
  | ["brz", c, t, args] => do pure (.brz (← c.toNat?) (← t.toNat?) (← parseVals args))
  | ["brnz", c, t, args] => do pure (.brnz (← c.toNat?) (← t.toNat?) (← parseVals args))
  | ["ret", args] => do pure (.ret (← parseVals args))
  | [name, a, b, c, d] =>
    match lookup binOps name, lookup storeOps name with
    | some op, _ => do pure (.bin op (← a.toNat?) (← parseTy b) (← c.toNat?) (← d.toNat?))
    | _, some op => do pure (.store op (← parseTy a) (← b.toNat?) (← c.toNat?) (← d.toNat?))
    | _, _ => none
  | [name, r, ty, x] => do pure (.un (← lookup unOps name) (← r.toNat?) (← parseTy ty) (← x.toNat?))
  | [name, r, ty, x, y, ctx] => do
    pure (.div (← lookup divOps name) (← r.toNat?) (← parseTy ty) (← x.toNat?) (← y.toNat?) (← ctx.toNat?))
  | _ => none

def showInstr : Instr → String
  | .iconst r ty c => s!"iconst:{r}:{showTy ty}:{c}"
  | .bin op r ty x y => s!"{nameOf binOps op}:{r}:{showTy ty}:{x}:{y}"
  | .icmp r ty c x y => s!"icmp:{r}:{showTy ty}:{nameOf conds c}:{x}:{y}"
  | .select r ty c x y => s!"select:{r}:{showTy ty}:{c}:{x}:{y}"
  | .un op r ty x => s!"{nameOf unOps op}:{r}:{showTy ty}:{x}"
  | .load r ty p off => s!"load:{r}:{showTy ty}:{p}:{off}"
  | .store op ty v p off => s!"{nameOf storeOps op}:{showTy ty}:{v}:{p}:{off}"
  | .call fn sig rs args => s!"call:{fn}:{sig}:{showRs rs}:{showVals args}"
  | .div op r ty x y ctx => s!"{nameOf divOps op}:{r}:{showTy ty}:{x}:{y}:{ctx}"
  | .exitIf ctx c code => s!"exitif:{ctx}:{c}:{code}"
  | .exit ctx code => s!"exit:{ctx}:{code}"
  | .jump t args => s!"jump:{t}:{showVals args}"
  | .brz c t args => s!"brz:{c}:{t}:{showVals args}"
  | .brnz c t args => s!"brnz:{c}:{t}:{showVals args}"
  | .ret vs => s!"ret:{showVals vs}"

/-- blocks are accumulated reversed, and so are the parameters and instructions of the current block -/
def parseToks : List String → List Block → Option (List Block)
  | [], acc => some (acc.reverse.map (fun B => { B with params := B.params.reverse, instrs := B.instrs.reverse }))
  | tok :: rest, acc =>
    if tok.startsWith "B" then
      match (tok.drop 1).toString.splitOn ":" with
      | [id, key] => do
        let B : Block := { id := (← id.toNat?), key := (← key.toNat?), invalid := false, params := [], instrs := [] }
        parseToks rest (B :: acc)
      | _ => none
    else match acc with
      | [] => none
      | B :: bs =>
        if tok.startsWith "P" then
          match (tok.drop 1).toString.splitOn ":" with
          | [v, ty] => do
            let p := ((← v.toNat?), (← parseTy ty))
            parseToks rest ({ B with params := p :: B.params } :: bs)
          | _ => none
        else do
          let i ← parseInstr tok
          parseToks rest ({ B with instrs := i :: B.instrs } :: bs)

def parseFn (toks : List String) : Option Func := do
  let bs ← parseToks toks []
  if bs.isEmpty then none else pure { blocks := bs, alias := [] }

def showBlockHead (B : Block) : List String :=
  s!"B{B.id}:{B.key}" :: B.params.map (fun p => s!"P{p.1}:{showTy p.2}")

def showFn (f : Func) : String :=
  " ".intercalate (f.validBlocks.flatMap (fun B => showBlockHead B ++ B.instrs.map showInstr))

/-- every operand resolved through the alias table -/
def showFnResolved (f : Func) : String :=
  " ".intercalate (f.validBlocks.flatMap (fun B =>
    showBlockHead B ++ B.instrs.map (fun i => showInstr (i.mapOperands (res f.alias)))))

def showFnGids (f : Func) : String :=
  " ".intercalate ((dceWithGids f).flatMap (fun (B, is) =>
    showBlockHead B ++ is.map (fun p => s!"{showInstr p.1}@{p.2}")))

def hex (n : Nat) : String := String.ofList (Nat.toDigits 16 n)

def parseArgs (s : String) : Option (List Nat) :=
  if s == "-" then some [] else (s.splitOn ",").mapM parseHex

/-- the callee of the executable oracle: results and memory effect depend on the callee, the arguments and the
memory; callee 13 traps on an odd argument sum -/
def world : World where
  call fn args mem :=
    let s := args.foldl (· + ·) 0
    if fn % 16 == 13 && s % 2 == 1 then none
    else
      let m0 := memLoad mem 0 8
      some (memStore mem ((fn % 4) * 8) (s + fn + 1) 8,
            (List.range 4).map (fun k => fn * 7 + s * (k + 1) + m0 + k))

def showMem (m : Mem) : String :=
  if m.isEmpty then "-" else ",".intercalate (m.map (fun p => s!"{hex p.1}={hex p.2}"))

def showTrace (t : List (Nat × List Nat)) : String :=
  if t.isEmpty then "-" else ";".intercalate (t.map (fun p => s!"{p.1}({",".intercalate (p.2.map hex)})"))

def showOutcome : Outcome → String
  | .values vs m t => s!"ok {if vs.isEmpty then "-" else ",".intercalate (vs.map hex)} mem {showMem m} trace {showTrace t}"
  | .trap c m t => s!"trap {c} mem {showMem m} trace {showTrace t}"
  | .outOfFuel => "out-of-fuel"
  | .error => "error"

abbrev St := Unit
def init : St := ()

def step (st : St) (args : List String) : St × String :=
  match args with
  | "passes" :: toks =>
    match parseFn toks with
    | some f => (st, showFnGids (nopElim (redundantPhiElim (deadBlockElim f))))
    | none => (st, "bad-op")
  | "stages" :: toks =>
    match parseFn toks with
    | some f =>
      let f1 := deadBlockElim f
      let f2 := redundantPhiElim f1
      let f3 := nopElim f2
      (st, " | ".intercalate [showFnResolved f1, showFnResolved f2, showFnResolved f3, showFnGids f3])
    | none => (st, "bad-op")
  | "run" :: fuel :: as :: toks =>
    match parseFn toks, parseNat fuel, parseArgs as with
    | some f, some fuel, some as => (st, showOutcome (run world f as fuel))
    | _, _, _ => (st, "bad-op")
  | "runopt" :: fuel :: as :: toks =>
    match parseFn toks, parseNat fuel, parseArgs as with
    | some f, some fuel, some as => (st, showOutcome (run world (runPasses f) as fuel))
    | _, _, _ => (st, "bad-op")
  | "wf" :: toks =>
    match parseFn toks with
    | some f => (st, b2s (wellFormed f))
    | none => (st, "bad-op")
  | "wfwhy" :: toks =>
    match parseFn toks with
    | some f =>
      let g := deadBlockElim f
      let c := computeCert g
      let bad := (g.validBlocks.filter (fun B => !decide (BlockOK c g B))).map (·.id)
      (st, s!"ids={decide (UniqueIds g)} uniq={decide g.allDefs.Nodup} entry={decide (c.avail g.entry = [])} badblocks={showVals bad}")
    | none => (st, "bad-op")
  | "wfstages" :: toks =>
    -- the certificate of the function after dead-block elimination also certifies the later stages
    match parseFn toks with
    | some f =>
      let g := deadBlockElim f
      let c := computeCert g
      let g2 := redundantPhiElim g
      let g3 := nopElim g2
      (st, s!"{b2s (decide (WF c g))}{b2s (decide (WF c g2))}{b2s (decide (WF c g3))}")
    | none => (st, "bad-op")
  | "rpo" :: toks =>
    match parseFn toks with
    | some f => (st, showVals (rpo (deadBlockElim f)))
    | none => (st, "bad-op")
  | "phipanic" :: toks =>
    match parseFn toks with
    | some f =>
      let f1 := deadBlockElim f
      (st, b2s (((rpo f1).tail.filterMap f1.findBlock).any (phiWouldPanic f1)))
    | none => (st, "bad-op")
  | _ => (st, "bad-op")

end Oracle.C01Ssa
