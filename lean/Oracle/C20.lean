import Oracle.Util
import Wz.Model.Listener
/-
Oracle topic c20: the listener event stream of a call forest.

  c20 events <cap|-> <ovp> <bao> <tip> <tj> <scap|-> H=<ids> S=<ids> <forest tokens>
  c20 chain  <cap|-> <ovp> <bao> <tip> <tj> <scap|-> H=<ids> S=<ids> <f0> <f1> <depth> <full|count> <leaf forest tokens>

forest  := { node }            (ends at `e` or at the end of the line)
node    := n <tail 0|1> <f> <nargs> <arg>* forest e outcome
outcome := r <n> <val>* | u | d | o | p | x <code> | v
ids     := comma separated naturals (may be empty)

Answer (`full`): `<event>* | ok` or `<event>* | fail:<kind>`; event = `B<f>(args)[stack]`, `A<f>(vals)`, `X<f>:<kind>`.
Answer (`count`): `nBefore nAfter nAbort wellBracketed result`.
-/
namespace Oracle.C20
open Oracle Wz.Model.Listener

abbrev St := Unit
def init : St := ()

def parseIds (s : String) : Option (List Nat) :=
  if s.isEmpty then some [] else (s.splitOn ",").mapM parseNat

def takeNats : Nat → List String → Option (List Nat × List String)
  | 0, ts => some ([], ts)
  | n + 1, t :: ts => do
    let v ← parseNat t
    let (vs, rest) ← takeNats n ts
    pure (v :: vs, rest)
  | _ + 1, [] => none

def parseOutcome : List String → Option (Outcome × List String)
  | "r" :: n :: ts => do
    let n ← parseNat n
    let (vs, rest) ← takeNats n ts
    pure (.ret vs, rest)
  | "u" :: ts => some (.fail .unreachable, ts)
  | "d" :: ts => some (.fail .divZero, ts)
  | "o" :: ts => some (.fail .oob, ts)
  | "p" :: ts => some (.fail .hostPanic, ts)
  | "x" :: c :: ts => do
    let c ← parseNat c
    pure (.fail (.exit c), ts)
  | "v" :: ts => some (.fail .overflow, ts)
  | _ => none

/-- Parses a forest; stops at `e` (not consumed) or at the end of input. -/
def parseForest : Nat → List String → Option (Forest × List String)
  | 0, _ => none
  | _, [] => some (.done, [])
  | _, "e" :: ts => some (.done, "e" :: ts)
  | fuel + 1, "n" :: tl :: f :: na :: ts => do
    let tl ← parseBool tl
    let f ← parseNat f
    let na ← parseNat na
    let (args, ts) ← takeNats na ts
    let (body, ts) ← parseForest fuel ts
    match ts with
    | "e" :: ts =>
      let (out, ts) ← parseOutcome ts
      let (next, ts) ← parseForest fuel ts
      pure (.call tl f args body out next, ts)
    | _ => none
  | _, _ => none

def kindStr : FailKind → String
  | .unreachable => "unreachable"
  | .divZero => "divzero"
  | .oob => "oob"
  | .hostPanic => "hostpanic"
  | .exit c => s!"exit{c}"
  | .overflow => "overflow"

def natsStr (l : List Nat) : String := ",".intercalate (l.map toString)

def eventStr : Event → String
  | .before f a s => s!"B{f}({natsStr a})[{natsStr s}]"
  | .after f v => s!"A{f}({natsStr v})"
  | .abort f k => s!"X{f}:{kindStr k}"

def resStr : Option Fail → String
  | none => "ok"
  | some fl => s!"fail:{kindStr fl.kind}"

def parseEngine (cap ovp bao tip tj scap : String) : Option Engine := do
  let cap ← if cap == "-" then some none else (parseNat cap).map some
  let scap ← if scap == "-" then some none else (parseNat scap).map some
  let ovp ← parseBool ovp
  let bao ← parseBool bao
  let tip ← parseBool tip
  let tj ← parseBool tj
  pure { abortCap := cap, overflowPanics := ovp, beforeAtOverflow := bao, tailInPlace := tip, tailJump := tj, stackCap := scap }

def parseSet (pre : String) (s : String) : Option (Nat → Bool) :=
  if s.startsWith pre then
    (parseIds (s.drop pre.length).toString).map (fun l => fun n => l.contains n)
  else none

def answer (mode : String) (E : Engine) (C : Cfg) (fr : Forest) : String :=
  let (evs, r) := run E C true [] fr
  if mode == "count" then
    let nb := (evs.filter (fun e => match e with | .before .. => true | _ => false)).length
    let na := (evs.filter (fun e => match e with | .after .. => true | _ => false)).length
    let nx := (evs.filter (fun e => match e with | .abort .. => true | _ => false)).length
    s!"{nb} {na} {nx} {b2s (decide (WellBracketed evs))} {resStr r}"
  else
    " ".intercalate (evs.map eventStr) ++ " | " ++ resStr r

def step (st : St) (args : List String) : St × String :=
  match args with
  | "events" :: cap :: ovp :: bao :: tip :: tj :: scap :: h :: s :: toks =>
    match parseEngine cap ovp bao tip tj scap, parseSet "H=" h, parseSet "S=" s, parseForest (toks.length + 1) toks with
    | some E, some host, some lsn, some (fr, []) => (st, answer "full" E ⟨host, lsn⟩ fr)
    | _, _, _, _ => (st, "bad-op")
  | "chain" :: cap :: ovp :: bao :: tip :: tj :: scap :: h :: s :: f0 :: f1 :: depth :: mode :: toks =>
    match parseEngine cap ovp bao tip tj scap, parseSet "H=" h, parseSet "S=" s, parseNat f0, parseNat f1, parseNat depth,
          parseForest (toks.length + 1) toks with
    | some E, some host, some lsn, some f0, some f1, some d, some (leaf, []) =>
      (st, answer mode E ⟨host, lsn⟩ (chain f0 f1 d leaf))
    | _, _, _, _, _, _, _ => (st, "bad-op")
  | _ => (st, "bad-op")

end Oracle.C20
