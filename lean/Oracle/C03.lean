import Oracle.Util
import Wz.Model.Leb128
namespace Oracle.C03
open Oracle Wz.Model.Leb128

abbrev St := Unit
def init : St := ()

def toBytes (ns : List Nat) : List Byte := ns.map (BitVec.ofNat 8)

def showErr : Err → String
  | .eof => "eof"
  | .overflow => "overflow"

def showN (r : R Nat) : String :=
  match r with
  | .ok (v, n) => s!"ok {v} {n}"
  | .error e => showErr e

def showI (r : R Int) : String :=
  match r with
  | .ok (v, n) => s!"ok {v} {n}"
  | .error e => showErr e

def lebOne (kind : String) (hex : String) : Option String :=
  match parseBytes hex with
  | none => none
  | some ns =>
    let bs := toBytes ns
    match kind with
    | "u32" => some (showN (decodeUint32 bs))
    | "u64" => some (showN (loadUint64 bs))
    | "i32" => some (showI (decodeInt32 bs))
    | "i64" => some (showI (decodeInt64 bs))
    | "i33" => some (showI (decodeInt33 bs))
    | _ => none

def hexOf (bs : List Byte) : String := bytesToHex (bs.map (·.toNat))

def step (st : St) (args : List String) : St × String :=
  match args with
  | ["leb", kind, hex] =>
    match lebOne kind hex with
    | some s => (st, s)
    | none => (st, "bad-op")
  | "lebs" :: kind :: hexes =>
    match hexes.mapM (lebOne kind) with
    | some ss => (st, ";".intercalate ss)
    | none => (st, "bad-op")
  | ["enc", "u", v] =>
    match parseNat v with
    | some v => (st, hexOf (encU v))
    | none => (st, "bad-op")
  | ["enc", "s", v] =>
    match parseInt v with
    | some v => (st, hexOf (encS v))
    | none => (st, "bad-op")
  | _ => (st, "bad-op")

end Oracle.C03
