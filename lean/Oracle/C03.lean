import Oracle.Util
import Wz.Model.Leb128
import Wz.Model.Frame
import Wz.Model.Validator
namespace Oracle.C03
open Oracle Wz.Model.Leb128 Wz.Model.Frame Wz.Model.Validator
open Wz.Spec.Wasm (VT FuncType)

abbrev St := Unit
def init : St := ()

def toBytes (ns : List Nat) : List Byte := ns.map (BitVec.ofNat 8)

def showErr : Err → String
  | .eof => "eof"
  | .overflow => "overflow"

def showN (r : R Nat) : String :=
  match r with
  | .ok (v, n) => s!"ok {v} {n}"
  | .error e => showErr e

def showI (r : R Int) : String :=
  match r with
  | .ok (v, n) => s!"ok {v} {n}"
  | .error e => showErr e

def lebOne (kind : String) (hex : String) : Option String :=
  match parseBytes hex with
  | none => none
  | some ns =>
    let bs := toBytes ns
    match kind with
    | "u32" => some (showN (decodeUint32 bs))
    | "u64" => some (showN (loadUint64 bs))
    | "i32" => some (showI (decodeInt32 bs))
    | "i64" => some (showI (decodeInt64 bs))
    | "i33" => some (showI (decodeInt33 bs))
    | _ => none

def hexOf (bs : List Byte) : String := bytesToHex (bs.map (·.toNat))

/-! ### validator topic: token text of one function body (as emitted by harness/gen) → `TI` -/

def parseVT (s : String) : Option VT :=
  match s with
  | "i32" => some .i32 | "i64" => some .i64 | "f32" => some .f32 | "f64" => some .f64 | _ => none

def parseVTs (s : String) : Option (List VT) :=
  if s == "-" || s == "" then some [] else (s.splitOn ",").mapM parseVT

def parseBT (s : String) : Option (Option VT) :=
  if s == "e" then some none else (parseVT s).map some

/-- `i32,i64>i32;>;…` -/
def parseTypes (s : String) : Option (List FuncType) :=
  if s == "-" then some [] else
  (s.splitOn ";").mapM fun t =>
    match t.splitOn ">" with
    | [p, r] => do pure ⟨← parseVTs p, ← parseVTs r⟩
    | _ => none

def parseGlobals (s : String) : Option (List (VT × Bool)) :=
  if s == "-" then some [] else
  (s.splitOn ",").mapM fun g =>
    match g.splitOn ":" with
    | [t, m] => do pure (← parseVT t, m == "1")
    | _ => none

def parseNatList (s : String) : Option (List Nat) :=
  if s == "-" then some [] else (s.splitOn ",").mapM (·.toNat?)

/-- memory instruction name → (type, width, signed, isLoad) -/
def parseMemName (name : String) : Option (VT × Nat × Bool × Bool) := do
  match name.splitOn "." with
  | [t, op] =>
    let vt ← parseVT t
    let isLoad := op.startsWith "load"
    let isStore := op.startsWith "store"
    if !isLoad && !isStore then none
    else
      let sfx := if isLoad then (op.drop 4).toString else (op.drop 5).toString
      let signed := sfx.endsWith "_s"
      let digits := if sfx.endsWith "_s" || sfx.endsWith "_u" then (sfx.dropEnd 2).toString else sfx
      let width := if digits == "" then vt.bits else digits.toNat?.getD 0
      if width == 0 then none else some (vt, width, signed, isLoad)
  | _ => none

def naturalAlign (width : Nat) : Nat := if width == 8 then 0 else if width == 16 then 1 else if width == 32 then 2 else 3

inductive PErr | illnested | unknown

/-- strict nested parse: (instructions, remaining tokens, terminator ∈ {"end","else",""}) -/
partial def parseSeqT (toks : List String) : Except PErr (List TI × List String × String) :=
  match toks with
  | [] => .ok ([], [], "")
  | "end" :: rest => .ok ([], rest, "end")
  | "else" :: rest => .ok ([], rest, "else")
  | tok :: rest =>
    let parts := tok.splitOn ":"
    let head := parts.headD ""
    let imm := parts.getD 1 ""
    let hp := head.splitOn "@"
    let name := hp.headD ""
    let alignTxt := hp.getD 1 ""
    let cont (i : TI) (rest : List String) : Except PErr (List TI × List String × String) := do
      let (is, r, t) ← parseSeqT rest
      pure (i :: is, r, t)
    let nat (s : String) : Except PErr Nat := match s.toNat? with | some n => .ok n | none => .error .unknown
    match name with
    | "block" | "loop" => do
      let bt ← match parseBT imm with | some b => pure b | none => throw PErr.unknown
      let (body, r, t) ← parseSeqT rest
      if t != "end" then throw PErr.illnested
      cont (if name == "block" then .block bt body else .loop bt body) r
    | "if" => do
      let bt ← match parseBT imm with | some b => pure b | none => throw PErr.unknown
      let (th, r, t) ← parseSeqT rest
      if t == "else" then
        let (el, r2, t2) ← parseSeqT r
        if t2 != "end" then throw PErr.illnested
        cont (.ite bt th el) r2
      else if t == "end" then cont (.ite bt th []) r
      else throw PErr.illnested
    | "i32.const" => do cont (.const .i32 (← nat imm)) rest
    | "i64.const" => do cont (.const .i64 (← nat imm)) rest
    | "f32.const" => do cont (.const .f32 (← nat imm)) rest
    | "f64.const" => do cont (.const .f64 (← nat imm)) rest
    | "local.get" => do cont (.localGet (← nat imm)) rest
    | "local.set" => do cont (.localSet (← nat imm)) rest
    | "local.tee" => do cont (.localTee (← nat imm)) rest
    | "global.get" => do cont (.globalGet (← nat imm)) rest
    | "global.set" => do cont (.globalSet (← nat imm)) rest
    | "memory.size" => cont .memSize rest
    | "memory.grow" => cont .memGrow rest
    | "memory.copy" => cont .memCopy rest
    | "memory.fill" => cont .memFill rest
    | "drop" => cont .drop rest
    | "select" => cont .select rest
    | "unreachable" => cont .unreachable rest
    | "nop" => cont .nop rest
    | "return" => cont .ret rest
    | "br" => do cont (.br (← nat imm)) rest
    | "br_if" => do cont (.brIf (← nat imm)) rest
    | "br_table" => do
      let ls ← match (imm.splitOn ",").mapM (·.toNat?) with | some l => pure l | none => throw PErr.unknown
      cont (.brTable ls.dropLast (ls.getLastD 0)) rest
    | "call" => do cont (.call (← nat imm)) rest
    | "call_indirect" => do cont (.callIndirect (← nat imm)) rest
    | _ =>
      match parseMemName name with
      | some (vt, w, sg, isLoad) => do
        let off ← nat imm
        let al ← if alignTxt == "" then pure (naturalAlign w) else nat alignTxt
        cont (if isLoad then .load vt w sg al off else .store vt w al off) rest
      | none =>
        if (numSig name).isSome then cont (.num name) rest else .error .unknown

def errClass (e : String) : String := ((e.splitOn " ").take 3).foldl (fun a b => if a == "" then b else a ++ "-" ++ b) ""

def vfunc (rt hm ht types funcs globals locals results : String) (toks : List String) : String :=
  match parseBool rt, parseBool hm, parseBool ht, parseTypes types, parseNatList funcs, parseGlobals globals,
        parseVTs locals, parseVTs results with
  | some rt, some hm, some ht, some types, some funcs, some globals, some locals, some results =>
    let C : Ctx := { types := types, funcs := funcs, globals := globals, hasMem := hm, hasTable := ht,
                     locals := locals, results := results, refTypes := rt }
    match parseSeqT toks with
    | .error .illnested => "illnested"
    | .error .unknown => "bad-op"
    | .ok (body, [], "") =>
      match check C body with
      | .ok _ => if alignSane body then "ok sane" else "ok align-quirk"
      | .error e => "err " ++ errClass e
    | .ok _ => "illnested"
  | _, _, _, _, _, _, _, _ => "bad-op"

def step (st : St) (args : List String) : St × String :=
  match args with
  | ["leb", kind, hex] =>
    match lebOne kind hex with
    | some s => (st, s)
    | none => (st, "bad-op")
  | "lebs" :: kind :: hexes =>
    match hexes.mapM (lebOne kind) with
    | some ss => (st, ";".intercalate ss)
    | none => (st, "bad-op")
  | ["enc", "u", v] =>
    match parseNat v with
    | some v => (st, hexOf (encU v))
    | none => (st, "bad-op")
  | ["enc", "s", v] =>
    match parseInt v with
    | some v => (st, hexOf (encS v))
    | none => (st, "bad-op")
  | "vfunc" :: rt :: hm :: ht :: types :: funcs :: globals :: locals :: results :: toks =>
    (st, vfunc rt hm ht types funcs globals locals results toks)
  | ["frame", hex] =>
    match parseBytes hex with
    | none => (st, "bad-op")
    | some ns =>
      let bs := toBytes ns
      let a := frame .asIs bs
      let c := frame .capped bs
      let secs := ",".intercalate (a.secs.map (fun s => s!"{s.id}:{s.size}:{s.count}"))
      (st, s!"{a.verdict} {a.alloc} {c.alloc} {a.stopId} [{secs}]")
  | _ => (st, "bad-op")

end Oracle.C03
