/-
Oracle commands for the model of wazevo's front end on straight-line integer code WITH MEMORY ACCESSES
(`Wz.Model.FrontendMem`; C01 / C02, tie of the model to the real `frontend.Compiler.LowerToSSA`):

  c01frontmem lower <params> <results> <locals> <body tokens…>
      the lowered function in the text format of `ssaBuilder.Format()`, lines separated by " | "
  c01frontmem wt    <params> <results> <locals> <body tokens…>     `wellTypedM`: 1 / 0
  c01frontmem run   <params> <results> <locals> <args> <memlen> <init> <body tokens…>
      `spec=<o> specmem=<d> ssa=<o> ssamem=<d> acc=<a> n=<k> chk=<c>`:
      the reference semantics (`Wz.Spec.Wasm.invoke` on a memory of <memlen> bytes, zero except <init>) with a
      digest of its final memory; `runM` on `lowerMem f` started on `embed mc base bytes` with the digest of the
      linear-memory part `[base, base+memlen)` of its final memory; `acc`: `ok` when every logged access is a read of
      the two module-context words or lies inside `[base, base+memlen)` (stores: inside), else `bad:<addr>`; `n`: number
      of logged accesses; `chk`: number of `ExitIfTrue` instructions in the lowered function (bounds checks emitted).
  c01frontmem runssa <args> <memlen> <init> <one-block function: tokens of `c01ssa` plus
                      `uload8|sload8|uload16|sload16|uload32|sload32:<r>:<ty>:<ptr>:<off>`>
      `ssa=<o> ssamem=<d> acc=<a> n=<k>`: `runM` on SSA text (the output of the REAL front end, before / after the
      REAL passes)

  c01frontmem dceok <one-block function> | <one-block function>
      1 / 0: the second is accepted by the verified checker `dceOK` as a dead-code elimination of the first (same
      parameters; only instructions of side-effect class none deleted; no kept instruction uses a deleted result)

  c01frontmem optok <one-block function> | <one-block function>
      1 / 0: the second is accepted by the verified checker `optValid` as the result of no-op-shift elimination, alias
      resolution and dead-code elimination on the first

Context arguments: exec_ctx = 0xec, module_ctx = 0x3c00; linear memory at base = 0x100000000000.
<memlen>: hex number of bytes; <init>: `-` or comma separated `<addr hex>=<byte hex>`.
Body tokens: those of `c01front` plus `i32.load:<off hex> i64.load:… i32.load8_s:… i32.load8_u:… i32.load16_s:…
i32.load16_u:… i64.load8_s:… i64.load8_u:… i64.load16_s:… i64.load16_u:… i64.load32_s:… i64.load32_u:… i32.store:…
i64.store:… i32.store8:… i32.store16:… i64.store8:… i64.store16:… i64.store32:… memory.size`.
<o>: `ok:<hex,…|->` / `trap:<oob-memory|div0|overflow|code<n>>` / `exhausted` / `error`.
-/
import Oracle.Util
import Oracle.C01Ssa
import Oracle.C01Front
import Wz.Model.FrontendMem
namespace Oracle.C01FrontMem
open Oracle Wz.Model.SsaPass Wz.Model.FrontendSL Wz.Model.FrontendMem

def loadTable : List (String × LoadK) :=
  [("i32.load", .i32Load), ("i64.load", .i64Load), ("i32.load8_s", .i32Load8S), ("i32.load8_u", .i32Load8U),
   ("i32.load16_s", .i32Load16S), ("i32.load16_u", .i32Load16U), ("i64.load8_s", .i64Load8S),
   ("i64.load8_u", .i64Load8U), ("i64.load16_s", .i64Load16S), ("i64.load16_u", .i64Load16U),
   ("i64.load32_s", .i64Load32S), ("i64.load32_u", .i64Load32U)]

def storeTable : List (String × StoreK) :=
  [("i32.store", .i32Store), ("i64.store", .i64Store), ("i32.store8", .i32Store8), ("i32.store16", .i32Store16),
   ("i64.store8", .i64Store8), ("i64.store16", .i64Store16), ("i64.store32", .i64Store32)]

def parseMI (tok : String) : Option MI :=
  if tok == "memory.size" then some .memSize else
  match tok.splitOn ":" with
  | [name, off] =>
    match C01Ssa.lookup loadTable name, C01Ssa.lookup storeTable name with
    | some k, _ => (parseHex off).map (MI.load k)
    | _, some k => (parseHex off).map (MI.store k)
    | _, _ => (C01Front.parseSI tok).map MI.base
  | _ => (C01Front.parseSI tok).map MI.base

def parseFnM (ps rs ls : String) (body : List String) : Option FnM := do
  pure { params := (← C01Front.parseTys ps), results := (← C01Front.parseTys rs), locals := (← C01Front.parseTys ls),
         body := (← body.mapM parseMI) }

def extOps : List (String × ExtOp) :=
  [("uload8", .uload8), ("sload8", .sload8), ("uload16", .uload16), ("sload16", .sload16), ("uload32", .uload32),
   ("sload32", .sload32)]

def parseMInstr (tok : String) : Option MInstr :=
  match tok.splitOn ":" with
  | [name, r, ty, p, off] =>
    match C01Ssa.lookup extOps name with
    | some op => do pure (.extload op (← r.toNat?) (← C01Ssa.parseTy ty) (← p.toNat?) (← off.toNat?))
    | none => (C01Ssa.parseInstr tok).map MInstr.base
  | _ => (C01Ssa.parseInstr tok).map MInstr.base

/-- `B0:0 P… <instructions>`: one block -/
def parseMFunc (toks : List String) : Option MFunc :=
  match toks with
  | b :: rest =>
    if !b.startsWith "B" then none else
    let ps := rest.takeWhile (·.startsWith "P")
    let is := rest.dropWhile (·.startsWith "P")
    do
      let params ← ps.mapM (fun tok =>
        match (tok.drop 1).toString.splitOn ":" with
        | [v, ty] => do pure ((← v.toNat?), (← C01Ssa.parseTy ty))
        | _ => none)
      let instrs ← is.mapM parseMInstr
      pure { params := params, instrs := instrs }
  | [] => none

def ecVal : Nat := 0xec
def mcVal : Nat := 0x3c00
def baseVal : Nat := 0x100000000000

def parseInit (s : String) : Option (List (Nat × Nat)) :=
  if s == "-" then some [] else
  (s.splitOn ",").mapM (fun e =>
    match e.splitOn "=" with
    | [a, b] => do pure ((← parseHex a), (← parseHex b) % 256)
    | _ => none)

def mkBytes (len : Nat) (init : List (Nat × Nat)) : ByteArray :=
  init.foldl (fun m (a, b) => m.set! a (UInt8.ofNat b)) (ByteArray.mk (Array.replicate len 0))

def digestStep (h b : Nat) : Nat := (h * 1000003 + b + 1) % 18446744073709551557

def digestBytes (m : ByteArray) : Nat :=
  (List.range m.size).foldl (fun h i => digestStep h (m.get! i).toNat) 7

def digestMem (m : Mem) (base len : Nat) : Nat :=
  (List.range len).foldl (fun h i => digestStep h (memRead m (base + i))) 7

def codeName (c : Nat) : String :=
  if c = codeMemOOB then "oob-memory" else if c = codeDivByZero then "div0"
  else if c = codeOverflow then "overflow" else s!"code{c}"

def showSsa : Outcome → String
  | .values vs _ _ => s!"ok:{C01Front.showHexs vs}"
  | .trap c _ _ => s!"trap:{codeName c}"
  | .outOfFuel => "exhausted"
  | .error => "error"

def outMem : Outcome → Mem
  | .values _ m _ => m
  | .trap _ m _ => m
  | _ => []

def showAcc (len : Nat) (log : List Acc) : String :=
  match log.find? (fun a => !(a.inside baseVal len || a.isCtxRead mcVal)) with
  | none => "ok"
  | some a => s!"bad:{C01Front.hex a.addr}"

def showRunM (g : MFunc) (as : List Nat) (len : Nat) (bytes : ByteArray) : String :=
  let r := runM C01Ssa.world g (ecVal :: mcVal :: as) (embed mcVal baseVal bytes)
  s!"ssa={showSsa r.1} ssamem={C01Front.hex (digestMem (outMem r.1) baseVal len)} acc={showAcc len r.2} n={r.2.length}"

def countChecks (g : MFunc) : Nat :=
  (g.instrs.filter (fun i => match i with | .base (.exitIf ..) => true | _ => false)).length

abbrev St := Unit
def init : St := ()

def step (st : St) (args : List String) : St × String :=
  match args with
  | "lower" :: ps :: rs :: ls :: body =>
    match parseFnM ps rs ls body with
    | some f => (st, " | ".intercalate (formatM f))
    | none => (st, "bad-op")
  | "wt" :: ps :: rs :: ls :: body =>
    match parseFnM ps rs ls body with
    | some f => (st, b2s (wellTypedM f))
    | none => (st, "bad-op")
  | "run" :: ps :: rs :: ls :: as :: len :: ini :: body =>
    match parseFnM ps rs ls body, C01Ssa.parseArgs as, parseHex len, parseInit ini with
    | some f, some as, some len, some ini =>
      let bytes := mkBytes len ini
      let sp := runSpecM f as bytes (f.body.length + 3)
      let g := lowerMem f
      (st, s!"spec={C01Front.showSpec sp.1} specmem={C01Front.hex (digestBytes sp.2)} {showRunM g as len bytes} chk={countChecks g}")
    | _, _, _, _ => (st, "bad-op")
  | "runssa" :: as :: len :: ini :: toks =>
    match parseMFunc toks, C01Ssa.parseArgs as, parseHex len, parseInit ini with
    | some g, some as, some len, some ini => (st, showRunM g as len (mkBytes len ini))
    | _, _, _, _ => (st, "bad-op")
  | "dceok" :: toks =>
    let a := toks.takeWhile (· != "|")
    let b := (toks.dropWhile (· != "|")).drop 1
    match parseMFunc a, parseMFunc b with
    | some g, some g' => (st, b2s (g.params == g'.params && dceOK [] g.instrs g'.instrs))
    | _, _ => (st, "bad-op")
  | "optok" :: toks =>
    let a := toks.takeWhile (· != "|")
    let b := (toks.dropWhile (· != "|")).drop 1
    match parseMFunc a, parseMFunc b with
    | some g, some g' => (st, b2s (optValid g g'))
    | _, _ => (st, "bad-op")
  | _ => (st, "bad-op")

end Oracle.C01FrontMem
