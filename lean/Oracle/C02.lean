import Oracle.Util
import Wz.Model.MemAccess
import Wz.Model.Amode
import Wz.Model.SafeBounds
namespace Oracle.C02
open Oracle Wz.Model

/-- Topic state: stateless. -/
abbrev St := Unit
def init : St := ()

def showOpt (o : Option Nat) : String :=
  match o with
  | none => "trap"
  | some n => toString n

/-! amode expression parser (prefix tokens) -/
open Wz.Model.Amode in
def parseAExpr : List String → Option (AExpr × List String)
  | "r64" :: r :: rest => do let r ← parseNat r; pure (.r64 r, rest)
  | "k64" :: c :: m :: rest => do
      let c ← parseNat c; let m ← parseBool m; pure (.k64 (BitVec.ofNat 64 c) m, rest)
  | "k32" :: c :: m :: rest => do
      let c ← parseNat c; let m ← parseBool m; pure (.k32 (BitVec.ofNat 32 c) m, rest)
  | "ux" :: "r" :: r :: rest => do let r ← parseNat r; pure (.uext (.r32 r), rest)
  | "ux" :: "c" :: c :: rest => do let c ← parseNat c; pure (.uext (.c32 (BitVec.ofNat 32 c)), rest)
  | "sx" :: "r" :: r :: rest => do let r ← parseNat r; pure (.sext (.r32 r), rest)
  | "sx" :: "c" :: c :: rest => do let c ← parseNat c; pure (.sext (.c32 (BitVec.ofNat 32 c)), rest)
  | "shl" :: xk :: xv :: ak :: av :: rest => do
      let xv ← parseNat xv
      let av ← parseNat av
      let x ← (if xk == "xr" then some (ShX.xr xv) else if xk == "xc" then some (ShX.xc (BitVec.ofNat 64 xv)) else none)
      let a ← (if ak == "ac" then some (ShAmt.ac (BitVec.ofNat 64 av)) else if ak == "ar" then some (ShAmt.ar av) else none)
      pure (.shl x a, rest)
  | _ => none

open Wz.Model.Amode in
def parsePtr : List String → Option Ptr
  | "S" :: rest => do
      let (a, rest) ← parseAExpr rest
      if rest.isEmpty then pure (.single a) else none
  | "A" :: self :: rest => do
      let self ← parseNat self
      let (a, rest) ← parseAExpr rest
      let (b, rest) ← parseAExpr rest
      if rest.isEmpty then pure (.add a b self) else none
  | _ => none

open Wz.Model.Amode in
def showReg : Reg → String
  | .v r => s!"v{r}"
  | .tmp c => s!"t{c.toNat}"
  | .shlv r k => s!"s{r}:{k}"

open Wz.Model.Amode in
def showAmode : Option Amode → String
  | none => "panic"
  | some am =>
    let idx := match am.index with
      | none => "-"
      | some (r, s) => s!"{showReg r}*{s}"
    s!"imm={am.imm32.toNat} base={showReg am.base} index={idx}"

/-! safe-bounds op parser -/
open Wz.Model.SafeBounds in
def parseEntries : Nat → List String → Option (State × List String)
  | 0, rest => some ([], rest)
  | n + 1, v :: b :: rest => do
      let v ← parseNat v; let b ← parseNat b
      let (es, rest) ← parseEntries n rest
      pure (⟨v, b, none⟩ :: es, rest)
  | _, _ => none

open Wz.Model.SafeBounds in
def parseStates : Nat → List String → Option (List State × List String)
  | 0, rest => some ([], rest)
  | n + 1, k :: rest => do
      let k ← parseNat k
      let (s, rest) ← parseEntries k rest
      let (ss, rest) ← parseStates n rest
      pure (s :: ss, rest)
  | _, _ => none

open Wz.Model.SafeBounds in
partial def parseOps : List String → Option (List Op)
  | [] => some []
  | "a" :: v :: off :: size :: rest => do
      let v ← parseNat v; let off ← parseNat off; let size ← parseNat size
      let ops ← parseOps rest
      pure (.access v off size :: ops)
  | "c" :: b :: l :: rest => do
      let b ← parseNat b; let l ← parseNat l
      let ops ← parseOps rest
      pure (.call b l :: ops)
  | "e" :: sealed :: n :: rest => do
      let sealed ← parseBool sealed; let n ← parseNat n
      let (ss, rest) ← parseStates n rest
      let ops ← parseOps rest
      pure (.enterBlock ss sealed :: ops)
  | "l" :: k :: rest => do
      let k ← parseNat k
      let ops ← parseOps rest
      pure (.loopBack k :: ops)
  | _ => none

def takeN : Nat → List String → Option (List Nat × List String)
  | 0, rest => some ([], rest)
  | n + 1, x :: rest => do
      let x ← parseNat x
      let (xs, rest) ← takeN n rest
      pure (x :: xs, rest)
  | _, _ => none

open Wz.Model.SafeBounds in
def showEv : Ev → String
  | .trap _ _ => "T"
  | .ok addr _ _ _ _ checked => (if checked then "C" else "N") ++ toString addr

def step (st : St) (args : List String) : St × String :=
  match args with
  | ["copy", n, src, dst, len] =>
    match parseNat n, parseNat src, parseNat dst, parseNat len with
    | some n, some src, some dst, some len =>
      let spec := decide (len < src % 2^32 + n % 2^32 ∨ len < dst % 2^32 + n % 2^32)
      (st, s!"spec={b2s spec} interp={b2s (MemAccess.copyTraps (BitVec.ofNat 32 n) (BitVec.ofNat 32 src) (BitVec.ofNat 32 dst) (BitVec.ofNat 64 len))}")
    | _, _, _, _ => (st, "bad-op")
  | [kind, base, off, w, len] =>
    match parseNat base, parseNat off, parseNat w, parseNat len with
    | some base, some off, some w, some len =>
      let b := BitVec.ofNat 32 base
      let o := BitVec.ofNat 32 off
      let l := BitVec.ofNat 64 len
      let spec := MemAccess.specAccess (base % 2^32) (off % 2^32) w len
      if kind == "access" then
        (st, s!"spec={showOpt spec} interp={showOpt ((MemAccess.access b o w l).map (·.toNat))}")
      else if kind == "v128load" then
        (st, s!"spec={showOpt (MemAccess.specAccess (base % 2^32) (off % 2^32) 16 len)} interp={showOpt ((MemAccess.v128Load b o l).map (·.toNat))}")
      else if kind == "v128store" then
        (st, s!"spec={showOpt (MemAccess.specAccess (base % 2^32) (off % 2^32) 16 len)} interp={showOpt ((MemAccess.v128Store b o l).map (·.toNat))}")
      else (st, "bad-op")
    | _, _, _, _ => (st, "bad-op")
  | ["init", n, src, dst, len, dataLen] =>
    match parseNat n, parseNat src, parseNat dst, parseNat len, parseNat dataLen with
    | some n, some src, some dst, some len, some dataLen =>
      let spec := decide (dataLen < src % 2^32 + n % 2^32 ∨ len < dst % 2^32 + n % 2^32)
      (st, s!"spec={b2s spec} interp={b2s (MemAccess.initTraps (BitVec.ofNat 32 n) (BitVec.ofNat 32 src) (BitVec.ofNat 32 dst) (BitVec.ofNat 64 len) (BitVec.ofNat 64 dataLen))}")
    | _, _, _, _, _ => (st, "bad-op")
  | ["fill", n, dst, len] =>
    match parseNat n, parseNat dst, parseNat len with
    | some n, some dst, some len =>
      let spec := decide (len < dst % 2^32 + n % 2^32)
      (st, s!"spec={b2s spec} interp={b2s (MemAccess.fillTraps (BitVec.ofNat 32 n) 0#32 (BitVec.ofNat 32 dst) (BitVec.ofNat 64 len))}")
    | _, _, _ => (st, "bad-op")
  | "amode" :: fixed :: offBase :: rest =>
    match parseBool fixed, parseNat offBase, parsePtr rest with
    | some fixed, some offBase, some p =>
      (st, showAmode (Amode.lowerToAddressMode fixed p (BitVec.ofNat 32 offBase)))
    | _, _, _ => (st, "bad-op")
  | "sb" :: base :: len :: nv :: rest =>
    match parseNat base, parseNat len, parseNat nv with
    | some base, some len, some nv =>
      match takeN nv rest with
      | none => (st, "bad-op")
      | some (vals, rest) =>
        match parseOps rest with
        | none => (st, "bad-op")
        | some ops =>
          match SafeBounds.run (fun i => vals.getD i 0) ops (SafeBounds.init base len) with
          | none => (st, "ill-formed")
          | some evs => (st, " ".intercalate ("ev" :: evs.map showEv))
    | _, _, _ => (st, "bad-op")
  | _ => (st, "bad-op")

end Oracle.C02
