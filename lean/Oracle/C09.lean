import Oracle.Util
import Wz.Model.Lifetime
namespace Oracle.C09
open Oracle Wz.Model.Lifetime

/-- Topic state: one world per history id. -/
abbrev St := List (Nat × W)
def init : St := []

def colon (s : String) : String × Option Nat :=
  match s.splitOn ":" with
  | [a, b] => (a, parseNat b)
  | _ => (s, none)

def parseOp : List String → Option Op
  | ["inst", i, imp, tab] => do
    let i ← parseNat i
    let imp ← if imp == "-" then some none else (parseNat imp).map some
    let tab ← match colon tab with
      | ("priv", none) => some TabMode.priv
      | ("exp", none) => some TabMode.exp
      | ("imp", some k) => some (TabMode.imp k)
      | _ => none
    pure (.inst i imp tab)
  | ["pass", s, how, d, wh] => do
    let s ← parseNat s
    let d ← parseNat d
    let how ← match colon how with
      | ("own", none) => some How.own
      | ("imp", none) => some How.imp
      | ("slot", some n) => some (How.slot n)
      | ("glob", none) => some How.glob
      | _ => none
    let wh ← match colon wh with
      | ("tab", some n) => some (Where.tab n)
      | ("glob", none) => some Where.glob
      | _ => none
    pure (.pass s how d wh)
  | ["call", j, via, x] => do
    let j ← parseNat j
    let x ← parseNat x
    let via ← match colon via with
      | ("tab", some n) => some (Via.tab n)
      | ("imp", none) => some Via.imp
      | ("host", none) => some Via.host
      | _ => none
    pure (.call j via x)
  | ["close", i] => (parseNat i).map .close
  | ["closecm", i] => (parseNat i).map .closecm
  | ["closert"] => some .closert
  | ["closecache"] => some .closecache
  | ["drop", i] => (parseNat i).map .drop
  | ["droprt"] => some .droprt
  | ["gc"] => some .gc
  | _ => none

/-- strong reachability (perm ∪ reg) between the modelled objects of the instances, for the comparison
with the reflection walk over the real heap: `i>j` instance to instance, `i>cm` instance to its own
compiled module. Only instances that are still live are listed. -/
def reachMat (w : W) : String :=
  let E := w.g.perm ++ w.g.reg
  let liveI := w.insts.filter (fun r => w.g.live.contains r.inst)
  let cells := liveI.flatMap (fun a =>
    let rs := reachSet E [a.inst]
    (liveI.filter (fun b => b.idx != a.idx)).map (fun b => s!"{a.idx}>{b.idx}:{b2s (rs.contains b.inst)}") ++
      [s!"{a.idx}>cm:{b2s (rs.contains a.cm)}"])
  if cells.isEmpty then "-" else " ".intercalate cells

def step (st : St) (args : List String) : St × String :=
  match args with
  | ["reset", id, kind, cache, pin] =>
    match parseNat id, parseBool cache, parseBool pin with
    | some id, some c, some p =>
      let k := if kind == "interpreter" then EngineKind.interpreter else EngineKind.compiler
      (assocSet st id (W.init k c p), "ok")
    | _, _, _ => (st, "bad-op")
  | "op" :: id :: rest =>
    match parseNat id, parseOp rest with
    | some id, some op =>
      match assocGet st id with
      | none => (st, "bad-op")
      | some w =>
        let d := disciplined w op
        let okp := stepOk w op
        let (w', a) := stepW w op
        (assocSet st id w', s!"{a.toString} shadow={b2s w'.g.shadowOk} disc={b2s d} primsok={b2s okp}")
    | _, _ => (st, "bad-op")
  | ["reach", id] =>
    match parseNat id with
    | some id =>
      match assocGet st id with
      | none => (st, "bad-op")
      | some w => (st, reachMat w)
    | none => (st, "bad-op")
  | ["drop", id] =>
    match parseNat id with
    | some id => (st.filter (·.1 != id), "ok")
    | none => (st, "bad-op")
  | _ => (st, "bad-op")

end Oracle.C09
