import Oracle.Util
import Wz.Model.ReadFS
namespace Oracle.C17
open Oracle Wz.Gen.ReadFS Wz.Model.ReadFS

/-- Topic state: none (the read-only wrapper is stateless). -/
abbrev St := Unit
def init : St := ()

def fsMethod? (s : String) : Option FSMethod := FSMethod.all.find? (·.name == s)
def fileMethod? (s : String) : Option FileMethod := FileMethod.all.find? (·.name == s)

def showUCall : UCall → String
  | .fs m => s!"fs:{m.name}"
  | .open f => s!"open:{f.toNat}"
  | .file m => s!"file:{m.name}"
  | .unknown => "unknown"

def showReq : Req → String
  | .fs .OpenFile fl => s!"fs:OpenFile:{fl.toNat}"
  | .fs m _ => s!"fs:{m.name}"
  | .file m => s!"file:{m.name}"

def showList (l : List String) : String := if l.isEmpty then "-" else " ".intercalate l

def showDecision : Except Nat (BitVec 32) → String
  | .error e => s!"refuse {e}"
  | .ok f => s!"delegate {f.toNat}"

def showOutcome : OpenOutcome → String
  | .einval => "einval"
  | .refused e => s!"refuse {e}"
  | .delegated f => s!"delegate {f.toNat}"

def simpleOps : List (String × WasiOp) :=
  [("path_create_directory", .pathCreateDirectory), ("path_remove_directory", .pathRemoveDirectory),
   ("path_unlink_file", .pathUnlinkFile), ("path_rename", .pathRename), ("path_link", .pathLink),
   ("path_symlink", .pathSymlink), ("path_filestat_set_times", .pathFilestatSetTimes),
   ("path_filestat_get", .pathFilestatGet), ("path_readlink", .pathReadlink),
   ("fd_write", .fdWrite), ("fd_pwrite", .fdPwrite), ("fd_allocate", .fdAllocate),
   ("fd_filestat_set_size", .fdFilestatSetSize), ("fd_filestat_set_times", .fdFilestatSetTimes),
   ("fd_fdstat_set_flags", .fdFdstatSetFlags), ("fd_sync", .fdSync), ("fd_datasync", .fdDatasync),
   ("fd_read", .fdRead), ("fd_pread", .fdPread), ("fd_seek", .fdSeek), ("fd_tell", .fdTell),
   ("fd_readdir", .fdReaddir), ("fd_filestat_get", .fdFilestatGet), ("fd_fdstat_get", .fdFdstatGet),
   ("fd_close", .fdClose), ("fd_renumber", .fdRenumber), ("fd_advise", .fdAdvise), ("fd_prestat_get", .fdPrestatGet)]

def step (st : St) (args : List String) : St × String :=
  match args with
  | ["variant"] => (st, variantName)
  | ["wraps"] => (st, ReadFS_OpenFile_wrapsIn)
  | ["open", fl] =>
    match parseNat fl with
    | some fl => (st, showDecision (ReadFS_OpenFile (BitVec.ofNat 32 fl)))
    | none => (st, "bad-op")
  | ["readonly", fl] =>
    match parseNat fl with
    | some fl => (st, b2s (readOnlyFlag (BitVec.ofNat 32 fl)))
    | none => (st, "bad-op")
  | ["openflags", d, o, f, r] =>
    match parseNat d, parseNat o, parseNat f, parseNat r with
    | some d, some o, some f, some r =>
      (st, s!"{(openFlags (BitVec.ofNat 16 d) (BitVec.ofNat 16 o) (BitVec.ofNat 16 f) (BitVec.ofNat 32 r)).toNat}")
    | _, _, _, _ => (st, "bad-op")
  | ["pathopen", d, o, f, r] =>
    match parseNat d, parseNat o, parseNat f, parseNat r with
    | some d, some o, some f, some r =>
      (st, showOutcome (pathOpen ReadFS_OpenFile (BitVec.ofNat 16 d) (BitVec.ofNat 16 o) (BitVec.ofNat 16 f) (BitVec.ofNat 32 r)))
    | _, _, _, _ => (st, "bad-op")
  | ["serve", "fs", m, fl] =>
    match fsMethod? m, parseNat fl with
    | some m, some fl => (st, showList ((serve (.fs m (BitVec.ofNat 32 fl))).map showUCall))
    | _, _ => (st, "bad-op")
  | ["serve", "file", m] =>
    match fileMethod? m with
    | some m => (st, showList ((serve (.file m)).map showUCall))
    | none => (st, "bad-op")
  | ["adapt", "fs", m] =>
    match fsMethod? m with
    | some m => (st, showList ((serveAdapt (.fs m 0#32)).map showUCall))
    | none => (st, "bad-op")
  | ["adapt", "file", m] =>
    match fileMethod? m with
    | some m => (st, showList ((serveAdapt (.file m)).map showUCall))
    | none => (st, "bad-op")
  | ["nonmut", "fs", m] =>
    match fsMethod? m with
    | some m => (st, b2s (UCall.fs m).nonMutating)
    | none => (st, "bad-op")
  | ["nonmut", "file", m] =>
    match fileMethod? m with
    | some m => (st, b2s (UCall.file m).nonMutating)
    | none => (st, "bad-op")
  | ["nonmut", "open", fl] =>
    match parseNat fl with
    | some fl => (st, b2s (UCall.open (BitVec.ofNat 32 fl)).nonMutating)
    | none => (st, "bad-op")
  | ["methods", "fs"] => (st, showList (FSMethod.all.map (·.name)))
  | ["methods", "file"] => (st, showList (FileMethod.all.map (·.name)))
  | ["wasi", "path_open", d, o, f, r] =>
    match parseNat d, parseNat o, parseNat f, parseNat r with
    | some d, some o, some f, some r =>
      (st, showList ((wasiReqs (.pathOpen (BitVec.ofNat 16 d) (BitVec.ofNat 16 o) (BitVec.ofNat 16 f) (BitVec.ofNat 32 r))).map showReq))
    | _, _, _, _ => (st, "bad-op")
  | ["wasi", name] =>
    match simpleOps.find? (·.1 == name) with
    | some (_, op) => (st, showList ((wasiReqs op).map showReq))
    | none => (st, "bad-op")
  | _ => (st, "bad-op")

end Oracle.C17
