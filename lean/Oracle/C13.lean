/-
Oracle topic c13: the executable models of the cache entry codec and of fileCache.Add.

  c13 steps                                  → "<addSteps> | <addCleanup> | fresh=<0|1> fromTemp=<0|1> toFinal=<0|1>"
  c13 magic                                  → hex
  c13 ser <verhex> <offs|-> <exechex> <sm|->  → hex of serialize (CRC-32C)      offs = a,b,c   sm = a:b,c:d
  c13 deserfixed <verhex> <entryhex>         → the same for the REPAIRED reader (finding switch crcAlways = true)
  c13 deser <verhex> <entryhex>              → ok offs=<..> execlen=<n> execcrc=<n> sm=<..> | stale | err <msg> | panic <msg>
  c13 get <verhex> <entryhex|none>           → code=<0|1> deleted=<0|1> error=<msg|-> recompiled=<0|1>
  c13 crash <point> <N> <len> <keep|->       → state of the directory after a single writer of a <len>-byte entry died
                                               right after <point> (createTemp|copy|sync|close|rename|mid; mid = N bytes copied),
                                               then (keep ≠ -) a power loss keeping max(synced, keep) bytes of every file:
                                               "final=<none|full|part:n> temps=<n,…|->"
  c13 sched <len0,len1,…> <ev,ev,…> <keep|-> → the same for several writers of one key under a schedule
                                               ev = r<i> | f<i> | d ; writer i writes len_i bytes of value i+1
-/
import Oracle.Util
import Wz.Model.CacheEntry
import Wz.Model.CacheEntryFixed
import Wz.Model.FileCache
namespace Oracle.C13
open Oracle
open Wz.Model

abbrev St := Unit
def init : St := ()

/-- tail-recursive hex parser (entries can be hundreds of kilobytes) -/
def hexVal (c : Char) : Option Nat :=
  if c.isDigit then some (c.toNat - '0'.toNat)
  else if 'a' ≤ c ∧ c ≤ 'f' then some (c.toNat - 'a'.toNat + 10)
  else if 'A' ≤ c ∧ c ≤ 'F' then some (c.toNat - 'A'.toNat + 10)
  else none

def parseHexBytes (s : String) : Option (List Nat) :=
  if s == "-" then some [] else
  let rec go (cs : List Char) (acc : Array Nat) : Option (List Nat) :=
    match cs with
    | [] => some acc.toList
    | [_] => none
    | a :: b :: rest =>
      match hexVal a, hexVal b with
      | some x, some y => go rest (acc.push (x * 16 + y))
      | _, _ => none
  go s.toList #[]

def hexOf (bs : List Nat) : String :=
  if bs.isEmpty then "-" else
  String.ofList ((bs.foldl (fun (acc : Array Char) b => (acc.push (hexDigit (b / 16 % 16))).push (hexDigit (b % 16))) #[]).toList)

def parseList (s : String) : Option (List Nat) :=
  if s == "-" then some [] else (s.splitOn ",").mapM parseNat

def parsePairs (s : String) : Option (List (Nat × Nat)) :=
  if s == "-" then some [] else
  (s.splitOn ",").mapM (fun p =>
    match p.splitOn ":" with
    | [a, b] => do let x ← parseNat a; let y ← parseNat b; pure (x, y)
    | _ => none)

def showList (l : List Nat) : String := if l.isEmpty then "-" else ",".intercalate (l.map toString)
def showPairs (l : List (Nat × Nat)) : String :=
  if l.isEmpty then "-" else ",".intercalate (l.map (fun p => s!"{p.1}:{p.2}"))

def us (s : String) : String := s.map (fun c => if c == ' ' then '_' else c)

def stepName : Wz.Gen.FileCache.AddStep → String
  | .createTemp => "createTemp" | .copy => "copy" | .sync => "sync" | .close => "close"
  | .rename => "rename" | .remove => "remove" | .other s => "other:" ++ us s

def showRes : CacheEntry.Res → String
  | .ok cm => s!"ok offs={showList cm.offsets} execlen={cm.exec.length} execcrc={CacheEntry.crc32c cm.exec} sm={showPairs cm.srcMap}"
  | .stale => "stale"
  | .err m => "err " ++ us m
  | .panic m => "panic " ++ us m

/-- canonical view of the directory for key 0 -/
def showDir (fs : FileCache.FS) (full : List Nat → Bool) : String :=
  let fin := match fs.content (.final 0) with
    | none => "none"
    | some d => if full d then "full" else s!"part:{d.length}"
  let temps := (List.range fs.nextNonce).filterMap (fun n => (fs.content (.temp 0 n)).map (·.length))
  s!"final={fin} temps={showList temps}"

def content (len : Nat) (v : Nat) : List Nat := List.replicate len v

/-- number of micro-steps up to and including the first occurrence of `pt` in the step list -/
def stepsUpTo (len : Nat) (pt : Wz.Gen.FileCache.AddStep) : List Wz.Gen.FileCache.AddStep → Option Nat
  | [] => none
  | s :: rest =>
    let n := (FileCache.expandStep (content len 1) s).length
    if s = pt then some n else (stepsUpTo len pt rest).map (· + n)

def stepsBefore (len : Nat) (pt : Wz.Gen.FileCache.AddStep) : List Wz.Gen.FileCache.AddStep → Option Nat
  | [] => none
  | s :: rest =>
    if s = pt then some 0 else (stepsBefore len pt rest).map (· + (FileCache.expandStep (content len 1) s).length)

def pointSteps (point : String) (n len : Nat) : Option Nat :=
  let ss := Wz.Gen.FileCache.addSteps
  match point with
  | "createTemp" => stepsUpTo len .createTemp ss
  | "copy" => stepsUpTo len .copy ss
  | "sync" => stepsUpTo len .sync ss
  | "close" => stepsUpTo len .close ss
  | "rename" => stepsUpTo len .rename ss
  | "mid" => (stepsBefore len .copy ss).map (· + min n len)
  | _ => none

def parseKeep (s : String) : Option (Option Nat) :=
  if s == "-" then some none else (parseNat s).map some

def parseEv (s : String) : Option FileCache.Ev :=
  if s == "d" then some (.delete 0)
  else if s.startsWith "r" then (parseNat (s.drop 1).toString).map .run
  else if s.startsWith "f" then (parseNat (s.drop 1).toString).map .fail
  else none

def step (st : St) (args : List String) : St × String :=
  match args with
  | ["steps"] =>
    let g := Wz.Gen.FileCache.addSteps
    let c := Wz.Gen.FileCache.addCleanup
    (st, " ".intercalate (g.map stepName) ++ " | " ++ " ".intercalate (c.map stepName) ++
      s!" | fresh={b2s Wz.Gen.FileCache.tempNamesFresh} fromTemp={b2s Wz.Gen.FileCache.renameFromTemp} toFinal={b2s Wz.Gen.FileCache.renameToFinal}")
  | ["magic"] => (st, hexOf CacheEntry.magic)
  | ["ser", v, offs, ex, sm] =>
    match parseHexBytes v, parseList offs, parseHexBytes ex, parsePairs sm with
    | some v, some offs, some ex, some sm =>
      (st, hexOf (CacheEntry.serialize CacheEntry.crc32c CacheEntry.magic v ⟨offs, ex, sm⟩))
    | _, _, _, _ => (st, "bad-op")
  | ["deser", v, e] =>
    match parseHexBytes v, parseHexBytes e with
    | some v, some e => (st, showRes (CacheEntry.deserialize CacheEntry.crc32c CacheEntry.magic v e))
    | _, _ => (st, "bad-op")
  | ["deserfixed", v, e] =>
    match parseHexBytes v, parseHexBytes e with
    | some v, some e => (st, showRes (CacheEntry.deserializeSw true CacheEntry.crc32c CacheEntry.magic v e))
    | _, _ => (st, "bad-op")
  | ["get", v, e] =>
    match parseHexBytes v, (if e == "none" then some none else (parseHexBytes e).map some) with
    | some v, some e =>
      let o := CacheEntry.getFromCache CacheEntry.crc32c CacheEntry.magic v e
      (st, s!"code={b2s o.code.isSome} deleted={b2s o.deleted} error={(o.error.map us).getD "-"} recompiled={b2s o.recompiled}")
    | _, _ => (st, "bad-op")
  | ["crash", point, n, len, keep] =>
    match parseNat n, parseNat len, parseKeep keep with
    | some n, some len, some keep =>
      match pointSteps point n len with
      | none => (st, "unreachable-point")
      | some k =>
        let s := (FileCache.Sys.init FileCache.FS.empty (fun _ => (0, content len 1))).run (List.replicate k (.run 0))
        let fs := match keep with | none => s.fs | some kp => s.fs.powerLoss (fun _ => kp)
        (st, showDir fs (fun d => d == content len 1))
    | _, _, _ => (st, "bad-op")
  | ["sched", lens, evs, keep] =>
    match parseList lens, (if evs == "-" then some [] else (evs.splitOn ",").mapM parseEv), parseKeep keep with
    | some lens, some evs, some keep =>
      let spec : Nat → Nat × List Nat := fun w => (0, content (lens.getD w 0) (w + 1))
      let s := (FileCache.Sys.init FileCache.FS.empty spec).run evs
      let fs := match keep with | none => s.fs | some kp => s.fs.powerLoss (fun _ => kp)
      let full := fun d => (List.range lens.length).any (fun w => d == (spec w).2)
      (st, showDir fs full)
    | _, _, _ => (st, "bad-op")
  | _ => (st, "bad-op")

end Oracle.C13
