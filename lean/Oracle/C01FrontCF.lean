/-
Oracle commands for the model of wazevo's front end on structured control flow, `Wz.Model.FrontendCF`
(C01, tie of the model to the real `frontend.Compiler.LowerToSSA`):

  c01frontcf lower <params> <results> <locals> <body tokens…>
      the lowered function in the text format of `ssaBuilder.Format()`, lines separated by " | "
  c01frontcf aliases <params> <results> <locals> <body tokens…>
      the alias table `findValue` recorded, resolved: `<dst>:<src>,…` sorted by `dst`, or `-`
  c01frontcf ssa   <params> <results> <locals> <body tokens…>
      `lowerCF f` in the token syntax of the `c01ssa` commands, followed by one token `A<dst>:<src>` per alias entry
  c01frontcf sl    <params> <results> <locals> <body tokens…>
      for a straight-line function: 1 iff `lowerCF f = lowerSL f.toFn` and the two `format`s agree, else 0; `-` if the
      function is not straight-line
  c01frontcf wt    …     `wellTyped`: 1 / 0
  c01frontcf wf    …     `wellFormedA (lowerCF f)` (SsaPass.WF for the certificate extended to aliased temporaries): 1 / 0
  c01frontcf validate …  `FrontendCFCheck.validate f` (the checker whose success implies the refinement): 1 / 0
  c01frontcf wfraw …     `SsaPass.wellFormed (lowerCF f)`: 1 / 0 (0 when `findValue` recorded an alias)
  c01frontcf run   <params> <results> <locals> <args> <body tokens…>
      `spec=<o> ssa=<o> opt=<o>`: the reference semantics (`Wz.Spec.Wasm.invoke`, fuel 6000), `SsaPass.run` (fuel
      4000) on `lowerCF f` and on `runPasses (lowerCF f)`; execution / module context arguments 0xec / 0x3c
  c01frontcf runssa <args> <function in c01ssa token syntax, with `A<dst>:<src>` tokens>
      `SsaPass.run` (fuel 4000) on a function given as SSA text: used on the output of the REAL front end
  c01frontcf wfssa <function in c01ssa token syntax, with `A` tokens>     `wellFormedA`: 1 / 0

Body tokens: those of `c01front`, and `unreachable`, `br:<l>`, `br_if:<l>`, `block:<bt>`, `loop:<bt>`, `if:<bt>`,
`else`, `end`; <bt> is `<params>><results>` with comma separated `i32`/`i64` or `-` (`block:->i32`, `if:i32>-`).
The body does NOT contain the function's final `end`.
-/
import Oracle.Util
import Oracle.C01Ssa
import Oracle.C01Front
import Wz.Model.FrontendCFCheck
namespace Oracle.C01FrontCF
open Oracle Wz.Model.SsaPass Wz.Model.FrontendSL Wz.Model.FrontendCF

def parseBT (s : String) : Option BT :=
  match s.splitOn ">" with
  | [p, r] => do pure { params := (← C01Front.parseTys p), results := (← C01Front.parseTys r) }
  | _ => none

inductive Term | eof | els | end_
deriving DecidableEq

/-- a sequence of instructions up to `else` / `end` / the end of the input -/
def parseSeq : Nat → List String → Option (List CI × Term × List String)
  | 0, _ => none
  | _ + 1, [] => some ([], .eof, [])
  | fuel + 1, tok :: rest =>
    if tok == "end" then some ([], .end_, rest)
    else if tok == "else" then some ([], .els, rest)
    else
      let one : Option (CI × List String) :=
        match tok.splitOn ":" with
        | ["unreachable"] => some (.unreachable, rest)
        | ["br", l] => (parseNat l).map (fun l => (CI.br l, rest))
        | ["br_if", l] => (parseNat l).map (fun l => (CI.brIf l, rest))
        | ["block", bt] => do
          let bt ← parseBT bt
          let (body, t, rest') ← parseSeq fuel rest
          if t = .end_ then pure (.block bt body, rest') else none
        | ["loop", bt] => do
          let bt ← parseBT bt
          let (body, t, rest') ← parseSeq fuel rest
          if t = .end_ then pure (.loop bt body, rest') else none
        | ["if", bt] => do
          let bt ← parseBT bt
          let (th, t, rest') ← parseSeq fuel rest
          match t with
          | .end_ => pure (.ite bt false th [], rest')
          | .els =>
            let (el, t2, rest'') ← parseSeq fuel rest'
            if t2 = .end_ then pure (.ite bt true th el, rest'') else none
          | .eof => none
        | _ => (C01Front.parseSI tok).map (fun i => (CI.op i, rest))
      match one with
      | none => none
      | some (i, rest') =>
        match parseSeq fuel rest' with
        | some (is, t, r) => some (i :: is, t, r)
        | none => none

def parseFunction (ps rs ls : String) (body : List String) : Option Function := do
  let (b, t, _) ← parseSeq (body.length + 2) body
  if t ≠ .eof then none else
  pure { params := (← C01Front.parseTys ps), results := (← C01Front.parseTys rs), locals := (← C01Front.parseTys ls),
         body := b }

/-- tokens of a function in SSA text with alias tokens -/
def parseFnA (toks : List String) : Option Func := do
  let as := toks.filter (·.startsWith "A")
  let g ← C01Ssa.parseFn (toks.filter (fun t => !t.startsWith "A"))
  let ps ← as.mapM (fun t =>
    match (t.drop 1).toString.splitOn ":" with
    | [d, s] => do pure ((← d.toNat?), (← s.toNat?))
    | _ => none)
  pure { g with alias := aliasTable ps }

def showAliasToks (al : List (Val × Val)) : String :=
  String.join (al.reverse.map (fun p => s!" A{p.1}:{p.2}"))

def insertSorted (p : Val × Val) : List (Val × Val) → List (Val × Val)
  | [] => [p]
  | q :: qs => if p.1 < q.1 then p :: q :: qs else q :: insertSorted p qs

def showAliases (al : List (Val × Val)) : String :=
  if al.isEmpty then "-" else
  ",".intercalate ((al.foldl (fun acc p => insertSorted p acc) []).map (fun p => s!"{p.1}:{p.2}"))

def showSsaCF : Outcome → String
  | .values vs _ _ => s!"ok:{C01Front.showHexs vs}"
  | .trap c _ _ => s!"trap:{if c = codeUnreachable then "unreachable" else C01Front.codeName c}"
  | .outOfFuel => "exhausted"
  | .error => "error"

def isSL (f : Function) : Bool := f.body.all CI.isOp

def specFuel : Nat := 6000
def ssaFuel : Nat := 4000

abbrev St := Unit
def init : St := ()

def step (st : St) (args : List String) : St × String :=
  match args with
  | "lower" :: ps :: rs :: ls :: body =>
    match parseFunction ps rs ls body with
    | some f => (st, " | ".intercalate (format f))
    | none => (st, "bad-op")
  | "aliases" :: ps :: rs :: ls :: body =>
    match parseFunction ps rs ls body with
    | some f => (st, showAliases (lowerCF f).alias)
    | none => (st, "bad-op")
  | "ssa" :: ps :: rs :: ls :: body =>
    match parseFunction ps rs ls body with
    | some f => let g := lowerCF f; (st, C01Ssa.showFn g ++ showAliasToks g.alias)
    | none => (st, "bad-op")
  | "sl" :: ps :: rs :: ls :: body =>
    match parseFunction ps rs ls body with
    | some f =>
      if isSL f then
        (st, b2s (decide (lowerCF f = lowerSL f.toFn) && decide (Wz.Model.FrontendCF.format f = Wz.Model.FrontendSL.format f.toFn)))
      else (st, "-")
    | none => (st, "bad-op")
  | "wt" :: ps :: rs :: ls :: body =>
    match parseFunction ps rs ls body with
    | some f => (st, b2s (wellTyped f))
    | none => (st, "bad-op")
  | "wf" :: ps :: rs :: ls :: body =>
    match parseFunction ps rs ls body with
    | some f => (st, b2s (wellFormedA (lowerCF f)))
    | none => (st, "bad-op")
  | "validate" :: ps :: rs :: ls :: body =>
    match parseFunction ps rs ls body with
    | some f => (st, b2s (validate f))
    | none => (st, "bad-op")
  | "wfraw" :: ps :: rs :: ls :: body =>
    match parseFunction ps rs ls body with
    | some f => (st, b2s (wellFormed (lowerCF f)))
    | none => (st, "bad-op")
  | "run" :: ps :: rs :: ls :: as :: body =>
    match parseFunction ps rs ls body, C01Ssa.parseArgs as with
    | some f, some as =>
      let g := lowerCF f
      (st, s!"spec={C01Front.showSpec (runSpec f as specFuel)} ssa={showSsaCF (run C01Ssa.world g (C01Front.ctxArgs ++ as) ssaFuel)} opt={showSsaCF (run C01Ssa.world (runPasses g) (C01Front.ctxArgs ++ as) ssaFuel)}")
    | _, _ => (st, "bad-op")
  | "runssa" :: as :: toks =>
    match parseFnA toks, C01Ssa.parseArgs as with
    | some g, some as => (st, showSsaCF (run C01Ssa.world g (C01Front.ctxArgs ++ as) ssaFuel))
    | _, _ => (st, "bad-op")
  | "wfssa" :: toks =>
    match parseFnA toks with
    | some g => (st, b2s (wellFormedA g))
    | none => (st, "bad-op")
  | _ => (st, "bad-op")

end Oracle.C01FrontCF
