import Oracle.Util
import Wz.Model.Memory
namespace Oracle.C14
open Oracle Wz.Model.Memory

abbrev St := List (Nat × Mem)
def init : St := []

def step (st : St) (args : List String) : St × String :=
  match args with
  | ["decode", limit, cfm, mn, mx] =>
    match parseNat limit, parseBool cfm, parseNat mn with
    | some l, some c, some m =>
      let mxo : Option (Option (BitVec 32)) :=
        if mx == "-" then some none else (parseNat mx).map (fun v => some (BitVec.ofNat 32 v))
      match mxo with
      | none => (st, "bad-op")
      | some mo =>
        match decodeMemory (BitVec.ofNat 32 l) c (BitVec.ofNat 32 m) mo with
        | .ok r => (st, s!"ok {r.1.toNat} {r.2.1.toNat} {r.2.2.toNat}")
        | .error _ => (st, "err")
    | _, _, _ => (st, "bad-op")
  | ["new", id, mn, cp, mx, sh] =>
    match parseNat id, parseNat mn, parseNat cp, parseNat mx, parseBool sh with
    | some id, some mn, some cp, some mx, some sh =>
      (assocSet st id (newMem (BitVec.ofNat 32 mn) (BitVec.ofNat 32 cp) (BitVec.ofNat 32 mx) sh), "ok")
    | _, _, _, _, _ => (st, "bad-op")
  | ["grow", id, d, a, n, mv] =>
    match parseNat id, parseNat d, parseBool a, parseBool n, parseBool mv with
    | some id, some d, some a, some n, some mv =>
      match assocGet st id with
      | none => (st, "bad-op")
      | some m =>
        match grow m (BitVec.ofNat 32 d) a n mv with
        | none => (st, "panic")
        | some (m', r, ok) =>
          (assocSet st id m', s!"{r.toNat} {b2s ok} pages={m'.pages.toNat} len={m'.len.toNat}")
    | _, _, _, _, _ => (st, "bad-op")
  | ["hassize", id, off, n] =>
    match parseNat id, parseNat off, parseNat n with
    | some id, some off, some n =>
      match assocGet st id with
      | none => (st, "bad-op")
      | some m => (st, b2s (m.hasSize (BitVec.ofNat 32 off) (BitVec.ofNat 64 n)))
    | _, _, _ => (st, "bad-op")
  | ["wb", id, off, v] =>
    match parseNat id, parseNat off, parseNat v with
    | some id, some off, some v =>
      match assocGet st id with
      | none => (st, "bad-op")
      | some m =>
        let (m', ok) := m.writeByte (BitVec.ofNat 32 off) (BitVec.ofNat 8 v)
        (assocSet st id m', b2s ok)
    | _, _, _ => (st, "bad-op")
  | ["rb", id, off] =>
    match parseNat id, parseNat off with
    | some id, some off =>
      match assocGet st id with
      | none => (st, "bad-op")
      | some m =>
        match m.readByte (BitVec.ofNat 32 off) with
        | none => (st, "none")
        | some v => (st, s!"{v.toNat}")
    | _, _ => (st, "bad-op")
  | ["size", id] =>
    match parseNat id with
    | some id =>
      match assocGet st id with
      | none => (st, "bad-op")
      | some m =>
        (st, s!"api={m.apiSize.toNat} pages={m.pages.toNat} c32={(m.compilerMemorySize 32).toNat} c64={(m.compilerMemorySize 64).toNat} lv32={(m.compilerLenView 32).toNat}")
    | none => (st, "bad-op")
  | _ => (st, "bad-op")

end Oracle.C14
