/- Line-protocol helpers for the oracle (core-only). -/
namespace Oracle

def parseHex (s : String) : Option Nat :=
  s.foldl (fun acc c =>
    match acc with
    | none => none
    | some n =>
      if c.isDigit then some (n * 16 + (c.toNat - '0'.toNat))
      else if 'a' ≤ c ∧ c ≤ 'f' then some (n * 16 + (c.toNat - 'a'.toNat + 10))
      else if 'A' ≤ c ∧ c ≤ 'F' then some (n * 16 + (c.toNat - 'A'.toNat + 10))
      else none) (some 0)

/-- decimal or 0x-prefixed hexadecimal natural -/
def parseNat (s : String) : Option Nat :=
  if s.startsWith "0x" then (if s.length > 2 then parseHex (s.drop 2).toString else none)
  else s.toNat?

def parseInt (s : String) : Option Int :=
  if s.startsWith "-" then (parseNat (s.drop 1).toString).map (fun n => - (n : Int))
  else (parseNat s).map (fun n => (n : Int))

def parseBool (s : String) : Option Bool :=
  if s == "1" || s == "true" then some true
  else if s == "0" || s == "false" then some false
  else none

def parseNats (ss : List String) : Option (List Nat) := ss.mapM parseNat

def b2s (b : Bool) : String := if b then "1" else "0"

def hexDigit (n : Nat) : Char :=
  if n < 10 then Char.ofNat ('0'.toNat + n) else Char.ofNat ('a'.toNat + n - 10)

/-- hex string → bytes -/
def parseBytes (s : String) : Option (List Nat) :=
  let cs := s.toList
  let rec go : List Char → Option (List Nat)
    | [] => some []
    | [_] => none
    | a :: b :: rest => do
      let x ← parseHex (String.ofList [a, b])
      let r ← go rest
      pure (x :: r)
  if s == "-" then some [] else go cs

def bytesToHex (bs : List Nat) : String :=
  if bs.isEmpty then "-" else
  String.ofList (bs.flatMap (fun b => [hexDigit (b / 16 % 16), hexDigit (b % 16)]))

def assocGet {α} (l : List (Nat × α)) (k : Nat) : Option α := (l.find? (·.1 == k)).map (·.2)
def assocSet {α} (l : List (Nat × α)) (k : Nat) (v : α) : List (Nat × α) :=
  (k, v) :: l.filter (·.1 != k)

end Oracle
