import Oracle.Util
import Wz.Model.Store
/-
Oracle topic c04: the store/linker model.  Requests (after the topic word):
  new <sid> <compiler 0|1> <constMutOK 0|1>
  inst <sid> <name> <memLimitPages> <descriptor tokens…>      → ok | invalid | import | data | start
  gget <sid> <inst> <k> | gset <sid> <inst> <k> <v>            (through an instance; same cell as the API)
  mload|mstore|mgrow <sid> <inst> …, tset|tgrow|tcall <sid> <inst> <t> …, call <sid> <inst> <f>
  dump <sid> <probe addresses a,b,c | ->                       canonical view of every instance
  drop <sid>
-/
namespace Oracle.C04
open Oracle Wz.Model.Store

abbrev St := List (Nat × Store)
def init : St := []

def parseVT (c : Char) : Option VT :=
  match c with
  | 'i' => some .i32 | 'I' => some .i64 | 'f' => some .f32 | 'F' => some .f64
  | 'r' => some .funcref | 'e' => some .externref | _ => none

def parseVT1 (s : String) : Option VT :=
  match s.toList with
  | [c] => parseVT c
  | _ => none

def parseSig (s : String) : Option FT :=
  match s.splitOn ">" with
  | [p, r] => do
    let ps ← p.toList.mapM parseVT
    let rs ← r.toList.mapM parseVT
    pure { params := ps, results := rs }
  | _ => none

def parseOptNat (s : String) : Option (Option Nat) :=
  if s == "-" then some none else (parseNat s).map some

def parseCE (s : String) : Option ConstExpr :=
  if s == "n" then some .refNull
  else match s.toList with
    | 'c' :: r => (parseNat (String.ofList r)).map .const
    | 'g' :: r => (parseNat (String.ofList r)).map .globalGet
    | 'f' :: r => (parseNat (String.ofList r)).map .refFunc
    | _ => none

def parseItems (s : String) : Option (List (Option Nat)) :=
  if s == "-" then some [] else
  (s.splitOn ",").mapM (fun x => if x == "n" then some none else (parseNat x).map some)

def parseKind (s : String) : Option Kind :=
  match s with
  | "f" => some .func | "t" => some .table | "m" => some .mem | "g" => some .global | _ => none

def parseTok (limit : Nat) (d : ModDesc) (tok : String) : Option ModDesc :=
  match tok.splitOn ":" with
  | ["if", m, n, sg] => do
    let ft ← parseSig sg
    pure { d with imports := d.imports ++ [{ mod := m, name := n, desc := .func ft }] }
  | ["it", m, n, rt, mn, mx] => do
    let rt ← parseVT1 rt; let mn ← parseNat mn; let mx ← parseOptNat mx
    pure { d with imports := d.imports ++ [{ mod := m, name := n, desc := .table { rt := rt, min := mn, max := mx } }] }
  | ["im", m, n, mn, mx, sh] => do
    let mn ← parseNat mn; let mx ← parseOptNat mx; let sh ← parseBool sh
    pure { d with imports := d.imports ++ [{ mod := m, name := n, desc := .mem { decodeMT limit mn mx with shared := sh } }] }
  | ["ig", m, n, vt, mu] => do
    let vt ← parseVT1 vt; let mu ← parseBool mu
    pure { d with imports := d.imports ++ [{ mod := m, name := n, desc := .global { vt := vt, mutable := mu } }] }
  | ["lf", sg, b] => do
    let ft ← parseSig sg
    let body ← (match b.toList with
      | 'c' :: r => (parseNat (String.ofList r)).map Body.const
      | 'b' :: r => (parseNat (String.ofList r)).map Body.bump
      | _ => none)
    pure { d with funcs := d.funcs ++ [{ ft := ft, body := body }] }
  | ["lt", rt, mn, mx] => do
    let rt ← parseVT1 rt; let mn ← parseNat mn; let mx ← parseOptNat mx
    pure { d with tables := d.tables ++ [{ rt := rt, min := mn, max := mx }] }
  | ["lm", mn, mx, sh] => do
    let mn ← parseNat mn; let mx ← parseOptNat mx; let sh ← parseBool sh
    pure { d with mem := some { decodeMT limit mn mx with shared := sh } }
  | ["lg", vt, mu, ce] => do
    let vt ← parseVT1 vt; let mu ← parseBool mu; let ce ← parseCE ce
    pure { d with globals := d.globals ++ [{ ty := { vt := vt, mutable := mu }, init := ce }] }
  | ["ex", n, k, i] => do
    let k ← parseKind k; let i ← parseNat i
    pure { d with exports := d.exports ++ [{ name := n, kind := k, idx := i }] }
  | ["el", t, ce, items] => do
    let t ← parseNat t; let ce ← parseCE ce; let items ← parseItems items
    pure { d with elems := d.elems ++ [{ table := t, off := ce, items := items }] }
  | ["da", ce, hex] => do
    let ce ← parseCE ce; let bs ← parseBytes hex
    pure { d with datas := d.datas ++ [{ off := ce, bytes := bs }] }
  | ["st", "trap"] => some { d with start := .trap }
  | ["st", "set", k, v] => do
    let k ← parseNat k; let v ← parseNat v
    pure { d with start := .set k v }
  | ["st", "settrap", k, v] => do
    let k ← parseNat k; let v ← parseNat v
    pure { d with start := .setTrap k v }
  | _ => none

def parseDesc (limit : Nat) (toks : List String) : Option ModDesc :=
  toks.foldlM (parseTok limit) {}

def outcomeStr : Outcome → String
  | .ok => "ok" | .invalid => "invalid" | .importErr => "import" | .dataErr => "data" | .startErr => "start"

def canonG (s : Store) (a : Nat) : Nat :=
  match s.globals[a]? with
  | none => 0
  | some g =>
    let v := gvalue s a
    match g.ty.vt with
    | .funcref | .externref => if v == 0 then 0 else 1
    | vt => mask vt v

def sig0 : FT := { params := [], results := [.i32] }

/-- what a `call_indirect (type ()->i32)` on a slot observes -/
def slotStr (s : Store) (t : TableInst) (r : Nat) : String :=
  if r == 0 then "n" else
  if t.rt != .funcref then "x" else
  match s.funcs[r - 1]? with
  | some f => if f.ft == sig0 then (match f.body with | .const c => toString c | .bump _ => "b") else "x"
  | none => "x"

def joinWith (sep : String) (l : List String) : String := sep.intercalate l

def dumpInst (s : Store) (probes : List Nat) (i : Inst) : String :=
  let gs := joinWith "," (i.gaddrs.map (fun a => toString (canonG s a)))
  let ms := match i.maddr with
    | none => "-"
    | some ma => match s.mems[ma]? with
      | none => "?"
      | some m => s!"{m.pages}:" ++ joinWith "," (probes.map (fun a => if a < m.size then toString (m.read a) else "o"))
  let ts := joinWith "|" (i.taddrs.map (fun ta => match s.tables[ta]? with
    | none => "?"
    | some t => s!"{t.refs.length}:" ++ joinWith "," (t.refs.map (slotStr s t))))
  s!"{i.name}[g={gs};m={ms};t={ts}]"

def withStore (st : St) (sid : String) (f : Nat → Store → St × String) : St × String :=
  match parseNat sid with
  | none => (st, "bad-op")
  | some id => match assocGet st id with
    | none => (st, "bad-op")
    | some s => f id s

def step (st : St) (args : List String) : St × String :=
  match args with
  | ["new", sid, c, f2] =>
    match parseNat sid, parseBool c, parseBool f2 with
    | some id, some c, some f2 => (assocSet st id { compiler := c, constMutOK := f2 }, "ok")
    | _, _, _ => (st, "bad-op")
  | ["drop", sid] =>
    match parseNat sid with
    | some id => (st.filter (·.1 != id), "ok")
    | none => (st, "bad-op")
  | "inst" :: sid :: name :: limit :: toks =>
    withStore st sid fun id s =>
      match parseNat limit with
      | none => (st, "bad-op")
      | some limit =>
        match parseDesc limit toks with
        | none => (st, "bad-op")
        | some d =>
          let (s', o) := instantiate s name d
          (assocSet st id s', outcomeStr o)
  | ["gget", sid, i, k] =>
    withStore st sid fun _ s =>
      match parseNat i, parseNat k with
      | some i, some k => match instGaddr s i k with
        | some a => (st, toString (canonG s a))
        | none => (st, "bad-op")
      | _, _ => (st, "bad-op")
  | ["gset", sid, i, k, v] =>
    withStore st sid fun id s =>
      match parseNat i, parseNat k, parseNat v with
      | some i, some k, some v => match instGaddr s i k with
        | some a => (assocSet st id (gset s a v), "ok")
        | none => (st, "bad-op")
      | _, _, _ => (st, "bad-op")
  | ["mload", sid, i, addr] =>
    withStore st sid fun _ s =>
      match parseNat i, parseNat addr with
      | some i, some addr => match (instMaddr s i).bind (fun ma => s.mems[ma]?) with
        | some m => (st, if addr < m.size then toString (m.read addr) else "trap")
        | none => (st, "bad-op")
      | _, _ => (st, "bad-op")
  | ["mstore", sid, i, addr, v] =>
    withStore st sid fun id s =>
      match parseNat i, parseNat addr, parseNat v with
      | some i, some addr, some v => match instMaddr s i with
        | some ma => match s.mems[ma]? with
          | some m =>
            if addr < m.size then (assocSet st id { s with mems := s.mems.set ma (m.write addr (v % 256)) }, "ok")
            else (st, "trap")
          | none => (st, "bad-op")
        | none => (st, "bad-op")
      | _, _, _ => (st, "bad-op")
  | ["mgrow", sid, i, n] =>
    withStore st sid fun id s =>
      match parseNat i, parseNat n with
      | some i, some n => match instMaddr s i with
        | some ma => match s.mems[ma]? with
          | some m =>
            let (m', r) := memGrow m n
            (assocSet st id { s with mems := s.mems.set ma m' }, match r with | some p => toString p | none => "-1")
          | none => (st, "bad-op")
        | none => (st, "bad-op")
      | _, _ => (st, "bad-op")
  | ["tgrow", sid, i, t, n] =>
    withStore st sid fun id s =>
      match parseNat i, parseNat t, parseNat n with
      | some i, some t, some n => match instTaddr s i t with
        | some ta => match s.tables[ta]? with
          | some tb =>
            let (tb', r) := tableGrow tb n
            (assocSet st id { s with tables := s.tables.set ta tb' }, match r with | some p => toString p | none => "-1")
          | none => (st, "bad-op")
        | none => (st, "bad-op")
      | _, _, _ => (st, "bad-op")
  | ["tset", sid, i, t, slot, f] =>
    withStore st sid fun id s =>
      match parseNat i, parseNat t, parseNat slot with
      | some i, some t, some slot => match instTaddr s i t with
        | some ta => match s.tables[ta]? with
          | some tb =>
            let r : Option Nat := if f == "n" then some 0 else (parseNat f).bind (fun f => (instFaddr s i f).map (· + 1))
            match r with
            | none => (st, "bad-op")
            | some r =>
              if slot < tb.refs.length then
                (assocSet st id { s with tables := s.tables.set ta { tb with refs := tb.refs.set slot r } }, "ok")
              else (st, "trap")
          | none => (st, "bad-op")
        | none => (st, "bad-op")
      | _, _, _ => (st, "bad-op")
  | ["tcall", sid, i, t, slot] =>
    withStore st sid fun _ s =>
      match parseNat i, parseNat t, parseNat slot with
      | some i, some t, some slot => match (instTaddr s i t).bind (fun ta => s.tables[ta]?) with
        | some tb => match tb.refs[slot]? with
          | some r => (st, slotStr s tb r)
          | none => (st, "o")
        | none => (st, "bad-op")
      | _, _, _ => (st, "bad-op")
  | ["call", sid, i, f] =>
    withStore st sid fun id s =>
      match parseNat i, parseNat f with
      | some i, some f => match instFaddr s i f with
        | some a =>
          let (s', r) := callFunc s a
          (assocSet st id s', match r with | some v => toString v | none => "bad-op")
        | none => (st, "bad-op")
      | _, _ => (st, "bad-op")
  | ["dump", sid, probes] =>
    withStore st sid fun _ s =>
      let ps : Option (List Nat) := if probes == "-" then some [] else (probes.splitOn ",").mapM parseNat
      match ps with
      | none => (st, "bad-op")
      | some ps => (st, joinWith " " (s.insts.map (dumpInst s ps)))
  | _ => (st, "bad-op")

end Oracle.C04
