import Oracle.Util
import Wz.Model.Ctl
import Std.Data.HashMap
/-
Oracle topic c07 (stateless).

Program text: space-separated tokens
  op | check | block S end | loop S end | if S else S end | br N | brif N | brtable K N1..NK D
  | call F | calli | rcall F | rcalli | ret | host K F1..FK
functions separated by `;`.

  c07 lower <tc> <S>                       -> skeleton of `lowerS tc S`  (K = check, B = backward branch,
                                              T<k> = br_table with k backward entries, c<f>, ci, t<f>, ti, h)
  c07 wf <req> <tc> <S>                    -> wfS req (lowerS tc S)
  c07 cfcycle <tc> <D> <entry> <table> <S ; S ; ...>
                                           -> `cycle` iff the lowered program has a reachable cycle of
                                              check-free steps (exhaustive over all choices), else `none`
  c07 exit <cause> <code> <watcher>        -> exit code of the ExitError + closed flag after the cause fired
-/
namespace Oracle.C07
open Oracle Wz.Model.Ctl

abbrev St := Unit
def init : St := ()

partial def parseSeq (ts : List String) : Option (Seq × List String) :=
  match ts with
  | [] => some (.nil, [])
  | "end" :: _ => some (.nil, ts)
  | "else" :: _ => some (.nil, ts)
  | t :: rest =>
    let one (i : Instr) (rest : List String) : Option (Seq × List String) :=
      (parseSeq rest).map (fun (s, r) => (.cons i s, r))
    match t with
    | "op" => one .op rest
    | "check" => one .check rest
    | "calli" => one .callIndirect rest
    | "rcalli" => one (.returnCallIndirect false) rest
    | "ret" => one .ret rest
    | "block" =>
      match parseSeq rest with
      | some (b, "end" :: r) => one (.block b) r
      | _ => none
    | "loop" =>
      match parseSeq rest with
      | some (b, "end" :: r) => one (.loop b) r
      | _ => none
    | "if" =>
      match parseSeq rest with
      | some (t, "else" :: r) =>
        match parseSeq r with
        | some (e, "end" :: r2) => one (.ite t e) r2
        | _ => none
      | _ => none
    | "br" => match rest with
      | n :: r => (parseNat n).bind (fun n => one (.br n) r)
      | _ => none
    | "brif" => match rest with
      | n :: r => (parseNat n).bind (fun n => one (.brIf n) r)
      | _ => none
    | "call" => match rest with
      | n :: r => (parseNat n).bind (fun n => one (.call n) r)
      | _ => none
    | "rcall" => match rest with
      | n :: r => (parseNat n).bind (fun n => one (.returnCall false n) r)
      | _ => none
    | "brtable" => match rest with
      | k :: r =>
        match parseNat k with
        | some k =>
          match parseNats (r.take (k + 1)) with
          | some ns => if ns.length = k + 1 then one (.brTable (ns.take k) (ns.getD k 0)) (r.drop (k + 1)) else none
          | none => none
        | none => none
      | _ => none
    | "host" => match rest with
      | k :: r =>
        match parseNat k with
        | some k =>
          match parseNats (r.take k) with
          | some ns => if ns.length = k then one (.host ns) (r.drop k) else none
          | none => none
        | none => none
      | _ => none
    | _ => none

def parseBody (ts : List String) : Option Seq :=
  match parseSeq ts with
  | some (s, []) => some s
  | _ => none

def splitOn (ts : List String) (sep : String) : List (List String) :=
  let (cur, acc) := ts.foldl (fun (cur, acc) t => if t == sep then ([], acc ++ [cur]) else (cur ++ [t], acc)) ([], [])
  acc ++ [cur]

def parseList (s : String) : Option (List Nat) :=
  if s == "-" || s == "[]" then some [] else
  let inner := (s.drop 1).toString
  let inner := (inner.take (inner.length - 1)).toString
  parseNats (inner.splitOn ",")

/-- skeleton of lowered code in emission order; `ls` = kinds of the enclosing labels (true = loop) -/
partial def skelS (ls : List Bool) : Seq → List String
  | .nil => []
  | .cons i s =>
    let back (n : Nat) : Bool := ls.getD n false
    let here : List String :=
      match i with
      | .op => []
      | .check => ["K"]
      | .block b => skelS (false :: ls) b
      | .loop b => skelS (true :: ls) b
      | .ite t e => skelS (false :: ls) t ++ skelS (false :: ls) e
      | .br n => if back n then ["B"] else []
      | .brIf n => if back n then ["B"] else []
      | .brTable ns d => [s!"T{((ns ++ [d]).filter back).length}"]
      | .call f => [s!"c{f}"]
      | .callIndirect => ["ci"]
      | .returnCall chk f => (if chk then ["K"] else []) ++ [s!"t{f}"]
      | .returnCallIndirect chk => (if chk then ["K"] else []) ++ ["ti"]
      | .ret => []
      | .host _ => ["h"]
    here ++ skelS ls s

partial def showS : Seq → String
  | .nil => ""
  | .cons i s =>
    let h := match i with
      | .op => "o" | .check => "K" | .block b => "(" ++ showS b ++ ")" | .loop b => "[" ++ showS b ++ "]"
      | .ite t e => "{" ++ showS t ++ "|" ++ showS e ++ "}" | .br n => s!"b{n}" | .brIf n => s!"f{n}"
      | .brTable ns d => s!"T{ns}{d}" | .call f => s!"c{f}" | .callIndirect => "ci"
      | .returnCall c f => s!"t{c}{f}" | .returnCallIndirect c => s!"ti{c}" | .ret => "r" | .host c => s!"h{c}"
    h ++ " " ++ showS s

def showL : Lbl → String
  | .blk a => "b:" ++ showS a
  | .lp b a => "l:" ++ showS b ++ "/" ++ showS a

def showSt (st : Stack) : String :=
  String.intercalate "#" (st.map (fun fr => showS fr.cur ++ "@" ++ String.intercalate ";" (fr.lbls.map showL)))

/-- exhaustive exploration; returns (number of states, some alive-count) or none when the limit is hit -/
partial def explore (p : Prog) (D : Nat) (entry : Nat) (limit : Nat) : Option (Nat × Nat) := Id.run do
  let s0 := initStack p entry
  let mut states : Array Stack := #[s0]
  let mut idx : Std.HashMap String Nat := (∅ : Std.HashMap String Nat).insert (showSt s0) 0
  let mut edges : Array (List Nat) := #[]      -- check-free successors
  let mut i := 0
  while i < states.size do
    if states.size > limit then return none
    let s := states[i]!
    let mut succ : List Nat := []
    for c in [0:numChoices p s] do
      match step p D s c with
      | none => pure ()
      | some (s', e) =>
        let key := showSt s'
        let j ← match idx[key]? with
          | some j => pure j
          | none =>
            let j := states.size
            states := states.push s'
            idx := idx.insert key j
            pure j
        if !e then succ := j :: succ
    edges := edges.push succ
    i := i + 1
  -- prune states without a check-free successor that is still alive
  let n := states.size
  let mut alive : Array Bool := Array.replicate n true
  let mut changed := true
  while changed do
    changed := false
    for k in [0:n] do
      if alive[k]! then
        if !(edges[k]!.any (fun j => alive[j]!)) then
          alive := alive.set! k false
          changed := true
  return some (n, (alive.toList.filter id).length)

def step (st : St) (args : List String) : St × String :=
  match args with
  | "lower" :: tc :: body =>
    match parseBool tc, parseBody body with
    | some tc, some s => (st, String.intercalate " " ("S" :: skelS [] (lowerS tc s)))
    | _, _ => (st, "bad-op")
  | "wf" :: req :: tc :: body =>
    match parseBool req, parseBool tc, parseBody body with
    | some req, some tc, some s => (st, b2s (wfS req (lowerS tc s)))
    | _, _, _ => (st, "bad-op")
  | "cfcycle" :: tc :: d :: entry :: table :: prog =>
    match parseBool tc, parseNat d, parseNat entry, parseList table, (splitOn prog ";").mapM parseBody with
    | some tc, some d, some entry, some table, some funcs =>
      let p := lowerCtl tc { funcs := funcs, table := table }
      match explore p d entry 20000 with
      | none => (st, "limit")
      | some (n, alive) => (st, (if alive > 0 then "cycle" else "none") ++ s!" states={n} alive={alive} wf={b2s (wfProg tc p)}")
    | _, _, _, _, _ => (st, "bad-op")
  | ["exit", cause, code, watcher] =>
    match parseNat code, parseBool watcher with
    | some code, some w =>
      let cs : Option Cause := match cause with
        | "canceled" => some .canceled
        | "deadline" => some .deadline
        | "close" => some (.closeWith (BitVec.ofNat 32 code))
        | _ => none
      match cs with
      | none => (st, "bad-op")
      | some cs =>
        let word := fire 0#64 cs w
        match failIfClosed word with
        | some c => (st, s!"exit {c.toNat} closed={b2s (isClosed word)}")
        | none => (st, s!"noexit closed={b2s (isClosed word)}")
    | _, _ => (st, "bad-op")
  | _ => (st, "bad-op")

end Oracle.C07
