import Oracle.Util
import Wz.Model.FdTable
import Wz.Model.Readdir
import Wz.Model.RefFS
import Wz.Model.RefFSTimes
namespace Oracle.C16
open Oracle Wz.Model

/-- Topic state: one descriptor table over naturals (zero item = 0), one directory cache, one reference
file system.  Each harness worker talks to its own oracle process. -/
structure St where
  tab : FdTable.Table Nat := FdTable.Table.empty
  dir : Readdir.Cache := Readdir.Cache.fresh [] 0
  fs : RefFS.FS := RefFS.FS.init false
  times : RefFS.Times := []     -- mtimes set by the guest and still valid (Wz.Model.RefFSTimes)

def init : St := {}

def parseDirent (s : String) : Option Readdir.Dirent :=
  match s.splitOn ":" with
  | [n, i, t] => do
    let name ← parseBytes n
    let ino ← parseNat i
    let typ ← parseNat t
    pure { name := name, ino := ino, typ := typ }
  | _ => none

def parseDirents (s : String) : Option (List Readdir.Dirent) :=
  if s == "-" then some [] else (s.splitOn ",").mapM parseDirent

def comps (p : String) : List String :=
  if p == "." then [] else (p.splitOn "/").filter (· != "")

def errS (e : RefFS.E) : String := e.name

def step0 (st : St) (args : List String) : St × String :=
  match args with
  -- descriptor.Table
  | ["t.new"] => ({ st with tab := FdTable.Table.empty }, "ok")
  | ["t.insert", v] =>
    match parseNat v with
    | some v => let r := st.tab.insert v; ({ st with tab := r.1 }, s!"{r.2}")
    | none => (st, "bad-op")
  | ["t.insertAt", v, k] =>
    match parseNat v, parseInt k with
    | some v, some k => let r := st.tab.insertAt v k; ({ st with tab := r.1 }, b2s r.2)
    | _, _ => (st, "bad-op")
  | ["t.lookup", k] =>
    match parseInt k with
    | some k => (st, match st.tab.lookup k with | none => "-" | some v => s!"{v}")
    | none => (st, "bad-op")
  | ["t.delete", k] =>
    match parseInt k with
    | some k => ({ st with tab := st.tab.delete k }, "ok")
    | none => (st, "bad-op")
  | ["t.clear"] => ({ st with tab := st.tab.reset }, "ok")
  | ["t.len"] => (st, s!"{st.tab.len}")
  -- fd_readdir
  | ["r.new", ino, es] =>
    match parseNat ino, parseDirents es with
    | some ino, some es => ({ st with dir := Readdir.Cache.fresh es ino }, "ok")
    | _, _ => (st, "bad-op")
  | ["r.call", bl, ck] =>
    match parseNat bl, parseNat ck with
    | some bl, some ck =>
      match Readdir.fdReaddirCore st.dir bl ck with
      | (d, .error e) => ({ st with dir := d }, s!"err {e.toNat}")
      | (d, .ok k) => ({ st with dir := d }, s!"ok {k.bufused bl} {bytesToHex (k.written ck)}")
    | _, _ => (st, "bad-op")
  -- reference file system
  | ["f.init", sn, bn] =>
    match parseBool sn, parseBool bn with
    | some sn, some bn => ({ st with fs := RefFS.FS.init sn bn }, "ok")
    | _, _ => (st, "bad-op")
  | ["f.open", dfd, p, cr, di, ex, tr, ap, rr, rw] =>
    match parseInt dfd, parseBool cr, parseBool di, parseBool ex, parseBool tr, parseBool ap, parseBool rr, parseBool rw with
    | some dfd, some cr, some di, some ex, some tr, some ap, some rr, some rw =>
      let r := st.fs.pathOpen dfd (comps p)
        { creat := cr, directory := di, excl := ex, trunc := tr, append := ap, rightRead := rr, rightWrite := rw }
      ({ st with fs := r.1 }, if r.2.1 == .ok then s!"ESUCCESS {r.2.2}" else errS r.2.1)
    | _, _, _, _, _, _, _, _ => (st, "bad-op")
  | ["f.close", fd] =>
    match parseInt fd with
    | some fd => let r := st.fs.fdClose fd; ({ st with fs := r.1 }, errS r.2)
    | none => (st, "bad-op")
  | ["f.renumber", a, b] =>
    match parseInt a, parseInt b with
    | some a, some b => let r := st.fs.fdRenumber a b; ({ st with fs := r.1 }, errS r.2)
    | _, _ => (st, "bad-op")
  | ["f.read", fd, len] =>
    match parseInt fd, parseNat len with
    | some fd, some len =>
      let r := st.fs.fdRead fd len
      ({ st with fs := r.1 }, if r.2.1 == .ok then s!"ESUCCESS {bytesToHex r.2.2}" else errS r.2.1)
    | _, _ => (st, "bad-op")
  | ["f.pread", fd, len, off] =>
    match parseInt fd, parseNat len, parseNat off with
    | some fd, some len, some off =>
      let r := st.fs.fdPread fd len off
      ({ st with fs := r.1 }, if r.2.1 == .ok then s!"ESUCCESS {bytesToHex r.2.2}" else errS r.2.1)
    | _, _, _ => (st, "bad-op")
  | ["f.write", fd, bs] =>
    match parseInt fd, parseBytes bs with
    | some fd, some bs =>
      let r := st.fs.fdWrite fd bs
      ({ st with fs := r.1 }, if r.2.1 == .ok then s!"ESUCCESS {r.2.2}" else errS r.2.1)
    | _, _ => (st, "bad-op")
  | ["f.pwrite", fd, bs, off] =>
    match parseInt fd, parseBytes bs, parseNat off with
    | some fd, some bs, some off =>
      let r := st.fs.fdPwrite fd bs off
      ({ st with fs := r.1 }, if r.2.1 == .ok then s!"ESUCCESS {r.2.2}" else errS r.2.1)
    | _, _, _ => (st, "bad-op")
  | ["f.seek", fd, off, wh] =>
    match parseInt fd, parseInt off, parseNat wh with
    | some fd, some off, some wh =>
      let r := st.fs.fdSeek fd off wh
      ({ st with fs := r.1 }, if r.2.1 == .ok then s!"ESUCCESS {r.2.2}" else errS r.2.1)
    | _, _, _ => (st, "bad-op")
  | ["f.tell", fd] =>
    match parseInt fd with
    | some fd =>
      let r := st.fs.fdTell fd
      ({ st with fs := r.1 }, if r.2.1 == .ok then s!"ESUCCESS {r.2.2}" else errS r.2.1)
    | none => (st, "bad-op")
  | ["f.fstat", fd] =>
    match parseInt fd with
    | some fd =>
      let r := st.fs.fdStat fd
      (st, if r.1 == .ok then s!"ESUCCESS {r.2.1} {r.2.2}" else errS r.1)
    | none => (st, "bad-op")
  | ["f.setsize", fd, sz] =>
    match parseInt fd, parseInt sz with
    | some fd, some sz => let r := st.fs.fdSetSize fd sz; ({ st with fs := r.1 }, errS r.2)
    | _, _ => (st, "bad-op")
  | ["f.pstat", dfd, p] =>
    match parseInt dfd with
    | some dfd =>
      let r := st.fs.pathStat dfd (comps p)
      (st, if r.1 == .ok then s!"ESUCCESS {r.2.1} {r.2.2}" else errS r.1)
    | none => (st, "bad-op")
  | ["f.mkdir", dfd, p] =>
    match parseInt dfd with
    | some dfd => let r := st.fs.mkdir dfd (comps p); ({ st with fs := r.1 }, errS r.2)
    | none => (st, "bad-op")
  | ["f.unlink", dfd, p] =>
    match parseInt dfd with
    | some dfd => let r := st.fs.unlink dfd (comps p); ({ st with fs := r.1 }, errS r.2)
    | none => (st, "bad-op")
  | ["f.rmdir", dfd, p] =>
    match parseInt dfd with
    | some dfd => let r := st.fs.rmdir dfd (comps p); ({ st with fs := r.1 }, errS r.2)
    | none => (st, "bad-op")
  | ["f.rename", f1, p1, f2, p2] =>
    match parseInt f1, parseInt f2 with
    | some f1, some f2 => let r := st.fs.rename f1 (comps p1) f2 (comps p2); ({ st with fs := r.1 }, errS r.2)
    | _, _ => (st, "bad-op")
  | ["f.ls", fd] =>
    match parseInt fd with
    | some fd =>
      let r := st.fs.ls fd
      (st, if r.1 == .ok then
             "ESUCCESS " ++ (if r.2.isEmpty then "-" else ",".intercalate (r.2.map (fun e => e.1 ++ ":" ++ (if e.2 then "d" else "f"))))
           else errS r.1)
    | none => (st, "bad-op")
  | ["f.tree"] =>
    let l := st.fs.dump (st.fs.nodes.length + 1) 0 ""
    (st, if l.isEmpty then "-" else ",".intercalate (l.map (fun e =>
      if e.2.1 then "d:" ++ e.1 else "f:" ++ e.1 ++ ":" ++ bytesToHex e.2.2)))
  | _ => (st, "bad-op")

/-- ops of the reference file system that leave every time stamp alone -/
def keepsTimes : List String :=
  ["f.close", "f.renumber", "f.read", "f.pread", "f.seek", "f.tell", "f.fstat", "f.pstat", "f.ls", "f.tree"]

def mtimeS : RefFS.E × Option Nat → String
  | (.ok, some t) => s!"ESUCCESS {t}"
  | (.ok, none) => "ESUCCESS ?"
  | (e, _) => errS e

def step (st : St) (args : List String) : St × String :=
  match args with
  | ["f.settimes", fd, t] =>
    match parseInt fd, parseNat t with
    | some fd, some t => let r := st.fs.fdSetTimes st.times fd t; ({ st with times := r.1 }, errS r.2)
    | _, _ => (st, "bad-op")
  | ["f.mtime", fd] =>
    match parseInt fd with
    | some fd => (st, mtimeS (st.fs.fdMtime st.times fd))
    | none => (st, "bad-op")
  | ["f.psettimes", dfd, p, t] =>
    match parseInt dfd, parseNat t with
    | some dfd, some t => let r := st.fs.pathSetTimes st.times dfd (comps p) t; ({ st with times := r.1 }, errS r.2)
    | _, _ => (st, "bad-op")
  | ["f.pmtime", dfd, p] =>
    match parseInt dfd with
    | some dfd => (st, mtimeS (st.fs.pathMtime st.times dfd (comps p)))
    | none => (st, "bad-op")
  | op :: _ =>
    let r := step0 st args
    if op.startsWith "f." && !keepsTimes.contains op then ({ r.1 with times := [] }, r.2) else r
  | [] => step0 st args

end Oracle.C16
