/-
Line-protocol driver over all executable models.  One request per line: `<topic> <op> <args…>`;
one answer per line.  `bad-op` means the line could not be interpreted (a harness error, never a verdict).
-/
import Oracle.C14

namespace Oracle

structure State where
  c14 : C14.St := C14.init

def dispatch (st : State) (line : String) : State × String :=
  match (line.trimAscii.toString.splitOn " ").filter (· != "") with
  | "c14" :: args => let (s, o) := C14.step st.c14 args; ({ st with c14 := s }, o)
  | ["ping"] => (st, "pong")
  | _ => (st, "bad-op")

partial def loop (hin hout : IO.FS.Stream) (st : State) : IO Unit := do
  let line ← hin.getLine
  if line.isEmpty then return ()
  let (st', out) := dispatch st line
  hout.putStrLn out
  hout.flush
  loop hin hout st'

end Oracle

def main : IO Unit := do
  Oracle.loop (← IO.getStdin) (← IO.getStdout) {}
