/-
Line-protocol driver over all executable models.  One request per line: `<topic> <op> <args…>`;
one answer per line.  `bad-op` means the line could not be interpreted (a harness error, never a verdict).
Each topic lives in its own module `Oracle.Cnn` with `St`, `init`, `step`.
-/
import Oracle.C01
import Oracle.C01Lower
import Oracle.C01Ssa
import Oracle.C01Front
import Oracle.C01FrontX
import Oracle.C01FrontMem
import Oracle.C01FrontCF
import Oracle.C02
import Oracle.C03
import Oracle.C04
import Oracle.C05
import Oracle.C06
import Oracle.C07
import Oracle.C08
import Oracle.C09
import Oracle.C10
import Oracle.C11
import Oracle.C12
import Oracle.C13
import Oracle.C14
import Oracle.C15
import Oracle.C16
import Oracle.C17
import Oracle.C18
import Oracle.C19
import Oracle.C20

namespace Oracle

structure State where
  c01 : C01.St := C01.init
  c02 : C02.St := C02.init
  c03 : C03.St := C03.init
  c04 : C04.St := C04.init
  c05 : C05.St := C05.init
  c06 : C06.St := C06.init
  c07 : C07.St := C07.init
  c08 : C08.St := C08.init
  c09 : C09.St := C09.init
  c10 : C10.St := C10.init
  c11 : C11.St := C11.init
  c12 : C12.St := C12.init
  c13 : C13.St := C13.init
  c14 : C14.St := C14.init
  c15 : C15.St := C15.init
  c16 : C16.St := C16.init
  c17 : C17.St := C17.init
  c18 : C18.St := C18.init
  c19 : C19.St := C19.init
  c20 : C20.St := C20.init

def dispatch (st : State) (line : String) : State × String :=
  match (line.trimAscii.toString.splitOn " ").filter (· != "") with
  | "c01" :: args => let (s, o) := C01.step st.c01 args; ({ st with c01 := s }, o)
  | "c02" :: args => let (s, o) := C02.step st.c02 args; ({ st with c02 := s }, o)
  | "c03" :: args => let (s, o) := C03.step st.c03 args; ({ st with c03 := s }, o)
  | "c04" :: args => let (s, o) := C04.step st.c04 args; ({ st with c04 := s }, o)
  | "c05" :: args => let (s, o) := C05.step st.c05 args; ({ st with c05 := s }, o)
  | "c06" :: args => let (s, o) := C06.step st.c06 args; ({ st with c06 := s }, o)
  | "c07" :: args => let (s, o) := C07.step st.c07 args; ({ st with c07 := s }, o)
  | "c08" :: args => let (s, o) := C08.step st.c08 args; ({ st with c08 := s }, o)
  | "c09" :: args => let (s, o) := C09.step st.c09 args; ({ st with c09 := s }, o)
  | "c10" :: args => let (s, o) := C10.step st.c10 args; ({ st with c10 := s }, o)
  | "c11" :: args => let (s, o) := C11.step st.c11 args; ({ st with c11 := s }, o)
  | "c12" :: args => let (s, o) := C12.step st.c12 args; ({ st with c12 := s }, o)
  | "c13" :: args => let (s, o) := C13.step st.c13 args; ({ st with c13 := s }, o)
  | "c14" :: args => let (s, o) := C14.step st.c14 args; ({ st with c14 := s }, o)
  | "c15" :: args => let (s, o) := C15.step st.c15 args; ({ st with c15 := s }, o)
  | "c16" :: args => let (s, o) := C16.step st.c16 args; ({ st with c16 := s }, o)
  | "c17" :: args => let (s, o) := C17.step st.c17 args; ({ st with c17 := s }, o)
  | "c18" :: args => let (s, o) := C18.step st.c18 args; ({ st with c18 := s }, o)
  | "c19" :: args => let (s, o) := C19.step st.c19 args; ({ st with c19 := s }, o)
  | "c20" :: args => let (s, o) := C20.step st.c20 args; ({ st with c20 := s }, o)
  | "c01low" :: args => (st, (C01Lower.step () args).2)
  | "c01ssa" :: args => (st, (C01Ssa.step () args).2)
  | "c01front" :: args => (st, (C01Front.step () args).2)
  | "c01frontx" :: args => (st, (C01FrontX.step () args).2)
  | "c01frontmem" :: args => (st, (C01FrontMem.step () args).2)
  | "c01frontcf" :: args => (st, (C01FrontCF.step () args).2)
  | ["ping"] => (st, "pong")
  | _ => (st, "bad-op")

partial def loop (hin hout : IO.FS.Stream) (st : State) : IO Unit := do
  let line ← hin.getLine
  if line.isEmpty then return ()
  let (st', out) := dispatch st line
  hout.putStrLn out
  hout.flush
  loop hin hout st'

end Oracle

def main : IO Unit := do
  Oracle.loop (← IO.getStdin) (← IO.getStdout) {}
