import Oracle.Util
namespace Oracle.C18
open Oracle

/-- Topic state (stub: no model behind this topic yet). -/
abbrev St := Unit
def init : St := ()

def step (st : St) (_args : List String) : St × String := (st, "bad-op")

end Oracle.C18
