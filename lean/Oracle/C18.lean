import Oracle.Util
import Wz.Model.SysDefault
namespace Oracle.C18
open Oracle Wz.Model.SysDefault

/-- Topic state: the constant stream of the default random source (handed over by the harness; the
model treats it as an opaque parameter) and the live default contexts by id. -/
structure St where
  stream : Array Nat := #[]
  insts : List (Nat × (Host × Wz.Model.SysDefault.St)) := []

def init : St := {}

def fnOfString : String → Option Fn
  | "args_get" => some .args_get | "args_sizes_get" => some .args_sizes_get
  | "environ_get" => some .environ_get | "environ_sizes_get" => some .environ_sizes_get
  | "clock_res_get" => some .clock_res_get | "clock_time_get" => some .clock_time_get
  | "fd_advise" => some .fd_advise | "fd_allocate" => some .fd_allocate | "fd_close" => some .fd_close
  | "fd_datasync" => some .fd_datasync | "fd_fdstat_get" => some .fd_fdstat_get
  | "fd_fdstat_set_flags" => some .fd_fdstat_set_flags | "fd_fdstat_set_rights" => some .fd_fdstat_set_rights
  | "fd_filestat_get" => some .fd_filestat_get | "fd_filestat_set_size" => some .fd_filestat_set_size
  | "fd_filestat_set_times" => some .fd_filestat_set_times | "fd_pread" => some .fd_pread
  | "fd_prestat_get" => some .fd_prestat_get | "fd_prestat_dir_name" => some .fd_prestat_dir_name
  | "fd_pwrite" => some .fd_pwrite | "fd_read" => some .fd_read | "fd_readdir" => some .fd_readdir
  | "fd_renumber" => some .fd_renumber | "fd_seek" => some .fd_seek | "fd_sync" => some .fd_sync
  | "fd_tell" => some .fd_tell | "fd_write" => some .fd_write
  | "path_create_directory" => some .path_create_directory | "path_filestat_get" => some .path_filestat_get
  | "path_filestat_set_times" => some .path_filestat_set_times | "path_link" => some .path_link
  | "path_open" => some .path_open | "path_readlink" => some .path_readlink
  | "path_remove_directory" => some .path_remove_directory | "path_rename" => some .path_rename
  | "path_symlink" => some .path_symlink | "path_unlink_file" => some .path_unlink_file
  | "poll_oneoff" => some .poll_oneoff | "proc_exit" => some .proc_exit | "proc_raise" => some .proc_raise
  | "random_get" => some .random_get | "sched_yield" => some .sched_yield | "sock_accept" => some .sock_accept
  | "sock_recv" => some .sock_recv | "sock_send" => some .sock_send | "sock_shutdown" => some .sock_shutdown
  | _ => none

/-- An arbitrary host record derived from a number: different numbers give hosts that differ in every
component (arguments, environment, cwd, clocks, entropy, stdin). -/
def hostOf (n : Nat) : Host where
  args := [[97 + n % 26, 47], [n % 256]]
  env := [[75, 61, n % 256, (n / 7) % 256]]
  cwd := [47, 104, 48 + n % 10]
  wall := fun k => 1700000000000000000 + n * 1000003 + k * (137 + n)
  mono := fun k => n * 77 + k * (91 + n)
  entropy := fun i => (i * 31 + n * 17 + 5) % 256
  stdin := [115, 101, 99, 114, 101, 116, n % 256]

def rndOf (st : St) : Nat → Nat := fun i => st.stream.getD i 0

def render (r : Res) : String :=
  if r.bad then "bad-op" else if r.trap then "panic" else
  match r.exit with
  | some c => s!"exit {c}"
  | none =>
    let ws := r.writes.map (fun (a, bs) => s!" {a}:{bytesToHex bs}")
    s!"{r.errno}{String.join ws}"

/-- apply the call `rep` times; the answer is the last result -/
def repeatCall (F : Facilities) (s : Wz.Model.SysDefault.St) (c : Call) : Nat → Wz.Model.SysDefault.St × Res
  | 0 => (s, badCall)
  | 1 => step F s c
  | n + 1 =>
    let (s', r) := step F s c
    if r.exit.isSome || r.bad || r.trap then (s', r) else repeatCall F s' c n

def step (st : St) (args : List String) : St × String :=
  match args with
  | ["rand", hexs] =>
    match parseBytes hexs with
    | some bs => ({ st with stream := bs.toArray }, "ok")
    | none => (st, "bad-op")
  | ["new", id, hostSeed] =>
    match parseNat id, parseNat hostSeed with
    | some id, some hs =>
      let h := hostOf hs
      let c := defaultCtx (rndOf st) h
      ({ st with insts := assocSet st.insts id (h, initSt c.fac) }, "ok")
    | _, _ => (st, "bad-op")
  | "call" :: id :: rep :: fname :: nums =>
    match parseNat id, parseNat rep, fnOfString fname, parseNats nums with
    | some id, some rep, some fn, some a =>
      match assocGet st.insts id with
      | none => (st, "bad-op")
      | some (h, s) =>
        let c := defaultCtx (rndOf st) h
        let (s', r) := repeatCall c.fac s ⟨fn, a⟩ rep
        ({ st with insts := assocSet st.insts id (h, s') }, render r)
    | _, _, _, _ => (st, "bad-op")
  | ["state", id] =>
    match parseNat id with
    | some id =>
      match assocGet st.insts id with
      | none => (st, "bad-op")
      | some (_, s) =>
        (st, s!"wall={s.wallK} mono={s.monoK} rand={s.randPos} hostOut={s.hostOut} slept={s.slept} asked={s.sleepAsked} yields={s.yields} fds={s.fds.map (·.1)}")
    | none => (st, "bad-op")
  | ["sources"] => (st, reprStr defaultSources |>.replace "\n" " ")
  | ["drop", id] =>
    match parseNat id with
    | some id => ({ st with insts := st.insts.filter (·.1 != id) }, "ok")
    | none => (st, "bad-op")
  | _ => (st, "bad-op")

end Oracle.C18
