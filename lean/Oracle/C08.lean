import Oracle.Util
import Wz.Model.Marshal
import Wz.Model.Abi
import Wz.Gen.ApiCodec
import Wz.Gen.AbiRegs
namespace Oracle.C08
open Oracle Wz.Model.Marshal Wz.Model.Abi

/-- Topic state: none (all operations are pure). -/
abbrev St := Unit
def init : St := ()

def parseKind : String → Option Kind
  | "int32" => some .int32 | "uint32" => some .uint32 | "int64" => some .int64 | "uint64" => some .uint64
  | "float32" => some .float32 | "float64" => some .float64 | "uintptr" => some .uintptr
  | _ => none

def parseTy : String → Option Ty
  | "i32" => some .i32 | "i64" => some .i64 | "f32" => some .f32 | "f64" => some .f64 | "v128" => some .v128
  | _ => none

def parseTys (s : String) : Option (List Ty) :=
  if s == "-" then some [] else (s.splitOn ",").mapM parseTy

def parseVariant (s : String) : Option Variant :=
  match s.toList with
  | [a, b, c] =>
    if (a == '0' || a == '1') && (b == '0' || b == '1') && (c == '0' || c == '1') then
      some ⟨a == '1', b == '1', c == '1'⟩
    else none
  | _ => none

def hex (n : Nat) : String := "0x" ++ String.ofList (Nat.toDigits 16 n)

def showLoc : Loc → String
  | .reg _ r => s!"r{r}"
  | .stack o => s!"s{o}"

def showArgs (l : List Arg) : String :=
  "[" ++ ",".intercalate (l.map fun a => s!"{a.index}:{showLoc a.loc}") ++ "]"

def regsOf : String → Option (List Nat × List Nat)
  | "amd64" => some (Wz.Gen.AbiRegs.amd64IntArgResultRegs, Wz.Gen.AbiRegs.amd64FloatArgResultRegs)
  | "arm64" => some (Wz.Gen.AbiRegs.arm64IntArgResultRegs, Wz.Gen.AbiRegs.arm64FloatArgResultRegs)
  | _ => none

def step (st : St) (args : List String) : St × String :=
  match args with
  | ["slicesize", p, r] =>
    match parseNat p, parseNat r with
    | some p, some r => (st, s!"{sliceSize p r}")
    | _, _ => (st, "bad-op")
  | ["api", fn, x] =>
    match parseNat x with
    | none => (st, "bad-op")
    | some x =>
      match fn with
      | "EncodeI32" => (st, hex (Wz.Gen.ApiCodec.EncodeI32 (BitVec.ofNat 32 x)).toNat)
      | "DecodeI32" => (st, hex (Wz.Gen.ApiCodec.DecodeI32 (BitVec.ofNat 64 x)).toNat)
      | "EncodeU32" => (st, hex (Wz.Gen.ApiCodec.EncodeU32 (BitVec.ofNat 32 x)).toNat)
      | "DecodeU32" => (st, hex (Wz.Gen.ApiCodec.DecodeU32 (BitVec.ofNat 64 x)).toNat)
      | "EncodeI64" => (st, hex (Wz.Gen.ApiCodec.EncodeI64 (BitVec.ofNat 64 x)).toNat)
      | "EncodeExternref" => (st, hex (Wz.Gen.ApiCodec.EncodeExternref (BitVec.ofNat 64 x)).toNat)
      | "DecodeExternref" => (st, hex (Wz.Gen.ApiCodec.DecodeExternref (BitVec.ofNat 64 x)).toNat)
      | "EncodeF32" => (st, hex (EncodeF32 (BitVec.ofNat 32 x)).toNat)
      | "DecodeF32" => (st, hex (DecodeF32 (BitVec.ofNat 64 x)).toNat)
      | "EncodeF64" => (st, hex (EncodeF64 (BitVec.ofNat 64 x)).toNat)
      | "DecodeF64" => (st, hex (DecodeF64 (BitVec.ofNat 64 x)).toNat)
      | _ => (st, "bad-op")
  | ["viaf64", x] =>
    match parseNat x with
    | some x => (st, hex (viaF64 (BitVec.ofNat 32 x)).toNat)
    | none => (st, "bad-op")
  | ["param", v, k, raw] =>
    match parseVariant v, parseKind k, parseNat raw with
    | some v, some k, some raw => (st, hex (decodeParam v k (BitVec.ofNat 64 raw)).toNat)
    | _, _, _ => (st, "bad-op")
  | ["result", v, k, x] =>
    match parseVariant v, parseKind k, parseNat x with
    | some v, some k, some x => (st, hex (encodeResult v k (BitVec.ofNat k.width x)).toNat)
    | _, _, _ => (st, "bad-op")
  | ["ne", e, slot, c] =>
    match parseNat slot, parseNat c with
    | some slot, some c =>
      if e == "interpreter" then (st, b2s (wasmNeI32 .interpreter (BitVec.ofNat 64 slot) (BitVec.ofNat 32 c)))
      else if e == "compiler" then (st, b2s (wasmNeI32 .compiler (BitVec.ofNat 64 slot) (BitVec.ofNat 32 c)))
      else (st, "bad-op")
    | _, _ => (st, "bad-op")
  | ["abi", arch, ps, rs] =>
    match regsOf arch, parseTys ps, parseTys rs with
    | some (ints, floats), some ps, some rs =>
      let a := abiInit ints floats ps rs
      let al := match a.alignedSlotSize with | some s => s!"{s}" | none => "panic"
      let info := match a.info with | some s => s!"{s}" | none => "panic"
      (st, s!"args={showArgs a.args} rets={showArgs a.rets} ass={a.argStackSize} rss={a.retStackSize} ai={a.argIntRealRegs} af={a.argFloatRealRegs} ri={a.retIntRealRegs} rf={a.retFloatRealRegs} aligned={al} info={info}")
    | _, _, _ => (st, "bad-op")
  | ["regs", arch] =>
    match regsOf arch with
    | some (ints, floats) => (st, s!"{ints} {floats}")
    | none => (st, "bad-op")
  | ["stackview", ts] =>
    match parseTys ts with
    | some ts =>
      let idx := (List.range ts.length).map (slotIndex ts)
      (st, s!"{idx} total={totalSlots ts}")
    | none => (st, "bad-op")
  | ["gocallsize", ps, rs] =>
    match parseTys ps, parseTys rs with
    | some ps, some rs => let r := goCallRequiredStackSize ps rs; (st, s!"{r.1} {r.2}")
    | _, _ => (st, "bad-op")
  | _ => (st, "bad-op")

end Oracle.C08
