/-
C13 — proofs about the file-system model of `fileCache.Add` (Wz.Model.FileCache).
Core Lean only (no Mathlib in this project).
-/
import Wz.Model.FileCache

namespace Wz.C13.FS
open Wz.Model.FileCache
open Wz.Gen.FileCache (AddStep)

/-- what may be visible under the final name of `key`: nothing, what was there before, or the COMPLETE
content of some writer of that key -/
def Allowed (fs0 : FS) (spec : Nat → Nat × Bytes) (key : Nat) (c : Option Bytes) : Prop :=
  c = none ∨ c = fs0.content (.final key) ∨ ∃ w, (spec w).1 = key ∧ c = some (spec w).2

/-- the regenerated step list is the one the proofs below are about (tie A: breaks when `Add` changes) -/
theorem steps_as_modelled :
    Wz.Gen.FileCache.addSteps = [.createTemp, .copy, .sync, .close, .rename] ∧
    Wz.Gen.FileCache.addCleanup = [.close, .remove] := by
  constructor <;> rfl

/-! ## The program of a writer -/

theorem start_prog (k : Nat) (c : Bytes) :
    (Writer.start k c).prog = .createTemp :: (c.map MOp.write ++ [.sync, .close, .rename]) := by
  simp [Writer.start, Writer.startWith, expand, Wz.Gen.FileCache.addSteps, expandStep]

theorem start_cleanup (k : Nat) (c : Bytes) :
    (Writer.start k c).cleanup = [.close, .remove] := by
  simp [Writer.start, Writer.startWith, expand, Wz.Gen.FileCache.addCleanup, expandStep]

/-! ## `execOp`, one equation per case -/

theorem execOp_nil {fs : FS} {W : Writer} (h : W.prog = []) : execOp fs W = (fs, W) := by
  simp [execOp, h]

theorem execOp_createTemp {fs : FS} {W : Writer} {rest : List MOp} (h : W.prog = .createTemp :: rest) :
    execOp fs W = ((fs.createTemp W.key).1,
      { W with prog := rest, tmp := some (fs.createTemp W.key).2.1,
               ino := some (fs.createTemp W.key).2.2, isOpen := true }) := by
  simp [execOp, h]

theorem execOp_write {fs : FS} {W : Writer} {b : Nat} {rest : List MOp} {i : Nat}
    (h : W.prog = .write b :: rest) (hi : W.ino = some i) (ho : W.isOpen = true) :
    execOp fs W = (fs.append i b, { W with prog := rest }) := by
  simp [execOp, h, hi, ho]

theorem execOp_sync {fs : FS} {W : Writer} {rest : List MOp} {i : Nat}
    (h : W.prog = .sync :: rest) (hi : W.ino = some i) (ho : W.isOpen = true) :
    execOp fs W = (fs.sync i, { W with prog := rest }) := by
  simp [execOp, h, hi, ho]

theorem execOp_close {fs : FS} {W : Writer} {rest : List MOp} (h : W.prog = .close :: rest) :
    execOp fs W = (fs, if W.isOpen then { W with prog := rest, isOpen := false } else W.fail rest) := by
  simp only [execOp, h]
  split <;> rfl

theorem execOp_rename {fs fs' : FS} {W : Writer} {rest : List MOp} {t : Name}
    (h : W.prog = .rename :: rest) (ht : W.tmp = some t) (hr : fs.rename t (.final W.key) = some fs') :
    execOp fs W = (fs', { W with prog := rest }) := by
  simp [execOp, h, ht, hr]

theorem execOp_remove_none {fs : FS} {W : Writer} {rest : List MOp}
    (h : W.prog = .remove :: rest) (ht : W.tmp = none) :
    execOp fs W = (fs, W.fail rest) := by
  simp [execOp, h, ht]

theorem execOp_remove {fs : FS} {W : Writer} {rest : List MOp} {t : Name}
    (h : W.prog = .remove :: rest) (ht : W.tmp = some t) :
    execOp fs W = (fs.remove t, { W with prog := rest }) := by
  simp [execOp, h, ht]

theorem step_run (s : Sys) (w : Nat) :
    s.step (.run w) = ⟨(execOp s.fs (s.ws w)).1,
      fun j => if j = w then (execOp s.fs (s.ws w)).2 else s.ws j⟩ := rfl

/-! ## The invariant -/

/-- the writer will never write, sync or rename again -/
def Quiet (W : Writer) : Prop :=
  (∀ op ∈ W.prog, op = MOp.close ∨ op = MOp.remove) ∧ (W.failed = true ∨ W.prog = [])

/-- the writer has not called `CreateTemp` yet -/
def Fresh (content : Bytes) (W : Writer) : Prop :=
  W.prog = .createTemp :: (content.map MOp.write ++ [.sync, .close, .rename]) ∧ W.failed = false

/-- where a writer that owns the file `f` is in its program -/
def LiveData (f : File) (content : Bytes) (W : Writer) : Prop :=
  (∃ rest, W.prog = rest.map MOp.write ++ [.sync, .close, .rename] ∧ W.isOpen = true ∧
      f.data ++ rest = content) ∨
  (W.prog = [.close, .rename] ∧ W.isOpen = true ∧ f.data = content ∧ f.synced = f.data.length) ∨
  (W.prog = [.rename] ∧ W.isOpen = false ∧ f.data = content ∧ f.synced = f.data.length)

/-- the writer is on its main path and owns an inode that is reachable by its temp name only -/
def Live (fs : FS) (key : Nat) (content : Bytes) (W : Writer) : Prop :=
  ∃ i n, W.ino = some i ∧ W.tmp = some (.temp key n) ∧ fs.dir (.temp key n) = some i ∧
    (∀ k, fs.dir (.final k) ≠ some i) ∧ W.failed = false ∧ LiveData (fs.ino i) content W

structure WInv (fs0 fs : FS) (key : Nat) (content : Bytes) (W : Writer) : Prop where
  key_eq : W.key = key
  cleanup_eq : W.cleanup = [.close, .remove]
  inoB : ∀ i, W.ino = some i → fs0.nextIno ≤ i ∧ i < fs.nextIno
  tmpB : ∀ t, W.tmp = some t → ∃ k n, t = .temp k n ∧ n < fs.nextNonce
  phase : Fresh content W ∨ Live fs key content W ∨ Quiet W

/-- the inode under a final name is durable and is the old entry or a complete new one -/
def GoodFinal (fs0 : FS) (spec : Nat → Nat × Bytes) (f : File) (k i : Nat) : Prop :=
  f.synced = f.data.length ∧ (fs0.dir (.final k) = some i ∨ ∃ w, (spec w).1 = k ∧ f.data = (spec w).2)

structure Inv (fs0 : FS) (spec : Nat → Nat × Bytes) (s : Sys) : Prop where
  nextIno_le : fs0.nextIno ≤ s.fs.nextIno
  inoBound : ∀ n i, s.fs.dir n = some i → i < s.fs.nextIno
  nonceBound : ∀ k n, s.fs.nextNonce ≤ n → s.fs.dir (.temp k n) = none
  orig : ∀ i, i < fs0.nextIno → s.fs.ino i = fs0.ino i
  finals : ∀ k i, s.fs.dir (.final k) = some i → GoodFinal fs0 spec (s.fs.ino i) k i
  writers : ∀ w, WInv fs0 s.fs (spec w).1 (spec w).2 (s.ws w)
  tmpInj : ∀ w w' t, (s.ws w).tmp = some t → (s.ws w').tmp = some t → w = w'
  inoInj : ∀ w w' i, (s.ws w).ino = some i → (s.ws w').ino = some i → w = w'

/-- an inode/file-system change that does not touch what a writer owns preserves its invariant -/
theorem WInv.frame {fs0 fs fs' : FS} {key : Nat} {content : Bytes} {W : Writer}
    (h : WInv fs0 fs key content W)
    (hI : fs.nextIno ≤ fs'.nextIno) (hN : fs.nextNonce ≤ fs'.nextNonce)
    (hL : ∀ i n, W.ino = some i → W.tmp = some (.temp key n) → fs.dir (.temp key n) = some i →
      (∀ k, fs.dir (.final k) ≠ some i) →
      fs'.dir (.temp key n) = some i ∧ (∀ k, fs'.dir (.final k) ≠ some i) ∧ fs'.ino i = fs.ino i) :
    WInv fs0 fs' key content W := by
  refine ⟨h.key_eq, h.cleanup_eq, ?_, ?_, ?_⟩
  · intro i hi
    have := h.inoB i hi
    omega
  · intro t ht
    obtain ⟨k, n, e, hn⟩ := h.tmpB t ht
    exact ⟨k, n, e, by omega⟩
  · rcases h.phase with hf | ⟨i, n, hi, ht, hd, hp, hfl, hdata⟩ | hq
    · exact Or.inl hf
    · obtain ⟨a, b, c⟩ := hL i n hi ht hd hp
      exact Or.inr (Or.inl ⟨i, n, hi, ht, a, b, hfl, by rw [c]; exact hdata⟩)
    · exact Or.inr (Or.inr hq)

/-- a writer whose call failed is quiet -/
theorem WInv.fail {fs0 fs : FS} {key : Nat} {content : Bytes} {W : Writer}
    (h : WInv fs0 fs key content W) (rest : List MOp)
    (hr : W.failed = true → ∀ op ∈ rest, op = MOp.close ∨ op = MOp.remove) :
    WInv fs0 fs key content (W.fail rest) := by
  unfold Writer.fail
  by_cases hf : W.failed = true
  · rw [if_pos hf]
    exact ⟨h.key_eq, h.cleanup_eq, h.inoB, h.tmpB, Or.inr (Or.inr ⟨hr hf, Or.inl hf⟩)⟩
  · rw [if_neg hf]
    refine ⟨h.key_eq, h.cleanup_eq, h.inoB, h.tmpB, Or.inr (Or.inr ⟨?_, Or.inl rfl⟩)⟩
    show ∀ op ∈ W.cleanup, _
    rw [h.cleanup_eq]
    simp

theorem fail_tmp (W : Writer) (rest : List MOp) : (W.fail rest).tmp = W.tmp := by
  unfold Writer.fail; split <;> rfl

theorem fail_ino (W : Writer) (rest : List MOp) : (W.fail rest).ino = W.ino := by
  unfold Writer.fail; split <;> rfl

/-- common part of all preservation proofs: writer `w` becomes `W'`, the file system becomes `fs'` -/
theorem Inv.update {fs0 : FS} {spec : Nat → Nat × Bytes} {s : Sys} (h : Inv fs0 spec s)
    (w : Nat) (fs' : FS) (W' : Writer)
    (hI : s.fs.nextIno ≤ fs'.nextIno)
    (inoBound : ∀ n i, fs'.dir n = some i → i < fs'.nextIno)
    (nonceBound : ∀ k n, fs'.nextNonce ≤ n → fs'.dir (.temp k n) = none)
    (orig : ∀ i, i < fs0.nextIno → fs'.ino i = fs0.ino i)
    (finals : ∀ k i, fs'.dir (.final k) = some i → GoodFinal fs0 spec (fs'.ino i) k i)
    (hW : WInv fs0 fs' (spec w).1 (spec w).2 W')
    (hothers : ∀ w', w' ≠ w → WInv fs0 fs' (spec w').1 (spec w').2 (s.ws w'))
    (htmp : ∀ w' t, w' ≠ w → W'.tmp = some t → (s.ws w').tmp ≠ some t)
    (hino : ∀ w' i, w' ≠ w → W'.ino = some i → (s.ws w').ino ≠ some i) :
    Inv fs0 spec ⟨fs', fun j => if j = w then W' else s.ws j⟩ := by
  refine ⟨Nat.le_trans h.nextIno_le hI, inoBound, nonceBound, orig, finals, ?_, ?_, ?_⟩
  · intro j
    show WInv _ _ _ _ (if j = w then W' else s.ws j)
    by_cases hj : j = w
    · subst hj; simpa using hW
    · simpa [hj] using hothers j hj
  · intro a b t
    show (if a = w then W' else s.ws a).tmp = some t → (if b = w then W' else s.ws b).tmp = some t → a = b
    by_cases ha : a = w <;> by_cases hb : b = w <;> simp only [ha, hb, if_true, if_false]
    · intros; trivial
    · intro h1 h2; exact absurd h2 (htmp b t hb h1)
    · intro h1 h2; exact absurd h1 (htmp a t ha h2)
    · exact h.tmpInj a b t
  · intro a b i
    show (if a = w then W' else s.ws a).ino = some i → (if b = w then W' else s.ws b).ino = some i → a = b
    by_cases ha : a = w <;> by_cases hb : b = w <;> simp only [ha, hb, if_true, if_false]
    · intros; trivial
    · intro h1 h2; exact absurd h2 (hino b i hb h1)
    · intro h1 h2; exact absurd h1 (hino a i ha h2)
    · exact h.inoInj a b i

theorem Inv.tmp_ne {fs0 : FS} {spec : Nat → Nat × Bytes} {s : Sys} (h : Inv fs0 spec s) {w w' : Nat}
    (hne : w' ≠ w) {t : Name} (ht : (s.ws w).tmp = some t) : (s.ws w').tmp ≠ some t :=
  fun h' => hne (h.tmpInj w' w t h' ht)

theorem Inv.ino_ne {fs0 : FS} {spec : Nat → Nat × Bytes} {s : Sys} (h : Inv fs0 spec s) {w w' : Nat}
    (hne : w' ≠ w) {i : Nat} (hi : (s.ws w).ino = some i) : (s.ws w').ino ≠ some i :=
  fun h' => hne (h.inoInj w' w i h' hi)

/-! ### the writer changes, the file system does not (a call fails, `Close`) -/

theorem Inv.writerOnly {fs0 : FS} {spec : Nat → Nat × Bytes} {s : Sys} (h : Inv fs0 spec s)
    (w : Nat) (W' : Writer) (ht : W'.tmp = (s.ws w).tmp) (hi : W'.ino = (s.ws w).ino)
    (hW : WInv fs0 s.fs (spec w).1 (spec w).2 W') :
    Inv fs0 spec ⟨s.fs, fun j => if j = w then W' else s.ws j⟩ :=
  h.update w s.fs W' (Nat.le_refl _) h.inoBound h.nonceBound h.orig h.finals hW
    (fun w' _ => h.writers w')
    (fun _ _ hne e => h.tmp_ne hne (ht ▸ e)) (fun _ _ hne e => h.ino_ne hne (hi ▸ e))

/-! ### `CreateTemp` -/

@[simp] theorem createTemp_dir (fs : FS) (k : Nat) (x : Name) :
    (fs.createTemp k).1.dir x = if x = Name.temp k fs.nextNonce then some fs.nextIno else fs.dir x := rfl
@[simp] theorem createTemp_ino (fs : FS) (k j : Nat) :
    (fs.createTemp k).1.ino j = if j = fs.nextIno then {} else fs.ino j := rfl
@[simp] theorem createTemp_nextIno (fs : FS) (k : Nat) :
    (fs.createTemp k).1.nextIno = fs.nextIno + 1 := rfl
@[simp] theorem createTemp_nextNonce (fs : FS) (k : Nat) :
    (fs.createTemp k).1.nextNonce = fs.nextNonce + 1 := rfl
@[simp] theorem createTemp_name (fs : FS) (k : Nat) :
    (fs.createTemp k).2.1 = .temp k fs.nextNonce := rfl
@[simp] theorem createTemp_inode (fs : FS) (k : Nat) : (fs.createTemp k).2.2 = fs.nextIno := rfl

theorem Inv.createTemp {fs0 : FS} {spec : Nat → Nat × Bytes} {s : Sys} (h : Inv fs0 spec s)
    (w : Nat) (hf : Fresh (spec w).2 (s.ws w)) :
    Inv fs0 spec ⟨(s.fs.createTemp (s.ws w).key).1, fun j => if j = w then
      { s.ws w with prog := (spec w).2.map MOp.write ++ [.sync, .close, .rename],
                    tmp := some (s.fs.createTemp (s.ws w).key).2.1,
                    ino := some (s.fs.createTemp (s.ws w).key).2.2, isOpen := true } else s.ws j⟩ := by
  have hw := h.writers w
  have hge := h.nextIno_le
  apply h.update
  · simp
  · intro n i
    simp only [createTemp_dir, createTemp_nextIno]
    split
    · intro e; cases e; omega
    · intro e; have := h.inoBound n i e; omega
  · intro k n hn
    simp only [createTemp_dir, createTemp_nextNonce] at *
    rw [if_neg]
    · exact h.nonceBound k n (by omega)
    · intro e; have := Name.temp.inj e; omega
  · intro i hi
    simp only [createTemp_ino]
    rw [if_neg (by omega)]
    exact h.orig i hi
  · intro k i
    simp only [createTemp_dir, createTemp_ino]
    rw [if_neg (by intro e; cases e)]
    intro e
    have := h.inoBound _ _ e
    rw [if_neg (by omega)]
    exact h.finals k i e
  · refine ⟨hw.key_eq, hw.cleanup_eq, ?_, ?_, ?_⟩
    · intro i e
      simp only [createTemp_inode, createTemp_nextIno] at *
      cases e; omega
    · intro t e
      simp only [createTemp_name, createTemp_nextNonce] at *
      cases e
      exact ⟨_, _, rfl, by omega⟩
    · refine Or.inr (Or.inl ⟨s.fs.nextIno, s.fs.nextNonce, rfl, ?_, ?_, ?_, hf.2, ?_⟩)
      · simp only [createTemp_name, hw.key_eq]
      · simp [hw.key_eq]
      · intro k
        simp only [createTemp_dir]
        rw [if_neg (by intro e; cases e)]
        intro e
        have := h.inoBound _ _ e
        omega
      · refine Or.inl ⟨(spec w).2, rfl, rfl, ?_⟩
        simp
  · intro w' _
    refine (h.writers w').frame (by simp) (by simp) ?_
    intro i n hi ht hd hp
    have hib := ((h.writers w').inoB i hi).2
    obtain ⟨k', n', e, hn'⟩ := (h.writers w').tmpB _ ht
    have := Name.temp.inj e
    refine ⟨?_, ?_, ?_⟩
    · simp only [createTemp_dir]
      rw [if_neg]
      · exact hd
      · intro e'; have := Name.temp.inj e'; omega
    · intro k
      simp only [createTemp_dir]
      rw [if_neg (by intro e; cases e)]
      exact hp k
    · simp only [createTemp_ino]
      rw [if_neg (by omega)]
  · intro w' t _ e e'
    obtain ⟨k', n', e2, hn'⟩ := (h.writers w').tmpB _ e'
    simp only [createTemp_name] at e
    cases e
    have := Name.temp.inj e2
    omega
  · intro w' i _ e e'
    have hib := ((h.writers w').inoB i e').2
    simp only [createTemp_inode] at e
    cases e
    omega

/-! ### `Write`, `Sync`: the inode of a live writer changes -/

theorem Inv.inoUpdate {fs0 : FS} {spec : Nat → Nat × Bytes} {s : Sys} (h : Inv fs0 spec s)
    (w i n : Nat) (f' : File) (W' : Writer)
    (hi : (s.ws w).ino = some i) (ht : (s.ws w).tmp = some (.temp (spec w).1 n))
    (hd : s.fs.dir (.temp (spec w).1 n) = some i) (hp : ∀ k, s.fs.dir (.final k) ≠ some i)
    (hk : W'.key = (s.ws w).key) (hc : W'.cleanup = (s.ws w).cleanup)
    (hi' : W'.ino = (s.ws w).ino) (ht' : W'.tmp = (s.ws w).tmp)
    (hfl : W'.failed = false) (hL : LiveData f' (spec w).2 W') :
    Inv fs0 spec ⟨{ s.fs with ino := fun j => if j = i then f' else s.fs.ino j },
      fun j => if j = w then W' else s.ws j⟩ := by
  have hw := h.writers w
  have hib := hw.inoB i hi
  apply h.update
  · exact Nat.le_refl _
  · exact h.inoBound
  · exact h.nonceBound
  · intro j hj
    show (if j = i then f' else s.fs.ino j) = _
    rw [if_neg (by omega)]
    exact h.orig j hj
  · intro k j e
    show GoodFinal _ _ (if j = i then f' else s.fs.ino j) _ _
    have : j ≠ i := by intro e'; subst e'; exact hp k e
    rw [if_neg this]
    exact h.finals k j e
  · refine ⟨hk.trans hw.key_eq, hc.trans hw.cleanup_eq, ?_, ?_, ?_⟩
    · rw [hi']; exact hw.inoB
    · rw [ht']; exact hw.tmpB
    · refine Or.inr (Or.inl ⟨i, n, hi'.trans hi, ht'.trans ht, hd, hp, hfl, ?_⟩)
      show LiveData (if i = i then f' else s.fs.ino i) _ _
      rw [if_pos rfl]
      exact hL
  · intro w' hne
    refine (h.writers w').frame (Nat.le_refl _) (Nat.le_refl _) ?_
    intro i' n' hi2 _ hd2 hp2
    refine ⟨hd2, hp2, ?_⟩
    show (if i' = i then f' else s.fs.ino i') = _
    have : i' ≠ i := by intro e; subst e; exact h.ino_ne hne hi hi2
    rw [if_neg this]
  · exact fun _ _ hne e => h.tmp_ne hne (ht' ▸ e)
  · exact fun _ _ hne e => h.ino_ne hne (hi' ▸ e)

/-! ### `Rename` of a complete, durable temp file -/

theorem Inv.rename {fs0 : FS} {spec : Nat → Nat × Bytes} {s : Sys} (h : Inv fs0 spec s)
    (w i n : Nat) (W' : Writer)
    (hi : (s.ws w).ino = some i) (ht : (s.ws w).tmp = some (.temp (spec w).1 n))
    (hdata : (s.fs.ino i).data = (spec w).2) (hsync : (s.fs.ino i).synced = (s.fs.ino i).data.length)
    (hk : W'.key = (s.ws w).key) (hc : W'.cleanup = (s.ws w).cleanup)
    (hi' : W'.ino = (s.ws w).ino) (ht' : W'.tmp = (s.ws w).tmp)
    (hq : Quiet W') :
    Inv fs0 spec ⟨{ s.fs with dir := fun x => if x = Name.final (spec w).1 then some i
        else (if x = Name.temp (spec w).1 n then none else s.fs.dir x) },
      fun j => if j = w then W' else s.ws j⟩ := by
  have hw := h.writers w
  have hib := hw.inoB i hi
  apply h.update
  · exact Nat.le_refl _
  · intro x j
    show (if x = Name.final (spec w).1 then some i
        else (if x = Name.temp (spec w).1 n then none else s.fs.dir x)) = some j → j < s.fs.nextIno
    split
    · intro e; cases e; exact hib.2
    · split
      · intro e; cases e
      · exact h.inoBound x j
  · intro k m hm
    show (if Name.temp k m = Name.final (spec w).1 then some i
        else (if Name.temp k m = Name.temp (spec w).1 n then none else s.fs.dir (.temp k m))) = none
    rw [if_neg (by intro e; cases e)]
    split
    · rfl
    · exact h.nonceBound k m hm
  · exact h.orig
  · intro k j
    show (if Name.final k = Name.final (spec w).1 then some i
        else (if Name.final k = Name.temp (spec w).1 n then none else s.fs.dir (.final k))) = some j →
      GoodFinal fs0 spec (s.fs.ino j) k j
    split
    · rename_i e
      have ek := Name.final.inj e
      intro e'; cases e'
      exact ⟨hsync, Or.inr ⟨w, ek.symm, hdata⟩⟩
    · rw [if_neg (by intro e; cases e)]
      exact h.finals k j
  · refine ⟨hk.trans hw.key_eq, hc.trans hw.cleanup_eq, ?_, ?_, Or.inr (Or.inr hq)⟩
    · rw [hi']; exact hw.inoB
    · rw [ht']; exact hw.tmpB
  · intro w' hne
    refine (h.writers w').frame (Nat.le_refl _) (Nat.le_refl _) ?_
    intro i' n' hi2 ht2 hd2 hp2
    have hine : i ≠ i' := by intro e; subst e; exact h.ino_ne hne hi hi2
    refine ⟨?_, ?_, rfl⟩
    · show (if Name.temp (spec w').1 n' = Name.final (spec w).1 then some i
        else (if Name.temp (spec w').1 n' = Name.temp (spec w).1 n then none
        else s.fs.dir (.temp (spec w').1 n'))) = some i'
      rw [if_neg (by intro e; cases e), if_neg]
      · exact hd2
      · intro e; rw [e] at ht2; exact h.tmp_ne hne ht ht2
    · intro k
      show (if Name.final k = Name.final (spec w).1 then some i
        else (if Name.final k = Name.temp (spec w).1 n then none else s.fs.dir (.final k))) ≠ some i'
      split
      · intro e; cases e; exact hine rfl
      · rw [if_neg (by intro e; cases e)]
        exact hp2 k
  · exact fun _ _ hne e => h.tmp_ne hne (ht' ▸ e)
  · exact fun _ _ hne e => h.ino_ne hne (hi' ▸ e)

/-! ### `Remove` of the writer's own temp name -/

theorem Inv.removeTmp {fs0 : FS} {spec : Nat → Nat × Bytes} {s : Sys} (h : Inv fs0 spec s)
    (w : Nat) (t : Name) (W' : Writer) (ht : (s.ws w).tmp = some t)
    (hk : W'.key = (s.ws w).key) (hc : W'.cleanup = (s.ws w).cleanup)
    (hi' : W'.ino = (s.ws w).ino) (ht' : W'.tmp = (s.ws w).tmp)
    (hq : Quiet W') :
    Inv fs0 spec ⟨s.fs.remove t, fun j => if j = w then W' else s.ws j⟩ := by
  have hw := h.writers w
  obtain ⟨tk, tn, et, _⟩ := hw.tmpB t ht
  subst et
  apply h.update
  · exact Nat.le_refl _
  · intro x j
    show (if x = Name.temp tk tn then none else s.fs.dir x) = some j → j < s.fs.nextIno
    split
    · intro e; cases e
    · exact h.inoBound x j
  · intro k m hm
    show (if Name.temp k m = Name.temp tk tn then none else s.fs.dir (.temp k m)) = none
    split
    · rfl
    · exact h.nonceBound k m hm
  · exact h.orig
  · intro k j
    show (if Name.final k = Name.temp tk tn then none else s.fs.dir (.final k)) = some j → _
    rw [if_neg (by intro e; cases e)]
    exact h.finals k j
  · refine ⟨hk.trans hw.key_eq, hc.trans hw.cleanup_eq, ?_, ?_, Or.inr (Or.inr hq)⟩
    · rw [hi']; exact hw.inoB
    · rw [ht']; exact hw.tmpB
  · intro w' hne
    refine (h.writers w').frame (Nat.le_refl _) (Nat.le_refl _) ?_
    intro i' n' _ ht2 hd2 hp2
    refine ⟨?_, ?_, rfl⟩
    · show (if Name.temp (spec w').1 n' = Name.temp tk tn then none
        else s.fs.dir (.temp (spec w').1 n')) = some i'
      rw [if_neg]
      · exact hd2
      · intro e; rw [e] at ht2; exact h.tmp_ne hne ht ht2
    · intro k
      show (if Name.final k = Name.temp tk tn then none else s.fs.dir (.final k)) ≠ some i'
      rw [if_neg (by intro e; cases e)]
      exact hp2 k
  · exact fun _ _ hne e => h.tmp_ne hne (ht' ▸ e)
  · exact fun _ _ hne e => h.ino_ne hne (hi' ▸ e)

/-! ### `Delete` of a final name -/

theorem Inv.delete {fs0 : FS} {spec : Nat → Nat × Bytes} {s : Sys} (h : Inv fs0 spec s) (key : Nat) :
    Inv fs0 spec ⟨s.fs.remove (.final key), s.ws⟩ := by
  refine ⟨h.nextIno_le, ?_, ?_, h.orig, ?_, ?_, h.tmpInj, h.inoInj⟩
  · intro x j
    show (if x = Name.final key then none else s.fs.dir x) = some j → j < s.fs.nextIno
    split
    · intro e; cases e
    · exact h.inoBound x j
  · intro k m hm
    show (if Name.temp k m = Name.final key then none else s.fs.dir (.temp k m)) = none
    rw [if_neg (by intro e; cases e)]
    exact h.nonceBound k m hm
  · intro k j
    show (if Name.final k = Name.final key then none else s.fs.dir (.final k)) = some j → _
    split
    · intro e; cases e
    · exact h.finals k j
  · intro w'
    refine (h.writers w').frame (Nat.le_refl _) (Nat.le_refl _) ?_
    intro i' n' _ _ hd2 hp2
    refine ⟨?_, ?_, rfl⟩
    · show (if Name.temp (spec w').1 n' = Name.final key then none
        else s.fs.dir (.temp (spec w').1 n')) = some i'
      rw [if_neg (by intro e; cases e)]
      exact hd2
    · intro k
      show (if Name.final k = Name.final key then none else s.fs.dir (.final k)) ≠ some i'
      split
      · intro e; cases e
      · exact hp2 k

/-! ## Every event preserves the invariant -/

theorem Inv.exec {fs0 : FS} {spec : Nat → Nat × Bytes} {s : Sys} (h : Inv fs0 spec s) (w : Nat) :
    Inv fs0 spec ⟨(execOp s.fs (s.ws w)).1,
      fun j => if j = w then (execOp s.fs (s.ws w)).2 else s.ws j⟩ := by
  have hw := h.writers w
  rcases hw.phase with hf | ⟨i, n, hi, ht, hd, hp, hfl, hL⟩ | hq
  · -- `CreateTemp`
    rw [execOp_createTemp hf.1]
    exact h.createTemp w hf
  · rcases hL with ⟨rest, hprog, hopen, hdata⟩ | ⟨hprog, hopen, hdata, hsync⟩ |
      ⟨hprog, hopen, hdata, hsync⟩
    · cases rest with
      | nil =>
        -- `Sync`
        have hprog' : (s.ws w).prog = .sync :: [.close, .rename] := by simpa using hprog
        rw [execOp_sync hprog' hi hopen]
        exact h.inoUpdate w i n _ _ hi ht hd hp rfl rfl rfl rfl hfl
          (Or.inr (Or.inl ⟨rfl, hopen, by simpa using hdata, rfl⟩))
      | cons b rest =>
        -- one byte of `io.Copy`
        have hprog' : (s.ws w).prog = .write b :: (rest.map MOp.write ++ [.sync, .close, .rename]) := by
          simpa using hprog
        rw [execOp_write hprog' hi hopen]
        exact h.inoUpdate w i n _ _ hi ht hd hp rfl rfl rfl rfl hfl
          (Or.inl ⟨rest, rfl, hopen, by simpa using hdata⟩)
    · -- `Close`
      rw [execOp_close hprog, if_pos hopen]
      exact h.writerOnly w _ rfl rfl ⟨hw.key_eq, hw.cleanup_eq, hw.inoB, hw.tmpB,
        Or.inr (Or.inl ⟨i, n, hi, ht, hd, hp, hfl, Or.inr (Or.inr ⟨rfl, rfl, hdata, hsync⟩)⟩)⟩
    · -- `Rename`
      have hr : s.fs.rename (.temp (spec w).1 n) (.final (s.ws w).key) =
          some { s.fs with dir := fun x => if x = Name.final (spec w).1 then some i
            else (if x = Name.temp (spec w).1 n then none else s.fs.dir x) } := by
        simp [FS.rename, hd, hw.key_eq]
      rw [execOp_rename hprog ht hr]
      exact h.rename w i n _ hi ht hdata hsync rfl rfl rfl rfl ⟨by simp, Or.inr rfl⟩
  · -- the deferred cleanup, or nothing left to do
    cases hprog : (s.ws w).prog with
    | nil =>
      rw [execOp_nil hprog]
      exact h.writerOnly w _ rfl rfl hw
    | cons op rest =>
      have hop := hq.1 op (by rw [hprog]; simp)
      have hrest : ∀ o ∈ rest, o = MOp.close ∨ o = MOp.remove :=
        fun o ho => hq.1 o (by rw [hprog]; simp [ho])
      have hfailed : (s.ws w).failed = true := hq.2.resolve_right (by rw [hprog]; simp)
      rcases hop with rfl | rfl
      · rw [execOp_close hprog]
        by_cases ho : (s.ws w).isOpen = true
        · rw [if_pos ho]
          exact h.writerOnly w _ rfl rfl ⟨hw.key_eq, hw.cleanup_eq, hw.inoB, hw.tmpB,
            Or.inr (Or.inr ⟨hrest, Or.inl hfailed⟩)⟩
        · rw [if_neg ho]
          exact h.writerOnly w _ (fail_tmp _ _) (fail_ino _ _) (hw.fail rest (fun _ => hrest))
      · cases htmp : (s.ws w).tmp with
        | none =>
          rw [execOp_remove_none hprog htmp]
          exact h.writerOnly w _ (fail_tmp _ _) (fail_ino _ _) (hw.fail rest (fun _ => hrest))
        | some t =>
          rw [execOp_remove hprog htmp]
          exact h.removeTmp w t _ htmp rfl rfl rfl rfl ⟨hrest, Or.inl hfailed⟩

theorem Inv.step {fs0 : FS} {spec : Nat → Nat × Bytes} {s : Sys} (h : Inv fs0 spec s) (e : Ev) :
    Inv fs0 spec (s.step e) := by
  cases e with
  | run w => rw [step_run]; exact h.exec w
  | fail w =>
    have hw := h.writers w
    cases hprog : (s.ws w).prog with
    | nil => simp only [Sys.step, hprog]; exact h
    | cons op rest =>
      simp only [Sys.step, hprog]
      refine h.writerOnly w _ (fail_tmp _ _) (fail_ino _ _) (hw.fail rest ?_)
      intro hfailed
      rcases hw.phase with hf | ⟨_, _, _, _, _, _, hfl, _⟩ | hq
      · rw [hf.2] at hfailed; cases hfailed
      · rw [hfl] at hfailed; cases hfailed
      · exact fun o ho => hq.1 o (by rw [hprog]; simp [ho])
  | delete k => exact h.delete k

theorem Inv.run {fs0 : FS} {spec : Nat → Nat × Bytes} (evs : List Ev) :
    ∀ {s : Sys}, Inv fs0 spec s → Inv fs0 spec (s.run evs) := by
  induction evs with
  | nil => intro s h; exact h
  | cons e evs ih => intro s h; exact ih (h.step e)

theorem Inv.init {fs0 : FS} (h0 : fs0.WF0) (spec : Nat → Nat × Bytes) :
    Inv fs0 spec (Sys.init fs0 spec) := by
  refine ⟨Nat.le_refl _, h0.inoBound, h0.nonceBound, fun _ _ => rfl, ?_, ?_, ?_, ?_⟩
  · exact fun k i e => ⟨h0.finalsDurable k i e, Or.inl e⟩
  · intro w
    refine ⟨rfl, start_cleanup _ _, ?_, ?_, Or.inl ⟨start_prog _ _, rfl⟩⟩
    · intro i e; cases e
    · intro t e; cases e
  · intro w w' t e; cases e
  · intro w w' i e; cases e

/-- what the invariant says about a final name, also after a power loss -/
theorem Inv.allowed {fs0 : FS} (h0 : fs0.WF0) {spec : Nat → Nat × Bytes} {s : Sys}
    (h : Inv fs0 spec s) (keep : Nat → Nat) (key : Nat) :
    Allowed fs0 spec key ((s.fs.powerLoss keep).content (.final key)) := by
  show Allowed fs0 spec key ((s.fs.dir (.final key)).map
    (fun i => (s.fs.ino i).data.take (max (s.fs.ino i).synced (keep i))))
  cases hd : s.fs.dir (.final key) with
  | none => exact Or.inl rfl
  | some i =>
    obtain ⟨hs, hg⟩ := h.finals key i hd
    have htake : (s.fs.ino i).data.take (max (s.fs.ino i).synced (keep i)) = (s.fs.ino i).data :=
      List.take_of_length_le (by omega)
    simp only [Option.map_some, htake]
    rcases hg with h1 | ⟨w, hk, hdat⟩
    · refine Or.inr (Or.inl ?_)
      have := h.orig i (h0.inoBound _ _ h1)
      simp [FS.content, h1, this]
    · exact Or.inr (Or.inr ⟨w, hk, by rw [hdat]⟩)

/-- MAIN: any number of writers, any interleaving, any injected call failures, any deletes, stopped at any
point (every prefix of a schedule is a schedule), followed by a power loss that drops an arbitrary part of
all unsynced data: the final name shows nothing, the old entry, or a complete entry of some writer. -/
theorem add_concurrent_powerloss (fs0 : FS) (h0 : fs0.WF0) (spec : Nat → Nat × Bytes)
    (evs : List Ev) (keep : Nat → Nat) (key : Nat) :
    Allowed fs0 spec key
      ((((Sys.init fs0 spec).run evs).fs.powerLoss keep).content (.final key)) :=
  ((Inv.init h0 spec).run evs).allowed h0 keep key

/-- the same without power loss (process deaths only) -/
theorem add_concurrent (fs0 : FS) (h0 : fs0.WF0) (spec : Nat → Nat × Bytes)
    (evs : List Ev) (key : Nat) :
    Allowed fs0 spec key (((Sys.init fs0 spec).run evs).fs.content (.final key)) := by
  have h := (Inv.init h0 spec).run evs
  generalize (Sys.init fs0 spec).run evs = s at h
  show Allowed fs0 spec key ((s.fs.dir (.final key)).map (fun i => (s.fs.ino i).data))
  cases hd : s.fs.dir (.final key) with
  | none => exact Or.inl rfl
  | some i =>
    obtain ⟨_, hg⟩ := h.finals key i hd
    rcases hg with h1 | ⟨w, hk, hdat⟩
    · refine Or.inr (Or.inl ?_)
      have := h.orig i (h0.inoBound _ _ h1)
      simp [FS.content, h1, this]
    · exact Or.inr (Or.inr ⟨w, hk, by simp [hdat]⟩)

/-! ## Progress -/

theorem step_run_of {s : Sys} {w : Nat} {fs' : FS} {W' : Writer}
    (h : execOp s.fs (s.ws w) = (fs', W')) :
    (s.step (.run w)).fs = fs' ∧ (s.step (.run w)).ws w = W' := by
  rw [step_run, h]; simp

/-- a writer that has created its temp file and is scheduled alone publishes what it has written plus
what is left to write -/
theorem copy_completes (w i key : Nat) (t : Name) : ∀ (rest : Bytes) (s : Sys),
    (s.ws w).prog = rest.map MOp.write ++ [.sync, .close, .rename] → (s.ws w).isOpen = true →
    (s.ws w).ino = some i → (s.ws w).tmp = some t → (s.ws w).key = key → s.fs.dir t = some i →
    (s.run (List.replicate (rest.length + 3) (Ev.run w))).fs.content (.final key) =
      some ((s.fs.ino i).data ++ rest) := by
  intro rest
  induction rest with
  | nil =>
    intro s hprog hopen hi ht hk hd
    have hprog' : (s.ws w).prog = .sync :: [.close, .rename] := by simpa using hprog
    obtain ⟨hfs1, hws1⟩ := step_run_of (execOp_sync hprog' hi hopen)
    have hprog1 : ((s.step (.run w)).ws w).prog = .close :: [.rename] := by rw [hws1]
    have hopen1 : ((s.step (.run w)).ws w).isOpen = true := by rw [hws1]; exact hopen
    have e2 := execOp_close (fs := (s.step (.run w)).fs) hprog1
    rw [if_pos hopen1] at e2
    obtain ⟨hfs2, hws2⟩ := step_run_of e2
    have hprog2 : (((s.step (.run w)).step (.run w)).ws w).prog = .rename :: [] := by rw [hws2]
    have ht2 : (((s.step (.run w)).step (.run w)).ws w).tmp = some t := by rw [hws2, hws1]; exact ht
    have hk2 : (((s.step (.run w)).step (.run w)).ws w).key = key := by rw [hws2, hws1]; exact hk
    have hr : ((s.step (.run w)).step (.run w)).fs.rename t
        (.final (((s.step (.run w)).step (.run w)).ws w).key) =
        some { (s.fs.sync i) with dir := fun x => if x = Name.final key then some i
          else (if x = t then none else s.fs.dir x) } := by
      rw [hfs2, hfs1, hk2]
      have : (s.fs.sync i).dir t = some i := hd
      simp [FS.rename, this]
      rfl
    obtain ⟨hfs3, _⟩ := step_run_of (execOp_rename hprog2 ht2 hr)
    show ((((s.step (.run w)).step (.run w)).step (.run w))).fs.content (.final key) = _
    rw [hfs3]
    simp [FS.content, FS.sync]
  | cons b rest ih =>
    intro s hprog hopen hi ht hk hd
    have hprog' : (s.ws w).prog = .write b :: (rest.map MOp.write ++ [.sync, .close, .rename]) := by
      simpa using hprog
    obtain ⟨hfs, hws⟩ := step_run_of (execOp_write hprog' hi hopen)
    have := ih (s.step (.run w)) (by rw [hws]) (by rw [hws]; exact hopen) (by rw [hws]; exact hi)
      (by rw [hws]; exact ht) (by rw [hws]; exact hk) (by rw [hfs]; exact hd)
    show ((s.step (.run w)).run (List.replicate (rest.length + 3) (Ev.run w))).fs.content _ = _
    rw [this, hfs]
    simp [FS.append]

set_option linter.unusedVariables false in
/-- non-vacuity / progress: a writer that is scheduled alone for all its steps publishes its content -/
theorem add_completes (fs0 : FS) (h0 : fs0.WF0) (spec : Nat → Nat × Bytes) (w : Nat) :
    ((Sys.init fs0 spec).run (List.replicate ((spec w).2.length + 4) (Ev.run w))).fs.content
      (.final (spec w).1) = some (spec w).2 := by
  have hprog : ((Sys.init fs0 spec).ws w).prog =
      .createTemp :: ((spec w).2.map MOp.write ++ [.sync, .close, .rename]) := start_prog _ _
  obtain ⟨hfs, hws⟩ := step_run_of (fs' := _) (W' := _) (execOp_createTemp (fs := (Sys.init fs0 spec).fs) hprog)
  have := copy_completes w fs0.nextIno (spec w).1 (.temp (spec w).1 fs0.nextNonce) (spec w).2
    ((Sys.init fs0 spec).step (.run w)) (by rw [hws]) (by rw [hws]) (by rw [hws]; rfl)
    (by rw [hws]; rfl) (by rw [hws]; rfl) (by rw [hfs]; simp [Sys.init, Writer.start, Writer.startWith])
  show (((Sys.init fs0 spec).step (.run w)).run
    (List.replicate ((spec w).2.length + 3) (Ev.run w))).fs.content _ = _
  rw [this, hfs]
  simp [Sys.init]

/-! ## Tests (sanity examples on concrete schedules) and witnesses that the ORDER of the calls matters -/

/-- TEST: the real step list, one writer of `[1,2,3]` stopped after `CreateTemp` and one byte, then a power
loss that keeps nothing unsynced: nothing under the final name -/
example :
    (((Sys.init FS.empty (fun _ => (0, [1, 2, 3]))).run [.run 0, .run 0]).fs.powerLoss
      (fun _ => 0)).content (.final 0) = none := by decide

/-- TEST: the real step list run to completion, then a power loss that keeps nothing unsynced: the complete
entry -/
example :
    (((Sys.init FS.empty (fun _ => (0, [1, 2, 3]))).run (List.replicate 7 (.run 0))).fs.powerLoss
      (fun _ => 0)).content (.final 0) = some [1, 2, 3] := by decide

/-- TEST: a call fails during the copy: the cleanup removes the temp file, nothing is published -/
example :
    ((Sys.init FS.empty (fun _ => (0, [1, 2, 3]))).run
      [.run 0, .run 0, .fail 0, .run 0, .run 0, .run 0]).fs.content (.final 0) = none ∧
    ((Sys.init FS.empty (fun _ => (0, [1, 2, 3]))).run
      [.run 0, .run 0, .fail 0, .run 0, .run 0, .run 0]).fs.content (.temp 0 0) = none := by decide

/-- WITNESS (test): the theorem is about the order of the calls. `Rename` before `Sync`: after
`CreateTemp`, three writes and `Rename`, a power loss that keeps one unsynced byte leaves a PARTIAL entry
under the final name. -/
theorem rename_before_sync_breaks :
    (((Sys.initWith [.createTemp, .copy, .rename, .sync, .close] [.close, .remove] FS.empty
        (fun _ => (0, [1, 2, 3]))).run (List.replicate 5 (.run 0))).fs.powerLoss
      (fun _ => 1)).content (.final 0) = some [1] := by decide

/-- WITNESS (test): without `Sync` the complete run followed by a power loss leaves an EMPTY entry under the
final name. -/
theorem no_sync_breaks :
    (((Sys.initWith [.createTemp, .copy, .close, .rename] [.close, .remove] FS.empty
        (fun _ => (0, [1, 2, 3]))).run (List.replicate 7 (.run 0))).fs.powerLoss
      (fun _ => 0)).content (.final 0) = some [] := by decide


end Wz.C13.FS
