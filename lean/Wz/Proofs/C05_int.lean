/- Helper lemmas for C05 (integer instructions): relate Go/BitVec primitives to the specification. -/
import Wz.Gen.InterpNum
import Wz.Spec.Int

namespace Wz.C05
open Wz.Spec Wz.Go

theorem idivS_of_ne_zero {n : Nat} (hn : 0 < n) (a b : BitVec n) (hb : b ≠ 0#n) :
    Int.idivS a b = if a = BitVec.intMin n ∧ b = -1#n then none else some (a.sdiv b) := by
  have hb' : b.toInt ≠ 0 := by
    intro h; apply hb; apply BitVec.toInt_inj.mp; simpa using h
  unfold Int.idivS
  simp only [hb', if_false]
  by_cases h : a = BitVec.intMin n ∧ b = -1#n
  · obtain ⟨ha, hb1⟩ := h
    subst ha; subst hb1
    have h1 : (BitVec.intMin n).toInt = -2 ^ (n - 1) := BitVec.toInt_intMin_of_pos hn
    have h2 : (-1#n).toInt = -1 := by
      rw [BitVec.neg_one_eq_allOnes, BitVec.toInt_allOnes]; simp [hn]
    simp [h1, h2]
  · have h' : a ≠ BitVec.intMin n ∨ b ≠ -1#n := by
      by_cases ha : a = BitVec.intMin n
      · right; intro hb1; exact h ⟨ha, hb1⟩
      · left; exact ha
    have hs := BitVec.toInt_sdiv_of_ne_or_ne a b h'
    have hlt := @BitVec.toInt_lt n (a.sdiv b)
    rw [← hs]
    have hne : (a.sdiv b).toInt ≠ 2 ^ (n - 1) := by omega
    simp [h, hne]

theorem iremS_of_ne_zero {n : Nat} (a b : BitVec n) (hb : b ≠ 0#n) :
    Int.iremS a b = some (a.srem b) := by
  have hb' : b.toInt ≠ 0 := by
    intro h; apply hb; apply BitVec.toInt_inj.mp; simpa using h
  unfold Int.iremS
  simp only [hb', if_false]
  rw [← BitVec.toInt_srem, BitVec.ofInt_toInt]

theorem idivU_of_ne_zero {n : Nat} (a b : BitVec n) (hb : b ≠ 0#n) :
    Int.idivU a b = some (a / b) := by
  have h2 : ¬ b.toNat = 0 := fun hh => hb (BitVec.eq_of_toNat_eq (by simpa using hh))
  unfold Int.idivU
  simp only [h2, if_false]
  congr 1
  apply BitVec.eq_of_toNat_eq
  simp only [BitVec.toNat_ofNat, BitVec.toNat_udiv]
  have h3 := Nat.div_le_self a.toNat b.toNat
  have h4 := a.isLt
  exact Nat.mod_eq_of_lt (by omega)

theorem iremU_of_ne_zero {n : Nat} (a b : BitVec n) (hb : b ≠ 0#n) :
    Int.iremU a b = some (a % b) := by
  have h2 : ¬ b.toNat = 0 := fun hh => hb (BitVec.eq_of_toNat_eq (by simpa using hh))
  unfold Int.iremU
  simp only [h2, if_false]
  congr 1
  apply BitVec.eq_of_toNat_eq
  simp only [BitVec.toNat_ofNat, BitVec.toNat_umod]
  have h3 := Nat.mod_le a.toNat b.toNat
  have h4 := a.isLt
  exact Nat.mod_eq_of_lt (by omega)

theorem clzAux_eq {n} (a : BitVec n) (k : Nat) : Wz.Go.clzAux a k = Int.clzAux a k := by
  induction k with
  | zero => rfl
  | succ k ih => simp [Wz.Go.clzAux, Int.clzAux, ih]
theorem clzAux_le {n} (a : BitVec n) (k : Nat) : Int.clzAux a k ≤ k := by
  induction k with
  | zero => simp [Int.clzAux]
  | succ k ih => simp only [Int.clzAux]; split <;> omega
theorem ctzAux_eq {n} (a : BitVec n) (i k : Nat) : Wz.Go.ctzAux a i k = Int.ctzAux a i k := by
  induction k generalizing i with
  | zero => rfl
  | succ k ih => simp [Wz.Go.ctzAux, Int.ctzAux, ih]
theorem ctzAux_le {n} (a : BitVec n) (i k : Nat) : Int.ctzAux a i k ≤ k := by
  induction k generalizing i with
  | zero => simp [Int.ctzAux]
  | succ k ih =>
    simp only [Int.ctzAux]
    have := ih (i + 1)
    split <;> omega
theorem popAux_eq {n} (a : BitVec n) (k : Nat) : Wz.Go.popAux a k = Int.popAux a k := by
  induction k with
  | zero => rfl
  | succ k ih => simp [Wz.Go.popAux, Int.popAux, ih]
theorem popAux_le {n} (a : BitVec n) (k : Nat) : Int.popAux a k ≤ k := by
  induction k with
  | zero => simp [Int.popAux]
  | succ k ih => simp only [Int.popAux]; split <;> omega

/-- rotating left by w - r is rotating right by r -/
theorem rotateLeft_neg {w : Nat} (hw : 0 < w) (x : BitVec w) (r : Nat) :
    x.rotateLeft ((w - r % w) % w) = x.rotateRight r := by
  apply BitVec.eq_of_getLsbD_eq
  intro i hi
  rw [BitVec.getLsbD_rotateLeft, BitVec.getLsbD_rotateRight]
  have hr := Nat.mod_lt r hw
  by_cases h0 : r % w = 0
  · simp [h0, hi]
  · have h1 : (w - r % w) % w = w - r % w := Nat.mod_eq_of_lt (by omega)
    rw [Nat.mod_mod, h1]
    by_cases h2 : i < w - r % w
    · simp only [h2, decide_true, cond_true]
      congr 1; omega
    · simp only [h2, decide_false, cond_false, hi, decide_true, Bool.true_and]

end Wz.C05
