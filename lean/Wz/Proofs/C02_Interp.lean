/-
C02 helper lemmas: the interpreter's effective-address arithmetic (core 1) and bulk ranges (core 4).
All statements are about definitions regenerated from /repo (`Wz.Gen.InterpAddr`, `Wz.Gen.Memory`).
-/
import Wz.Model.MemAccess

namespace Wz.C02
open Wz.Gen.Memory Wz.Gen.InterpAddr Wz.Model.MemAccess

theorem hasSize_iff' (off : BitVec 32) (n len : BitVec 64) (hn : n.toNat < 2^63) :
    hasSize off n len = true ↔ off.toNat + n.toNat ≤ len.toNat := by
  unfold hasSize
  simp only [BitVec.ule, decide_eq_true_eq, BitVec.toNat_add, BitVec.toNat_setWidth]
  have := off.isLt
  omega

/-- popMemoryOffset: `some ea` iff the 33-bit sum fits in 32 bits, and then it is the sum. -/
theorem pop_iff (base off ea : BitVec 32) :
    popMemoryOffset (off.setWidth 64) (base.setWidth 64) = some ea ↔
      base.toNat + off.toNat < 2^32 ∧ ea.toNat = base.toNat + off.toNat := by
  unfold popMemoryOffset
  have hb := base.isLt
  have ho := off.isLt
  simp only [BitVec.ult, BitVec.toNat_add, BitVec.toNat_setWidth, BitVec.toNat_ofNat]
  split
  · rename_i h
    simp only [decide_eq_true_eq] at h
    constructor
    · intro h'; cases h'
    · intro ⟨h1, _⟩; omega
  · rename_i h
    simp only [decide_eq_true_eq] at h
    constructor
    · intro h'
      injection h' with h'
      subst h'
      simp only [BitVec.toNat_setWidth, BitVec.toNat_add, BitVec.toNat_setWidth]
      omega
    · intro ⟨h1, h2⟩
      congr 1
      apply BitVec.eq_of_toNat_eq
      simp only [BitVec.toNat_setWidth, BitVec.toNat_add, BitVec.toNat_setWidth]
      omega

theorem pop_none_iff (base off : BitVec 32) :
    popMemoryOffset (off.setWidth 64) (base.setWidth 64) = none ↔ 2^32 ≤ base.toNat + off.toNat := by
  unfold popMemoryOffset
  have hb := base.isLt
  have ho := off.isLt
  simp only [BitVec.ult, BitVec.toNat_add, BitVec.toNat_setWidth, BitVec.toNat_ofNat]
  split
  · rename_i h
    simp only [decide_eq_true_eq] at h
    constructor
    · intro _; omega
    · intro _; rfl
  · rename_i h
    simp only [decide_eq_true_eq] at h
    constructor
    · intro h'; cases h'
    · intro _; omega

end Wz.C02
