/- Lemmas for C15: the 24 functions of Wz.Model.WasiFs2 — every alternative of every call is safe. Core Lean only. -/
import Wz.Model.WasiFs2
import Wz.Proofs.C15_Poll
import Wz.Proofs.C15_Table
import Wz.Proofs.C15_Readdir

namespace Wz.C15
open Wz.Model Wz.Model.Wasi Wz.Model.DescTable Wz.Gen.Wasi

/-- What C15 asks of one alternative of a call on memory `m`: no host bounds-check failure, every write inside the
memory, a call that does not answer errno 0 leaves the descriptor table alone, and the host allocation caused by
guest numbers is at most one growth step of the descriptor table (512 bytes) — a constant, whatever the arguments. -/
structure Safe (m : Mem) (r : Res) : Prop where
  noPanic : r.err ≠ Err.panic
  inMem : ∀ w ∈ r.writes, w.len = 0 ∨ w.off + w.len ≤ m.size
  table : r.err ≠ Err.errno 0 → r.fds = none
  alloc : r.alloc ≤ 512

def AllSafe (m : Mem) (rs : List Res) : Prop := ∀ r ∈ rs, Safe m r

theorem safe_errOnly (m : Mem) (e : Err) (he : e ≠ Err.panic) : Safe m { err := e } :=
  { noPanic := he
    inMem := fun w hw => by cases hw
    table := fun _ => rfl
    alloc := Nat.zero_le _ }

theorem allSafe_rE (m : Mem) (e : Err) (he : e ≠ Err.panic) : AllSafe m (rE e) := by
  intro r hr
  simp only [rE, List.mem_cons, List.not_mem_nil, or_false] at hr
  subst hr
  exact safe_errOnly m e he

/-- case split down to the leaves (`have`/`let` are unfolded on the way) -/
macro "split_all" : tactic => `(tactic| repeat' (first | split | dsimp only))

/-- close `AllSafe m (rE e)` for a concrete `e` -/
macro "rE_safe" : tactic => `(tactic| (refine allSafe_rE _ _ ?_; decide))

theorem atPath_ne_panic (fds : Fds) (m : Mem) (fd p len : Nat) (e : Err) (h : atPath fds m fd p len = some e) :
    e ≠ Err.panic := by
  unfold atPath at h
  repeat' split at h
  all_goals first
    | (cases h; decide)
    | (cases h)

/-! ### functions without pointers -/

theorem fdAdvise_safe (m : Mem) (fds : Fds) (fd adv : Nat) : AllSafe m (fdAdvise fds fd adv) := by
  unfold fdAdvise
  split_all
  all_goals rE_safe

theorem fdAllocate_safe (m : Mem) (fds : Fds) (fd off len : Nat) : AllSafe m (fdAllocate fds fd off len) := by
  unfold fdAllocate
  split_all
  all_goals rE_safe

theorem fdSyncLike_safe (m : Mem) (fds : Fds) (fd : Nat) : AllSafe m (fdSyncLike fds fd) := by
  unfold fdSyncLike
  split_all
  all_goals rE_safe

theorem fdFdstatSetFlags_safe (m : Mem) (fds : Fds) (fd fl : Nat) : AllSafe m (fdFdstatSetFlags fds fd fl) := by
  unfold fdFdstatSetFlags
  split_all
  all_goals rE_safe

theorem fdFilestatSetSize_safe (m : Mem) (fds : Fds) (fd : Nat) : AllSafe m (fdFilestatSetSize fds fd) := by
  unfold fdFilestatSetSize
  split_all
  all_goals rE_safe

theorem fdFilestatSetTimes_safe (m : Mem) (fds : Fds) (fd fst : Nat) : AllSafe m (fdFilestatSetTimes fds fd fst) := by
  unfold fdFilestatSetTimes
  split_all
  all_goals rE_safe

theorem sockShutdown_safe (m : Mem) (fds : Fds) (fd how : Nat) : AllSafe m (sockShutdown fds fd how) := by
  unfold sockShutdown
  split_all
  all_goals rE_safe

/-! ### path functions -/

theorem pathOp_safe (m : Mem) (fds : Fds) (fd p len : Nat) : AllSafe m (pathOp fds m fd p len) := by
  unfold pathOp
  split
  · rename_i e he
    exact allSafe_rE m e (atPath_ne_panic _ _ _ _ _ e he)
  · rE_safe

theorem pathOp2_safe (m : Mem) (fds : Fds) (fd p len fd2 p2 len2 : Nat) :
    AllSafe m (pathOp2 fds m fd p len fd2 p2 len2) := by
  unfold pathOp2
  split
  · rename_i e he
    exact allSafe_rE m e (atPath_ne_panic _ _ _ _ _ e he)
  · split
    · rename_i e he
      exact allSafe_rE m e (atPath_ne_panic _ _ _ _ _ e he)
    · rE_safe

theorem pathFilestatSetTimes_safe (m : Mem) (fds : Fds) (fd p len fst : Nat) :
    AllSafe m (pathFilestatSetTimes fds m fd p len fst) := by
  unfold pathFilestatSetTimes
  split
  · rE_safe
  · exact pathOp_safe m fds fd p len

theorem pathSymlink_safe (m : Mem) (fds : Fds) (old oldLen fd new newLen : Nat) :
    AllSafe m (pathSymlink fds m old oldLen fd new newLen) := by
  unfold pathSymlink
  split_all
  all_goals first
    | rE_safe
    | exact pathOp_safe m fds _ _ _

/-! ### functions that write -/

theorem has_le (m : Mem) (off cnt : Nat) (ho : off < 4294967296) (hc : cnt < 4294967296)
    (hs : m.size < 9223372036854775808) (h : m.has off cnt = true) : off + cnt ≤ m.size :=
  (has_iff m off cnt ho hc hs).1 h

theorem bytesLE_length (n v : Nat) : (bytesLE n v).length = n := by simp [bytesLE]

theorem clip_le (m : Mem) (off len : Nat) : off + clip m off len ≤ m.size ∨ clip m off len = 0 := by
  unfold clip
  split
  · right; rfl
  · left; omega

/-- an alternative that only writes (table untouched, nothing allocated) -/
theorem safe_w (m : Mem) (e : Err) (ws : List Wr) (he : e ≠ Err.panic)
    (hw : ∀ w ∈ ws, w.len = 0 ∨ w.off + w.len ≤ m.size) : Safe m { err := e, writes := ws } :=
  { noPanic := he, inMem := hw, table := fun _ => rfl, alloc := Nat.zero_le _ }

theorem region_ok (m : Mem) (off cnt : Nat) (ho : off < 4294967296) (hc : cnt < 4294967296)
    (hs : m.size < 9223372036854775808) (h : m.has off cnt = true) :
    (Wr.region off cnt).len = 0 ∨ (Wr.region off cnt).off + (Wr.region off cnt).len ≤ m.size :=
  Or.inr (has_le m off cnt ho hc hs h)

theorem bytes_ok (m : Mem) (off : Nat) (bs : List Nat) (ho : off < 4294967296) (hc : bs.length < 4294967296)
    (hs : m.size < 9223372036854775808) (h : m.has off bs.length = true) :
    (Wr.bytes off bs).len = 0 ∨ (Wr.bytes off bs).off + (Wr.bytes off bs).len ≤ m.size :=
  Or.inr (has_le m off bs.length ho hc hs h)

theorem clip_ok (m : Mem) (off len : Nat) :
    (Wr.region off (clip m off len)).len = 0 ∨
      (Wr.region off (clip m off len)).off + (Wr.region off (clip m off len)).len ≤ m.size := by
  show clip m off len = 0 ∨ off + clip m off len ≤ m.size
  unfold clip
  split
  · left; rfl
  · right; omega

theorem pathFilestatGet_safe (m : Mem) (fds : Fds) (fd p len res : Nat) (hr : res < 4294967296)
    (hs : m.size < 9223372036854775808) : AllSafe m (pathFilestatGet fds m fd p len res) := by
  unfold pathFilestatGet
  split
  · rename_i e he
    exact allSafe_rE m e (atPath_ne_panic _ _ _ _ _ e he)
  · split
    · rename_i hh
      intro r hr'
      simp only [List.mem_cons, List.not_mem_nil, or_false] at hr'
      rcases hr' with rfl | rfl
      · refine safe_w m _ _ nofun ?_
        intro w hw
        simp only [List.mem_cons, List.not_mem_nil, or_false] at hw
        subst hw
        exact region_ok m res 64 hr (by decide) hs hh
      · exact safe_errOnly m _ nofun
    · rE_safe

theorem pathReadlink_safe (m : Mem) (fds : Fds) (fd p len buf bufLen res : Nat) (hr : res < 4294967296)
    (hs : m.size < 9223372036854775808) : AllSafe m (pathReadlink fds m fd p len buf bufLen res) := by
  unfold pathReadlink
  split
  · rE_safe
  · split
    · rename_i e he
      exact allSafe_rE m e (atPath_ne_panic _ _ _ _ _ e he)
    · dsimp only
      split
      · rename_i hh
        intro r hr'
        simp only [List.mem_cons, List.not_mem_nil, or_false] at hr'
        rcases hr' with rfl | rfl
        · exact safe_errOnly m _ nofun
        · refine safe_w m _ _ nofun ?_
          intro w hw
          simp only [List.mem_cons, List.not_mem_nil, or_false] at hw
          rcases hw with rfl | rfl
          · exact clip_ok m buf bufLen
          · exact region_ok m res 4 hr (by decide) hs hh
      · intro r hr'
        simp only [List.mem_cons, List.not_mem_nil, or_false] at hr'
        rcases hr' with rfl | rfl
        · exact safe_errOnly m _ nofun
        · refine safe_w m _ _ (by decide) ?_
          intro w hw
          simp only [List.mem_cons, List.not_mem_nil, or_false] at hw
          subst hw
          exact clip_ok m buf bufLen

theorem pathOpened_safe (m : Mem) (fds : Fds) (res : Nat) (k : Kind) (hr : res < 4294967296)
    (hs : m.size < 9223372036854775808) : AllSafe m (pathOpened fds m res k) := by
  unfold pathOpened
  split
  · intro r hr'; cases hr'
  · rename_i t newFd hins
    split
    · rename_i hh
      intro r hr'
      simp only [List.mem_cons, List.not_mem_nil, or_false] at hr'
      subst hr'
      refine ⟨nofun, ?_, fun h => absurd rfl h, ?_⟩
      · intro w hw
        simp only [List.mem_cons, List.not_mem_nil, or_false] at hw
        subst hw
        exact bytes_ok m res _ hr (by rw [bytesLE_length]; decide) hs (by rw [bytesLE_length]; exact hh)
      · show 8 * (slots t - slots fds) ≤ 512
        have h1 := slots_insert_le fds k
        unfold insertFd at hins
        rw [hins] at h1
        dsimp only at h1
        omega
    · intro r hr'; cases hr'

theorem pathOpen_safe (m : Mem) (fds : Fds) (fd p len oflags res : Nat) (hr : res < 4294967296)
    (hs : m.size < 9223372036854775808) : AllSafe m (pathOpen fds m fd p len oflags res) := by
  unfold pathOpen
  split
  · rename_i e he
    exact allSafe_rE m e (atPath_ne_panic _ _ _ _ _ e he)
  · split
    · rE_safe
    · dsimp only
      split
      · rE_safe
      · intro r hr'
        simp only [List.mem_cons, List.mem_append] at hr'
        rcases hr' with rfl | h | h
        · exact safe_errOnly m _ nofun
        · exact pathOpened_safe m fds res _ hr hs r h
        · split at h
          · cases h
          · exact pathOpened_safe m fds res _ hr hs r h

/-! ### sockets -/

/-- the memory holds bytes -/
def Bytes (m : Mem) : Prop := ∀ a, m.get a < 256

theorem le32_lt (m : Mem) (hb : Bytes m) (a : Nat) : le32 m a < 4294967296 := by
  unfold le32
  have h0 := hb a
  have h1 := hb (a + 1)
  have h2 := hb (a + 2)
  have h3 := hb (a + 3)
  omega

theorem optRegion_ok (m : Mem) (off cnt : Nat) (ho : off < 4294967296) (hc : cnt < 4294967296)
    (hs : m.size < 9223372036854775808) : ∀ w ∈ optRegion m off cnt, w.len = 0 ∨ w.off + w.len ≤ m.size := by
  intro w hw
  unfold optRegion at hw
  split at hw
  · rename_i hh
    simp only [List.mem_cons, List.not_mem_nil, or_false] at hw
    subst hw
    exact region_ok m off cnt ho hc hs hh
  · cases hw

theorem optBytes_ok (m : Mem) (off : Nat) (bs : List Nat) (ho : off < 4294967296) (hc : bs.length < 4294967296)
    (hs : m.size < 9223372036854775808) : ∀ w ∈ optBytes m off bs, w.len = 0 ∨ w.off + w.len ≤ m.size := by
  intro w hw
  unfold optBytes at hw
  split at hw
  · rename_i hh
    simp only [List.mem_cons, List.not_mem_nil, or_false] at hw
    subst hw
    exact bytes_ok m off bs ho hc hs hh
  · cases hw

theorem iovRegions_lt (m : Mem) (hb : Bytes m) (iovs : Nat) :
    ∀ (n i : Nat), ∀ r ∈ iovRegions m iovs n i, r.1 < 4294967296 ∧ r.2 < 4294967296 := by
  intro n
  induction n with
  | zero => intro i r hr; cases hr
  | succ n ih =>
    intro i r hr
    unfold iovRegions at hr
    split at hr
    · simp only [List.mem_cons] at hr
      rcases hr with rfl | h
      · exact ⟨le32_lt m hb _, le32_lt m hb _⟩
      · exact ih _ r h
    · cases hr

theorem iovWritable_ok (m : Mem) (hb : Bytes m) (iovs stop : Nat) (hs : m.size < 9223372036854775808) :
    ∀ w ∈ iovWritable m iovs stop, w.len = 0 ∨ w.off + w.len ≤ m.size := by
  intro w hw
  unfold iovWritable at hw
  simp only [List.mem_map, List.mem_filter] at hw
  obtain ⟨r, ⟨hr, hh⟩, rfl⟩ := hw
  have hlt := iovRegions_lt m hb iovs _ _ r hr
  exact region_ok m r.1 r.2 hlt.1 hlt.2 hs hh

theorem sockAccept_safe (m : Mem) (fds : Fds) (fd res : Nat) (hr : res < 4294967296)
    (hs : m.size < 9223372036854775808) : AllSafe m (sockAccept fds m fd res) := by
  unfold sockAccept
  split
  · intro r hr'
    simp only [List.mem_cons] at hr'
    rcases hr' with rfl | h
    · exact safe_errOnly m _ nofun
    · split at h
      · cases h
      · rename_i t newFd hins
        simp only [List.mem_cons, List.not_mem_nil, or_false] at h
        subst h
        refine ⟨nofun, ?_, fun h => absurd rfl h, ?_⟩
        · exact optBytes_ok m res _ hr (by rw [bytesLE_length]; decide) hs
        · show 8 * (slots t - slots fds) ≤ 512
          have h1 := slots_insert_le fds Kind.conn
          unfold insertFd at hins
          rw [hins] at h1
          dsimp only at h1
          omega
  · rE_safe

/-- `writev` with a writer of the host (`unknown`) stops at the first iovec; on an iovec array whose byte length is
a multiple of 8 the two `le.Uint32(iovsBuf[…:])` never fail their length check -/
theorem writev_unknown_ne_panic (m : Mem) (iovs stop fuel : Nat) (acc : List (Nat × Nat)) (nw : Nat)
    (h8 : stop % 8 = 0) : (writevLoop Writer.unknown m iovs stop (fuel + 1) 0 acc nw).2.2 ≠ some Err.panic := by
  unfold writevLoop
  split
  · nofun
  · have h4 : ¬ (0 + 4 > stop) := by omega
    have h5 : ¬ (w32 (0 + 4) > stop ∨ w32 (0 + 4) + 4 > stop) := by unfold w32; omega
    simp only [h4, h5, if_false]
    split
    · simp [efault]
    · simp

theorem sockSend_safe (m : Mem) (fds : Fds) (fd iovs cnt fl res : Nat) (hr : res < 4294967296)
    (hs : m.size < 9223372036854775808) : AllSafe m (sockSend fds m fd iovs cnt fl res) := by
  unfold sockSend
  split
  · rE_safe
  · split
    · dsimp only
      split
      · rE_safe
      · have h8 : w32 (cnt * 8) % 8 = 0 := by unfold w32; omega
        have hx := writev_unknown_ne_panic m iovs (w32 (cnt * 8)) (w32 (cnt * 8) / 8) [] 0 h8
        generalize writevLoop Writer.unknown m iovs (w32 (cnt * 8)) (w32 (cnt * 8) / 8 + 1) 0 [] 0 = x at hx
        split
        · intro r hr'
          simp only [List.mem_cons, List.not_mem_nil, or_false] at hr'
          subst hr'
          exact safe_w m _ _ nofun (optRegion_ok m res 4 hr (by decide) hs)
        · rename_i e _
          refine allSafe_rE m e ?_
          intro he
          subst he
          exact hx rfl
        · intro r hr'
          simp only [List.mem_cons, List.not_mem_nil, or_false] at hr'
          subst hr'
          exact safe_w m _ _ nofun (optBytes_ok m res _ hr (by rw [bytesLE_length]; decide) hs)
    · rE_safe

theorem peek_zero_leaf (m : Mem) (res ro : Nat) (hr : res < 4294967296) (hro : ro < 4294967296)
    (hs : m.size < 9223372036854775808) :
    AllSafe m [{ err := Err.errno 0, writes := optBytes m res (bytesLE 4 0) ++ optBytes m ro [0, 0] }] := by
  intro r hr'
  simp only [List.mem_cons, List.not_mem_nil, or_false] at hr'
  subst hr'
  refine safe_w m _ _ nofun ?_
  intro w hw
  simp only [List.mem_append] at hw
  rcases hw with hw | hw
  · exact optBytes_ok m res _ hr (by rw [bytesLE_length]; decide) hs w hw
  · exact optBytes_ok m ro _ hro (by decide) hs w hw

theorem peek_leaf (m : Mem) (addr l res ro : Nat) (ha : addr < 4294967296) (hl : l < 4294967296)
    (hr : res < 4294967296) (hro : ro < 4294967296) (hs : m.size < 9223372036854775808)
    (hh : ¬ (!m.has addr l) = true) :
    AllSafe m [{ err := Err.nz }, { err := Err.errno 0, writes := ([Wr.region addr l] ++ optRegion m res 4 ++
           optBytes m ro [0, 0]) }] := by
  intro r hr'
  simp only [List.mem_cons, List.not_mem_nil, or_false] at hr'
  rcases hr' with rfl | rfl
  · exact safe_errOnly m _ nofun
  · refine safe_w m _ _ nofun ?_
    intro w hw
    simp only [List.mem_append, List.mem_cons, List.not_mem_nil, or_false] at hw
    rcases hw with (rfl | hw) | hw
    · exact region_ok m _ _ ha hl hs (by simpa using hh)
    · exact optRegion_ok m res 4 hr (by decide) hs w hw
    · exact optBytes_ok m ro _ hro (by decide) hs w hw

theorem readv_leaf (m : Mem) (hb : Bytes m) (iovs stop res ro : Nat)
    (hr : res < 4294967296) (hro : ro < 4294967296) (hs : m.size < 9223372036854775808) :
    AllSafe m [{ err := Err.any, writes := iovWritable m iovs stop ++ optRegion m res 4 ++ optRegion m ro 2 }] := by
  intro r hr'
  simp only [List.mem_cons, List.not_mem_nil, or_false] at hr'
  subst hr'
  refine safe_w m _ _ nofun ?_
  intro w hw
  simp only [List.mem_append] at hw
  rcases hw with (hw | hw) | hw
  · exact iovWritable_ok m hb iovs _ hs w hw
  · exact optRegion_ok m res 4 hr (by decide) hs w hw
  · exact optRegion_ok m ro 2 hro (by decide) hs w hw

theorem whole_leaf (m : Mem) : AllSafe m [{ err := Err.any, writes := [Wr.region 0 m.size] }] := by
  intro r hr'
  simp only [List.mem_cons, List.not_mem_nil, or_false] at hr'
  subst hr'
  refine safe_w m _ _ nofun ?_
  intro w hw
  simp only [List.mem_cons, List.not_mem_nil, or_false] at hw
  subst hw
  right
  show 0 + m.size ≤ m.size
  omega

theorem sockRecv_safe (fixed fixedRead : Bool) (m : Mem) (hb : Bytes m) (fds : Fds) (fd iovs cnt fl res ro : Nat)
    (hr : res < 4294967296) (hro : ro < 4294967296) (hs : m.size < 9223372036854775808) :
    AllSafe m (sockRecv fixed fixedRead fds m fd iovs cnt fl res ro) := by
  unfold sockRecv
  split_all
  all_goals first
    | rE_safe
    | exact whole_leaf m
    | exact peek_zero_leaf m res ro hr hro hs
    | exact readv_leaf m hb iovs _ res ro hr hro hs
    | exact peek_leaf m _ _ res ro (le32_lt m hb _) (le32_lt m hb _) hr hro hs (by assumption)

/-! ### fd_readdir -/

/-- the host's file names are shorter than 4 GiB - 48 (else `maxDirents` panics with "invalid filename: too large",
which no guest argument can cause) -/
def HostNamesOk (h : Host) : Prop := ∀ n ∈ h.preEntries ++ h.dirEntries, n < 4294967248

theorem listing_ok (h : Host) (hh : HostNamesOk h) (k : Kind) : ∀ n ∈ listing h k, n < 4294967248 := by
  intro n hn
  unfold listing at hn
  split at hn
  all_goals
    simp only [List.mem_cons] at hn
    rcases hn with rfl | rfl | hn
    · decide
    · decide
    · exact hh n (by simp [hn])

theorem exact_ok (m : Mem) (buf B dNext : Nat) (ents : List (List Nat × Nat)) (C T : Nat)
    (hreg : buf + B ≤ m.size) : ∀ w ∈ exactDirents buf B dNext ents C T, w.len = 0 ∨ w.off + w.len ≤ m.size := by
  intro w hw
  unfold exactDirents at hw
  simp only [List.mem_filter, Bool.and_eq_true, decide_eq_true_eq] at hw
  right
  omega

theorem rd_writes_ok (m : Mem) (buf B res v dNext : Nat) (names : List Nat) (ents : List (List Nat × Nat)) (C T : Nat)
    (hb : buf < 4294967296) (hB : B < 4294967296) (hr : res < 4294967296)
    (hs : m.size < 9223372036854775808) (h1 : ¬ (!m.has buf B) = true) :
    (∀ w ∈ Wr.region buf B :: (if ents.map (fun e => e.1.length) = names then exactDirents buf B dNext ents C T else []),
        w.len = 0 ∨ w.off + w.len ≤ m.size) ∧
    (¬ (!m.has res 4) = true →
      ∀ w ∈ Wr.region buf B :: ((if ents.map (fun e => e.1.length) = names then exactDirents buf B dNext ents C T else []) ++
          [Wr.bytes res (bytesLE 4 v)]), w.len = 0 ∨ w.off + w.len ≤ m.size) := by
  have hreg : buf + B ≤ m.size := has_le m buf B hb hB hs (by simpa using h1)
  have hex : ∀ w ∈ (if ents.map (fun e => e.1.length) = names then exactDirents buf B dNext ents C T else []),
      w.len = 0 ∨ w.off + w.len ≤ m.size := by
    intro w hw
    split at hw
    · exact exact_ok m buf B dNext ents C T hreg w hw
    · cases hw
  constructor
  · intro w hw
    simp only [List.mem_cons] at hw
    rcases hw with rfl | hw
    · exact Or.inr hreg
    · exact hex w hw
  · intro h2 w hw
    simp only [List.mem_cons, List.mem_append, List.not_mem_nil, or_false] at hw
    rcases hw with rfl | hw | rfl
    · exact Or.inr hreg
    · exact hex w hw
    · exact bytes_ok m res _ hr (by rw [bytesLE_length]; decide) hs (by rw [bytesLE_length]; simpa using h2)

theorem rd_leaf3 (m : Mem) (res v : Nat) (hr : res < 4294967296)
    (hs : m.size < 9223372036854775808) (h2 : ¬ (!m.has res 4) = true) :
    AllSafe m [{ err := Err.errno 0, writes := [Wr.bytes res (bytesLE 4 v)] }] := by
  intro r hr'
  simp only [List.mem_cons, List.not_mem_nil, or_false] at hr'
  subst hr'
  refine safe_w m _ _ nofun ?_
  intro w hw'
  simp only [List.mem_cons, List.not_mem_nil, or_false] at hw'
  subst hw'
  exact bytes_ok m res _ hr (by rw [bytesLE_length]; decide) hs (by rw [bytesLE_length]; simpa using h2)

theorem allSafe_single (m : Mem) (e : Err) (ws : List Wr) (he : e ≠ Err.panic)
    (hw : ∀ w ∈ ws, w.len = 0 ∨ w.off + w.len ≤ m.size) : AllSafe m [{ err := e, writes := ws }] := by
  intro r hr'
  simp only [List.mem_cons, List.not_mem_nil, or_false] at hr'
  subst hr'
  exact safe_w m _ _ he hw

theorem readdirEmit_safe (m : Mem) (buf bufLen res : Nat) (names : List Nat) (ents : List (List Nat × Nat)) (dNext : Nat)
    (hn : ∀ n ∈ names, n < 4294967248)
    (hb : buf < 4294967296) (hl : bufLen < 4294967296) (hr : res < 4294967296)
    (hs : m.size < 9223372036854775808) : AllSafe m (readdirEmit m buf bufLen res names ents dNext) := by
  unfold readdirEmit
  split
  · rename_i hnone
    exact absurd hnone (maxDirents_some names bufLen 0 0 hn)
  · rename_i B C T hsome
    obtain ⟨hw, hB⟩ := writeDirents_some names bufLen B C T hn hl hsome
    have hB' : B < 4294967296 := by omega
    dsimp only
    by_cases hpos : B > 0
    · simp only [hpos, if_true]
      by_cases hbuf : (!m.has buf B) = true
      · rw [if_pos hbuf]
        rE_safe
      · rw [if_neg hbuf]
        cases hwd : writeDirents B names C T with
        | none => exact absurd hwd hw
        | some v =>
          dsimp only
          by_cases hres4 : (!m.has res 4) = true
          · rw [if_pos hres4]
            exact allSafe_single m _ _ (by decide) (rd_writes_ok m buf B res 0 dNext names ents C T hb hB' hr hs hbuf).1
          · rw [if_neg hres4]
            exact allSafe_single m _ _ nofun ((rd_writes_ok m buf B res _ dNext names ents C T hb hB' hr hs hbuf).2 hres4)
    · simp only [hpos, if_false]
      by_cases hres4 : (!m.has res 4) = true
      · rw [if_pos hres4]
        rE_safe
      · rw [if_neg hres4]
        exact rd_leaf3 m res _ hr hs hres4

theorem fdReaddir_safe (h : Host) (hh : HostNamesOk h) (m : Mem) (fds : Fds) (fd buf bufLen cookie res : Nat)
    (hb : buf < 4294967296) (hl : bufLen < 4294967296) (hr : res < 4294967296)
    (hs : m.size < 9223372036854775808) : AllSafe m (fdReaddir h fds m fd buf bufLen cookie res) := by
  unfold fdReaddir
  split
  · rE_safe
  · split
    · rE_safe
    · rename_i k _
      split
      · rE_safe
      · split
        · rE_safe
        · dsimp only
          refine readdirEmit_safe m buf bufLen res _ _ _ ?_ hb hl hr hs
          intro n hn
          exact listing_ok h hh k n (List.mem_of_mem_drop (List.mem_of_mem_take hn))

end Wz.C15
