/- C03 — lemmas about the LEB128 model (core Lean only). -/
import Wz.Model.Leb128
namespace Wz.C03.Leb
open Wz.Model.Leb128

/-! ## bounds: a successful decode consumed between 1 and 5/10 bytes, all of them inside the input -/

theorem u32Loop_bounds : ∀ (k i acc : Nat) (bs : List Byte) (v n : Nat),
    u32Loop k i acc bs = .ok (v, n) → i < n ∧ n ≤ i + k ∧ n ≤ i + bs.length ∧ v < 2 ^ 32 := by
  intro k
  induction k with
  | zero => intro i acc bs v n h; simp [u32Loop] at h
  | succ k ih =>
    intro i acc bs v n h
    cases bs with
    | nil => simp [u32Loop] at h
    | cons b rest =>
      simp only [u32Loop] at h
      split at h
      · split at h
        · simp at h
        · simp only [Except.ok.injEq, Prod.mk.injEq] at h
          obtain ⟨hv, hn⟩ := h
          subst hv; subst hn
          refine ⟨by omega, by omega, by simp, ?_⟩
          exact Nat.mod_lt _ (by decide)
      · have := ih (i + 1) _ rest v n h
        simp only [List.length_cons]
        omega

theorem u64Loop_bounds : ∀ (k i acc : Nat) (bs : List Byte) (v n : Nat),
    u64Loop k i acc bs = .ok (v, n) → i < n ∧ n ≤ i + k ∧ n ≤ i + bs.length ∧ v < 2 ^ 64 := by
  intro k
  induction k with
  | zero => intro i acc bs v n h; simp [u64Loop] at h
  | succ k ih =>
    intro i acc bs v n h
    cases bs with
    | nil => simp [u64Loop] at h
    | cons b rest =>
      simp only [u64Loop] at h
      split at h
      · split at h
        · simp at h
        · simp only [Except.ok.injEq, Prod.mk.injEq] at h
          obtain ⟨hv, hn⟩ := h
          subst hv; subst hn
          refine ⟨by omega, by omega, by simp, ?_⟩
          exact Nat.mod_lt _ (by decide)
      · have := ih (i + 1) _ rest v n h
        simp only [List.length_cons]
        omega

theorem wrapS_range (w n : Nat) (hw : 0 < w) : -(2 ^ (w - 1) : Nat) ≤ wrapS w n ∧ wrapS w n < (2 ^ (w - 1) : Nat) := by
  unfold wrapS
  have h2 : 2 ^ w = 2 * 2 ^ (w - 1) := by
    cases w with
    | zero => omega
    | succ w => simp [Nat.pow_succ, Nat.mul_comm]
  have hlt : n % 2 ^ w < 2 ^ w := Nat.mod_lt _ (Nat.two_pow_pos w)
  split <;> omega

theorem i32Final_ok {n : Nat} {ret : Int} {b : Byte} {v : Int} {m : Nat}
    (h : i32Final n ret b = .ok (v, m)) : v = ret ∧ m = n ∧ n ≤ 5 := by
  unfold i32Final at h
  split at h
  · simp at h
  · split at h
    · simp at h
    · split at h
      · simp at h
      · simp only [Except.ok.injEq, Prod.mk.injEq] at h
        omega

theorem i64Final_ok {n : Nat} {ret : Int} {b : Byte} {v : Int} {m : Nat}
    (h : i64Final n ret b = .ok (v, m)) : v = ret ∧ m = n ∧ n ≤ 10 := by
  unfold i64Final at h
  split at h
  · simp at h
  · split at h
    · simp at h
    · split at h
      · simp at h
      · simp only [Except.ok.injEq, Prod.mk.injEq] at h
        omega

theorem i33Final_ok {n : Nat} {ret : Int} {b : Byte} {v : Int} {m : Nat}
    (h : i33Final n ret b = .ok (v, m)) : v = ret ∧ m = n ∧ n ≤ 5 := by
  unfold i33Final at h
  split at h
  · simp at h
  · split at h
    · simp at h
    · split at h
      · simp at h
      · simp only [Except.ok.injEq, Prod.mk.injEq] at h
        omega

theorem i32Ret_range (shift acc : Nat) (b : Byte) : -(2 ^ 31 : Int) ≤ i32Ret shift acc b ∧ i32Ret shift acc b < 2 ^ 31 := by
  unfold i32Ret
  have := wrapS_range 32 (if shift < 32 ∧ b &&& 64#8 ≠ 0#8 then (acc + (2 ^ 32 - 2 ^ shift)) % 2 ^ 32 else acc) (by decide)
  simp at this ⊢
  omega

theorem i64Ret_range (shift acc : Nat) (b : Byte) : -(2 ^ 63 : Int) ≤ i64Ret shift acc b ∧ i64Ret shift acc b < 2 ^ 63 := by
  unfold i64Ret
  have := wrapS_range 64 (if shift < 64 ∧ b &&& 64#8 = 64#8 then (acc + (2 ^ 64 - 2 ^ shift)) % 2 ^ 64 else acc) (by decide)
  simp at this ⊢
  omega

theorem i33Ret_range (shift acc : Nat) (b : Byte) : -(2 ^ 32 : Int) ≤ i33Ret shift acc b ∧ i33Ret shift acc b < 2 ^ 32 := by
  unfold i33Ret
  simp only []
  split <;> split <;> omega

theorem i32Loop_bounds : ∀ (bs : List Byte) (n acc : Nat) (v : Int) (m : Nat),
    i32Loop n acc bs = .ok (v, m) → n < m ∧ m ≤ 5 ∧ m ≤ n + bs.length ∧ -(2 ^ 31 : Int) ≤ v ∧ v < 2 ^ 31 := by
  intro bs
  induction bs with
  | nil => intro n acc v m h; simp [i32Loop] at h
  | cons b rest ih =>
    intro n acc v m h
    simp only [i32Loop] at h
    split at h
    · obtain ⟨hv, hm, hn⟩ := i32Final_ok h
      have := i32Ret_range (7 * n + 7) ((acc + (b &&& 127#8).toNat * 2 ^ (7 * n)) % 2 ^ 32) b
      simp only [List.length_cons]
      subst hv
      omega
    · have := ih (n + 1) _ v m h
      simp only [List.length_cons]
      omega

theorem i64Loop_bounds : ∀ (bs : List Byte) (n acc : Nat) (v : Int) (m : Nat),
    i64Loop n acc bs = .ok (v, m) → n < m ∧ m ≤ 10 ∧ m ≤ n + bs.length ∧ -(2 ^ 63 : Int) ≤ v ∧ v < 2 ^ 63 := by
  intro bs
  induction bs with
  | nil => intro n acc v m h; simp [i64Loop] at h
  | cons b rest ih =>
    intro n acc v m h
    simp only [i64Loop] at h
    split at h
    · obtain ⟨hv, hm, hn⟩ := i64Final_ok h
      have := i64Ret_range (7 * n + 7) ((acc + (b &&& 127#8).toNat * 2 ^ (7 * n)) % 2 ^ 64) b
      simp only [List.length_cons]
      subst hv
      omega
    · have := ih (n + 1) _ v m h
      simp only [List.length_cons]
      omega

theorem i33Loop_bounds : ∀ (k n acc : Nat) (b0 : Byte) (bs : List Byte) (a m : Nat) (b : Byte),
    i33Loop k n acc b0 bs = .ok (a, m, b) → n ≤ m ∧ m ≤ n + k ∧ m ≤ n + bs.length ∧ (0 < k → n < m) := by
  intro k
  induction k with
  | zero => intro n acc b0 bs a m b h; simp [i33Loop] at h; omega
  | succ k ih =>
    intro n acc b0 bs a m b h
    cases bs with
    | nil => simp [i33Loop] at h
    | cons c rest =>
      simp only [i33Loop] at h
      split at h
      · simp only [Except.ok.injEq, Prod.mk.injEq] at h
        simp only [List.length_cons]; omega
      · have := ih (n + 1) _ c rest a m b h
        simp only [List.length_cons]; omega

/-! ## facts about the masks, checked for all 256 byte values by kernel evaluation -/

theorem byte_forall (P : Byte → Prop) (h : ∀ n : Fin 256, P (BitVec.ofFin n)) : ∀ b : Byte, P b := by
  intro b
  have := h b.toFin
  simpa using this

set_option maxRecDepth 100000 in
theorem mask7f : ∀ b : Byte, (b &&& 0x7f#8).toNat = b.toNat % 128 := by
  apply byte_forall; decide

set_option maxRecDepth 100000 in
theorem mask80 : ∀ b : Byte, (b &&& 0x80#8 = 0#8) ↔ b.toNat < 128 := by
  apply byte_forall; decide

set_option maxRecDepth 100000 in
theorem maskf0 : ∀ b : Byte, (b &&& 0xf0#8 = 0#8) ↔ b.toNat % 256 / 16 = 0 := by
  apply byte_forall; decide

set_option maxRecDepth 100000 in
theorem mask40 : ∀ b : Byte, (b &&& 0x40#8 = 0#8) ↔ b.toNat / 64 % 2 = 0 := by
  apply byte_forall; decide

set_option maxRecDepth 100000 in
theorem mask40' : ∀ b : Byte, (b &&& 0x40#8 = 0x40#8) ↔ b.toNat / 64 % 2 = 1 := by
  apply byte_forall; decide

set_option maxRecDepth 100000 in
theorem mask30 : ∀ b : Byte, ((b &&& 0x30#8 = 0x30#8) ↔ b.toNat / 16 % 4 = 3) ∧ ((b &&& 0x30#8 = 0#8) ↔ b.toNat / 16 % 4 = 0) := by
  apply byte_forall; decide

set_option maxRecDepth 100000 in
theorem mask3e : ∀ b : Byte, ((b &&& 0x3e#8 = 0x3e#8) ↔ b.toNat / 2 % 32 = 31) ∧ ((b &&& 0x3e#8 = 0#8) ↔ b.toNat / 2 % 32 = 0) := by
  apply byte_forall; decide

set_option maxRecDepth 100000 in
theorem mask20 : ∀ b : Byte, ((b &&& 0x20#8 = 0x20#8) ↔ b.toNat / 32 % 2 = 1) ∧ ((b &&& 0x20#8 = 0#8) ↔ b.toNat / 32 % 2 = 0) := by
  apply byte_forall; decide

theorem ofNat_toNat_lt (n : Nat) (h : n < 256) : (BitVec.ofNat 8 n).toNat = n := by
  simp [BitVec.toNat_ofNat]; omega

/-! ## encoders -/

theorem encU_small {v : Nat} (h : v < 128) : encU v = [BitVec.ofNat 8 v] := by
  rw [encU]; simp [h]

theorem encU_big {v : Nat} (h : ¬ v < 128) : encU v = BitVec.ofNat 8 (v % 128 + 128) :: encU (v / 128) := by
  rw [encU]; simp [h]

theorem encU_length_pos (v : Nat) : 0 < (encU v).length := by
  by_cases h : v < 128
  · simp [encU_small h]
  · simp [encU_big h]

/-! ## round trip, unsigned 32 -/

theorem u32_roundtrip_gen : ∀ (k i : Nat), i + k = 5 → ∀ (v acc : Nat) (sfx : List Byte),
    v < 2 ^ (32 - 7 * i) → acc < 2 ^ (7 * i) → 0 < k →
    u32Loop k i acc (encU v ++ sfx) = .ok (acc + v * 2 ^ (7 * i), i + (encU v).length) := by
  intro k
  induction k with
  | zero => intro i _ v acc sfx _ _ hk; omega
  | succ k ih =>
    intro i hik v acc sfx hv hacc _
    have hi : i = 0 ∨ i = 1 ∨ i = 2 ∨ i = 3 ∨ i = 4 := by omega
    by_cases hs : v < 128
    · rw [encU_small hs]
      simp only [List.cons_append, List.nil_append, u32Loop, List.length_cons, List.length_nil]
      have hb : (BitVec.ofNat 8 v).toNat = v := ofNat_toNat_lt v (by omega)
      rw [hb]
      simp only [show v < 128 from hs, if_true]
      have hf0 := (maskf0 (BitVec.ofNat 8 v))
      rw [hb] at hf0
      rcases hi with rfl | rfl | rfl | rfl | rfl <;> simp at hv hacc ⊢ <;>
        first
        | (refine ⟨?_, ?_⟩ <;> omega)
        | (have : BitVec.ofNat 8 v &&& 240#8 = 0#8 := hf0.mpr (by omega)
           simp [this]; omega)
        | omega
    · rw [encU_big hs]
      have hb : (BitVec.ofNat 8 (v % 128 + 128)).toNat = v % 128 + 128 := ofNat_toNat_lt _ (by omega)
      simp only [List.cons_append, u32Loop, hb, List.length_cons]
      have hge : ¬ (v % 128 + 128 < 128) := by omega
      simp only [hge, if_false]
      have hm : (BitVec.ofNat 8 (v % 128 + 128) &&& 127#8).toNat = v % 128 := by
        rw [mask7f, hb]; omega
      rw [hm]
      have hk : 0 < k := by
        rcases hi with rfl | rfl | rfl | rfl | rfl <;> simp at hv <;> omega
      have hi' : i = 0 ∨ i = 1 ∨ i = 2 ∨ i = 3 := by omega
      rcases hi' with rfl | rfl | rfl | rfl <;> simp at hv hacc ⊢
      all_goals
        rw [Nat.mod_eq_of_lt (by omega)]
        rw [ih _ (by omega) (v / 128) _ sfx (by simp; omega) (by simp; omega) hk]
        simp
        omega

theorem u32_roundtrip (v : Nat) (hv : v < 2 ^ 32) (sfx : List Byte) :
    decodeUint32 (encU v ++ sfx) = .ok (v, (encU v).length) := by
  have := u32_roundtrip_gen 5 0 rfl v 0 sfx (by simpa using hv) (by simp) (by omega)
  simpa [decodeUint32] using this

/-! ## round trip, unsigned 64 -/

theorem u64_roundtrip_gen : ∀ (k i : Nat), i + k = 10 → ∀ (v acc : Nat) (sfx : List Byte),
    v < 2 ^ (64 - 7 * i) → acc < 2 ^ (7 * i) → 0 < k →
    u64Loop k i acc (encU v ++ sfx) = .ok (acc + v * 2 ^ (7 * i), i + (encU v).length) := by
  intro k
  induction k with
  | zero => intro i _ v acc sfx _ _ hk; omega
  | succ k ih =>
    intro i hik v acc sfx hv hacc _
    have hi : i = 0 ∨ i = 1 ∨ i = 2 ∨ i = 3 ∨ i = 4 ∨ i = 5 ∨ i = 6 ∨ i = 7 ∨ i = 8 ∨ i = 9 := by omega
    by_cases hs : v < 128
    · rw [encU_small hs]
      simp only [List.cons_append, List.nil_append, u64Loop, List.length_cons, List.length_nil]
      have hb : (BitVec.ofNat 8 v).toNat = v := ofNat_toNat_lt v (by omega)
      rw [hb]
      simp only [show v < 128 from hs, if_true]
      rcases hi with rfl | rfl | rfl | rfl | rfl | rfl | rfl | rfl | rfl | rfl <;> simp at hv hacc ⊢ <;>
        first
        | (refine ⟨?_, ?_⟩ <;> omega)
        | omega
        | (have h1 : ¬ 1 < v := by omega
           simp only [h1, if_false, Except.ok.injEq, Prod.mk.injEq, and_true]; omega)
    · rw [encU_big hs]
      have hb : (BitVec.ofNat 8 (v % 128 + 128)).toNat = v % 128 + 128 := ofNat_toNat_lt _ (by omega)
      simp only [List.cons_append, u64Loop, hb, List.length_cons]
      have hge : ¬ (v % 128 + 128 < 128) := by omega
      simp only [hge, if_false]
      have hm : (BitVec.ofNat 8 (v % 128 + 128) &&& 127#8).toNat = v % 128 := by
        rw [mask7f, hb]; omega
      rw [hm]
      have hk : 0 < k := by
        rcases hi with rfl | rfl | rfl | rfl | rfl | rfl | rfl | rfl | rfl | rfl <;> simp at hv <;> omega
      have hi' : i = 0 ∨ i = 1 ∨ i = 2 ∨ i = 3 ∨ i = 4 ∨ i = 5 ∨ i = 6 ∨ i = 7 ∨ i = 8 := by omega
      rcases hi' with rfl | rfl | rfl | rfl | rfl | rfl | rfl | rfl | rfl <;> simp at hv hacc ⊢
      all_goals
        rw [Nat.mod_eq_of_lt (by omega)]
        rw [ih _ (by omega) (v / 128) _ sfx (by simp; omega) (by simp; omega) hk]
        simp
        omega

theorem u64_roundtrip (v : Nat) (hv : v < 2 ^ 64) (sfx : List Byte) :
    loadUint64 (encU v ++ sfx) = .ok (v, (encU v).length) := by
  have := u64_roundtrip_gen 10 0 rfl v 0 sfx (by simpa using hv) (by simp) (by omega)
  simpa [loadUint64] using this

/-! ## signed encoder -/

theorem encS_small {v : Int} (h1 : -64 ≤ v) (h2 : v < 64) : encS v = [BitVec.ofNat 8 (v % 128).toNat] := by
  rw [encS]
  split
  · omega
  · rfl

theorem encS_big {v : Int} (h : v < -64 ∨ 64 ≤ v) :
    encS v = BitVec.ofNat 8 ((v % 128).toNat + 128) :: encS (v / 128) := by
  rw [encS]
  split
  · rfl
  · omega

theorem encS_length_pos (v : Int) : 0 < (encS v).length := by
  by_cases h : v < -64 ∨ 64 ≤ v
  · simp [encS_big h]
  · rw [encS_small (by omega) (by omega)]; simp

/-! ## round trip, signed 32 -/

theorem i32_small_step (n : Nat) (hn : n ≤ 4) (v : Int) (acc : Nat)
    (h1 : -64 ≤ v) (h2 : v < 64) (hlo : -(2 ^ (31 - 7 * n) : Int) ≤ v) (hhi : v < 2 ^ (31 - 7 * n))
    (hacc : acc < 2 ^ (7 * n)) :
    i32Final (n + 1) (i32Ret (7 * n + 7) ((acc + (v % 128).toNat % 128 * 2 ^ (7 * n)) % 2 ^ 32)
      (BitVec.ofNat 8 (v % 128).toNat)) (BitVec.ofNat 8 (v % 128).toNat)
      = .ok ((acc : Int) + v * 2 ^ (7 * n), n + 1) := by
  have hbn : (BitVec.ofNat 8 (v % 128).toNat).toNat = (v % 128).toNat := ofNat_toNat_lt _ (by omega)
  have m40 := mask40 (BitVec.ofNat 8 (v % 128).toNat)
  have m30 := mask30 (BitVec.ofNat 8 (v % 128).toNat)
  rw [hbn] at m40 m30
  have hret : i32Ret (7 * n + 7) ((acc + (v % 128).toNat % 128 * 2 ^ (7 * n)) % 2 ^ 32)
      (BitVec.ofNat 8 (v % 128).toNat) = (acc : Int) + v * 2 ^ (7 * n) := by
    unfold i32Ret wrapS
    have hn' : n = 0 ∨ n = 1 ∨ n = 2 ∨ n = 3 ∨ n = 4 := by omega
    by_cases hneg : v < 0
    · have hs : ¬ (BitVec.ofNat 8 (v % 128).toNat &&& 64#8 = 0#8) := by rw [m40]; omega
      rcases hn' with rfl | rfl | rfl | rfl | rfl <;> simp [hs] at hlo hhi hacc ⊢ <;> (split <;> omega)
    · have hs : (BitVec.ofNat 8 (v % 128).toNat &&& 64#8 = 0#8) := by rw [m40]; omega
      rcases hn' with rfl | rfl | rfl | rfl | rfl <;> simp [hs] at hlo hhi hacc ⊢ <;> (split <;> omega)
  rw [hret]
  unfold i32Final
  have hn' : n = 0 ∨ n = 1 ∨ n = 2 ∨ n = 3 ∨ n = 4 := by omega
  rcases hn' with rfl | rfl | rfl | rfl | rfl
  · simp
  · simp
  · simp
  · simp
  · simp at hlo hhi hacc ⊢
    by_cases hneg : v < 0
    · have : BitVec.ofNat 8 (v % 128).toNat &&& 48#8 = 48#8 := by rw [m30.1]; omega
      simp [this]; omega
    · have : BitVec.ofNat 8 (v % 128).toNat &&& 48#8 = 0#8 := by rw [m30.2]; omega
      simp [this]; omega

theorem i32_roundtrip_gen : ∀ (k n : Nat), n + k = 5 → 0 < k → ∀ (v : Int) (acc : Nat) (sfx : List Byte),
    -(2 ^ (31 - 7 * n) : Int) ≤ v → v < 2 ^ (31 - 7 * n) → acc < 2 ^ (7 * n) →
    i32Loop n acc (encS v ++ sfx) = .ok ((acc : Int) + v * 2 ^ (7 * n), n + (encS v).length) := by
  intro k
  induction k with
  | zero => intro n _ hk; omega
  | succ k ih =>
    intro n hnk _ v acc sfx hlo hhi hacc
    have hn : n ≤ 4 := by omega
    by_cases hs : v < -64 ∨ 64 ≤ v
    · rw [encS_big hs]
      have hb : (BitVec.ofNat 8 ((v % 128).toNat + 128)).toNat = (v % 128).toNat + 128 := ofNat_toNat_lt _ (by omega)
      have h80 : ¬ (BitVec.ofNat 8 ((v % 128).toNat + 128) &&& 128#8 = 0#8) := by rw [mask80, hb]; omega
      have hm : (BitVec.ofNat 8 ((v % 128).toNat + 128) &&& 127#8).toNat = (v % 128).toNat := by
        rw [mask7f, hb]; omega
      simp only [List.cons_append, i32Loop, h80, if_false, hm, List.length_cons]
      have hn' : n = 0 ∨ n = 1 ∨ n = 2 ∨ n = 3 ∨ n = 4 := by omega
      have hk : 0 < k := by
        rcases hn' with rfl | rfl | rfl | rfl | rfl <;> simp at hlo hhi <;> omega
      have hn'' : n = 0 ∨ n = 1 ∨ n = 2 ∨ n = 3 := by omega
      rcases hn'' with rfl | rfl | rfl | rfl <;> simp at hlo hhi hacc ⊢
      all_goals
        rw [Nat.mod_eq_of_lt (by omega)]
        rw [ih _ (by omega) hk (v / 128) _ sfx (by simp; omega) (by simp; omega) (by simp; omega)]
        simp
        omega
    · have h1 : -64 ≤ v := by omega
      have h2 : v < 64 := by omega
      rw [encS_small h1 h2]
      have hbn : (BitVec.ofNat 8 (v % 128).toNat).toNat = (v % 128).toNat := ofNat_toNat_lt _ (by omega)
      have h80 : (BitVec.ofNat 8 (v % 128).toNat &&& 128#8 = 0#8) := by rw [mask80, hbn]; omega
      have hm : (BitVec.ofNat 8 (v % 128).toNat &&& 127#8).toNat = (v % 128).toNat % 128 := by
        rw [mask7f, hbn]
      simp only [List.cons_append, List.nil_append, i32Loop, h80, if_true, hm, List.length_cons, List.length_nil]
      exact i32_small_step n hn v acc h1 h2 hlo hhi hacc

theorem i32_roundtrip (v : Int) (hlo : -(2 ^ 31 : Int) ≤ v) (hhi : v < 2 ^ 31) (sfx : List Byte) :
    decodeInt32 (encS v ++ sfx) = .ok (v, (encS v).length) := by
  have := i32_roundtrip_gen 5 0 rfl (by omega) v 0 sfx (by simpa using hlo) (by simpa using hhi) (by simp)
  simpa [decodeInt32] using this

/-! ## round trip, signed 64 -/

theorem i64_small_step (n : Nat) (hn : n ≤ 9) (v : Int) (acc : Nat)
    (h1 : -64 ≤ v) (h2 : v < 64) (hlo : -(2 ^ (63 - 7 * n) : Int) ≤ v) (hhi : v < 2 ^ (63 - 7 * n))
    (hacc : acc < 2 ^ (7 * n)) :
    i64Final (n + 1) (i64Ret (7 * n + 7) ((acc + (v % 128).toNat % 128 * 2 ^ (7 * n)) % 2 ^ 64)
      (BitVec.ofNat 8 (v % 128).toNat)) (BitVec.ofNat 8 (v % 128).toNat)
      = .ok ((acc : Int) + v * 2 ^ (7 * n), n + 1) := by
  have hbn : (BitVec.ofNat 8 (v % 128).toNat).toNat = (v % 128).toNat := ofNat_toNat_lt _ (by omega)
  have m40 := mask40' (BitVec.ofNat 8 (v % 128).toNat)
  have m3e := mask3e (BitVec.ofNat 8 (v % 128).toNat)
  rw [hbn] at m40 m3e
  have hret : i64Ret (7 * n + 7) ((acc + (v % 128).toNat % 128 * 2 ^ (7 * n)) % 2 ^ 64)
      (BitVec.ofNat 8 (v % 128).toNat) = (acc : Int) + v * 2 ^ (7 * n) := by
    unfold i64Ret wrapS
    have hn' : n = 0 ∨ n = 1 ∨ n = 2 ∨ n = 3 ∨ n = 4 ∨ n = 5 ∨ n = 6 ∨ n = 7 ∨ n = 8 ∨ n = 9 := by omega
    by_cases hneg : v < 0
    · have hs : (BitVec.ofNat 8 (v % 128).toNat &&& 64#8 = 64#8) := by rw [m40]; omega
      rcases hn' with rfl | rfl | rfl | rfl | rfl | rfl | rfl | rfl | rfl | rfl <;> simp [hs] at hlo hhi hacc ⊢ <;> (split <;> omega)
    · have hs : ¬ (BitVec.ofNat 8 (v % 128).toNat &&& 64#8 = 64#8) := by rw [m40]; omega
      rcases hn' with rfl | rfl | rfl | rfl | rfl | rfl | rfl | rfl | rfl | rfl <;> simp [hs] at hlo hhi hacc ⊢ <;> (split <;> omega)
  rw [hret]
  unfold i64Final
  have hn' : n = 0 ∨ n = 1 ∨ n = 2 ∨ n = 3 ∨ n = 4 ∨ n = 5 ∨ n = 6 ∨ n = 7 ∨ n = 8 ∨ n = 9 := by omega
  rcases hn' with rfl | rfl | rfl | rfl | rfl | rfl | rfl | rfl | rfl | rfl
  iterate 9 simp
  · simp at hlo hhi hacc ⊢
    by_cases hneg : v < 0
    · have : BitVec.ofNat 8 (v % 128).toNat &&& 62#8 = 62#8 := by rw [m3e.1]; omega
      simp [this]; omega
    · have : BitVec.ofNat 8 (v % 128).toNat &&& 62#8 = 0#8 := by rw [m3e.2]; omega
      simp [this]; omega

theorem i64_roundtrip_gen : ∀ (k n : Nat), n + k = 10 → 0 < k → ∀ (v : Int) (acc : Nat) (sfx : List Byte),
    -(2 ^ (63 - 7 * n) : Int) ≤ v → v < 2 ^ (63 - 7 * n) → acc < 2 ^ (7 * n) →
    i64Loop n acc (encS v ++ sfx) = .ok ((acc : Int) + v * 2 ^ (7 * n), n + (encS v).length) := by
  intro k
  induction k with
  | zero => intro n _ hk; omega
  | succ k ih =>
    intro n hnk _ v acc sfx hlo hhi hacc
    have hn : n ≤ 9 := by omega
    by_cases hs : v < -64 ∨ 64 ≤ v
    · rw [encS_big hs]
      have hb : (BitVec.ofNat 8 ((v % 128).toNat + 128)).toNat = (v % 128).toNat + 128 := ofNat_toNat_lt _ (by omega)
      have h80 : ¬ (BitVec.ofNat 8 ((v % 128).toNat + 128) &&& 128#8 = 0#8) := by rw [mask80, hb]; omega
      have hm : (BitVec.ofNat 8 ((v % 128).toNat + 128) &&& 127#8).toNat = (v % 128).toNat := by
        rw [mask7f, hb]; omega
      simp only [List.cons_append, i64Loop, h80, if_false, hm, List.length_cons]
      have hn' : n = 0 ∨ n = 1 ∨ n = 2 ∨ n = 3 ∨ n = 4 ∨ n = 5 ∨ n = 6 ∨ n = 7 ∨ n = 8 ∨ n = 9 := by omega
      have hk : 0 < k := by
        rcases hn' with rfl | rfl | rfl | rfl | rfl | rfl | rfl | rfl | rfl | rfl <;> simp at hlo hhi <;> omega
      have hn'' : n = 0 ∨ n = 1 ∨ n = 2 ∨ n = 3 ∨ n = 4 ∨ n = 5 ∨ n = 6 ∨ n = 7 ∨ n = 8 := by omega
      rcases hn'' with rfl | rfl | rfl | rfl | rfl | rfl | rfl | rfl | rfl <;> simp at hlo hhi hacc ⊢
      all_goals
        rw [Nat.mod_eq_of_lt (by omega)]
        rw [ih _ (by omega) hk (v / 128) _ sfx (by simp; omega) (by simp; omega) (by simp; omega)]
        simp
        omega
    · have h1 : -64 ≤ v := by omega
      have h2 : v < 64 := by omega
      rw [encS_small h1 h2]
      have hbn : (BitVec.ofNat 8 (v % 128).toNat).toNat = (v % 128).toNat := ofNat_toNat_lt _ (by omega)
      have h80 : (BitVec.ofNat 8 (v % 128).toNat &&& 128#8 = 0#8) := by rw [mask80, hbn]; omega
      have hm : (BitVec.ofNat 8 (v % 128).toNat &&& 127#8).toNat = (v % 128).toNat % 128 := by
        rw [mask7f, hbn]
      simp only [List.cons_append, List.nil_append, i64Loop, h80, if_true, hm, List.length_cons, List.length_nil]
      exact i64_small_step n hn v acc h1 h2 hlo hhi hacc

theorem i64_roundtrip (v : Int) (hlo : -(2 ^ 63 : Int) ≤ v) (hhi : v < 2 ^ 63) (sfx : List Byte) :
    decodeInt64 (encS v ++ sfx) = .ok (v, (encS v).length) := by
  have := i64_roundtrip_gen 10 0 rfl (by omega) v 0 sfx (by simpa using hlo) (by simpa using hhi) (by simp)
  simpa [decodeInt64] using this

/-! ## round trip, signed 33 (block types) -/

def i33Post (r : Except Err (Nat × Nat × Byte)) : R Int :=
  match r with
  | .error e => .error e
  | .ok (acc, n, b) => i33Final n (i33Ret (7 * n) acc b) b

theorem decodeInt33_eq (bs : List Byte) : decodeInt33 bs = i33Post (i33Loop 5 0 0 0#8 bs) := by
  unfold decodeInt33 i33Post
  split <;> simp_all

theorem i33_small_step (n : Nat) (hn : n ≤ 4) (v : Int) (acc : Nat)
    (h1 : -64 ≤ v) (h2 : v < 64) (hlo : -(2 ^ (32 - 7 * n) : Int) ≤ v) (hhi : v < 2 ^ (32 - 7 * n))
    (hacc : acc < 2 ^ (7 * n)) :
    i33Final (n + 1) (i33Ret (7 * (n + 1)) (acc + (v % 128).toNat % 128 * 2 ^ (7 * n))
      (BitVec.ofNat 8 (v % 128).toNat)) (BitVec.ofNat 8 (v % 128).toNat)
      = .ok ((acc : Int) + v * 2 ^ (7 * n), n + 1) := by
  have hbn : (BitVec.ofNat 8 (v % 128).toNat).toNat = (v % 128).toNat := ofNat_toNat_lt _ (by omega)
  have m40 := mask40' (BitVec.ofNat 8 (v % 128).toNat)
  have m20 := mask20 (BitVec.ofNat 8 (v % 128).toNat)
  rw [hbn] at m40 m20
  have hret : i33Ret (7 * (n + 1)) (acc + (v % 128).toNat % 128 * 2 ^ (7 * n))
      (BitVec.ofNat 8 (v % 128).toNat) = (acc : Int) + v * 2 ^ (7 * n) := by
    unfold i33Ret
    have hn' : n = 0 ∨ n = 1 ∨ n = 2 ∨ n = 3 ∨ n = 4 := by omega
    by_cases hneg : v < 0
    · have hs : (BitVec.ofNat 8 (v % 128).toNat &&& 64#8 = 64#8) := by rw [m40]; omega
      rcases hn' with rfl | rfl | rfl | rfl | rfl <;> simp [hs] at hlo hhi hacc ⊢ <;> (split <;> omega)
    · have hs : ¬ (BitVec.ofNat 8 (v % 128).toNat &&& 64#8 = 64#8) := by rw [m40]; omega
      rcases hn' with rfl | rfl | rfl | rfl | rfl <;> simp [hs] at hlo hhi hacc ⊢ <;> (split <;> omega)
  rw [hret]
  unfold i33Final
  have hn' : n = 0 ∨ n = 1 ∨ n = 2 ∨ n = 3 ∨ n = 4 := by omega
  rcases hn' with rfl | rfl | rfl | rfl | rfl
  iterate 4 simp
  · simp at hlo hhi hacc ⊢
    by_cases hneg : v < 0
    · have : BitVec.ofNat 8 (v % 128).toNat &&& 32#8 = 32#8 := by rw [m20.1]; omega
      simp [this]; omega
    · have : BitVec.ofNat 8 (v % 128).toNat &&& 32#8 = 0#8 := by rw [m20.2]; omega
      simp [this]; omega

theorem i33_roundtrip_gen : ∀ (k n : Nat), n + k = 5 → 0 < k → ∀ (v : Int) (acc : Nat) (b0 : Byte) (sfx : List Byte),
    -(2 ^ (32 - 7 * n) : Int) ≤ v → v < 2 ^ (32 - 7 * n) → acc < 2 ^ (7 * n) →
    i33Post (i33Loop k n acc b0 (encS v ++ sfx)) = .ok ((acc : Int) + v * 2 ^ (7 * n), n + (encS v).length) := by
  intro k
  induction k with
  | zero => intro n _ hk; omega
  | succ k ih =>
    intro n hnk _ v acc b0 sfx hlo hhi hacc
    have hn : n ≤ 4 := by omega
    by_cases hs : v < -64 ∨ 64 ≤ v
    · rw [encS_big hs]
      have hb : (BitVec.ofNat 8 ((v % 128).toNat + 128)).toNat = (v % 128).toNat + 128 := ofNat_toNat_lt _ (by omega)
      have h80 : ¬ (BitVec.ofNat 8 ((v % 128).toNat + 128) &&& 128#8 = 0#8) := by rw [mask80, hb]; omega
      have hm : (BitVec.ofNat 8 ((v % 128).toNat + 128) &&& 127#8).toNat = (v % 128).toNat := by
        rw [mask7f, hb]; omega
      simp only [List.cons_append, i33Loop, h80, if_false, hm, List.length_cons]
      have hn' : n = 0 ∨ n = 1 ∨ n = 2 ∨ n = 3 ∨ n = 4 := by omega
      have hk : 0 < k := by
        rcases hn' with rfl | rfl | rfl | rfl | rfl <;> simp at hlo hhi <;> omega
      have hn'' : n = 0 ∨ n = 1 ∨ n = 2 ∨ n = 3 := by omega
      rcases hn'' with rfl | rfl | rfl | rfl <;> simp at hlo hhi hacc ⊢
      all_goals
        rw [ih _ (by omega) hk (v / 128) _ _ sfx (by simp; omega) (by simp; omega) (by simp; omega)]
        simp
        omega
    · have h1 : -64 ≤ v := by omega
      have h2 : v < 64 := by omega
      rw [encS_small h1 h2]
      have hbn : (BitVec.ofNat 8 (v % 128).toNat).toNat = (v % 128).toNat := ofNat_toNat_lt _ (by omega)
      have h80 : (BitVec.ofNat 8 (v % 128).toNat &&& 128#8 = 0#8) := by rw [mask80, hbn]; omega
      have hm : (BitVec.ofNat 8 (v % 128).toNat &&& 127#8).toNat = (v % 128).toNat % 128 := by
        rw [mask7f, hbn]
      simp only [List.cons_append, List.nil_append, i33Loop, h80, if_true, hm, List.length_cons, List.length_nil, i33Post]
      exact i33_small_step n hn v acc h1 h2 hlo hhi hacc

theorem i33_roundtrip (v : Int) (hlo : -(2 ^ 32 : Int) ≤ v) (hhi : v < 2 ^ 32) (sfx : List Byte) :
    decodeInt33 (encS v ++ sfx) = .ok (v, (encS v).length) := by
  rw [decodeInt33_eq]
  have := i33_roundtrip_gen 5 0 rfl (by omega) v 0 0#8 sfx (by simpa using hlo) (by simpa using hhi) (by simp)
  simpa using this

/-! ## a successful decode depends only on the bytes it consumed -/

theorem u32Loop_prefix : ∀ (k i acc : Nat) (bs : List Byte) (v n : Nat) (sfx : List Byte),
    u32Loop k i acc bs = .ok (v, n) → u32Loop k i acc (bs.take (n - i) ++ sfx) = .ok (v, n) := by
  intro k
  induction k with
  | zero => intro i acc bs v n sfx h; simp [u32Loop] at h
  | succ k ih =>
    intro i acc bs v n sfx h
    cases bs with
    | nil => simp [u32Loop] at h
    | cons b rest =>
      have hb := u32Loop_bounds _ _ _ _ _ _ h
      have hn : n - i = (n - (i + 1)) + 1 := by omega
      rw [hn, List.take_succ_cons, List.cons_append]
      simp only [u32Loop] at h ⊢
      split
      · rename_i hlt
        simp only [hlt, if_true] at h
        exact h
      · rename_i hlt
        simp only [hlt, if_false] at h
        exact ih _ _ _ _ _ sfx h

theorem u64Loop_prefix : ∀ (k i acc : Nat) (bs : List Byte) (v n : Nat) (sfx : List Byte),
    u64Loop k i acc bs = .ok (v, n) → u64Loop k i acc (bs.take (n - i) ++ sfx) = .ok (v, n) := by
  intro k
  induction k with
  | zero => intro i acc bs v n sfx h; simp [u64Loop] at h
  | succ k ih =>
    intro i acc bs v n sfx h
    cases bs with
    | nil => simp [u64Loop] at h
    | cons b rest =>
      have hb := u64Loop_bounds _ _ _ _ _ _ h
      have hn : n - i = (n - (i + 1)) + 1 := by omega
      rw [hn, List.take_succ_cons, List.cons_append]
      simp only [u64Loop] at h ⊢
      split
      · rename_i hlt
        simp only [hlt, if_true] at h
        exact h
      · rename_i hlt
        simp only [hlt, if_false] at h
        exact ih _ _ _ _ _ sfx h

theorem i32Loop_prefix : ∀ (bs : List Byte) (n acc : Nat) (v : Int) (m : Nat) (sfx : List Byte),
    i32Loop n acc bs = .ok (v, m) → i32Loop n acc (bs.take (m - n) ++ sfx) = .ok (v, m) := by
  intro bs
  induction bs with
  | nil => intro n acc v m sfx h; simp [i32Loop] at h
  | cons b rest ih =>
    intro n acc v m sfx h
    have hb := i32Loop_bounds _ _ _ _ _ h
    have hn : m - n = (m - (n + 1)) + 1 := by omega
    rw [hn, List.take_succ_cons, List.cons_append]
    simp only [i32Loop] at h ⊢
    split
    · rename_i hz
      simp only [hz, if_true] at h
      exact h
    · rename_i hz
      simp only [hz, if_false] at h
      exact ih _ _ _ _ sfx h

theorem i64Loop_prefix : ∀ (bs : List Byte) (n acc : Nat) (v : Int) (m : Nat) (sfx : List Byte),
    i64Loop n acc bs = .ok (v, m) → i64Loop n acc (bs.take (m - n) ++ sfx) = .ok (v, m) := by
  intro bs
  induction bs with
  | nil => intro n acc v m sfx h; simp [i64Loop] at h
  | cons b rest ih =>
    intro n acc v m sfx h
    have hb := i64Loop_bounds _ _ _ _ _ h
    have hn : m - n = (m - (n + 1)) + 1 := by omega
    rw [hn, List.take_succ_cons, List.cons_append]
    simp only [i64Loop] at h ⊢
    split
    · rename_i hz
      simp only [hz, if_true] at h
      exact h
    · rename_i hz
      simp only [hz, if_false] at h
      exact ih _ _ _ _ sfx h

theorem i33Loop_prefix : ∀ (k n acc : Nat) (b0 : Byte) (bs : List Byte) (a m : Nat) (b : Byte) (sfx : List Byte),
    i33Loop k n acc b0 bs = .ok (a, m, b) → i33Loop k n acc b0 (bs.take (m - n) ++ sfx) = .ok (a, m, b) := by
  intro k
  induction k with
  | zero => intro n acc b0 bs a m b sfx h; simp [i33Loop] at h ⊢; exact h
  | succ k ih =>
    intro n acc b0 bs a m b sfx h
    cases bs with
    | nil => simp [i33Loop] at h
    | cons c rest =>
      have hb := i33Loop_bounds _ _ _ _ _ _ _ _ h
      have hn : m - n = (m - (n + 1)) + 1 := by omega
      rw [hn, List.take_succ_cons, List.cons_append]
      simp only [i33Loop] at h ⊢
      split
      · rename_i hz
        simp only [hz, if_true] at h
        exact h
      · rename_i hz
        simp only [hz, if_false] at h
        exact ih _ _ _ _ _ _ _ sfx h

end Wz.C03.Leb
