/-
C01 / C02 (front end with memory accesses): byte-level facts relating the reference semantics' `ByteArray` memory
(`readLE`, `writeLE`) to the SSA model's write log (`memLoad`, `memStore`, `memRead`).
-/
import Wz.Model.FrontendMem

namespace Wz.Proofs.FrontMem
open Wz.Spec Wz.Spec.Wasm Wz.Model.SsaPass Wz.Model.FrontendSL Wz.Model.FrontendMem

theorem ba_size_set (m : ByteArray) (i : Nat) (b : UInt8) : (m.set! i b).size = m.size := by
  cases m with | mk bs => simp only [ByteArray.set!, ByteArray.size, Array.set!, Array.size_setIfInBounds]

theorem ba_get_set (m : ByteArray) (i j : Nat) (b : UInt8) :
    (m.set! i b).get! j = if i = j ∧ i < m.size then b else m.get! j := by
  cases m with | mk bs =>
  simp only [ByteArray.set!, ByteArray.get!, ByteArray.size, Array.set!]
  by_cases h : i = j
  · subst h
    by_cases h2 : i < bs.size
    · simp [h2]
    · simp [h2]
  · simp [h, getElem!_def]

theorem readLE_zero (m : ByteArray) (a : Nat) : readLE m a 0 = 0 := rfl

theorem readLE_succ (m : ByteArray) (a n : Nat) :
    readLE m a (n + 1) = (m.get! a).toNat + 256 * readLE m (a + 1) n := by
  unfold readLE
  rw [List.range_succ_eq_map, List.foldr_cons, List.foldr_map]
  simp only [Nat.add_zero]
  have : (fun (i : Nat) (acc : Nat) => acc * 256 + (m.get! (a + (i + 1))).toNat) =
      (fun i acc => acc * 256 + (m.get! (a + 1 + i)).toNat) := by
    funext i acc
    rw [show a + (i + 1) = a + 1 + i by omega]
  rw [this]
  omega

theorem readLE_lt (m : ByteArray) : ∀ (n a : Nat), readLE m a n < 256 ^ n := by
  intro n
  induction n with
  | zero => intro a; simp [readLE_zero]
  | succ n ih =>
    intro a
    rw [readLE_succ, Nat.pow_succ]
    have h1 := ih (a + 1)
    have h2 : (m.get! a).toNat < 256 := UInt8.toNat_lt _
    omega

theorem writeLE_zero (m : ByteArray) (a v : Nat) : writeLE m a 0 v = m := rfl

theorem writeLE_succ (m : ByteArray) (a n v : Nat) :
    writeLE m a (n + 1) v = (writeLE m a n v).set! (a + n) (UInt8.ofNat (v / 256 ^ n % 256)) := by
  unfold writeLE
  rw [List.range_succ, List.foldl_append]
  rfl

theorem writeLE_size (m : ByteArray) (a v : Nat) : ∀ n, (writeLE m a n v).size = m.size := by
  intro n
  induction n with
  | zero => rfl
  | succ n ih => rw [writeLE_succ, ba_size_set, ih]

theorem writeLE_get (m : ByteArray) (a v : Nat) : ∀ n, a + n ≤ m.size → ∀ j,
    (writeLE m a n v).get! j =
      if a ≤ j ∧ j < a + n then UInt8.ofNat (v / 256 ^ (j - a) % 256) else m.get! j := by
  intro n
  induction n with
  | zero => intro _ j; simp [writeLE_zero]; omega
  | succ n ih =>
    intro h j
    rw [writeLE_succ, ba_get_set, writeLE_size, ih (by omega)]
    by_cases hj : a + n = j
    · subst hj
      have : a + n < m.size := by omega
      simp [this]
    · have h1 : ¬ (a + n = j ∧ a + n < m.size) := fun h => hj h.1
      rw [if_neg h1]
      by_cases h2 : a ≤ j ∧ j < a + n
      · rw [if_pos h2, if_pos (by omega)]
      · rw [if_neg h2, if_neg (by omega)]

theorem memRead_memStore : ∀ (n : Nat) (m : Mem) (A v x : Nat),
    memRead (memStore m A v n) x = if A ≤ x ∧ x < A + n then v / 256 ^ (x - A) % 256 else memRead m x := by
  intro n
  induction n with
  | zero => intro m A v x; simp [memStore]; omega
  | succ n ih =>
    intro m A v x
    rw [memStore, ih]
    by_cases h1 : A + 1 ≤ x ∧ x < A + 1 + n
    · rw [if_pos h1, if_pos (by omega)]
      have : x - A = (x - (A + 1)) + 1 := by omega
      rw [this, Nat.pow_succ, Nat.mul_comm, ← Nat.div_div_eq_div_mul]
    · rw [if_neg h1]
      simp only [memRead]
      by_cases h2 : A = x
      · subst h2
        simp
      · rw [if_neg h2, if_neg (by omega)]

/-- the log's bytes at `A …` are the `ByteArray`'s at `a …` -/
theorem memLoad_eq_readLE (m : Mem) (b : ByteArray) : ∀ (n A a : Nat),
    (∀ i, i < n → memRead m (A + i) = (b.get! (a + i)).toNat) → memLoad m A n = readLE b a n := by
  intro n
  induction n with
  | zero => intro A a _; rfl
  | succ n ih =>
    intro A a h
    rw [memLoad, readLE_succ, ih (A + 1) (a + 1)]
    · have := h 0 (by omega)
      simp only [Nat.add_zero] at this
      rw [this]
    · intro i hi
      have := h (i + 1) (by omega)
      rw [show A + 1 + i = A + (i + 1) by omega, show a + 1 + i = a + (i + 1) by omega]
      exact this

theorem memLoad_bytesAt (m : Mem) : ∀ (n A v : Nat), BytesAt m A v n → memLoad m A n = v % 256 ^ n := by
  intro n
  induction n with
  | zero => intro A v _; simp [memLoad, Nat.mod_one]
  | succ n ih =>
    intro A v h
    rw [memLoad, ih (A + 1) (v / 256)]
    · have := h 0 (by omega)
      simp only [Nat.add_zero, Nat.pow_zero, Nat.div_one] at this
      rw [this, Nat.pow_succ, Nat.mul_comm (256 ^ n) 256, Nat.mod_mul]
    · intro i hi
      have := h (i + 1) (by omega)
      rw [show A + 1 + i = A + (i + 1) by omega, this, Nat.pow_succ, Nat.mul_comm, Nat.div_div_eq_div_mul]

/-- the bytes of `v % 2 ^ (8 n)` below `n` are those of `v` -/
theorem byte_mod (v n i : Nat) (h : i < n) : v % 2 ^ (8 * n) / 256 ^ i % 256 = v / 256 ^ i % 256 := by
  have e1 : (256 : Nat) ^ i = 2 ^ (8 * i) := by rw [Nat.pow_mul]
  have e2 : (256 : Nat) = 2 ^ 8 := rfl
  rw [e1, e2, ← Nat.shiftRight_eq_div_pow, ← Nat.shiftRight_eq_div_pow]
  apply Nat.eq_of_testBit_eq
  intro k
  simp only [Nat.testBit_mod_two_pow, Nat.testBit_shiftRight]
  by_cases hk : k < 8
  · have : 8 * i + k < 8 * n := by omega
    simp [hk, this]
  · simp [hk]

end Wz.Proofs.FrontMem
