/-
C01 (lowering): label definitions of lowered code are unique (`lowerSym_nodup`): every piece of code defines
labels with frame ids from the interval of ids it allocates, at most one label of each kind per frame id.
-/
import Wz.Proofs.C01_FlatLower_Static
namespace Wz.Proofs.FlatLower
open Wz.Spec Wz.Spec.Wasm Wz.Model.FlatLower

/-- label definitions of a piece of code are unique and carry ids from the interval `(lo, hi]` -/
def LabelsIn (ops : List SymOp) (lo hi : Nat) : Prop :=
  (labelsOf ops).Nodup ∧ ∀ l, l ∈ labelsOf ops → lo < l.id ∧ l.id ≤ hi

theorem LabelsIn.nil (lo hi : Nat) : LabelsIn [] lo hi := ⟨List.nodup_nil, fun _ h => by simp [labelsOf] at h⟩

theorem LabelsIn.of_no_labels {ops : List SymOp} (h : labelsOf ops = []) (lo hi : Nat) : LabelsIn ops lo hi := by
  unfold LabelsIn; rw [h]; exact ⟨List.nodup_nil, fun _ h => by simp at h⟩

theorem LabelsIn.mono {ops lo hi lo' hi'} (h : LabelsIn ops lo hi) (h1 : lo' ≤ lo) (h2 : hi ≤ hi') : LabelsIn ops lo' hi' :=
  ⟨h.1, fun l hl => by have := h.2 l hl; omega⟩

/-- code with ids in `(lo, mid]` followed by code with ids in `(mid, hi]` -/
theorem LabelsIn.append {a b : List SymOp} {lo mid hi : Nat} (ha : LabelsIn a lo mid) (hb : LabelsIn b mid hi)
    (h1 : lo ≤ mid) (h2 : mid ≤ hi) : LabelsIn (a ++ b) lo hi := by
  refine ⟨?_, ?_⟩
  · rw [labelsOf_append, List.nodup_append]
    refine ⟨ha.1, hb.1, fun x hx y hy hxy => ?_⟩
    subst hxy
    have := ha.2 x hx; have := hb.2 x hy; omega
  · intro l hl
    rw [labelsOf_append, List.mem_append] at hl
    rcases hl with hl | hl
    · have := ha.2 l hl; omega
    · have := hb.2 l hl; omega

theorem nodup_append_of {α} {a b : List α} (ha : a.Nodup) (hb : b.Nodup) (h : ∀ x, x ∈ a → x ∈ b → False) :
    (a ++ b).Nodup :=
  List.nodup_append.mpr ⟨ha, hb, fun x hx _ hy hxy => h x hx (hxy ▸ hy)⟩

theorem labelsOf_emitDrop (d : DropR) : labelsOf (emitDrop d : List SymOp) = [] := by
  cases d <;> rfl

theorem labelsOf_blockTail (id h : Nat) (bt : Option Ty) (body : List FI) (rh : Option Nat) :
    labelsOf (blockTail id h bt body rh) = [] ∨ labelsOf (blockTail id h bt body rh) = [⟨.cont, id⟩] := by
  unfold blockTail
  cases rh with
  | none => right; rfl
  | some h' =>
    simp only [labelsOf_append, labelsOf_emitDrop, List.nil_append]
    split
    · right; rfl
    · left; rfl

theorem labelsOf_loopTail (F : Fr) (id : Nat) (rh : Option Nat) :
    labelsOf (loopTail F id rh) = [] ∨ labelsOf (loopTail F id rh) = [⟨.cont, id⟩] := by
  unfold loopTail
  cases rh with
  | none => right; rfl
  | some h' => left; simp only [labelsOf_emitDrop]

theorem labelsOf_iteMid (F : Fr) (id : Nat) (rh : Option Nat) : labelsOf (iteMid F id rh) = [⟨.els, id⟩] := by
  unfold iteMid
  cases rh with
  | none => rfl
  | some h' => simp only [labelsOf_append, labelsOf_emitDrop, List.nil_append]; rfl

theorem labelsOf_iteTail (F : Fr) (id : Nat) (rh : Option Nat) : labelsOf (iteTail F id rh) = [⟨.cont, id⟩] := by
  unfold iteTail
  cases rh with
  | none => rfl
  | some h' => simp only [labelsOf_append, labelsOf_emitDrop, List.nil_append]; rfl

mutual
theorem lowerI_labels : ∀ (i : FI) (fs : List Fr) (h next : Nat),
    next ≤ (lowerI fs h next i).next ∧ LabelsIn (lowerI fs h next i).ops next (lowerI fs h next i).next
  | .const t v, fs, h, next => by simp only [lowerI]; exact ⟨Nat.le_refl _, .of_no_labels rfl _ _⟩
  | .num1 n, fs, h, next => by simp only [lowerI]; exact ⟨Nat.le_refl _, .of_no_labels rfl _ _⟩
  | .num2 n, fs, h, next => by simp only [lowerI]; exact ⟨Nat.le_refl _, .of_no_labels rfl _ _⟩
  | .localGet i, fs, h, next => by simp only [lowerI]; exact ⟨Nat.le_refl _, .of_no_labels rfl _ _⟩
  | .localSet i, fs, h, next => by simp only [lowerI]; exact ⟨Nat.le_refl _, .of_no_labels rfl _ _⟩
  | .localTee i, fs, h, next => by simp only [lowerI]; exact ⟨Nat.le_refl _, .of_no_labels rfl _ _⟩
  | .drop, fs, h, next => by simp only [lowerI]; exact ⟨Nat.le_refl _, .of_no_labels rfl _ _⟩
  | .select, fs, h, next => by simp only [lowerI]; exact ⟨Nat.le_refl _, .of_no_labels rfl _ _⟩
  | .unreachable, fs, h, next => by simp only [lowerI]; exact ⟨Nat.le_refl _, .of_no_labels rfl _ _⟩
  | .ret, fs, h, next => by
    simp only [lowerI]
    exact ⟨Nat.le_refl _, .of_no_labels (by rw [labelsOf_append, labelsOf_emitDrop]; rfl) _ _⟩
  | .br l, fs, h, next => by
    simp only [lowerI]
    exact ⟨Nat.le_refl _, .of_no_labels (by rw [labelsOf_append, labelsOf_emitDrop]; rfl) _ _⟩
  | .brIf l, fs, h, next => by
    simp only [lowerI]
    refine ⟨Nat.le_succ _, ?_, ?_⟩
    · simp [labelsOf]
    · intro l hl; simp [labelsOf] at hl; subst hl; simp
  | .brTable ls d, fs, h, next => by simp only [lowerI]; exact ⟨Nat.le_refl _, .of_no_labels rfl _ _⟩
  | .block bt body, fs, h, next => by
    have ih := lowerS_labels body (⟨.block, next + 1, h, arity bt⟩ :: fs) h (next + 1)
    have hn : (lowerI fs h next (.block bt body)).next =
        (lowerS (⟨.block, next + 1, h, arity bt⟩ :: fs) h (next + 1) body).next := by simp only [lowerI]
    rw [lowerI_block, hn]
    generalize lowerS (⟨.block, next + 1, h, arity bt⟩ :: fs) h (next + 1) body = r at ih ⊢
    refine ⟨by omega, ?_, ?_⟩
    · rw [labelsOf_append]
      refine nodup_append_of ih.2.1 ?_ ?_
      · rcases labelsOf_blockTail (next + 1) h bt body r.h with e | e <;> rw [e] <;> simp
      · intro x hx hy
        have := ih.2.2 x hx
        rcases labelsOf_blockTail (next + 1) h bt body r.h with e | e <;> rw [e] at hy <;> simp at hy
        subst hy; simp at this
    · intro l hl
      rw [labelsOf_append, List.mem_append] at hl
      rcases hl with hl | hl
      · have := ih.2.2 l hl; omega
      · rcases labelsOf_blockTail (next + 1) h bt body r.h with e | e <;> rw [e] at hl <;> simp at hl
        subst hl; simp; omega
  | .loop bt body, fs, h, next => by
    have ih := lowerS_labels body (⟨.loop, next + 1, h, arity bt⟩ :: fs) h (next + 1)
    have hn : (lowerI fs h next (.loop bt body)).next =
        (lowerS (⟨.loop, next + 1, h, arity bt⟩ :: fs) h (next + 1) body).next := by simp only [lowerI]
    rw [lowerI_loop, hn]
    generalize lowerS (⟨.loop, next + 1, h, arity bt⟩ :: fs) h (next + 1) body = r at ih ⊢
    have hpre : labelsOf ([.br ⟨.header, next + 1⟩, .label ⟨.header, next + 1⟩] : List SymOp) = [⟨.header, next + 1⟩] := rfl
    refine ⟨by omega, ?_, ?_⟩
    · rw [labelsOf_append, labelsOf_append, hpre]
      refine nodup_append_of (nodup_append_of (by simp) ih.2.1 ?_) ?_ ?_
      · intro x hx hy
        have := ih.2.2 x hy
        simp at hx; subst hx; simp at this
      · rcases labelsOf_loopTail ⟨.loop, next + 1, h, arity bt⟩ (next + 1) r.h with e | e <;> rw [e] <;> simp
      · intro x hx hy
        rcases labelsOf_loopTail ⟨.loop, next + 1, h, arity bt⟩ (next + 1) r.h with e | e <;> rw [e] at hy <;> simp at hy
        subst hy
        rcases List.mem_append.mp hx with hx | hx
        · simp at hx
        · have := ih.2.2 _ hx; simp at this
    · intro l hl
      rw [labelsOf_append, labelsOf_append, hpre, List.mem_append, List.mem_append] at hl
      rcases hl with (hl | hl) | hl
      · simp at hl; subst hl; simp; omega
      · have := ih.2.2 l hl; omega
      · rcases labelsOf_loopTail ⟨.loop, next + 1, h, arity bt⟩ (next + 1) r.h with e | e <;> rw [e] at hl <;> simp at hl
        subst hl; simp; omega
  | .ite bt th el, fs, h, next => by
    have ih1 := lowerS_labels th (⟨.ite, next + 1, h - 1, arity bt⟩ :: fs) (h - 1) (next + 1)
    have ih2 := lowerS_labels el (⟨.ite, next + 1, h - 1, arity bt⟩ :: fs) (h - 1)
      (lowerS (⟨.ite, next + 1, h - 1, arity bt⟩ :: fs) (h - 1) (next + 1) th).next
    have hn : (lowerI fs h next (.ite bt th el)).next =
        (lowerS (⟨.ite, next + 1, h - 1, arity bt⟩ :: fs) (h - 1)
          (lowerS (⟨.ite, next + 1, h - 1, arity bt⟩ :: fs) (h - 1) (next + 1) th).next el).next := by
      simp only [lowerI]
    rw [lowerI_ite, hn]
    generalize lowerS (⟨.ite, next + 1, h - 1, arity bt⟩ :: fs) (h - 1) (next + 1) th = r1 at ih1 ih2 ⊢
    generalize lowerS (⟨.ite, next + 1, h - 1, arity bt⟩ :: fs) (h - 1) r1.next el = r2 at ih2 ⊢
    have hpre : labelsOf ([.brIf ⟨.header, next + 1⟩ ⟨.els, next + 1⟩ none, .label ⟨.header, next + 1⟩] : List SymOp) =
        [⟨.header, next + 1⟩] := rfl
    refine ⟨by omega, ?_, ?_⟩
    · simp only [labelsOf_append, hpre, labelsOf_iteMid, labelsOf_iteTail]
      refine nodup_append_of (nodup_append_of (nodup_append_of (nodup_append_of (by simp) ih1.2.1 ?_) (by simp) ?_) ih2.2.1 ?_) (by simp) ?_
      · intro x hx hy
        have := ih1.2.2 x hy
        simp at hx; subst hx; simp at this
      · intro x hx hy
        simp at hy; subst hy
        rcases List.mem_append.mp hx with hx | hx
        · simp at hx
        · have := ih1.2.2 _ hx; simp at this
      · intro x hx hy
        have h2 := ih2.2.2 x hy
        rcases List.mem_append.mp hx with hx | hx
        · rcases List.mem_append.mp hx with hx | hx
          · simp at hx; subst hx; simp at h2; omega
          · have := ih1.2.2 _ hx; omega
        · simp at hx; subst hx; simp at h2; omega
      · intro x hx hy
        simp at hy; subst hy
        rcases List.mem_append.mp hx with hx | hx
        · rcases List.mem_append.mp hx with hx | hx
          · rcases List.mem_append.mp hx with hx | hx
            · simp at hx
            · have := ih1.2.2 _ hx; simp at this
          · simp at hx
        · have := ih2.2.2 _ hx; simp at this; omega
    · intro l hl
      simp only [labelsOf_append, hpre, labelsOf_iteMid, labelsOf_iteTail, List.mem_append] at hl
      rcases hl with (((hl | hl) | hl) | hl) | hl
      · simp at hl; subst hl; simp; omega
      · have := ih1.2.2 l hl; omega
      · simp at hl; subst hl; simp; omega
      · have := ih2.2.2 l hl; omega
      · simp at hl; subst hl; simp; omega
theorem lowerS_labels : ∀ (is : List FI) (fs : List Fr) (h next : Nat),
    next ≤ (lowerS fs h next is).next ∧ LabelsIn (lowerS fs h next is).ops next (lowerS fs h next is).next
  | [], fs, h, next => by simp only [lowerS]; exact ⟨Nat.le_refl _, .nil _ _⟩
  | i :: rest, fs, h, next => by
    have ih1 := lowerI_labels i fs h next
    simp only [lowerS]
    split
    · exact ih1
    · rename_i h' _
      have ih2 := lowerS_labels rest fs h' (lowerI fs h next i).next
      exact ⟨Nat.le_trans ih1.1 ih2.1, LabelsIn.append ih1.2 ih2.2 ih1.1 ih2.1⟩
end

theorem labelsOf_consts (ts : List Ty) : labelsOf (ts.map (fun t => (Op.const t 0 : SymOp))) = [] := by
  induction ts with
  | nil => rfl
  | cons t ts ih => simpa [labelsOf] using ih

/-- label definitions of a lowered function are unique -/
theorem lowerSym_nodup (f : Fn) : (labelsOf (lowerSym f)).Nodup := by
  unfold lowerSym
  have ih := lowerS_labels f.body [f.frame] (f.params.length + f.locals.length) 1
  generalize lowerS [f.frame] (f.params.length + f.locals.length) 1 f.body = r at ih ⊢
  obtain ⟨ops, nx, rh⟩ := r
  cases rh with
  | none => simpa [labelsOf_append, labelsOf_consts, labelsOf] using ih.2.1
  | some h' => simpa [labelsOf_append, labelsOf_consts, labelsOf_emitDrop, labelsOf] using ih.2.1

end Wz.Proofs.FlatLower
