/- Lemmas for C15: the 22 functions of Wz.Model.Wasi under the dispatcher — no host panic (repaired poll_oneoff),
table untouched unless errno 0, nothing allocated except by fd_renumber. Core Lean only. -/
import Wz.Proofs.C15_Fs2
import Wz.Proofs.C15_PollLoop

namespace Wz.C15
open Wz.Model Wz.Model.Wasi Wz.Model.DescTable Wz.Gen.Wasi

/-- the call neither touches the descriptor table nor makes the host allocate by guest numbers -/
def Quiet (r : Res) : Prop := r.fds = none ∧ r.alloc = 0

theorem pollAfter_quiet (fds : Fds) (inp inLen out outLen n res : Nat) (acc : List (Nat × Nat)) (s0 : PollSt) :
    Quiet (pollAfter fds inp inLen out outLen n res acc s0) := by
  unfold pollAfter
  split_all
  all_goals exact ⟨rfl, rfl⟩

theorem pollOneoff_quiet (fixed : Bool) (fds : Fds) (m : Mem) (inp out n res : Nat) :
    Quiet (pollOneoff fixed fds m inp out n res) := by
  unfold pollOneoff
  split_all
  all_goals first
    | exact ⟨rfl, rfl⟩
    | exact pollAfter_quiet _ _ _ _ _ _ _ _ _

theorem fdReadCommon_quiet (fr : Bool) (rd : Reader) (m : Mem) (iovs cnt res : Nat) : Quiet (fdReadCommon fr rd m iovs cnt res) := by
  unfold fdReadCommon
  split_all
  all_goals exact ⟨rfl, rfl⟩

theorem fdWriteCommon_quiet (w : Writer) (m : Mem) (iovs cnt res : Nat) : Quiet (fdWriteCommon w m iovs cnt res) := by
  unfold fdWriteCommon
  split_all
  all_goals exact ⟨rfl, rfl⟩

theorem fdRead_quiet (fr : Bool) (h : Host) (fds : Fds) (m : Mem) (fd iovs cnt res : Nat) : Quiet (fdRead fr h fds m fd iovs cnt res) := by
  unfold fdRead
  split_all
  all_goals first
    | exact ⟨rfl, rfl⟩
    | exact fdReadCommon_quiet _ _ _ _ _ _

theorem fdPread_quiet (fr : Bool) (fds : Fds) (m : Mem) (fd iovs cnt res : Nat) : Quiet (fdPread fr fds m fd iovs cnt res) := by
  unfold fdPread
  split_all
  all_goals first
    | exact ⟨rfl, rfl⟩
    | exact fdReadCommon_quiet _ _ _ _ _ _

theorem fdWrite_quiet (fds : Fds) (m : Mem) (fd iovs cnt res : Nat) : Quiet (fdWrite fds m fd iovs cnt res) := by
  unfold fdWrite
  split_all
  all_goals first
    | exact ⟨rfl, rfl⟩
    | exact fdWriteCommon_quiet _ _ _ _ _

theorem fdPwrite_quiet (fds : Fds) (m : Mem) (fd iovs cnt res : Nat) : Quiet (fdPwrite fds m fd iovs cnt res) := by
  unfold fdPwrite
  split_all
  all_goals first
    | exact ⟨rfl, rfl⟩
    | exact fdWriteCommon_quiet _ _ _ _ _

theorem writeOffsetsAndValues_quiet (m : Mem) (vs : List (List Nat)) (o b bl : Nat) :
    Quiet (writeOffsetsAndValues m vs o b bl) := by
  unfold writeOffsetsAndValues
  split_all
  all_goals exact ⟨rfl, rfl⟩

theorem write2xU32_quiet (m : Mem) (p1 v1 p2 v2 : Nat) : Quiet (write2xU32 m p1 v1 p2 v2) := by
  unfold write2xU32
  split_all
  all_goals exact ⟨rfl, rfl⟩

theorem writeU64_quiet (m : Mem) (p v : Nat) : Quiet (writeU64 m p v) := by
  unfold writeU64
  split_all
  all_goals exact ⟨rfl, rfl⟩

theorem clockResGet_quiet (h : Host) (m : Mem) (id res : Nat) : Quiet (clockResGet h m id res) := by
  unfold clockResGet
  split_all
  all_goals first
    | exact ⟨rfl, rfl⟩
    | exact writeU64_quiet _ _ _

theorem clockTimeGet_quiet (h : Host) (m : Mem) (id res : Nat) : Quiet (clockTimeGet h m id res) := by
  unfold clockTimeGet
  split_all
  all_goals first
    | exact ⟨rfl, rfl⟩
    | exact writeU64_quiet _ _ _

theorem randomGet_quiet (m : Mem) (b l : Nat) : Quiet (randomGet m b l) := by
  unfold randomGet
  split_all
  all_goals exact ⟨rfl, rfl⟩

theorem fdPrestatGet_quiet (h : Host) (fds : Fds) (m : Mem) (fd res : Nat) : Quiet (fdPrestatGet h fds m fd res) := by
  unfold fdPrestatGet
  split_all
  all_goals first
    | exact ⟨rfl, rfl⟩
    | exact writeU64_quiet _ _ _

theorem fdPrestatDirName_quiet (h : Host) (fds : Fds) (m : Mem) (fd p l : Nat) :
    Quiet (fdPrestatDirName h fds m fd p l) := by
  unfold fdPrestatDirName
  split_all
  all_goals exact ⟨rfl, rfl⟩

theorem statLike_quiet (fds : Fds) (m : Mem) (fd res sz : Nat) : Quiet (statLike fds m fd res sz) := by
  unfold statLike
  split_all
  all_goals exact ⟨rfl, rfl⟩

theorem seekLike_quiet (fds : Fds) (m : Mem) (fd res : Nat) : Quiet (seekLike fds m fd res) := by
  unfold seekLike
  split_all
  all_goals exact ⟨rfl, rfl⟩

/-- fd_renumber, fd_close: the table changes only together with errno 0 -/
theorem renumber_table (b : Option Nat) (fds : Fds) (f t : Nat) :
    (renumber b fds f t).err ≠ Err.errno 0 → (renumber b fds f t).fds = none := by
  unfold renumber
  split
  · intro _; rfl
  · intro h; exact absurd rfl h

theorem fdClose_table (fds : Fds) (fd : Nat) : (fdClose fds fd).err ≠ Err.errno 0 → (fdClose fds fd).fds = none := by
  unfold fdClose
  split
  · intro _; rfl
  · intro h; exact absurd rfl h

theorem fdClose_alloc (fds : Fds) (fd : Nat) : (fdClose fds fd).alloc = 0 := by
  unfold fdClose
  split <;> rfl

/-! ### no host panic -/

/-- `readv`: on an iovec array whose byte length is a multiple of 8 the reads of the entries never fail their
length checks, whatever the entries say -/
theorem readvLoop_ne_panic (en : Bool) (snap : Option Mem) (iovs stop : Nat) (h8 : stop % 8 = 0) (hs : stop < 4294967296) :
    ∀ (fuel pos : Nat) (s : RvSt), pos % 8 = 0 → (readvLoop en snap iovs stop fuel pos s).2 ≠ some Err.panic := by
  intro fuel
  induction fuel with
  | zero => intro pos s _; simp [readvLoop]
  | succ fuel ih =>
    intro pos s hp
    unfold readvLoop
    split
    · simp
    · have h4 : ¬ (pos + 4 > stop) := by omega
      have h5 : ¬ (w32 (pos + 4) > stop ∨ w32 (pos + 4) + 4 > stop) := by unfold w32; omega
      have hn : w32 (pos + 8) % 8 = 0 := by unfold w32; omega
      simp only [h4, h5, if_false]
      split_all
      all_goals first
        | exact ih _ _ hn
        | simp [efault, ebadf]

theorem writevLoop_ne_panic (w : Writer) (m : Mem) (iovs stop : Nat) (h8 : stop % 8 = 0) (hs : stop < 4294967296) :
    ∀ (fuel pos : Nat) (acc : List (Nat × Nat)) (nw : Nat), pos % 8 = 0 →
      (writevLoop w m iovs stop fuel pos acc nw).2.2 ≠ some Err.panic := by
  intro fuel
  induction fuel with
  | zero => intro pos acc nw _; simp [writevLoop]
  | succ fuel ih =>
    intro pos acc nw hp
    unfold writevLoop
    split
    · simp
    · have h4 : ¬ (pos + 4 > stop) := by omega
      have h5 : ¬ (w32 (pos + 4) > stop ∨ w32 (pos + 4) + 4 > stop) := by unfold w32; omega
      have hn : w32 (pos + 8) % 8 = 0 := by unfold w32; omega
      simp only [h4, h5, if_false]
      split_all
      all_goals first
        | exact ih _ _ _ hn
        | simp [efault, ebadf]

theorem stop8 (cnt : Nat) : w32 (cnt * 8) % 8 = 0 ∧ w32 (cnt * 8) < 4294967296 := by unfold w32; omega

theorem readTail_ne_panic (m : Mem) (res : Nat) (x : RvSt × Option Err) (hx : x.2 ≠ some Err.panic) :
    (match x with
      | (s, some e) => ({ err := e, acc := s.acc.reverse, writes := s.ws.reverse } : Res)
      | (s, none) =>
        if !s.m.has res 4 then { err := efault, acc := s.acc.reverse, writes := s.ws.reverse }
        else { err := .errno 0, acc := ((res, 4) :: s.acc).reverse, writes := (Wr.bytes res (bytesLE 4 s.nread) :: s.ws).reverse }).err
      ≠ Err.panic := by
  obtain ⟨s, e⟩ := x
  cases e with
  | none => dsimp only; split <;> simp [efault]
  | some e => dsimp only; intro he; exact hx (by simp [he])

theorem fdReadCommon_ne_panic (fr : Bool) (rd : Reader) (m : Mem) (iovs cnt res : Nat) :
    (fdReadCommon fr rd m iovs cnt res).err ≠ Err.panic := by
  have hl := fun en src => readvLoop_ne_panic en (if fr then some m else none) iovs (w32 (cnt * 8)) (stop8 cnt).1 (stop8 cnt).2
    (w32 (cnt * 8) / 8 + 1) 0 { m := m, ws := [], acc := [(iovs, w32 (cnt * 8))], src := src, nread := 0 } rfl
  unfold fdReadCommon
  dsimp only
  split
  · simp [efault]
  · cases rd with
    | unknown => dsimp only; split <;> simp
    | stream src => exact readTail_ne_panic m res _ (hl false src)
    | enosys => exact readTail_ne_panic m res _ (hl true [])

theorem fdWriteCommon_ne_panic (w : Writer) (m : Mem) (iovs cnt res : Nat) :
    (fdWriteCommon w m iovs cnt res).err ≠ Err.panic := by
  unfold fdWriteCommon
  dsimp only
  split
  · simp [efault]
  · have hl := writevLoop_ne_panic w m iovs (w32 (cnt * 8)) (stop8 cnt).1 (stop8 cnt).2
        (w32 (cnt * 8) / 8 + 1) 0 [(iovs, w32 (cnt * 8))] 0 rfl
    split
    · simp
    · rename_i acc nw e heq
      rw [heq] at hl
      intro he
      exact hl (by simpa using he)
    · split <;> simp [efault]

/-- args_get / environ_get: when the sizes args_sizes_get reports do not wrap (fewer than 2^30 values, less than
4 GiB of text — host configuration, not guest input) the two buffers are exactly as long as the loop needs -/
theorem offsetsLoop_ok (offsets offsetsLen bytes bytesLen : Nat) (hb : bytesLen < 4294967296) (ho : offsetsLen < 4294967296) :
    ∀ (vs : List (List Nat)) (oI bI : Nat) (ws : List Wr), oI + 4 * vs.length = offsetsLen → bI + nulSize vs = bytesLen →
      (offsetsLoop offsets offsetsLen bytes bytesLen vs oI bI ws).2 = true := by
  intro vs
  induction vs with
  | nil => intro oI bI ws _ _; rfl
  | cons v rest ih =>
    intro oI bI ws h1 h2
    have hn : nulSize (v :: rest) = v.length + 1 + nulSize rest := by simp [nulSize]
    rw [hn] at h2
    simp only [List.length_cons] at h1
    unfold offsetsLoop
    have a1 : ¬ oI ≥ offsetsLen := by omega
    have a2 : min 4 (offsetsLen - oI) = 4 := by omega
    have a3 : ¬ bI > bytesLen := by omega
    have a4 : w32 (bI + v.length) = bI + v.length := by unfold w32; omega
    have a5 : ¬ bI + v.length ≥ bytesLen := by omega
    have a6 : w32 (oI + 4) = oI + 4 := by unfold w32; omega
    have a7 : w32 (bI + v.length + 1) = bI + v.length + 1 := by unfold w32; omega
    simp only [a1, if_false, a2, Nat.lt_irrefl, a3, a4, a5, a6, a7]
    exact ih _ _ _ (by omega) (by omega)

/-- the host's argument / environment lists have sizes that fit the 32-bit counters of args_sizes_get -/
def HostArgsOk (h : Host) : Prop :=
  h.args.length * 4 < 4294967296 ∧ nulSize h.args < 4294967296 ∧ h.env.length * 4 < 4294967296 ∧ nulSize h.env < 4294967296

theorem writeOffsetsAndValues_ne_panic (m : Mem) (vs : List (List Nat)) (o b : Nat) (h1 : vs.length * 4 < 4294967296)
    (h2 : nulSize vs < 4294967296) : (writeOffsetsAndValues m vs o b (w32 (nulSize vs))).err ≠ Err.panic := by
  have e1 : w32 (vs.length * 4) = vs.length * 4 := by unfold w32; omega
  have e2 : w32 (nulSize vs) = nulSize vs := by unfold w32; omega
  have hl := offsetsLoop_ok o (vs.length * 4) b (nulSize vs) h2 h1 vs 0 0 [] (by omega) (by omega)
  unfold writeOffsetsAndValues
  rw [e1, e2]
  dsimp only
  split
  · simp [efault]
  · split
    · simp [efault]
    · split
      · simp
      · rename_i heq
        rw [heq] at hl
        cases hl

theorem fdRead_ne_panic (fr : Bool) (h : Host) (fds : Fds) (m : Mem) (fd iovs cnt res : Nat) :
    (fdRead fr h fds m fd iovs cnt res).err ≠ Err.panic := by
  unfold fdRead
  split_all
  all_goals first
    | exact fdReadCommon_ne_panic _ _ _ _ _ _
    | simp [ebadf]

theorem fdPread_ne_panic (fr : Bool) (fds : Fds) (m : Mem) (fd iovs cnt res : Nat) :
    (fdPread fr fds m fd iovs cnt res).err ≠ Err.panic := by
  unfold fdPread
  split_all
  all_goals first
    | exact fdReadCommon_ne_panic _ _ _ _ _ _
    | simp [ebadf]

theorem fdWrite_ne_panic (fds : Fds) (m : Mem) (fd iovs cnt res : Nat) :
    (fdWrite fds m fd iovs cnt res).err ≠ Err.panic := by
  unfold fdWrite
  split_all
  all_goals first
    | exact fdWriteCommon_ne_panic _ _ _ _ _
    | simp [ebadf]

theorem fdPwrite_ne_panic (fds : Fds) (m : Mem) (fd iovs cnt res : Nat) :
    (fdPwrite fds m fd iovs cnt res).err ≠ Err.panic := by
  unfold fdPwrite
  split_all
  all_goals first
    | exact fdWriteCommon_ne_panic _ _ _ _ _
    | simp [ebadf]

theorem write2xU32_ne_panic (m : Mem) (p1 v1 p2 v2 : Nat) : (write2xU32 m p1 v1 p2 v2).err ≠ Err.panic := by
  unfold write2xU32
  split_all
  all_goals simp [efault]

theorem writeU64_ne_panic (m : Mem) (p v : Nat) : (writeU64 m p v).err ≠ Err.panic := by
  unfold writeU64
  split_all
  all_goals simp [efault]

theorem clockResGet_ne_panic (h : Host) (m : Mem) (id res : Nat) : (clockResGet h m id res).err ≠ Err.panic := by
  unfold clockResGet
  split_all
  all_goals first
    | exact writeU64_ne_panic _ _ _
    | simp [einval]

theorem clockTimeGet_ne_panic (h : Host) (m : Mem) (id res : Nat) : (clockTimeGet h m id res).err ≠ Err.panic := by
  unfold clockTimeGet
  split_all
  all_goals first
    | exact writeU64_ne_panic _ _ _
    | simp [einval]

theorem randomGet_ne_panic (m : Mem) (b l : Nat) : (randomGet m b l).err ≠ Err.panic := by
  unfold randomGet
  split_all
  all_goals simp [efault]

theorem fdPrestatGet_ne_panic (h : Host) (fds : Fds) (m : Mem) (fd res : Nat) :
    (fdPrestatGet h fds m fd res).err ≠ Err.panic := by
  unfold fdPrestatGet
  split_all
  all_goals first
    | exact writeU64_ne_panic _ _ _
    | simp [ebadf]

theorem renumber_ne_panic (b : Option Nat) (fds : Fds) (f t : Nat) : (renumber b fds f t).err ≠ Err.panic := by
  unfold renumber
  split
  · rename_i e he
    unfold renumberCheck at he
    dsimp only at he
    intro hp
    dsimp only at hp
    subst hp
    repeat' split at he
    all_goals first
      | cases he
      | (injection he with he; simp [ebadf] at he; done)
      | (injection he with he; cases he)
  · simp

theorem fdClose_ne_panic (fds : Fds) (fd : Nat) : (fdClose fds fd).err ≠ Err.panic := by
  unfold fdClose
  split <;> simp [ebadf]

theorem statLike_ne_panic (fds : Fds) (m : Mem) (fd res sz : Nat) : (statLike fds m fd res sz).err ≠ Err.panic := by
  unfold statLike
  split_all
  all_goals simp [efault, ebadf]

theorem seekLike_ne_panic (fds : Fds) (m : Mem) (fd res : Nat) : (seekLike fds m fd res).err ≠ Err.panic := by
  unfold seekLike
  split_all
  all_goals simp [ebadf]

/-! ### the dispatcher of the first batch -/

/-- one constructor of `Fn1` -/
macro "fs1_case" hc:ident t:term : tactic =>
  `(tactic| (simp only [call1e] at $hc:ident; split at $hc:ident <;>
      first | (cases $hc:ident; done) | (simp only [Option.some.injEq] at $hc:ident; subst $hc:ident; exact $t)))

theorem quiet_table {r : Res} (h : Quiet r) : r.err ≠ Err.errno 0 → r.fds = none := fun _ => h.1

/-- first batch: a call that does not answer errno 0 leaves the descriptor table as it was -/
theorem call1e_table (fixed fixedRead : Bool) (h : Host) (fds : Fds) (m : Mem) (f : Fn1) (a : List Nat) (r : Res)
    (hc : call1e fixed fixedRead h fds m f a = some r) : r.err ≠ Err.errno 0 → r.fds = none := by
  cases f
  case poll_oneoff => fs1_case hc (quiet_table (pollOneoff_quiet _ _ _ _ _ _ _))
  case fd_read => fs1_case hc (quiet_table (fdRead_quiet _ _ _ _ _ _ _ _))
  case fd_pread => fs1_case hc (quiet_table (fdPread_quiet _ _ _ _ _ _ _))
  case fd_write => fs1_case hc (quiet_table (fdWrite_quiet _ _ _ _ _ _))
  case fd_pwrite => fs1_case hc (quiet_table (fdPwrite_quiet _ _ _ _ _ _))
  case args_get => fs1_case hc (quiet_table (writeOffsetsAndValues_quiet _ _ _ _ _))
  case environ_get => fs1_case hc (quiet_table (writeOffsetsAndValues_quiet _ _ _ _ _))
  case args_sizes_get => fs1_case hc (quiet_table (write2xU32_quiet _ _ _ _ _))
  case environ_sizes_get => fs1_case hc (quiet_table (write2xU32_quiet _ _ _ _ _))
  case clock_res_get => fs1_case hc (quiet_table (clockResGet_quiet _ _ _ _))
  case clock_time_get => fs1_case hc (quiet_table (clockTimeGet_quiet _ _ _ _))
  case random_get => fs1_case hc (quiet_table (randomGet_quiet _ _ _))
  case fd_prestat_get => fs1_case hc (quiet_table (fdPrestatGet_quiet _ _ _ _ _))
  case fd_prestat_dir_name => fs1_case hc (quiet_table (fdPrestatDirName_quiet _ _ _ _ _ _))
  case fd_renumber => fs1_case hc (renumber_table _ _ _ _)
  case fd_close => fs1_case hc (fdClose_table _ _)
  case fd_fdstat_get => fs1_case hc (quiet_table (statLike_quiet _ _ _ _ _))
  case fd_filestat_get => fs1_case hc (quiet_table (statLike_quiet _ _ _ _ _))
  case fd_seek => fs1_case hc (quiet_table (seekLike_quiet _ _ _ _))
  case fd_tell => fs1_case hc (quiet_table (seekLike_quiet _ _ _ _))
  case proc_exit => fs1_case hc (fun _ => rfl)
  case sched_yield => fs1_case hc (fun _ => rfl)

/-- first batch: nothing is allocated by guest numbers, except by fd_renumber (F16) -/
theorem call1e_alloc (fixed fixedRead : Bool) (h : Host) (fds : Fds) (m : Mem) (f : Fn1) (hf : f ≠ Fn1.fd_renumber)
    (a : List Nat) (r : Res) (hc : call1e fixed fixedRead h fds m f a = some r) : r.alloc = 0 := by
  cases f
  case poll_oneoff => fs1_case hc (pollOneoff_quiet _ _ _ _ _ _ _).2
  case fd_read => fs1_case hc (fdRead_quiet _ _ _ _ _ _ _ _).2
  case fd_pread => fs1_case hc (fdPread_quiet _ _ _ _ _ _ _).2
  case fd_write => fs1_case hc (fdWrite_quiet _ _ _ _ _ _).2
  case fd_pwrite => fs1_case hc (fdPwrite_quiet _ _ _ _ _ _).2
  case args_get => fs1_case hc (writeOffsetsAndValues_quiet _ _ _ _ _).2
  case environ_get => fs1_case hc (writeOffsetsAndValues_quiet _ _ _ _ _).2
  case args_sizes_get => fs1_case hc (write2xU32_quiet _ _ _ _ _).2
  case environ_sizes_get => fs1_case hc (write2xU32_quiet _ _ _ _ _).2
  case clock_res_get => fs1_case hc (clockResGet_quiet _ _ _ _).2
  case clock_time_get => fs1_case hc (clockTimeGet_quiet _ _ _ _).2
  case random_get => fs1_case hc (randomGet_quiet _ _ _).2
  case fd_prestat_get => fs1_case hc (fdPrestatGet_quiet _ _ _ _ _).2
  case fd_prestat_dir_name => fs1_case hc (fdPrestatDirName_quiet _ _ _ _ _ _).2
  case fd_renumber => exact absurd rfl hf
  case fd_close => fs1_case hc (fdClose_alloc _ _)
  case fd_fdstat_get => fs1_case hc (statLike_quiet _ _ _ _ _).2
  case fd_filestat_get => fs1_case hc (statLike_quiet _ _ _ _ _).2
  case fd_seek => fs1_case hc (seekLike_quiet _ _ _ _).2
  case fd_tell => fs1_case hc (seekLike_quiet _ _ _ _).2
  case proc_exit => fs1_case hc rfl
  case sched_yield => fs1_case hc rfl

end Wz.C15
