import Wz.Model.Config
/-
C19 — frame lemmas for the configuration heap model.

`WF st`      : every slice/map reference of every node points into the heap.
`Frame st st'`: nothing that existed in `st` (heap objects, node structs) was written on the way to `st'`.
Main results: a call of a method that the classifier accepts (`pathSafe`) only allocates — it never
writes an existing heap object or node (`execPath_frame`), hence the observable value of every earlier
configuration is unchanged (`frame_obs`); lifted to whole histories (`run_frame`).
-/
namespace Wz.Model.Config

/-- every reference of every node points into the heap -/
def WF (st : State) : Prop := ∀ c ∈ st.nodes, ∀ p ∈ c.refs, p.2.ptr < st.objs.length

/-- nothing that existed in `st` was written on the way to `st'` -/
def Frame (st st' : State) : Prop :=
  st'.objs.take st.objs.length = st.objs ∧ st'.nodes.take st.nodes.length = st.nodes

/-! ## Frame is a preorder -/

theorem Frame.refl (st : State) : Frame st st :=
  ⟨List.take_length, List.take_length⟩

private theorem take_trans {α} {a b c : List α} (h1 : b.take a.length = a) (h2 : c.take b.length = b) :
    c.take a.length = a := by
  have hle : a.length ≤ b.length := by
    have := congrArg List.length h1
    simp only [List.length_take] at this
    omega
  have : (c.take b.length).take a.length = a := by rw [h2]; exact h1
  rw [List.take_take] at this
  rwa [Nat.min_eq_left hle] at this

theorem Frame.trans {a b c : State} : Frame a b → Frame b c → Frame a c := by
  intro h1 h2
  exact ⟨take_trans h1.1 h2.1, take_trans h1.2 h2.2⟩

/-! ## `setAssoc` / `lookup` -/

theorem setAssoc_cons {β} (k : String) (b : β) (t : List (String × β)) (f : String) (v : β) :
    setAssoc ((k, b) :: t) f v = (if (k == f) = true then (k, v) else (k, b)) :: setAssoc t f v := rfl

theorem lookup_setAssoc_same {β} (l : List (String × β)) (f : String) (v r : β) :
    (setAssoc l f v).lookup f = some r → r = v := by
  induction l with
  | nil => intro h; simp [setAssoc] at h
  | cons hd tl ih =>
    obtain ⟨k, b⟩ := hd
    intro h
    rw [setAssoc_cons] at h
    by_cases hk : k = f
    · subst hk
      simp at h
      exact h.symm
    · have h1 : (k == f) = false := by simpa using hk
      have h2 : (f == k) = false := by simpa using (Ne.symm hk)
      simp only [h1, Bool.false_eq_true, if_false, List.lookup_cons, h2] at h
      exact ih h

theorem lookup_setAssoc_ne {β} (l : List (String × β)) (f g : String) (v : β) (hne : g ≠ f) :
    (setAssoc l f v).lookup g = l.lookup g := by
  induction l with
  | nil => simp [setAssoc]
  | cons hd tl ih =>
    obtain ⟨k, b⟩ := hd
    rw [setAssoc_cons]
    by_cases hk : (k == f) = true
    · have hkf : k = f := by simpa using hk
      have hgk : (g == k) = false := by rw [hkf]; simpa using hne
      rw [if_pos hk]
      simp only [List.lookup_cons, hgk]
      exact ih
    · rw [if_neg hk]
      simp only [List.lookup_cons]
      rw [ih]

theorem mem_setAssoc {β} (l : List (String × β)) (f : String) (v : β) (p : String × β) :
    p ∈ setAssoc l f v → p ∈ l ∨ p.2 = v := by
  intro h
  simp only [setAssoc, List.mem_map] at h
  obtain ⟨q, hq, rfl⟩ := h
  by_cases hk : (q.1 == f) = true
  · simp [hk]
  · simp [hk, hq]

/-! ## The invariant of a running method body -/

/-- `base` is the heap at call time; `fresh` the fields known to point past `base`. -/
structure Inv (base : List Obj) (fresh : List String) (w : Work) : Prop where
  pre : w.objs.take base.length = base
  le : base.length ≤ w.objs.length
  inb : ∀ p ∈ w.cfg.refs, p.2.ptr < w.objs.length
  fr : ∀ f ∈ fresh, ∀ r, w.cfg.getRef f = some r → base.length ≤ r.ptr

theorem Inv.mono {base fresh fresh' w} (h : Inv base fresh w) (hs : ∀ f ∈ fresh', f ∈ fresh) :
    Inv base fresh' w :=
  ⟨h.pre, h.le, h.inb, fun f hf => h.fr f (hs f hf)⟩

/-- general update: new heap keeps the prefix and does not shrink; field `f` is set to an in-bounds fresh ref -/
theorem Inv.update {base fresh w} (h : Inv base fresh w) (objs' : List Obj) (f : String) (r' : Ref)
    (hpre : objs'.take base.length = base) (hlen : w.objs.length ≤ objs'.length)
    (hr : r'.ptr < objs'.length) (hb : base.length ≤ r'.ptr) :
    Inv base (f :: fresh) { objs := objs', cfg := w.cfg.setRef f r' } := by
  refine ⟨hpre, Nat.le_trans h.le hlen, ?_, ?_⟩
  · intro p hp
    rcases mem_setAssoc _ _ _ _ hp with hp | hp
    · exact Nat.lt_of_lt_of_le (h.inb p hp) hlen
    · rw [hp]; exact hr
  · intro g hg r hgr
    by_cases hgf : g = f
    · subst hgf
      have := lookup_setAssoc_same _ _ _ _ hgr
      rw [this]; exact hb
    · have hg' : g ∈ fresh := by
        rcases List.mem_cons.mp hg with hg | hg
        · exact absurd hg hgf
        · exact hg
      have hl : w.cfg.getRef g = some r := by
        have := lookup_setAssoc_ne w.cfg.refs f g r' hgf
        simp only [Cfg.getRef, Cfg.setRef] at hgr ⊢
        rw [← this]; exact hgr
      exact h.fr g hg' r hl

theorem Inv.alloc {base fresh w} (h : Inv base fresh w) (x : Obj) (f : String) (len cap : Nat)
    :
    Inv base (f :: fresh)
      { objs := w.objs ++ [x], cfg := w.cfg.setRef f ⟨w.objs.length, len, cap⟩ } := by
  apply h.update
  · rw [List.take_append_of_le_length h.le]; exact h.pre
  · simp
  · simp
  · exact h.le

theorem Inv.write {base fresh w} (h : Inv base fresh w) (i : Nat) (x : Obj) (hb : base.length ≤ i) :
    Inv base fresh { objs := w.objs.set i x, cfg := w.cfg } := by
  refine ⟨?_, ?_, ?_, h.fr⟩
  · show (w.objs.set i x).take base.length = base
    rw [List.take_set_of_le hb]; exact h.pre
  · show base.length ≤ (w.objs.set i x).length
    rw [List.length_set]; exact h.le
  · intro p hp
    show p.2.ptr < (w.objs.set i x).length
    rw [List.length_set]; exact h.inb p hp

theorem Inv.writeSet {base fresh w} (h : Inv base fresh w) (i : Nat) (x : Obj) (f : String) (r' : Ref)
    (hb : base.length ≤ i) (hr : r'.ptr < w.objs.length) (hb' : base.length ≤ r'.ptr) :
    Inv base (f :: fresh) { objs := w.objs.set i x, cfg := w.cfg.setRef f r' } := by
  apply h.update
  · rw [List.take_set_of_le hb]; exact h.pre
  · rw [List.length_set]; exact Nat.le_refl _
  · rw [List.length_set]; exact hr
  · exact hb'

theorem getElem?_lt {α} {l : List α} {i : Nat} {x : α} (h : l[i]? = some x) : i < l.length := by
  obtain ⟨hlt, _⟩ := List.getElem?_eq_some_iff.mp h
  exact hlt

/-! ## Effects preserve the invariant -/

theorem execEff_inv {base fresh a w w'} (e : Eff) (hi : Inv base fresh w)
    (hs : (effSafe fresh e).1 = true) (h : execEff a w e = some w') :
    Inv base (effSafe fresh e).2 w' := by
  cases e with
  | assignScalar f e =>
    simp only [execEff, bind, Option.bind_eq_some_iff, pure] at h
    obtain ⟨v, _, h⟩ := h
    cases h
    exact ⟨hi.pre, hi.le, hi.inb, hi.fr⟩
  | assignArgSlice f p =>
    simp only [execEff, bind, Option.bind_eq_some_iff, pure, allocArr] at h
    obtain ⟨vs, _, r0, _, h⟩ := h
    cases h
    refine (hi.alloc _ f _ _).mono ?_
    intro g hg
    simp only [effSafe, List.mem_filter] at hg
    exact List.mem_cons_of_mem _ hg.1
  | assignFreshSlice f p =>
    simp only [execEff, bind, Option.bind_eq_some_iff, pure, allocArr] at h
    obtain ⟨vs, _, r0, _, h⟩ := h
    cases h
    exact hi.alloc _ f _ _
  | indexWrite f ix e =>
    simp only [effSafe, List.contains_iff_mem] at hs
    simp only [execEff, bind, Option.bind_eq_some_iff, pure] at h
    obtain ⟨r, hr, kv, _, key, _, i0, _, v, _, h⟩ := h
    split at h
    · split at h
      · cases h
        exact hi.write _ _ (hi.fr f hs r hr)
      · cases h
    · cases h
  | append f es =>
    simp only [effSafe, List.contains_iff_mem] at hs
    simp only [execEff, bind, Option.bind_eq_some_iff, pure] at h
    obtain ⟨r, hr, vs, _, h⟩ := h
    split at h
    · rename_i cells hc
      split at h
      · cases h
        refine (hi.writeSet _ _ f ⟨r.ptr, r.len + vs.length, r.cap⟩ (hi.fr f hs r hr) (getElem?_lt hc) (hi.fr f hs r hr)).mono ?_
        intro g hg
        simp only [effSafe] at hg
        exact List.mem_cons_of_mem _ hg
      · simp only [allocArr] at h
        cases h
        refine (hi.alloc _ f _ _).mono ?_
        intro g hg
        simp only [effSafe] at hg
        exact List.mem_cons_of_mem _ hg
    · cases h
  | mapWrite m k lenOf =>
    simp only [effSafe, List.contains_iff_mem] at hs
    simp only [execEff, bind, Option.bind_eq_some_iff, pure] at h
    obtain ⟨r, hr, rl, _, key, _, h⟩ := h
    split at h
    · cases h
      exact hi.write _ _ (hi.fr m hs r hr)
    · cases h

theorem execEffs_inv {base a} (es : List Eff) : ∀ {fresh w w'}, Inv base fresh w →
    effsSafe fresh es = true → execEffs a w es = some w' → ∃ fresh', Inv base fresh' w' := by
  induction es with
  | nil =>
    intro fresh w w' hi _ h
    simp only [execEffs] at h
    cases h
    exact ⟨fresh, hi⟩
  | cons e es ih =>
    intro fresh w w' hi hs h
    simp only [effsSafe, Bool.and_eq_true] at hs
    simp only [execEffs, Option.bind_eq_some_iff] at h
    obtain ⟨w1, h1, h2⟩ := h
    exact ih (execEff_inv e hi hs.1 h1) hs.2 h2

theorem cloneField_inv {base fresh w w'} (f : String) (hi : Inv base fresh w)
    (h : cloneField w f = some w') : Inv base (f :: fresh) w' := by
  simp only [cloneField, bind, Option.bind_eq_some_iff, pure] at h
  obtain ⟨r, _, h⟩ := h
  split at h
  · simp only [allocArr] at h
    cases h
    exact hi.alloc _ f _ _
  · cases h
    exact hi.alloc _ f _ _
  · cases h

theorem cloneFields_inv {base} (fs : List String) : ∀ {fresh w w'}, Inv base fresh w →
    cloneFields w fs = some w' → Inv base (fs ++ fresh) w' := by
  induction fs with
  | nil =>
    intro fresh w w' hi h
    simp only [cloneFields] at h
    cases h
    exact hi
  | cons f fs ih =>
    intro fresh w w' hi h
    simp only [cloneFields, Option.bind_eq_some_iff] at h
    obtain ⟨w1, h1, h2⟩ := h
    refine (ih (cloneField_inv f hi h1) h2).mono ?_
    intro g hg
    simp only [List.mem_append, List.mem_cons] at hg ⊢
    rcases hg with (hg | hg) | hg
    · exact Or.inr (Or.inl hg)
    · exact Or.inl hg
    · exact Or.inr (Or.inr hg)

/-! ## One path -/

theorem Inv.init {st : State} {recv : Nat} {c : Cfg} (hwf : WF st)
    (hc : st.nodes[recv]? = some c) : Inv st.objs [] { objs := st.objs, cfg := c } := by
  refine ⟨List.take_length, Nat.le_refl _, ?_, ?_⟩
  · intro p hp
    exact hwf c (List.mem_of_getElem? hc) p hp
  · intro f hf
    cases hf

/-- appending a node built under `Inv` -/
theorem frame_of_inv {st : State} {fresh : List String} {w : Work} (hwf : WF st)
    (hi : Inv st.objs fresh w) :
    Frame st { objs := w.objs, nodes := st.nodes ++ [w.cfg] } ∧
      WF { objs := w.objs, nodes := st.nodes ++ [w.cfg] } := by
  refine ⟨⟨hi.pre, List.take_left⟩, ?_⟩
  intro c hc p hp
  rcases List.mem_append.mp hc with hc | hc
  · exact Nat.lt_of_lt_of_le (hwf c hc p hp) hi.le
  · simp only [List.mem_singleton] at hc
    subst hc
    exact hi.inb p hp

/-- a safe path only allocates -/
theorem execPath_frame {st st' : State} {recv id : Nat} {p : Path} {a : Args} :
    WF st → pathSafe p = true → execPath st recv p a = some (st', id) → Frame st st' ∧ WF st' := by
  intro hwf hs h
  simp only [execPath, bind, Option.bind_eq_some_iff] at h
  obtain ⟨c, hc, w1, h1, w2, h2, h⟩ := h
  have hi0 : Inv st.objs [] { objs := st.objs, cfg := c } := Inv.init hwf hc
  cases hcl : p.clone with
  | self =>
    simp only [hcl, pure] at h
    simp only [pathSafe, hcl, List.isEmpty_iff] at hs
    simp only [hcl, deepFields, cloneFields] at h1
    cases h1
    simp only [hs, execEffs] at h2
    cases h2
    cases h
    have hset : st.nodes.set recv c = st.nodes := by
      obtain ⟨hlt, heq⟩ := List.getElem?_eq_some_iff.mp hc
      rw [← heq]; exact List.set_getElem_self hlt
    simp only [hset]
    exact ⟨Frame.refl st, hwf⟩
  | shallow =>
    simp only [hcl, pure] at h
    simp only [pathSafe, hcl] at hs
    simp only [hcl, deepFields, cloneFields] at h1
    cases h1
    obtain ⟨fresh', hi2⟩ := execEffs_inv p.effs hi0 hs h2
    cases h
    exact frame_of_inv hwf hi2
  | deep fs =>
    simp only [hcl, pure] at h
    simp only [pathSafe, hcl] at hs
    simp only [hcl, deepFields] at h1
    have hi1 := cloneFields_inv fs hi0 h1
    simp only [List.append_nil] at hi1
    obtain ⟨fresh', hi2⟩ := execEffs_inv p.effs hi1 hs h2
    cases h
    exact frame_of_inv hwf hi2

/-- the id returned by a call is a valid node of the new state (the result exists) -/
theorem execPath_id_lt {st st' : State} {recv id : Nat} {p : Path} {a : Args} :
    execPath st recv p a = some (st', id) → id < st'.nodes.length := by
  intro h
  simp only [execPath, bind, Option.bind_eq_some_iff] at h
  obtain ⟨c, hc, w1, h1, w2, h2, h⟩ := h
  have hlt := getElem?_lt hc
  cases hcl : p.clone with
  | self =>
    simp only [hcl, pure] at h
    cases h
    simp only [List.length_set]
    exact hlt
  | shallow =>
    simp only [hcl, pure] at h
    cases h
    simp
  | deep fs =>
    simp only [hcl, pure] at h
    cases h
    simp

/-! ## Calls, constructors, histories -/

theorem selectPath_mem {objs c a} (ps : List Path) : ∀ {p}, selectPath objs c a ps = some p → p ∈ ps := by
  induction ps with
  | nil => intro p h; simp [selectPath] at h
  | cons q qs ih =>
    intro p h
    simp only [selectPath] at h
    split at h
    · cases h; exact List.mem_cons_self
    · exact List.mem_cons_of_mem _ (ih h)
    · cases h

theorem call_frame {tbl : List Method} {st st' : State} {recv id : Nat} {name : String} {a : Args} :
    allSafe tbl = true → WF st → call tbl st recv name a = some (st', id) → Frame st st' ∧ WF st' := by
  intro hall hwf h
  simp only [call, bind, Option.bind_eq_some_iff] at h
  obtain ⟨c, _, m, hm, ps, hps, p, hp, h⟩ := h
  have hmem : m ∈ tbl := List.mem_of_find?_eq_some hm
  have hms : methodSafe tbl m = true := (List.all_eq_true.mp hall) m hmem
  simp only [methodSafe, hps] at hms
  have hpsafe : pathSafe p = true := (List.all_eq_true.mp hms) p (selectPath_mem ps hp)
  exact execPath_frame hwf hpsafe h

/-- invariant of `newFields` -/
theorem newFields_inv {base : List Obj} (fields : List (String × Init)) : ∀ (w : Work),
    w.objs.take base.length = base → base.length ≤ w.objs.length →
    (∀ p ∈ w.cfg.refs, p.2.ptr < w.objs.length) →
    (newFields w fields).objs.take base.length = base ∧ base.length ≤ (newFields w fields).objs.length ∧
      (∀ p ∈ (newFields w fields).cfg.refs, p.2.ptr < (newFields w fields).objs.length) := by
  induction fields with
  | nil => intro w h1 h2 h3; exact ⟨h1, h2, h3⟩
  | cons hd tl ih =>
    intro w h1 h2 h3
    obtain ⟨f, i⟩ := hd
    cases i with
    | scalar v =>
      simp only [newFields]
      exact ih _ h1 h2 h3
    | slice vs cap =>
      simp only [newFields, allocArr]
      apply ih
      · show (w.objs ++ _).take base.length = base
        rw [List.take_append_of_le_length h2]; exact h1
      · simp only [List.length_append, List.length_singleton]; omega
      · intro p hp
        simp only [List.mem_append, List.mem_singleton] at hp
        simp only [List.length_append, List.length_singleton]
        rcases hp with hp | hp
        · exact Nat.lt_succ_of_lt (h3 p hp)
        · subst hp; exact Nat.lt_succ_self _
    | map kv =>
      simp only [newFields]
      apply ih
      · show (w.objs ++ _).take base.length = base
        rw [List.take_append_of_le_length h2]; exact h1
      · simp only [List.length_append, List.length_singleton]; omega
      · intro p hp
        simp only [List.mem_append, List.mem_singleton] at hp
        simp only [List.length_append, List.length_singleton]
        rcases hp with hp | hp
        · exact Nat.lt_succ_of_lt (h3 p hp)
        · subst hp; exact Nat.lt_succ_self _

theorem newNode_frame (st : State) (kind : String) (fields : List (String × Init)) :
    WF st → Frame st (newNode st kind fields).1 ∧ WF (newNode st kind fields).1 := by
  intro hwf
  have hinv := newFields_inv (base := st.objs) fields
    { objs := st.objs, cfg := { kind := kind, scalars := [], refs := [] } }
    List.take_length (Nat.le_refl _) (by intro p hp; cases hp)
  obtain ⟨h1, h2, h3⟩ := hinv
  simp only [newNode]
  refine ⟨⟨h1, List.take_left⟩, ?_⟩
  intro c hc p hp
  rcases List.mem_append.mp hc with hc | hc
  · exact Nat.lt_of_lt_of_le (hwf c hc p hp) h2
  · simp only [List.mem_singleton] at hc
    subst hc
    exact h3 p hp

theorem step_frame {tbl : List Method} {st st' : State} {s : Step} :
    allSafe tbl = true → WF st → step tbl st s = some st' → Frame st st' ∧ WF st' := by
  intro hall hwf h
  cases s with
  | new k fs =>
    simp only [step] at h
    cases h
    exact newNode_frame st k fs hwf
  | call r n a =>
    simp only [step, Option.map_eq_some_iff] at h
    obtain ⟨⟨st1, id⟩, h, rfl⟩ := h
    exact call_frame hall hwf h

theorem run_frame {tbl : List Method} {st st' : State} {ss : List Step} :
    allSafe tbl = true → WF st → run tbl st ss = some st' → Frame st st' ∧ WF st' := by
  intro hall
  induction ss generalizing st with
  | nil =>
    intro hwf h
    simp only [run] at h
    cases h
    exact ⟨Frame.refl _, hwf⟩
  | cons s ss ih =>
    intro hwf h
    simp only [run, Option.bind_eq_some_iff] at h
    obtain ⟨st1, h1, h2⟩ := h
    obtain ⟨hf1, hwf1⟩ := step_frame hall hwf h1
    obtain ⟨hf2, hwf2⟩ := ih hwf1 h2
    exact ⟨hf1.trans hf2, hwf2⟩

/-! ## Observations -/

theorem view_take {objs objs' : List Obj} {n : Nat} (h : objs'.take n = objs) (r : Ref)
    (hr : r.ptr < n) : view objs' r = view objs r := by
  have : objs'[r.ptr]? = objs[r.ptr]? := by
    rw [← h, List.getElem?_take_of_lt hr]
  simp only [view, this]

/-- unchanged heap prefix + unchanged node ⇒ unchanged observable value -/
theorem frame_obs {st st' : State} : WF st → Frame st st' → ∀ i, i < st.nodes.length → obs st' i = obs st i := by
  intro hwf hf i hi
  have hnode : st'.nodes[i]? = st.nodes[i]? := by
    conv => rhs; rw [← hf.2]
    rw [List.getElem?_take_of_lt hi]
  simp only [obs, hnode]
  cases hc : st.nodes[i]? with
  | none => rfl
  | some c =>
    simp only [Option.map_some, obsCfg]
    have hmem : c ∈ st.nodes := List.mem_of_getElem? hc
    congr 2
    apply List.map_congr_left
    intro p hp
    rw [view_take hf.1 p.2 (hwf c hmem p hp)]

theorem WF_init : WF ({} : State) := by
  intro c hc
  cases hc

/-- a path either works on the receiver itself (`Clone.self`) or returns a brand-new node -/
theorem execPath_result {st st' : State} {recv id : Nat} {p : Path} {a : Args}
    (h : execPath st recv p a = some (st', id)) :
    (p.clone = .self ∧ id = recv ∧ st'.nodes.length = st.nodes.length) ∨
    (p.clone ≠ .self ∧ id = st.nodes.length ∧ st'.nodes.length = st.nodes.length + 1) := by
  unfold execPath at h
  simp only [bind, Option.bind_eq_some_iff] at h
  obtain ⟨c, _, w1, _, w2, _, h⟩ := h
  cases hc : p.clone <;> simp only [hc, pure, Option.some.injEq, Prod.mk.injEq] at h <;> obtain ⟨rfl, rfl⟩ := h
  · left; simp
  · right; simp
  · right; simp

end Wz.Model.Config
