import Wz.Proofs.C15_Poll

namespace Wz.C15
open Wz.Model Wz.Model.Wasi Wz.Gen.Wasi

/-- With exact (unwrapped) buffer sizes the subscription loop never fails a host bounds check, and the
number of acknowledged plus delayed events never exceeds the number of subscriptions. -/
theorem pollLoop_no_panic (fds : Fds) (inp out n : Nat) (hn : n * 48 < 4294967296) :
    ∀ (fuel i : Nat) (s : PollSt), s.nevents + s.blocking.length ≤ i → i ≤ n →
      (pollLoop fds inp (n * 48) out (n * 32) n fuel i s).2 ≠ some Err.panic ∧
      ((pollLoop fds inp (n * 48) out (n * 32) n fuel i s).2 = none →
        (pollLoop fds inp (n * 48) out (n * 32) n fuel i s).1.nevents +
        (pollLoop fds inp (n * 48) out (n * 32) n fuel i s).1.blocking.length ≤ n) := by
  intro fuel
  induction fuel with
  | zero =>
    intro i s h1 h2
    simp only [pollLoop]
    exact ⟨by simp, fun _ => by omega⟩
  | succ fuel ih =>
    intro i s h1 h2
    unfold pollLoop
    by_cases hi : i ≥ n
    · simp only [hi, if_true]
      exact ⟨by simp, fun _ => by omega⟩
    · have hlt : i < n := by omega
      have e1 : w32 (i * 48) = i * 48 := by unfold w32; omega
      have e2 : w32 (i * 48 + 8) = i * 48 + 8 := by unfold w32; omega
      have e3 : w32 (i * 48 + 8 + 8) = i * 48 + 16 := by unfold w32; omega
      have e4 : w32 (s.nevents * 32) = s.nevents * 32 := by unfold w32; omega
      have c1 : ¬ (i * 48 + 8 ≥ n * 48) := by omega
      have c2 : ¬ (i * 48 + 16 > n * 48) := by omega
      have c3 : ¬ (i * 48 > i * 48 + 8 ∨ i * 48 + 8 > n * 48) := by omega
      have c4 : ¬ (n * 48 - (i * 48 + 16) < 32) := by omega
      have c5 : ¬ (n * 48 - (i * 48 + 16) < 4) := by omega
      have hwe : ∀ m ws ud e ty, (writeEvent m ws out (n * 32) (s.nevents * 32) ud e ty).2.2 = true :=
        fun m ws ud e ty => writeEvent_ok m ws out (n * 32) (s.nevents * 32) ud e ty (by omega)
      simp only [hi, if_false, e1, e2, e3, e4, c1, c2, c3, c4, c5]
      repeat' split
      all_goals first
        | (constructor; (· simp [einval, ebadf]); (· intro h; simp at h))
        | (apply ih <;> (try simp only [List.length_cons]) <;> omega)
        | (rename_i heq; have h := congrArg (fun x => x.2.2) heq; dsimp only at h; rw [hwe] at h; exact absurd h (by decide))

theorem pollFlush_ok (out n : Nat) (hn : n * 32 < 4294967296) :
    ∀ (bl : List (Nat × Nat)) (s : PollSt), s.nevents + bl.length ≤ n →
      (pollFlush out (n * 32) bl s).2 = true := by
  intro bl
  induction bl with
  | nil => intro s _; simp [pollFlush]
  | cons b rest ih =>
    intro s h
    obtain ⟨ud, ty⟩ := b
    simp only [List.length_cons] at h
    unfold pollFlush
    have e4 : w32 (s.nevents * 32) = s.nevents * 32 := by unfold w32; omega
    have hwe := writeEvent_ok s.m s.ws out (n * 32) (s.nevents * 32) ud 0 ty (by omega)
    rw [e4]
    split
    · rename_i heq
      rw [heq] at hwe
      simp at hwe
    · apply ih
      simp only
      omega

theorem pollAfter_no_panic (fds : Fds) (inp out n res : Nat) (acc : List (Nat × Nat)) (s0 : PollSt)
    (hn : n * 48 < 4294967296) (h1 : s0.nevents = 0) (h2 : s0.blocking = []) :
    (pollAfter fds inp (n * 48) out (n * 32) n res acc s0).err ≠ Err.panic := by
  have key := pollLoop_no_panic fds inp out n hn n 0 s0 (by simp [h1, h2]) (Nat.zero_le _)
  unfold pollAfter
  generalize pollLoop fds inp (n * 48) out (n * 32) n n 0 s0 = r at key
  obtain ⟨s, oe⟩ := r
  cases oe with
  | some e =>
    simp only
    intro hc
    exact key.1 (by simp only; rw [hc])
  | none =>
    have hb := key.2 rfl
    simp only at hb ⊢
    split
    · simp
    · split
      · simp [ebadf]
      · have h2 := pollFlush_ok out n (by omega) s.blocking.reverse s (by simpa using hb)
        generalize pollFlush out (n * 32) s.blocking.reverse s = q at h2
        obtain ⟨s', b⟩ := q
        simp only at h2
        subst h2
        simp only
        split <;> simp
      · simp

/-- poll_oneoff never fails a host bounds check when the subscription byte size does not wrap. -/
theorem pollOneoff_no_panic_of_exact (fixed : Bool) (fds : Fds) (m : Mem) (inp out n res : Nat)
    (hn : n * 48 < 4294967296) : (pollOneoff fixed fds m inp out n res).err ≠ Err.panic := by
  have e1 : w32 (n * 48) = n * 48 := by unfold w32; omega
  have e2 : w32 (n * 32) = n * 32 := by unfold w32; omega
  unfold pollOneoff
  simp only [e1, e2]
  repeat' split
  all_goals first
    | (simp [einval, efault]; done)
    | exact pollAfter_no_panic fds inp out n res _ _ hn rfl rfl
