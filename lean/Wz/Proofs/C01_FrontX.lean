/-
C01 (front end, extension by `extend8_s` / `extend16_s`): the simulation of `C01_Front_Sim` / `C01_Front` carried over to
the wrapped SSA of `Wz.Model.FrontendSLX`.  A `base` instruction is executed by `SsaPass.execInstr` on both sides, so
the one-instruction lemmas of the base fragment are reused through `execPre` (a list of base instructions run up to
the first transfer of control); only `SExtend x, 8/16->32/64` is new.
-/
import Wz.Proofs.C01_Front
import Wz.Proofs.C01_Front_WF
import Wz.Model.FrontendSLX

set_option linter.unusedSimpArgs false

namespace Wz.Proofs.Front
open Wz.Spec Wz.Model.SsaPass Wz.Model.FrontendSL Wz.Model.FrontendSLX Wz.Proofs.FlatLower

/-- a list of base instructions up to the first transfer of control -/
def execPre (w : World) : List Instr → St → Sum Ctl St
  | [], st => .inr st
  | i :: is, st =>
    match execInstr w st.env i st with
    | .next st' => execPre w is st'
    | c => .inl c

theorem execBody_pre (w : World) : ∀ (out rest : List Instr) (st : St),
    execBody w [] (out ++ rest) st =
      match execPre w out st with
      | .inr st' => execBody w [] rest st'
      | .inl c => some c := by
  intro out
  induction out with
  | nil => intro rest st; rfl
  | cons i is ih =>
    intro rest st
    have : (fun v => st.env (res [] v)) = st.env := rfl
    simp only [List.cons_append, execBody, execPre, this]
    cases h : execInstr w st.env i st <;> simp only [ih]

theorem execBodyX_pre (w : World) : ∀ (out : List Instr) (rest : List XInstr) (st : St),
    execBodyX w (out.map .base ++ rest) st =
      match execPre w out st with
      | .inr st' => execBodyX w rest st'
      | .inl c => some c := by
  intro out
  induction out with
  | nil => intro rest st; rfl
  | cons i is ih =>
    intro rest st
    simp only [List.map_cons, List.cons_append, execBodyX, execPre]
    cases h : execInstr w st.env i st <;> simp only [ih]

theorem pre_of_next {w : World} {out : List Instr} {env env' : Val → Nat}
    (h : ∀ rest, execBody w [] (out ++ rest) (mk env) = execBody w [] rest (mk env')) :
    execPre w out (mk env) = .inr (mk env') := by
  have h1 := h [.ret []]
  have h2 := h [.ret [0]]
  rw [execBody_pre, execBody_ret] at h1 h2
  cases hp : execPre w out (mk env) with
  | inl c =>
    rw [hp] at h1 h2
    simp only [Option.some.injEq] at h1 h2
    rw [h1] at h2
    simp at h2
  | inr st' =>
    rw [hp] at h1
    have : (fun v => st'.env (res [] v)) = st'.env := rfl
    simp only [execBody, this, execInstr, List.map_nil, Option.some.injEq, Ctl.ret.injEq, true_and] at h1
    rw [h1]

theorem pre_of_trap {w : World} {out : List Instr} {env : Val → Nat} {code : Nat}
    (h : ∀ rest, execBody w [] (out ++ rest) (mk env) = some (.trap code (mk env))) :
    execPre w out (mk env) = .inl (.trap code (mk env)) := by
  have h1 := h [.ret []]
  rw [execBody_pre] at h1
  cases hp : execPre w out (mk env) with
  | inl c =>
    rw [hp] at h1
    simp only [Option.some.injEq] at h1
    rw [h1]
  | inr st' =>
    rw [hp] at h1
    have : (fun v => st'.env (res [] v)) = st'.env := rfl
    simp [execBody, this, execInstr] at h1

def extStr : ExtW → String | .w8 => "extend8_s" | .w16 => "extend16_s"

theorem split_ext (t : Ty) (w : ExtW) : (extName t w).splitOn "." = [tyStr t, extStr w] := by
  cases t <;> cases w <;> simp +decide [extName, tyStr, extStr, String.splitOn, String.splitOnAux.eq_1]

theorem setWidth_ofNat (n k x : Nat) (h : k ≤ n) : (BitVec.ofNat n x).setWidth k = BitVec.ofNat k x := by
  apply BitVec.eq_of_toNat_eq
  simp only [BitVec.toNat_setWidth, BitVec.toNat_ofNat]
  exact Nat.mod_mod_of_dvd x (Nat.pow_dvd_pow 2 h)

theorem scalar_ext (t : Ty) (w : ExtW) (a : Nat) :
    Num.scalar (extName t w) [a] = some (.val (evalSext w.bits t a)) := by
  rw [scalar1_eq (split_ext t w)]
  cases t <;> cases w <;>
    simp +decide [sc1, extName, tyStr, extStr, Num.conv, Num.iun, Option.orElse, Int.iextendS, Num.bv, evalSext,
      ExtW.bits, Ty.bits, setWidth_ofNat]

theorem evalSext_lt (frm : Nat) (t : Ty) (x : Nat) : evalSext frm t x < 2 ^ t.bits := BitVec.isLt _
def StepOKX (w : World) (m : Wasm.Module) (lt : List Ty) (i : SIX) (s : LS) (tys' : List Ty)
    (stack : List Nat) (locals : Array Nat) (env : Val → Nat) (st : Wasm.Store) (n : Nat) : Prop :=
  (∃ stack' locals' env',
      Wasm.execInstr m (n + 1) i.toInstr ⟨stack, locals⟩ st = (.next, ⟨stack', locals'⟩, st) ∧
      (∀ rest, execBodyX w ((lowerXI i s).1 ++ rest) (mk env) = execBodyX w rest (mk env')) ∧
      Inv lt (lowerXI i s).2 tys' stack' locals' env') ∨
  (∃ code fr', Wasm.execInstr m (n + 1) i.toInstr ⟨stack, locals⟩ st = (.trap (trapKind code), fr', st) ∧
      (∀ rest, execBodyX w ((lowerXI i s).1 ++ rest) (mk env) = some (.trap code (mk env))) ∧
      (code = codeDivByZero ∨ code = codeOverflow))

variable {w : World} {m : Wasm.Module} {lt : List Ty} {s : LS} {tys tys' : List Ty} {stack : List Nat}
  {locals : Array Nat} {env : Val → Nat}

theorem stepX_base (i : SI) (hi : i ≠ .ret) (st : Wasm.Store) (n : Nat)
    (hinv : Inv lt s tys stack locals env) (htc : tcStep lt i tys = some tys') :
    StepOKX w m lt (.base i) s tys' stack locals env st n := by
  rcases sim_step (w := w) (m := m) i hi st n hinv htc with
    ⟨stack', locals', env', hsp, hss, hinv'⟩ | ⟨code, fr', hsp, hss, hcode⟩
  · refine .inl ⟨stack', locals', env', hsp, ?_, hinv'⟩
    intro rest
    simp only [lowerXI, execBodyX_pre, pre_of_next hss]
  · refine .inr ⟨code, fr', hsp, ?_, hcode⟩
    intro rest
    simp only [lowerXI, execBodyX_pre, pre_of_trap hss]

theorem stepX_ext (t : Ty) (ew : ExtW) (st : Wasm.Store) (n : Nat)
    (hinv : Inv lt s tys stack locals env) (htc : tcStepX lt (.ext t ew) tys = some tys') :
    StepOKX w m lt (.ext t ew) s tys' stack locals env st n := by
  match tys, htc, hinv with
  | [], h, _ => simp [tcStepX] at h
  | a :: r, h, hinv =>
    simp only [tcStepX] at h
    split at h
    · rename_i hab
      subst hab
      simp only [Option.some.injEq] at h; subst h
      obtain ⟨vx, s1, x, stk1, hs1, rfl, hx, hxR, hxF, inv1⟩ := hinv.uncons
      obtain ⟨next, stk, locs⟩ := s
      simp only at hs1 hxF inv1
      subst hs1
      refine .inl ⟨evalSext ew.bits a x :: stk1, locals, upd env next (evalSext ew.bits a x), ?_, ?_, ?_⟩
      · simp only [SIX.toInstr, Wasm.execInstr, scalar_ext a ew x, Wasm.numResult]
      · intro rest
        simp only [lowerXI, LS.pop, List.headD_cons, List.tail_cons, List.cons_append, List.nil_append, execBodyX]
        have : (mk env).env vx = x := hx
        rw [this, mk_set]
      · have := inv1.pushNew a _ (evalSext_lt ew.bits a x) 1 (Nat.le_refl _)
        simpa [lowerXI, LS.pop, LS.pushNew] using this
    · cases h

theorem sim_stepX (i : SIX) (hi : i ≠ .base .ret) (st : Wasm.Store) (n : Nat)
    (hinv : Inv lt s tys stack locals env) (htc : tcStepX lt i tys = some tys') :
    StepOKX w m lt i s tys' stack locals env st n := by
  cases i with
  | base j => exact stepX_base j (fun h => hi (by rw [h])) st n hinv htc
  | ext t ew => exact stepX_ext t ew st n hinv htc

def BodyRelX (nres : Nat) (r : Wasm.Ctl × Wasm.Frame × Wasm.Store) (o : Option Ctl) : Prop := BodyRel nres r o

theorem execBodyX_ret (w : World) (vs : List Val) (env : Val → Nat) :
    execBodyX w [.base (.ret vs)] (mk env) = some (.ret (vs.map env) (mk env)) := by
  simp only [execBodyX, execInstr, mk]

theorem sim_bodyX (res : List Ty) (nres : Nat) : ∀ (body : List SIX) (s : LS) (tys : List Ty) (stack : List Nat)
    (locals : Array Nat) (env : Val → Nat) (st : Wasm.Store) (n : Nat),
    Inv lt s tys stack locals env → tcBodyX lt res body tys = true → body.length + 1 ≤ n →
    BodyRel nres (Wasm.execSeq m n (body.map SIX.toInstr) ⟨stack, locals⟩ st)
      (execBodyX w (lowerBodyX nres body s) (mk env)) := by
  intro body
  induction body with
  | nil =>
    intro s tys stack locals env st n hinv _ hn
    obtain ⟨n, rfl⟩ : ∃ k, n = k + 1 := ⟨n - 1, by omega⟩
    simp only [List.map_nil, Wasm.execSeq, lowerBodyX, BodyRel, execBodyX_ret, peekN_env hinv]
    exact ⟨env, rfl⟩
  | cons i is ih =>
    intro s tys stack locals env st n hinv htc hn
    simp only [List.length_cons] at hn
    obtain ⟨n, rfl⟩ : ∃ k, n = k + 2 := ⟨n - 2, by omega⟩
    by_cases hi : i = .base .ret
    · subst hi
      simp only [List.map_cons, SIX.toInstr, SI.toInstr, Wasm.execSeq, Wasm.execInstr, lowerBodyX, BodyRel,
        execBodyX_ret, peekN_env hinv]
      exact ⟨env, rfl⟩
    · have hlb : lowerBodyX nres (i :: is) s = (lowerXI i s).1 ++ lowerBodyX nres is (lowerXI i s).2 := by
        cases i with
        | ext t ew => rfl
        | base j => cases j <;> first | rfl | exact absurd rfl hi
      have htc' : ∃ tys', tcStepX lt i tys = some tys' ∧ tcBodyX lt res is tys' = true := by
        cases i with
        | ext t ew =>
          simp only [tcBodyX] at htc
          split at htc
          · rename_i tys' h; exact ⟨tys', h, htc⟩
          · cases htc
        | base j =>
          cases j <;> first
            | exact absurd rfl hi
            | (simp only [tcBodyX] at htc
               split at htc
               · rename_i tys' h; exact ⟨tys', h, htc⟩
               · cases htc)
      obtain ⟨tys', hstep, hrest⟩ := htc'
      rw [hlb]
      simp only [List.map_cons, Wasm.execSeq]
      rcases sim_stepX (w := w) (m := m) i hi st n hinv hstep with
        ⟨stack', locals', env', hsp, hss, hinv'⟩ | ⟨code, fr', hsp, hss, hcode⟩
      · rw [hsp, hss]
        exact ih _ _ _ _ _ st (n + 1) hinv' hrest (by omega)
      · rw [hsp, hss]
        simp only [BodyRel]
        exact ⟨code, env, rfl, rfl, hcode⟩
theorem declLocals_execX (w : World) (ls : List Ty) (n : Nat) (z : Zeros) (e : Val → Nat) (rest : List XInstr)
    (he : ∀ v, n ≤ v → e v = 0) :
    execBodyX w ((declLocals ls n z).1.map .base ++ rest) (mk e) = execBodyX w rest (mk e) := by
  rw [execBodyX_pre, pre_of_next (fun r => declLocals_exec w ls n z e r he)]

theorem lowerX_refines_full (f : FnX) (hwt : wellTypedX f = true) (args : List Nat) (hargs : ArgsOK f.sig args)
    (w : World) (ec mc : Nat) (n : Nat) (hn : f.body.length + 3 ≤ n) :
    runX w (lowerX f) (ec :: mc :: args) = ofSpec (runSpecX f args n) ∧
    ofSsa (runX w (lowerX f) (ec :: mc :: args)) = runSpecX f args n ∧
    runSpecX f args n ≠ .exhausted := by
  obtain ⟨henv1_hi, hinv⟩ := entry_inv f.sig args hargs ec mc
  obtain ⟨hlen, hrange⟩ := hargs
  have hbody : execBodyX w (entryInstrsX f) (mk (entryEnv f.sig ec mc args)) =
      execBodyX w (lowerBodyX f.results.length f.body (initLS f.sig).2) (mk (entryEnv f.sig ec mc args)) :=
    declLocals_execX w f.locals (f.params.length + 2) {} _ _ henv1_hi
  have hssa : runX w (lowerX f) (ec :: mc :: args) =
      match execBodyX w (lowerBodyX f.results.length f.body (initLS f.sig).2) (mk (entryEnv f.sig ec mc args)) with
      | some (.ret vs st') => .values vs st'.mem st'.trace
      | some (.trap c st') => .trap c st'.mem st'.trace
      | _ => .error := by
    rw [← hbody]
    have hlen' : ¬ (entryParams f.sig).length ≠ (ec :: mc :: args).length := by
      have : f.sig.params = f.params := rfl
      simp [entryParams, hlen, this]
    have henv : ({ St.init with env := bindVals St.init.env (entryParams f.sig) (ec :: mc :: args) } : St) =
        mk (entryEnv f.sig ec mc args) := rfl
    simp only [runX, lowerX, hlen', if_false, henv]
    rfl
  obtain ⟨k, rfl⟩ : ∃ k, n = k + 1 := ⟨n - 1, by omega⟩
  have hrel := sim_bodyX (w := w) (m := f.toModule) f.results f.results.length f.body (initLS f.sig).2 [] []
    (args ++ f.locals.map (fun _ => 0)).toArray (entryEnv f.sig ec mc args) {} k hinv hwt (by omega)
  rw [hssa]
  have hlen2 : args.length = f.params.length := hlen
  have hft : Wasm.funcType f.toModule 0 = ⟨f.params.map Ty.toVT, f.results.map Ty.toVT⟩ := rfl
  have htake : args.reverse.take f.params.length = args.reverse :=
    List.take_of_length_le (by simp [hlen2])
  have hdrop : args.reverse.drop f.params.length = [] :=
    List.drop_of_length_le (by simp [hlen2])
  have himp : ¬ (0 < f.toModule.imports.length) := by simp [FnX.toModule]
  have hfn : f.toModule.funcs.getD (0 - f.toModule.imports.length) default =
      ⟨0, f.locals.map Ty.toVT, f.body.map SIX.toInstr⟩ := rfl
  simp only [runSpecX, Wasm.invoke, Wasm.callFunc, hft, htake, hdrop, himp, if_false, hfn, List.reverse_reverse,
    List.map_map, List.append_nil, List.length_map]
  have hcomp : ((fun _ => 0) ∘ Ty.toVT : Ty → Nat) = fun _ => 0 := rfl
  rw [hcomp]
  generalize Wasm.execSeq f.toModule k (List.map SIX.toInstr f.body)
      { locals := (args ++ List.map (fun _ => 0) f.locals).toArray } {} = r at hrel ⊢
  obtain ⟨ctl, fr', st'⟩ := r
  cases ctl with
  | next =>
    obtain ⟨env', ho⟩ := hrel
    rw [ho]
    simp only [ofSpec, ofSsa, mk, List.take_take, Nat.min_self, ne_eq, reduceCtorEq, not_false_eq_true, and_self]
  | ret =>
    obtain ⟨env', ho⟩ := hrel
    rw [ho]
    simp only [ofSpec, ofSsa, mk, List.take_take, Nat.min_self, ne_eq, reduceCtorEq, not_false_eq_true, and_self]
  | br l => exact absurd hrel (by simp [BodyRel])
  | exhausted => exact absurd hrel (by simp [BodyRel])
  | trap kd =>
    obtain ⟨code, env', ho, hk, hcode⟩ := hrel
    subst hk
    have : trapCode (trapKind code) = code := by
      rcases hcode with rfl | rfl <;> decide
    rw [ho]
    simp only [ofSpec, ofSsa, mk, this, ne_eq, reduceCtorEq, not_false_eq_true, and_self]

/-! ### the extension is conservative -/

theorem lowerBodyX_base (nres : Nat) : ∀ (body : List SI) (s : LS),
    lowerBodyX nres (body.map .base) s = (lowerBody nres body s).map .base := by
  intro body
  induction body with
  | nil => intro s; rfl
  | cons i is ih =>
    intro s
    cases i <;> first
      | rfl
      | (simp only [List.map_cons, lowerBodyX, lowerBody, lowerXI, ih, List.map_append])

/-- on a function of the base fragment the extended translator produces the same instructions -/
theorem lowerX_base (f : Fn) : (lowerX (toX f)).instrs = (entryInstrs f).map .base ∧
    (lowerX (toX f)).params = entryParams f := by
  refine ⟨?_, rfl⟩
  show (initLS f).1.map .base ++ lowerBodyX f.results.length (f.body.map .base) (initLS f).2 = _
  rw [lowerBodyX_base]
  simp only [entryInstrs, List.map_append]

theorem execInstr_goto {w : World} {ρ : Val → Nat} {i : Instr} {st st' : St} {b : BlockId} {as : List Nat}
    (h : execInstr w ρ i st = .goto b as st') : i.branch? ≠ none := by
  cases i <;> simp only [execInstr] at h <;> first
    | (simp [Instr.branch?]; done)
    | (cases h; done)
    | (split at h <;> cases h; done)
    | (split at h <;> first | (cases h; done) | (split at h <;> cases h))

theorem execBody_goto {w : World} : ∀ {is : List Instr} {st st' : St} {b : BlockId} {as : List Nat},
    execBody w [] is st = some (.goto b as st') → ∃ i ∈ is, i.branch? ≠ none := by
  intro is
  induction is with
  | nil => intro st st' b as h; cases h
  | cons i is ih =>
    intro st st' b as h
    have : (fun v => st.env (res [] v)) = st.env := rfl
    simp only [execBody, this] at h
    cases hi : execInstr w st.env i st with
    | next st1 =>
      rw [hi] at h
      obtain ⟨j, hj, hb⟩ := ih h
      exact ⟨j, List.mem_cons_of_mem _ hj, hb⟩
    | goto b' as' st1 => exact ⟨i, List.mem_cons_self .., execInstr_goto hi⟩
    | ret vs st1 => rw [hi] at h; cases h
    | trap c st1 => rw [hi] at h; cases h

theorem execBodyX_base (w : World) (is : List Instr) (st : St) :
    execBodyX w (is.map .base) st = execBody w [] is st := by
  have h1 := execBodyX_pre w is [] st
  have h2 := execBody_pre w is [] st
  rw [List.append_nil] at h1 h2
  rw [h1, h2]
  cases execPre w is st <;> rfl

/-- … and on functions without `sext` (and without branches) the wrapped semantics is `SsaPass.run` on the function
of one block -/
theorem runX_base (w : World) (ps : List (Val × Ty)) (is : List Instr) (hbr : ∀ i ∈ is, i.branch? = none)
    (args : List Nat) (fuel : Nat) :
    runX w ⟨ps, is.map .base⟩ args = run w (sb ps is) args (fuel + 1) := by
  have key : ∀ o : Option Ctl, (∀ b as st', o ≠ some (.goto b as st')) →
      (match o with
       | some (.ret vs st') => Outcome.values vs st'.mem st'.trace
       | some (.trap c st') => Outcome.trap c st'.mem st'.trace
       | _ => Outcome.error) =
      (match o with
       | some (.goto b' args' st') => runFrom w (sb ps is) fuel b' args' st'
       | some (.ret vs st') => Outcome.values vs st'.mem st'.trace
       | some (.trap c st') => Outcome.trap c st'.mem st'.trace
       | _ => Outcome.error) := by
    intro o ho
    cases o with
    | none => rfl
    | some c =>
      cases c with
      | goto b as st' => exact absurd rfl (ho b as st')
      | _ => rfl
  have hent : (sb ps is).entry = 0 := rfl
  simp only [runX, run, runFrom, hent, findBlock_sb, execBodyX_base]
  split
  · rfl
  · exact key _ (fun b as st' h => by
      obtain ⟨i, hi, hb⟩ := execBody_goto h
      exact absurd (hbr i hi) hb)

end Wz.Proofs.Front
