/-
C01 (front end with memory accesses): the validator `dceOK` is sound.  If `dceOK [] is js`, the runs of `is` and `js`
from the same state end in the same outcome (values or trap code, final memory, call trace), and the access log of
`js` is a sublist of that of `is` (only loads disappear).  Invariant: the two environments agree outside the results
of the deleted instructions, and no kept instruction reads such a result.
-/
import Wz.Proofs.C01_FrontMem_Basic

set_option linter.unusedSimpArgs false
set_option linter.unusedVariables false

namespace Wz.Proofs.FrontMem
open Wz.Spec Wz.Model.SsaPass Wz.Model.FrontendSL Wz.Model.FrontendMem Wz.Proofs.Front

/-- the states of the two runs: same memory, same trace, environments equal outside `dead` -/
def SRel (dead : List Val) (st' st : St) : Prop :=
  st'.mem = st.mem ∧ st'.trace = st.trace ∧ ∀ v : Nat, v ∉ dead → st'.env v = st.env v

def CRel (dead : List Val) : Ctl → Ctl → Prop
  | .next s', .next s => SRel dead s' s
  | .goto b' a' s', .goto b a s => b' = b ∧ a' = a ∧ SRel dead s' s
  | .ret vs' s', .ret vs s => vs' = vs ∧ SRel dead s' s
  | .trap c' s', .trap c s => c' = c ∧ SRel dead s' s
  | _, _ => False

theorem SRel.set {dead : List Val} {st' st : St} (h : SRel dead st' st) (r : Val) (v : Nat) :
    SRel dead (st'.set r v) (st.set r v) := by
  refine ⟨h.1, h.2.1, ?_⟩
  intro x hx
  simp only [St.set, upd]
  split
  · rfl
  · exact h.2.2 x hx

theorem SRel.mono {dead : List Val} {st' st : St} (h : SRel dead st' st) (extra : List Val) :
    SRel (extra ++ dead) st' st :=
  ⟨h.1, h.2.1, fun v hv => h.2.2 v (fun hm => hv (List.mem_append_right _ hm))⟩

theorem bindVals_agree {dead : List Val} : ∀ (rs : List (Val × Ty)) (vs : List Nat) (e' e : Val → Nat),
    (∀ v : Nat, v ∉ dead → e' v = e v) → ∀ v : Nat, v ∉ dead → bindVals e' rs vs v = bindVals e rs vs v := by
  intro rs
  induction rs with
  | nil => intro vs e' e h v hv; exact h v hv
  | cons p rs ih =>
    intro vs e' e h v hv
    obtain ⟨r, ty⟩ := p
    simp only [bindVals]
    apply ih
    · intro x hx
      simp only [upd]
      split
      · rfl
      · exact h x hx
    · exact hv

/-- a kept instruction whose operands are not dead does the same in both runs -/
theorem exec_congr (w : World) (dead : List Val) (i : Instr) (st' st : St) (h : SRel dead st' st)
    (hops : ∀ o ∈ i.operands, o ∉ dead) : CRel dead (execInstr w st'.env i st') (execInstr w st.env i st) := by
  obtain ⟨hm, ht, he⟩ := h
  have hR : SRel dead st' st := ⟨hm, ht, he⟩
  have hmap : ∀ l : List Val, (∀ o ∈ l, o ∈ i.operands) → l.map st'.env = l.map st.env := by
    intro l hl
    apply List.map_congr_left
    intro o ho
    exact he o (hops o (hl o ho))
  cases i with
  | iconst r ty c => exact hR.set _ _
  | bin op r ty x y =>
    simp only [execInstr, CRel]
    rw [he x (hops x (by simp [Instr.operands])), he y (hops y (by simp [Instr.operands]))]
    exact hR.set _ _
  | icmp r ty c x y =>
    simp only [execInstr, CRel]
    rw [he x (hops x (by simp [Instr.operands])), he y (hops y (by simp [Instr.operands]))]
    exact hR.set _ _
  | select r ty c x y =>
    simp only [execInstr, CRel]
    rw [he c (hops c (by simp [Instr.operands])), he x (hops x (by simp [Instr.operands])),
      he y (hops y (by simp [Instr.operands]))]
    exact hR.set _ _
  | un op r ty x =>
    simp only [execInstr, CRel]
    rw [he x (hops x (by simp [Instr.operands]))]
    exact hR.set _ _
  | load r ty p off =>
    simp only [execInstr, CRel]
    rw [he p (hops p (by simp [Instr.operands])), hm]
    exact hR.set _ _
  | store op ty v p off =>
    simp only [execInstr, CRel]
    rw [he p (hops p (by simp [Instr.operands])), he v (hops v (by simp [Instr.operands])), hm]
    exact ⟨rfl, ht, he⟩
  | call fn sig rs args =>
    simp only [execInstr]
    rw [hmap args (fun o ho => by simp [Instr.operands, ho]), hm, ht]
    cases hc : w.call fn (args.map st.env) st.mem with
    | none => refine ⟨?_, ?_, ?_, he⟩ <;> first | rfl | trivial
    | some res =>
      obtain ⟨m, outs⟩ := res
      exact ⟨rfl, rfl, bindVals_agree rs outs _ _ he⟩
  | div op r ty x y ctx =>
    simp only [execInstr]
    rw [he x (hops x (by simp [Instr.operands])), he y (hops y (by simp [Instr.operands]))]
    cases hd : evalDiv op ty (st.env x) (st.env y) with
    | ok v => exact hR.set _ _
    | error code => exact ⟨rfl, hR⟩
  | exitIf ctx c code =>
    simp only [execInstr]
    rw [he c (hops c (by simp [Instr.operands]))]
    split
    · exact ⟨rfl, hR⟩
    · exact hR
  | exit ctx code => exact ⟨rfl, hR⟩
  | jump t args =>
    simp only [execInstr]
    exact ⟨rfl, hmap args (fun o ho => by simp [Instr.operands, ho]), hR⟩
  | brz c t args =>
    simp only [execInstr]
    rw [he c (hops c (by simp [Instr.operands]))]
    split
    · exact ⟨rfl, hmap args (fun o ho => by simp [Instr.operands, ho]), hR⟩
    · exact hR
  | brnz c t args =>
    simp only [execInstr]
    rw [he c (hops c (by simp [Instr.operands]))]
    split
    · exact ⟨rfl, hmap args (fun o ho => by simp [Instr.operands, ho]), hR⟩
    · exact hR
  | ret vs =>
    simp only [execInstr, CRel]
    exact ⟨hmap vs (fun o ho => by simp [Instr.operands, ho]), hR⟩

theorem stepM_congr (w : World) (dead : List Val) (i : MInstr) (st' st : St) (h : SRel dead st' st)
    (hops : ∀ o ∈ i.operands, o ∉ dead) :
    CRel dead (stepM w i st') (stepM w i st) ∧ instrAcc st'.env i = instrAcc st.env i := by
  cases i with
  | base j =>
    refine ⟨exec_congr w dead j st' st h hops, ?_⟩
    cases j <;> try rfl
    case load r ty p off =>
      simp only [instrAcc]
      rw [h.2.2 p (hops p (by simp [MInstr.operands, Instr.operands]))]
    case store op ty v p off =>
      simp only [instrAcc]
      rw [h.2.2 p (hops p (by simp [MInstr.operands, Instr.operands]))]
  | extload op r ty p off =>
    have hp := h.2.2 p (hops p (by simp [MInstr.operands]))
    refine ⟨?_, by simp only [instrAcc, hp]⟩
    simp only [stepM, CRel]
    rw [hp, h.1]
    exact h.set _ _

/-- a deleted instruction only defines its results -/
theorem stepM_removable (w : World) (i : MInstr) (hr : i.removable = true) (st : St) :
    ∃ st1, stepM w i st = .next st1 ∧ st1.mem = st.mem ∧ st1.trace = st.trace ∧
      ∀ v : Nat, v ∉ i.results → st1.env v = st.env v := by
  have hset : ∀ (r : Val) (x : Nat) (v : Nat), v ∉ [r] → (st.set r x).env v = st.env v := by
    intro r x v hv
    simp only [List.mem_singleton] at hv
    simp [St.set, upd, hv]
  cases i with
  | extload op r ty p off => exact ⟨_, rfl, rfl, rfl, hset r _⟩
  | base j =>
    cases j <;> simp only [MInstr.removable, Bool.false_eq_true] at hr <;>
      exact ⟨_, rfl, rfl, rfl, hset _ _⟩

/-- the two results of `execBodyL`: same control outcome up to `SRel`, and the log of the second is a sublist -/
def ORel (dead : List Val) (r' r : Option Ctl × List Acc) : Prop :=
  r'.2.Sublist r.2 ∧
  match r'.1, r.1 with
  | none, none => True
  | some c', some c => ∃ d, CRel d c' c
  | _, _ => False

theorem dce_sound (w : World) : ∀ (is js : List MInstr) (dead : List Val) (st' st : St) (log' log : List Acc),
    dceOK dead is js = true → SRel dead st' st → log'.Sublist log →
    ORel dead (execBodyL w js st' log') (execBodyL w is st log) := by
  intro is
  induction is with
  | nil =>
    intro js dead st' st log' log hok hR hlog
    cases js with
    | nil => exact ⟨hlog, trivial⟩
    | cons j js => simp [dceOK] at hok
  | cons i is ih =>
    intro js dead st' st log' log hok hR hlog
    -- deleting `i`
    have hdel : ∀ js, (i.removable && dceOK (i.results ++ dead) is js) = true →
        ORel dead (execBodyL w js st' log') (execBodyL w (i :: is) st log) := by
      intro js h
      simp only [Bool.and_eq_true] at h
      obtain ⟨st1, hs, hm1, ht1, he1⟩ := stepM_removable w i h.1 st
      simp only [execBodyL, hs]
      have hR1 : SRel (i.results ++ dead) st' st1 := by
        refine ⟨by rw [hm1]; exact hR.1, by rw [ht1]; exact hR.2.1, ?_⟩
        intro v hv
        rw [he1 v (fun hm => hv (List.mem_append_left _ hm))]
        exact hR.2.2 v (fun hm => hv (List.mem_append_right _ hm))
      have := ih js (i.results ++ dead) st' st1 log' (log ++ instrAcc st.env i) h.2 hR1
        (hlog.trans (List.sublist_append_left _ _))
      exact ⟨this.1, by
        have h2 := this.2
        revert h2
        cases (execBodyL w js st' log').1 <;> cases (execBodyL w is st1 (log ++ instrAcc st.env i)).1 <;> exact id⟩
    cases js with
    | nil => exact hdel [] (by simpa [dceOK] using hok)
    | cons j js =>
      simp only [dceOK] at hok
      split at hok
      · rename_i hcond
        obtain ⟨rfl, hall⟩ := hcond
        have hops : ∀ o ∈ i.operands, o ∉ dead := by
          intro o ho
          have := List.all_eq_true.mp hall o ho
          simpa using this
        obtain ⟨hc, hacc⟩ := stepM_congr w dead i st' st hR hops
        simp only [execBodyL]
        rw [hacc]
        cases hs : stepM w i st with
        | next s1 =>
          cases hs' : stepM w i st' with
          | next s1' =>
            rw [hs, hs'] at hc
            exact ih js dead s1' s1 _ _ hok hc (List.Sublist.append hlog (List.Sublist.refl _))
          | goto _ _ _ => rw [hs, hs'] at hc; exact absurd hc id
          | ret _ _ => rw [hs, hs'] at hc; exact absurd hc id
          | trap _ _ => rw [hs, hs'] at hc; exact absurd hc id
        | goto b a s1 =>
          cases hs' : stepM w i st' with
          | goto b' a' s1' =>
            rw [hs, hs'] at hc
            exact ⟨List.Sublist.append hlog (List.Sublist.refl _), dead, hc⟩
          | next _ => rw [hs, hs'] at hc; exact absurd hc id
          | ret _ _ => rw [hs, hs'] at hc; exact absurd hc id
          | trap _ _ => rw [hs, hs'] at hc; exact absurd hc id
        | ret vs s1 =>
          cases hs' : stepM w i st' with
          | ret vs' s1' =>
            rw [hs, hs'] at hc
            exact ⟨List.Sublist.append hlog (List.Sublist.refl _), dead, hc⟩
          | next _ => rw [hs, hs'] at hc; exact absurd hc id
          | goto _ _ _ => rw [hs, hs'] at hc; exact absurd hc id
          | trap _ _ => rw [hs, hs'] at hc; exact absurd hc id
        | trap c s1 =>
          cases hs' : stepM w i st' with
          | trap c' s1' =>
            rw [hs, hs'] at hc
            exact ⟨List.Sublist.append hlog (List.Sublist.refl _), dead, hc⟩
          | next _ => rw [hs, hs'] at hc; exact absurd hc id
          | goto _ _ _ => rw [hs, hs'] at hc; exact absurd hc id
          | ret _ _ => rw [hs, hs'] at hc; exact absurd hc id
      · exact hdel (j :: js) hok

/-- whole functions: an accepted pair has the same outcome, and the second one's accesses are among the first one's -/
theorem dce_validated (w : World) (g g' : MFunc) (hp : g'.params = g.params)
    (hok : dceOK [] g.instrs g'.instrs = true) (args : List Nat) (mem0 : Mem) :
    (runM w g' args mem0).1 = (runM w g args mem0).1 ∧ (runM w g' args mem0).2.Sublist (runM w g args mem0).2 := by
  simp only [runM, hp]
  split
  · exact ⟨rfl, List.Sublist.refl _⟩
  · have h := dce_sound w g.instrs g'.instrs [] _ _ [] [] hok
      (⟨rfl, rfl, fun _ _ => rfl⟩ : SRel [] { St.init with env := bindVals St.init.env g.params args, mem := mem0 }
        { St.init with env := bindVals St.init.env g.params args, mem := mem0 }) (List.Sublist.refl _)
    obtain ⟨hsub, hrel⟩ := h
    generalize execBodyL w g'.instrs { St.init with env := bindVals St.init.env g.params args, mem := mem0 } [] = r'
      at hsub hrel
    generalize execBodyL w g.instrs { St.init with env := bindVals St.init.env g.params args, mem := mem0 } [] = r
      at hsub hrel
    obtain ⟨o', l'⟩ := r'
    obtain ⟨o, l⟩ := r
    simp only at hsub hrel ⊢
    cases o' with
    | none =>
      cases o with
      | none => exact ⟨rfl, hsub⟩
      | some c => exact absurd hrel id
    | some c' =>
      cases o with
      | none => exact absurd hrel id
      | some c =>
        obtain ⟨d, hc⟩ := hrel
        cases c' <;> cases c <;> simp only [CRel] at hc
        · exact ⟨rfl, hsub⟩
        · exact ⟨rfl, hsub⟩
        · obtain ⟨rfl, hm, ht, _⟩ := hc
          exact ⟨by dsimp only; rw [hm, ht], hsub⟩
        · obtain ⟨rfl, hm, ht, _⟩ := hc
          exact ⟨by dsimp only; rw [hm, ht], hsub⟩

end Wz.Proofs.FrontMem
