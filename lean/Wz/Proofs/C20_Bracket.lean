/-
C20 helper lemmas: the bracket checker over appends, the unwinding, and the main induction over call forests.
-/
import Wz.Model.Listener

namespace Wz.C20
open Wz.Model.Listener

/-- The side conditions under which an engine variant brackets its events on a forest
(`d` = frames already on the call engine's stack):
* no tail call is performed in place / as a jump,
* a stack overflow is either absent or panics without a `Before` for the overflowing call,
* with an abort cap `c`, no call chain inside one call engine exceeds `c` frames. -/
def good (E : Engine) (C : Cfg) : Nat → Forest → Bool
  | _, .done => true
  | d, .call tail f _ body out next =>
    !(tail && (E.tailInPlace || E.tailJump))
    && (out != .fail .overflow || (E.overflowPanics && !E.beforeAtOverflow))
    && (match E.abortCap with | none => true | some c => decide (d + 1 ≤ c))
    && good E C (if C.host f then 0 else d + 1) body
    && good E C d next

theorem checkB_append (a b : List Event) : ∀ o, checkB o (a ++ b) = (checkB o a).bind (fun o' => checkB o' b) := by
  induction a with
  | nil => intro o; simp [checkB]
  | cons e a ih =>
    intro o
    cases e with
    | before f x s => simp only [List.cons_append, checkB]; exact ih _
    | after f v =>
      simp only [List.cons_append, checkB]
      cases o with
      | nil => simp
      | cons g o' =>
        simp only []
        split
        · exact ih _
        · simp
    | abort f k =>
      simp only [List.cons_append, checkB]
      cases o with
      | nil => simp
      | cons g o' =>
        simp only []
        split
        · exact ih _
        · simp

theorem checkB_aborts (k : FailKind) (l o : List Nat) :
    checkB (l ++ o) (l.map (fun f => Event.abort f k)) = some o := by
  induction l with
  | nil => simp [checkB]
  | cons g l ih => simp [checkB, ih]

theorem good_endsWithTail (E : Engine) (C : Cfg) (hj : E.tailJump = true) :
    ∀ fr d, good E C d fr = true → endsWithTail fr = false := by
  intro fr
  induction fr with
  | done => intro d _; rfl
  | call tail f args body out next _ ihn =>
    intro d h
    simp only [good, hj, Bool.or_true, Bool.and_true, Bool.and_eq_true, Bool.not_eq_true'] at h
    obtain ⟨⟨⟨⟨ht, _⟩, _⟩, _⟩, hn⟩ := h
    cases next with
    | done => simp [endsWithTail, ht]
    | call t2 f2 a2 b2 o2 n2 =>
      simp only [endsWithTail]
      exact ihn d hn

/-- What `run` guarantees about brackets: on return everything opened is closed; on a failure inside a
call engine exactly the frames pushed since (those with listener) are still open, and they are all within the cap. -/
def Post (E : Engine) (C : Cfg) (api : Bool) (st o : List Nat) (r : List Event × Option Fail) : Prop :=
  match r.2 with
  | none => checkB o r.1 = some o
  | some fl =>
    if api then checkB o r.1 = some o
    else fl.panicked = true ∧ (∀ c, E.abortCap = some c → fl.frames.length ≤ c) ∧
      ∃ pre, fl.frames = pre ++ st ∧ checkB o r.1 = some (pre.filter C.lsn ++ o)

theorem aborts_close (E : Engine) (C : Cfg) (fl : Fail) (pre o : List Nat)
    (hp : fl.panicked = true) (hc : ∀ c, E.abortCap = some c → fl.frames.length ≤ c) (hf : fl.frames = pre) :
    checkB (pre.filter C.lsn ++ o) (aborts E C fl) = some o := by
  unfold aborts
  simp only [hp, if_true]
  cases hcap : E.abortCap with
  | none => simp only [hf]; exact checkB_aborts _ _ _
  | some c =>
    have hl := hc c hcap
    rw [hf] at hl
    simp only [hf, List.take_of_length_le hl]; exact checkB_aborts _ _ _

theorem run_post (E : Engine) (C : Cfg) :
    ∀ fr api st o d, good E C d fr = true → d = (if api then 0 else st.length) →
      Post E C api (if api then [] else st) o (run E C api st fr) := by
  intro fr
  induction fr with
  | done => intro api st o d _ _; simp [run, Post, checkB]
  | call tail f args body out next ihb ihn =>
    intro api st0 o d hg hd
    simp only [good, Bool.and_eq_true, Bool.not_eq_true', Bool.or_eq_true, bne_iff_ne, ne_eq] at hg
    obtain ⟨⟨⟨⟨htl, hov⟩, hcap⟩, hgb⟩, hgn⟩ := hg
    -- tail modes are off for this call
    have hip : inPlace E C api tail f = false := by
      unfold inPlace
      cases tail <;> cases hti : E.tailInPlace <;> simp_all
    have htj : (E.tailJump && tail && !api) = false := by
      cases tail <;> cases htj : E.tailJump <;> simp_all
    have hew : (E.tailJump && !C.host f && endsWithTail body) = false := by
      cases htj' : E.tailJump with
      | false => simp
      | true => simp [good_endsWithTail E C htj' body _ hgb]
    -- abbreviations
    generalize hst : (if api then [] else st0) = st at *
    have hdl : d = st.length := by
      cases api <;> simp_all
    simp only [run, hip, htj, hew, hst, Bool.false_eq_true, if_false, Bool.not_false, Bool.and_true]
    by_cases hovf : out = .fail .overflow
    · -- the call overflows
      simp only [hovf, if_true]
      have hE : E.overflowPanics = true ∧ E.beforeAtOverflow = false := by
        rcases hov with h | h
        · exact absurd hovf h
        · simpa using h
      simp only [hE.2, Bool.false_eq_true, if_false]
      cases api with
      | true =>
        simp only [if_true, Post, List.append_nil] at *
        subst hst
        simp only [List.nil_append]
        have := aborts_close E C ⟨.overflow, E.overflowPanics, []⟩ [] o hE.1 (by intro c _; simp) rfl
        simpa [checkB] using this
      | false =>
        simp only [Bool.false_eq_true, if_false, Post]
        refine ⟨hE.1, ?_, [], by simp, by simp [checkB]⟩
        intro c hc
        simp only [hc] at hcap
        have := of_decide_eq_true hcap
        omega
    · simp only [hovf, if_false]
      -- the body
      have hbd : (if C.host f then 0 else d + 1) = (if C.host f then 0 else (f :: st).length) := by
        simp [hdl]
      have ihb' := ihb (C.host f) (f :: st) (if C.lsn f then f :: o else o) _ hgb hbd
      rcases hrb : run E C (C.host f) (f :: st) body with ⟨evsB, rB⟩
      rw [hrb] at ihb'
      have hb : checkB o ((if C.lsn f then [Event.before f args (snapshot E (f :: st))] else []) ++ evsB) =
          checkB (if C.lsn f then f :: o else o) evsB := by
        cases C.lsn f <;> simp [checkB]
      have hlen : ∀ c, E.abortCap = some c → (f :: st).length ≤ c := by
        intro c hc
        simp only [hc] at hcap
        have := of_decide_eq_true hcap
        simp only [List.length_cons]; omega
      -- the outcome of the node, as a failure (if any) in segment mode
      have hnode : ∀ (evs : List Event) (fl : Fail), fl.panicked = true → fl.frames = f :: st →
          checkB o evs = some (if C.lsn f then f :: o else o) →
          Post E C api st o
            (if api then (evs ++ aborts E C fl, some ⟨fl.kind, fl.panicked, []⟩) else (evs, some fl)) := by
        intro evs fl hp hf hck
        cases api with
        | true =>
          simp only [if_true, Post]
          rw [checkB_append, hck]
          simp only [Option.bind]
          have hst' : st = [] := by simpa using hst.symm
          subst hst'
          have := aborts_close E C fl [f] o hp (by intro c hc; rw [hf]; exact hlen c hc) hf
          cases hl : C.lsn f <;> simp_all
        | false =>
          simp only [Bool.false_eq_true, if_false, Post]
          refine ⟨hp, by intro c hc; rw [hf]; exact hlen c hc, [f], by simp [hf], ?_⟩
          rw [hck]
          cases hl : C.lsn f <;> simp [hl]
      cases rB with
      | some flB =>
        -- the body failed
        simp only []
        cases hh : C.host f with
        | true =>
          simp only [hh, if_true] at ihb' ⊢
          simp only [Post, if_true] at ihb'
          exact hnode _ ⟨flB.kind, true, f :: st⟩ rfl rfl (by rw [hb]; exact ihb')
        | false =>
          simp only [hh, Bool.false_eq_true, if_false] at ihb' ⊢
          simp only [Post, Bool.false_eq_true, if_false] at ihb'
          obtain ⟨hp, hc, pre, hfr, hck⟩ := ihb'
          cases api with
          | true =>
            simp only [if_true, Post]
            rw [checkB_append, hb, hck]
            simp only [Option.bind]
            have hst' : st = [] := by simpa using hst.symm
            subst hst'
            have := aborts_close E C flB (pre ++ [f]) o hp hc (by simpa using hfr)
            cases hl : C.lsn f <;> simp_all [List.filter_append]
          | false =>
            simp only [Bool.false_eq_true, if_false, Post]
            refine ⟨hp, hc, pre ++ [f], by simp [hfr], ?_⟩
            rw [hb, hck]
            cases hl : C.lsn f <;> simp [List.filter_append, hl]
      | none =>
        simp only [Post] at ihb'
        cases out with
        | fail k =>
          simp only []
          exact hnode _ ⟨k, true, f :: st⟩ rfl rfl (by rw [hb]; exact ihb')
        | ret vals =>
          simp only []
          -- the node returned: go on with the siblings
          have ihn' := ihn api st0 o d hgn hd
          rw [hst] at ihn'
          rcases hrn : run E C api st next with ⟨evsN, rN⟩
          have hrn' : run E C api st0 next = (evsN, rN) := by
            cases api with
            | true =>
              have hst' : st = [] := by simpa using hst.symm
              subst hst'
              have : ∀ s, run E C true s next = run E C true [] next := by
                intro s; cases next <;> simp [run]
              rw [this]; exact hrn
            | false =>
              have hst' : st = st0 := by simpa using hst.symm
              subst hst'; exact hrn
          rw [hrn'] at ihn'
          have hnd : checkB o ((if C.lsn f then [Event.before f args (snapshot E (f :: st))] else []) ++ evsB ++
              (if C.lsn f then [Event.after f vals] else [])) = some o := by
            rw [checkB_append, hb, ihb']
            cases hl : C.lsn f <;> simp [checkB, hl]
          simp only [Post] at ihn' ⊢
          cases rN with
          | none =>
            simp only [] at ihn' ⊢
            rw [checkB_append, hnd]; exact ihn'
          | some flN =>
            simp only [] at ihn' ⊢
            cases api with
            | true =>
              simp only [if_true] at ihn' ⊢
              rw [checkB_append, hnd]; exact ihn'
            | false =>
              simp only [Bool.false_eq_true, if_false] at ihn' ⊢
              obtain ⟨hp, hc, pre, hfr, hck⟩ := ihn'
              refine ⟨hp, hc, pre, hfr, ?_⟩
              rw [checkB_append, hnd]; exact hck

end Wz.C20
