/- Lemmas for C15: the writes of the 24 functions of Wz.Model.WasiFs2 lie inside the regions their signatures
designate. Core Lean only. -/
import Wz.Proofs.C15_Fs2

namespace Wz.C15
open Wz.Model Wz.Model.Wasi Wz.Model.DescTable Wz.Gen.Wasi

/-- every write of every alternative lies inside the regions `d` -/
def Within (rs : List Res) (d : List (Nat × Nat)) : Prop := ∀ r ∈ rs, ∀ w ∈ r.writes, Wr.within w d

theorem within_rE (e : Err) (d : List (Nat × Nat)) : Within (rE e) d := by
  intro r hr w hw
  simp only [rE, List.mem_cons, List.not_mem_nil, or_false] at hr
  subst hr
  cases hw

theorem within_nil (d : List (Nat × Nat)) : Within [] d := by
  intro r hr; cases hr

theorem within_cons (r : Res) (rs : List Res) (d : List (Nat × Nat)) (h1 : ∀ w ∈ r.writes, Wr.within w d)
    (h2 : Within rs d) : Within (r :: rs) d := by
  intro r' hr'
  simp only [List.mem_cons] at hr'
  rcases hr' with rfl | h
  · exact h1
  · exact h2 r' h

theorem within_append (a b : List Res) (d : List (Nat × Nat)) (h1 : Within a d) (h2 : Within b d) :
    Within (a ++ b) d := by
  intro r hr
  simp only [List.mem_append] at hr
  rcases hr with h | h
  · exact h1 r h
  · exact h2 r h

/-- a write of `len` bytes at `off` lies in the region `(off, n)` when `len ≤ n` -/
theorem wr_in (w : Wr) (off n : Nat) (rest : List (Nat × Nat)) (ho : w.off = off) (hl : w.len ≤ n) :
    Wr.within w ((off, n) :: rest) := by
  intro a h1 h2
  exact ⟨(off, n), by simp, by simp; omega, by simp; omega⟩

theorem wr_skip (w : Wr) (x : Nat × Nat) (rest : List (Nat × Nat)) (h : Wr.within w rest) :
    Wr.within w (x :: rest) := by
  intro a h1 h2
  obtain ⟨r, hr, h3⟩ := h a h1 h2
  exact ⟨r, by simp [hr], h3⟩

theorem wr_mono (w : Wr) (d1 d2 : List (Nat × Nat)) (hsub : ∀ r ∈ d1, r ∈ d2) (h : Wr.within w d1) :
    Wr.within w d2 := by
  intro a h1 h2
  obtain ⟨r, hr, h3⟩ := h a h1 h2
  exact ⟨r, hsub r hr, h3⟩

macro "no_writes" : tactic => `(tactic| (split_all <;> exact within_rE _ _))

theorem fdAdvise_within (fds : Fds) (fd adv : Nat) (d) : Within (fdAdvise fds fd adv) d := by
  unfold fdAdvise; no_writes
theorem fdAllocate_within (fds : Fds) (fd o l : Nat) (d) : Within (fdAllocate fds fd o l) d := by
  unfold fdAllocate; no_writes
theorem fdSyncLike_within (fds : Fds) (fd : Nat) (d) : Within (fdSyncLike fds fd) d := by
  unfold fdSyncLike; no_writes
theorem fdFdstatSetFlags_within (fds : Fds) (fd f : Nat) (d) : Within (fdFdstatSetFlags fds fd f) d := by
  unfold fdFdstatSetFlags; no_writes
theorem fdFilestatSetSize_within (fds : Fds) (fd : Nat) (d) : Within (fdFilestatSetSize fds fd) d := by
  unfold fdFilestatSetSize; no_writes
theorem fdFilestatSetTimes_within (fds : Fds) (fd f : Nat) (d) : Within (fdFilestatSetTimes fds fd f) d := by
  unfold fdFilestatSetTimes; no_writes
theorem sockShutdown_within (fds : Fds) (fd how : Nat) (d) : Within (sockShutdown fds fd how) d := by
  unfold sockShutdown; no_writes
theorem pathOp_within (fds : Fds) (m : Mem) (fd p l : Nat) (d) : Within (pathOp fds m fd p l) d := by
  unfold pathOp; no_writes
theorem pathOp2_within (fds : Fds) (m : Mem) (fd p l fd2 p2 l2 : Nat) (d) :
    Within (pathOp2 fds m fd p l fd2 p2 l2) d := by
  unfold pathOp2; no_writes
theorem pathFilestatSetTimes_within (fds : Fds) (m : Mem) (fd p l f : Nat) (d) :
    Within (pathFilestatSetTimes fds m fd p l f) d := by
  unfold pathFilestatSetTimes
  split
  · exact within_rE _ _
  · exact pathOp_within _ _ _ _ _ _
theorem pathSymlink_within (fds : Fds) (m : Mem) (o ol fd n nl : Nat) (d) :
    Within (pathSymlink fds m o ol fd n nl) d := by
  unfold pathSymlink
  split_all
  all_goals first
    | exact within_rE _ _
    | exact pathOp_within _ _ _ _ _ _

/-! ### functions that write -/

theorem optRegion_within (m : Mem) (off n : Nat) (rest : List (Nat × Nat)) :
    ∀ w ∈ optRegion m off n, Wr.within w ((off, n) :: rest) := by
  intro w hw
  unfold optRegion at hw
  split at hw
  · simp only [List.mem_cons, List.not_mem_nil, or_false] at hw
    subst hw
    exact wr_in _ off n rest rfl (Nat.le_refl _)
  · cases hw

theorem optBytes_within (m : Mem) (off n : Nat) (bs : List Nat) (hl : bs.length ≤ n) (rest : List (Nat × Nat)) :
    ∀ w ∈ optBytes m off bs, Wr.within w ((off, n) :: rest) := by
  intro w hw
  unfold optBytes at hw
  split at hw
  · simp only [List.mem_cons, List.not_mem_nil, or_false] at hw
    subst hw
    exact wr_in _ off n rest rfl hl
  · cases hw

theorem single_within (w : Wr) (e : Err) (d : List (Nat × Nat)) (h : Wr.within w d) :
    ∀ w' ∈ ({ err := e, writes := [w] } : Res).writes, Wr.within w' d := by
  intro w' hw'
  simp only [List.mem_cons, List.not_mem_nil, or_false] at hw'
  subst hw'
  exact h

theorem single_within' (r : Res) (w : Wr) (d : List (Nat × Nat)) (hr : r.writes = [w]) (h : Wr.within w d) :
    ∀ w' ∈ r.writes, Wr.within w' d := by
  intro w' hw'
  rw [hr] at hw'
  simp only [List.mem_cons, List.not_mem_nil, or_false] at hw'
  subst hw'
  exact h

theorem pathFilestatGet_within (fds : Fds) (m : Mem) (fd p l res : Nat) :
    Within (pathFilestatGet fds m fd p l res) [(res, 64)] := by
  unfold pathFilestatGet
  split_all
  all_goals first
    | exact within_rE _ _
    | (refine within_cons _ _ _ ?_ (within_rE _ _)
       exact single_within _ _ _ (wr_in _ res 64 [] rfl (Nat.le_refl _)))

theorem clip_le' (m : Mem) (off len : Nat) : clip m off len ≤ len := by
  unfold clip
  split <;> omega

theorem pathReadlink_within (fds : Fds) (m : Mem) (fd p l buf bufLen res : Nat) :
    Within (pathReadlink fds m fd p l buf bufLen res) [(buf, bufLen), (res, 4)] := by
  have hbuf : Wr.within (Wr.region buf (clip m buf bufLen)) [(buf, bufLen), (res, 4)] :=
    wr_in _ buf bufLen _ rfl (clip_le' m buf bufLen)
  unfold pathReadlink
  split_all
  all_goals first
    | exact within_rE _ _
    | (refine within_cons _ _ _ (fun w hw => by cases hw) (within_cons _ _ _ ?_ (within_nil _))
       intro w hw
       simp only [List.mem_cons, List.not_mem_nil, or_false] at hw
       rcases hw with rfl | rfl
       · exact hbuf
       · exact wr_skip _ _ _ (wr_in _ res 4 [] rfl (Nat.le_refl _)))
    | (refine within_cons _ _ _ (fun w hw => by cases hw) (within_cons _ _ _ ?_ (within_nil _))
       exact single_within _ _ _ hbuf)

theorem pathOpened_within (fds : Fds) (m : Mem) (res : Nat) (k : Kind) :
    Within (pathOpened fds m res k) [(res, 4)] := by
  unfold pathOpened
  split_all
  all_goals first
    | exact within_nil _
    | (refine within_cons _ _ _ ?_ (within_nil _)
       exact single_within' _ _ _ rfl (wr_in _ res 4 [] rfl (by show (bytesLE 4 _).length ≤ 4; rw [bytesLE_length]; exact Nat.le_refl _)))

theorem pathOpen_within (fds : Fds) (m : Mem) (fd p l o res : Nat) :
    Within (pathOpen fds m fd p l o res) [(res, 4)] := by
  unfold pathOpen
  split
  · exact within_rE _ _
  · split
    · exact within_rE _ _
    · dsimp only
      split
      · exact within_rE _ _
      · refine within_cons _ _ _ (fun w hw => by cases hw) (within_append _ _ _ (pathOpened_within _ _ _ _) ?_)
        split
        · exact within_nil _
        · exact pathOpened_within _ _ _ _

theorem sockAccept_within (fds : Fds) (m : Mem) (fd res : Nat) : Within (sockAccept fds m fd res) [(res, 4)] := by
  unfold sockAccept
  split
  · refine within_cons _ _ _ (fun w hw => by cases hw) ?_
    split
    · exact within_nil _
    · refine within_cons _ _ _ ?_ (within_nil _)
      exact optBytes_within m res 4 _ (by rw [bytesLE_length]; exact Nat.le_refl _) []
  · exact within_rE _ _

theorem sockSend_within (fds : Fds) (m : Mem) (fd iovs cnt f res : Nat) :
    Within (sockSend fds m fd iovs cnt f res) [(res, 4)] := by
  unfold sockSend
  split
  · exact within_rE _ _
  · split
    · dsimp only
      split
      · exact within_rE _ _
      · split
        · exact within_cons _ _ _ (optRegion_within m res 4 []) (within_nil _)
        · exact within_rE _ _
        · exact within_cons _ _ _ (optBytes_within m res 4 _ (by rw [bytesLE_length]; exact Nat.le_refl _) []) (within_nil _)
    · exact within_rE _ _

theorem exact_within (buf B bufLen res dNext : Nat) (ents : List (List Nat × Nat)) (C T : Nat) (hB : B ≤ bufLen) :
    ∀ w ∈ exactDirents buf B dNext ents C T, Wr.within w [(buf, bufLen), (res, 4)] := by
  intro w hw
  unfold exactDirents at hw
  simp only [List.mem_filter, Bool.and_eq_true, decide_eq_true_eq] at hw
  intro a h1 h2
  exact ⟨(buf, bufLen), by simp, by simp; omega, by simp; omega⟩

theorem readdirEmit_within (m : Mem) (buf bufLen res : Nat) (names : List Nat) (ents : List (List Nat × Nat)) (dNext : Nat)
    (hn : ∀ n ∈ names, n < 4294967248)
    (hl : bufLen < 4294967296) : Within (readdirEmit m buf bufLen res names ents dNext) [(buf, bufLen), (res, 4)] := by
  have hres : ∀ v, Wr.within (Wr.bytes res (bytesLE 4 v)) [(buf, bufLen), (res, 4)] := fun v =>
    wr_skip _ _ _ (wr_in _ res 4 [] rfl (by show (bytesLE 4 _).length ≤ 4; rw [bytesLE_length]; exact Nat.le_refl _))
  unfold readdirEmit
  split
  · exact within_rE _ _
  · rename_i B C T hsome
    obtain ⟨_, hB⟩ := writeDirents_some names bufLen B C T hn hl hsome
    have hbuf : Wr.within (Wr.region buf B) [(buf, bufLen), (res, 4)] := wr_in _ buf bufLen _ rfl hB
    have hex : ∀ w ∈ (if ents.map (fun e => e.1.length) = names then exactDirents buf B dNext ents C T else []),
        Wr.within w [(buf, bufLen), (res, 4)] := by
      intro w hw
      split at hw
      · exact exact_within buf B bufLen res dNext ents C T hB w hw
      · cases hw
    dsimp only
    by_cases hpos : B > 0
    · simp only [hpos, if_true]
      by_cases hb : (!m.has buf B) = true
      · rw [if_pos hb]; exact within_rE _ _
      · rw [if_neg hb]
        cases hwd : writeDirents B names C T with
        | none =>
          dsimp only
          exact within_cons _ _ _ (single_within _ _ _ hbuf) (within_nil _)
        | some v =>
          dsimp only
          by_cases hres4 : (!m.has res 4) = true
          · rw [if_pos hres4]
            refine within_cons _ _ _ ?_ (within_nil _)
            intro w hw
            simp only [List.mem_cons] at hw
            rcases hw with rfl | hw
            · exact hbuf
            · exact hex w hw
          · rw [if_neg hres4]
            refine within_cons _ _ _ ?_ (within_nil _)
            intro w hw
            simp only [List.mem_cons, List.mem_append, List.not_mem_nil, or_false] at hw
            rcases hw with rfl | hw | rfl
            · exact hbuf
            · exact hex w hw
            · exact hres _
    · simp only [hpos, if_false]
      by_cases hres4 : (!m.has res 4) = true
      · rw [if_pos hres4]; exact within_rE _ _
      · rw [if_neg hres4]
        exact within_cons _ _ _ (single_within _ _ _ (hres _)) (within_nil _)

theorem fdReaddir_within (h : Host) (hh : HostNamesOk h) (fds : Fds) (m : Mem) (fd buf bufLen cookie res : Nat)
    (hl : bufLen < 4294967296) : Within (fdReaddir h fds m fd buf bufLen cookie res) [(buf, bufLen), (res, 4)] := by
  unfold fdReaddir
  split
  · exact within_rE _ _
  · split
    · exact within_rE _ _
    · rename_i k _
      split
      · exact within_rE _ _
      · split
        · exact within_rE _ _
        · dsimp only
          refine readdirEmit_within m buf bufLen res _ _ _ ?_ hl
          intro n hn
          exact listing_ok h hh k n (List.mem_of_mem_drop (List.mem_of_mem_take hn))

/-! ### sock_recv (repaired variant) -/

/-- the regions named by the first `k` iovecs are among those named by the first `n ≥ k` -/
theorem iovRegions_mono (m : Mem) (iovs : Nat) : ∀ (k n i : Nat), k ≤ n →
    ∀ r ∈ iovRegions m iovs k i, r ∈ iovRegions m iovs n i := by
  intro k
  induction k with
  | zero => intro n i _ r hr; cases hr
  | succ k ih =>
    intro n i hkn r hr
    obtain ⟨n', rfl⟩ : ∃ n', n = n' + 1 := ⟨n - 1, by omega⟩
    unfold iovRegions at hr ⊢
    split at hr
    · rename_i hc
      simp only [hc, if_true]
      simp only [List.mem_cons] at hr ⊢
      rcases hr with rfl | h
      · left; rfl
      · right; exact ih n' (i + 1) (by omega) r h
    · cases hr

theorem iovWritable_within (m : Mem) (iovs cnt : Nat) (rest : List (Nat × Nat)) :
    ∀ w ∈ iovWritable m iovs (w32 (cnt * 8)), Wr.within w (iovRegions m iovs cnt 0 ++ rest) := by
  intro w hw
  unfold iovWritable at hw
  simp only [List.mem_map, List.mem_filter] at hw
  obtain ⟨r, ⟨hr, _⟩, rfl⟩ := hw
  have hk : min (w32 (cnt * 8) / 8) (m.size / 8 + 1) ≤ cnt := by unfold w32; omega
  have hr' := iovRegions_mono m iovs _ cnt 0 hk r hr
  intro a h1 h2
  exact ⟨r, by simp [hr'], h1, h2⟩

theorem app_skip (w : Wr) (d1 d2 : List (Nat × Nat)) (h : Wr.within w d2) : Wr.within w (d1 ++ d2) :=
  wr_mono w d2 (d1 ++ d2) (fun r hr => by simp [hr]) h

theorem sockRecv_within (fds : Fds) (m : Mem) (fd iovs cnt fl res ro : Nat) (hi : iovs < 4294967296)
    (hm : m.size ≤ 4294967296) :
    Within (sockRecv true true fds m fd iovs cnt fl res ro) (iovRegions m iovs cnt 0 ++ [(res, 4), (ro, 2)]) := by
  have hres : ∀ w ∈ optRegion m res 4, Wr.within w (iovRegions m iovs cnt 0 ++ [(res, 4), (ro, 2)]) :=
    fun w hw => app_skip _ _ _ (optRegion_within m res 4 _ w hw)
  have hro : ∀ w ∈ optBytes m ro [0, 0], Wr.within w (iovRegions m iovs cnt 0 ++ [(res, 4), (ro, 2)]) :=
    fun w hw => app_skip _ _ _ (wr_skip _ _ _ (optBytes_within m ro 2 _ (Nat.le_refl _) [] w hw))
  unfold sockRecv
  split
  · dsimp only
    split
    · exact within_rE _ _
    · split
      · -- PEEK
        by_cases hc : cnt = 0
        · simp only [hc, Bool.true_and, decide_true, if_true]
          rw [hc] at hro
          refine within_cons _ _ _ ?_ (within_nil _)
          intro w hw
          simp only [List.mem_append] at hw
          rcases hw with hw | hw
          · exact app_skip _ _ _ (optBytes_within m res 4 _ (by rw [bytesLE_length]; exact Nat.le_refl _) _ w hw)
          · exact hro w hw
        · simp only [hc, Bool.true_and, decide_false, Bool.false_eq_true, if_false, if_true]
          split
          · exact within_rE _ _
          · rename_i h8
            split
            · exact within_rE _ _
            · split
              · exact within_rE _ _
              · split
                · exact within_rE _ _
                · refine within_cons _ _ _ (fun w hw => by cases hw) (within_cons _ _ _ ?_ (within_nil _))
                  have h8' : iovs + 8 ≤ m.size :=
                    has_le m iovs 8 hi (by decide) (by omega) (by simpa using h8)
                  obtain ⟨c', rfl⟩ : ∃ c', cnt = c' + 1 := ⟨cnt - 1, by omega⟩
                  intro w hw
                  simp only [List.mem_append, List.mem_cons, List.not_mem_nil, or_false] at hw
                  rcases hw with (rfl | hw) | hw
                  · intro a h1 h2
                    refine ⟨(le32 m iovs, le32 m (iovs + 4)), ?_, h1, h2⟩
                    unfold iovRegions
                    have : iovs + 8 * 0 + 8 ≤ m.size := by omega
                    simp [this]
                  · exact hres w hw
                  · exact hro w hw
      · split
        · exact within_rE _ _
        · simp only [Bool.not_true, Bool.false_and, Bool.false_eq_true, if_false]
          refine within_cons _ _ _ ?_ (within_nil _)
          intro w hw
          simp only [List.mem_append] at hw
          rcases hw with (hw | hw) | hw
          · exact iovWritable_within m iovs cnt _ w hw
          · exact hres w hw
          · exact app_skip _ _ _ (wr_skip _ _ _ (optRegion_within m ro 2 [] w hw))
  · exact within_rE _ _

end Wz.C15
