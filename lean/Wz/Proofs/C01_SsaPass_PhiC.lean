import Wz.Proofs.C01_SsaPass_PhiB

/-! `redundantPhiElim` (passRedundantPhiEliminationOpt) preserves the semantics of well-formed functions, and
well-formedness. -/
namespace Wz.Model.SsaPass

/-! ### the redundancy test -/

theorem uniqueIncoming_spec {phi u : Val} {args : List Val} (h : uniqueIncoming phi args = some u) :
    u ∈ args ∧ ∀ a ∈ args, a = phi ∨ a = u := by
  unfold uniqueIncoming at h
  split at h
  · cases h
  · rename_i u' rest hf
    split at h
    · rename_i hall
      cases h
      have hu : u ∈ args.filter (· ≠ phi) := by rw [hf]; exact List.mem_cons_self ..
      refine ⟨(List.mem_filter.mp hu).1, fun a ha => ?_⟩
      by_cases hap : a = phi
      · exact Or.inl hap
      · right
        have : a ∈ args.filter (· ≠ phi) := List.mem_filter.mpr ⟨ha, by simpa using hap⟩
        rw [hf] at this
        cases this with
        | head => rfl
        | tail _ hm =>
          have := List.all_eq_true.mp hall a hm
          simpa using this
    · cases h

theorem branchArgs_resolved {f : Func} (hnf : AliasNF f.alias) {b : BlockId} {idx : Nat} {a : Val}
    (h : a ∈ f.branchArgs b idx) : res f.alias a = a := by
  simp only [Func.branchArgs, List.mem_filterMap] at h
  obtain ⟨i, _, hsome⟩ := h
  cases hbr : i.branch? with
  | none => rw [hbr] at hsome; cases hsome
  | some q =>
    obtain ⟨t, as⟩ := q
    rw [hbr] at hsome
    simp only [] at hsome
    split at hsome
    · cases hx : as[idx]? with
      | none => rw [hx] at hsome; cases hsome
      | some x =>
        rw [hx] at hsome
        simp only [Option.map_some, Option.some.injEq] at hsome
        subst hsome
        exact res_idem hnf x
    · cases hsome

theorem zipIdx_pairwise {α} (l : List α) (k : Nat) : (l.zipIdx k).Pairwise (fun x y => x.2 < y.2) := by
  induction l generalizing k with
  | nil => simp
  | cons a l ih =>
    simp only [List.zipIdx_cons, List.pairwise_cons]
    refine ⟨fun y hy => ?_, ih (k + 1)⟩
    have := (List.mem_zipIdx hy).1
    show k < y.2
    omega

/-- what the list of redundant parameters contains -/
theorem redundantParams_spec (f : Func) (hnf : AliasNF f.alias) (B : Block) :
    (redundantParams f B).Pairwise (fun x y => x.1 < y.1) ∧
    ∀ r ∈ redundantParams f B, ∃ ty, B.params[r.1]? = some (r.2.1, ty) ∧ Redundant f B.id r.1 r.2.1 r.2.2 := by
  constructor
  · unfold redundantParams
    apply List.Pairwise.filterMap _ _ (zipIdx_pairwise B.params 0)
    intro a a' haa' r hr r' hr'
    obtain ⟨pt, idx⟩ := a
    obtain ⟨pt', idx'⟩ := a'
    simp only [Option.map_eq_some_iff] at hr hr'
    obtain ⟨_, _, hr⟩ := hr
    obtain ⟨_, _, hr'⟩ := hr'
    subst hr; subst hr'
    exact haa'
  · intro r hr
    unfold redundantParams at hr
    obtain ⟨a, ha, hsome⟩ := List.mem_filterMap.mp hr
    obtain ⟨pt, idx⟩ := a
    simp only [Option.map_eq_some_iff] at hsome
    obtain ⟨u, hu, hr⟩ := hsome
    subst hr
    have hget := List.mem_zipIdx_iff_getElem?.mp ha
    simp only at hget
    refine ⟨pt.2, hget, ?_⟩
    obtain ⟨humem, hall⟩ := uniqueIncoming_spec hu
    intro a ha
    rw [branchArgs_resolved hnf humem]
    exact hall a ha

/-! ### one visit -/

/-- removing the redundant parameters of a block from the last to the first -/
theorem phiFold (w : World) {c : Cert} {b : BlockId} :
    ∀ (l : List (Nat × Val × Val)) (g : Func) (Bg : Block), WF c g → g.findBlock b = some Bg → b ≠ g.entry →
      l.Pairwise (fun x y => y.1 < x.1) →
      (∀ r ∈ l, ∃ ty, Bg.params[r.1]? = some (r.2.1, ty) ∧ Redundant g b r.1 r.2.1 r.2.2) →
      (∀ args fuel, run w (l.foldl (fun g r => removeParam g b r.1 r.2.1 r.2.2) g) args fuel = run w g args fuel) ∧
      WF c (l.foldl (fun g r => removeParam g b r.1 r.2.1 r.2.2) g) := by
  intro l
  induction l with
  | nil => intro g Bg hwf _ _ _ _; exact ⟨fun _ _ => rfl, hwf⟩
  | cons r l ih =>
    intro g Bg hwf hB hbne hpw hall
    obtain ⟨idx, p, u⟩ := r
    rw [List.pairwise_cons] at hpw
    obtain ⟨ty, hp, hred⟩ := hall (idx, p, u) (List.mem_cons_self ..)
    have hrun := removeParam_run hwf hB hbne hp hred w
    have hwf1 := removeParam_wf hwf hB hbne hp hred
    obtain ⟨_, hBid, hBv⟩ := findBlock_mem hB
    have hB1 : (removeParam g b idx p u).findBlock b = some (rpBlock b idx Bg) := by
      rw [findBlock_removeParam, hB]; rfl
    have hpar : (rpBlock b idx Bg).params = Bg.params.eraseIdx idx := by simp [rpBlock, hBid, hBv]
    simp only [List.foldl_cons]
    obtain ⟨h1, h2⟩ := ih (removeParam g b idx p u) (rpBlock b idx Bg) hwf1 hB1
      (by rw [entry_removeParam]; exact hbne) hpw.2
      (fun r' hr' => by
        obtain ⟨ty', hp', hred'⟩ := hall r' (List.mem_cons_of_mem _ hr')
        have hlt : r'.1 < idx := hpw.1 r' hr'
        refine ⟨ty', ?_, redundant_after hwf hB hbne hp hred hlt hp' hred'⟩
        rw [hpar, List.getElem?_eraseIdx, if_pos hlt]; exact hp')
    exact ⟨fun args fuel => by rw [h1 args fuel]; exact hrun args fuel, h2⟩

theorem phiVisit_sound (w : World) {c : Cert} {f : Func} (hwf : WF c f) (b : BlockId) :
    (∀ args fuel, run w (phiVisit f b).1 args fuel = run w f args fuel) ∧ WF c (phiVisit f b).1 := by
  unfold phiVisit
  split
  · exact ⟨fun _ _ => rfl, hwf⟩
  · rename_i hbne
    split
    · exact ⟨fun _ _ => rfl, hwf⟩
    · rename_i B hB
      split
      · exact ⟨fun _ _ => rfl, hwf⟩
      · simp only []
        split
        · exact ⟨fun _ _ => rfl, hwf⟩
        · obtain ⟨hpw, hall⟩ := redundantParams_spec f ((aliasNF_iff _).mpr hwf.nf) B
          obtain ⟨_, hBid, _⟩ := findBlock_mem hB
          rw [hBid] at hall
          exact phiFold w (redundantParams f B).reverse f B hwf hB hbne
            (List.pairwise_reverse.mpr hpw) (fun r hr => hall r (List.mem_reverse.mp hr))

/-! ### the pass -/

theorem phiRound_fold (w : World) {c : Cert} (order : List BlockId) :
    ∀ (acc : Func × Bool), WF c acc.1 →
      (∀ args fuel, run w (order.foldl (fun (acc : Func × Bool) b =>
          let (g, ch) := phiVisit acc.1 b
          (g, acc.2 || ch)) acc).1 args fuel = run w acc.1 args fuel) ∧
      WF c (order.foldl (fun (acc : Func × Bool) b =>
          let (g, ch) := phiVisit acc.1 b
          (g, acc.2 || ch)) acc).1 := by
  induction order with
  | nil => intro acc hwf; exact ⟨fun _ _ => rfl, hwf⟩
  | cons b order ih =>
    intro acc hwf
    simp only [List.foldl_cons]
    obtain ⟨h1, h2⟩ := phiVisit_sound w hwf b
    obtain ⟨h3, h4⟩ := ih ((phiVisit acc.1 b).1, acc.2 || (phiVisit acc.1 b).2) h2
    exact ⟨fun args fuel => by rw [h3 args fuel]; exact h1 args fuel, h4⟩

theorem phiRound_sound (w : World) {c : Cert} (order : List BlockId) (f : Func) (hwf : WF c f) :
    (∀ args fuel, run w (phiRound f order).1 args fuel = run w f args fuel) ∧ WF c (phiRound f order).1 :=
  phiRound_fold w order (f, false) hwf

theorem phiLoop_sound (w : World) {c : Cert} (order : List BlockId) :
    ∀ (n : Nat) (f : Func), WF c f →
      (∀ args fuel, run w (phiLoop n f order) args fuel = run w f args fuel) ∧ WF c (phiLoop n f order) := by
  intro n
  induction n with
  | zero => intro f hwf; exact ⟨fun _ _ => rfl, hwf⟩
  | succ n ih =>
    intro f hwf
    obtain ⟨h1, h2⟩ := phiRound_sound w order f hwf
    unfold phiLoop
    cases hpr : phiRound f order with
    | mk g ch =>
      rw [hpr] at h1 h2
      simp only [] at h1 h2 ⊢
      split
      · obtain ⟨h3, h4⟩ := ih g h2
        exact ⟨fun args fuel => by rw [h3 args fuel]; exact h1 args fuel, h4⟩
      · exact ⟨h1, h2⟩

/-- **Redundant block-parameter elimination is sound** on well-formed functions and keeps them well-formed. -/
theorem redundantPhiElim_sound (w : World) {c : Cert} {f : Func} (hwf : WF c f) :
    (∀ args fuel, run w (redundantPhiElim f) args fuel = run w f args fuel) ∧ WF c (redundantPhiElim f) :=
  phiLoop_sound w _ _ f hwf

end Wz.Model.SsaPass
