/-
C02 helper lemmas: soundness of the front end's bounds-check elision (core 2), by an invariant over
op lists.
-/
import Wz.Model.SafeBounds

namespace Wz.C02
open Wz.Model.SafeBounds

/-- What a cache entry promises at a moment when the real memory is (base, len). -/
def EntryOK (val : Nat → Nat) (base len : Nat) (e : Entry) : Prop :=
  0 < e.bound → val e.v + e.bound ≤ len ∧ ∀ a, e.addr = some a → a = base + val e.v

/-- The invariant: the SSA variables hold the real base/length, and every entry keeps its promise. -/
def Inv (val : Nat → Nat) (d : Dyn) (st : State) : Prop :=
  d.cbase = d.base ∧ d.clen = d.len ∧ ∀ e ∈ st, EntryOK val d.base d.len e

/-- Older states (restored at loop back edges): their bounds are still covered (memory never shrinks). -/
def HistOK (val : Nat → Nat) (len : Nat) (hist : List State) : Prop :=
  ∀ st ∈ hist, ∀ e ∈ st, 0 < e.bound → val e.v + e.bound ≤ len

theorem get_some {st : State} {v : Nat} {e : Entry} (h : st.get v = some e) :
    e ∈ st ∧ e.v = v ∧ 0 < e.bound := by
  unfold State.get at h
  have hm := List.mem_of_find?_eq_some h
  have hp := List.find?_some h
  simp only [Bool.and_eq_true, beq_iff_eq, decide_eq_true_eq] at hp
  exact ⟨hm, hp.1, hp.2⟩

theorem mem_set {st : State} {e x : Entry} (h : x ∈ st.set e) : x = e ∨ x ∈ st := by
  unfold State.set at h
  rcases List.mem_cons.mp h with h | h
  · exact Or.inl h
  · exact Or.inr (List.mem_filter.mp h).1

theorem record_ok (val : Nat → Nat) (base len : Nat) (st : State) (v bound : Nat) (addr : Option Nat)
    (hst : ∀ e ∈ st, EntryOK val base len e)
    (hb : val v + bound ≤ len) (ha : ∀ a, addr = some a → a = base + val v)
    (hprev : ∀ e, st.get v = some e → ∀ a, addr = some a → e.addr = some a ∨ e.addr = none ∨ True) :
    ∀ e ∈ record st v bound addr, EntryOK val base len e := by
  intro x hx
  unfold record at hx
  cases hg : st.get v with
  | none =>
    rw [hg] at hx
    rcases mem_set hx with rfl | h
    · intro _; exact ⟨hb, ha⟩
    · exact hst x h
  | some e =>
    rw [hg] at hx
    have ⟨hem, hev, hep⟩ := get_some hg
    simp only at hx
    split at hx
    · rcases mem_set hx with rfl | h
      · intro _
        have := hst e hem hep
        exact ⟨by simpa [hev] using hb, by simpa using this.2⟩
      · exact hst x h
    · exact hst x hx

theorem mem_resetAddrs {st : State} {x : Entry} (h : x ∈ resetAddrs st) :
    ∃ e ∈ st, x.v = e.v ∧ x.bound = e.bound ∧ x.addr = none := by
  unfold resetAddrs at h
  obtain ⟨e, he, rfl⟩ := List.mem_map.mp h
  exact ⟨e, he, rfl, rfl, rfl⟩

theorem mem_normalize {st : State} {x : Entry} (h : x ∈ normalize st) : x ∈ st := by
  unfold normalize at h
  induction st with
  | nil => simp at h
  | cons e es ih =>
    simp only [List.foldr_cons] at h
    split at h
    · rcases List.mem_cons.mp h with rfl | h
      · exact List.mem_cons_self
      · exact List.mem_cons_of_mem _ (ih (List.mem_filter.mp h).1)
    · exact List.mem_cons_of_mem _ (ih h)

theorem foldl_min_le (others : List State) (v : Nat) (init : Nat) :
    others.foldl (fun m o => match o.get v with | some x => min m x.bound | none => m) init ≤ init := by
  induction others generalizing init with
  | nil => exact Nat.le_refl _
  | cons o os ih =>
    simp only [List.foldl_cons]
    cases o.get v with
    | none => exact ih init
    | some x => exact Nat.le_trans (ih _) (Nat.min_le_left _ _)

theorem mem_intersect {cur : State} {others : List State} {x : Entry} (h : x ∈ intersect cur others) :
    ∃ e ∈ cur, x.v = e.v ∧ x.bound ≤ e.bound ∧ 0 < e.bound ∧ x.addr = none := by
  unfold intersect at h
  obtain ⟨e, he, hx⟩ := List.mem_filterMap.mp h
  split at hx
  · rename_i hc
    injection hx with hx
    subst hx
    exact ⟨e, he, rfl, foldl_min_le others e.v e.bound, hc.1, rfl⟩
  · cases hx

/-- entering a block keeps the invariant (for arbitrary end states of the other predecessors) -/
theorem enterBlock_ok (val : Nat → Nat) (base len : Nat) (cur : State) (others : List State) (isSealed : Bool)
    (hst : ∀ e ∈ cur, EntryOK val base len e) :
    ∀ e ∈ enterBlock cur others isSealed, EntryOK val base len e := by
  intro x hx
  unfold enterBlock at hx
  split at hx
  · split at hx
    · exact hst x (mem_normalize hx)
    · obtain ⟨e, he, hv, hb, ha⟩ := mem_resetAddrs hx
      intro hp
      have := hst e (mem_normalize he) (by omega)
      exact ⟨by rw [hv, hb]; exact this.1, by intro a h; rw [ha] at h; cases h⟩
  · obtain ⟨e, he, hv, hb, hp, ha⟩ := mem_intersect hx
    intro _
    have := hst e (mem_normalize he) hp
    exact ⟨by rw [hv]; omega, by intro a h; rw [ha] at h; cases h⟩

/-- one access: the invariant is kept and a performed access is in range at the right address -/
theorem stepAccess_ok (val : Nat → Nat) (st : State) (d : Dyn) (v off size : Nat) (hI : Inv val d st) :
    (∀ e ∈ (stepAccess val st d v off size).1, EntryOK val d.base d.len e) ∧
    (∀ addr v' ceil base len chk, (stepAccess val st d v off size).2 = .ok addr v' ceil base len chk →
      val v' + ceil ≤ len ∧ addr = base + val v') := by
  obtain ⟨hcb, hcl, hst⟩ := hI
  unfold stepAccess
  cases hg : st.get v with
  | none =>
    simp only
    split
    · exact ⟨hst, by intro _ _ _ _ _ _ h; cases h⟩
    · rename_i hlt
      refine ⟨record_ok val d.base d.len st v (off + size) _ hst (by omega) (by intro a h; injection h with h; omega) (by intros; simp), ?_⟩
      intro addr v' ceil base len chk h
      injection h with h1 h2 h3 h4 h5 h6
      subst h1 h2 h3 h4 h5
      exact ⟨by omega, by omega⟩
  | some e =>
    have ⟨hem, hev, hep⟩ := get_some hg
    have he := hst e hem hep
    simp only
    split
    · rename_i hle
      cases ha : e.addr with
      | some a =>
        simp only
        refine ⟨hst, ?_⟩
        intro addr v' ceil base len chk h
        injection h with h1 h2 h3 h4 h5 h6
        subst h1 h2 h3 h4 h5
        have := he.2 a ha
        exact ⟨by rw [hev] at he; omega, by rw [hev] at this; exact this⟩
      | none =>
        simp only
        refine ⟨?_, ?_⟩
        · intro x hx
          rcases mem_set hx with rfl | h
          · intro _
            exact ⟨he.1, by intro a h; injection h with h; simp only; rw [hev]; omega⟩
          · exact hst x h
        · intro addr v' ceil base len chk h
          injection h with h1 h2 h3 h4 h5 h6
          subst h1 h2 h3 h4 h5
          exact ⟨by rw [hev] at he; omega, by omega⟩
    · split
      · exact ⟨hst, by intro _ _ _ _ _ _ h; cases h⟩
      · rename_i hnle hlt
        have haddr : (match e.addr with | some a => a | none => d.cbase + val v) = d.base + val v := by
          cases ha : e.addr with
          | some a => simp only; have := he.2 a ha; rw [hev] at this; exact this
          | none => simp only; omega
        refine ⟨record_ok val d.base d.len st v (off + size) _ hst (by omega) (by intro a h; injection h with h; rw [← h]; exact haddr) (by intros; simp), ?_⟩
        intro addr v' ceil base len chk h
        injection h with h1 h2 h3 h4 h5 h6
        subst h1 h2 h3 h4 h5
        exact ⟨by omega, haddr⟩

theorem histOK_snoc (val : Nat → Nat) (base len : Nat) (hist : List State) (st : State)
    (hH : HistOK val len hist) (hst : ∀ e ∈ st, EntryOK val base len e) : HistOK val len (hist ++ [st]) := by
  intro s hs e he hp
  rcases List.mem_append.mp hs with h | h
  · exact hH s h e he hp
  · simp only [List.mem_singleton] at h
    subst h
    exact (hst e he hp).1

/-- The safety statement about one event. -/
def EvSafe (val : Nat → Nat) (ev : Ev) : Prop :=
  ∀ addr v ceil base len chk, ev = .ok addr v ceil base len chk → val v + ceil ≤ len ∧ addr = base + val v

theorem run_sound (val : Nat → Nat) (ops : List Op) (c : Cfg) (evs : List Ev)
    (hI : Inv val c.dyn c.st) (hH : HistOK val c.dyn.len c.hist) (h : run val ops c = some evs) :
    ∀ ev ∈ evs, EvSafe val ev := by
  induction ops generalizing c evs with
  | nil =>
    simp only [run] at h
    injection h with h; subst h
    intro ev hev; cases hev
  | cons op ops ih =>
    cases op with
    | access v off size =>
      have ⟨hst', hev⟩ := stepAccess_ok val c.st c.dyn v off size hI
      simp only [run] at h
      cases hr2 : (stepAccess val c.st c.dyn v off size).2 with
      | trap v' ceil =>
        rw [hr2] at h
        simp only at h
        injection h with h; subst h
        intro ev hm
        simp only [List.mem_singleton] at hm
        subst hm
        intro _ _ _ _ _ _ h'; cases h'
      | ok a v' ceil b l chk =>
        rw [hr2] at h hev
        simp only at h
        cases hr : run val ops ⟨(stepAccess val c.st c.dyn v off size).1, c.dyn, c.hist ++ [(stepAccess val c.st c.dyn v off size).1]⟩ with
        | none => rw [hr] at h; cases h
        | some evs' =>
          rw [hr] at h
          simp only [Option.map_some] at h
          injection h with h; subst h
          intro ev' hm
          rcases List.mem_cons.mp hm with rfl | hm
          · exact hev
          · exact ih ⟨_, c.dyn, c.hist ++ [_]⟩ evs' ⟨hI.1, hI.2.1, hst'⟩
              (histOK_snoc val c.dyn.base c.dyn.len c.hist _ hH hst') hr ev' hm
    | call base' len' =>
      simp only [run] at h
      split at h
      · cases h
      · rename_i hge
        have hge' : c.dyn.len ≤ len' := by omega
        have hst' : ∀ e ∈ resetAddrs c.st, EntryOK val base' len' e := by
          intro x hx
          obtain ⟨e, he, hv, hb, ha⟩ := mem_resetAddrs hx
          intro hp
          have := hI.2.2 e he (by omega)
          exact ⟨by rw [hv, hb]; omega, by intro a h'; rw [ha] at h'; cases h'⟩
        have hH' : HistOK val len' c.hist := by
          intro s hs e he hp
          have := hH s hs e he hp
          omega
        exact ih ⟨resetAddrs c.st, ⟨base', len', base', len'⟩, c.hist ++ [resetAddrs c.st]⟩ evs
          ⟨rfl, rfl, hst'⟩ (histOK_snoc val base' len' c.hist _ hH' hst') h
    | enterBlock others isSealed =>
      simp only [run] at h
      have hst' := enterBlock_ok val c.dyn.base c.dyn.len c.st others isSealed hI.2.2
      exact ih ⟨enterBlock c.st others isSealed, c.dyn, c.hist ++ [enterBlock c.st others isSealed]⟩ evs
        ⟨hI.1, hI.2.1, hst'⟩ (histOK_snoc val c.dyn.base c.dyn.len c.hist _ hH hst') h
    | loopBack k =>
      simp only [run] at h
      split at h
      · cases h
      · rename_i st' hk
        split at h
        · rename_i hall
          have hmem : st' ∈ c.hist := List.mem_of_getElem? hk
          have hst' : ∀ e ∈ st', EntryOK val c.dyn.base c.dyn.len e := by
            intro e he hp
            refine ⟨hH st' hmem e he hp, ?_⟩
            intro a ha
            have := List.all_eq_true.mp hall e he
            rw [ha] at this
            cases this
          exact ih ⟨st', c.dyn, c.hist ++ [st']⟩ evs ⟨hI.1, hI.2.1, hst'⟩
            (histOK_snoc val c.dyn.base c.dyn.len c.hist _ hH hst') h
        · cases h

end Wz.C02
