import Wz.Model.SsaPass

/-! Basic lemmas about the SSA model `Wz.Model.SsaPass`: aliases in resolved form, how one instruction depends
on the values it reads, a simulation lemma for one instruction. -/
namespace Wz.Model.SsaPass

/-! ### aliases -/

theorem aliasGet_mem {al : List (Val × Val)} {v t : Val} (h : aliasGet al v = some t) : (v, t) ∈ al := by
  induction al with
  | nil => simp [aliasGet] at h
  | cons e rest ih =>
    obtain ⟨k, t'⟩ := e
    simp only [aliasGet] at h
    split at h
    · rename_i hk; cases h; subst hk; exact List.mem_cons_self ..
    · exact List.mem_cons_of_mem _ (ih h)

theorem aliasGet_none_of_not_key {al : List (Val × Val)} {v : Val} (h : ∀ t, (v, t) ∉ al) : aliasGet al v = none := by
  cases hg : aliasGet al v with
  | none => rfl
  | some t => exact absurd (aliasGet_mem hg) (h t)

theorem aliasGet_isSome_of_mem {al : List (Val × Val)} {k t : Val} (h : (k, t) ∈ al) : (aliasGet al k).isSome := by
  induction al with
  | nil => cases h
  | cons e rest ih =>
    obtain ⟨k', t'⟩ := e
    simp only [aliasGet]
    split
    · rfl
    · rename_i hk
      cases h with
      | head => exact absurd rfl hk
      | tail _ hm => exact ih hm

theorem res_of_none {al : List (Val × Val)} {v : Val} (h : aliasGet al v = none) : res al v = v := by
  simp [res, h]

theorem res_of_some {al : List (Val × Val)} {v t : Val} (h : aliasGet al v = some t) : res al v = t := by
  simp [res, h]

theorem res_nil (v : Val) : res [] v = v := rfl

theorem aliasNF_nil : AliasNF [] := by intro k t h; cases h

/-- the resolved value is not a key -/
theorem aliasGet_res {al : List (Val × Val)} (h : AliasNF al) (v : Val) : aliasGet al (res al v) = none := by
  cases hg : aliasGet al v with
  | none => rw [res_of_none hg]; exact hg
  | some t => rw [res_of_some hg]; exact h v t (aliasGet_mem hg)

theorem res_idem {al : List (Val × Val)} (h : AliasNF al) (v : Val) : res al (res al v) = res al v :=
  res_of_none (aliasGet_res h v)

/-- the lookup in a list whose targets were rewritten -/
theorem aliasGet_map_snd (al : List (Val × Val)) (g : Val → Val) (v : Val) :
    aliasGet (al.map (fun e => (e.1, g e.2))) v = (aliasGet al v).map g := by
  induction al with
  | nil => rfl
  | cons e rest ih =>
    obtain ⟨k, t⟩ := e
    simp only [List.map_cons, aliasGet]
    split
    · rfl
    · exact ih

/-- What `aliasInsert` does to resolution when it records something: afterwards a value resolves as before,
except that what resolved to `dst` now resolves to the (resolved) source. -/
theorem res_aliasInsert {al : List (Val × Val)} (dst src : Val)
    (h1 : res al src ≠ dst) (h2 : aliasGet al dst = none) (v : Val) :
    res (aliasInsert al dst src) v = if res al v = dst then res al src else res al v := by
  have hins : aliasInsert al dst src =
      (dst, res al src) :: al.map (fun e => (e.1, if e.2 = dst then res al src else e.2)) := by
    simp [aliasInsert, h1, h2]
  rw [hins]
  by_cases hv : dst = v
  · subst hv
    simp [res, aliasGet, h2]
  · have : aliasGet ((dst, res al src) :: al.map (fun e => (e.1, if e.2 = dst then res al src else e.2))) v =
        (aliasGet al v).map (fun t => if t = dst then res al src else t) := by
      simp only [aliasGet, hv, if_false]
      exact aliasGet_map_snd al (fun t => if t = dst then res al src else t) v
    have e : res ((dst, res al src) :: al.map (fun e => (e.1, if e.2 = dst then res al src else e.2))) v =
        ((aliasGet al v).map (fun t => if t = dst then res al src else t)).getD v := by
      show (aliasGet _ v).getD v = _
      rw [this]
    rw [e]
    cases hg : aliasGet al v with
    | none => simp [res_of_none hg, Ne.symm hv]
    | some t => simp [res_of_some hg]

theorem aliasInsert_eq_of_degenerate {al : List (Val × Val)} {dst src : Val}
    (h : res al src = dst ∨ aliasGet al dst ≠ none) : aliasInsert al dst src = al := by
  unfold aliasInsert
  cases h with
  | inl h => simp [h]
  | inr h =>
    by_cases h1 : res al src = dst
    · simp [h1]
    · have : (aliasGet al dst).isSome = true := by
        cases hg : aliasGet al dst with
        | none => exact absurd hg h
        | some _ => rfl
      simp [h1, this]

theorem aliasNF_insert {al : List (Val × Val)} (hnf : AliasNF al) (dst src : Val) :
    AliasNF (aliasInsert al dst src) := by
  by_cases h1 : res al src = dst
  · rw [aliasInsert_eq_of_degenerate (Or.inl h1)]; exact hnf
  by_cases h2' : aliasGet al dst ≠ none
  · rw [aliasInsert_eq_of_degenerate (Or.inr h2')]; exact hnf
  have h2 : aliasGet al dst = none := Classical.not_not.mp h2'
  -- every target resolves to itself under the new table
  intro k t hkt
  have hres := res_aliasInsert dst src h1 h2
  have hins : aliasInsert al dst src =
      (dst, res al src) :: al.map (fun e => (e.1, if e.2 = dst then res al src else e.2)) := by
    simp [aliasInsert, h1, h2]
  -- it suffices that `res new t = t`, and that `t` is not a key follows from `aliasGet`
  have key : ∀ t, res (aliasInsert al dst src) t = t → aliasGet (aliasInsert al dst src) t = none ∨
      aliasGet (aliasInsert al dst src) t = some t := by
    intro t ht
    cases hg : aliasGet (aliasInsert al dst src) t with
    | none => exact Or.inl rfl
    | some u => right; simp [res, hg] at ht; rw [ht]
  -- the target `t` of an entry of the new table
  rw [hins] at hkt
  have ht : res al t = t ∧ t ≠ dst := by
    cases hkt with
    | head =>
      exact ⟨res_idem hnf src, h1⟩
    | tail _ hm =>
      obtain ⟨e, he, hee⟩ := List.mem_map.mp hm
      obtain ⟨k', t'⟩ := e
      simp only [Prod.mk.injEq] at hee
      obtain ⟨_, hte⟩ := hee
      have ht' : aliasGet al t' = none := hnf k' t' he
      by_cases hd : t' = dst
      · simp only [hd, if_true] at hte
        rw [← hte]; exact ⟨res_idem hnf src, h1⟩
      · simp only [hd, if_false] at hte
        rw [← hte]; exact ⟨res_of_none ht', hd⟩
  have hrt : res (aliasInsert al dst src) t = t := by
    rw [hres t, ht.1]; simp [ht.2]
  cases key t hrt with
  | inl h => exact h
  | inr h =>
    -- an entry (t, t) would have to be in the new table: impossible
    exfalso
    have hm := aliasGet_mem h
    rw [hins] at hm
    cases hm with
    | head => exact ht.2 rfl
    | tail _ hm =>
      obtain ⟨e, he, hee⟩ := List.mem_map.mp hm
      obtain ⟨k', t'⟩ := e
      simp only [Prod.mk.injEq] at hee
      obtain ⟨hk', _⟩ := hee
      subst hk'
      -- t is a key of the old table, but res al t = t
      have := aliasGet_isSome_of_mem he
      cases hg : aliasGet al k' with
      | none => simp [hg] at this
      | some u =>
        have hu : res al k' = u := res_of_some hg
        have hnone := hnf k' u (aliasGet_mem hg)
        rw [ht.1] at hu
        subst hu
        simp [hg] at hnone

/-! ### one instruction -/

theorem execInstr_congr (w : World) {ρ ρ' : Val → Nat} (i : Instr) (st : St)
    (h : ∀ o ∈ i.operands, ρ o = ρ' o) : execInstr w ρ i st = execInstr w ρ' i st := by
  cases i <;> simp only [Instr.operands, List.mem_cons, List.not_mem_nil, or_false, forall_eq_or_imp, forall_eq] at h <;>
    simp only [execInstr]
  case bin op r ty x y => rw [h.1, h.2]
  case icmp r ty c x y => rw [h.1, h.2]
  case select r ty c x y => rw [h.1, h.2.1, h.2.2]
  case un op r ty x => rw [h]
  case load r ty p off => rw [h]
  case store op ty v p off => rw [h.1, h.2]
  case call fn sig rs args => rw [List.map_congr_left h]
  case div op r ty x y ctx => rw [h.1, h.2.1]
  case exitIf ctx c code => rw [h.2]
  case jump t args => rw [List.map_congr_left h]
  case brz c t args => rw [h.1, List.map_congr_left h.2]
  case brnz c t args => rw [h.1, List.map_congr_left h.2]
  case ret vs => rw [List.map_congr_left h]

theorem execInstr_mapOperands (w : World) (ρ : Val → Nat) (g : Val → Val) (i : Instr) (st : St) :
    execInstr w ρ (i.mapOperands g) st = execInstr w (fun v => ρ (g v)) i st := by
  cases i <;> simp [execInstr, Instr.mapOperands, List.map_map, Function.comp_def]

theorem mapOperands_results (g : Val → Val) (i : Instr) : (i.mapOperands g).results = i.results := by
  cases i <;> rfl

theorem mapOperands_opcode (g : Val → Val) (i : Instr) : (i.mapOperands g).opcode = i.opcode := by
  cases i <;> rfl

theorem mapOperands_operands (g : Val → Val) (i : Instr) : (i.mapOperands g).operands = i.operands.map g := by
  cases i <;> simp [Instr.mapOperands, Instr.operands]

/-- states that agree on the values in `S`, and entirely on memory and trace -/
structure StRel (S : Val → Prop) (st st' : St) : Prop where
  env : ∀ v, S v → st.env v = st'.env v
  mem : st.mem = st'.mem
  trace : st.trace = st'.trace

inductive CtlRel (S : Val → Prop) : Ctl → Ctl → Prop where
  | next {st st'} : StRel S st st' → CtlRel S (.next st) (.next st')
  | goto {st st'} (b args) : StRel S st st' → CtlRel S (.goto b args st) (.goto b args st')
  | ret {st st'} (vs) : StRel S st st' → CtlRel S (.ret vs st) (.ret vs st')
  | trap {st st'} (c) : StRel S st st' → CtlRel S (.trap c st) (.trap c st')

theorem upd_agree {S : Val → Prop} {e e' : Val → Nat} (h : ∀ v, S v → e v = e' v) (r : Val) (x : Nat) :
    ∀ v, S v → upd e r x v = upd e' r x v := by
  intro v hv; unfold upd; split
  · rfl
  · exact h v hv

theorem bindVals_agree {S : Val → Prop} (rs : List (Val × Ty)) (vs : List Nat) {e e' : Val → Nat}
    (h : ∀ v, S v → e v = e' v) : ∀ v, S v → bindVals e rs vs v = bindVals e' rs vs v := by
  induction rs generalizing e e' vs with
  | nil => exact h
  | cons p rs ih =>
    obtain ⟨r, ty⟩ := p
    simp only [bindVals]
    exact ih _ (upd_agree h _ _)

theorem StRel.set {S : Val → Prop} {st st' : St} (h : StRel S st st') (r : Val) (x : Nat) :
    StRel S (st.set r x) (st'.set r x) :=
  ⟨upd_agree h.env r x, h.mem, h.trace⟩

/-- One instruction executed in two related states with operand readers that agree on its operands gives
related results. -/
theorem execInstr_sim (w : World) (S : Val → Prop) {ρ ρ' : Val → Nat} (i : Instr) {st st' : St}
    (hst : StRel S st st') (h : ∀ o ∈ i.operands, ρ o = ρ' o) :
    CtlRel S (execInstr w ρ i st) (execInstr w ρ' i st') := by
  rw [execInstr_congr w i st h]
  cases i <;> simp only [execInstr]
  case iconst r ty c => exact .next (hst.set _ _)
  case bin op r ty x y => exact .next (hst.set _ _)
  case icmp r ty c x y => exact .next (hst.set _ _)
  case select r ty c x y => exact .next (hst.set _ _)
  case un op r ty x => exact .next (hst.set _ _)
  case load r ty p off => rw [hst.mem]; exact .next (hst.set _ _)
  case store op ty v p off => rw [hst.mem]; exact .next ⟨hst.env, rfl, hst.trace⟩
  case call fn sig rs args =>
    rw [hst.mem, hst.trace]
    cases w.call fn (args.map ρ') st'.mem with
    | none => exact .trap _ ⟨hst.env, rfl, rfl⟩
    | some p => exact .next ⟨bindVals_agree _ _ hst.env, rfl, rfl⟩
  case div op r ty x y ctx =>
    cases evalDiv op ty (ρ' x) (ρ' y) with
    | ok v => exact .next (hst.set _ _)
    | error c => exact .trap _ hst
  case exitIf ctx c code =>
    split
    · exact .trap _ hst
    · exact .next hst
  case exit ctx code => exact .trap _ hst
  case jump t args => exact .goto _ _ hst
  case brz c t args =>
    split
    · exact .goto _ _ hst
    · exact .next hst
  case brnz c t args =>
    split
    · exact .goto _ _ hst
    · exact .next hst
  case ret vs => exact .ret _ hst

/-! ### instructions without side effect -/

/-- An instruction whose class in the table is `sideEffectNone` only defines its result. -/
theorem exec_pure (w : World) (ρ : Val → Nat) (i : Instr) (st : St) (h : sideEffect i.opcode = .none) :
    ∃ st', execInstr w ρ i st = .next st' ∧ st'.mem = st.mem ∧ st'.trace = st.trace ∧
      ∀ v, v ∉ i.results → st'.env v = st.env v := by
  have hset : ∀ (r : Val) (x : Nat), ∀ v, v ∉ [r] → (st.set r x).env v = st.env v := by
    intro r x v hv
    simp only [List.mem_singleton] at hv
    simp [St.set, upd, hv]
  cases i <;> simp only [Instr.opcode] at h
  case iconst r ty c => exact ⟨_, rfl, rfl, rfl, hset _ _⟩
  case bin op r ty x y => exact ⟨_, rfl, rfl, rfl, hset _ _⟩
  case icmp r ty c x y => exact ⟨_, rfl, rfl, rfl, hset _ _⟩
  case select r ty c x y => exact ⟨_, rfl, rfl, rfl, hset _ _⟩
  case un op r ty x => exact ⟨_, rfl, rfl, rfl, hset _ _⟩
  case load r ty p off => exact ⟨_, rfl, rfl, rfl, hset _ _⟩
  case store op ty v p off => cases op <;> simp [StoreOp.opcode, sideEffect] at h
  case call => simp [sideEffect] at h
  case div op r ty x y ctx => cases op <;> simp [DivOp.opcode, sideEffect] at h
  case exitIf => simp [sideEffect] at h
  case exit => simp [sideEffect] at h
  case jump => simp [sideEffect] at h
  case brz => simp [sideEffect] at h
  case brnz => simp [sideEffect] at h
  case ret => simp [sideEffect] at h

/-! ### blocks -/

theorem find?_map_of_comm {α} (l : List α) (g : α → α) (p : α → Bool) (h : ∀ a, p (g a) = p a) :
    (l.map g).find? p = (l.find? p).map g := by
  induction l with
  | nil => rfl
  | cons a l ih =>
    simp only [List.map_cons, List.find?_cons, h]
    split
    · rfl
    · exact ih

theorem findBlock_mem {f : Func} {b : BlockId} {B : Block} (h : f.findBlock b = some B) :
    B ∈ f.blocks ∧ B.id = b ∧ B.invalid = false := by
  simp only [Func.findBlock] at h
  have h1 := List.mem_of_find?_eq_some h
  have h2 := List.find?_some h
  simp only [decide_eq_true_eq] at h2
  exact ⟨h1, h2.1, by simpa using h2.2⟩

end Wz.Model.SsaPass
