/-
C01 (front end): what the translation guarantees statically, and from it that the function it produces is
`SsaPass.wellFormed`: no branches, every value defined once (the values are numbered in the order of their
definitions), every operand defined before its use, the shifted operand of a shift has the type of the shift.
-/
import Wz.Proofs.C01_Front_Static
import Wz.Proofs.C01_Front

namespace Wz.Proofs.Front
open Wz.Model.SsaPass Wz.Model.FrontendSL

variable {lt : List Ty} {D : List (Val × Ty)} {s : LS} {tys tys' : List Ty}

theorem static_step (i : SI) (hi : i ≠ .ret) (h : SInv lt D s tys) (htc : tcStep lt i tys = some tys') :
    StaticOK lt D i s tys' := by
  cases i with
  | const t v => exact static_const t v h htc
  | localGet i => exact static_localGet i h htc
  | localSet i => exact static_localSet i h htc
  | localTee i => exact static_localTee i h htc
  | drop => exact static_drop h htc
  | select => exact static_select h htc
  | bin t op => exact static_bin t op h htc
  | rel t op => exact static_rel t op h htc
  | eqz t => exact static_eqz t h htc
  | div t op => exact static_div t op h htc
  | ret => exact absurd rfl hi
  | cnt t op =>
    match tys, htc, h with
    | [], e, _ => simp [tcStep] at e
    | a :: r, e, h =>
      simp only [tcStep] at e
      split at e
      · rename_i hab; subst hab
        simp only [Option.some.injEq] at e; subst e
        exact static_un1 (.cnt a op) op.toSsa a a (fun _ _ _ _ => rfl) h
      · cases e
  | wrap =>
    match tys, htc, h with
    | [], e, _ => simp [tcStep] at e
    | a :: r, e, h =>
      simp only [tcStep] at e
      split at e
      · rename_i hab; subst hab
        simp only [Option.some.injEq] at e; subst e
        exact static_un1 .wrap .ireduce .i64 .i32 (fun _ _ _ _ => rfl) h
      · cases e
  | extendS =>
    match tys, htc, h with
    | [], e, _ => simp [tcStep] at e
    | a :: r, e, h =>
      simp only [tcStep] at e
      split at e
      · rename_i hab; subst hab
        simp only [Option.some.injEq] at e; subst e
        exact static_un1 .extendS .sextend .i32 .i64 (fun _ _ _ _ => rfl) h
      · cases e
  | extendU =>
    match tys, htc, h with
    | [], e, _ => simp [tcStep] at e
    | a :: r, e, h =>
      simp only [tcStep] at e
      split at e
      · rename_i hab; subst hab
        simp only [Option.some.injEq] at e; subst e
        exact static_un1 .extendU .uextend .i32 .i64 (fun _ _ _ _ => rfl) h
      · cases e
  | extend32S =>
    match tys, htc, h with
    | [], e, _ => simp [tcStep] at e
    | a :: r, e, h =>
      simp only [tcStep] at e
      split at e
      · rename_i hab; subst hab
        simp only [Option.some.injEq] at e; subst e
        exact static_un1 .extend32S .sextend .i64 .i64 (fun _ _ _ _ => rfl) h
      · cases e

theorem static_ret (nres : Nat) (h : SInv lt D s tys) :
    (∀ j ∈ [Instr.ret (s.peekN nres)], j.branch? = none) ∧ Scoped D [Instr.ret (s.peekN nres)] ∧
    ∃ N, (D ++ [Instr.ret (s.peekN nres)].flatMap (·.typedResults)).map (·.1) = List.range N := by
  refine ⟨?_, ⟨?_, trivial, trivial⟩, s.next, ?_⟩
  · intro j hj; rw [List.mem_singleton.mp hj]; rfl
  · intro o ho
    simp only [Instr.operands, LS.peekN, List.mem_reverse, List.mem_map] at ho
    obtain ⟨p, hp, rfl⟩ := ho
    exact h.mem_dom (h.stk p (List.mem_of_mem_take hp))
  · simpa [Instr.typedResults] using h.dom

theorem static_body (res : List Ty) (nres : Nat) : ∀ (body : List SI) (s : LS) (tys : List Ty)
    (D : List (Val × Ty)), SInv lt D s tys → tcBody lt res body tys = true →
    (∀ j ∈ lowerBody nres body s, j.branch? = none) ∧ Scoped D (lowerBody nres body s) ∧
    ∃ N, (D ++ (lowerBody nres body s).flatMap (·.typedResults)).map (·.1) = List.range N := by
  intro body
  induction body with
  | nil => intro s tys D h _; exact static_ret nres h
  | cons i is ih =>
    intro s tys D h htc
    by_cases hi : i = .ret
    · subst hi; exact static_ret nres h
    · have hlb : lowerBody nres (i :: is) s = (lowerI i s).1 ++ lowerBody nres is (lowerI i s).2 := by
        cases i <;> first | rfl | exact absurd rfl hi
      have htc' : ∃ tys', tcStep lt i tys = some tys' ∧ tcBody lt res is tys' = true := by
        cases i <;> first
          | exact absurd rfl hi
          | (simp only [tcBody] at htc
             split at htc
             · rename_i tys' h; exact ⟨tys', h, htc⟩
             · cases htc)
      obtain ⟨tys', hstep, hrest⟩ := htc'
      obtain ⟨hbr1, hsc1, hinv1⟩ := static_step i hi h hstep
      obtain ⟨hbr2, hsc2, N, hN⟩ := ih _ _ _ hinv1 hrest
      rw [hlb]
      refine ⟨?_, (scoped_append _ _ _).mpr ⟨hsc1, hsc2⟩, N, ?_⟩
      · intro j hj
        rcases List.mem_append.mp hj with hj | hj
        · exact hbr1 j hj
        · exact hbr2 j hj
      · simpa [List.flatMap_append, List.append_assoc] using hN

theorem declLocals_static : ∀ (ls : List Ty) (n : Nat) (z : Zeros) (D : List (Val × Ty)),
    D.map (·.1) = List.range n → (∀ t v, z.get t = some v → (v, t) ∈ D) →
    (∀ j ∈ (declLocals ls n z).1, j.branch? = none) ∧ Scoped D (declLocals ls n z).1 ∧
    (D ++ (declLocals ls n z).1.flatMap (·.typedResults)).map (·.1) = List.range (declLocals ls n z).2.1 ∧
    (∀ t v, (declLocals ls n z).2.2.get t = some v → (v, t) ∈ D ++ (declLocals ls n z).1.flatMap (·.typedResults)) := by
  intro ls
  induction ls with
  | nil =>
    intro n z D hD hz
    exact ⟨(fun j hj => by cases hj), trivial, by simpa [declLocals] using hD, by simpa [declLocals] using hz⟩
  | cons t ts ih =>
    intro n z D hD hz
    simp only [declLocals]
    cases hzt : z.get t with
    | some v0 => exact ih n z D hD hz
    | none =>
      have hD' : (D ++ [(n, t)]).map (·.1) = List.range (n + 1) := by
        simp only [List.map_append, hD, List.map_cons, List.map_nil, List.range_succ]
      have hz' : ∀ t' v, (z.set t n).get t' = some v → (v, t') ∈ D ++ [(n, t)] := by
        intro t' v hv
        by_cases hte : t' = t
        · subst hte
          have : (z.set t' n).get t' = some n := by cases t' <;> rfl
          rw [this] at hv; cases hv
          exact List.mem_append_right _ (List.mem_singleton.mpr rfl)
        · have : (z.set t n).get t' = z.get t' := by
            cases t <;> cases t' <;> first | rfl | exact absurd rfl hte
          rw [this] at hv
          exact List.mem_append_left _ (hz t' v hv)
      obtain ⟨h1, h2, h3, h4⟩ := ih (n + 1) (z.set t n) (D ++ [(n, t)]) hD' hz'
      refine ⟨?_, ⟨(fun o ho => by cases ho), trivial, h2⟩, ?_, ?_⟩
      · intro j hj
        rcases List.mem_cons.mp hj with rfl | hj
        · rfl
        · exact h1 j hj
      · simpa [Instr.typedResults, List.append_assoc] using h3
      · simpa [Instr.typedResults, List.append_assoc] using h4

theorem entryParams_dom (f : Fn) : (entryParams f).map (·.1) = List.range (f.params.length + 2) := by
  have : ∀ (ps : List Ty) (k : Nat),
      ((ps.zipIdx k).map (fun p => (p.2 + 2, p.1))).map (·.1) = List.range' (k + 2) ps.length := by
    intro ps
    induction ps with
    | nil => intro k; rfl
    | cons t ts ih =>
      intro k
      simp only [List.zipIdx_cons, List.map_cons, List.length_cons, List.range'_succ, ih]
  rw [entryParams_eq]
  simp only [List.map_cons, this, List.range_eq_range']
  rw [show f.params.length + 2 = (f.params.length + 1) + 1 from rfl, List.range'_succ, List.range'_succ]

theorem lowerSL_eq_sb (f : Fn) : lowerSL f = sb (entryParams f) (entryInstrs f) := rfl

/-- what the translation of a well-typed function guarantees statically: no branch instruction, every value
defined once, every operand defined before its use and shifts of the right type -/
theorem lower_static (f : Fn) (hwt : wellTyped f = true) :
    (∀ j ∈ entryInstrs f, j.branch? = none) ∧
    ((entryParams f).map (·.1) ++ (entryInstrs f).flatMap (·.results)).Nodup ∧
    Scoped (entryParams f) (entryInstrs f) := by
  have hz0 : ∀ t v, (({} : Zeros).get t = some v) → (v, t) ∈ entryParams f := by
    intro t v h; cases t <;> cases h
  obtain ⟨hd1, hd2, hd3, hd4⟩ := declLocals_static f.locals (f.params.length + 2) {} (entryParams f)
    (entryParams_dom f) hz0
  obtain ⟨_, _, _, hspec4⟩ := declLocals_spec f.locals (f.params.length + 2) {}
  have hpty : ∀ (ps : List Ty) (k : Nat),
      ((ps.zipIdx k).map (fun p => (p.2 + 2, p.1))).map (·.2) = ps := by
    intro ps
    induction ps with
    | nil => intro k; rfl
    | cons t ts ih => intro k; simp only [List.zipIdx_cons, List.map_cons, ih]
  have hinv : SInv (f.params ++ f.locals)
      (entryParams f ++ (declLocals f.locals (f.params.length + 2) {}).1.flatMap (·.typedResults)) (initLS f).2 [] := by
    refine ⟨hd3, (fun _ hp => by cases hp), ?_, rfl, ?_⟩
    · intro p hp
      have hp' : p ∈ (entryParams f).drop 2 ++ _ := hp
      rcases List.mem_append.mp hp' with hp' | hp'
      · exact List.mem_append_left _ (List.mem_of_mem_drop hp')
      · obtain ⟨t, ht, rfl⟩ := List.mem_map.mp hp'
        obtain ⟨v, hv⟩ := hspec4 t ht
        simp only [hv, Option.getD_some]
        exact hd4 t v hv
    · show (((entryParams f).drop 2 ++ _).map _) = _
      rw [entryParams_eq]
      simp only [List.drop_succ_cons, List.drop_zero, List.map_append, hpty, List.map_map]
      congr 1
      exact List.map_id'' (fun _ => rfl) _
  obtain ⟨hb, hsc, N, hN⟩ := static_body f.results f.results.length f.body _ _ _ hinv hwt
  refine ⟨?_, ?_, ?_⟩
  · intro j hj
    rcases List.mem_append.mp (show j ∈ (initLS f).1 ++ _ from hj) with hj | hj
    · exact hd1 j hj
    · exact hb j hj
  · have : (entryParams f).map (·.1) ++ (entryInstrs f).flatMap (·.results) = List.range N := by
      rw [← hN]
      simp only [entryInstrs, initLS, List.map_append, flatMap_typed_fst, List.flatMap_append, List.append_assoc]
    rw [this]; exact List.nodup_range
  · exact (scoped_append _ _ _).mpr ⟨hd2, hsc⟩

/-- the front end produces well-formed SSA on well-typed functions of the fragment -/
theorem lower_wellFormed (f : Fn) (hwt : wellTyped f = true) : wellFormed (lowerSL f) = true := by
  obtain ⟨h1, h2, h3⟩ := lower_static f hwt
  rw [lowerSL_eq_sb]
  exact wellFormed_sb h1 h2 h3

end Wz.Proofs.Front
