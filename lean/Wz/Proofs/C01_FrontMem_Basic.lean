/-
C01 / C02 (front end with memory accesses): infrastructure of the simulation.
`runL`: a prefix of instructions run on a state with a memory and an access log; the instructions of the base
fragment do not look at the memory, so the one-instruction lemmas of `C01_Front_Sim` (stated on states without
memory) are carried over (`runL_pure`); frames of the invariants; evaluation of the instructions `memOpSetup` emits.
-/
import Wz.Proofs.C01_FrontX
import Wz.Proofs.C01_FrontMem_Bytes

set_option linter.unusedSimpArgs false

namespace Wz.Proofs.FrontMem
open Wz.Spec Wz.Model.SsaPass Wz.Model.FrontendSL Wz.Model.FrontendMem Wz.Proofs.Front

/-- the SSA state of a straight-line run with memory: no calls -/
def mkM (env : Val → Nat) (mem : Mem) : St := { env := env, mem := mem, trace := [] }

theorem mkM_set (env : Val → Nat) (mem : Mem) (r : Val) (v : Nat) : (mkM env mem).set r v = mkM (upd env r v) mem := rfl

/-- a list of instructions up to the first transfer of control, with the access log -/
def runL (w : World) : List MInstr → St → List Acc → Sum (Ctl × List Acc) (St × List Acc)
  | [], st, log => .inr (st, log)
  | i :: is, st, log =>
    match stepM w i st with
    | .next st' => runL w is st' (log ++ instrAcc st.env i)
    | c => .inl (c, log ++ instrAcc st.env i)

theorem execBodyL_append (w : World) : ∀ (a rest : List MInstr) (st : St) (log : List Acc),
    execBodyL w (a ++ rest) st log =
      match runL w a st log with
      | .inr (st', log') => execBodyL w rest st' log'
      | .inl (c, log') => (some c, log') := by
  intro a
  induction a with
  | nil => intro rest st log; rfl
  | cons i is ih =>
    intro rest st log
    simp only [List.cons_append, execBodyL, runL]
    cases h : stepM w i st <;> simp only [ih]

theorem runL_append (w : World) : ∀ (a b : List MInstr) (st : St) (log : List Acc),
    runL w (a ++ b) st log =
      match runL w a st log with
      | .inr (st', log') => runL w b st' log'
      | .inl x => .inl x := by
  intro a
  induction a with
  | nil => intro b st log; rfl
  | cons i is ih =>
    intro b st log
    simp only [List.cons_append, runL]
    cases h : stepM w i st <;> simp only [ih]

theorem runL_cons_next {w : World} {i : MInstr} {st st' : St} (is : List MInstr) (log : List Acc)
    (h : stepM w i st = .next st') : runL w (i :: is) st log = runL w is st' (log ++ instrAcc st.env i) := by
  simp only [runL, h]

theorem runL_cons_trap {w : World} {i : MInstr} {st st' : St} {c : Nat} (is : List MInstr) (log : List Acc)
    (h : stepM w i st = .trap c st') : runL w (i :: is) st log = .inl (.trap c st', log ++ instrAcc st.env i) := by
  simp only [runL, h]

/-! ### the base fragment's instructions do not look at the memory -/

def pureI : Instr → Bool
  | .iconst .. | .bin .. | .icmp .. | .select .. | .un .. | .div .. => true
  | _ => false

def liftC (mem : Mem) : Ctl → Ctl
  | .next st => .next { st with mem := mem }
  | .goto b a st => .goto b a { st with mem := mem }
  | .ret vs st => .ret vs { st with mem := mem }
  | .trap c st => .trap c { st with mem := mem }

theorem exec_pure (w : World) (ρ : Val → Nat) (i : Instr) (hp : pureI i = true) (st : St) (mem : Mem) :
    execInstr w ρ i { st with mem := mem } = liftC mem (execInstr w ρ i st) := by
  cases i <;> simp only [pureI, Bool.false_eq_true] at hp <;> simp only [execInstr, liftC, St.set]
  case div op r ty x y ctx => split <;> rfl

theorem acc_pure (ρ : Val → Nat) (i : Instr) (hp : pureI i = true) : instrAcc ρ (.base i) = [] := by
  cases i <;> simp only [pureI, Bool.false_eq_true] at hp <;> rfl

theorem runL_pure (w : World) : ∀ (out : List Instr), (∀ i ∈ out, pureI i = true) → ∀ (st : St) (mem : Mem) (log : List Acc),
    runL w (out.map .base) { st with mem := mem } log =
      match execPre w out st with
      | .inr st' => .inr ({ st' with mem := mem }, log)
      | .inl c => .inl (liftC mem c, log) := by
  intro out
  induction out with
  | nil => intro _ st mem log; rfl
  | cons i is ih =>
    intro hp st mem log
    have hi := hp i (List.mem_cons_self ..)
    have his : ∀ j ∈ is, pureI j = true := fun j hj => hp j (List.mem_cons_of_mem _ hj)
    simp only [List.map_cons, runL, execPre, stepM]
    have henv : ({ st with mem := mem } : St).env = st.env := rfl
    rw [henv, exec_pure w st.env i hi st mem, acc_pure _ _ hi, List.append_nil]
    cases h : execInstr w st.env i st with
    | next st' => simp only [liftC]; exact ih his st' mem log
    | goto b a st' => rfl
    | ret vs st' => rfl
    | trap c st' => rfl

theorem lowerI_pure (i : SI) (s : LS) : ∀ j ∈ (lowerI i s).1, pureI j = true := by
  cases i <;> simp [lowerI, pureI, LS.pop]

theorem lowerI_results (i : SI) (s : LS) : ∀ j ∈ (lowerI i s).1, ∀ r ∈ j.results, s.next ≤ r := by
  cases i <;> simp [lowerI, LS.pop, Instr.results]

theorem lowerI_next (i : SI) (s : LS) : s.next ≤ (lowerI i s).2.next := by
  cases i <;> simp [lowerI, LS.pop, LS.push, LS.pushNew]

/-- a prefix changes the environment only at the results of its instructions -/
theorem execPre_frame (w : World) (n : Nat) : ∀ (out : List Instr) (st st' : St),
    (∀ j ∈ out, ∀ r ∈ j.results, n ≤ r) → execPre w out st = .inr st' → ∀ v, v < n → st'.env v = st.env v := by
  intro out
  induction out with
  | nil => intro st st' _ h v _; simp only [execPre, Sum.inr.injEq] at h; rw [h]
  | cons i is ih =>
    intro st st' hr h v hv
    simp only [execPre] at h
    have hfr := exec_frame w st.env i st v (fun hm => by have := hr i (List.mem_cons_self ..) v hm; omega)
    cases he : execInstr w st.env i st with
    | next st1 =>
      rw [he] at h hfr
      simp only at h
      rw [ih st1 st' (fun j hj => hr j (List.mem_cons_of_mem _ hj)) h v hv]
      exact hfr
    | goto b a st1 => rw [he] at h; cases h
    | ret vs st1 => rw [he] at h; cases h
    | trap c st1 => rw [he] at h; cases h

/-! ### frames of the invariants -/

theorem Inv.frame {lt : List Ty} {s s' : LS} {tys : List Ty} {stack : List Nat} {locals : Array Nat}
    {env env' : Val → Nat} (h : Inv lt s tys stack locals env) (hs : s'.stack = s.stack) (hl : s'.locals = s.locals)
    (hn : s.next ≤ s'.next) (he : ∀ v, v < s.next → env' v = env v) : Inv lt s' tys stack locals env' := by
  obtain ⟨hstk, hty, hloc, hlt, hR, hLR, hF, hLF⟩ := h
  refine ⟨?_, ?_, ?_, ?_, ?_, ?_, ?_, ?_⟩
  · rw [hs, ← hstk]; exact List.map_congr_left (fun p hp => he _ (hF p hp))
  · rw [hs]; exact hty
  · rw [hl, ← hloc]; exact List.map_congr_left (fun p hp => he _ (hLF p hp))
  · rw [hl]; exact hlt
  · intro p hp; rw [hs] at hp; rw [he _ (hF p hp)]; exact hR p hp
  · intro p hp; rw [hl] at hp; rw [he _ (hLF p hp)]; exact hLR p hp
  · intro p hp; rw [hs] at hp; exact Nat.lt_of_lt_of_le (hF p hp) hn
  · intro p hp; rw [hl] at hp; exact Nat.lt_of_lt_of_le (hLF p hp) hn

/-- every access is inside the linear memory or is one of the two reads of the module context -/
def AccOK (mc base len : Nat) (log : List Acc) : Prop :=
  ∀ a ∈ log, a.inside base len = true ∨ a.isCtxRead mc = true

theorem AccOK.nil {mc base len : Nat} : AccOK mc base len [] := fun _ h => by cases h

theorem AccOK.append {mc base len : Nat} {l1 l2 : List Acc} (h1 : AccOK mc base len l1) (h2 : AccOK mc base len l2) :
    AccOK mc base len (l1 ++ l2) := fun a ha => by
  rcases List.mem_append.mp ha with h | h
  · exact h1 a h
  · exact h2 a h

/-- the memory part of the invariant -/
structure MInv (mc base : Nat) (bytes : ByteArray) (s : MS) (env : Val → Nat) (mem : Mem) : Prop where
  emb : Emb mc base bytes mem
  ctx : env moduleCtx = mc
  nextGe : 2 ≤ s.ls.next
  mbase : ∀ v : Nat, s.memBase = some v → env v = base ∧ v < s.ls.next
  mlen : ∀ v : Nat, s.memLen = some v → env v = bytes.size ∧ v < s.ls.next
  bnd : ∀ b bound a : Nat, (b, bound, a) ∈ s.bounds →
    env b + bound ≤ bytes.size ∧ env a = base + env b ∧ b < s.ls.next ∧ a < s.ls.next

theorem MInv.frame {mc base : Nat} {bytes : ByteArray} {s s' : MS} {env env' : Val → Nat} {mem : Mem}
    (h : MInv mc base bytes s env mem) (hb : s'.memBase = s.memBase) (hl : s'.memLen = s.memLen)
    (hbd : s'.bounds = s.bounds) (hn : s.ls.next ≤ s'.ls.next) (he : ∀ v, v < s.ls.next → env' v = env v) :
    MInv mc base bytes s' env' mem := by
  obtain ⟨hemb, hctx, hge, hmb, hml, hbnd⟩ := h
  refine ⟨hemb, ?_, by omega, ?_, ?_, ?_⟩
  · rw [he _ (by show 1 < _; omega)]; exact hctx
  · intro v hv; rw [hb] at hv; obtain ⟨h1, h2⟩ := hmb v hv; rw [he v h2]; exact ⟨h1, Nat.lt_of_lt_of_le h2 hn⟩
  · intro v hv; rw [hl] at hv; obtain ⟨h1, h2⟩ := hml v hv; rw [he v h2]; exact ⟨h1, Nat.lt_of_lt_of_le h2 hn⟩
  · intro b bound a hm; rw [hbd] at hm; obtain ⟨h1, h2, h3, h4⟩ := hbnd b bound a hm
    rw [he _ h3, he _ h4]; exact ⟨h1, h2, Nat.lt_of_lt_of_le h3 hn, Nat.lt_of_lt_of_le h4 hn⟩

theorem lookupBound_mem : ∀ (bs : List (Val × Nat × Val)) (b : Val) (e : Nat × Val),
    lookupBound bs b = some e → (b, e) ∈ bs := by
  intro bs
  induction bs with
  | nil => intro b e h; cases h
  | cons p rest ih =>
    intro b e h
    obtain ⟨k, e0⟩ := p
    simp only [lookupBound] at h
    split at h
    · rename_i hk; subst hk; cases h; exact List.mem_cons_self ..
    · exact List.mem_cons_of_mem _ (ih b e h)

/-! ### evaluation of the instructions of `memOpSetup` -/

theorem evalBin_iadd64 (x y : Nat) (h : x + y < 2 ^ 64) : evalBin .iadd .i64 x y = x + y := by
  show (BitVec.ofNat 64 x + BitVec.ofNat 64 y).toNat = x + y
  rw [BitVec.toNat_add, BitVec.toNat_ofNat, BitVec.toNat_ofNat, Nat.add_mod_mod, Nat.mod_add_mod]
  exact Nat.mod_eq_of_lt h

theorem evalCond_ult64 (x y : Nat) (hx : x < 2 ^ 64) (hy : y < 2 ^ 64) :
    evalCond .ult .i64 x y = if x < y then 1 else 0 := by
  simp only [evalCond, Ty.bits, BitVec.ult, BitVec.toNat_ofNat, Nat.mod_eq_of_lt hx, Nat.mod_eq_of_lt hy]
  by_cases h : x < y <;> simp [h]

theorem evalUn_uext (x : Nat) (h : x < 2 ^ 32) : evalUn .uextend .i64 x = x := by
  simp only [evalUn, norm, Ty.bits, Nat.mod_eq_of_lt h]
  omega

end Wz.Proofs.FrontMem
