/-
C01 (front end): a function of ONE basic block without branches, whose values are defined once and before
their uses, with the little typing the shift rule needs, is `wellFormed` in the sense of `SsaPass` (the certificate
is the one `computeCert` computes).
-/
import Wz.Model.SsaPass

namespace Wz.Proofs.Front
open Wz.Model.SsaPass

/-- key lookup in an association list without duplicate keys -/
theorem assocD_mem {α} {l : List (Nat × α)} {d : α} {k : Nat} {a : α} (hnd : (l.map (·.1)).Nodup)
    (h : (k, a) ∈ l) : assocD l d k = a := by
  induction l with
  | nil => cases h
  | cons e rest ih =>
    obtain ⟨k', a'⟩ := e
    simp only [List.map_cons, List.nodup_cons] at hnd
    simp only [assocD]
    rcases List.mem_cons.mp h with h | h
    · cases h; simp
    · have hk : k ∈ rest.map (·.1) := List.mem_map.mpr ⟨(k, a), h, rfl⟩
      have : k' ≠ k := fun e => hnd.1 (e ▸ hk)
      rw [if_neg this]
      exact ih hnd.2 h

/-- a function of one block -/
def sb (ps : List (Val × Ty)) (is : List Instr) : Func :=
  { blocks := [⟨0, 0, false, ps, is⟩], alias := [] }

variable {ps : List (Val × Ty)} {is : List Instr}

theorem succs_nil (h : ∀ i ∈ is, i.branch? = none) : (Block.mk 0 0 false ps is).succs = [] := by
  simp only [Block.succs]
  apply List.filterMap_eq_nil_iff.mpr
  intro i hi
  simp [h i hi]

theorem sortedSuccs_nil (h : ∀ i ∈ is, i.branch? = none) :
    (sb ps is).sortedSuccs (Block.mk 0 0 false ps is) = [] := by
  simp only [Func.sortedSuccs, succs_nil h, List.foldl_nil]

theorem blockAny_sb : (sb ps is).blockAny 0 = some (Block.mk 0 0 false ps is) := by
  simp [Func.blockAny, sb]

theorem findBlock_sb : (sb ps is).findBlock 0 = some (Block.mk 0 0 false ps is) := by
  simp [Func.findBlock, sb]

theorem reachLoop_sb (h : ∀ i ∈ is, i.branch? = none) (m : Nat) :
    reachLoop (sb ps is) (m + 2) [0] [] = some [0] := by
  simp [reachLoop, blockAny_sb, sortedSuccs_nil h]

theorem deadBlockElim_sb (h : ∀ i ∈ is, i.branch? = none) : deadBlockElim (sb ps is) = sb ps is := by
  have hr : reachable (sb ps is) = some [0] := reachLoop_sb h _
  simp only [deadBlockElim, hr]
  simp [sb]

theorem rpo_sb (h : ∀ i ∈ is, i.branch? = none) : rpo (sb ps is) = [0] := by
  have : ∀ m, rpoLoop (sb ps is) (m + 3) [0] [0] [] [] = [0] := by
    intro m
    simp [rpoLoop, findBlock_sb, sortedSuccs_nil h, List.eraseDups]
  exact this _

def sbRanks (ps : List (Val × Ty)) (is : List Instr) : List (Nat × Nat) :=
  ps.map (fun p => (p.1, 0)) ++ (is.zipIdx).flatMap (fun x => x.1.results.map (fun r => (r, x.2 + 1)))

def sbTys (ps : List (Val × Ty)) (is : List Instr) : List (Nat × Ty) := ps ++ is.flatMap (·.typedResults)

theorem validBlocks_sb : (sb ps is).validBlocks = [Block.mk 0 0 false ps is] := by
  simp [Func.validBlocks, sb]

theorem cert_M (_h : ∀ i ∈ is, i.branch? = none) : (computeCert (sb ps is)).M = is.length + 2 := by
  simp [computeCert, validBlocks_sb]

theorem cert_bidx (h : ∀ i ∈ is, i.branch? = none) : (computeCert (sb ps is)).bidx 0 = 0 := by
  simp [computeCert, rpo_sb h, indexOfD]

theorem cert_avail : (computeCert (sb ps is)).avail 0 = [] := by
  simp [computeCert, Func.entry, sb]

theorem cert_pdefs : (computeCert (sb ps is)).pdefs 0 = ps.map (·.1) := by
  simp [computeCert, findBlock_sb]

theorem cert_rank (h : ∀ i ∈ is, i.branch? = none) :
    (computeCert (sb ps is)).rank = assocD (sbRanks ps is) 0 := by
  simp [computeCert, validBlocks_sb, rpo_sb h, indexOfD, sbRanks]

theorem cert_cty : (computeCert (sb ps is)).cty = assocD (sbTys ps is) .i64 := by
  simp [computeCert, validBlocks_sb, sbTys]

theorem typedResults_fst (i : Instr) : i.typedResults.map (·.1) = i.results := by
  cases i <;> simp [Instr.typedResults, Instr.results]

theorem flatMap_typed_fst (l : List Instr) : (l.flatMap (·.typedResults)).map (·.1) = l.flatMap (·.results) := by
  induction l with
  | nil => rfl
  | cons i l ih => simp only [List.flatMap_cons, List.map_append, typedResults_fst, ih]

theorem sbTys_keys : (sbTys ps is).map (·.1) = ps.map (·.1) ++ is.flatMap (·.results) := by
  simp only [sbTys, List.map_append, flatMap_typed_fst]

theorem sbRanks_keys : (sbRanks ps is).map (·.1) = ps.map (·.1) ++ is.flatMap (·.results) := by
  simp only [sbRanks, List.map_append, List.map_map]
  congr 1
  generalize 0 = k
  induction is generalizing k with
  | nil => rfl
  | cons i l ih =>
    simp only [List.zipIdx_cons, List.flatMap_cons, List.map_append, List.map_map, ih]
    congr 1
    exact List.map_id'' (fun _ => rfl) _

/-- definitions before uses, and the shifted operand of a shift has the type of the shift -/
def Scoped : List (Val × Ty) → List Instr → Prop
  | _, [] => True
  | D, i :: is => (∀ o ∈ i.operands, o ∈ D.map (·.1)) ∧
      (match i with
       | .bin op _ ty x _ => isShift op → (x, ty) ∈ D
       | _ => True) ∧
      Scoped (D ++ i.typedResults) is


theorem rank_param (hbr : ∀ i ∈ is, i.branch? = none)
    (hnd : (ps.map (·.1) ++ is.flatMap (·.results)).Nodup) {q : Val} (hq : q ∈ ps.map (·.1)) :
    (computeCert (sb ps is)).rank q = 0 := by
  rw [cert_rank hbr]
  obtain ⟨p, hp, rfl⟩ := List.mem_map.mp hq
  exact assocD_mem (by rw [sbRanks_keys]; exact hnd)
    (List.mem_append_left _ (List.mem_map.mpr ⟨p, hp, rfl⟩))

theorem rank_result (hbr : ∀ i ∈ is, i.branch? = none)
    (hnd : (ps.map (·.1) ++ is.flatMap (·.results)).Nodup) {i : Instr} {k : Nat} (hk : is[k]? = some i)
    {r : Val} (hr : r ∈ i.results) : (computeCert (sb ps is)).rank r = k + 1 := by
  rw [cert_rank hbr]
  refine assocD_mem (by rw [sbRanks_keys]; exact hnd) (List.mem_append_right _ ?_)
  refine List.mem_flatMap.mpr ⟨(i, k), List.mem_zipIdx_iff_getElem?.mpr hk, ?_⟩
  exact List.mem_map.mpr ⟨r, hr, rfl⟩

theorem cty_mem (hnd : (ps.map (·.1) ++ is.flatMap (·.results)).Nodup) {p : Val × Ty} (hp : p ∈ sbTys ps is) :
    (computeCert (sb ps is)).cty p.1 = p.2 := by
  rw [cert_cty]
  exact assocD_mem (by rw [sbTys_keys]; exact hnd) hp

theorem bodyOK_suffix (hbr : ∀ i ∈ is, i.branch? = none)
    (hnd : (ps.map (·.1) ++ is.flatMap (·.results)).Nodup) :
    ∀ (suf pre : List Instr), is = pre ++ suf → Scoped (ps ++ pre.flatMap (·.typedResults)) suf →
      BodyOK (computeCert (sb ps is)) (sb ps is) (Block.mk 0 0 false ps is)
        (ps.map (·.1) ++ pre.flatMap (·.results)) suf := by
  intro suf
  induction suf with
  | nil => intro _ _ _; trivial
  | cons i suf ih =>
    intro pre his hsc
    obtain ⟨hops, hshift, hrest⟩ := hsc
    have hik : is[pre.length]? = some i := by rw [his]; simp
    have hklt : pre.length < is.length := by rw [his]; simp
    have hD : (ps ++ pre.flatMap (·.typedResults)).map (·.1) = ps.map (·.1) ++ pre.flatMap (·.results) := by
      simp only [List.map_append, flatMap_typed_fst]
    have hsub : ∀ p, p ∈ ps ++ pre.flatMap (·.typedResults) → p ∈ sbTys ps is := by
      intro p hp
      rcases List.mem_append.mp hp with hp | hp
      · exact List.mem_append_left _ hp
      · refine List.mem_append_right _ ?_
        rw [his, List.flatMap_append]
        exact List.mem_append_left _ hp
    refine ⟨⟨?_, ?_, ?_, ?_, ?_, ?_⟩, ?_⟩
    · intro o ho
      exact ⟨o, hD ▸ hops o ho, rfl⟩
    · intro r _; exact .inl rfl
    · intro r hr
      rw [rank_result hbr hnd hik hr]
      refine ⟨?_, ?_⟩
      · intro v hv
        rcases List.mem_append.mp hv with hv | hv
        · rw [rank_param hbr hnd hv]; omega
        · obtain ⟨j, hj, hvj⟩ := List.mem_flatMap.mp hv
          obtain ⟨k', hk', hjk⟩ := List.getElem_of_mem hj
          have : is[k']? = some j := by
            rw [his, List.getElem?_append_left hk', List.getElem?_eq_getElem hk', hjk]
          rw [rank_result hbr hnd this hvj]; omega
      · rw [cert_bidx hbr, cert_M hbr]; omega
    · intro p hp
      refine cty_mem hnd (List.mem_append_right _ ?_)
      rw [his, List.flatMap_append, List.flatMap_cons]
      exact List.mem_append_right _ (List.mem_append_left _ hp)
    · cases i <;> try trivial
      rename_i op r ty x y
      intro hs
      exact cty_mem hnd (p := (x, ty)) (hsub _ (hshift hs))
    · rw [hbr i (by rw [his]; simp)]; trivial
    · have := ih (pre ++ [i]) (by rw [his]; simp) (by simpa [List.flatMap_append, List.append_assoc] using hrest)
      simpa [List.flatMap_append, List.append_assoc] using this


theorem wf_sb (hbr : ∀ i ∈ is, i.branch? = none)
    (hnd : (ps.map (·.1) ++ is.flatMap (·.results)).Nodup) (hsc : Scoped ps is) :
    WF (computeCert (sb ps is)) (sb ps is) := by
  have hentry : (sb ps is).entry = 0 := rfl
  refine
    { ids := by simp [UniqueIds, sb]
      nf := fun e he => by cases he
      alRank := fun e he => by cases he
      alTy := fun e he => by cases he
      constKey := fun i _ => by cases i <;> simp [ConstNoKey, sb, aliasGet]
      uniq := by simpa [Func.allDefs, sb] using hnd
      entryAvail := by rw [hentry]; exact cert_avail
      entryGhost := ?_
      Mpos := by rw [cert_M hbr]; omega
      blocks := ?_ }
  · intro B hB _ q hq
    rw [hentry, cert_pdefs] at hq
    have : B = Block.mk 0 0 false ps is := by simpa [sb] using hB
    subst this
    exact hq
  · intro B hB _
    have : B = Block.mk 0 0 false ps is := by simpa [sb] using hB
    subst this
    refine ⟨?_, ?_, ?_, ?_, ?_, ?_⟩
    · intro p hp
      refine ⟨?_, cty_mem hnd (List.mem_append_left _ hp), rfl⟩
      show p.1 ∈ (computeCert (sb ps is)).pdefs 0
      rw [cert_pdefs]; exact List.mem_map.mpr ⟨p, hp, rfl⟩
    · intro q hq
      have hq' : q ∈ (computeCert (sb ps is)).pdefs 0 := hq
      rw [cert_pdefs] at hq'
      show _ = (computeCert (sb ps is)).bidx 0 * _
      rw [rank_param hbr hnd hq', cert_bidx hbr]; omega
    · intro q hq hq2
      have hq' : q ∈ (computeCert (sb ps is)).pdefs 0 := hq
      rw [cert_pdefs] at hq'
      exact absurd hq' hq2
    · intro v hv
      have hv' : v ∈ (computeCert (sb ps is)).avail 0 := hv
      rw [cert_avail] at hv'; cases hv'
    · show BodyOK _ _ _ ((computeCert (sb ps is)).avail 0 ++ (computeCert (sb ps is)).pdefs 0) is
      rw [cert_avail, cert_pdefs]
      have := bodyOK_suffix hbr hnd is [] rfl (by simpa using hsc)
      simpa using this
    · intro hne; exact absurd rfl hne

/-- … and so it passes the check of `SsaPass` -/
theorem wellFormed_sb (hbr : ∀ i ∈ is, i.branch? = none)
    (hnd : (ps.map (·.1) ++ is.flatMap (·.results)).Nodup) (hsc : Scoped ps is) :
    wellFormed (sb ps is) = true := by
  simp only [wellFormed, deadBlockElim_sb hbr, decide_eq_true_eq]
  exact wf_sb hbr hnd hsc

end Wz.Proofs.Front
