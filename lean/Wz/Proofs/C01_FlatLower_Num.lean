/-
C01 (lowering): range of the results of the numeric instructions of the fragment.  `Wz.Spec.Num.scalar`
dispatches on the instruction NAME (`name.splitOn "."`); for the names of the fragment's tables `sig1` / `sig2`
the split is evaluated here once and for all, and every result of an instruction with result type `t` is shown
to be `< 2 ^ t.bits` (i32 values stay zero-extended: what makes the call engine's `> 0` / `== 0` tests on a whole
64-bit slot agree with the specification's tests modulo 2^32).
-/
import Wz.Model.FlatLower

namespace Wz.Proofs.FlatLower
open Wz.Spec Wz.Spec.Wasm Wz.Model.FlatLower

def sc2 (t op : String) (x y : Nat) : Option Num.Res :=
  match t with
  | "i32" => Num.ibin 32 op x y
  | "i64" => Num.ibin 64 op x y
  | "f32" => Num.fbin Float.f32 op x y
  | "f64" => Num.fbin Float.f64 op x y
  | _ => none

theorem scalar2_eq {name t op : String} {x y : Nat} (h : name.splitOn "." = [t, op]) :
    Num.scalar name [x, y] = sc2 t op x y := by
  unfold Num.scalar sc2
  generalize name.splitOn "." = l at h
  subst h
  rfl

def sc1 (name t op : String) (x : Nat) : Option Num.Res :=
  (Num.conv name x).orElse fun _ =>
      match t with
      | "i32" => Num.iun 32 op x
      | "i64" => Num.iun 64 op x
      | "f32" => Num.fun1 Float.f32 op x
      | "f64" => Num.fun1 Float.f64 op x
      | _ => none

theorem scalar1_eq {name t op : String} {x : Nat} (h : name.splitOn "." = [t, op]) :
    Num.scalar name [x] = sc1 name t op x := by
  unfold Num.scalar sc1
  generalize name.splitOn "." = l at h
  subst h
  rfl

theorem optRes_range {n} {o : Option (BitVec n)} {k v} (hr : numResult (Num.optRes o k) = .ok v) : v < 2 ^ n := by
  cases o with
  | none => simp [Num.optRes, numResult] at hr
  | some b => simp [Num.optRes, numResult] at hr; subst hr; exact BitVec.isLt _

theorem ibin_range {n op x y res v} (hn : 32 ≤ n) (h : Num.ibin n op x y = some res) (hr : numResult res = .ok v) : v < 2 ^ n := by
  have h32 : (2:Nat) ^ 32 ≤ 2 ^ n := Nat.pow_le_pow_right (by decide) hn
  unfold Num.ibin at h
  split at h
  all_goals first
    | (cases h; done)
    | (simp only [Option.some.injEq] at h; subst h)
  all_goals first
    | (simp [numResult] at hr; subst hr; exact BitVec.isLt _)
    | (simp [numResult] at hr; subst hr; exact Nat.lt_of_lt_of_le (BitVec.isLt _) h32)
    | exact optRes_range hr
    | (split at hr
       · simp [numResult] at hr
       · exact optRes_range hr)

theorem ibin_rel_range {n op x y res v} (hop : op ∈ ["eq", "ne", "lt_s", "lt_u", "gt_s", "gt_u", "le_s", "le_u", "ge_s", "ge_u"])
    (h : Num.ibin n op x y = some res) (hr : numResult res = .ok v) : v < 2 ^ 32 := by
  simp only [List.mem_cons, List.mem_nil_iff, or_false] at hop
  rcases hop with rfl | rfl | rfl | rfl | rfl | rfl | rfl | rfl | rfl | rfl <;>
    (simp only [Num.ibin, Option.some.injEq] at h; subst h; simp [numResult] at hr; subst hr; exact BitVec.isLt _)

theorem iun_range {n op x res v} (hn : 32 ≤ n) (h : Num.iun n op x = some res) (hr : numResult res = .ok v) : v < 2 ^ n := by
  have h32 : (2:Nat) ^ 32 ≤ 2 ^ n := Nat.pow_le_pow_right (by decide) hn
  unfold Num.iun at h
  split at h
  all_goals first
    | (cases h; done)
    | (simp only [Option.some.injEq] at h; subst h)
  all_goals first
    | (simp [numResult] at hr; subst hr; exact BitVec.isLt _)
    | (simp [numResult] at hr; subst hr; exact Nat.lt_of_lt_of_le (BitVec.isLt _) h32)

/-! ### the names of the fragment -/

abbrev NE := String × String × String × Ty × Ty   -- name, prefix, operation, operand type, result type

def relOps : List String := ["eq", "ne", "lt_s", "lt_u", "gt_s", "gt_u", "le_s", "le_u", "ge_s", "ge_u"]

def tbl2 : List NE :=
  [("i32.eq", "i32", "eq", .i32, .i32),
   ("i32.ne", "i32", "ne", .i32, .i32),
   ("i32.lt_s", "i32", "lt_s", .i32, .i32),
   ("i32.lt_u", "i32", "lt_u", .i32, .i32),
   ("i32.gt_s", "i32", "gt_s", .i32, .i32),
   ("i32.gt_u", "i32", "gt_u", .i32, .i32),
   ("i32.le_s", "i32", "le_s", .i32, .i32),
   ("i32.le_u", "i32", "le_u", .i32, .i32),
   ("i32.ge_s", "i32", "ge_s", .i32, .i32),
   ("i32.ge_u", "i32", "ge_u", .i32, .i32),
   ("i32.add", "i32", "add", .i32, .i32),
   ("i32.sub", "i32", "sub", .i32, .i32),
   ("i32.mul", "i32", "mul", .i32, .i32),
   ("i32.div_s", "i32", "div_s", .i32, .i32),
   ("i32.div_u", "i32", "div_u", .i32, .i32),
   ("i32.rem_s", "i32", "rem_s", .i32, .i32),
   ("i32.rem_u", "i32", "rem_u", .i32, .i32),
   ("i32.and", "i32", "and", .i32, .i32),
   ("i32.or", "i32", "or", .i32, .i32),
   ("i32.xor", "i32", "xor", .i32, .i32),
   ("i32.shl", "i32", "shl", .i32, .i32),
   ("i32.shr_s", "i32", "shr_s", .i32, .i32),
   ("i32.shr_u", "i32", "shr_u", .i32, .i32),
   ("i32.rotl", "i32", "rotl", .i32, .i32),
   ("i32.rotr", "i32", "rotr", .i32, .i32),
   ("i64.eq", "i64", "eq", .i64, .i32),
   ("i64.ne", "i64", "ne", .i64, .i32),
   ("i64.lt_s", "i64", "lt_s", .i64, .i32),
   ("i64.lt_u", "i64", "lt_u", .i64, .i32),
   ("i64.gt_s", "i64", "gt_s", .i64, .i32),
   ("i64.gt_u", "i64", "gt_u", .i64, .i32),
   ("i64.le_s", "i64", "le_s", .i64, .i32),
   ("i64.le_u", "i64", "le_u", .i64, .i32),
   ("i64.ge_s", "i64", "ge_s", .i64, .i32),
   ("i64.ge_u", "i64", "ge_u", .i64, .i32),
   ("i64.add", "i64", "add", .i64, .i64),
   ("i64.sub", "i64", "sub", .i64, .i64),
   ("i64.mul", "i64", "mul", .i64, .i64),
   ("i64.div_s", "i64", "div_s", .i64, .i64),
   ("i64.div_u", "i64", "div_u", .i64, .i64),
   ("i64.rem_s", "i64", "rem_s", .i64, .i64),
   ("i64.rem_u", "i64", "rem_u", .i64, .i64),
   ("i64.and", "i64", "and", .i64, .i64),
   ("i64.or", "i64", "or", .i64, .i64),
   ("i64.xor", "i64", "xor", .i64, .i64),
   ("i64.shl", "i64", "shl", .i64, .i64),
   ("i64.shr_s", "i64", "shr_s", .i64, .i64),
   ("i64.shr_u", "i64", "shr_u", .i64, .i64),
   ("i64.rotl", "i64", "rotl", .i64, .i64),
   ("i64.rotr", "i64", "rotr", .i64, .i64)]

def tbl1 : List NE :=
  [("i32.eqz", "i32", "eqz", .i32, .i32),
   ("i32.clz", "i32", "clz", .i32, .i32),
   ("i32.ctz", "i32", "ctz", .i32, .i32),
   ("i32.popcnt", "i32", "popcnt", .i32, .i32),
   ("i32.extend8_s", "i32", "extend8_s", .i32, .i32),
   ("i32.extend16_s", "i32", "extend16_s", .i32, .i32),
   ("i64.clz", "i64", "clz", .i64, .i64),
   ("i64.ctz", "i64", "ctz", .i64, .i64),
   ("i64.popcnt", "i64", "popcnt", .i64, .i64),
   ("i64.extend8_s", "i64", "extend8_s", .i64, .i64),
   ("i64.extend16_s", "i64", "extend16_s", .i64, .i64),
   ("i64.extend32_s", "i64", "extend32_s", .i64, .i64),
   ("i64.eqz", "i64", "eqz", .i64, .i32),
   ("i32.wrap_i64", "i32", "wrap_i64", .i64, .i32),
   ("i64.extend_i32_s", "i64", "extend_i32_s", .i32, .i64),
   ("i64.extend_i32_u", "i64", "extend_i32_u", .i32, .i64)]

def splitChk (e : NE) : Bool := e.1.splitOn "." == [e.2.1, e.2.2.1]

/-- result type: the operand width, or i32 for a comparison -/
def shape2 (e : NE) : Bool :=
  (e.2.1 == "i32" && e.2.2.2.2 == .i32) || (e.2.1 == "i64" && e.2.2.2.2 == .i64) ||
    (e.2.1 == "i64" && relOps.contains e.2.2.1 && e.2.2.2.2 == .i32)

theorem tbl2_split : tbl2.all splitChk = true := by
  simp only [tbl2, List.all_cons, List.all_nil, splitChk]
  simp +decide [String.splitOn, String.splitOnAux.eq_1]

theorem tbl1_split : tbl1.all splitChk = true := by
  simp only [tbl1, List.all_cons, List.all_nil, splitChk]
  simp +decide [String.splitOn, String.splitOnAux.eq_1]

theorem tbl2_shape : tbl2.all shape2 = true := by decide

def inTbl (tbl : List NE) (n : String) (a r : Ty) : Bool :=
  tbl.any (fun e => e.1 == n && e.2.2.2.1 == a && e.2.2.2.2 == r)

theorem inTbl_mem {tbl n a r} (h : inTbl tbl n a r = true) : ∃ t op, (n, t, op, a, r) ∈ tbl := by
  unfold inTbl at h
  obtain ⟨⟨n', t, op, a', r'⟩, hm, hp⟩ := List.any_eq_true.mp h
  simp only [Bool.and_eq_true, beq_iff_eq] at hp
  obtain ⟨⟨rfl, rfl⟩, rfl⟩ := hp
  exact ⟨t, op, hm⟩

theorem sig2_mem {n a r} (hs : sig2 n = some (a, r)) : ∃ t op, (n, t, op, a, r) ∈ tbl2 := by
  apply inTbl_mem
  unfold sig2 at hs
  split at hs <;> first
    | (cases hs; decide)
    | (cases hs)

theorem sig1_mem {n a r} (hs : sig1 n = some (a, r)) : ∃ t op, (n, t, op, a, r) ∈ tbl1 := by
  apply inTbl_mem
  unfold sig1 at hs
  split at hs <;> first
    | (cases hs; decide)
    | (cases hs)

/-- every result of a binary instruction of the fragment fits its result type -/
theorem sig2_range {n a r x y res v} (hs : sig2 n = some (a, r)) (h : Num.scalar n [x, y] = some res)
    (hr : numResult res = .ok v) : v < 2 ^ r.bits := by
  obtain ⟨t, op, hm⟩ := sig2_mem hs
  have hsp := List.all_eq_true.mp tbl2_split _ hm
  have hsh := List.all_eq_true.mp tbl2_shape _ hm
  simp only [splitChk, beq_iff_eq] at hsp
  rw [scalar2_eq hsp] at h
  simp only [shape2, Bool.or_eq_true, Bool.and_eq_true, beq_iff_eq] at hsh
  rcases hsh with (⟨rfl, rfl⟩ | ⟨rfl, rfl⟩) | ⟨⟨rfl, hrel⟩, rfl⟩
  · exact ibin_range (n := 32) (by decide) (by simpa [sc2] using h) hr
  · exact ibin_range (n := 64) (by decide) (by simpa [sc2] using h) hr
  · exact ibin_rel_range (n := 64) (by simpa [relOps] using hrel) (by simpa [sc2] using h) hr

/-- every result of a unary instruction of the fragment fits its result type -/
theorem sig1_range {n a r x res v} (hs : sig1 n = some (a, r)) (h : Num.scalar n [x] = some res)
    (hr : numResult res = .ok v) : v < 2 ^ r.bits := by
  obtain ⟨t, op, hm⟩ := sig1_mem hs
  have hsp := List.all_eq_true.mp tbl1_split _ hm
  simp only [splitChk, beq_iff_eq] at hsp
  rw [scalar1_eq hsp] at h
  simp only [tbl1, List.mem_cons, List.mem_nil_iff, or_false, Prod.mk.injEq] at hm
  rcases hm with hm | hm | hm | hm | hm | hm | hm | hm | hm | hm | hm | hm | hm | hm | hm | hm
  all_goals
    obtain ⟨rfl, rfl, rfl, rfl, rfl⟩ := hm
    simp +decide [sc1, Num.conv, Num.iun, Option.orElse] at h
    subst h
    simp [numResult] at hr
    subst hr
    first
      | exact BitVec.isLt _
      | exact Nat.lt_of_lt_of_le (BitVec.isLt _) (by decide)
      | exact Nat.mod_lt _ (by decide)
      | exact Nat.lt_of_lt_of_le (Nat.mod_lt _ (by decide)) (by decide)

end Wz.Proofs.FlatLower
