/-
C01 front end: the specification's integer operations (`Wz.Spec.Int`, over `BitVec`) agree with the
SSA model's arithmetic (`Wz.Model.SsaPass`, over `Nat`): clz / ctz / popcnt, and the four divisions
against the `BitVec` primitives `evalDiv` uses.  Everything is proved for an arbitrary width `w`
(the primed forms); the forms with `w = 32 ∨ w = 64` and `x < 2 ^ w` are corollaries.
-/
import Wz.Spec.Int
import Wz.Model.SsaPass
namespace Wz.Proofs.FrontNum
open Wz.Spec Wz.Model.SsaPass

/-! ### clz -/

theorem clzAux_eq_log2 {n : Nat} (a : BitVec n) :
    ∀ k, a.toNat < 2 ^ k →
      Int.clzAux a k = if a.toNat = 0 then k else k - 1 - Nat.log2 a.toNat := by
  intro k
  induction k with
  | zero =>
    intro h
    have : a.toNat = 0 := by simpa using h
    simp [Int.clzAux, this]
  | succ k ih =>
    intro h
    simp only [Int.clzAux]
    by_cases hb : a.getLsbD k = true
    · have hge : 2 ^ k ≤ a.toNat := Nat.ge_two_pow_of_testBit (by simpa [BitVec.getLsbD] using hb)
      have hpos : 0 < 2 ^ k := Nat.two_pow_pos k
      have hne : a.toNat ≠ 0 := by omega
      have hlog : Nat.log2 a.toNat = k := (Nat.log2_eq_iff hne).2 ⟨hge, h⟩
      simp [hb, hlog, hne]
    · have hb' : a.toNat.testBit k = false := by simpa [BitVec.getLsbD] using hb
      have hlt : a.toNat < 2 ^ k := by
        rw [Nat.testBit_eq_decide_div_mod_eq] at hb'
        have h2 : a.toNat / 2 ^ k < 2 := by
          apply Nat.div_lt_of_lt_mul
          rw [Nat.pow_succ] at h; omega
        have h3 : a.toNat / 2 ^ k = 0 := by
          have : ¬ (a.toNat / 2 ^ k % 2 = 1) := by simpa using hb'
          generalize a.toNat / 2 ^ k = q at h2 this
          omega
        exact (Nat.div_eq_zero_iff_lt (Nat.two_pow_pos k)).1 h3
      rw [if_neg hb, ih hlt]
      by_cases hz : a.toNat = 0
      · simp [hz]; omega
      · have := (Nat.log2_lt hz).2 hlt
        simp [hz]; omega

theorem clz_agree' (w x : Nat) : (Int.iclz (BitVec.ofNat w x)).toNat = clz w x := by
  unfold Int.iclz clz
  have h := clzAux_eq_log2 (BitVec.ofNat w x) w (BitVec.ofNat w x).isLt
  rw [h]
  simp only [BitVec.toNat_ofNat]
  have hw : w < 2 ^ w := Nat.lt_two_pow_self
  apply Nat.mod_eq_of_lt
  split <;> omega

theorem clz_agree (w x : Nat) (_hw : w = 32 ∨ w = 64) (_hx : x < 2 ^ w) :
    (Int.iclz (BitVec.ofNat w x)).toNat = clz w x := clz_agree' w x

/-! ### ctz -/

theorem ctzAux_zero : ∀ k acc, Wz.Model.SsaPass.ctzAux 0 k acc = acc + k := by
  intro k
  induction k with
  | zero => intro acc; simp [Wz.Model.SsaPass.ctzAux]
  | succ k ih => intro acc; simp [Wz.Model.SsaPass.ctzAux, ih]; omega

theorem ctzAux_eq {n : Nat} (a : BitVec n) :
    ∀ k i acc, Int.ctzAux a i k + acc = Wz.Model.SsaPass.ctzAux (a.toNat / 2 ^ i) k acc := by
  intro k
  induction k with
  | zero => intro i acc; simp [Int.ctzAux, Wz.Model.SsaPass.ctzAux]
  | succ k ih =>
    intro i acc
    simp only [Int.ctzAux, Wz.Model.SsaPass.ctzAux]
    have hbit : a.getLsbD i = decide (a.toNat / 2 ^ i % 2 = 1) := by
      simp only [BitVec.getLsbD]; exact Nat.testBit_eq_decide_div_mod_eq
    by_cases h : a.toNat / 2 ^ i % 2 = 1
    · simp [hbit, h]
    · have hd : a.toNat / 2 ^ i / 2 = a.toNat / 2 ^ (i + 1) := by
        rw [Nat.div_div_eq_div_mul, Nat.pow_succ]
      simp only [hbit, h, decide_false, if_false, Bool.false_eq_true]
      rw [hd, ← ih (i + 1) (acc + 1)]
      omega

theorem spec_ctzAux_le {n : Nat} (a : BitVec n) : ∀ k i, Int.ctzAux a i k ≤ k := by
  intro k
  induction k with
  | zero => intro i; simp [Int.ctzAux]
  | succ k ih =>
    intro i
    simp only [Int.ctzAux]
    have := ih (i + 1)
    split <;> omega

theorem ctz_agree' (w x : Nat) : (Int.ictz (BitVec.ofNat w x)).toNat = ctz w x := by
  unfold Int.ictz ctz
  have h := ctzAux_eq (BitVec.ofNat w x) w 0 0
  simp only [Nat.add_zero, Nat.pow_zero, Nat.div_one, BitVec.toNat_ofNat] at h
  rw [h]
  have hw : w < 2 ^ w := Nat.lt_two_pow_self
  have hle : Wz.Model.SsaPass.ctzAux (x % 2 ^ w) w 0 ≤ w := by
    rw [← h]
    exact spec_ctzAux_le _ _ _
  simp only [BitVec.toNat_ofNat]
  rw [Nat.mod_eq_of_lt (by omega)]
  split
  · rename_i hz; rw [hz, ctzAux_zero]; omega
  · rfl

theorem ctz_agree (w x : Nat) (_hw : w = 32 ∨ w = 64) (_hx : x < 2 ^ w) :
    (Int.ictz (BitVec.ofNat w x)).toNat = ctz w x := ctz_agree' w x

/-! ### popcnt -/

theorem popcntAux_succ' : ∀ k x, popcntAux x (k + 1) = popcntAux x k + x / 2 ^ k % 2 := by
  intro k
  induction k with
  | zero => intro x; simp [popcntAux]
  | succ k ih =>
    intro x
    rw [popcntAux, ih (x / 2), popcntAux]
    have hd : x / 2 / 2 ^ k = x / 2 ^ (k + 1) := by
      rw [Nat.div_div_eq_div_mul, Nat.pow_succ, Nat.mul_comm]
    rw [hd]; omega

theorem popAux_eq {n : Nat} (a : BitVec n) : ∀ k, Int.popAux a k = popcntAux a.toNat k := by
  intro k
  induction k with
  | zero => simp [Int.popAux, popcntAux]
  | succ k ih =>
    rw [popcntAux_succ', Int.popAux, ih]
    have hbit : a.getLsbD k = decide (a.toNat / 2 ^ k % 2 = 1) := by
      simp only [BitVec.getLsbD]; exact Nat.testBit_eq_decide_div_mod_eq
    rw [hbit]
    by_cases h : a.toNat / 2 ^ k % 2 = 1
    · simp [h]; omega
    · have h0 : a.toNat / 2 ^ k % 2 = 0 := by
        generalize a.toNat / 2 ^ k = q at h
        omega
      simp [h0]

theorem popcntAux_le' : ∀ k x, popcntAux x k ≤ k := by
  intro k
  induction k with
  | zero => intro x; simp [popcntAux]
  | succ k ih =>
    intro x
    have := ih (x / 2)
    simp only [popcntAux]; omega

theorem popcnt_agree' (w x : Nat) : (Int.ipopcnt (BitVec.ofNat w x)).toNat = popcnt w x := by
  unfold Int.ipopcnt popcnt
  rw [popAux_eq]
  simp only [BitVec.toNat_ofNat]
  have hw : w < 2 ^ w := Nat.lt_two_pow_self
  have := popcntAux_le' w (x % 2 ^ w)
  exact Nat.mod_eq_of_lt (by omega)

theorem popcnt_agree (w x : Nat) (_hw : w = 32 ∨ w = 64) (_hx : x < 2 ^ w) :
    (Int.ipopcnt (BitVec.ofNat w x)).toNat = popcnt w x := popcnt_agree' w x

/-! ### division -/

section Div
variable {w : Nat} (a b : BitVec w)

theorem idivU_agree (hb : b.toNat ≠ 0) : Int.idivU a b = some (a.udiv b) := by
  unfold Int.idivU
  simp only [hb, if_false]
  congr 1
  apply BitVec.eq_of_toNat_eq
  simp only [BitVec.toNat_ofNat]
  have h3 := Nat.div_le_self a.toNat b.toNat
  have h4 := a.isLt
  exact Nat.mod_eq_of_lt (by omega)

theorem iremU_agree (hb : b.toNat ≠ 0) : Int.iremU a b = some (a.umod b) := by
  unfold Int.iremU
  simp only [hb, if_false]
  congr 1
  apply BitVec.eq_of_toNat_eq
  simp only [BitVec.toNat_ofNat]
  have h3 := Nat.mod_le a.toNat b.toNat
  have h4 := a.isLt
  exact Nat.mod_eq_of_lt (by omega)

theorem toInt_eq_zero_iff_toNat : b.toInt = 0 ↔ b.toNat = 0 := by
  constructor
  · intro h
    have : b = 0#w := BitVec.toInt_inj.mp (by simpa using h)
    simp [this]
  · intro h
    have : b = 0#w := BitVec.eq_of_toNat_eq (by simpa using h)
    simp [this]

theorem idivU_zero (hb : b.toNat = 0) : Int.idivU a b = none := by
  simp [Int.idivU, hb]

theorem iremU_zero (hb : b.toNat = 0) : Int.iremU a b = none := by
  simp [Int.iremU, hb]

theorem idivS_zero (hb : b.toNat = 0) : Int.idivS a b = none := by
  have := (toInt_eq_zero_iff_toNat b).2 hb
  simp [Int.idivS, this]

theorem iremS_zero (hb : b.toNat = 0) : Int.iremS a b = none := by
  have := (toInt_eq_zero_iff_toNat b).2 hb
  simp [Int.iremS, this]

theorem width_pos_of_ne (hb : b.toNat ≠ 0) : 0 < w := by
  rcases Nat.eq_zero_or_pos w with h | h
  · subst h; exact absurd (by simp [BitVec.eq_nil b]) hb
  · exact h

theorem iremS_agree (hb : b.toNat ≠ 0) : Int.iremS a b = some (a.srem b) := by
  have hb' : b.toInt ≠ 0 := fun h => hb ((toInt_eq_zero_iff_toNat b).1 h)
  unfold Int.iremS
  simp only [hb', if_false]
  rw [← BitVec.toInt_srem, BitVec.ofInt_toInt]

theorem idivS_overflow (hb : b.toNat ≠ 0) (h : a = BitVec.intMin w ∧ b = BitVec.allOnes w) :
    Int.idivS a b = none := by
  have hn := width_pos_of_ne b hb
  obtain ⟨ha, hb1⟩ := h
  subst ha; subst hb1
  have h1 : (BitVec.intMin w).toInt = -2 ^ (w - 1) := BitVec.toInt_intMin_of_pos hn
  have h2 : (BitVec.allOnes w).toInt = -1 := by
    rw [BitVec.toInt_allOnes]; simp [hn]
  simp [Int.idivS, h1, h2]

theorem idivS_agree (hb : b.toNat ≠ 0) (h : ¬ (a = BitVec.intMin w ∧ b = BitVec.allOnes w)) :
    Int.idivS a b = some (a.sdiv b) := by
  have hb' : b.toInt ≠ 0 := fun h => hb ((toInt_eq_zero_iff_toNat b).1 h)
  unfold Int.idivS
  simp only [hb', if_false]
  have h' : a ≠ BitVec.intMin w ∨ b ≠ -1#w := by
    rw [BitVec.neg_one_eq_allOnes]
    by_cases ha : a = BitVec.intMin w
    · right; intro hb1; exact h ⟨ha, hb1⟩
    · left; exact ha
  have hs := BitVec.toInt_sdiv_of_ne_or_ne a b h'
  have hlt := @BitVec.toInt_lt w (a.sdiv b)
  rw [← hs]
  have hne : (a.sdiv b).toInt ≠ 2 ^ (w - 1) := by omega
  simp [hne]

end Div

end Wz.Proofs.FrontNum
