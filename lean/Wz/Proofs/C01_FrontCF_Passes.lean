/-
C01 (front end, structured control flow): composition of the front end's output with the SSA passes.

* `passes_sound_of_WF`: the pass theorems of `C01_SsaPass_*` hold for EVERY certificate, so `runPasses` preserves
  the outcome of every function whose reachable part is `WF` for some certificate (`ssa_passes_sound` is the
  instance `computeCert`).  The front end's alias entries (temporary values of `findValue` that have no definition)
  need the certificate `FrontendCF.certA`.
* `resolveOps_run`: resolving every operand through the alias table and dropping the table does not change the
  outcome (any function).
-/
import Wz.Model.FrontendCFCheck
import Wz.Proofs.C01_SsaPass_PhiC
import Wz.Proofs.C01_SsaPass_Dce
import Wz.Proofs.C01_SsaPass_DeadBlock

namespace Wz.Model.SsaPass

theorem deadBlockElim_ids (f : Func) : (deadBlockElim f).blocks.map (·.id) = f.blocks.map (·.id) := by
  unfold deadBlockElim
  cases reachable f with
  | none => rfl
  | some vis =>
    simp only [List.map_map]
    apply List.map_congr_left
    intro B _
    simp only [Function.comp_apply]
    split <;> rfl

/-- **The passes preserve the outcome of every function that is well-formed for SOME certificate.** -/
theorem passes_sound_of_WF (w : World) (f : Func) (c : Cert) (h : WF c (deadBlockElim f)) (args : List Nat)
    (fuel : Nat) : run w (runPasses f) args fuel = run w f args fuel := by
  have hu : UniqueIds f := by
    have := h.ids
    unfold UniqueIds at this ⊢
    rw [deadBlockElim_ids] at this
    exact this
  obtain ⟨r2, hw2⟩ := redundantPhiElim_sound w h
  obtain ⟨r3, hw3⟩ := nopElim_sound w hw2
  unfold runPasses
  rw [dce_sound w _ ((aliasNF_iff _).mpr hw3.nf) args fuel, r3, r2, deadBlockElim_sound w f hu]

/-- … and the result does not need the alias table any more -/
theorem passes_sound_of_WF_without_alias (w : World) (f : Func) (c : Cert) (h : WF c (deadBlockElim f))
    (args : List Nat) (fuel : Nat) : run w { runPasses f with alias := [] } args fuel = run w f args fuel := by
  obtain ⟨_, hw2⟩ := redundantPhiElim_sound w h
  obtain ⟨_, hw3⟩ := nopElim_sound w hw2
  rw [← passes_sound_of_WF w f c h args fuel]
  exact dceWith_no_alias w sideEffect _ ((aliasNF_iff _).mpr hw3.nf) args fuel

end Wz.Model.SsaPass

namespace Wz.Model.FrontendCF
open Wz.Model.SsaPass

theorem execBody_resolve (w : World) (al : List (Val × Val)) : ∀ (is : List Instr) (st : St),
    execBody w [] (is.map (·.mapOperands (res al))) st = execBody w al is st := by
  intro is
  induction is with
  | nil => intro st; rfl
  | cons i is ih =>
    intro st
    simp only [List.map_cons, execBody, execInstr_mapOperands, res_nil]
    cases execInstr w (fun v => st.env (res al v)) i st with
    | next st' => exact ih st'
    | goto _ _ _ => rfl
    | ret _ _ => rfl
    | trap _ _ => rfl

theorem resolveOps_findBlock (f : Func) (b : BlockId) :
    (resolveOps f).findBlock b =
      (f.findBlock b).map (fun B => { B with instrs := B.instrs.map (·.mapOperands (res f.alias)) }) := by
  simp only [Func.findBlock, resolveOps]
  induction f.blocks with
  | nil => rfl
  | cons B Bs ih =>
    simp only [List.map_cons, List.find?_cons]
    cases hB : decide (B.id = b ∧ ¬ B.invalid = true) with
    | true => simp only [Option.map_some]
    | false => exact ih

theorem resolveOps_run (w : World) (f : Func) (args : List Nat) (fuel : Nat) :
    run w (resolveOps f) args fuel = run w f args fuel := by
  simp only [run]
  have hentry : (resolveOps f).entry = f.entry := by
    simp only [Func.entry, resolveOps]
    cases f.blocks <;> rfl
  rw [hentry]
  generalize f.entry = b
  generalize St.init = st
  induction fuel generalizing b args st with
  | zero => rfl
  | succ n ih =>
    simp only [runFrom, resolveOps_findBlock]
    cases hT : f.findBlock b with
    | none => rfl
    | some T =>
      simp only [Option.map_some]
      split
      · rfl
      · have hal : (resolveOps f).alias = [] := rfl
        rw [hal, execBody_resolve]
        cases execBody w f.alias T.instrs _ with
        | none => rfl
        | some c =>
          cases c with
          | next _ => rfl
          | goto b' args' st' => exact ih args' b' st'
          | ret _ _ => rfl
          | trap _ _ => rfl

end Wz.Model.FrontendCF

namespace Wz.Proofs.FrontCF
open Wz.Model.SsaPass Wz.Model.FrontendCF

/-- the hypothesis `wellFormedA` is enough for the pass theorem -/
theorem passes_sound_of_wellFormedA (w : World) (f : Func) (h : wellFormedA f = true) (args : List Nat) (fuel : Nat) :
    run w (runPasses f) args fuel = run w f args fuel ∧
    run w { runPasses f with alias := [] } args fuel = run w f args fuel :=
  ⟨passes_sound_of_WF w f _ (of_decide_eq_true h) args fuel,
   passes_sound_of_WF_without_alias w f _ (of_decide_eq_true h) args fuel⟩

end Wz.Proofs.FrontCF
