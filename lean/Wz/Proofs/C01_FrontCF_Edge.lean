/-
C01 (front end, structured control flow): soundness of the edge check `FrontendCFCheck.edgeOK`: a branch that passes
it establishes the invariant `InvC` at the entry of the target block, in the environment in which the parameters of
the target are bound to the values of the arguments.
-/
import Wz.Proofs.C01_FrontCF_Defs

namespace Wz.Proofs.FrontCF
open Wz.Spec Wz.Model.SsaPass Wz.Model.FrontendSL Wz.Model.FrontendCF Wz.Proofs.Front

/-! ### `bindVals` -/

theorem bindVals_notin : ∀ (P : List TV) (env : Val → Nat) (vs : List Nat) (v : Val),
    v ∉ P.map (·.1) → bindVals env P vs v = env v
  | [], _, _, _, _ => rfl
  | (r, ty) :: rs, env, vs, v, h => by
    simp only [List.map_cons, List.mem_cons, not_or] at h
    rw [bindVals, bindVals_notin rs _ _ v h.2]
    simp only [upd, h.1, if_false]

theorem bindVals_get : ∀ (P : List TV) (env : Val → Nat) (vs : List Nat) (k : Nat) (p : TV),
    (P.map (·.1)).Nodup → P[k]? = some p → bindVals env P vs p.1 = norm p.2 (vs[k]?.getD 0)
  | [], _, _, _, _, _, h => by simp at h
  | (r, ty) :: rs, env, vs, 0, p, hnd, h => by
    simp only [List.getElem?_cons_zero, Option.some.injEq] at h
    subst h
    simp only [List.map_cons, List.nodup_cons] at hnd
    rw [bindVals, bindVals_notin rs _ _ r hnd.1]
    simp only [upd, if_true]
    cases vs <;> rfl
  | (r, ty) :: rs, env, vs, k + 1, p, hnd, h => by
    simp only [List.getElem?_cons_succ] at h
    simp only [List.map_cons, List.nodup_cons] at hnd
    rw [bindVals, bindVals_get rs _ vs.tail k p hnd.2 h]
    cases vs <;> simp

theorem norm_lt (ty : Ty) (x : Nat) : norm ty x < 2 ^ ty.bits := by
  unfold norm
  exact Nat.mod_lt _ (Nat.pos_of_ne_zero (by simp))

theorem norm_id {ty : Ty} {x : Nat} (h : x < 2 ^ ty.bits) : norm ty x = x := by
  unfold norm
  exact Nat.mod_eq_of_lt h

/-! ### `indexOf?` -/

theorem indexOf?_some : ∀ (l : List Nat) (x k : Nat), indexOf? l x = some k → l[k]? = some x
  | [], _, _, h => by simp [indexOf?] at h
  | y :: ys, x, k, h => by
    unfold indexOf? at h
    by_cases hy : y = x
    · simp only [hy, if_true, Option.some.injEq] at h
      subst h; simp [hy]
    · simp only [hy, if_false] at h
      cases hq : indexOf? ys x with
      | none => simp [hq] at h
      | some j =>
        simp only [hq, Option.map_some, Option.some.injEq] at h
        subst h
        simpa using indexOf?_some ys x j hq

theorem indexOf?_none : ∀ (l : List Nat) (x : Nat), indexOf? l x = none → x ∉ l
  | [], _, _ => by simp
  | y :: ys, x, h => by
    unfold indexOf? at h
    by_cases hy : y = x
    · simp [hy] at h
    · simp only [hy, if_false, Option.map_eq_none_iff] at h
      have := indexOf?_none ys x h
      simp only [List.mem_cons, not_or]
      exact ⟨fun e => hy e.symm, this⟩

/-! ### `varsOK` -/

theorem varsOK_get (P : List TV) (args : List Val) : ∀ (cus ws : List (Option TV)) (x : Nat) (w : Option TV),
    varsOK P args cus ws = true → ws[x]? = some w → ∃ cu, cus[x]? = some cu ∧ varOK P args cu w = true
  | _, [], _, _, _, h => by simp at h
  | [], _ :: _, _, _, h, _ => by simp [varsOK] at h
  | cu :: cus, w' :: ws, 0, w, h, hx => by
    simp only [varsOK, Bool.and_eq_true] at h
    simp only [List.getElem?_cons_zero, Option.some.injEq] at hx
    subst hx
    exact ⟨cu, rfl, h.1⟩
  | cu :: cus, w' :: ws, x + 1, w, h, hx => by
    simp only [varsOK, Bool.and_eq_true] at h
    simp only [List.getElem?_cons_succ] at hx
    simpa using varsOK_get P args cus ws x w h.2 hx
/-! ### the parameters that carry the block results -/

theorem params_vals (P : List TV) (args : List Val) (env : Val → Nat) (R : List TV) (n : Nat)
    (hnd : (P.map (·.1)).Nodup) (hn : n ≤ P.length) (hR : R.length = n)
    (hargs : args.take n = R.map (·.1)) (htys : (P.take n).map (·.2) = R.map (·.2))
    (hrng : ∀ p ∈ R, env p.1 < 2 ^ p.2.bits) :
    (P.take n).map (fun p => bindVals env P (args.map env) p.1) = R.map (fun p => env p.1) := by
  apply List.ext_getElem
  · simp [hR, Nat.min_eq_left hn]
  · intro i h1 h2
    simp only [List.length_map, List.length_take] at h1 h2
    have hin : i < n := by omega
    have hiP : i < P.length := by omega
    simp only [List.getElem_map, List.getElem_take]
    have hPi : P[i]? = some P[i] := List.getElem?_eq_getElem hiP
    rw [bindVals_get P env (args.map env) i P[i] hnd hPi]
    have ha : args[i]? = some R[i].1 := by
      have := congrArg (·[i]?) hargs
      simp only [List.getElem?_take, hin, if_true, List.getElem?_map, List.getElem?_eq_getElem h2,
        Option.map_some] at this
      exact this
    have ht : P[i].2 = R[i].2 := by
      have := congrArg (·[i]?) htys
      simp only [List.getElem?_map, List.getElem?_take, hin, if_true, hPi, List.getElem?_eq_getElem h2,
        Option.map_some, Option.some.injEq] at this
      exact this
    simp only [List.getElem?_map, ha, Option.map_some, Option.getD_some]
    rw [ht]
    exact norm_id (hrng _ (List.getElem_mem h2))

theorem edge_core (lt : List Ty) (P stack : List TV) (vars ent : List (Option TV)) (tys : List Ty)
    (outer : List TV) (args : List Val) (fr : Wasm.Frame) (env : Val → Nat)
    (h3 : tys.length ≤ P.length)
    (h4 : args.take tys.length = ((stack.take tys.length).map (·.1)).reverse)
    (h5 : (P.take tys.length).map (·.2) = tys)
    (h6 : (stack.map (·.2)).take tys.length = tys.reverse)
    (h7 : (P.map (·.1)).Nodup) (h8 : outer.length + tys.length ≤ stack.length)
    (h9 : stack.drop (stack.length - outer.length) = outer)
    (h10 : ∀ p ∈ outer, p.1 ∉ P.map (·.1)) (h11 : ent.length = lt.length)
    (h12 : varsOK P args vars ent = true) (hinv : InvC lt stack vars fr env) :
    InvC lt ((P.take tys.length).reverse ++ outer) ent
      ⟨fr.stack.take tys.length ++ fr.stack.drop (fr.stack.length - outer.length), fr.locals⟩
      (bindVals env P (args.map env)) := by
  have hflen : fr.stack.length = stack.length := by rw [← hinv.vals, List.length_map]
  have hRlen : ((stack.take tys.length).reverse).length = tys.length := by
    simp only [List.length_reverse, List.length_take]; omega
  have hpv := params_vals P args env (stack.take tys.length).reverse tys.length h7 h3 hRlen
    (by rw [h4, List.map_reverse])
    (by rw [h5, List.map_reverse, List.map_take, h6, List.reverse_reverse])
    (fun p hp => hinv.rng p (List.mem_of_mem_take (List.mem_reverse.mp hp)))
  have hout : ∀ p ∈ outer, bindVals env P (args.map env) p.1 = env p.1 :=
    fun p hp => bindVals_notin P env _ p.1 (h10 p hp)
  have houtmem : ∀ p ∈ outer, p ∈ stack := fun p hp => by
    rw [← h9] at hp; exact List.mem_of_mem_drop hp
  refine ⟨?_, ?_, h11, hinv.llen, ?_⟩
  · simp only [List.map_append, List.map_reverse]
    congr 1
    · rw [hpv, List.map_reverse, List.reverse_reverse, ← hinv.vals, List.map_take]
    · rw [List.map_congr_left hout]
      have : outer.map (fun p => env p.1) = (stack.drop (stack.length - outer.length)).map (fun p => env p.1) := by
        rw [h9]
      rw [this, List.map_drop, hinv.vals, hflen]
  · intro p hp
    rcases List.mem_append.mp hp with hp | hp
    · have hp' : p ∈ P := List.mem_of_mem_take (List.mem_reverse.mp hp)
      obtain ⟨k, hk, hk'⟩ := List.getElem_of_mem hp'
      have hPk : P[k]? = some p := by rw [List.getElem?_eq_getElem hk, hk']
      rw [bindVals_get P env _ k p h7 hPk]
      exact norm_lt _ _
    · rw [hout p hp]; exact hinv.rng p (houtmem p hp)
  · intro x v hx
    obtain ⟨cu, hcu, hok⟩ := varsOK_get P args vars ent x (some v) h12 hx
    cases cu with
    | none => simp [varOK] at hok
    | some cu =>
      simp only [varOK, Bool.and_eq_true, beq_iff_eq] at hok
      obtain ⟨hty, hok⟩ := hok
      obtain ⟨e1, e2, e3⟩ := hinv.var x cu hcu
      cases hidx : indexOf? (P.map (·.1)) v.1 with
      | none =>
        simp only [hidx, beq_iff_eq] at hok
        have hnot := indexOf?_none _ _ hidx
        rw [bindVals_notin P env _ v.1 hnot, ← hok, ← hty]
        exact ⟨e1, e2, e3⟩
      | some k =>
        simp only [hidx, Bool.and_eq_true, beq_iff_eq] at hok
        obtain ⟨ha, hp⟩ := hok
        have hk := indexOf?_some _ _ _ hidx
        simp only [List.getElem?_map] at hk
        cases hPk : P[k]? with
        | none => simp [hPk] at hk
        | some p =>
          simp only [hPk, Option.map_some, Option.some.injEq] at hk hp
          have := bindVals_get P env (args.map env) k p h7 hPk
          rw [hk, hp] at this
          simp only [List.getElem?_map, ha, Option.map_some, Option.getD_some] at this
          rw [this, ← hty, norm_id e3]
          exact ⟨e1, e2, e3⟩
/-- A branch that passes the edge check establishes the invariant at the entry of the target block: the parameters of the
target are bound to the values of the arguments. -/
theorem edge_sound (cx : Ctx) (c : CS) (lab : Lab) (args : List Val) (fr : Wasm.Frame) (env : Val → Nat)
    (hedge : edgeOK cx c lab args = true) (hinv : InvC cx.lt c.stack c.vars fr env) :
    ∃ T, cx.g.findBlock lab.tgt = some T ∧ T.params.length = args.length ∧
      InvC cx.lt (((paramsOf cx.g lab.tgt).take lab.tys.length).reverse ++ lab.outer) (entOf cx.ent lab.tgt)
        ⟨fr.stack.take lab.tys.length ++ fr.stack.drop (fr.stack.length - lab.outer.length), fr.locals⟩
        (bindVals env T.params (args.map env)) := by
  simp only [edgeOK, Bool.and_eq_true, beq_iff_eq, decide_eq_true_eq] at hedge
  obtain ⟨⟨⟨⟨⟨⟨⟨⟨⟨⟨⟨h1, h2⟩, h3⟩, h4⟩, h5⟩, h6⟩, h7⟩, h8⟩, h9⟩, h10⟩, h11⟩, h12⟩ := hedge
  cases hT : cx.g.findBlock lab.tgt with
  | none => simp [hT] at h1
  | some T =>
    have hP : paramsOf cx.g lab.tgt = T.params := by simp [paramsOf, hT]
    rw [hP] at h2 h3 h5 h7 h10 h12 ⊢
    refine ⟨T, rfl, h2.symm, ?_⟩
    simp only [hasPrefix, beq_iff_eq, List.length_reverse] at h6
    simp only [peekVals] at h4
    simp only [truncStack] at h9
    simp only [List.all_eq_true, Bool.not_eq_true', List.contains_eq_mem, decide_eq_false_iff_not] at h10
    exact edge_core cx.lt T.params c.stack c.vars (entOf cx.ent lab.tgt) lab.tys lab.outer args fr env
      h3 h4 h5 h6 h7 h8 h9 h10 h11 h12 hinv


end Wz.Proofs.FrontCF
