import Wz.Proofs.C01_SsaPass_Frame
import Wz.Proofs.C01_SsaPass_DeadBlock

/-! Static consequences of `WF`, the simulation driver, and the invariant shared by the alias-extending passes. -/
namespace Wz.Model.SsaPass

/-! ### uniqueness of definitions -/

theorem nodup_flatMap_unique {α β} {g : α → List β} {l : List α} (h : (l.flatMap g).Nodup) {a b : α}
    (ha : a ∈ l) (hb : b ∈ l) {x : β} (hxa : x ∈ g a) (hxb : x ∈ g b) : a = b ∨ False := by
  induction l with
  | nil => cases ha
  | cons c l ih =>
    simp only [List.flatMap_cons, List.nodup_append] at h
    obtain ⟨_, h2, h3⟩ := h
    cases ha with
    | head =>
      cases hb with
      | head => exact Or.inl rfl
      | tail _ hb => exact absurd rfl (h3 x hxa x (List.mem_flatMap.mpr ⟨b, hb, hxb⟩))
    | tail _ ha =>
      cases hb with
      | head => exact absurd rfl (h3 x hxb x (List.mem_flatMap.mpr ⟨a, ha, hxa⟩))
      | tail _ hb => exact ih h2 ha hb

/-- the definitions of one block -/
def Block.defs (B : Block) : List Val := B.params.map (·.1) ++ B.instrs.flatMap (·.results)

theorem allDefs_eq (f : Func) : f.allDefs = f.blocks.flatMap Block.defs := rfl

theorem block_defs_nodup {f : Func} (hu : f.allDefs.Nodup) {B : Block} (hB : B ∈ f.blocks) : B.defs.Nodup := by
  rw [allDefs_eq] at hu
  exact ((List.pairwise_flatMap.mp hu).1 B hB)

/-- a value is defined in one block only -/
theorem def_block_unique {f : Func} (hu : f.allDefs.Nodup) {B C : Block} (hB : B ∈ f.blocks) (hC : C ∈ f.blocks)
    {x : Val} (hxB : x ∈ B.defs) (hxC : x ∈ C.defs) : B = C := by
  rw [allDefs_eq] at hu
  cases nodup_flatMap_unique hu hB hC hxB hxC with
  | inl h => exact h
  | inr h => exact h.elim

theorem mem_allInstrs {f : Func} {i : Instr} : i ∈ f.allInstrs ↔ ∃ B ∈ f.blocks, i ∈ B.instrs := by
  simp [Func.allInstrs, List.mem_flatMap]

/-- a value is the result of one instruction only -/
theorem instr_unique {f : Func} (hu : f.allDefs.Nodup) {i j : Instr} (hi : i ∈ f.allInstrs) (hj : j ∈ f.allInstrs)
    {r : Val} (hri : r ∈ i.results) (hrj : r ∈ j.results) : i = j := by
  obtain ⟨B, hB, hiB⟩ := mem_allInstrs.mp hi
  obtain ⟨C, hC, hjC⟩ := mem_allInstrs.mp hj
  have hBC : B = C := def_block_unique hu hB hC
    (List.mem_append_right _ (List.mem_flatMap.mpr ⟨i, hiB, hri⟩))
    (List.mem_append_right _ (List.mem_flatMap.mpr ⟨j, hjC, hrj⟩))
  subst hBC
  have hnd := (List.nodup_append.mp (block_defs_nodup hu hB)).2.1
  cases nodup_flatMap_unique hnd hiB hjC hri hrj with
  | inl h => exact h
  | inr h => exact h.elim

/-- a block parameter is not an instruction result -/
theorem param_not_result {f : Func} (hu : f.allDefs.Nodup) {B : Block} (hB : B ∈ f.blocks) {p : Val}
    (hp : p ∈ B.params.map (·.1)) {i : Instr} (hi : i ∈ f.allInstrs) : p ∉ i.results := by
  intro hr
  obtain ⟨C, hC, hiC⟩ := mem_allInstrs.mp hi
  have hBC : B = C := def_block_unique hu hB hC (List.mem_append_left _ hp)
    (List.mem_append_right _ (List.mem_flatMap.mpr ⟨i, hiC, hr⟩))
  subst hBC
  exact (List.nodup_append.mp (block_defs_nodup hu hB)).2.2 p hp p (List.mem_flatMap.mpr ⟨i, hiC, hr⟩) rfl

theorem params_nodup {f : Func} (hu : f.allDefs.Nodup) {B : Block} (hB : B ∈ f.blocks) :
    (B.params.map (·.1)).Nodup :=
  (List.nodup_append.mp (block_defs_nodup hu hB)).1

/-! ### walking a block -/

theorem typedResults_fst (i : Instr) : i.typedResults.map (·.1) = i.results := by
  cases i <;> rfl

theorem BodyOK_split {c : Cert} {f : Func} {B : Block} :
    ∀ (l1 : List Instr) (V : List Val) (i : Instr) (l2 : List Instr), BodyOK c f B V (l1 ++ i :: l2) →
      InstrOK c f B (V ++ l1.flatMap (·.results)) i := by
  intro l1
  induction l1 with
  | nil => intro V i l2 h; simpa using h.1
  | cons j l1 ih =>
    intro V i l2 h
    have := ih (V ++ j.results) i l2 h.2
    simpa [List.append_assoc] using this

/-- everything available at a point of a block lies below the upper end of the block's band -/
theorem avail_bounded {c : Cert} {f : Func} {B : Block} (hM : 0 < c.M) (hB : BlockOK c f B) :
    ∀ (l1 : List Instr) (l2 : List Instr), B.instrs = l1 ++ l2 →
      ∀ v ∈ c.avail B.id ++ c.pdefs B.id ++ l1.flatMap (·.results), c.rank v < (c.bidx B.id + 1) * c.M := by
  intro l1 l2 hsplit v hv
  obtain ⟨_, hpd, _, hav, hbody, _⟩ := hB
  have hband : c.bidx B.id * c.M < (c.bidx B.id + 1) * c.M := by
    rw [Nat.add_mul, Nat.one_mul]; omega
  simp only [List.mem_append] at hv
  rcases hv with (hv | hv) | hv
  · exact Nat.lt_trans (hav v hv) hband
  · rw [hpd v hv]; exact hband
  · obtain ⟨j, hj, hvj⟩ := List.mem_flatMap.mp hv
    obtain ⟨a, b, hab⟩ := List.append_of_mem hj
    have : B.instrs = a ++ j :: (b ++ l2) := by rw [hsplit, hab]; simp
    rw [this] at hbody
    exact ((BodyOK_split a _ j _ hbody).2.2.1 v hvj).2

/-! ### the simulation driver -/

/-- how the results of two block bodies are related, given the relation `ER` required at the entry of a block -/
inductive BodyOut (ER : BlockId → List Nat → List Nat → St → St → Prop) : Option Ctl → Option Ctl → Prop where
  | none : BodyOut ER none none
  | next {st st'} : BodyOut ER (some (.next st)) (some (.next st'))
  | goto {b as as' st st'} : ER b as as' st st' → BodyOut ER (some (.goto b as st)) (some (.goto b as' st'))
  | ret {vs st st'} : st.mem = st'.mem → st.trace = st'.trace → BodyOut ER (some (.ret vs st)) (some (.ret vs st'))
  | trap {c st st'} : st.mem = st'.mem → st.trace = st'.trace → BodyOut ER (some (.trap c st)) (some (.trap c st'))

theorem run_sim_driver (w : World) (f f' : Func) (ER : BlockId → List Nat → List Nat → St → St → Prop)
    (hstep : ∀ b as as' st st', ER b as as' st st' →
      (f.findBlock b = none ∧ f'.findBlock b = none) ∨
      ∃ B B', f.findBlock b = some B ∧ f'.findBlock b = some B' ∧
        (B.params.length = as.length ↔ B'.params.length = as'.length) ∧
        (B.params.length = as.length →
          BodyOut ER (execBody w f.alias B.instrs { st with env := bindVals st.env B.params as })
            (execBody w f'.alias B'.instrs { st' with env := bindVals st'.env B'.params as' }))) :
    ∀ (n : Nat) (b : BlockId) (as as' : List Nat) (st st' : St), ER b as as' st st' →
      runFrom w f n b as st = runFrom w f' n b as' st' := by
  intro n
  induction n with
  | zero => intros; rfl
  | succ n ih =>
    intro b as as' st st' her
    simp only [runFrom]
    rcases hstep b as as' st st' her with ⟨h1, h2⟩ | ⟨B, B', h1, h2, harity, hbody⟩
    · rw [h1, h2]
    · rw [h1, h2]
      simp only []
      by_cases hlen : B.params.length = as.length
      · have hlen' := harity.mp hlen
        simp only [hlen, hlen', ne_eq, not_true_eq_false, if_false]
        have := hbody hlen
        revert this
        generalize execBody w f.alias B.instrs _ = r
        generalize execBody w f'.alias B'.instrs _ = r'
        intro hb
        cases hb with
        | none => rfl
        | next => rfl
        | goto h => exact ih _ _ _ _ _ h
        | ret hm ht => simp only [hm, ht]
        | trap hm ht => simp only [hm, ht]
      · have hlen' : ¬ B'.params.length = as'.length := fun h => hlen (harity.mpr h)
        simp [hlen, hlen']

/-! ### the invariant -/

/-- The relation between the run of `f` (old state `st`) and the run of the transformed function with alias
table `al'` (new state `st'`) at a point where the values `V` are available. -/
structure Inv (c : Cert) (f : Func) (al' : List (Val × Val)) (S : Val → Prop) (V : List Val) (st st' : St) : Prop where
  rel : StRel S st st'
  /-- an available value reads the same in both runs -/
  J : ∀ v ∈ V, st'.env (res al' v) = st.env (res f.alias v)
  ty : Typed c.cty st.env
  /-- an available value that resolves to a constant holds that constant -/
  K : ∀ v ∈ V, ∀ r ty k, Instr.iconst r ty k ∈ f.allInstrs → res f.alias v = r → st.env r = norm ty k

theorem Inv.read {c : Cert} {f : Func} {al' : List (Val × Val)} {S : Val → Prop} {V : List Val} {st st' : St}
    (h : Inv c f al' S V st st') (hext : Ext f.alias al') {o : Val}
    (ho : ∃ v ∈ V, res f.alias o = res f.alias v) : st'.env (res al' o) = st.env (res f.alias o) := by
  obtain ⟨v, hv, hov⟩ := ho
  rw [hext o v hov, hov]
  exact h.J v hv

theorem Inv.mono {c : Cert} {f : Func} {al' : List (Val × Val)} {S : Val → Prop} {V V' : List Val} {st st' : St}
    (h : Inv c f al' S V st st') (hsub : ∀ v ∈ V', v ∈ V) : Inv c f al' S V' st st' :=
  ⟨h.rel, fun v hv => h.J v (hsub v hv), h.ty, fun v hv => h.K v (hsub v hv)⟩

/-- After a step of both runs that changes the environments only at values whose rank is above everything
available (`hi`), the facts about the available values persist. -/
theorem Inv.step_old {c : Cert} {f : Func} {al' : List (Val × Val)} {S : Val → Prop} {V : List Val}
    {st st' st1 st1' : St} (h : Inv c f al' S V st st')
    (hR : ∀ e ∈ f.alias, c.rank e.2 < c.rank e.1) (hR' : ∀ e ∈ al', c.rank e.2 < c.rank e.1)
    (W : List Val) (hW : ∀ r ∈ W, ∀ v ∈ V, c.rank v < c.rank r)
    (hfr : ∀ v, v ∉ W → st1.env v = st.env v) (hfr' : ∀ v, v ∉ W → st1'.env v = st'.env v) :
    (∀ v ∈ V, st1'.env (res al' v) = st1.env (res f.alias v)) ∧
    (∀ v ∈ V, ∀ r ty k, Instr.iconst r ty k ∈ f.allInstrs → res f.alias v = r → st1.env r = norm ty k) := by
  have hnot : ∀ v ∈ V, res f.alias v ∉ W ∧ res al' v ∉ W := by
    intro v hv
    constructor
    · intro hw
      have := hW _ hw v hv
      have := rank_res_le hR v
      omega
    · intro hw
      have := hW _ hw v hv
      have := rank_res_le hR' v
      omega
  constructor
  · intro v hv
    rw [hfr' _ (hnot v hv).2, hfr _ (hnot v hv).1]
    exact h.J v hv
  · intro v hv r ty k hi hr
    rw [hfr r (hr ▸ (hnot v hv).1)]
    exact h.K v hv r ty k hi hr

end Wz.Model.SsaPass
