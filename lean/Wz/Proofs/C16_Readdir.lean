/-
C16 — lemmas about the fd_readdir model (`DirentCache.Read`, `maxDirents`, `writeDirents`) and the client
protocol.
-/
import Wz.Model.Readdir

namespace Wz.Proofs.C16Readdir
open Wz.Model.Readdir Wz.Gen.WasiFs

/-- entries `l` numbered as the guest sees them: the entry at absolute index `start + i` carries
`d_next = start + i + 1` -/
def numbered (l : List Dirent) (start : Nat) : List (Nat × Dirent) :=
  l.zipIdx.map (fun p => (start + 1 + p.2, p.1))

/-- Invariant of a `DirentCache` over its (fixed) listing: the window is a contiguous slice of
`full = dot ++ listing` ending at `countRead`, the underlying stream is positioned right after it. -/
def Inv (c : Cache) : Prop :=
  c.dot.length = 2 ∧
  match c.dirents with
  | none => c.countRead = 0 ∧ c.f.pos = 0
  | some w =>
    2 ≤ c.countRead ∧ c.countRead ≤ c.full.length ∧ w.length ≤ c.countRead ∧
    w = (c.full.take c.countRead).drop (c.countRead - w.length) ∧
    c.f.pos = c.countRead - 2 ∧ (c.eof = true → c.countRead = c.full.length)

/-- cookies a client may present: 0 (rewind), or anything inside the current window (including its end) -/
def Reach (c : Cache) (cookie : Nat) : Prop :=
  cookie = 0 ∨ ∃ w, c.dirents = some w ∧ c.countRead - w.length ≤ cookie ∧ cookie ≤ c.countRead

/-! ### list helpers -/

theorem listing_drop {α} (dot listing : List α) (cr : Nat) (hd : dot.length = 2) (h2 : 2 ≤ cr) :
    listing.drop (cr - 2) = (dot ++ listing).drop cr := by
  rw [List.drop_append, List.drop_of_length_le (by omega : dot.length ≤ cr), hd]; rfl

theorem win_drop {α} (full w : List α) (cr k : Nat) (hw : w = (full.take cr).drop (cr - w.length))
    (h1 : w.length ≤ cr) (hk : k ≤ w.length) :
    w.drop k = (full.take cr).drop (cr - (w.drop k).length) := by
  have : cr - (w.drop k).length = (cr - w.length) + k := by simp [List.length_drop]; omega
  rw [this, ← List.drop_drop, ← hw]

theorem win_ext {α} (full w ds : List α) (cr m : Nat) (hw : w = (full.take cr).drop (cr - w.length))
    (h1 : w.length ≤ cr) (h2 : cr ≤ full.length) (hds : ds = (full.drop cr).take m) :
    w ++ ds = (full.take (cr + ds.length)).drop (cr + ds.length - (w ++ ds).length) := by
  have e1 : cr + ds.length - (w ++ ds).length = cr - w.length := by simp; omega
  have e2 : (full.drop cr).take ds.length = ds := by
    subst hds
    rw [List.length_take, Nat.min_def]
    split
    · rfl
    · rw [List.take_of_length_le (Nat.le_refl _), List.take_of_length_le (by omega)]
  rw [e1, List.take_add, e2, List.drop_append_of_le_length (by simp; omega), ← hw]

/-- the value of a window -/
theorem win_val {α} (full w : List α) (cr : Nat) (hw : w = (full.take cr).drop (cr - w.length))
    (h1 : w.length ≤ cr) : w = (full.drop (cr - w.length)).take w.length := by
  have : cr - (cr - w.length) = w.length := by omega
  rw [List.drop_take, this] at hw; exact hw

theorem fresh_inv (listing : List Dirent) (dotIno : Nat) : Inv (Cache.fresh listing dotIno) := by
  simp [Inv, Cache.fresh]

/-! ### `Cache.read` split into its two branches -/

def readNoneC (d : Cache) (n countToRead : Nat) : Cache × Except RErr (List Dirent) :=
  let d1 := { d with dirents := some d.dot, countRead := 2, eof := false }
  if countToRead == 0 then (d1, .ok [])
  else
    let r := d1.f.readdir countToRead
    let d2 := { d1 with f := r.2 }
    let d3 := if r.1.length > 0
              then { d2 with eof := r.1.length < countToRead, dirents := some (d2.dot ++ r.1),
                             countRead := d2.countRead + r.1.length }
              else d2
    (d3, .ok (cached (d3.dirents.getD []) n))

def readNone (d : Cache) (n : Nat) : Cache × Except RErr (List Dirent) :=
  readNoneC d n ((n + 2^32 - 2) % 2^32)

def readSome (d : Cache) (cache : List Dirent) (pos n : Nat) : Cache × Except RErr (List Dirent) :=
  let cacheStart := d.countRead - cache.length
  if pos < cacheStart then (d, .error .noent)
  else
    let cache1 := cache.drop (pos - cacheStart)
    let d1 := { d with dirents := some cache1 }
    if n > cache1.length && !d1.eof then
      let countToRead := n - cache1.length
      let r := d1.f.readdir countToRead
      let d2 := { d1 with f := r.2 }
      let d3 := if r.1.length > 0
                then { d2 with eof := r.1.length < countToRead, dirents := some (cache1 ++ r.1),
                               countRead := d2.countRead + r.1.length }
                else d2
      (d3, .ok (cached (d3.dirents.getD []) n))
    else (d1, .ok (cached cache1 n))

def rewound (d0 : Cache) (pos : Nat) : Cache :=
  if pos == 0 && d0.dirents.isSome
  then { d0 with f := d0.f.rewind, dirents := none, countRead := 0 } else d0

theorem read_eq (d0 : Cache) (pos n : Nat) :
    d0.read pos n =
      if pos > d0.countRead then (d0, .error .noent)
      else if n == 0 then (rewound d0 pos, .ok [])
      else match (rewound d0 pos).dirents with
        | none => readNone (rewound d0 pos) n
        | some cache => readSome (rewound d0 pos) cache pos n := rfl

theorem inv_some (c : Cache) (w : List Dirent) (hw : c.dirents = some w) :
    Inv c ↔ c.dot.length = 2 ∧ 2 ≤ c.countRead ∧ c.countRead ≤ c.full.length ∧ w.length ≤ c.countRead ∧
      w = (c.full.take c.countRead).drop (c.countRead - w.length) ∧
      c.f.pos = c.countRead - 2 ∧ (c.eof = true → c.countRead = c.full.length) := by
  unfold Inv; rw [hw]

theorem inv_none (c : Cache) (hw : c.dirents = none) :
    Inv c ↔ c.dot.length = 2 ∧ c.countRead = 0 ∧ c.f.pos = 0 := by
  unfold Inv; rw [hw]

theorem rewound_inv (c : Cache) (pos : Nat) (h : Inv c) :
    Inv (rewound c pos) ∧ (rewound c pos).full = c.full ∧ (rewound c pos).dot = c.dot := by
  unfold rewound
  split
  · refine ⟨?_, rfl, rfl⟩
    rw [inv_none _ rfl]
    exact ⟨h.1, rfl, rfl⟩
  · exact ⟨h, rfl, rfl⟩

theorem readNoneC_inv (d : Cache) (n c : Nat) (hd : d.dot.length = 2) (hp : d.f.pos = 0) :
    Inv (readNoneC d n c).1 ∧ (readNoneC d n c).1.full = d.full ∧ (readNoneC d n c).1.dot = d.dot := by
  have hfl : d.full.length = 2 + d.f.listing.length := by simp [Cache.full, hd]
  have hdot : d.dot = (d.full.take 2).drop (2 - d.dot.length) := by
    simp [Cache.full, hd]
  unfold readNoneC
  simp only []
  split
  · refine ⟨(inv_some _ _ rfl).2 ⟨hd, Nat.le_refl _, ?_, ?_, ?_, ?_, ?_⟩, rfl, rfl⟩
    · show 2 ≤ d.full.length; omega
    · show d.dot.length ≤ 2; omega
    · exact hdot
    · exact hp
    · intro h; cases h
  · simp only [DirFile.readdir, hp, List.drop_zero]
    generalize hds : d.f.listing.take c = ds
    split
    · refine ⟨(inv_some _ _ rfl).2 ⟨hd, ?_, ?_, ?_, ?_, ?_, ?_⟩, rfl, rfl⟩
      · show 2 ≤ 2 + ds.length; omega
      · show 2 + ds.length ≤ d.full.length
        rw [← hds, List.length_take]; omega
      · show (d.dot ++ ds).length ≤ 2 + ds.length
        simp [hd]
      · show d.dot ++ ds = (d.full.take (2 + ds.length)).drop (2 + ds.length - (d.dot ++ ds).length)
        have := win_ext d.full d.dot ds 2 c hdot (by omega) (by omega)
          (by rw [← hds, Cache.full, ← listing_drop d.dot d.f.listing 2 hd (Nat.le_refl _)]; rfl)
        exact this
      · show 0 + ds.length = 2 + ds.length - 2; omega
      · show decide (ds.length < c) = true → 2 + ds.length = d.full.length
        intro h
        have h := of_decide_eq_true h
        rw [← hds, List.length_take] at h ⊢
        omega
    · refine ⟨(inv_some _ _ rfl).2 ⟨hd, Nat.le_refl _, ?_, ?_, ?_, ?_, ?_⟩, rfl, rfl⟩
      · show 2 ≤ d.full.length; omega
      · show d.dot.length ≤ 2; omega
      · exact hdot
      · show 0 + ds.length = 2 - 2; omega
      · intro h; cases h

theorem readNoneC_spec (d : Cache) (n : Nat) (hd : d.dot.length = 2) (hp : d.f.pos = 0) (hn : 3 ≤ n) :
    (readNoneC d n (n - 2)).2 = .ok (d.full.take n) ∧
    ∀ j, j ≤ (d.full.take n).length → Reach (readNoneC d n (n - 2)).1 j := by
  have hfl : d.full.length = 2 + d.f.listing.length := by simp [Cache.full, hd]
  unfold readNoneC
  simp only []
  split
  · rename_i h; simp at h; omega
  · simp only [DirFile.readdir, hp, List.drop_zero]
    generalize hds : d.f.listing.take (n - 2) = ds
    have hft : d.full.take n = d.dot ++ ds := by
      rw [Cache.full, List.take_append, hd, hds, List.take_of_length_le (by omega)]
    split
    · refine ⟨?_, ?_⟩
      · show Except.ok (cached (d.dot ++ ds) n) = _
        rw [hft, cached, List.take_of_length_le]
        rw [← hft, List.length_take]; omega
      · intro j hj
        refine Or.inr ⟨d.dot ++ ds, rfl, ?_, ?_⟩
        · show 2 + ds.length - (d.dot ++ ds).length ≤ j
          simp [hd]
        · show j ≤ 2 + ds.length
          rw [hft] at hj; simpa [hd] using hj
    · rename_i h
      have : ds = [] := by cases ds with | nil => rfl | cons a l => simp at h
      subst this
      refine ⟨?_, ?_⟩
      · show Except.ok (cached d.dot n) = _
        rw [hft, cached, List.append_nil, List.take_of_length_le (by omega)]
      · intro j hj
        refine Or.inr ⟨d.dot, rfl, ?_, ?_⟩
        · show 2 - d.dot.length ≤ j
          omega
        · show j ≤ 2
          rw [hft] at hj; simpa [hd] using hj

theorem readSome_inv (d : Cache) (w : List Dirent) (pos n : Nat) (h : Inv d) (hdw : d.dirents = some w)
    (hpc : pos ≤ d.countRead) :
    Inv (readSome d w pos n).1 ∧ (readSome d w pos n).1.full = d.full ∧
      (readSome d w pos n).1.dot = d.dot := by
  obtain ⟨hd, h2, hle, hwl, hw, hpos, heof⟩ := (inv_some d w hdw).1 h
  unfold readSome
  simp only []
  split
  · exact ⟨h, rfl, rfl⟩
  · rename_i hlt
    generalize hk : pos - (d.countRead - w.length) = k
    have hkl : k ≤ w.length := by omega
    have hw1 := win_drop d.full w d.countRead k hw hwl hkl
    generalize hc1 : w.drop k = w1 at hw1 ⊢
    have hw1l : w1.length ≤ d.countRead := by rw [← hc1, List.length_drop]; omega
    split
    · obtain ⟨ds, hds⟩ : ∃ ds, (d.f.listing.drop d.f.pos).take (n - w1.length) = ds := ⟨_, rfl⟩
      simp only [DirFile.readdir, hds]
      have hds' : ds = (d.full.drop d.countRead).take (n - w1.length) := by
        rw [← hds, hpos, listing_drop d.dot d.f.listing d.countRead hd h2]; rfl
      split
      · refine ⟨(inv_some _ _ rfl).2 ⟨hd, ?_, ?_, ?_, ?_, ?_, ?_⟩, rfl, rfl⟩
        · show 2 ≤ d.countRead + ds.length; omega
        · show d.countRead + ds.length ≤ d.full.length
          rw [hds', List.length_take, List.length_drop]; omega
        · show (w1 ++ ds).length ≤ d.countRead + ds.length
          simp; omega
        · exact win_ext d.full w1 ds d.countRead _ hw1 hw1l hle hds'
        · show d.f.pos + ds.length = d.countRead + ds.length - 2; omega
        · show decide (ds.length < n - w1.length) = true → d.countRead + ds.length = d.full.length
          intro h
          have h := of_decide_eq_true h
          rw [hds', List.length_take, List.length_drop] at h ⊢
          omega
      · rename_i hz
        have : ds = [] := by cases ds with | nil => rfl | cons a l => simp at hz
        subst this
        refine ⟨(inv_some _ _ rfl).2 ⟨hd, h2, hle, hw1l, hw1, ?_, heof⟩, rfl, rfl⟩
        show d.f.pos + 0 = d.countRead - 2; omega
    · exact ⟨(inv_some _ _ rfl).2 ⟨hd, h2, hle, hw1l, hw1, hpos, heof⟩, rfl, rfl⟩

theorem readSome_spec (d : Cache) (w : List Dirent) (pos n : Nat) (h : Inv d) (hdw : d.dirents = some w)
    (hlo : d.countRead - w.length ≤ pos) (hpc : pos ≤ d.countRead) :
    (readSome d w pos n).2 = .ok ((d.full.drop pos).take n) ∧
    ∀ j, j ≤ ((d.full.drop pos).take n).length → Reach (readSome d w pos n).1 (pos + j) := by
  obtain ⟨hd, h2, hle, hwl, hw, hpos, heof⟩ := (inv_some d w hdw).1 h
  unfold readSome
  simp only []
  split
  · omega
  · generalize hk : pos - (d.countRead - w.length) = k
    have hkl : k ≤ w.length := by omega
    have hw1 := win_drop d.full w d.countRead k hw hwl hkl
    have hl1 : (w.drop k).length = d.countRead - pos := by rw [List.length_drop]; omega
    generalize hc1 : w.drop k = w1 at hw1 hl1 ⊢
    have hw1l : w1.length ≤ d.countRead := by omega
    have hv := win_val d.full w1 d.countRead hw1 hw1l
    have hcp : d.countRead - w1.length = pos := by omega
    rw [hcp, hl1] at hv
    split
    · rename_i hc
      simp only [Bool.and_eq_true, decide_eq_true_eq, Bool.not_eq_true'] at hc
      obtain ⟨ds, hds⟩ : ∃ ds, (d.f.listing.drop d.f.pos).take (n - w1.length) = ds := ⟨_, rfl⟩
      simp only [DirFile.readdir, hds]
      have hds' : ds = (d.full.drop d.countRead).take (n - w1.length) := by
        rw [← hds, hpos, listing_drop d.dot d.f.listing d.countRead hd h2]; rfl
      have hall : w1 ++ ds = (d.full.drop pos).take n := by
        have : n = (d.countRead - pos) + (n - w1.length) := by omega
        rw [this, List.take_add, List.drop_drop, ← hv, hds']
        congr 3; omega
      have hdl : ds.length = min (n - w1.length) (d.full.length - d.countRead) := by
        rw [hds', List.length_take, List.length_drop]
      split
      · refine ⟨?_, ?_⟩
        · show Except.ok (cached (w1 ++ ds) n) = _
          rw [hall, cached, List.take_take, Nat.min_self]
        · intro j hj
          refine Or.inr ⟨w1 ++ ds, rfl, ?_, ?_⟩
          · show d.countRead + ds.length - (w1 ++ ds).length ≤ pos + j
            simp; omega
          · show pos + j ≤ d.countRead + ds.length
            rw [← hall] at hj; simp at hj; omega
      · rename_i hz
        have : ds = [] := by cases ds with | nil => rfl | cons a l => simp at hz
        subst this
        refine ⟨?_, ?_⟩
        · show Except.ok (cached w1 n) = _
          rw [← hall, cached, List.append_nil, List.take_of_length_le (by omega)]
        · intro j hj
          refine Or.inr ⟨w1, rfl, ?_, ?_⟩
          · show d.countRead - w1.length ≤ pos + j
            omega
          · show pos + j ≤ d.countRead
            rw [← hall] at hj; simp at hj; omega
    · rename_i hc
      simp only [Bool.and_eq_true, decide_eq_true_eq, Bool.not_eq_true', not_and, Bool.not_eq_false] at hc
      have hres : cached w1 n = (d.full.drop pos).take n := by
        by_cases hnl : n > w1.length
        · have := heof (hc hnl)
          rw [cached, hv, this, List.take_of_length_le (i := d.full.length - pos) (by simp)]
        · rw [cached, hv, List.take_take]; congr 1; omega
      refine ⟨?_, ?_⟩
      · show Except.ok (cached w1 n) = _
        rw [hres]
      · intro j hj
        refine Or.inr ⟨w1, rfl, ?_, ?_⟩
        · show d.countRead - w1.length ≤ pos + j
          omega
        · show pos + j ≤ d.countRead
          rw [List.length_take, List.length_drop] at hj
          by_cases hnl : n > w1.length
          · have := heof (hc hnl); omega
          · omega

theorem read_of_none (c : Cache) (pos n : Nat) (h1 : pos ≤ c.countRead) (h2 : n ≠ 0)
    (h3 : (rewound c pos).dirents = none) : c.read pos n = readNone (rewound c pos) n := by
  rw [read_eq, if_neg (by omega), if_neg (by simpa using h2)]
  split
  · rfl
  · rename_i h; rw [h3] at h; cases h

theorem read_of_some (c : Cache) (pos n : Nat) (w : List Dirent) (h1 : pos ≤ c.countRead) (h2 : n ≠ 0)
    (h3 : (rewound c pos).dirents = some w) : c.read pos n = readSome (rewound c pos) w pos n := by
  rw [read_eq, if_neg (by omega), if_neg (by simpa using h2)]
  split
  · rename_i h; rw [h3] at h; cases h
  · rename_i h; rw [h3] at h; cases h; rfl

theorem rewound_some (c : Cache) (pos : Nat) (w : List Dirent) (h : (rewound c pos).dirents = some w) :
    rewound c pos = c := by
  unfold rewound at h ⊢
  split
  · rename_i hc; rw [if_pos hc] at h; cases h
  · rfl

theorem pow32 : (2:Nat)^32 = 4294967296 := by decide

/-- `Read` never changes the listing or the dot entries, and keeps the invariant — for ANY position and
count (stale cookies and errors included). -/
theorem read_inv (c : Cache) (pos n : Nat) (h : Inv c) (hn : n < 2^32) :
    Inv (c.read pos n).1 ∧ (c.read pos n).1.full = c.full ∧ (c.read pos n).1.dot = c.dot := by
  have _ := hn
  by_cases h1 : pos > c.countRead
  · rw [read_eq, if_pos h1]; exact ⟨h, rfl, rfl⟩
  by_cases h2 : n = 0
  · rw [read_eq, if_neg h1, if_pos (by simpa using h2)]; exact rewound_inv c pos h
  obtain ⟨hi, hf, hd⟩ := rewound_inv c pos h
  cases h3 : (rewound c pos).dirents with
  | none =>
    rw [read_of_none c pos n (by omega) h2 h3]
    unfold readNone
    obtain ⟨hd2, _, hp⟩ := (inv_none _ h3).1 hi
    obtain ⟨a, b, c'⟩ := readNoneC_inv (rewound c pos) n ((n + 2^32 - 2) % 2^32) hd2 hp
    exact ⟨a, b.trans hf, c'.trans hd⟩
  | some w =>
    rw [read_of_some c pos n w (by omega) h2 h3]
    have hrw := rewound_some c pos w h3
    rw [hrw] at h3 ⊢
    exact readSome_inv c w pos n h h3 (by omega)

/-- For a reachable cookie and the counts fd_readdir uses (n ≥ 3), `Read` returns exactly the next
`n` entries of the full enumeration starting at the cookie, and the window then starts at the cookie. -/
theorem read_spec (c : Cache) (pos n : Nat) (h : Inv c) (hr : Reach c pos) (hn3 : 3 ≤ n) (hn : n < 2^32)
    (hpos : pos ≤ c.full.length) :
    (c.read pos n).2 = .ok ((c.full.drop pos).take n) ∧
    (∀ j, j ≤ ((c.full.drop pos).take n).length → Reach (c.read pos n).1 (pos + j)) := by
  by_cases hp0 : pos = 0
  · subst hp0
    obtain ⟨hi, hf, hd⟩ := rewound_inv c 0 h
    have h3 : (rewound c 0).dirents = none := by
      cases hcd : c.dirents with
      | none => unfold rewound; rw [hcd]; simpa using hcd
      | some w => unfold rewound; rw [hcd]; rfl
    rw [read_of_none c 0 n (by omega) (by omega) h3]
    obtain ⟨hd2, _, hp⟩ := (inv_none _ h3).1 hi
    have hcnt : (n + 2^32 - 2) % 2^32 = n - 2 := by rw [pow32] at hn ⊢; omega
    unfold readNone
    rw [hcnt]
    have := readNoneC_spec (rewound c 0) n hd2 hp hn3
    rw [hf] at this
    simpa using this
  · rcases hr with hr | ⟨w, hw, hlo, hhi⟩
    · exact absurd hr hp0
    · have hrw : rewound c pos = c := by
        unfold rewound; rw [if_neg]; simp [hp0]
      have h3 : (rewound c pos).dirents = some w := by rw [hrw]; exact hw
      rw [read_of_some c pos n w hhi (by omega) h3, hrw]
      exact readSome_spec c w pos n h hw hlo hhi

/-- Reachable cookies never point past the end. -/
theorem reach_le (c : Cache) (cookie : Nat) (h : Inv c) (hr : Reach c cookie) : cookie ≤ c.full.length := by
  rcases hr with rfl | ⟨w, hw, _, h2⟩
  · omega
  · unfold Inv at h; rw [hw] at h; simp only at h; omega

/-! ### maxDirents / writeDirents -/

/-- total size of the first k entries -/
def sizeOf (l : List Dirent) : Nat := (l.map (fun d => DirentSize + d.name.length)).sum

@[simp] theorem sizeOf_nil : sizeOf [] = 0 := rfl
@[simp] theorem sizeOf_cons (d : Dirent) (l : List Dirent) :
    sizeOf (d :: l) = DirentSize + d.name.length + sizeOf l := by simp [sizeOf]

theorem sizeOf_ge (l : List Dirent) : DirentSize * l.length ≤ sizeOf l := by
  induction l with
  | nil => simp
  | cons d l ih => simp only [sizeOf_cons, List.length_cons, DirentSize] at *; omega

theorem maxDirentsGo_spec (ds : List Dirent) (rem btw cnt : Nat) :
    ∃ k, k ≤ ds.length ∧ sizeOf (ds.take k) ≤ rem ∧
      let r := maxDirentsGo ds rem btw cnt
      ((k = ds.length ∨ sizeOf (ds.take k) = rem) ∧ r = (btw + sizeOf (ds.take k), cnt + k, 0)
       ∨
       (k < ds.length ∧ sizeOf (ds.take k) < rem ∧ rem < sizeOf (ds.take (k + 1)) ∧
        r = (btw + sizeOf (ds.take k) + min DirentSize (rem - sizeOf (ds.take k)), cnt + k + 1,
             min DirentSize (rem - sizeOf (ds.take k))))) := by
  induction ds generalizing rem btw cnt with
  | nil => exact ⟨0, Nat.le_refl _, by simp, Or.inl ⟨Or.inl rfl, by simp [maxDirentsGo]⟩⟩
  | cons d ds ih =>
    unfold maxDirentsGo
    by_cases h0 : rem = 0
    · subst h0
      exact ⟨0, Nat.zero_le _, by simp, Or.inl ⟨Or.inr (by simp), by simp⟩⟩
    · rw [if_neg (by simpa using h0)]
      simp only []
      by_cases hgt : DirentSize + d.name.length > rem
      · rw [if_pos hgt]
        refine ⟨0, Nat.zero_le _, by simp, Or.inr ⟨by simp, by simp; omega, by simpa using hgt, ?_⟩⟩
        simp only [List.take_zero, sizeOf_nil, Nat.add_zero, Nat.sub_zero]
        have : (if rem ≥ DirentSize then DirentSize else rem) = min DirentSize rem := by
          split <;> omega
        rw [this]
      · rw [if_neg hgt]
        have hgt' : DirentSize + d.name.length ≤ rem := Nat.le_of_not_gt hgt
        obtain ⟨k, hk, hs, hcase⟩ := ih (rem - (DirentSize + d.name.length)) (btw + (DirentSize + d.name.length)) (cnt + 1)
        refine ⟨k + 1, by simpa using hk, by simp only [List.take_succ_cons, sizeOf_cons]; omega, ?_⟩
        simp only [List.take_succ_cons, sizeOf_cons, List.length_cons] at hcase ⊢
        rcases hcase with ⟨hl, hr⟩ | ⟨h1, h2, h3, hr⟩
        · left
          refine ⟨by omega, ?_⟩
          rw [hr]; simp only [Prod.mk.injEq, and_true]; omega
        · right
          refine ⟨by omega, by omega, by omega, ?_⟩
          rw [hr]
          have : rem - (DirentSize + d.name.length) - sizeOf (ds.take k) =
              rem - (DirentSize + d.name.length + sizeOf (ds.take k)) := by omega
          rw [this]; simp only [Prod.mk.injEq, and_true]; omega

/-- Characterisation of `maxDirents`: `k` = number of complete entries = the longest prefix that fits. -/
theorem maxDirents_spec (ds : List Dirent) (bufLen : Nat) :
    ∃ k, k ≤ ds.length ∧ sizeOf (ds.take k) ≤ bufLen ∧
      let r := maxDirents ds bufLen
      -- either everything fit (or the buffer is exactly full): no truncation
      ((k = ds.length ∨ sizeOf (ds.take k) = bufLen) ∧ r = (sizeOf (ds.take k), k, 0)
       ∨
       -- or entry k does not fit in the positive remainder: truncated
       (k < ds.length ∧ sizeOf (ds.take k) < bufLen ∧ bufLen < sizeOf (ds.take (k + 1)) ∧
        r = (sizeOf (ds.take k) + min DirentSize (bufLen - sizeOf (ds.take k)), k + 1,
             min DirentSize (bufLen - sizeOf (ds.take k))))) := by
  have := maxDirentsGo_spec ds bufLen 0 0
  simpa [maxDirents] using this

theorem writeGo_ge (ds : List Dirent) (dnext i cnt : Nat) (skip : Option Nat) (h : cnt ≤ i) :
    writeGo ds dnext i cnt skip = [] := by
  cases ds with
  | nil => rfl
  | cons d ds => unfold writeGo; rw [if_neg (by omega)]

theorem writeGo_noskip (ds : List Dirent) (base s i cnt : Nat) (skip : Option Nat)
    (hs : ∀ j, skip = some j → cnt ≤ j) :
    writeGo ds (base + s) i cnt skip =
      (((ds.take (cnt - i)).zipIdx s).map (fun p => (base + p.2, p.1))).flatMap
        (fun p => header p.1 p.2 ++ p.2.name) := by
  induction ds generalizing s i with
  | nil => simp [writeGo]
  | cons d ds ih =>
    unfold writeGo
    by_cases hi : i < cnt
    · have hm : cnt - i = (cnt - (i + 1)) + 1 := by omega
      have hsk : (skip == some i) = false := by
        cases hsk : skip with
        | none => rfl
        | some j => have := hs j hsk; simp; omega
      rw [if_pos hi, hm, List.take_succ_cons, List.zipIdx_cons, List.map_cons, List.flatMap_cons, hsk,
        Nat.add_assoc base s 1, ih (s + 1) (i + 1)]
      simp
    · have hm : cnt - i = 0 := by omega
      rw [if_neg hi, hm]; simp

theorem writeGo_skip (ds : List Dirent) (base s i cnt : Nat) (hc : 1 ≤ cnt) (hi : i ≤ cnt - 1) :
    writeGo ds (base + s) i cnt (some (cnt - 1)) =
      (((ds.take (cnt - 1 - i)).zipIdx s).map (fun p => (base + p.2, p.1))).flatMap
        (fun p => header p.1 p.2 ++ p.2.name) ++
      (match ds[cnt - 1 - i]? with
       | some d => header (base + s + (cnt - 1 - i)) d
       | none => []) := by
  induction ds generalizing s i with
  | nil => simp [writeGo]
  | cons d ds ih =>
    unfold writeGo
    rw [if_pos (by omega)]
    by_cases he : i = cnt - 1
    · have hm : cnt - 1 - i = 0 := by omega
      rw [hm, ← he, writeGo_ge ds _ _ _ _ (by omega)]
      simp
    · have hm : cnt - 1 - i = (cnt - 1 - (i + 1)) + 1 := by omega
      have hsk : (some (cnt - 1) == some i) = false := by simp; omega
      rw [hsk, hm, List.take_succ_cons, List.zipIdx_cons, List.map_cons, List.flatMap_cons,
        Nat.add_assoc base s 1, ih (s + 1) (i + 1) (by omega), List.getElem?_cons_succ]
      have : base + s + (cnt - 1 - (i + 1) + 1) = base + (s + 1) + (cnt - 1 - (i + 1)) := by omega
      rw [this]
      simp

/-- The bytes written are the complete entries (header + name) followed by the bare header of the
truncated entry when at least 24 bytes were left. -/
theorem written_spec (k : Core) (cookie : Nat) (hk : k.bufToWrite > 0) (hc : k.direntCount ≤ k.ds.length)
    (hpos : k.truncatedLen > 0 → k.direntCount ≥ 1) :
    k.written cookie =
      (k.complete cookie).flatMap (fun p => header p.1 p.2 ++ p.2.name) ++
      (match k.truncatedHeader with
       | some d => header (cookie + 1 + k.nComplete) d
       | none => []) := by
  have _ := hc
  unfold Core.written
  rw [if_pos hk]
  unfold writeDirents Core.complete Core.nComplete Core.truncatedHeader
  by_cases ht : k.truncatedLen > 0
  · have hc1 := hpos ht
    rw [if_pos ht, if_pos ht]
    by_cases ht2 : k.truncatedLen < DirentSize
    · rw [if_pos ht2, if_neg (by omega)]
      have := writeGo_noskip k.ds (cookie + 1) 0 0 (k.direntCount - 1) none (by intro j h; cases h)
      rw [Nat.add_zero, Nat.sub_zero] at this
      rw [this]; simp
    · rw [if_neg ht2, if_pos (by omega)]
      have := writeGo_skip k.ds (cookie + 1) 0 0 k.direntCount hc1 (Nat.zero_le _)
      rw [Nat.add_zero, Nat.sub_zero] at this
      rw [this]
  · rw [if_neg ht, if_neg ht, if_neg (by simp only [DirentSize]; omega)]
    have := writeGo_noskip k.ds (cookie + 1) 0 0 k.direntCount none (by intro j h; cases h)
    rw [Nat.add_zero, Nat.sub_zero] at this
    rw [this]; simp

/-! ### One call, as seen by a client -/

def mkCore (ds : List Dirent) (bufLen : Nat) : Core :=
  { ds := ds, bufToWrite := (maxDirents ds bufLen).1, direntCount := (maxDirents ds bufLen).2.1,
    truncatedLen := (maxDirents ds bufLen).2.2 }

theorem core_facts (ds : List Dirent) (bufLen : Nat) (hb : DirentSize ≤ bufLen) :
    (mkCore ds bufLen).nComplete ≤ ds.length ∧
    (mkCore ds bufLen).bufused bufLen ≤ bufLen ∧
    ((mkCore ds bufLen).bufused bufLen < bufLen →
        (mkCore ds bufLen).nComplete = ds.length ∧ sizeOf ds < bufLen) ∧
    (ds = [] → (mkCore ds bufLen).bufused bufLen = 0) ∧
    ((mkCore ds bufLen).nComplete = 0 → ds ≠ [] →
        (mkCore ds bufLen).bufused bufLen = bufLen ∧ (mkCore ds bufLen).truncatedHeader = ds[0]?) ∧
    (∀ d, ds[0]? = some d → DirentSize + d.name.length ≤ bufLen → 1 ≤ (mkCore ds bufLen).nComplete) := by
  obtain ⟨k, hk, hs, hcase⟩ := maxDirents_spec ds bufLen
  simp only [] at hcase
  unfold Core.nComplete Core.bufused Core.truncatedHeader mkCore
  simp only []
  rcases hcase with ⟨hl, hr⟩ | ⟨h1, h2, h3, hr⟩
  · rw [hr]
    simp only [Nat.lt_irrefl, gt_iff_lt, if_false]
    have hk0 : k ≠ 0 ∨ ds = [] := by
      rcases hl with hl | hl
      · cases ds with
        | nil => exact Or.inr rfl
        | cons a l => left; simp at hl; omega
      · left; intro h0; subst h0; simp [DirentSize] at hl hb; omega
    refine ⟨hk, hs, ?_, ?_, ?_, ?_⟩
    · intro hlt
      have : k = ds.length := by omega
      refine ⟨this, ?_⟩
      rw [this, List.take_length] at hlt; exact hlt
    · intro h; subst h; simp
    · intro h0 hne
      rcases hk0 with h | h
      · exact absurd h0 h
      · exact absurd h hne
    · intro d hd _
      rcases hk0 with h | h
      · omega
      · subst h; simp at hd
  · rw [hr]
    have hm : min DirentSize (bufLen - sizeOf (ds.take k)) > 0 := by
      simp only [DirentSize] at *; omega
    simp only [hm, if_true, Nat.add_sub_cancel]
    refine ⟨hk, Nat.le_refl _, ?_, ?_, ?_, ?_⟩
    · intro h; omega
    · intro h; subst h; simp at h1
    · intro h0 _
      subst h0
      refine ⟨trivial, ?_⟩
      rw [if_pos]
      simp only [List.take_zero, sizeOf_nil, Nat.sub_zero]
      simp only [DirentSize] at *; omega
    · intro d hd hfit
      cases ds with
      | nil => simp at hd
      | cons a l =>
        simp at hd; subst hd
        cases k with
        | zero => simp at h3; omega
        | succ k => omega

theorem core_eq_ok (c : Cache) (bufLen cookie : Nat) (hb : DirentSize ≤ bufLen) (c' : Cache)
    (ds : List Dirent) (h : c.read cookie (bufLen / DirentSize + 1 + 1) = (c', .ok ds)) :
    fdReaddirCore c bufLen cookie = (c', .ok (mkCore ds bufLen)) := by
  unfold fdReaddirCore
  rw [if_neg (by omega)]
  simp only [h]
  rfl

theorem core_eq_err (c : Cache) (bufLen cookie : Nat) (hb : DirentSize ≤ bufLen) (c' : Cache)
    (e : RErr) (h : c.read cookie (bufLen / DirentSize + 1 + 1) = (c', .error e)) :
    fdReaddirCore c bufLen cookie = (c', .error e) := by
  unfold fdReaddirCore
  rw [if_neg (by omega)]
  simp only [h]

theorem count_lt (bufLen : Nat) (hb32 : bufLen < 2^32) : bufLen / DirentSize + 1 + 1 < 2^32 := by
  rw [pow32] at hb32 ⊢; simp only [DirentSize]; omega

theorem call_spec_aux (c : Cache) (bufLen cookie : Nat) (h : Inv c) (hr : Reach c cookie)
    (hb : DirentSize ≤ bufLen) (hb32 : bufLen < 2^32) :
    ∃ core k, (fdReaddirCore c bufLen cookie).2 = .ok core ∧
      Inv (fdReaddirCore c bufLen cookie).1 ∧ (fdReaddirCore c bufLen cookie).1.full = c.full ∧
      core.complete cookie = numbered ((c.full.drop cookie).take k) cookie ∧
      cookie + k ≤ c.full.length ∧
      (∀ j, j ≤ k → Reach (fdReaddirCore c bufLen cookie).1 (cookie + j)) ∧
      (core.bufused bufLen < bufLen → cookie + k = c.full.length) ∧
      (core.bufused bufLen ≤ bufLen) ∧
      (k = 0 → cookie < c.full.length →
          core.bufused bufLen = bufLen ∧ core.truncatedHeader = c.full[cookie]?) ∧
      (∀ d, c.full[cookie]? = some d → DirentSize + d.name.length ≤ bufLen → 1 ≤ k) ∧
      (cookie = c.full.length → core.bufused bufLen = 0) := by
  have hcl := reach_le c cookie h hr
  have hn3 : 3 ≤ bufLen / DirentSize + 1 + 1 := by simp only [DirentSize] at *; omega
  obtain ⟨hres, hreach⟩ := read_spec c cookie _ h hr hn3 (count_lt bufLen hb32) hcl
  obtain ⟨hi, hf, _⟩ := read_inv c cookie _ h (count_lt bufLen hb32)
  generalize hn : bufLen / DirentSize + 1 + 1 = n at hres hreach hi hf hn3
  generalize hds : (c.full.drop cookie).take n = ds at hres hreach
  have hrd : c.read cookie n = ((c.read cookie n).1, .ok ds) := Prod.ext rfl hres
  have heq := core_eq_ok c bufLen cookie hb _ ds (hn ▸ hrd)
  rw [heq, hn]
  obtain ⟨f1, f2, f3, f4, f5, f6⟩ := core_facts ds bufLen hb
  generalize hk : (mkCore ds bufLen).nComplete = k at f1 f3 f5 f6
  have hdl : ds.length = min n (c.full.length - cookie) := by
    rw [← hds, List.length_take, List.length_drop]
  have hd0 : ds[0]? = c.full[cookie]? := by
    rw [← hds, List.getElem?_take, if_pos (by omega), List.getElem?_drop]; rfl
  refine ⟨mkCore ds bufLen, k, rfl, hi, hf, ?_, ?_, ?_, ?_, f2, ?_, ?_, ?_⟩
  · unfold Core.complete numbered
    rw [hk]
    show (List.take k ds).zipIdx.map _ = _
    rw [← hds, List.take_take, Nat.min_eq_left (by omega)]
  · omega
  · intro j hj; exact hreach j (by omega)
  · intro hlt
    obtain ⟨e1, e2⟩ := f3 hlt
    have := sizeOf_ge ds
    have : ds.length < n := by
      rw [← hn]; simp only [DirentSize] at *; omega
    omega
  · intro h0 hlt
    have hne : ds ≠ [] := by
      intro he; rw [he] at hdl; simp at hdl; omega
    obtain ⟨e1, e2⟩ := f5 h0 hne
    exact ⟨e1, e2.trans hd0⟩
  · intro d hd hfit
    exact f6 d (hd0.trans hd) hfit
  · intro he
    apply f4
    apply List.eq_nil_of_length_eq_zero
    omega

/-- The call specification (covers `truncated_not_skipped`): for a reachable cookie and a buffer of at
least 24 bytes, the call succeeds, its complete entries are the next `k` entries of the enumeration with
`d_next` = index + 1; `bufused < buf_len` only if nothing is left; if no complete entry was produced
although entries are left then `bufused = buf_len` and the header of the next entry (with its true name
length) is in the buffer; and a buffer that can hold the next entry yields at least that entry. -/
theorem call_spec (c : Cache) (bufLen cookie : Nat) (h : Inv c) (hr : Reach c cookie)
    (hb : DirentSize ≤ bufLen) (hb32 : bufLen < 2^32) :
    ∃ core k, (fdReaddirCore c bufLen cookie).2 = .ok core ∧
      Inv (fdReaddirCore c bufLen cookie).1 ∧ (fdReaddirCore c bufLen cookie).1.full = c.full ∧
      core.complete cookie = numbered ((c.full.drop cookie).take k) cookie ∧
      cookie + k ≤ c.full.length ∧
      (∀ j, j ≤ k → Reach (fdReaddirCore c bufLen cookie).1 (cookie + j)) ∧
      (core.bufused bufLen < bufLen → cookie + k = c.full.length) ∧
      (core.bufused bufLen ≤ bufLen) ∧
      (k = 0 → cookie < c.full.length →
          core.bufused bufLen = bufLen ∧ core.truncatedHeader = c.full[cookie]?) ∧
      (∀ d, c.full[cookie]? = some d → DirentSize + d.name.length ≤ bufLen → 1 ≤ k) := by
  obtain ⟨core, k, h1, h2, h3, h4, h5, h6, h7, h8, h9, h10, _⟩ := call_spec_aux c bufLen cookie h hr hb hb32
  exact ⟨core, k, h1, h2, h3, h4, h5, h6, h7, h8, h9, h10⟩

/-- any call keeps the invariant (bad buffer lengths and stale cookies included) -/
theorem call_inv (c : Cache) (bufLen cookie : Nat) (h : Inv c) (hb32 : bufLen < 2^32) :
    Inv (fdReaddirCore c bufLen cookie).1 ∧ (fdReaddirCore c bufLen cookie).1.full = c.full := by
  by_cases hb : bufLen < DirentSize
  · unfold fdReaddirCore; rw [if_pos hb]; exact ⟨h, rfl⟩
  · have hb : DirentSize ≤ bufLen := by omega
    obtain ⟨hi, hf, _⟩ := read_inv c cookie (bufLen / DirentSize + 1 + 1) h (count_lt bufLen hb32)
    rcases hrd : c.read cookie (bufLen / DirentSize + 1 + 1) with ⟨c', r⟩
    rw [hrd] at hi hf
    cases r with
    | error e => rw [core_eq_err c bufLen cookie hb c' e hrd]; exact ⟨hi, hf⟩
    | ok ds => rw [core_eq_ok c bufLen cookie hb c' ds hrd]; exact ⟨hi, hf⟩

/-! ### The protocol -/

/-- Client invariant: no failure, the accumulated entries are a prefix of the enumeration, the cookie is
their count and is reachable, and `done` only when everything was delivered. -/
def ClientInv (full : List Dirent) (cl : Client) : Prop :=
  Inv cl.cache ∧ cl.cache.full = full ∧ cl.failed = none ∧
  cl.acc = full.take cl.cookie ∧ cl.cookie ≤ full.length ∧ Reach cl.cache cl.cookie ∧
  (cl.done = true → cl.acc = full)

theorem numbered_map_snd (l : List Dirent) (c : Nat) : (numbered l c).map (·.2) = l := by
  unfold numbered
  rw [List.map_map]
  exact List.zipIdx_map_fst 0 l

theorem numbered_last (l : List Dirent) (c : Nat) :
    ((numbered l c).getLast?.map (·.1)).getD c = c + l.length := by
  unfold numbered
  rw [List.getLast?_eq_getElem?, List.getElem?_map, List.getElem?_zipIdx, List.length_map,
    List.length_zipIdx]
  cases hl : l[l.length - 1]? with
  | none =>
    have := List.getElem?_eq_none_iff.1 hl
    have : l.length = 0 := by omega
    simp [this]
  | some a =>
    have := (List.getElem?_eq_some_iff.1 hl).1
    simp; omega

theorem step_done (cl : Client) (b : Nat) (h : cl.done = true) : cl.step b = cl := by
  unfold Client.step; rw [h]; rfl

theorem step_ok (cl : Client) (b : Nat) (h1 : cl.done = false) (h2 : cl.failed = none) (c' : Cache) (k : Core)
    (h : fdReaddirCore cl.cache b cl.cookie = (c', .ok k)) :
    cl.step b = Client.mk c' (((k.complete cl.cookie).getLast?.map (·.1)).getD cl.cookie)
      (cl.acc ++ (k.complete cl.cookie).map (·.2)) (decide (k.bufused b < b)) cl.failed := by
  unfold Client.step
  rw [h1, h2]
  simp only [h]
  rfl

theorem client_start_inv (c : Cache) (h : Inv c) : ClientInv c.full (Client.start c) := by
  refine ⟨h, rfl, rfl, ?_, Nat.zero_le _, Or.inl rfl, ?_⟩
  · simp [Client.start]
  · intro hd; simp [Client.start] at hd

/-- one round from a state satisfying the invariant, not yet done -/
theorem step_facts (full : List Dirent) (cl : Client) (b : Nat) (h : ClientInv full cl)
    (hb : DirentSize ≤ b) (hb32 : b < 2^32) (hnd : cl.done = false) :
    ∃ k, ClientInv full (cl.step b) ∧ (cl.step b).cookie = cl.cookie + k ∧
      (cl.cookie = full.length → (cl.step b).done = true) ∧
      (∀ d, full[cl.cookie]? = some d → DirentSize + d.name.length ≤ b → 1 ≤ k) := by
  obtain ⟨hi, hf, hfail, hacc, hcl, hr, hdone⟩ := h
  obtain ⟨core, k, h1, h2, h3, h4, h5, h6, h7, h8, h9, h10, h11⟩ :=
    call_spec_aux cl.cache b cl.cookie hi hr hb hb32
  rw [hf] at h3 h4 h5 h7 h9 h10 h11
  have hcall : fdReaddirCore cl.cache b cl.cookie = ((fdReaddirCore cl.cache b cl.cookie).1, .ok core) :=
    Prod.ext rfl h1
  have hstep := step_ok cl b hnd hfail _ core hcall
  have hlen : ((full.drop cl.cookie).take k).length = k := by
    rw [List.length_take, List.length_drop]; omega
  rw [h4, numbered_last, numbered_map_snd, hlen] at hstep
  rw [hstep]
  refine ⟨k, ⟨h2, h3, hfail, ?_, h5, h6 k (Nat.le_refl _), ?_⟩, rfl, ?_, h10⟩
  · show cl.acc ++ (full.drop cl.cookie).take k = full.take (cl.cookie + k)
    rw [hacc, List.take_add]
  · intro hd
    have hd : core.bufused b < b := of_decide_eq_true hd
    have := h7 hd
    show cl.acc ++ (full.drop cl.cookie).take k = full
    rw [hacc, ← List.take_add, this, List.take_length]
  · intro he
    show decide (core.bufused b < b) = true
    rw [h11 he]
    simp only [DirentSize] at hb
    exact decide_eq_true (by omega)

theorem client_step_inv (full : List Dirent) (cl : Client) (b : Nat) (h : ClientInv full cl)
    (hb : DirentSize ≤ b) (hb32 : b < 2^32) : ClientInv full (cl.step b) := by
  cases hd : cl.done with
  | true => rw [step_done cl b hd]; exact h
  | false =>
    obtain ⟨k, hk, _⟩ := step_facts full cl b h hb hb32 hd
    exact hk

theorem client_run_inv (full : List Dirent) (cl : Client) (bs : List Nat) (h : ClientInv full cl)
    (hb : ∀ b ∈ bs, DirentSize ≤ b ∧ b < 2^32) : ClientInv full (cl.run bs) := by
  induction bs generalizing cl with
  | nil => exact h
  | cons b bs ih =>
    have hb0 := hb b (List.mem_cons_self ..)
    exact ih (cl.step b) (client_step_inv full cl b h hb0.1 hb0.2)
      (fun b' hb' => hb b' (List.mem_cons_of_mem _ hb'))

/-- progress: a round whose buffer can hold the next entry delivers it or finishes;
with `m` = the longest name, `full.length + 1` rounds with buffers ≥ 24 + m always finish. -/
theorem client_step_progress (full : List Dirent) (cl : Client) (b : Nat) (h : ClientInv full cl)
    (hb : DirentSize ≤ b) (hb32 : b < 2^32) (hnd : cl.done = false)
    (hfit : ∀ d ∈ full, DirentSize + d.name.length ≤ b) :
    (cl.step b).done = true ∨ cl.cookie < (cl.step b).cookie := by
  obtain ⟨k, _, hck, hend, hk⟩ := step_facts full cl b h hb hb32 hnd
  have hcl := h.2.2.2.2.1
  by_cases he : cl.cookie = full.length
  · exact Or.inl (hend he)
  · right
    have hlt : cl.cookie < full.length := by omega
    have hget : full[cl.cookie]? = some full[cl.cookie] := List.getElem?_eq_getElem hlt
    have := hk _ hget (hfit _ (List.getElem_mem hlt))
    omega

theorem run_done (cl : Client) (bs : List Nat) (h : cl.done = true) : (cl.run bs).done = true := by
  induction bs generalizing cl with
  | nil => exact h
  | cons b bs ih => unfold Client.run; rw [step_done cl b h]; exact ih cl h

theorem client_terminates (full : List Dirent) (cl : Client) (bs : List Nat) (h : ClientInv full cl)
    (hb : ∀ b ∈ bs, b < 2^32 ∧ ∀ d ∈ full, DirentSize + d.name.length ≤ b)
    (hlen : full.length + 1 ≤ cl.cookie + bs.length) : (cl.run bs).done = true := by
  induction bs generalizing cl with
  | nil =>
    have := h.2.2.2.2.1
    simp at hlen; omega
  | cons b bs ih =>
    cases hd : cl.done with
    | true => exact run_done cl _ hd
    | false =>
      obtain ⟨hb32, hfit⟩ := hb b (List.mem_cons_self ..)
      have hb24 : DirentSize ≤ b := by
        have h2 : full.length ≥ 2 := by
          have := h.1.1
          rw [← h.2.1, Cache.full, List.length_append]; omega
        have := hfit _ (List.getElem_mem (by omega : 0 < full.length))
        omega
      have hinv := client_step_inv full cl b h hb24 hb32
      show ((cl.step b).run bs).done = true
      rcases client_step_progress full cl b h hb24 hb32 hd hfit with hdn | hlt
      · exact run_done _ _ hdn
      · apply ih _ hinv (fun b' hb' => hb b' (List.mem_cons_of_mem _ hb'))
        simp at hlen; omega

end Wz.Proofs.C16Readdir
