import Wz.Proofs.C01_SsaPass_Basic

/-! Dead-code elimination (`Wz.Model.SsaPass.dceWith`) preserves the semantics for every side-effect table that
classifies as `none` only instructions that the real table classifies as `none`. -/
namespace Wz.Model.SsaPass

/-- a table that is at least as careful as `instructionSideEffects` -/
def SoundTable (tbl : Opcode → Eff) : Prop := ∀ op, tbl op = .none → sideEffect op = .none

theorem soundTable_sideEffect : SoundTable sideEffect := fun _ h => h

/-! ### the live set is closed -/

structure LiveInv (f : Func) (roots work live : List Val) : Prop where
  roots : ∀ x ∈ roots, x ∈ live ∨ x ∈ work
  closed : ∀ i ∈ f.allInstrs, ∀ r ∈ i.results, r ∈ live →
    ∀ o ∈ i.operands, res f.alias o ∈ live ∨ res f.alias o ∈ work

theorem liveLoop_inv (f : Func) (roots : List Val) :
    ∀ (n : Nat) (work live L : List Val), LiveInv f roots work live → liveLoop f n work live = some L →
      LiveInv f roots [] L := by
  intro n
  induction n with
  | zero => intro work live L _ h; simp [liveLoop] at h
  | succ n ih =>
    intro work live L hinv h
    cases work with
    | nil => simp only [liveLoop, Option.some.injEq] at h; subst h; exact hinv
    | cons v work =>
      simp only [liveLoop] at h
      split at h
      · rename_i hv
        refine ih work live L ⟨?_, ?_⟩ h
        · intro x hx
          cases hinv.roots x hx with
          | inl h1 => exact Or.inl h1
          | inr h1 =>
            cases h1 with
            | head => exact Or.inl hv
            | tail _ h2 => exact Or.inr h2
        · intro i hi r hr hrl o ho
          cases hinv.closed i hi r hr hrl o ho with
          | inl h1 => exact Or.inl h1
          | inr h1 =>
            cases h1 with
            | head => exact Or.inl hv
            | tail _ h2 => exact Or.inr h2
      · rename_i hv
        refine ih _ _ L ⟨?_, ?_⟩ h
        · intro x hx
          cases hinv.roots x hx with
          | inl h1 => exact Or.inl (List.mem_cons_of_mem _ h1)
          | inr h1 =>
            cases h1 with
            | head => exact Or.inl (List.mem_cons_self ..)
            | tail _ h2 => exact Or.inr (List.mem_append_right _ h2)
        · intro i hi r hr hrl o ho
          cases hrl with
          | head =>
            -- `i` is one of the producers of `v`: its operands were pushed
            right
            apply List.mem_append_left
            refine List.mem_flatMap.mpr ⟨i, ?_, List.mem_map_of_mem ho⟩
            exact List.mem_filter.mpr ⟨hi, by simpa using hr⟩
          | tail _ hrl =>
            cases hinv.closed i hi r hr hrl o ho with
            | inl h1 => exact Or.inl (List.mem_cons_of_mem _ h1)
            | inr h1 =>
              cases h1 with
              | head => exact Or.inl (List.mem_cons_self ..)
              | tail _ h2 => exact Or.inr (List.mem_append_right _ h2)

theorem liveSet_closed {tbl : Opcode → Eff} {f : Func} {L : List Val} (h : liveSet tbl f = some L) :
    (∀ x ∈ liveRoots tbl f, x ∈ L) ∧
    (∀ i ∈ f.allInstrs, ∀ r ∈ i.results, r ∈ L → ∀ o ∈ i.operands, res f.alias o ∈ L) := by
  have := liveLoop_inv f (liveRoots tbl f) _ _ _ L
    ⟨fun x hx => Or.inr hx, fun i _ r _ hrl => by cases hrl⟩ h
  refine ⟨fun x hx => ?_, fun i hi r hr hrl o ho => ?_⟩
  · cases this.roots x hx with
    | inl h => exact h
    | inr h => cases h
  · cases this.closed i hi r hr hrl o ho with
    | inl h => exact h
    | inr h => cases h

theorem validInstrs_sub_all (f : Func) {i : Instr} (h : i ∈ f.validInstrs) : i ∈ f.allInstrs := by
  simp only [Func.validInstrs, Func.validBlocks, List.mem_flatMap, List.mem_filter] at h
  obtain ⟨B, ⟨hB, _⟩, hi⟩ := h
  exact List.mem_flatMap.mpr ⟨B, hB, hi⟩

/-- every operand of an instruction that stays is live after resolution -/
theorem keeps_operands_live {tbl : Opcode → Eff} {f : Func} {L : List Val} (hL : liveSet tbl f = some L)
    {i : Instr} (hi : i ∈ f.validInstrs) (hk : keeps tbl L i = true) :
    ∀ o ∈ i.operands, res f.alias o ∈ L := by
  obtain ⟨hroots, hclosed⟩ := liveSet_closed hL
  intro o ho
  simp only [keeps, Bool.or_eq_true, decide_eq_true_eq, List.any_eq_true] at hk
  cases hk with
  | inl hk =>
    apply hroots
    simp only [liveRoots, List.mem_flatMap, List.mem_filter, decide_eq_true_eq]
    exact ⟨i, ⟨hi, hk⟩, List.mem_map_of_mem ho⟩
  | inr hk =>
    obtain ⟨r, hr, hrl⟩ := hk
    exact hclosed i (validInstrs_sub_all f hi) r hr hrl o ho

/-! ### simulation -/

inductive BodyRel (S : Val → Prop) : Option Ctl → Option Ctl → Prop where
  | none : BodyRel S none none
  | some {c c'} : CtlRel S c c' → BodyRel S (some c) (some c')

theorem execBody_cons_next {w : World} {al : List (Val × Val)} {i : Instr} {is : List Instr} {st st1 : St}
    (h : execInstr w (fun v => st.env (res al v)) i st = .next st1) :
    execBody w al (i :: is) st = execBody w al is st1 := by
  simp only [execBody, h]

theorem execBody_dce (w : World) {tbl : Opcode → Eff} {f : Func} {L : List Val} (hnf : AliasNF f.alias)
    (htbl : SoundTable tbl) (hL : liveSet tbl f = some L) :
    ∀ (is : List Instr) (st st' : St), (∀ i ∈ is, i ∈ f.validInstrs) → StRel (· ∈ L) st st' →
      BodyRel (· ∈ L) (execBody w f.alias is st)
        (execBody w f.alias ((is.filter (keeps tbl L)).map (·.mapOperands (res f.alias))) st') := by
  intro is
  induction is with
  | nil => intro st st' _ _; exact .none
  | cons i is ih =>
    intro st st' hall hst
    have hi := hall i (List.mem_cons_self ..)
    have hall' : ∀ j ∈ is, j ∈ f.validInstrs := fun j hj => hall j (List.mem_cons_of_mem _ hj)
    by_cases hk : keeps tbl L i = true
    · -- the instruction stays, with resolved operands
      have hops := keeps_operands_live hL hi hk
      have hsim := execInstr_sim w (· ∈ L) i hst
        (ρ := fun v => st.env (res f.alias v)) (ρ' := fun v => st'.env (res f.alias (res f.alias v)))
        (fun o ho => by
          show st.env (res f.alias o) = st'.env (res f.alias (res f.alias o))
          rw [res_idem hnf]; exact hst.env _ (hops o ho))
      simp only [List.filter_cons, hk, if_true, List.map_cons]
      simp only [execBody, execInstr_mapOperands]
      revert hsim
      generalize execInstr w (fun v => st.env (res f.alias v)) i st = c
      generalize execInstr w (fun v => st'.env (res f.alias (res f.alias v))) i st' = c'
      intro hsim
      cases hsim with
      | next h => exact ih _ _ hall' h
      | goto b args h => exact .some (.goto b args h)
      | ret vs h => exact .some (.ret vs h)
      | trap c h => exact .some (.trap c h)
    · -- the instruction goes: it has no side effect and nothing live reads its result
      have hk' : keeps tbl L i = false := by simpa using hk
      simp only [keeps, Bool.or_eq_false_iff, decide_eq_false_iff_not, Decidable.not_not,
        List.any_eq_false, decide_eq_true_eq] at hk'
      obtain ⟨st1, hex, hmem, htr, henv⟩ :=
        exec_pure w (fun v => st.env (res f.alias v)) i st (htbl _ hk'.1)
      rw [execBody_cons_next hex]
      have : (List.filter (keeps tbl L) (i :: is)) = List.filter (keeps tbl L) is := by
        simp [List.filter_cons, hk]
      rw [this]
      refine ih st1 st' hall' ⟨fun v hv => ?_, by rw [hmem]; exact hst.mem, by rw [htr]; exact hst.trace⟩
      rw [henv v (fun hvr => hk'.2 v hvr hv)]
      exact hst.env v hv

theorem findBlock_dce {tbl : Opcode → Eff} {f : Func} {L : List Val} (b : BlockId) :
    ({ f with blocks := f.blocks.map (fun B =>
        if B.invalid then B
        else { B with instrs := (B.instrs.filter (keeps tbl L)).map (·.mapOperands (res f.alias)) }) } : Func).findBlock b =
    (f.findBlock b).map (fun B =>
        { B with instrs := (B.instrs.filter (keeps tbl L)).map (·.mapOperands (res f.alias)) }) := by
  simp only [Func.findBlock]
  rw [find?_map_of_comm]
  · cases h : f.blocks.find? (fun B => decide (B.id = b ∧ ¬B.invalid = true)) with
    | none => rfl
    | some B =>
      have := List.find?_some h
      simp only [decide_eq_true_eq] at this
      simp [this.2]
  · intro B
    by_cases hB : B.invalid = true <;> simp [hB]

theorem instrs_valid {f : Func} {B : Block} (hB : B ∈ f.blocks) (hv : B.invalid = false) :
    ∀ i ∈ B.instrs, i ∈ f.validInstrs := by
  intro i hi
  simp only [Func.validInstrs, Func.validBlocks, List.mem_flatMap, List.mem_filter]
  exact ⟨B, ⟨hB, by simp [hv]⟩, hi⟩

theorem runFrom_dce (w : World) {tbl : Opcode → Eff} {f : Func} {L : List Val} (hnf : AliasNF f.alias)
    (htbl : SoundTable tbl) (hL : liveSet tbl f = some L) :
    ∀ (n : Nat) (b : BlockId) (args : List Nat) (st st' : St), StRel (· ∈ L) st st' →
      runFrom w f n b args st =
      runFrom w { f with blocks := f.blocks.map (fun B =>
        if B.invalid then B
        else { B with instrs := (B.instrs.filter (keeps tbl L)).map (·.mapOperands (res f.alias)) }) }
        n b args st' := by
  intro n
  induction n with
  | zero => intro b args st st' _; rfl
  | succ n ih =>
    intro b args st st' hst
    simp only [runFrom]
    rw [findBlock_dce]
    cases hfb : f.findBlock b with
    | none => rfl
    | some B =>
      obtain ⟨hBm, _, hBv⟩ := findBlock_mem hfb
      simp only [Option.map_some]
      split
      · rfl
      · have hst1 : StRel (· ∈ L) { st with env := bindVals st.env B.params args }
            { st' with env := bindVals st'.env B.params args } :=
          ⟨bindVals_agree _ _ hst.env, hst.mem, hst.trace⟩
        have hb := execBody_dce w hnf htbl hL B.instrs _ _ (instrs_valid hBm hBv) hst1
        revert hb
        generalize execBody w f.alias B.instrs _ = r
        generalize execBody w f.alias _ _ = r'
        intro hb
        cases hb with
        | none => rfl
        | some hc =>
          cases hc with
          | next h => rfl
          | goto b' args' h => exact ih b' args' _ _ h
          | ret vs h => simp only [h.mem, h.trace]
          | trap c h => simp only [h.mem, h.trace]

theorem entry_map (f : Func) (g : Block → Block) (h : ∀ B, (g B).id = B.id) :
    ({ f with blocks := f.blocks.map g } : Func).entry = f.entry := by
  simp only [Func.entry]
  cases f.blocks with
  | nil => rfl
  | cons B Bs => simp [h]

/-- **Dead-code elimination is sound** for every sound side-effect table. -/
theorem dceWith_sound (w : World) (tbl : Opcode → Eff) (f : Func) (hnf : AliasNF f.alias)
    (htbl : SoundTable tbl) (args : List Nat) (fuel : Nat) :
    run w (dceWith tbl f) args fuel = run w f args fuel := by
  unfold dceWith
  cases hL : liveSet tbl f with
  | none => rfl
  | some L =>
    simp only [run]
    rw [entry_map]
    · exact (runFrom_dce w hnf htbl hL fuel _ args St.init St.init ⟨fun _ _ => rfl, rfl, rfl⟩).symm
    · intro B; by_cases hB : B.invalid = true <;> simp [hB]

theorem dce_sound (w : World) (f : Func) (hnf : AliasNF f.alias) (args : List Nat) (fuel : Nat) :
    run w (dce f) args fuel = run w f args fuel :=
  dceWith_sound w sideEffect f hnf soundTable_sideEffect args fuel

end Wz.Model.SsaPass
