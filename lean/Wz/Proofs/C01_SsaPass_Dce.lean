import Wz.Proofs.C01_SsaPass_Basic

/-! Dead-code elimination (`Wz.Model.SsaPass.dceWith`) preserves the semantics for every side-effect table that
classifies as `none` only instructions that the real table classifies as `none`. -/
namespace Wz.Model.SsaPass

/-- a table that is at least as careful as `instructionSideEffects` -/
def SoundTable (tbl : Opcode → Eff) : Prop := ∀ op, tbl op = .none → sideEffect op = .none

theorem soundTable_sideEffect : SoundTable sideEffect := fun _ h => h

/-! ### the live set is closed -/

structure LiveInv (f : Func) (roots work live : List Val) : Prop where
  roots : ∀ x ∈ roots, x ∈ live ∨ x ∈ work
  closed : ∀ i ∈ f.allInstrs, ∀ r ∈ i.results, r ∈ live →
    ∀ o ∈ i.operands, res f.alias o ∈ live ∨ res f.alias o ∈ work

theorem liveLoop_inv (f : Func) (roots : List Val) :
    ∀ (n : Nat) (work live L : List Val), LiveInv f roots work live → liveLoop f n work live = some L →
      LiveInv f roots [] L := by
  intro n
  induction n with
  | zero => intro work live L _ h; simp [liveLoop] at h
  | succ n ih =>
    intro work live L hinv h
    cases work with
    | nil => simp only [liveLoop, Option.some.injEq] at h; subst h; exact hinv
    | cons v work =>
      simp only [liveLoop] at h
      split at h
      · rename_i hv
        refine ih work live L ⟨?_, ?_⟩ h
        · intro x hx
          cases hinv.roots x hx with
          | inl h1 => exact Or.inl h1
          | inr h1 =>
            cases h1 with
            | head => exact Or.inl hv
            | tail _ h2 => exact Or.inr h2
        · intro i hi r hr hrl o ho
          cases hinv.closed i hi r hr hrl o ho with
          | inl h1 => exact Or.inl h1
          | inr h1 =>
            cases h1 with
            | head => exact Or.inl hv
            | tail _ h2 => exact Or.inr h2
      · rename_i hv
        refine ih _ _ L ⟨?_, ?_⟩ h
        · intro x hx
          cases hinv.roots x hx with
          | inl h1 => exact Or.inl (List.mem_cons_of_mem _ h1)
          | inr h1 =>
            cases h1 with
            | head => exact Or.inl (List.mem_cons_self ..)
            | tail _ h2 => exact Or.inr (List.mem_append_right _ h2)
        · intro i hi r hr hrl o ho
          cases hrl with
          | head =>
            -- `i` is one of the producers of `v`: its operands were pushed
            right
            apply List.mem_append_left
            refine List.mem_flatMap.mpr ⟨i, ?_, List.mem_map_of_mem ho⟩
            exact List.mem_filter.mpr ⟨hi, by simpa using hr⟩
          | tail _ hrl =>
            cases hinv.closed i hi r hr hrl o ho with
            | inl h1 => exact Or.inl (List.mem_cons_of_mem _ h1)
            | inr h1 =>
              cases h1 with
              | head => exact Or.inl (List.mem_cons_self ..)
              | tail _ h2 => exact Or.inr (List.mem_append_right _ h2)

theorem liveSet_closed {tbl : Opcode → Eff} {f : Func} {L : List Val} (h : liveSet tbl f = some L) :
    (∀ x ∈ liveRoots tbl f, x ∈ L) ∧
    (∀ i ∈ f.allInstrs, ∀ r ∈ i.results, r ∈ L → ∀ o ∈ i.operands, res f.alias o ∈ L) := by
  have := liveLoop_inv f (liveRoots tbl f) _ _ _ L
    ⟨fun x hx => Or.inr hx, fun i _ r _ hrl => by cases hrl⟩ h
  refine ⟨fun x hx => ?_, fun i hi r hr hrl o ho => ?_⟩
  · cases this.roots x hx with
    | inl h => exact h
    | inr h => cases h
  · cases this.closed i hi r hr hrl o ho with
    | inl h => exact h
    | inr h => cases h

theorem validInstrs_sub_all (f : Func) {i : Instr} (h : i ∈ f.validInstrs) : i ∈ f.allInstrs := by
  simp only [Func.validInstrs, Func.validBlocks, List.mem_flatMap, List.mem_filter] at h
  obtain ⟨B, ⟨hB, _⟩, hi⟩ := h
  exact List.mem_flatMap.mpr ⟨B, hB, hi⟩

/-- every operand of an instruction that stays is live after resolution -/
theorem keeps_operands_live {tbl : Opcode → Eff} {f : Func} {L : List Val} (hL : liveSet tbl f = some L)
    {i : Instr} (hi : i ∈ f.validInstrs) (hk : keeps tbl L i = true) :
    ∀ o ∈ i.operands, res f.alias o ∈ L := by
  obtain ⟨hroots, hclosed⟩ := liveSet_closed hL
  intro o ho
  simp only [keeps, Bool.or_eq_true, decide_eq_true_eq, List.any_eq_true] at hk
  cases hk with
  | inl hk =>
    apply hroots
    simp only [liveRoots, List.mem_flatMap, List.mem_filter, decide_eq_true_eq]
    exact ⟨i, ⟨hi, hk⟩, List.mem_map_of_mem ho⟩
  | inr hk =>
    obtain ⟨r, hr, hrl⟩ := hk
    exact hclosed i (validInstrs_sub_all f hi) r hr hrl o ho

/-! ### simulation -/

inductive BodyRel (S : Val → Prop) : Option Ctl → Option Ctl → Prop where
  | none : BodyRel S none none
  | some {c c'} : CtlRel S c c' → BodyRel S (some c) (some c')

theorem execBody_cons_next {w : World} {al : List (Val × Val)} {i : Instr} {is : List Instr} {st st1 : St}
    (h : execInstr w (fun v => st.env (res al v)) i st = .next st1) :
    execBody w al (i :: is) st = execBody w al is st1 := by
  simp only [execBody, h]

/-- what the simulation needs from the selection `keep` and the set `S` of values that matter -/
structure Selection (f : Func) (keep : Instr → Bool) (S : Val → Prop) : Prop where
  kept : ∀ i ∈ f.validInstrs, keep i = true → ∀ o ∈ i.operands, S (res f.alias o)
  dropped : ∀ i ∈ f.validInstrs, keep i = false → sideEffect i.opcode = .none ∧ ∀ r ∈ i.results, ¬ S r

theorem execBody_dce (w : World) {f : Func} {keep : Instr → Bool} {S : Val → Prop} (hnf : AliasNF f.alias)
    (hsel : Selection f keep S) :
    ∀ (is : List Instr) (st st' : St), (∀ i ∈ is, i ∈ f.validInstrs) → StRel S st st' →
      BodyRel S (execBody w f.alias is st)
        (execBody w f.alias ((is.filter keep).map (·.mapOperands (res f.alias))) st') := by
  intro is
  induction is with
  | nil => intro st st' _ _; exact .none
  | cons i is ih =>
    intro st st' hall hst
    have hi := hall i (List.mem_cons_self ..)
    have hall' : ∀ j ∈ is, j ∈ f.validInstrs := fun j hj => hall j (List.mem_cons_of_mem _ hj)
    by_cases hk : keep i = true
    · -- the instruction stays, with resolved operands
      have hops := hsel.kept i hi hk
      have hsim := execInstr_sim w S i hst
        (ρ := fun v => st.env (res f.alias v)) (ρ' := fun v => st'.env (res f.alias (res f.alias v)))
        (fun o ho => by
          show st.env (res f.alias o) = st'.env (res f.alias (res f.alias o))
          rw [res_idem hnf]; exact hst.env _ (hops o ho))
      simp only [List.filter_cons, hk, if_true, List.map_cons]
      simp only [execBody, execInstr_mapOperands]
      revert hsim
      generalize execInstr w (fun v => st.env (res f.alias v)) i st = c
      generalize execInstr w (fun v => st'.env (res f.alias (res f.alias v))) i st' = c'
      intro hsim
      cases hsim with
      | next h => exact ih _ _ hall' h
      | goto b args h => exact .some (.goto b args h)
      | ret vs h => exact .some (.ret vs h)
      | trap c h => exact .some (.trap c h)
    · -- the instruction goes: it has no side effect and nothing that matters reads its result
      have hk' : keep i = false := by simpa using hk
      obtain ⟨hpure, hres⟩ := hsel.dropped i hi hk'
      obtain ⟨st1, hex, hmem, htr, henv⟩ :=
        exec_pure w (fun v => st.env (res f.alias v)) i st hpure
      rw [execBody_cons_next hex]
      have : (List.filter keep (i :: is)) = List.filter keep is := by
        simp [hk]
      rw [this]
      refine ih st1 st' hall' ⟨fun v hv => ?_, by rw [hmem]; exact hst.mem, by rw [htr]; exact hst.trace⟩
      rw [henv v (fun hvr => hres v hvr hv)]
      exact hst.env v hv

theorem findBlock_dce {f : Func} {keep : Instr → Bool} (b : BlockId) :
    ({ f with blocks := f.blocks.map (fun B =>
        if B.invalid then B
        else { B with instrs := (B.instrs.filter keep).map (·.mapOperands (res f.alias)) }) } : Func).findBlock b =
    (f.findBlock b).map (fun B =>
        { B with instrs := (B.instrs.filter keep).map (·.mapOperands (res f.alias)) }) := by
  simp only [Func.findBlock]
  rw [find?_map_of_comm]
  · cases h : f.blocks.find? (fun B => decide (B.id = b ∧ ¬B.invalid = true)) with
    | none => rfl
    | some B =>
      have := List.find?_some h
      simp only [decide_eq_true_eq] at this
      simp [this.2]
  · intro B
    by_cases hB : B.invalid = true <;> simp [hB]

theorem instrs_valid {f : Func} {B : Block} (hB : B ∈ f.blocks) (hv : B.invalid = false) :
    ∀ i ∈ B.instrs, i ∈ f.validInstrs := by
  intro i hi
  simp only [Func.validInstrs, Func.validBlocks, List.mem_flatMap, List.mem_filter]
  exact ⟨B, ⟨hB, by simp [hv]⟩, hi⟩

theorem runFrom_dce (w : World) {f : Func} {keep : Instr → Bool} {S : Val → Prop} (hnf : AliasNF f.alias)
    (hsel : Selection f keep S) :
    ∀ (n : Nat) (b : BlockId) (args : List Nat) (st st' : St), StRel S st st' →
      runFrom w f n b args st =
      runFrom w { f with blocks := f.blocks.map (fun B =>
        if B.invalid then B
        else { B with instrs := (B.instrs.filter keep).map (·.mapOperands (res f.alias)) }) }
        n b args st' := by
  intro n
  induction n with
  | zero => intro b args st st' _; rfl
  | succ n ih =>
    intro b args st st' hst
    simp only [runFrom]
    rw [findBlock_dce]
    cases hfb : f.findBlock b with
    | none => rfl
    | some B =>
      obtain ⟨hBm, _, hBv⟩ := findBlock_mem hfb
      simp only [Option.map_some]
      split
      · rfl
      · have hst1 : StRel S { st with env := bindVals st.env B.params args }
            { st' with env := bindVals st'.env B.params args } :=
          ⟨bindVals_agree _ _ hst.env, hst.mem, hst.trace⟩
        have hb := execBody_dce w hnf hsel B.instrs _ _ (instrs_valid hBm hBv) hst1
        revert hb
        generalize execBody w f.alias B.instrs _ = r
        generalize execBody w f.alias _ _ = r'
        intro hb
        cases hb with
        | none => rfl
        | some hc =>
          cases hc with
          | next h => rfl
          | goto b' args' h => exact ih b' args' _ _ h
          | ret vs h => simp only [h.mem, h.trace]
          | trap c h => simp only [h.mem, h.trace]

theorem entry_map (f : Func) (g : Block → Block) (h : ∀ B, (g B).id = B.id) :
    ({ f with blocks := f.blocks.map g } : Func).entry = f.entry := by
  simp only [Func.entry]
  cases f.blocks with
  | nil => rfl
  | cons B Bs => simp [h]

/-- the selection of `dceWith` and the live set satisfy what the simulation needs -/
theorem selection_keepFn {tbl : Opcode → Eff} (htbl : SoundTable tbl) (f : Func) :
    ∃ S : Val → Prop, Selection f (keepFn tbl f) S := by
  unfold keepFn
  cases hL : liveSet tbl f with
  | none => exact ⟨fun _ => True, fun _ _ _ _ _ => trivial, fun _ _ h => by simp [keepOf] at h⟩
  | some L =>
    refine ⟨(· ∈ L), fun i hi hk => keeps_operands_live hL hi hk, fun i _ hk => ?_⟩
    simp only [keepOf] at hk
    simp only [keeps, Bool.or_eq_false_iff, decide_eq_false_iff_not, Decidable.not_not,
      List.any_eq_false, decide_eq_true_eq] at hk
    exact ⟨htbl _ hk.1, hk.2⟩

/-- **Dead-code elimination is sound** for every sound side-effect table. -/
theorem dceWith_sound (w : World) (tbl : Opcode → Eff) (f : Func) (hnf : AliasNF f.alias)
    (htbl : SoundTable tbl) (args : List Nat) (fuel : Nat) :
    run w (dceWith tbl f) args fuel = run w f args fuel := by
  obtain ⟨S, hsel⟩ := selection_keepFn htbl f
  show run w { f with blocks := f.blocks.map (fun B =>
      if B.invalid then B
      else { B with instrs := (B.instrs.filter (keepFn tbl f)).map (·.mapOperands (res f.alias)) }) } args fuel = _
  simp only [run]
  rw [entry_map]
  · exact (runFrom_dce w hnf hsel fuel _ args St.init St.init ⟨fun _ _ => rfl, rfl, rfl⟩).symm
  · intro B; by_cases hB : B.invalid = true <;> simp [hB]

theorem dce_sound (w : World) (f : Func) (hnf : AliasNF f.alias) (args : List Nat) (fuel : Nat) :
    run w (dce f) args fuel = run w f args fuel :=
  dceWith_sound w sideEffect f hnf soundTable_sideEffect args fuel

/-! ### after the pass the alias table is not needed any more -/

theorem execBody_no_alias (w : World) (al : List (Val × Val)) :
    ∀ (is : List Instr) (st : St), (∀ i ∈ is, ∀ o ∈ i.operands, res al o = o) →
      execBody w [] is st = execBody w al is st := by
  intro is
  induction is with
  | nil => intro st _; rfl
  | cons i is ih =>
    intro st h
    simp only [execBody]
    rw [execInstr_congr w i st (ρ := fun v => st.env (res [] v)) (ρ' := fun v => st.env (res al v))
      (fun o ho => by show st.env (res [] o) = st.env (res al o); rw [res_nil, h i (List.mem_cons_self ..) o ho])]
    cases execInstr w (fun v => st.env (res al v)) i st with
    | next st1 => exact ih st1 (fun j hj => h j (List.mem_cons_of_mem _ hj))
    | goto _ _ _ => rfl
    | ret _ _ => rfl
    | trap _ _ => rfl

theorem run_no_alias (w : World) (f : Func)
    (h : ∀ B ∈ f.blocks, B.invalid = false → ∀ i ∈ B.instrs, ∀ o ∈ i.operands, res f.alias o = o)
    (args : List Nat) (fuel : Nat) : run w { f with alias := [] } args fuel = run w f args fuel := by
  simp only [run]
  have hentry : ({ f with alias := [] } : Func).entry = f.entry := rfl
  rw [hentry]
  generalize f.entry = b
  generalize St.init = st
  induction fuel generalizing b args st with
  | zero => rfl
  | succ n ih =>
    simp only [runFrom]
    have hfb : ({ f with alias := [] } : Func).findBlock b = f.findBlock b := rfl
    rw [hfb]
    cases hT : f.findBlock b with
    | none => rfl
    | some T =>
      obtain ⟨hTm, _, hTv⟩ := findBlock_mem hT
      simp only []
      split
      · rfl
      · rw [execBody_no_alias w f.alias T.instrs _ (h T hTm hTv)]
        cases execBody w f.alias T.instrs _ with
        | none => rfl
        | some c =>
          cases c with
          | next _ => rfl
          | goto b' args' st' => exact ih args' b' st'
          | ret _ _ => rfl
          | trap _ _ => rfl

/-- after dead-code elimination every operand is resolved: the function means the same without the table -/
theorem dceWith_no_alias (w : World) (tbl : Opcode → Eff) (f : Func) (hnf : AliasNF f.alias)
    (args : List Nat) (fuel : Nat) :
    run w { dceWith tbl f with alias := [] } args fuel = run w (dceWith tbl f) args fuel := by
  apply run_no_alias
  intro B' hB' hBv i hi o ho
  simp only [dceWith] at hB'
  obtain ⟨B, hB, hBB⟩ := List.mem_map.mp hB'
  by_cases hinv : B.invalid = true
  · simp only [hinv, if_true] at hBB
    subst hBB
    rw [hinv] at hBv; cases hBv
  · simp only [hinv, if_false] at hBB
    subst hBB
    obtain ⟨j, _, hji⟩ := List.mem_map.mp hi
    subst hji
    rw [mapOperands_operands] at ho
    obtain ⟨o', _, ho'⟩ := List.mem_map.mp ho
    subst ho'
    exact res_idem hnf o'

end Wz.Model.SsaPass
