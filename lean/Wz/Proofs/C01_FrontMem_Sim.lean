/-
C01 / C02 (front end with memory accesses): one source instruction, related in both semantics (`StepOKM`):
the instructions of the base fragment through the lemmas of `C01_Front_Sim`, the loads, the stores, `memory.size`.
-/
import Wz.Proofs.C01_FrontMem_Setup

set_option linter.unusedSimpArgs false
set_option linter.unusedVariables false

namespace Wz.Proofs.FrontMem
open Wz.Spec Wz.Model.SsaPass Wz.Model.FrontendSL Wz.Model.FrontendMem Wz.Proofs.Front

/-! ### the value of a load -/

/-- the value a load of kind `k` produces from the `k.bytes` bytes `raw` (as the specification defines it) -/
def loadVal (k : LoadK) (raw : Nat) : Nat :=
  if k.signed then Wasm.signExt (8 * k.bytes) k.ty.bits raw else raw

theorem signExt_bv (wd bits raw : Nat) (hw : 0 < wd) (hwb : wd ≤ bits) (hr : raw < 2 ^ wd) :
    ((BitVec.ofNat wd raw).signExtend bits).toNat = Wasm.signExt wd bits raw := by
  rw [BitVec.toNat_signExtend]
  simp only [BitVec.toNat_setWidth, BitVec.toNat_ofNat, Wasm.signExt, BitVec.msb_eq_decide, Nat.mod_eq_of_lt hr]
  have hpow : 2 ^ wd ≤ 2 ^ bits := Nat.pow_le_pow_right (by omega) hwb
  have hlt : raw < 2 ^ bits := Nat.lt_of_lt_of_le hr hpow
  rw [Nat.mod_eq_of_lt hlt]
  by_cases hge : raw ≥ 2 ^ (wd - 1)
  · simp only [hge, decide_true, if_true]
    omega
  · simp only [hge, decide_false, if_false]
    simp

theorem ite_lt_of {c : Prop} [Decidable c] {a b n : Nat} (ha : c → a < n) (hb : ¬ c → b < n) :
    (if c then a else b) < n := by
  by_cases h : c
  · rw [if_pos h]; exact ha h
  · rw [if_neg h]; exact hb h

theorem loadVal_lt (k : LoadK) (raw : Nat) (hr : raw < 256 ^ k.bytes) : loadVal k raw < 2 ^ k.ty.bits := by
  cases k <;> simp only [loadVal, LoadK.signed, LoadK.bytes, LoadK.ty, Ty.bits, Wasm.signExt, Bool.false_eq_true,
    if_false, if_true, Nat.reduceMul, Nat.reduceSub, Nat.reducePow] at hr ⊢ <;> first | omega | (apply ite_lt_of <;> intro _ <;> omega)

/-- the SSA instruction of a load computes the specification's value -/
theorem loadInstr_step (w : World) (k : LoadK) (r addr off : Nat) (env : Val → Nat) (mem : Mem)
    (hr : memLoad mem ((env addr + off) % 2 ^ 64) k.bytes < 256 ^ k.bytes) :
    stepM w (loadInstr k r addr off) (mkM env mem) =
      .next (mkM (upd env r (loadVal k (memLoad mem ((env addr + off) % 2 ^ 64) k.bytes))) mem) := by
  have henv : (mkM env mem).env = env := rfl
  have hmem : (mkM env mem).mem = mem := rfl
  generalize hraw : memLoad mem ((env addr + off) % 2 ^ 64) k.bytes = raw at hr
  cases k <;>
    simp only [loadInstr, LoadK.ext?, stepM, execInstr, henv, hmem, LoadK.ty, LoadK.bytes, ExtOp.bytes, Ty.bits] at hraw hr ⊢ <;>
    simp only [Nat.reduceDiv, hraw, mkM_set, loadVal, LoadK.signed, LoadK.bytes, LoadK.ty, Ty.bits, Bool.false_eq_true,
      if_false, if_true, evalExt, ExtOp.signed, ExtOp.bytes, norm, Nat.reduceMul]
  case i32Load => rw [Nat.mod_eq_of_lt (by omega)]
  case i64Load => rw [Nat.mod_eq_of_lt (by omega)]
  case i32Load8S => rw [signExt_bv 8 32 raw (by omega) (by omega) (by omega)]
  case i32Load8U => rw [Nat.mod_eq_of_lt (a := raw) (by omega), Nat.mod_eq_of_lt (by omega)]
  case i32Load16S => rw [signExt_bv 16 32 raw (by omega) (by omega) (by omega)]
  case i32Load16U => rw [Nat.mod_eq_of_lt (a := raw) (by omega), Nat.mod_eq_of_lt (by omega)]
  case i64Load8S => rw [signExt_bv 8 64 raw (by omega) (by omega) (by omega)]
  case i64Load8U => rw [Nat.mod_eq_of_lt (a := raw) (by omega), Nat.mod_eq_of_lt (by omega)]
  case i64Load16S => rw [signExt_bv 16 64 raw (by omega) (by omega) (by omega)]
  case i64Load16U => rw [Nat.mod_eq_of_lt (a := raw) (by omega), Nat.mod_eq_of_lt (by omega)]
  case i64Load32S => rw [signExt_bv 32 64 raw (by omega) (by omega) (by omega)]
  case i64Load32U => rw [Nat.mod_eq_of_lt (a := raw) (by omega), Nat.mod_eq_of_lt (by omega)]

theorem loadInstr_acc (k : LoadK) (r addr off : Nat) (env : Val → Nat) :
    instrAcc env (loadInstr k r addr off) = [⟨false, (env addr + off) % 2 ^ 64, k.bytes⟩] := by
  cases k <;> rfl

theorem storeOp_bytes (k : StoreK) : k.op.bytes k.ty = k.bytes := by cases k <;> rfl

theorem loadK_bytes_pos (k : LoadK) : 1 ≤ k.bytes ∧ k.bytes ≤ 8 := by cases k <;> simp [LoadK.bytes]
theorem storeK_bytes_pos (k : StoreK) : 1 ≤ k.bytes ∧ k.bytes ≤ 8 := by cases k <;> simp [StoreK.bytes]

theorem toVT_bits (t : Ty) : (Ty.toVT t).bits = t.bits := by cases t <;> rfl

/-! ### the embedding under loads and stores -/

theorem emb_load {mc base : Nat} {bytes : ByteArray} {mem : Mem} (h : Emb mc base bytes mem) (ea n : Nat)
    (hin : ea + n ≤ bytes.size) : memLoad mem (base + ea) n = Wasm.readLE bytes ea n :=
  memLoad_eq_readLE mem bytes n (base + ea) ea (fun i hi => by
    rw [Nat.add_assoc]; exact h.data (ea + i) (by omega))

theorem emb_store {mc base : Nat} {bytes : ByteArray} {mem : Mem} (h : Emb mc base bytes mem) (ea n v : Nat)
    (hin : ea + n ≤ bytes.size) :
    Emb mc base (Wasm.writeLE bytes ea n (v % 2 ^ (8 * n))) (memStore mem (base + ea) v n) := by
  obtain ⟨hbw, hlw, hdata, hdis, hmc, hbr, hlr⟩ := h
  have hsz := writeLE_size bytes ea (v % 2 ^ (8 * n)) n
  simp only [offMemBase, offMemLen] at hbw hlw hdis ⊢
  refine ⟨?_, ?_, ?_, ?_, hmc, hbr, by rw [hsz]; exact hlr⟩
  · intro i hi
    rw [memRead_memStore, if_neg (by simp only [offMemBase]; omega)]
    exact hbw i hi
  · intro i hi
    rw [memRead_memStore, if_neg (by simp only [offMemLen]; omega), hsz]
    exact hlw i hi
  · intro i hi
    rw [hsz] at hi
    rw [memRead_memStore, writeLE_get bytes ea _ n hin]
    by_cases hr : ea ≤ i ∧ i < ea + n
    · rw [if_pos (by omega), if_pos hr, show base + i - (base + ea) = i - ea by omega,
        byte_mod v n (i - ea) (by omega)]
      simp only [UInt8.toNat_ofNat']
      omega
    · rw [if_neg (by omega), if_neg hr]
      exact hdata i hi
  · rw [hsz]; simp only [offMemBase]; exact hdis

theorem MInv.store {mc base : Nat} {bytes bytes' : ByteArray} {s : MS} {env : Val → Nat} {mem mem' : Mem}
    (h : MInv mc base bytes s env mem) (hemb : Emb mc base bytes' mem') (hsz : bytes'.size = bytes.size) :
    MInv mc base bytes' s env mem' := by
  obtain ⟨_, hctx, hge, hmb, hml, hbnd⟩ := h
  exact ⟨hemb, hctx, hge, hmb, by rw [hsz]; exact hml, by rw [hsz]; exact hbnd⟩

theorem evalBin_ushr32 (x : Nat) (hx : x < 2 ^ 32) : evalBin .ushr .i32 x pageBits = x / Wasm.pageSize := by
  show ((BitVec.ofNat 32 x) >>> (16 % 32)).toNat = x / 65536
  rw [BitVec.toNat_ushiftRight, BitVec.toNat_ofNat, Nat.mod_eq_of_lt hx, Nat.shiftRight_eq_div_pow]

/-! ### one instruction -/

/-- the outcome of one instruction of the fragment, related in both semantics; `st.mem` is the linear memory of the
reference semantics, `mem` the SSA model's flat memory -/
def StepOKM (w : World) (m : Wasm.Module) (lt : List Ty) (mc base : Nat) (i : MI) (s : MS) (tys' : List Ty)
    (stack : List Nat) (locals : Array Nat) (env : Val → Nat) (st : Wasm.Store) (mem : Mem) (n : Nat) : Prop :=
  (∃ stack' locals' env' bytes' mem' log',
      Wasm.execInstr m (n + 1) i.toInstr ⟨stack, locals⟩ st = (.next, ⟨stack', locals'⟩, { st with mem := bytes' }) ∧
      bytes'.size = st.mem.size ∧
      AccOK mc base st.mem.size log' ∧
      (∀ log, runL w (lowerMI i s).1 (mkM env mem) log = .inr (mkM env' mem', log ++ log')) ∧
      Inv lt (lowerMI i s).2.ls tys' stack' locals' env' ∧
      MInv mc base bytes' (lowerMI i s).2 env' mem') ∨
  (∃ code fr' env' log',
      Wasm.execInstr m (n + 1) i.toInstr ⟨stack, locals⟩ st = (.trap (trapKindM code), fr', st) ∧
      AccOK mc base st.mem.size log' ∧
      (∀ log, runL w (lowerMI i s).1 (mkM env mem) log = .inl (.trap code (mkM env' mem), log ++ log')) ∧
      (code = codeMemOOB ∨ code = codeDivByZero ∨ code = codeOverflow))

variable {w : World} {m : Wasm.Module} {lt : List Ty} {mc base : Nat} {s : MS} {tys tys' : List Ty}
  {stack : List Nat} {locals : Array Nat} {env : Val → Nat} {st : Wasm.Store} {mem : Mem} {n : Nat}

theorem stepM_base (i : SI) (hi : i ≠ .ret) (hinv : Inv lt s.ls tys stack locals env)
    (hm : MInv mc base st.mem s env mem) (htc : tcStep lt i tys = some tys') :
    StepOKM w m lt mc base (.base i) s tys' stack locals env st mem n := by
  have hpure := lowerI_pure i s.ls
  have hmk : ∀ e : Val → Nat, ({ mk e with mem := mem } : St) = mkM e mem := fun _ => rfl
  rcases sim_step (w := w) (m := m) i hi st n hinv htc with
    ⟨stack', locals', env', hsp, hss, hinv'⟩ | ⟨code, fr', hsp, hss, hcode⟩
  · have hpre := pre_of_next hss
    refine .inl ⟨stack', locals', env', st.mem, mem, [], hsp, rfl, AccOK.nil, ?_, hinv', ?_⟩
    · intro log
      have := runL_pure w (lowerI i s.ls).1 hpure (mk env) mem log
      rw [hpre, hmk] at this
      simp only [lowerMI, this, List.append_nil]
      rfl
    · have hfr := execPre_frame w s.ls.next (lowerI i s.ls).1 (mk env) (mk env') (lowerI_results i s.ls) hpre
      exact hm.frame rfl rfl rfl (lowerI_next i s.ls) hfr
  · have hpre := pre_of_trap hss
    refine .inr ⟨code, fr', env, [], ?_, AccOK.nil, ?_, .inr hcode⟩
    · have : trapKindM code = trapKind code := by
        rcases hcode with rfl | rfl <;> decide
      rw [this]; exact hsp
    · intro log
      have := runL_pure w (lowerI i s.ls).1 hpure (mk env) mem log
      rw [hpre, hmk] at this
      simp only [lowerMI, this, List.append_nil]
      rfl

theorem stepM_memSize (hinv : Inv lt s.ls tys stack locals env) (hm : MInv mc base st.mem s env mem)
    (htc : tcStepM lt .memSize tys = some tys') :
    StepOKM w m lt mc base .memSize s tys' stack locals env st mem n := by
  simp only [tcStepM, Option.some.injEq] at htc
  subst htc
  have hge := hm.nextGe
  have hmcR := hm.emb.mcR
  have hlenR := hm.emb.lenR
  have hval : norm .i32 (memLoad mem ((env moduleCtx + offMemLen) % 2 ^ 64) (Ty.i32.bits / 8)) = st.mem.size := by
    rw [hm.ctx, Nat.mod_eq_of_lt (by simp only [offMemLen]; omega)]
    have := memLoad_bytesAt mem 4 (mc + offMemLen) st.mem.size (bytesAt_mono hm.emb.lenWord (by omega))
    have e4 : Ty.i32.bits / 8 = 4 := rfl
    rw [e4, this]
    simp only [norm, Ty.bits]
    have e : (256 : Nat) ^ 4 = 2 ^ 32 := by decide
    rw [e]
    omega
  let e1 := upd env s.ls.next st.mem.size
  let e2 := upd e1 (s.ls.next + 1) pageBits
  let e3 := upd e2 (s.ls.next + 2) (st.mem.size / Wasm.pageSize)
  refine .inl ⟨(st.mem.size / Wasm.pageSize) :: stack, locals, e3, st.mem, mem, [⟨false, mc + offMemLen, 4⟩], ?_, rfl, ?_, ?_, ?_, ?_⟩
  · simp only [MI.toInstr, Wasm.execInstr]
  · intro a ha
    simp only [List.mem_singleton] at ha
    subst ha
    right
    simp [Acc.isCtxRead, offMemLen, offMemBase]
  · intro log
    have h1 : stepM w (.base (.load s.ls.next .i32 moduleCtx offMemLen)) (mkM env mem) = .next (mkM e1 mem) := by
      simp only [stepM, execInstr]
      have : (mkM env mem).env = env := rfl
      have hm' : (mkM env mem).mem = mem := rfl
      rw [this, hm', hval, mkM_set]
    have h2 : stepM w (.base (.iconst (s.ls.next + 1) .i32 pageBits)) (mkM e1 mem) = .next (mkM e2 mem) := by
      simp only [stepM, execInstr, mkM_set]
      rfl
    have h3 : stepM w (.base (.bin .ushr (s.ls.next + 2) .i32 s.ls.next (s.ls.next + 1))) (mkM e2 mem) =
        .next (mkM e3 mem) := by
      simp only [stepM, execInstr, mkM_set]
      have : (mkM e2 mem).env = e2 := rfl
      rw [this]
      have ha : e2 s.ls.next = st.mem.size := by
        show upd (upd env s.ls.next st.mem.size) (s.ls.next + 1) pageBits s.ls.next = _
        rw [upd_ne (by omega), upd_self]
      have hb : e2 (s.ls.next + 1) = pageBits := upd_self
      rw [ha, hb, evalBin_ushr32 _ hlenR]
    simp only [lowerMI]
    rw [runL_cons_next _ _ h1, runL_cons_next _ _ h2, runL_cons_next _ _ h3]
    simp only [runL, instrAcc, List.append_nil]
    have : (mkM env mem).env = env := rfl
    rw [this, hm.ctx, Nat.mod_eq_of_lt (by simp only [offMemLen]; omega)]
    rfl
  · have hlt : st.mem.size / Wasm.pageSize < 2 ^ Ty.i32.bits := by
      simp only [Ty.bits, Wasm.pageSize]; omega
    have i1 := (hinv.updFresh st.mem.size).updFresh pageBits
    have i2 := i1.pushNew .i32 (st.mem.size / Wasm.pageSize) hlt 1 (Nat.le_refl _)
    simpa [lowerMI, Nat.add_assoc] using i2
  · exact hm.frame rfl rfl rfl (by simp only [lowerMI]; omega)
      (fun v hv => by
        show upd (upd (upd env _ _) _ _) _ _ v = env v
        rw [upd_ne (by omega), upd_ne (by omega), upd_ne (by omega)])

theorem stepM_load (k : LoadK) (off : Nat) (hinv : Inv lt s.ls tys stack locals env)
    (hm : MInv mc base st.mem s env mem) (htc : tcStepM lt (.load k off) tys = some tys') :
    StepOKM w m lt mc base (.load k off) s tys' stack locals env st mem n := by
  match tys, htc, hinv with
  | [], h, _ => simp [tcStepM] at h
  | t :: tys0, h, hinv =>
    simp only [tcStepM] at h
    split at h
    · rename_i hcond
      obtain ⟨rfl, hoff⟩ := hcond
      simp only [Option.some.injEq] at h; subst h
      obtain ⟨vb, srest, a, stack', hs1, rfl, hb, haR, hbF, inv1⟩ := hinv.uncons
      simp only [Ty.bits] at haR
      obtain ⟨hk1, hk8⟩ := loadK_bytes_pos k
      have hbaseR := hm.emb.baseR
      -- the front end's state after the pop
      have hpeek : s.ls.peek = (vb, .i32) := by simp only [LS.peek, hs1, List.headD_cons]
      have hpop : s.ls.pop.2 = { s.ls with stack := srest } := by simp only [LS.pop, hs1, List.tail_cons]
      have hm1 : MInv mc base st.mem { s with ls := s.ls.pop.2 } env mem :=
        hm.frame rfl rfl rfl (by rw [hpop]; exact Nat.le_refl _) (fun _ _ => rfl)
      have hset := memOpSetup_ok (w := w) hm1 (b := vb) (a := a) (ceil := off + k.bytes)
        (by rw [hpop]; exact hbF) hb haR (by omega)
      unfold StepOKM
      simp only [lowerMI, hpeek]
      generalize hM : memOpSetup { s with ls := s.ls.pop.2 } vb (off + k.bytes) = M at hset
      by_cases hin : a + (off + k.bytes) ≤ st.mem.size
      · -- in bounds
        obtain ⟨env2, P, haddr, haddrlt⟩ := hset.1 hin
        obtain ⟨log1, hok1, hrun1⟩ := P.run
        have hea : (env2 M.2.1 + off) % 2 ^ 64 = base + (a + off) := by
          rw [haddr, Nat.mod_eq_of_lt (by omega)]; omega
        have hraw : memLoad mem ((env2 M.2.1 + off) % 2 ^ 64) k.bytes = Wasm.readLE st.mem (a + off) k.bytes := by
          rw [hea]; exact emb_load hm.emb (a + off) k.bytes (by omega)
        have hrawlt := readLE_lt st.mem k.bytes (a + off)
        have hstep := loadInstr_step w k M.2.2.ls.next M.2.1 off env2 mem (by rw [hraw]; exact hrawlt)
        rw [hraw] at hstep
        let val := loadVal k (Wasm.readLE st.mem (a + off) k.bytes)
        have hvallt : val < 2 ^ k.ty.bits := loadVal_lt k _ hrawlt
        refine .inl ⟨val :: stack', locals, upd env2 M.2.2.ls.next val, st.mem, mem,
          log1 ++ [⟨false, base + (a + off), k.bytes⟩], ?_, rfl, ?_, ?_, ?_, ?_⟩
        · simp only [MI.toInstr, Wasm.execInstr, Nat.mul_div_cancel_left k.bytes (show 0 < 8 by omega), toVT_bits]
          rw [if_neg (by omega)]
          rfl
        · refine hok1.append ?_
          intro x hx
          simp only [List.mem_singleton] at hx
          subst hx
          left
          simp only [Acc.inside, decide_eq_true_eq]
          omega
        · intro log
          rw [runL_append, hrun1 log]
          simp only
          rw [runL_cons_next [] _ hstep]
          have : (mkM env2 mem).env = env2 := rfl
          rw [this, loadInstr_acc, hea]
          simp only [runL, List.append_assoc]
          rfl
        · have i2 : Inv lt M.2.2.ls tys0 stack' locals env2 :=
            Inv.frame inv1 (by rw [P.stack, hpop]) (by rw [P.locals, hpop]) (by have := P.next; rw [hpop] at this; exact this)
              (fun v hv => P.frame v (by rw [hpop]; exact hv))
          have := i2.pushNew k.ty val hvallt 1 (Nat.le_refl _)
          simpa [LS.pushNew] using this
        · exact P.inv.frame rfl rfl rfl (by simp only [LS.pushNew]; omega) (fun v hv => upd_ne (by omega))
      · -- out of bounds
        obtain ⟨env2, log1, hok1, hrun1⟩ := hset.2 (by omega)
        refine .inr ⟨codeMemOOB, ⟨a :: stack', locals⟩, env2, log1, ?_, hok1, ?_, .inl rfl⟩
        · simp only [MI.toInstr, Wasm.execInstr, Nat.mul_div_cancel_left k.bytes (show 0 < 8 by omega)]
          rw [if_pos (by omega)]
          rfl
        · intro log
          rw [runL_append, hrun1 log]
    · cases h

theorem stepM_store (k : StoreK) (off : Nat) (hinv : Inv lt s.ls tys stack locals env)
    (hm : MInv mc base st.mem s env mem) (htc : tcStepM lt (.store k off) tys = some tys') :
    StepOKM w m lt mc base (.store k off) s tys' stack locals env st mem n := by
  match tys, htc, hinv with
  | [], h, _ => simp [tcStepM] at h
  | [_], h, _ => simp [tcStepM] at h
  | tv :: ta :: tys0, h, hinv =>
    simp only [tcStepM] at h
    split at h
    · rename_i hcond
      obtain ⟨rfl, rfl, hoff⟩ := hcond
      simp only [Option.some.injEq] at h; subst h
      obtain ⟨vv, srest1, x, stack1, hs1, rfl, hv, hxR, hvF, inv1⟩ := hinv.uncons
      obtain ⟨vb, srest, a, stack', hs2, rfl, hb, haR, hbF, inv2⟩ := inv1.uncons
      simp only at hs2 hbF inv2
      simp only [Ty.bits] at haR
      obtain ⟨hk1, hk8⟩ := storeK_bytes_pos k
      have hbaseR := hm.emb.baseR
      have hpeek : s.ls.peek = (vv, k.ty) := by simp only [LS.peek, hs1, List.headD_cons]
      have hpeek2 : s.ls.pop.2.peek = (vb, .i32) := by simp only [LS.peek, LS.pop, hs1, hs2, List.tail_cons, List.headD_cons]
      have hpop : s.ls.pop.2.pop.2 = { s.ls with stack := srest } := by
        simp only [LS.pop, hs1, hs2, List.tail_cons]
      have hm1 : MInv mc base st.mem { s with ls := s.ls.pop.2.pop.2 } env mem :=
        hm.frame rfl rfl rfl (by rw [hpop]; exact Nat.le_refl _) (fun _ _ => rfl)
      have hset := memOpSetup_ok (w := w) hm1 (b := vb) (a := a) (ceil := off + k.bytes)
        (by rw [hpop]; exact hbF) hb haR (by omega)
      unfold StepOKM
      simp only [lowerMI, hpeek, hpeek2]
      generalize hM : memOpSetup { s with ls := s.ls.pop.2.pop.2 } vb (off + k.bytes) = M at hset
      by_cases hin : a + (off + k.bytes) ≤ st.mem.size
      · obtain ⟨env2, P, haddr, haddrlt⟩ := hset.1 hin
        obtain ⟨log1, hok1, hrun1⟩ := P.run
        have hea : (env2 M.2.1 + off) % 2 ^ 64 = base + (a + off) := by
          rw [haddr, Nat.mod_eq_of_lt (by omega)]; omega
        have hv2 : env2 vv = x := by rw [P.frame vv (by rw [hpop]; exact hvF)]; exact hv
        have hemb' := emb_store hm.emb (a + off) k.bytes x (by omega)
        have hsz := writeLE_size st.mem (a + off) (x % 2 ^ (8 * k.bytes)) k.bytes
        have hstep : stepM w (.base (.store k.op k.ty vv M.2.1 off)) (mkM env2 mem) =
            .next (mkM env2 (memStore mem (base + (a + off)) x k.bytes)) := by
          simp only [stepM, execInstr]
          have : (mkM env2 mem).env = env2 := rfl
          rw [this, hea, hv2, storeOp_bytes]
          rfl
        refine .inl ⟨stack', locals, env2, Wasm.writeLE st.mem (a + off) k.bytes (x % 2 ^ (8 * k.bytes)),
          memStore mem (base + (a + off)) x k.bytes, log1 ++ [⟨true, base + (a + off), k.bytes⟩], ?_, hsz, ?_, ?_, ?_, ?_⟩
        · simp only [MI.toInstr, Wasm.execInstr, Nat.mul_div_cancel_left k.bytes (show 0 < 8 by omega)]
          rw [if_neg (by omega)]
        · refine hok1.append ?_
          intro y hy
          simp only [List.mem_singleton] at hy
          subst hy
          left
          simp only [Acc.inside, decide_eq_true_eq]
          omega
        · intro log
          rw [runL_append, hrun1 log]
          simp only
          rw [runL_cons_next [] _ hstep]
          have : (mkM env2 mem).env = env2 := rfl
          simp only [runL, instrAcc, this, hea, storeOp_bytes, List.append_assoc]
        · exact Inv.frame inv2 (by rw [P.stack, hpop]) (by rw [P.locals, hpop])
            (by have := P.next; rw [hpop] at this; exact this) (fun v hv => P.frame v (by rw [hpop]; exact hv))
        · exact P.inv.store hemb' hsz
      · obtain ⟨env2, log1, hok1, hrun1⟩ := hset.2 (by omega)
        refine .inr ⟨codeMemOOB, ⟨x :: a :: stack', locals⟩, env2, log1, ?_, hok1, ?_, .inl rfl⟩
        · simp only [MI.toInstr, Wasm.execInstr, Nat.mul_div_cancel_left k.bytes (show 0 < 8 by omega)]
          rw [if_pos (by omega)]
          rfl
        · intro log
          rw [runL_append, hrun1 log]
    · cases h

theorem sim_stepM (i : MI) (hi : i ≠ .base .ret) (hinv : Inv lt s.ls tys stack locals env)
    (hm : MInv mc base st.mem s env mem) (htc : tcStepM lt i tys = some tys') :
    StepOKM w m lt mc base i s tys' stack locals env st mem n := by
  cases i with
  | base j => exact stepM_base j (fun h => hi (by rw [h])) hinv hm htc
  | load k off => exact stepM_load k off hinv hm htc
  | store k off => exact stepM_store k off hinv hm htc
  | memSize => exact stepM_memSize hinv hm htc

end Wz.Proofs.FrontMem
