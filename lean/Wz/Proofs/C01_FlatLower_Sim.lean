/-
C01 (lowering), the simulation: for every instruction / body of the fragment, every structured fuel `n`, every
typing context, frame stack and placement of the lowered code in the operation list, the outcome of
`Wz.Spec.Wasm.execInstr` / `execSeq` is matched by a run of the flat machine (`Sim`): `next` reaches the end of
the code with the related stack, `br l` / `return` reach the resolved label with the stack the drop range leaves,
a trap traps, and an exhausted run lets the machine make at least `n - weight` steps.  `sim_all` is the induction
on the fuel.
-/
import Wz.Proofs.C01_FlatLower_Basic
import Wz.Proofs.C01_FlatLower_Num
import Wz.Proofs.C01_FlatLower_Static

namespace Wz.Proofs.FlatLower
open Wz.Spec Wz.Spec.Wasm Wz.Model.FlatLower

/-- static data of one function -/
structure Env where
  sym : List SymOp
  lt : List Ty           -- types of parameters and locals
  results : List Ty      -- result types, top first
  m : Module
  nodup : (labelsOf sym).Nodup

abbrev Env.code (E : Env) : List FlatOp := resolve E.sym

/-- the flat stack: operands on top of the locals (local 0 at the bottom) -/
def flat (stack : List Nat) (locs : Array Nat) : List Nat := stack ++ locs.toList.reverse

theorem flat_pick {stack : List Nat} {locs : Array Nat} {i : Nat} (hi : i < locs.size) :
    (flat stack locs)[stack.length + (locs.size - 1 - i)]? = some locs[i]! := by
  unfold flat
  rw [List.getElem?_append_right (by omega)]
  simp only [Nat.add_sub_cancel_left]
  rw [List.getElem?_reverse (by simp; omega)]
  simp
  have : locs.size - 1 - (locs.size - 1 - i) = i := by omega
  rw [this]
  simp [getElem!_pos, hi]

theorem list_reverse_set {α} (l : List α) (i : Nat) (v : α) (hi : i < l.length) :
    (l.set i v).reverse = l.reverse.set (l.length - 1 - i) v := by
  apply List.ext_getElem?
  intro j
  by_cases hj : j < l.length
  · rw [List.getElem?_reverse (by simpa using hj)]
    simp only [List.length_set]
    rw [List.getElem?_set, List.getElem?_set]
    by_cases hij : i = l.length - 1 - j
    · have : l.length - 1 - i = j := by omega
      rw [if_pos hij, if_pos this, if_pos hi, if_pos (by simp; omega)]
    · have : ¬ l.length - 1 - i = j := by omega
      rw [if_neg hij, if_neg this, List.getElem?_reverse (by simpa using hj)]
  · simp at hj
    rw [List.getElem?_eq_none (by simpa using hj), List.getElem?_eq_none (by simpa using hj)]

theorem flat_set {stack : List Nat} {locs : Array Nat} {i v : Nat} (hi : i < locs.size) :
    (flat stack locs).set (stack.length + (locs.size - 1 - i)) v = flat stack (locs.set! i v) := by
  unfold flat
  rw [List.set_append_right _ _ (by omega)]
  simp only [Nat.add_sub_cancel_left]
  congr 1
  simp only [Array.set!_eq_setIfInBounds, Array.toList_setIfInBounds]
  rw [list_reverse_set _ _ _ (by simpa using hi)]
  simp


def LocsOK (E : Env) (locs : Array Nat) : Prop := ValsOK E.lt locs.toList

structure Inv (E : Env) (C : Ctx) (fs : List Fr) (base : List Nat) : Prop where
  locals : C.locals = E.lt
  results : C.results = E.results
  len : fs.length = C.labels.length
  arity : ∀ (l : Nat) (F : Fr) (ts : List Ty), fs[l]? = some F → C.labels[l]? = some ts → ts.length = brArity F
  orig : ∀ F, F ∈ fs → F.orig ≤ E.lt.length + base.length
  last : ∃ F, fs.getLast? = some F ∧ F.kind = .func ∧ F.orig = 0 ∧ F.res = E.results.length

mutual
def weightI : FI → Nat
  | .block _ b => weightS b + 1
  | .loop _ b => weightS b + 1
  | .ite _ t e => weightS t + weightS e + 2
  | _ => 0
def weightS : List FI → Nat
  | [] => 0
  | i :: rest => weightI i + weightS rest + 1
end

def Sim (E : Env) (C : Ctx) (fs : List Fr) (base : List Nat) (res : Option (List Ty)) (tg : Nat → Bool)
    (budget : Nat) (S0 : Cfg) (pcEnd : Nat) : Ctl × Frame × Store → Prop
  | (.next, fr', _) => ∃ st' vs', res = some st' ∧ fr'.stack = vs' ++ base ∧ ValsOK st' vs' ∧ LocsOK E fr'.locals ∧
      ∃ k, Reach E.code k S0 (pcEnd, flat fr'.stack fr'.locals)
  | (.br l, fr', _) => ∃ F ts Y, fs[l]? = some F ∧ C.labels[l]? = some ts ∧ fr'.stack = Y ++ base ∧
      (∃ rs X, Y = rs ++ X ∧ ValsOK ts rs) ∧ LocsOK E fr'.locals ∧ tg l = true ∧
      ∃ k, Reach E.code (k + 1) S0 (resolveT E.sym F.label, keepTop (brArity F) F.orig (flat fr'.stack fr'.locals))
  | (.ret, fr', _) => ∃ Y, fr'.stack = Y ++ base ∧ (∃ rs X, Y = rs ++ X ∧ ValsOK E.results rs) ∧
      LocsOK E fr'.locals ∧
      ∃ k, Reach E.code (k + 1) S0 (retAddr, keepTop E.results.length 0 (flat fr'.stack fr'.locals))
  | (.trap kd, _, _) => TrapsAt E.code S0 kd
  | (.exhausted, _, _) => RunsFor E.code budget S0

def PSeq (E : Env) (n : Nat) : Prop :=
  ∀ C fs base st vs locs (is : List FI) next pc res s0 h,
    Inv E C fs base → checkS C st is = some res → ValsOK st vs → LocsOK E locs →
    h = E.lt.length + base.length + st.length →
    At E.sym pc (lowerS fs h next is).ops →
    Sim E C fs base res (targetsS · is) (n - weightS is) (pc, flat (vs ++ base) locs)
      (pc + (lowerS fs h next is).ops.length)
      (execSeq E.m n (toInstrs is) ⟨vs ++ base, locs⟩ s0)

theorem execInstr_zero {m i fr st} : execInstr m 0 i fr st = (.exhausted, fr, st) := by
  unfold execInstr; rfl

/-- fetch the operation at a placed position -/
theorem Env.fetch (E : Env) {pc o rest} (h : At E.sym pc (o :: rest)) :
    E.code[pc]? = some (Op.mapT (resolveT E.sym) o) := resolve_get h.get


def PI (E : Env) (n : Nat) (i : FI) : Prop :=
  ∀ C fs base st vs locs next pc res s0 h,
    Inv E C fs base → checkI C st i = some res → ValsOK st vs → LocsOK E locs →
    h = E.lt.length + base.length + st.length →
    At E.sym pc (lowerI fs h next i).ops →
    Sim E C fs base res (targetsI · i) (n - weightI i) (pc, flat (vs ++ base) locs)
      (pc + (lowerI fs h next i).ops.length)
      (execInstr E.m n i.toInstr ⟨vs ++ base, locs⟩ s0)

theorem flat_cons (v : Nat) (s : List Nat) (locs : Array Nat) : flat (v :: s) locs = v :: flat s locs := rfl

theorem sim_const (E : Env) (n : Nat) (t : Ty) (v : Nat) : PI E n (.const t v) := by
  intro C fs base st vs locs next pc res s0 h hinv hc hvs hlocs hh hat
  subst hh
  cases n with
  | zero => rw [execInstr_zero]; exact RunsFor.zero
  | succ n =>
    simp only [checkI] at hc
    simp only [lowerI] at hat ⊢
    simp only [FI.toInstr, execInstr, Sim]
    cases hc
    exact ⟨_, v % 2 ^ t.bits :: vs, rfl, rfl, ⟨Nat.mod_lt _ (Nat.pow_pos (by decide)), hvs⟩, hlocs, 1,
      Reach.one (E.fetch hat) rfl⟩

theorem sim_num1 (E : Env) (n : Nat) (name : String) : PI E n (.num1 name) := by
  intro C fs base st vs locs next pc res s0 h hinv hc hvs hlocs hh hat
  subst hh
  cases n with
  | zero => rw [execInstr_zero]; exact RunsFor.zero
  | succ n =>
    simp only [checkI] at hc
    simp only [lowerI] at hat ⊢
    split at hc
    · rename_i a r x s hsig
      split at hc
      · rename_i hxa
        cases hc
        obtain ⟨v0, vs', rfl, hv0, hvs'⟩ := hvs.cons_left
        cases hsc : Num.scalar name [v0] with
        | none =>
          simp only [FI.toInstr, execInstr, List.cons_append, hsc, Sim]
          exact ⟨0, pc, _, _, Reach.refl _, E.fetch hat, by simp [Op.mapT, step, flat_cons, numStep, hsc]⟩
        | some rr =>
          cases hr : numResult rr with
          | error kd =>
            simp only [FI.toInstr, execInstr, List.cons_append, hsc, hr, Sim]
            exact ⟨0, pc, _, _, Reach.refl _, E.fetch hat, by simp [Op.mapT, step, flat_cons, numStep, hsc, hr]⟩
          | ok w =>
            simp only [FI.toInstr, execInstr, List.cons_append, hsc, hr, Sim]
            refine ⟨_, w :: vs', rfl, rfl, ⟨sig1_range hsig hsc hr, hvs'⟩, hlocs, 1, ?_⟩
            exact Reach.one (E.fetch hat) (by simp [Op.mapT, step, flat_cons, numStep, hsc, hr])
      · cases hc
    · cases hc

theorem sim_num2 (E : Env) (n : Nat) (name : String) : PI E n (.num2 name) := by
  intro C fs base st vs locs next pc res s0 h hinv hc hvs hlocs hh hat
  subst hh
  cases n with
  | zero => rw [execInstr_zero]; exact RunsFor.zero
  | succ n =>
    simp only [checkI] at hc
    simp only [lowerI] at hat ⊢
    split at hc
    · rename_i a r x y s hsig
      split at hc
      · rename_i hxa
        cases hc
        obtain ⟨v1, vs1, rfl, hv1, hvs1⟩ := hvs.cons_left
        obtain ⟨v0, vs', rfl, hv0, hvs'⟩ := hvs1.cons_left
        cases hsc : Num.scalar name [v0, v1] with
        | none =>
          simp only [FI.toInstr, execInstr, List.cons_append, hsc, Sim]
          exact ⟨0, pc, _, _, Reach.refl _, E.fetch hat, by simp [Op.mapT, step, flat_cons, numStep, hsc]⟩
        | some rr =>
          cases hr : numResult rr with
          | error kd =>
            simp only [FI.toInstr, execInstr, List.cons_append, hsc, hr, Sim]
            exact ⟨0, pc, _, _, Reach.refl _, E.fetch hat, by simp [Op.mapT, step, flat_cons, numStep, hsc, hr]⟩
          | ok w =>
            simp only [FI.toInstr, execInstr, List.cons_append, hsc, hr, Sim]
            refine ⟨_, w :: vs', rfl, rfl, ⟨sig2_range hsig hsc hr, hvs'⟩, hlocs, 1, ?_⟩
            exact Reach.one (E.fetch hat) (by simp [Op.mapT, step, flat_cons, numStep, hsc, hr])
      · cases hc
    · cases hc

theorem LocsOK.size {E : Env} {locs : Array Nat} (h : LocsOK E locs) : locs.size = E.lt.length := by
  have := ValsOK.length h; simpa using this

theorem sim_localGet (E : Env) (n : Nat) (i : Nat) : PI E n (.localGet i) := by
  intro C fs base st vs locs next pc res s0 h hinv hc hvs hlocs hh hat
  subst hh
  cases n with
  | zero => rw [execInstr_zero]; exact RunsFor.zero
  | succ n =>
    simp only [checkI, hinv.locals] at hc
    simp only [lowerI] at hat ⊢
    split at hc
    · rename_i t ht
      cases hc
      obtain ⟨v, hv, hvt⟩ := ValsOK.get hlocs ht
      have hi : i < locs.size := by
        have := (List.getElem?_eq_some_iff.mp hv).1; simpa using this
      have hval : locs[i]! = v := by
        rw [getElem!_pos locs i hi]
        have := (List.getElem?_eq_some_iff.mp hv).2; simpa using this
      simp only [FI.toInstr, execInstr, Sim]
      refine ⟨_, locs[i]! :: vs, rfl, rfl, ⟨by rw [hval]; exact hvt, hvs⟩, hlocs, 1, ?_⟩
      refine Reach.one (E.fetch hat) ?_
      have hsz := hlocs.size
      have hlen := hvs.length
      have hidx : E.lt.length + base.length + st.length - 1 - i = (vs ++ base).length + (locs.size - 1 - i) := by
        simp; omega
      simp only [Op.mapT, step, hidx, flat_pick hi]
      rfl
    · cases hc

theorem LocsOK.set {E : Env} {locs : Array Nat} {i : Nat} {t : Ty} {v : Nat} (h : LocsOK E locs)
    (ht : E.lt[i]? = some t) (hv : v < 2 ^ t.bits) : LocsOK E (locs.set! i v) := by
  unfold LocsOK
  simp only [Array.set!_eq_setIfInBounds, Array.toList_setIfInBounds]
  exact ValsOK.set h ht hv

theorem sim_localSet (E : Env) (n : Nat) (i : Nat) : PI E n (.localSet i) := by
  intro C fs base st vs locs next pc res s0 h hinv hc hvs hlocs hh hat
  subst hh
  cases n with
  | zero => rw [execInstr_zero]; exact RunsFor.zero
  | succ n =>
    simp only [checkI, hinv.locals] at hc
    simp only [lowerI] at hat ⊢
    split at hc
    · rename_i t x s ht
      split at hc
      · rename_i hxt
        cases hc
        subst hxt
        obtain ⟨v, vs', rfl, hv, hvs'⟩ := hvs.cons_left
        obtain ⟨w, hw, _⟩ := ValsOK.get hlocs ht
        have hi : i < locs.size := by
          have := (List.getElem?_eq_some_iff.mp hw).1; simpa using this
        simp only [FI.toInstr, execInstr, List.cons_append, Sim]
        refine ⟨_, vs', rfl, rfl, hvs', hlocs.set ht hv, 1, ?_⟩
        refine Reach.one (E.fetch hat) ?_
        have hsz := hlocs.size
        have hlen := hvs'.length
        have hidx : E.lt.length + base.length + (s.length + 1) - 1 - i - 1 = (vs' ++ base).length + (locs.size - 1 - i) := by
          simp; omega
        have hd : ¬ (E.lt.length + base.length + (s.length + 1) - 1 - i = 0) := by omega
        have hlt : (vs' ++ base).length + (locs.size - 1 - i) < (flat (vs' ++ base) locs).length := by
          simp [flat]; omega
        simp only [Op.mapT, step, flat_cons, List.length_cons, hd, if_false, hidx, hlt, if_true, flat_set hi,
          List.length_nil, Nat.zero_add]
      · cases hc
    · cases hc

theorem sim_localTee (E : Env) (n : Nat) (i : Nat) : PI E n (.localTee i) := by
  intro C fs base st vs locs next pc res s0 h hinv hc hvs hlocs hh hat
  subst hh
  cases n with
  | zero => rw [execInstr_zero]; exact RunsFor.zero
  | succ n =>
    simp only [checkI, hinv.locals] at hc
    simp only [lowerI] at hat ⊢
    split at hc
    · rename_i t x s ht
      split at hc
      · rename_i hxt
        cases hc
        subst hxt
        obtain ⟨v, vs', rfl, hv, hvs'⟩ := hvs.cons_left
        obtain ⟨w, hw, _⟩ := ValsOK.get hlocs ht
        have hi : i < locs.size := by
          have := (List.getElem?_eq_some_iff.mp hw).1; simpa using this
        simp only [FI.toInstr, execInstr, List.cons_append, Sim]
        refine ⟨_, v :: vs', rfl, rfl, ⟨hv, hvs'⟩, hlocs.set ht hv, 2, ?_⟩
        have hsz := hlocs.size
        have hlen := hvs'.length
        refine Reach.cons (E.fetch hat) (pc' := pc + 1) (stk' := v :: flat (v :: vs' ++ base) locs) (by simp [Op.mapT, step, flat_cons]) ?_
        refine Reach.one (E.fetch hat.tail) ?_
        have hidx : E.lt.length + base.length + (s.length + 1) - i - 1 = (v :: vs' ++ base).length + (locs.size - 1 - i) := by
          simp; omega
        have hd : ¬ (E.lt.length + base.length + (s.length + 1) - i = 0) := by omega
        have hlt : (v :: vs' ++ base).length + (locs.size - 1 - i) < (flat (v :: vs' ++ base) locs).length := by
          simp [flat]; omega
        simp only [Op.mapT, step, List.length_cons, hd, if_false, hidx, hlt, if_true, flat_set hi, List.length_nil]
        rfl
      · cases hc
    · cases hc

theorem sim_drop (E : Env) (n : Nat) : PI E n .drop := by
  intro C fs base st vs locs next pc res s0 h hinv hc hvs hlocs hh hat
  subst hh
  cases n with
  | zero => rw [execInstr_zero]; exact RunsFor.zero
  | succ n =>
    simp only [checkI] at hc
    simp only [lowerI] at hat ⊢
    split at hc
    · rename_i x s
      cases hc
      obtain ⟨v, vs', rfl, hv, hvs'⟩ := hvs.cons_left
      simp only [FI.toInstr, execInstr, List.cons_append, Sim]
      refine ⟨_, vs', rfl, rfl, hvs', hlocs, 1, ?_⟩
      refine Reach.one (E.fetch hat) ?_
      simp [Op.mapT, step, flat_cons, applyDrop]
    · cases hc

theorem sim_select (E : Env) (n : Nat) : PI E n .select := by
  intro C fs base st vs locs next pc res s0 h hinv hc hvs hlocs hh hat
  subst hh
  cases n with
  | zero => rw [execInstr_zero]; exact RunsFor.zero
  | succ n =>
    simp only [checkI] at hc
    simp only [lowerI] at hat ⊢
    split at hc
    · rename_i c x y s
      split at hc
      · rename_i hcx
        cases hc
        obtain ⟨rfl, rfl⟩ := hcx
        obtain ⟨vc, vs1, rfl, hvc, hvs1⟩ := hvs.cons_left
        obtain ⟨v2, vs2, rfl, hv2, hvs2⟩ := hvs1.cons_left
        obtain ⟨v1, vs', rfl, hv1, hvs'⟩ := hvs2.cons_left
        simp only [FI.toInstr, execInstr, List.cons_append, Sim]
        have hmod : vc % 2 ^ 32 = vc := Nat.mod_eq_of_lt hvc
        refine ⟨_, (if vc % 2 ^ 32 != 0 then v1 else v2) :: vs', rfl, rfl, ⟨?_, hvs'⟩, hlocs, 1, ?_⟩
        · split <;> assumption
        · refine Reach.one (E.fetch hat) ?_
          simp only [Op.mapT, step, flat_cons, hmod]
          by_cases h0 : vc = 0 <;> simp [h0]
      · cases hc
    · cases hc

theorem sim_unreachable (E : Env) (n : Nat) : PI E n .unreachable := by
  intro C fs base st vs locs next pc res s0 h hinv hc hvs hlocs hh hat
  subst hh
  cases n with
  | zero => rw [execInstr_zero]; exact RunsFor.zero
  | succ n =>
    simp only [lowerI] at hat ⊢
    simp only [FI.toInstr, execInstr, Sim]
    exact ⟨0, pc, _, _, Reach.refl _, E.fetch hat, rfl⟩

/-! ### branches -/

theorem Reach.cast' {code k a pc pc' stk} (h : Reach code k a (pc, stk)) (e : pc = pc') : Reach code k a (pc', stk) := e ▸ h

theorem Env.addr (E : Env) {pc l rest} (hat : At E.sym pc (.label l :: rest)) (hk : l.kind ≠ .ret) :
    resolveT E.sym l = pc := resolveT_at E.nodup hat hk

theorem flat_length (S : List Nat) (locs : Array Nat) : (flat S locs).length = S.length + locs.size := by
  simp [flat]

theorem reach_drop_br (E : Env) {pc : Nat} {d : DropR} {L : Label} {stk stk' : List Nat}
    (hat : At E.sym pc (emitDrop d ++ [.br L])) (hd : applyDrop d stk = some stk') :
    ∃ k, Reach E.code (k + 1) (pc, stk) (resolveT E.sym L, stk') := by
  cases d with
  | none =>
    simp only [applyDrop, Option.some.injEq] at hd
    subst hd
    exact ⟨0, Reach.one (E.fetch (by simpa [emitDrop] using hat)) rfl⟩
  | some r =>
    have hat' : At E.sym pc [.drop r, .br L] := by simpa [emitDrop] using hat
    refine ⟨1, Reach.cons (E.fetch hat') (pc' := pc + 1) (stk' := stk') ?_ (Reach.one (E.fetch hat'.tail) rfl)⟩
    simp only [Op.mapT, step, hd]

theorem Inv.frame {E C fs base} (hinv : Inv E C fs base) {l : Nat} {ts : List Ty} (h : C.labels[l]? = some ts) :
    ∃ F, fs[l]? = some F ∧ frameAt fs l = F ∧ ts.length = brArity F ∧ F.orig ≤ E.lt.length + base.length := by
  have hl : l < fs.length := by
    rw [hinv.len]; exact (List.getElem?_eq_some_iff.mp h).1
  refine ⟨fs[l], List.getElem?_eq_getElem hl, ?_, hinv.arity l _ ts (List.getElem?_eq_getElem hl) h,
    hinv.orig _ (List.getElem_mem hl)⟩
  simp [frameAt, List.getD, List.getElem?_eq_getElem hl]

/-- the branch part shared by br / br_if / br_table: the drop range of the target frame applied to the
flat stack -/
theorem drop_target {E : Env} {F : Fr} {ts : List Ty} {S : List Nat} {locs : Array Nat} {base rs X : List Nat}
    (hS : S = rs ++ X ++ base) (hrs : ValsOK ts rs) (har : ts.length = brArity F)
    (horig : F.orig ≤ E.lt.length + base.length) (hlocs : LocsOK E locs) :
    applyDrop (dropRange F false (S.length + E.lt.length)) (flat S locs) =
      some (keepTop (brArity F) F.orig (flat S locs)) := by
  have hlen : (flat S locs).length = S.length + E.lt.length := by rw [flat_length, hlocs.size]
  rw [← hlen]
  apply applyDrop_br
  rw [hlen, hS, ← har, ← hrs.length]
  simp; omega

theorem sim_br (E : Env) (n : Nat) (l : Nat) : PI E n (.br l) := by
  intro C fs base st vs locs next pc res s0 h hinv hc hvs hlocs hh hat
  subst hh
  cases n with
  | zero => rw [execInstr_zero]; exact RunsFor.zero
  | succ n =>
    simp only [checkI] at hc
    simp only [lowerI] at hat ⊢
    split at hc
    · rename_i ts hts
      split at hc
      · rename_i hpre
        cases hc
        obtain ⟨F, hF, hFat, har, horig⟩ := hinv.frame hts
        obtain ⟨rest, rfl⟩ := hasPrefix_iff.mp hpre
        obtain ⟨rs, X, rfl, hrs, hX⟩ := hvs.split
        rw [hFat] at hat
        simp only [FI.toInstr, execInstr, Sim]
        have hd := drop_target (E := E) (F := F) (S := rs ++ X ++ base) (locs := locs) rfl hrs har horig hlocs
        have hheight : E.lt.length + base.length + (ts ++ rest).length = (rs ++ X ++ base).length + E.lt.length := by
          simp [hrs.length, hX.length]; omega
        rw [hheight] at hat
        obtain ⟨k, hk⟩ := reach_drop_br E hat hd
        exact ⟨F, ts, rs ++ X, hF, hts, rfl, ⟨rs, X, rfl, hrs⟩, hlocs, by simp [targetsI], k, hk⟩
      · cases hc
    · cases hc

theorem Inv.funcFrame {E C fs base} (hinv : Inv E C fs base) :
    ∃ F, fs.getLastD ⟨.func, 0, 0, 0⟩ = F ∧ F.label = ⟨.ret, 0⟩ ∧ brArity F = E.results.length ∧ F.orig = 0 := by
  obtain ⟨F, hF, hk, ho, hr⟩ := hinv.last
  refine ⟨F, ?_, ?_, ?_, ho⟩
  · rw [List.getLastD_eq_getLast?, hF]; rfl
  · simp [Fr.label, hk]
  · simp [brArity, hk, hr]

theorem sim_ret (E : Env) (n : Nat) : PI E n .ret := by
  intro C fs base st vs locs next pc res s0 h hinv hc hvs hlocs hh hat
  subst hh
  cases n with
  | zero => rw [execInstr_zero]; exact RunsFor.zero
  | succ n =>
    simp only [checkI] at hc
    simp only [lowerI] at hat ⊢
    split at hc
    · rename_i hpre
      cases hc
      obtain ⟨F, hF, hlab, har, horig⟩ := hinv.funcFrame
      rw [hinv.results] at hpre
      obtain ⟨rest, rfl⟩ := hasPrefix_iff.mp hpre
      obtain ⟨rs, X, rfl, hrs, hX⟩ := hvs.split
      rw [hF] at hat
      simp only [FI.toInstr, execInstr, Sim]
      have hd := drop_target (E := E) (F := F) (S := rs ++ X ++ base) (locs := locs) rfl hrs har.symm (by omega) hlocs
      have hheight : E.lt.length + base.length + (E.results ++ rest).length = (rs ++ X ++ base).length + E.lt.length := by
        simp [hrs.length, hX.length]; omega
      rw [hheight] at hat
      obtain ⟨k, hk⟩ := reach_drop_br E hat hd
      rw [hlab, har, horig] at hk
      exact ⟨rs ++ X, rfl, ⟨rs, X, rfl, hrs⟩, hlocs, k, hk⟩
    · cases hc

theorem sim_brIf (E : Env) (n : Nat) (l : Nat) : PI E n (.brIf l) := by
  intro C fs base st vs locs next pc res s0 h hinv hc hvs hlocs hh hat
  subst hh
  cases n with
  | zero => rw [execInstr_zero]; exact RunsFor.zero
  | succ n =>
    simp only [checkI] at hc
    simp only [lowerI] at hat ⊢
    split at hc
    · rename_i ts c s hts
      split at hc
      · rename_i hpre
        cases hc
        obtain ⟨rfl, hpre⟩ := hpre
        obtain ⟨F, hF, hFat, har, horig⟩ := hinv.frame hts
        obtain ⟨rest, rfl⟩ := hasPrefix_iff.mp hpre
        obtain ⟨vc, vs1, rfl, hvc, hvs1⟩ := hvs.cons_left
        obtain ⟨rs, X, rfl, hrs, hX⟩ := hvs1.split
        rw [hFat] at hat
        have hmod : vc % 2 ^ 32 = vc := Nat.mod_eq_of_lt hvc
        have hheight : E.lt.length + base.length + (Ty.i32 :: (ts ++ rest)).length - 1 = (rs ++ X ++ base).length + E.lt.length := by
          simp [hrs.length, hX.length]; omega
        rw [hheight] at hat
        simp only [FI.toInstr, execInstr, List.cons_append, hmod]
        by_cases h0 : vc = 0
        · subst h0
          simp only [bne_self_eq_false, Bool.false_eq_true, if_false, Sim]
          refine ⟨_, rs ++ X, rfl, rfl, hvs1, hlocs, 2, ?_⟩
          have haddr : resolveT E.sym ⟨.header, next + 1⟩ = pc + 1 := E.addr hat.tail (by simp)
          refine Reach.cons (E.fetch hat) (pc' := pc + 1) (stk' := flat (rs ++ X ++ base) locs) ?_ (Reach.one (E.fetch hat.tail) rfl)
          simp only [Op.mapT, step, flat_cons, haddr]
          simp
        · have hne : (vc != 0) = true := by simpa using h0
          simp only [hne, if_true, Sim]
          have hd := drop_target (E := E) (F := F) (S := rs ++ X ++ base) (locs := locs) rfl hrs har horig hlocs
          refine ⟨F, ts, rs ++ X, hF, hts, rfl, ⟨rs, X, rfl, hrs⟩, hlocs, by simp [targetsI], 0, ?_⟩
          refine Reach.one (E.fetch hat) ?_
          have hpos : vc > 0 := Nat.pos_of_ne_zero h0
          simp only [Op.mapT, step, flat_cons, hpos, if_true, hd]
      · cases hc
    · cases hc

theorem getD_map_snoc {α β} (f : α → β) (ls : List α) (d : α) (c : Nat) :
    (ls.map f ++ [f d]).getD c (f d) = f (ls.getD c d) := by
  induction ls generalizing c with
  | nil => cases c <;> simp [List.getD]
  | cons a ls ih =>
    cases c with
    | zero => simp [List.getD]
    | succ c => simpa [List.getD] using ih c

theorem getD_mem_or {ls : List Nat} {d c : Nat} : ls.getD c d ∈ ls ∨ ls.getD c d = d := by
  by_cases hc : c < ls.length
  · left; simp [List.getD, List.getElem?_eq_getElem hc]
  · right; simp [List.getD, List.getElem?_eq_none (Nat.le_of_not_lt hc)]

theorem sim_brTable (E : Env) (n : Nat) (ls : List Nat) (d : Nat) : PI E n (.brTable ls d) := by
  intro C fs base st vs locs next pc res s0 h hinv hc hvs hlocs hh hat
  subst hh
  cases n with
  | zero => rw [execInstr_zero]; exact RunsFor.zero
  | succ n =>
    simp only [checkI] at hc
    simp only [lowerI] at hat ⊢
    split at hc
    · rename_i ts c s hts
      split at hc
      · rename_i hpre
        cases hc
        obtain ⟨rfl, hpre, hall⟩ := hpre
        obtain ⟨rest, rfl⟩ := hasPrefix_iff.mp hpre
        obtain ⟨vc, vs1, rfl, hvc, hvs1⟩ := hvs.cons_left
        obtain ⟨rs, X, rfl, hrs, hX⟩ := hvs1.split
        have hmod : vc % 2 ^ 32 = vc := Nat.mod_eq_of_lt hvc
        -- the selected label
        have hj : C.labels[ls.getD vc d]? = some ts := by
          rcases getD_mem_or (ls := ls) (d := d) (c := vc) with hm | he
          · have := List.all_eq_true.mp hall _ hm; simpa using this
          · rw [he]; exact hts
        obtain ⟨F, hF, hFat, har, horig⟩ := hinv.frame hj
        have hheight : E.lt.length + base.length + (Ty.i32 :: (ts ++ rest)).length - 1 = (rs ++ X ++ base).length + E.lt.length := by
          simp [hrs.length, hX.length]; omega
        rw [hheight] at hat
        simp only [FI.toInstr, execInstr, List.cons_append, hmod, Sim]
        have hd := drop_target (E := E) (F := F) (S := rs ++ X ++ base) (locs := locs) rfl hrs har horig hlocs
        have htg : targetsI (ls.getD vc d) (.brTable ls d) = true := by
          simp only [targetsI, Bool.or_eq_true, List.contains_iff_mem, beq_iff_eq]
          rcases getD_mem_or (ls := ls) (d := d) (c := vc) with hm | he
          · exact Or.inl hm
          · exact Or.inr he.symm
        refine ⟨F, ts, rs ++ X, hF, hj, rfl, ⟨rs, X, rfl, hrs⟩, hlocs, htg, 0, ?_⟩
        refine Reach.one (E.fetch hat) ?_
        simp only [Op.mapT, step, flat_cons, List.map_append, List.map_map, List.map_cons, List.map_nil]
        simp only [List.getLast?_append, List.getLast?_singleton, Option.some_or]
        have := getD_map_snoc ((fun p : Label × DropR => (resolveT E.sym p.1, p.2)) ∘
          (fun l => ((frameAt fs l).label, dropRange (frameAt fs l) false ((rs ++ X ++ base).length + E.lt.length)))) ls d vc
        simp only [Function.comp] at this ⊢
        rw [this, hFat]
        simp only [hd]
      · cases hc
    · cases hc

/-! ### structured instructions -/

theorem keepTop_flat {E : Env} {S : List Nat} {locs : Array Nat} {a b : Nat} (hlocs : LocsOK E locs)
    (ha : a ≤ S.length) (hb : b ≤ S.length) :
    keepTop a (E.lt.length + b) (flat S locs) = flat (S.take a ++ S.drop (S.length - b)) locs := by
  unfold keepTop
  rw [flat_length, hlocs.size]
  unfold flat
  rw [List.take_append_of_le_length ha, List.append_assoc]
  congr 1
  rw [show S.length + E.lt.length - (E.lt.length + b) = S.length - b by omega]
  rw [List.drop_append_of_le_length (by omega)]

theorem Inv.push {E C fs base} (hinv : Inv E C fs base) (F : Fr) (ts : List Ty) (vs : List Nat)
    (har : ts.length = brArity F) (horig : F.orig = E.lt.length + (vs ++ base).length) :
    Inv E { C with labels := ts :: C.labels } (F :: fs) (vs ++ base) := by
  refine ⟨hinv.locals, hinv.results, by simp [hinv.len], ?_, ?_, ?_⟩
  · intro l F' ts' hF' hts'
    cases l with
    | zero => simp at hF' hts'; subst hF'; subst hts'; exact har
    | succ l => exact hinv.arity l F' ts' (by simpa using hF') (by simpa using hts')
  · intro F' hF'
    rcases List.mem_cons.mp hF' with rfl | hm
    · omega
    · have := hinv.orig F' hm; simp; omega
  · obtain ⟨F0, hF0, h1, h2, h3⟩ := hinv.last
    refine ⟨F0, ?_, h1, h2, h3⟩
    cases fs with
    | nil => simp at hF0
    | cons a fs => simpa using hF0

/-- what `block` does with the outcome of its body (`hgt`: stack height at entry) -/
def catchBlock (ar hgt : Nat) : Ctl × Frame × Store → Ctl × Frame × Store
  | (.br 0, fr', st') =>
    (.next, { fr' with stack := (splitTop fr'.stack ar).1 ++ fr'.stack.drop (fr'.stack.length - hgt) }, st')
  | (.br (n + 1), fr', st') => (.br n, fr', st')
  | r => r

theorem execInstr_block (m : Module) (n ar : Nat) (body : List Instr) (fr : Frame) (st : Store) :
    execInstr m (n + 1) (.block ar body) fr st = catchBlock ar fr.stack.length (execSeq m n body fr st) := by
  simp only [execInstr]
  rcases execSeq m n body fr st with ⟨ctl, fr', s'⟩
  cases ctl with
  | br l => cases l <;> rfl
  | _ => rfl

/-- a block-like frame (block, then-branch, else-branch) catches the outcome of its body -/
theorem sim_catch (E : Env) {C : Ctx} {fs : List Fr} {base : List Nat} {F : Fr} {bt : Option Ty} {vs : List Nat}
    {st : List Ty} {id : Nat} {res' : Option (List Ty)} {tgb tg : Nat → Bool} {budget budget' : Nat} {S0 : Cfg}
    {pcB pcEnd : Nat} {out : Ctl × Frame × Store}
    (hvs : ValsOK st vs) (hF : F.kind ≠ .loop) (hlab : F.label = ⟨.cont, id⟩) (hres : F.res = arity bt)
    (horig : F.orig = E.lt.length + (vs ++ base).length)
    (hend : endOK (btTypes bt) (some res') = true)
    (hbody : Sim E { C with labels := btTypes bt :: C.labels } (F :: fs) (vs ++ base) res' tgb budget S0 pcB out)
    (hnext : res' = some (btTypes bt) → ∀ stk, ∃ k, Reach E.code k (pcB, stk) (pcEnd, stk))
    (hcont : tgb 0 = true → ∀ stk, Reach E.code 1 (resolveT E.sym ⟨.cont, id⟩, stk) (pcEnd, stk))
    (htg : ∀ l, tgb (l + 1) = true → tg l = true) (hbud : budget' ≤ budget) :
    Sim E C fs base (some (btTypes bt ++ st)) tg budget' S0 pcEnd (catchBlock (arity bt) (vs ++ base).length out) := by
  rcases out with ⟨ctl, fr', s'⟩
  cases ctl with
  | next =>
    simp only [Sim, catchBlock] at hbody ⊢
    obtain ⟨st', vs', hr', hstack, hvs', hlocs', k, hk⟩ := hbody
    subst hr'
    simp only [endOK, beq_iff_eq] at hend
    subst hend
    obtain ⟨k2, hk2⟩ := hnext rfl (flat fr'.stack fr'.locals)
    exact ⟨_, vs' ++ vs, rfl, by rw [hstack, List.append_assoc], hvs'.append hvs, hlocs', k + k2, hk.trans hk2⟩
  | br l =>
    simp only [Sim] at hbody
    obtain ⟨F', ts, Y, hF', hts, hstack, ⟨rs, X, rfl, hrs⟩, hlocs', htg0, k, hk⟩ := hbody
    cases l with
    | zero =>
      simp only [List.getElem?_cons_zero, Option.some.injEq] at hF' hts
      subst hF'; subst hts
      have hlen : fr'.stack.length = rs.length + X.length + (vs ++ base).length := by rw [hstack]; simp; omega
      have har : brArity F = arity bt := by simp [brArity, hF, hres]
      have hkt := keepTop_flat (E := E) (S := fr'.stack) (locs := fr'.locals) (a := arity bt)
        (b := (vs ++ base).length) hlocs' (by rw [hlen, hrs.length, btTypes_length]; omega) (by omega)
      rw [hlab, har, horig, hkt] at hk
      have htake : fr'.stack.take (arity bt) = rs := by
        rw [hstack, List.append_assoc, List.take_append_of_le_length (by rw [hrs.length, btTypes_length]; omega)]
        rw [← btTypes_length, ← hrs.length]; simp
      have hdrop : fr'.stack.drop (fr'.stack.length - (vs ++ base).length) = vs ++ base := by
        rw [hlen, hstack, show rs.length + X.length + (vs ++ base).length - (vs ++ base).length = (rs ++ X).length by simp]
        simp
      simp only [catchBlock, splitTop, Sim, htake, hdrop]
      rw [htake, hdrop] at hk
      exact ⟨_, rs ++ vs, rfl, by simp, hrs.append hvs, hlocs', k + 1 + 1, hk.trans (hcont htg0 _)⟩
    | succ l =>
      simp only [List.getElem?_cons_succ] at hF' hts
      simp only [catchBlock, Sim]
      exact ⟨F', ts, rs ++ X ++ vs, hF', hts, by rw [hstack]; simp, ⟨rs, X ++ vs, by simp, hrs⟩, hlocs', htg l htg0, k, hk⟩
  | ret =>
    simp only [Sim, catchBlock] at hbody ⊢
    obtain ⟨Y, hstack, ⟨rs, X, rfl, hrs⟩, hlocs', k, hk⟩ := hbody
    exact ⟨rs ++ X ++ vs, by rw [hstack]; simp, ⟨rs, X ++ vs, by simp, hrs⟩, hlocs', k, hk⟩
  | trap kd => simpa only [Sim, catchBlock] using hbody
  | exhausted =>
    simp only [Sim, catchBlock] at hbody ⊢
    exact hbody.mono hbud

/-- when live code branches to a block, its `end` code ends with the continuation label -/
theorem block_tail (bt : Option Ty) (body : List FI) (id h : Nat) {rh : Option Nat} {res' : Option (List Ty)}
    (hrh : rh = res'.map (fun s => h + s.length)) (hend : endOK (btTypes bt) (some res') = true)
    (htg : targetsS 0 body = true) :
    ∃ pre : List SymOp, blockTail id h bt body rh = pre ++ [Op.label ⟨.cont, id⟩] := by
  cases res' with
  | none => subst hrh; exact ⟨[], rfl⟩
  | some st' =>
    simp only [endOK, beq_iff_eq] at hend
    subst hend
    subst hrh
    refine ⟨[.br ⟨.cont, id⟩], ?_⟩
    have hnop : dropRange ⟨.block, id, h, arity bt⟩ true (h + arity bt) = none := dropRange_end_nop
    simp [blockTail, btTypes_length, hnop, emitDrop, htg]

theorem blockTail_end (bt : Option Ty) (body : List FI) (id h : Nat) :
    blockTail id h bt body (some (h + arity bt)) =
      if targetsS 0 body then [.br ⟨.cont, id⟩, .label ⟨.cont, id⟩] else [] := by
  have hnop : dropRange ⟨.block, id, h, arity bt⟩ true (h + arity bt) = none := dropRange_end_nop
  simp [blockTail, hnop, emitDrop]

theorem sim_block (E : Env) (n : Nat) (bt : Option Ty) (body : List FI) (hS : PSeq E n) : PI E (n + 1) (.block bt body) := by
  intro C fs base st vs locs next pc res s0 h hinv hc hvs hlocs hh hat
  simp only [checkI] at hc
  rw [lowerI_block] at hat ⊢
  split at hc
  · rename_i hend
    cases hc
    have hinv' := hinv.push ⟨.block, next + 1, h, arity bt⟩ (btTypes bt) vs (by simp [brArity, btTypes_length])
      (by simp [hh, hvs.length]; omega)
    have hh' : h = E.lt.length + (vs ++ base).length + ([] : List Ty).length := by simp [hh, hvs.length]; omega
    cases hres : checkS { C with labels := btTypes bt :: C.labels } [] body with
    | none => rw [hres] at hend; simp [endOK] at hend
    | some res' =>
    have ih := hS _ _ _ [] [] locs body (next + 1) pc res' s0 h hinv' hres trivial hlocs hh' hat.left
    have hheight := lowerS_h (C := { C with labels := btTypes bt :: C.labels })
      (⟨.block, next + 1, h, arity bt⟩ :: fs) h body [] (next + 1) res' hres
    simp only [List.length_nil, Nat.add_zero] at hheight
    simp only [List.nil_append] at ih
    generalize lowerS (⟨.block, next + 1, h, arity bt⟩ :: fs) h (next + 1) body = r at hat ih hheight ⊢
    simp only [FI.toInstr, execInstr_block]
    rw [hres] at hend
    refine sim_catch E (F := ⟨.block, next + 1, h, arity bt⟩) (id := next + 1) hvs (by simp) rfl rfl
      (by simpa using hh') hend ih ?_ ?_ (fun l hl => by simpa [targetsI] using hl) (by simp [weightI])
    · intro hr' stk
      subst hr'
      simp only [Option.map_some, btTypes_length] at hheight
      simp only [hheight, blockTail_end] at hat ⊢
      by_cases htg : targetsS 0 body = true
      · simp only [htg, if_true] at hat ⊢
        have hat2 := hat.right
        have haddr : resolveT E.sym ⟨.cont, next + 1⟩ = pc + r.ops.length + 1 := E.addr hat2.tail (by simp)
        refine ⟨2, Reach.cons (E.fetch hat2) (pc' := pc + r.ops.length + 1) (stk' := stk) ?_ ?_⟩
        · simp only [Op.mapT, step, haddr]
        · exact (Reach.one (E.fetch hat2.tail) rfl).cast' (by simp; omega)
      · have htg' : targetsS 0 body = false := by simpa using htg
        simp only [htg', Bool.false_eq_true, if_false, List.append_nil] at hat ⊢
        exact ⟨0, Reach.refl _⟩
    · intro htg stk
      obtain ⟨pre, hpre⟩ := block_tail bt body (next + 1) h hheight hend htg
      rw [hpre] at hat ⊢
      have hat2 : At E.sym (pc + r.ops.length + pre.length) [Op.label ⟨.cont, next + 1⟩] := by
        have := hat.right.right; simpa [Nat.add_assoc] using this
      have haddr : resolveT E.sym ⟨.cont, next + 1⟩ = pc + r.ops.length + pre.length := E.addr hat2 (by simp)
      rw [haddr]
      exact (Reach.one (E.fetch hat2) rfl).cast' (by simp; omega)
  · cases hc

/-! ### if / else -/

theorem Sim.prepend' {E : Env} {C fs base res tg budget budget' S0 S0' pcEnd out k0}
    (hr : Reach E.code k0 S0' S0) (hb : budget' ≤ k0 + budget) (h : Sim E C fs base res tg budget S0 pcEnd out) :
    Sim E C fs base res tg budget' S0' pcEnd out := by
  rcases out with ⟨ctl, fr', s'⟩
  cases ctl with
  | next =>
    simp only [Sim] at h ⊢
    obtain ⟨st', vs', h1, h2, h3, h4, k, hk⟩ := h
    exact ⟨st', vs', h1, h2, h3, h4, k0 + k, hr.trans hk⟩
  | br l =>
    simp only [Sim] at h ⊢
    obtain ⟨F, ts, Y, h1, h2, h3, h4, h5, h6, k, hk⟩ := h
    exact ⟨F, ts, Y, h1, h2, h3, h4, h5, h6, k0 + k, (hr.trans hk).cast (by omega)⟩
  | ret =>
    simp only [Sim] at h ⊢
    obtain ⟨Y, h1, h2, h3, k, hk⟩ := h
    exact ⟨Y, h1, h2, h3, k0 + k, (hr.trans hk).cast (by omega)⟩
  | trap kd => simp only [Sim] at h ⊢; exact TrapsAt.after hr h
  | exhausted => simp only [Sim] at h ⊢; exact (RunsFor.after hr h).mono hb

theorem Sim.prepend {E : Env} {C fs base res tg budget S0 S0' pcEnd out k0}
    (hr : Reach E.code k0 S0' S0) (h : Sim E C fs base res tg budget S0 pcEnd out) :
    Sim E C fs base res tg budget S0' pcEnd out := Sim.prepend' hr (by omega) h

theorem ite_nop (id g : Nat) (bt : Option Ty) (isEnd : Bool) :
    dropRange ⟨.ite, id, g, arity bt⟩ isEnd (g + arity bt) = none := by
  unfold dropRange; simp; omega

theorem iteMid_split (id g : Nat) (bt : Option Ty) {rh : Option Nat} {res' : Option (List Ty)}
    (hrh : rh = res'.map (fun s => g + s.length)) (hend : endOK (btTypes bt) (some res') = true) :
    (∃ pre : List SymOp, iteMid ⟨.ite, id, g, arity bt⟩ id rh = pre ++ [Op.label ⟨.els, id⟩]) ∧
    (res' = some (btTypes bt) → iteMid ⟨.ite, id, g, arity bt⟩ id rh = [.br ⟨.cont, id⟩, .label ⟨.els, id⟩]) := by
  cases res' with
  | none => subst hrh; exact ⟨⟨[], rfl⟩, fun h => by cases h⟩
  | some st' =>
    simp only [endOK, beq_iff_eq] at hend
    subst hend; subst hrh
    have : iteMid ⟨.ite, id, g, arity bt⟩ id (Option.map (fun s => g + s.length) (some (btTypes bt))) =
        [.br ⟨.cont, id⟩, .label ⟨.els, id⟩] := by
      simp [iteMid, btTypes_length, ite_nop, emitDrop]
    exact ⟨⟨[.br ⟨.cont, id⟩], by rw [this]; rfl⟩, fun _ => this⟩

theorem iteTail_split (id g : Nat) (bt : Option Ty) {rh : Option Nat} {res' : Option (List Ty)}
    (hrh : rh = res'.map (fun s => g + s.length)) (hend : endOK (btTypes bt) (some res') = true) :
    (∃ pre : List SymOp, iteTail ⟨.ite, id, g, arity bt⟩ id rh = pre ++ [Op.label ⟨.cont, id⟩]) ∧
    (res' = some (btTypes bt) → iteTail ⟨.ite, id, g, arity bt⟩ id rh = [.br ⟨.cont, id⟩, .label ⟨.cont, id⟩]) := by
  cases res' with
  | none => subst hrh; exact ⟨⟨[], rfl⟩, fun h => by cases h⟩
  | some st' =>
    simp only [endOK, beq_iff_eq] at hend
    subst hend; subst hrh
    have : iteTail ⟨.ite, id, g, arity bt⟩ id (Option.map (fun s => g + s.length) (some (btTypes bt))) =
        [.br ⟨.cont, id⟩, .label ⟨.cont, id⟩] := by
      simp [iteTail, btTypes_length, ite_nop, emitDrop]
    exact ⟨⟨[.br ⟨.cont, id⟩], by rw [this]; rfl⟩, fun _ => this⟩

theorem execInstr_ite (m : Module) (n ar : Nat) (th el : List Instr) (c : Nat) (s : List Nat) (locs : Array Nat)
    (st : Store) :
    execInstr m (n + 1) (.ite ar th el) ⟨c :: s, locs⟩ st =
      execInstr m n (.block ar (if c % 2 ^ 32 != 0 then th else el)) ⟨s, locs⟩ st := by
  rw [execInstr]

theorem sim_ite (E : Env) (n : Nat) (bt : Option Ty) (th el : List FI) (hS : PSeq E n) :
    PI E (n + 2) (.ite bt th el) := by
  intro C fs base st vs locs next pc res s0 h hinv hc hvs hlocs hh hat
  simp only [checkI] at hc
  rw [lowerI_ite] at hat ⊢
  split at hc
  · rename_i c s
    split at hc
    · rename_i hcond
      cases hc
      obtain ⟨rfl, hend1, hend2⟩ := hcond
      obtain ⟨vc, vs', rfl, hvc, hvs'⟩ := hvs.cons_left
      have hg : h - 1 = E.lt.length + (vs' ++ base).length + ([] : List Ty).length := by
        simp [hh, hvs'.length]; omega
      have hinv' := hinv.push ⟨.ite, next + 1, h - 1, arity bt⟩ (btTypes bt) vs' (by simp [brArity, btTypes_length])
        (by simpa using hg)
      cases hres1 : checkS { C with labels := btTypes bt :: C.labels } [] th with
      | none => rw [hres1] at hend1; simp [endOK] at hend1
      | some res1 =>
      cases hres2 : checkS { C with labels := btTypes bt :: C.labels } [] el with
      | none => rw [hres2] at hend2; simp [endOK] at hend2
      | some res2 =>
      rw [hres1] at hend1; rw [hres2] at hend2
      have hh1 := lowerS_h (C := { C with labels := btTypes bt :: C.labels })
        (⟨.ite, next + 1, h - 1, arity bt⟩ :: fs) (h - 1) th [] (next + 1) res1 hres1
      simp only [List.length_nil, Nat.add_zero] at hh1
      generalize hr1 : lowerS (⟨.ite, next + 1, h - 1, arity bt⟩ :: fs) (h - 1) (next + 1) th = r1 at hat hh1 ⊢
      have hh2 := lowerS_h (C := { C with labels := btTypes bt :: C.labels })
        (⟨.ite, next + 1, h - 1, arity bt⟩ :: fs) (h - 1) el [] r1.next res2 hres2
      simp only [List.length_nil, Nat.add_zero] at hh2
      generalize hr2 : lowerS (⟨.ite, next + 1, h - 1, arity bt⟩ :: fs) (h - 1) r1.next el = r2 at hat hh2 ⊢
      obtain ⟨⟨preM, hpreM⟩, hmidN⟩ := iteMid_split (next + 1) (h - 1) bt hh1 hend1
      obtain ⟨⟨preT, hpreT⟩, htailN⟩ := iteTail_split (next + 1) (h - 1) bt hh2 hend2
      generalize hmid : iteMid ⟨.ite, next + 1, h - 1, arity bt⟩ (next + 1) r1.h = mid at hat hpreM hmidN ⊢
      generalize htail : iteTail ⟨.ite, next + 1, h - 1, arity bt⟩ (next + 1) r2.h = tail at hat hpreT htailN ⊢
      -- positions
      have hat0 : At E.sym pc [.brIf ⟨.header, next + 1⟩ ⟨.els, next + 1⟩ none, .label ⟨.header, next + 1⟩] :=
        hat.left.left.left.left
      have hatTh : At E.sym (pc + 2) r1.ops := hat.left.left.left.right
      have hatMid : At E.sym (pc + 2 + r1.ops.length) mid :=
        hat.left.left.right.cast (by simp; omega) rfl
      have hatEl : At E.sym (pc + 2 + r1.ops.length + mid.length) r2.ops :=
        hat.left.right.cast (by simp; omega) rfl
      have hatTail : At E.sym (pc + 2 + r1.ops.length + mid.length + r2.ops.length) tail :=
        hat.right.cast (by simp; omega) rfl
      have hEnd : pc + ([Op.brIf (⟨.header, next + 1⟩ : Label) ⟨.els, next + 1⟩ none, .label ⟨.header, next + 1⟩] ++
          r1.ops ++ mid ++ r2.ops ++ tail).length = pc + 2 + r1.ops.length + mid.length + r2.ops.length + tail.length := by
        simp; omega
      rw [hEnd]
      -- the continuation label
      have hatC : At E.sym (pc + 2 + r1.ops.length + mid.length + r2.ops.length + preT.length) [Op.label ⟨.cont, next + 1⟩] := by
        rw [hpreT] at hatTail; exact hatTail.right
      have haddrC : resolveT E.sym ⟨.cont, next + 1⟩ = pc + 2 + r1.ops.length + mid.length + r2.ops.length + preT.length :=
        E.addr hatC (by simp)
      have htl : tail.length = preT.length + 1 := by rw [hpreT]; simp
      have hcont : ∀ stk, Reach E.code 1 (resolveT E.sym ⟨.cont, next + 1⟩, stk)
          (pc + 2 + r1.ops.length + mid.length + r2.ops.length + tail.length, stk) := by
        intro stk
        rw [haddrC]
        exact (Reach.one (E.fetch hatC) rfl).cast' (by omega)
      have hmod : vc % 2 ^ 32 = vc := Nat.mod_eq_of_lt hvc
      simp only [FI.toInstr, List.cons_append, execInstr_ite, hmod]
      rw [execInstr_block]
      by_cases h0 : vc = 0
      · -- else branch
        subst h0
        simp only [bne_self_eq_false, Bool.false_eq_true, if_false]
        have hatE : At E.sym (pc + 2 + r1.ops.length + preM.length) [Op.label ⟨.els, next + 1⟩] := by
          rw [hpreM] at hatMid; exact hatMid.right
        have haddrE : resolveT E.sym ⟨.els, next + 1⟩ = pc + 2 + r1.ops.length + preM.length := E.addr hatE (by simp)
        have hml : mid.length = preM.length + 1 := by rw [hpreM]; simp
        have hstart : Reach E.code 2 (pc, flat (0 :: (vs' ++ base)) locs)
            (pc + 2 + r1.ops.length + mid.length, flat (vs' ++ base) locs) := by
          refine Reach.cons (E.fetch hat0) (pc' := pc + 2 + r1.ops.length + preM.length) (stk' := flat (vs' ++ base) locs) ?_ ?_
          · simp only [Op.mapT, step, flat_cons, haddrE]; simp
          · exact (Reach.one (E.fetch hatE) rfl).cast' (by omega)
        have ih := hS _ _ _ [] [] locs el r1.next (pc + 2 + r1.ops.length + mid.length) res2 s0 (h - 1) hinv' hres2
          trivial hlocs hg (by rw [hr2]; exact hatEl)
        rw [hr2] at ih
        simp only [List.nil_append] at ih
        refine Sim.prepend hstart ?_
        refine sim_catch E (F := ⟨.ite, next + 1, h - 1, arity bt⟩) (id := next + 1) hvs' (by simp) rfl rfl
          (by simpa using hg) hend2 ih ?_ (fun _ => hcont) (fun l hl => by simp [targetsI, hl]) (by simp [weightI]; omega)
        intro hr' stk
        rw [htailN hr'] at hatTail ⊢
        refine ⟨2, Reach.cons (E.fetch hatTail) (pc' := pc + 2 + r1.ops.length + mid.length + r2.ops.length + 1) (stk' := stk) ?_ ?_⟩
        · have : preT.length = 1 := by
            have := htl; rw [htailN hr'] at this; simpa using this.symm
          simp only [Op.mapT, step, haddrC, this]
        · exact (Reach.one (E.fetch hatTail.tail) rfl).cast' (by simp)
      · -- then branch
        have hne : (vc != 0) = true := by simpa using h0
        simp only [hne, if_true]
        have haddrH : resolveT E.sym ⟨.header, next + 1⟩ = pc + 1 := E.addr hat0.tail (by simp)
        have hstart : Reach E.code 2 (pc, flat (vc :: (vs' ++ base)) locs) (pc + 2, flat (vs' ++ base) locs) := by
          refine Reach.cons (E.fetch hat0) (pc' := pc + 1) (stk' := flat (vs' ++ base) locs) ?_ (Reach.one (E.fetch hat0.tail) rfl)
          have hpos : vc > 0 := Nat.pos_of_ne_zero h0
          simp only [Op.mapT, step, flat_cons, hpos, if_true, applyDrop, haddrH]
        have ih := hS _ _ _ [] [] locs th (next + 1) (pc + 2) res1 s0 (h - 1) hinv' hres1
          trivial hlocs hg (by rw [hr1]; exact hatTh)
        rw [hr1] at ih
        simp only [List.nil_append] at ih
        refine Sim.prepend hstart ?_
        refine sim_catch E (F := ⟨.ite, next + 1, h - 1, arity bt⟩) (id := next + 1) hvs' (by simp) rfl rfl
          (by simpa using hg) hend1 ih ?_ (fun _ => hcont) (fun l hl => by simp [targetsI, hl]) (by simp [weightI]; omega)
        intro hr' stk
        rw [hmidN hr'] at hatMid
        have hml : mid.length = 2 := by rw [hmidN hr']; rfl
        refine ⟨2, Reach.cons (E.fetch hatMid) (pc' := pc + 2 + r1.ops.length + mid.length + r2.ops.length + preT.length) (stk' := stk) ?_ ?_⟩
        · simp only [Op.mapT, step, haddrC]
        · exact (Reach.one (E.fetch hatC) rfl).cast' (by omega)
    · cases hc
  · cases hc

/-! ### loop -/

theorem execInstr_loop (m : Module) (n : Nat) (body : List Instr) (fr : Frame) (st : Store) :
    execInstr m (n + 1) (.loop body) fr st =
      match execSeq m n body fr st with
      | (.br 0, fr', st') =>
        execInstr m n (.loop body) { fr' with stack := fr'.stack.drop (fr'.stack.length - fr.stack.length) } st'
      | (.br (k + 1), fr', st') => (.br k, fr', st')
      | r => r := by
  rw [execInstr]
  rcases execSeq m n body fr st with ⟨ctl, fr', s'⟩
  cases ctl with
  | br l => cases l <;> rfl
  | _ => rfl

/-- the loop statement with the machine at the header label (position `pc + 1`) -/
def PLoop (E : Env) (n : Nat) (bt : Option Ty) (body : List FI) : Prop :=
  ∀ C fs base st vs locs next pc s0 h,
    Inv E C fs base → endOK (btTypes bt) (checkS { C with labels := [] :: C.labels } [] body) = true →
    ValsOK st vs → LocsOK E locs → h = E.lt.length + base.length + st.length →
    At E.sym pc (lowerI fs h next (.loop bt body)).ops →
    Sim E C fs base (some (btTypes bt ++ st)) (targetsI · (.loop bt body)) (n - weightI (.loop bt body))
      (pc + 1, flat (vs ++ base) locs) (pc + (lowerI fs h next (.loop bt body)).ops.length)
      (execInstr E.m n (.loop (toInstrs body)) ⟨vs ++ base, locs⟩ s0)

theorem sim_loop_aux (E : Env) (bt : Option Ty) (body : List FI) :
    ∀ n, (∀ m, m < n → PSeq E m) → PLoop E n bt body := by
  intro n
  induction n with
  | zero =>
    intro _ C fs base st vs locs next pc s0 h _ _ _ _ _ _
    rw [execInstr_zero]
    simp only [Sim, Nat.zero_sub]
    exact RunsFor.zero
  | succ n ihn =>
    intro hS C fs base st vs locs next pc s0 h hinv hend hvs hlocs hh hat
    have ihLoop := ihn (fun m hm => hS m (by omega))
    have hSn := hS n (by omega)
    rw [lowerI_loop] at hat ⊢
    have hinv' := hinv.push ⟨.loop, next + 1, h, arity bt⟩ [] vs (by simp [brArity])
      (by simp [hh, hvs.length]; omega)
    have hh' : h = E.lt.length + (vs ++ base).length + ([] : List Ty).length := by simp [hh, hvs.length]; omega
    cases hres : checkS { C with labels := [] :: C.labels } [] body with
    | none => rw [hres] at hend; simp [endOK] at hend
    | some res' =>
    rw [hres] at hend
    have hheight := lowerS_h (C := { C with labels := [] :: C.labels })
      (⟨.loop, next + 1, h, arity bt⟩ :: fs) h body [] (next + 1) res' hres
    simp only [List.length_nil, Nat.add_zero] at hheight
    have hat0 : At E.sym pc [.br ⟨.header, next + 1⟩, .label ⟨.header, next + 1⟩] := hat.left.left
    have hatB : At E.sym (pc + 2) (lowerS (⟨.loop, next + 1, h, arity bt⟩ :: fs) h (next + 1) body).ops :=
      hat.left.right
    have ih := hSn _ _ _ [] [] locs body (next + 1) (pc + 2) res' s0 h hinv' hres trivial hlocs hh' hatB
    simp only [List.nil_append] at ih
    generalize hr : lowerS (⟨.loop, next + 1, h, arity bt⟩ :: fs) h (next + 1) body = r at hat ih hheight hatB ⊢
    have hlabel : Reach E.code 1 (pc + 1, flat (vs ++ base) locs) (pc + 2, flat (vs ++ base) locs) :=
      Reach.one (E.fetch hat0.tail) rfl
    have haddrH : resolveT E.sym ⟨.header, next + 1⟩ = pc + 1 := E.addr hat0.tail (by simp)
    rw [execInstr_loop]
    rcases hout : execSeq E.m n (toInstrs body) ⟨vs ++ base, locs⟩ s0 with ⟨ctl, fr', s'⟩
    rw [hout] at ih
    cases ctl with
    | next =>
      simp only [Sim] at ih ⊢
      obtain ⟨st', vs', hr', hstack, hvs', hlocs', k, hk⟩ := ih
      subst hr'
      simp only [endOK, beq_iff_eq] at hend
      subst hend
      simp only [Option.map_some, btTypes_length] at hheight
      have hnop : dropRange ⟨.loop, next + 1, h, arity bt⟩ true (h + arity bt) = none := dropRange_end_nop
      refine ⟨_, vs' ++ vs, rfl, by rw [hstack, List.append_assoc], hvs'.append hvs, hlocs', 1 + k, ?_⟩
      refine (hlabel.trans hk).cast' ?_
      simp [hheight, loopTail, hnop, emitDrop]; omega
    | br l =>
      simp only [Sim] at ih
      obtain ⟨F, ts, Y, hF, hts, hstack, ⟨rs, X, rfl, hrs⟩, hlocs', htg, k, hk⟩ := ih
      cases l with
      | zero =>
        simp only [List.getElem?_cons_zero, Option.some.injEq] at hF hts
        subst hF; subst hts
        have hrs0 : rs = [] := hrs.nil_left
        subst hrs0
        have hlen : fr'.stack.length = X.length + (vs ++ base).length := by rw [hstack]; simp
        have hkt := keepTop_flat (E := E) (S := fr'.stack) (locs := fr'.locals) (a := 0)
          (b := (vs ++ base).length) hlocs' (by omega) (by omega)
        have horig : h = E.lt.length + (vs ++ base).length := by simpa using hh'
        simp only [Fr.label, brArity, if_true] at hk
        rw [haddrH, horig, hkt] at hk
        have hdrop : fr'.stack.drop (fr'.stack.length - (vs ++ base).length) = vs ++ base := by
          rw [hlen, hstack, show X.length + (vs ++ base).length - (vs ++ base).length = ([] ++ X).length by simp]
          simp
        simp only [List.take_zero, List.nil_append, hdrop] at hk
        simp only [hdrop]
        have hrec := ihLoop C fs base st vs fr'.locals next pc s' h hinv (by rw [hres]; exact hend) hvs hlocs' hh
          (by rw [lowerI_loop, hr]; exact hat)
        rw [lowerI_loop, hr] at hrec
        refine Sim.prepend' (hlabel.trans hk) ?_ hrec
        simp [weightI]; omega
      | succ l =>
        simp only [List.getElem?_cons_succ] at hF hts
        simp only [Sim]
        refine ⟨F, ts, rs ++ X ++ vs, hF, hts, by rw [hstack]; simp, ⟨rs, X ++ vs, by simp, hrs⟩, hlocs', ?_, 1 + k, ?_⟩
        · simpa [targetsI] using htg
        · exact (hlabel.trans hk).cast (by omega)
    | ret =>
      simp only [Sim] at ih ⊢
      obtain ⟨Y, hstack, ⟨rs, X, rfl, hrs⟩, hlocs', k, hk⟩ := ih
      exact ⟨rs ++ X ++ vs, by rw [hstack]; simp, ⟨rs, X ++ vs, by simp, hrs⟩, hlocs', 1 + k,
        (hlabel.trans hk).cast (by omega)⟩
    | trap kd =>
      simp only [Sim] at ih ⊢
      exact TrapsAt.after hlabel ih
    | exhausted =>
      simp only [Sim] at ih ⊢
      exact (RunsFor.after hlabel ih).mono (by simp [weightI])

theorem sim_loop (E : Env) (n : Nat) (bt : Option Ty) (body : List FI) (hS : ∀ m, m < n → PSeq E m) :
    PI E n (.loop bt body) := by
  intro C fs base st vs locs next pc res s0 h hinv hc hvs hlocs hh hat
  simp only [checkI] at hc
  split at hc
  · rename_i hend
    cases hc
    have hl := sim_loop_aux E bt body n hS C fs base st vs locs next pc s0 h hinv hend hvs hlocs hh hat
    have hat' := hat
    rw [lowerI_loop] at hat'
    have hat0 : At E.sym pc [.br ⟨.header, next + 1⟩, .label ⟨.header, next + 1⟩] := hat'.left.left
    have haddrH : resolveT E.sym ⟨.header, next + 1⟩ = pc + 1 := E.addr hat0.tail (by simp)
    have hbr : Reach E.code 1 (pc, flat (vs ++ base) locs) (pc + 1, flat (vs ++ base) locs) := by
      refine Reach.one (E.fetch hat0) ?_
      simp only [Op.mapT, step, haddrH]
    exact Sim.prepend hbr hl
  · cases hc

/-! ### sequences -/

theorem checkI_not_terminator {C : Ctx} {st st' : List Ty} {i : FI} (h : checkI C st i = some (some st')) :
    i.terminator = false := by
  cases i with
  | unreachable => simp only [checkI] at h; cases h
  | ret =>
    simp only [checkI] at h
    split at h <;> cases h
  | br l =>
    simp only [checkI] at h
    split at h
    · split at h <;> cases h
    · cases h
  | brTable ls d =>
    simp only [checkI] at h
    split at h
    · split at h <;> cases h
    · cases h
  | _ => rfl

/-- an outcome that is not `next` does not depend on what follows -/
theorem Sim.weaken {E : Env} {C fs base res res' tg tg' budget budget' S0 pcEnd pcEnd'}
    {out : Ctl × Frame × Store} (hne : out.1 ≠ .next) (htg : ∀ l, tg l = true → tg' l = true)
    (hb : budget' ≤ budget) (h : Sim E C fs base res tg budget S0 pcEnd out) :
    Sim E C fs base res' tg' budget' S0 pcEnd' out := by
  rcases out with ⟨ctl, fr', s'⟩
  cases ctl with
  | next => exact absurd rfl hne
  | br l =>
    simp only [Sim] at h ⊢
    obtain ⟨F, ts, Y, h1, h2, h3, h4, h5, h6, k, hk⟩ := h
    exact ⟨F, ts, Y, h1, h2, h3, h4, h5, htg l h6, k, hk⟩
  | ret => exact h
  | trap kd => exact h
  | exhausted => simp only [Sim] at h ⊢; exact h.mono hb

theorem execSeq_zero {m is fr st} : execSeq m 0 is fr st = (.exhausted, fr, st) := by
  unfold execSeq; rfl

theorem sim_seq (E : Env) (n : Nat) (hI : ∀ i, PI E n i) (hS : PSeq E n) : PSeq E (n + 1) := by
  intro C fs base st vs locs is next pc res s0 h hinv hc hvs hlocs hh hat
  cases is with
  | nil =>
    simp only [checkS] at hc
    cases hc
    simp only [toInstrs, execSeq, lowerS, Sim]
    exact ⟨st, vs, rfl, rfl, hvs, hlocs, 0, Reach.refl _⟩
  | cons i rest =>
    simp only [checkS] at hc
    cases hci : checkI C st i with
    | none => rw [hci] at hc; cases hc
    | some resI =>
    have hhI := lowerI_h (C := C) (st := st) (i := i) fs (E.lt.length + base.length) next hci
    rw [← hh] at hhI
    simp only [lowerS] at hat ⊢
    have hatI : At E.sym pc (lowerI fs h next i).ops := by
      cases resI with
      | none => simp only [Option.map_none] at hhI; simpa [hhI] using hat
      | some st1 => simp only [Option.map_some] at hhI; rw [hhI] at hat; exact hat.left
    have ihI := hI i C fs base st vs locs next pc resI s0 h hinv hci hvs hlocs hh hatI
    simp only [toInstrs, execSeq]
    rcases hout : execInstr E.m n i.toInstr ⟨vs ++ base, locs⟩ s0 with ⟨ctl, fr', s'⟩
    rw [hout] at ihI
    by_cases hnext : ctl = .next
    · subst hnext
      simp only [Sim] at ihI
      obtain ⟨st1, vs1, hr1, hstack, hvs1, hlocs1, k, hk⟩ := ihI
      subst hr1
      rw [hci] at hc
      simp only at hc
      simp only [Option.map_some] at hhI
      rw [hhI] at hat ⊢
      simp only at hat ⊢
      have hfr : fr' = ⟨vs1 ++ base, fr'.locals⟩ := by cases fr'; simp_all
      rw [hfr]
      have ihS := hS C fs base st1 vs1 fr'.locals rest (lowerI fs h next i).next (pc + (lowerI fs h next i).ops.length)
        res s' (E.lt.length + base.length + st1.length) hinv hc hvs1 hlocs1 rfl hat.right
      have hk' : Reach E.code k (pc, flat (vs ++ base) locs)
          (pc + (lowerI fs h next i).ops.length, flat (vs1 ++ base) fr'.locals) := by rw [hstack] at hk; exact hk
      have hnt := checkI_not_terminator hci
      have inner : Sim E C fs base res (targetsS · (i :: rest)) (n - weightS rest)
          (pc + (lowerI fs h next i).ops.length, flat (vs1 ++ base) fr'.locals)
          (pc + ((lowerI fs h next i).ops ++
            (lowerS fs (E.lt.length + base.length + st1.length) (lowerI fs h next i).next rest).ops).length)
          (execSeq E.m n (toInstrs rest) ⟨vs1 ++ base, fr'.locals⟩ s') := by
        rcases hout2 : execSeq E.m n (toInstrs rest) ⟨vs1 ++ base, fr'.locals⟩ s' with ⟨ctl2, fr2, s2⟩
        rw [hout2] at ihS
        cases ctl2 with
        | next =>
          simp only [Sim] at ihS ⊢
          obtain ⟨st2, vs2, h1, h2, h3, h4, k2, hk2⟩ := ihS
          exact ⟨st2, vs2, h1, h2, h3, h4, k2, hk2.cast' (by simp; omega)⟩
        | br l => exact Sim.weaken (by simp) (fun l hl => by simp [targetsS, hnt, hl]) (Nat.le_refl _) ihS
        | ret => exact Sim.weaken (by simp) (fun l hl => by simp [targetsS, hnt, hl]) (Nat.le_refl _) ihS
        | trap kd => exact Sim.weaken (by simp) (fun l hl => by simp [targetsS, hnt, hl]) (Nat.le_refl _) ihS
        | exhausted => exact Sim.weaken (by simp) (fun l hl => by simp [targetsS, hnt, hl]) (Nat.le_refl _) ihS
      exact Sim.prepend' hk' (by simp [weightS]; omega) inner
    · have hw : ∀ out : Ctl × Frame × Store, out = (ctl, fr', s') →
          Sim E C fs base res (targetsS · (i :: rest)) (n + 1 - weightS (i :: rest)) (pc, flat (vs ++ base) locs)
            (pc + (lowerS fs h next (i :: rest)).ops.length) out := by
        intro out ho
        subst ho
        exact Sim.weaken hnext (fun l hl => by simp [targetsS, hl]) (by simp [weightS]; omega) ihI
      simp only [lowerS] at hw
      cases ctl with
      | next => exact absurd rfl hnext
      | br l => exact hw _ rfl
      | ret => exact hw _ rfl
      | trap kd => exact hw _ rfl
      | exhausted => exact hw _ rfl

/-! ### the induction on the fuel -/

theorem PI_zero (E : Env) (i : FI) : PI E 0 i := by
  intro C fs base st vs locs next pc res s0 h _ _ _ _ _ _
  rw [execInstr_zero]
  simp only [Sim, Nat.zero_sub]
  exact RunsFor.zero

theorem PSeq_zero (E : Env) : PSeq E 0 := by
  intro C fs base st vs locs is next pc res s0 h _ _ _ _ _ _
  rw [execSeq_zero]
  simp only [Sim, Nat.zero_sub]
  exact RunsFor.zero

theorem sim_ite_one (E : Env) (bt : Option Ty) (th el : List FI) : PI E 1 (.ite bt th el) := by
  intro C fs base st vs locs next pc res s0 h hinv hc hvs hlocs hh hat
  simp only [checkI] at hc
  split at hc
  · rename_i c s
    obtain ⟨vc, vs', rfl, hvc, hvs'⟩ := hvs.cons_left
    simp only [FI.toInstr, List.cons_append, execInstr_ite, execInstr_zero, Sim]
    exact RunsFor.zero.mono (by simp [weightI])
  · cases hc

theorem sim_instr (E : Env) (n : Nat) (hS : ∀ m, m < n → PSeq E m) : ∀ i, PI E n i := by
  intro i
  cases n with
  | zero => exact PI_zero E i
  | succ n =>
    cases i with
    | const t v => exact sim_const E _ t v
    | num1 name => exact sim_num1 E _ name
    | num2 name => exact sim_num2 E _ name
    | localGet i => exact sim_localGet E _ i
    | localSet i => exact sim_localSet E _ i
    | localTee i => exact sim_localTee E _ i
    | drop => exact sim_drop E _
    | select => exact sim_select E _
    | unreachable => exact sim_unreachable E _
    | ret => exact sim_ret E _
    | br l => exact sim_br E _ l
    | brIf l => exact sim_brIf E _ l
    | brTable ls d => exact sim_brTable E _ ls d
    | block bt body => exact sim_block E n bt body (hS n (by omega))
    | loop bt body => exact sim_loop E (n + 1) bt body hS
    | ite bt th el =>
      cases n with
      | zero => exact sim_ite_one E bt th el
      | succ n => exact sim_ite E n bt th el (hS n (by omega))

theorem sim_all (E : Env) : ∀ n, PSeq E n := by
  intro n
  induction n using Nat.strongRecOn with
  | _ n ih =>
    cases n with
    | zero => exact PSeq_zero E
    | succ n => exact sim_seq E n (sim_instr E n (fun m hm => ih m (by omega))) (ih n (by omega))

end Wz.Proofs.FlatLower
