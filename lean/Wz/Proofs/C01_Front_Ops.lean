/-
C01 (front end): every numeric instruction of the straight-line fragment computes, at the specification level
(`Wz.Spec.Num.scalar` of the instruction's NAME), what the SSA instruction the front end emits for it computes
in the SSA semantics (`SsaPass.evalBin / evalCond / evalUn / evalDiv`).  The name dispatch
(`name.splitOn "."`) is evaluated once per name.
-/
import Wz.Model.FrontendSL
import Wz.Proofs.C01_FlatLower_Num
import Wz.Proofs.C01_Front_Num

set_option linter.unusedSimpArgs false

namespace Wz.Proofs.Front
open Wz.Spec Wz.Spec.Wasm Wz.Model.SsaPass Wz.Model.FrontendSL Wz.Proofs.FlatLower Wz.Proofs.FrontNum

def tyStr : Ty → String | .i32 => "i32" | .i64 => "i64"

def binStr : IBin → String
  | .add => "add" | .sub => "sub" | .mul => "mul" | .and => "and" | .or => "or" | .xor => "xor"
  | .shl => "shl" | .shrS => "shr_s" | .shrU => "shr_u" | .rotl => "rotl" | .rotr => "rotr"

def relStr : IRel → String
  | .eq => "eq" | .ne => "ne" | .ltS => "lt_s" | .ltU => "lt_u" | .gtS => "gt_s" | .gtU => "gt_u"
  | .leS => "le_s" | .leU => "le_u" | .geS => "ge_s" | .geU => "ge_u"

def cntStr : ICnt → String
  | .clz => "clz" | .ctz => "ctz" | .popcnt => "popcnt"

def divStr : IDiv → String
  | .divS => "div_s" | .divU => "div_u" | .remS => "rem_s" | .remU => "rem_u"

theorem split_bin (t : Ty) (op : IBin) : (binName t op).splitOn "." = [tyStr t, binStr op] := by
  cases t <;> cases op <;> simp +decide [binName, tyStr, binStr, String.splitOn, String.splitOnAux.eq_1]

theorem split_rel (t : Ty) (op : IRel) : (relName t op).splitOn "." = [tyStr t, relStr op] := by
  cases t <;> cases op <;> simp +decide [relName, tyStr, relStr, String.splitOn, String.splitOnAux.eq_1]

theorem split_eqz (t : Ty) : (eqzName t).splitOn "." = [tyStr t, "eqz"] := by
  cases t <;> simp +decide [eqzName, tyStr, String.splitOn, String.splitOnAux.eq_1]

theorem split_cnt (t : Ty) (op : ICnt) : (cntName t op).splitOn "." = [tyStr t, cntStr op] := by
  cases t <;> cases op <;> simp +decide [cntName, tyStr, cntStr, String.splitOn, String.splitOnAux.eq_1]

theorem split_div (t : Ty) (op : IDiv) : (divName t op).splitOn "." = [tyStr t, divStr op] := by
  cases t <;> cases op <;> simp +decide [divName, tyStr, divStr, String.splitOn, String.splitOnAux.eq_1]

/-! ### binary operators -/

theorem scalar_bin (t : Ty) (op : IBin) (a b : Nat) (hb : b < 2 ^ t.bits) :
    Num.scalar (binName t op) [a, b] = some (.val (evalBin op.toSsa t a b)) := by
  rw [scalar2_eq (split_bin t op)]
  cases t
  · have hs : (BitVec.ofNat 32 b).toNat % 32 = b % 32 := by
      have hb' : b < 2 ^ 32 := hb
      rw [BitVec.toNat_ofNat, Nat.mod_eq_of_lt hb']
    cases op <;>
    simp only [sc2, tyStr, binStr, Num.ibin, IBin.toSsa, evalBin, Num.bv, Ty.bits, Int.iadd, Int.isub, Int.imul,
      Int.iand, Int.ior, Int.ixor, Int.ishl, Int.ishrS, Int.ishrU, Int.irotl, Int.irotr, hs] <;> rfl
  · have hs : (BitVec.ofNat 64 b).toNat % 64 = b % 64 := by
      have hb' : b < 2 ^ 64 := hb
      rw [BitVec.toNat_ofNat, Nat.mod_eq_of_lt hb']
    cases op <;>
    simp only [sc2, tyStr, binStr, Num.ibin, IBin.toSsa, evalBin, Num.bv, Ty.bits, Int.iadd, Int.isub, Int.imul,
      Int.iand, Int.ior, Int.ixor, Int.ishl, Int.ishrS, Int.ishrU, Int.irotl, Int.irotr, hs] <;> rfl

/-! ### comparisons -/

theorem b2i_toNat (c : Bool) : (Int.b2i c).toNat = if c then 1 else 0 := by cases c <;> rfl

def specRel {n} : IRel → BitVec n → BitVec n → BitVec 32
  | .eq => Int.ieq | .ne => Int.ine | .ltS => Int.iltS | .ltU => Int.iltU | .gtS => Int.igtS | .gtU => Int.igtU
  | .leS => Int.ileS | .leU => Int.ileU | .geS => Int.igeS | .geU => Int.igeU

def ssaRel {n} (c : Cond) (a b : BitVec n) : Bool :=
  match c with
    | .eq => a == b
    | .ne => a != b
    | .slt => a.slt b
    | .sge => !(a.slt b)
    | .sgt => b.slt a
    | .sle => !(b.slt a)
    | .ult => a.ult b
    | .uge => !(a.ult b)
    | .ugt => b.ult a
    | .ule => !(b.ult a)

theorem rel_agree {n} (op : IRel) (x y : BitVec n) :
    (specRel op x y).toNat = if ssaRel op.toSsa x y then 1 else 0 := by
  cases op <;> simp only [specRel, ssaRel, IRel.toSsa, Int.ieq, Int.ine, Int.iltS, Int.iltU,
      Int.igtS, Int.igtU, Int.ileS, Int.ileU, Int.igeS, Int.igeU, b2i_toNat, BitVec.slt, BitVec.ult]
  case leS => by_cases h : y.toInt < x.toInt <;> simp [h] <;> omega
  case leU => by_cases h : y.toNat < x.toNat <;> simp [h] <;> omega
  case geS => by_cases h : x.toInt < y.toInt <;> simp [h] <;> omega
  case geU => by_cases h : x.toNat < y.toNat <;> simp [h] <;> omega
  case gtS => rfl
  case gtU => rfl
  all_goals first | rfl | (split <;> rename_i h <;> simp [h])

theorem evalCond_eq (c : Cond) (t : Ty) (a b : Nat) :
    evalCond c t a b = if ssaRel c (BitVec.ofNat t.bits a) (BitVec.ofNat t.bits b) then 1 else 0 := by
  cases c <;> rfl

theorem ibin_rel (n : Nat) (op : IRel) (a b : Nat) :
    Num.ibin n (relStr op) a b = some (.val (specRel op (Num.bv n a) (Num.bv n b)).toNat) := by
  cases op <;> simp only [relStr, Num.ibin, specRel]

theorem scalar_rel (t : Ty) (op : IRel) (a b : Nat) :
    Num.scalar (relName t op) [a, b] = some (.val (evalCond op.toSsa t a b)) := by
  rw [scalar2_eq (split_rel t op), evalCond_eq, ← rel_agree]
  cases t <;> simp only [sc2, tyStr, ibin_rel, Num.bv, Ty.bits]

theorem scalar_eqz (t : Ty) (a : Nat) :
    Num.scalar (eqzName t) [a] = some (.val (evalCond .eq t a 0)) := by
  rw [scalar1_eq (split_eqz t), evalCond_eq]
  have h : ∀ n, (Int.ieqz (Num.bv n a)).toNat = if ssaRel .eq (BitVec.ofNat n a) (BitVec.ofNat n 0) then 1 else 0 := by
    intro n
    simp only [Int.ieqz, b2i_toNat, ssaRel, Num.bv]
    by_cases h : BitVec.ofNat n a = BitVec.ofNat n 0
    · simp [h]
    · have : ¬ (BitVec.ofNat n a).toNat = 0 := fun h0 => h (BitVec.eq_of_toNat_eq (by simpa using h0))
      have h2 : ¬ a % 2 ^ n = 0 := by simpa using this
      simp [h, h2]
  cases t <;> simp +decide [sc1, eqzName, tyStr, Num.conv, Num.iun, Option.orElse, Ty.bits, h] <;> rfl

/-! ### clz / ctz / popcnt -/

theorem scalar_cnt (t : Ty) (op : ICnt) (a : Nat) :
    Num.scalar (cntName t op) [a] = some (.val (evalUn op.toSsa t a)) := by
  rw [scalar1_eq (split_cnt t op)]
  cases t <;> cases op <;>
    simp +decide [sc1, cntName, tyStr, cntStr, Num.conv, Num.iun, Option.orElse, Ty.bits, evalUn, ICnt.toSsa, Num.bv,
      clz_agree', ctz_agree', popcnt_agree']

/-! ### conversions -/

theorem scalar_wrap (a : Nat) : Num.scalar "i32.wrap_i64" [a] = some (.val (evalUn .ireduce .i32 a)) := by
  rw [scalar1_eq (t := "i32") (op := "wrap_i64") (by simp +decide [String.splitOn, String.splitOnAux.eq_1])]
  simp [sc1, Num.conv, evalUn, norm, Ty.bits, Option.orElse]

theorem scalar_extendU (a : Nat) : Num.scalar "i64.extend_i32_u" [a] = some (.val (evalUn .uextend .i64 a)) := by
  rw [scalar1_eq (t := "i64") (op := "extend_i32_u") (by simp +decide [String.splitOn, String.splitOnAux.eq_1])]
  have : a % 4294967296 % 18446744073709551616 = a % 4294967296 := by omega
  simp [sc1, Num.conv, evalUn, norm, Ty.bits, Option.orElse, this]

theorem scalar_extendS (a : Nat) : Num.scalar "i64.extend_i32_s" [a] = some (.val (evalUn .sextend .i64 a)) := by
  rw [scalar1_eq (t := "i64") (op := "extend_i32_s") (by simp +decide [String.splitOn, String.splitOnAux.eq_1])]
  have : ((BitVec.ofNat 32 a).signExtend 64).toNat % 2 ^ 64 = ((BitVec.ofNat 32 a).signExtend 64).toNat :=
    Nat.mod_eq_of_lt (BitVec.isLt _)
  simp only [sc1, Num.conv, evalUn, norm, Ty.bits, Option.orElse, Int.extendS, Num.bv, this]

theorem scalar_extend32S (a : Nat) : Num.scalar "i64.extend32_s" [a] = some (.val (evalUn .sextend .i64 a)) := by
  rw [scalar1_eq (t := "i64") (op := "extend32_s") (by simp +decide [String.splitOn, String.splitOnAux.eq_1])]
  have h1 : ((BitVec.ofNat 32 a).signExtend 64).toNat % 2 ^ 64 = ((BitVec.ofNat 32 a).signExtend 64).toNat :=
    Nat.mod_eq_of_lt (BitVec.isLt _)
  have h2 : (BitVec.ofNat 64 a).setWidth 32 = BitVec.ofNat 32 a := by
    apply BitVec.eq_of_toNat_eq
    simp only [BitVec.toNat_setWidth, BitVec.toNat_ofNat]
    omega
  simp +decide only [sc1, Num.conv, Num.iun, evalUn, norm, Ty.bits, Option.orElse, Int.iextendS, Num.bv, h1, h2]

/-! ### trapping division -/

def divRes : Except Nat Nat → Num.Res
  | .ok v => .val v
  | .error c => .trap (trapKind c)

theorem ibin_div (t : Ty) (op : IDiv) (a b : Nat) :
    Num.ibin t.bits (divStr op) a b = some (divRes (evalDiv op.toSsa t a b)) := by
  by_cases hb : (BitVec.ofNat t.bits b).toNat = 0
  · cases op <;>
      simp +decide [divStr, Num.ibin, evalDiv, IDiv.toSsa, Num.bv, hb, divRes, trapKind, Num.optRes,
        idivU_zero _ _ hb, iremU_zero _ _ hb, iremS_zero _ _ hb]
  · have hb' : ¬ b % 2 ^ t.bits = 0 := by simpa using hb
    have h3 : ¬ (2 ^ t.bits - 1 = 0) := by cases t <;> decide
    cases op
    · by_cases ho : BitVec.ofNat t.bits a = BitVec.intMin t.bits ∧ BitVec.ofNat t.bits b = BitVec.allOnes t.bits
      · simp +decide [divStr, Num.ibin, evalDiv, IDiv.toSsa, Num.bv, hb, divRes, trapKind, Num.optRes,
          idivS_overflow _ _ hb ho, ho, h3, idivS_overflow _ _ (by simpa using h3) ⟨rfl, rfl⟩]
      · simp +decide [divStr, Num.ibin, evalDiv, IDiv.toSsa, Num.bv, hb, divRes, trapKind, Num.optRes,
          idivS_agree _ _ hb ho, ho, hb']
    · simp +decide [divStr, Num.ibin, evalDiv, IDiv.toSsa, Num.bv, hb, divRes, trapKind, Num.optRes,
          idivU_agree _ _ hb, hb']
    · simp +decide [divStr, Num.ibin, evalDiv, IDiv.toSsa, Num.bv, hb, divRes, trapKind, Num.optRes,
          iremS_agree _ _ hb, hb']
    · simp +decide [divStr, Num.ibin, evalDiv, IDiv.toSsa, Num.bv, hb, divRes, trapKind, Num.optRes,
          iremU_agree _ _ hb, hb']

theorem scalar_div (t : Ty) (op : IDiv) (a b : Nat) :
    Num.scalar (divName t op) [a, b] = some (divRes (evalDiv op.toSsa t a b)) := by
  rw [scalar2_eq (split_div t op), ← ibin_div]
  cases t <;> simp only [sc2, tyStr, Ty.bits]
theorem evalDiv_code {op : DivOp} {t : Ty} {x y c : Nat} (h : evalDiv op t x y = .error c) :
    c = codeDivByZero ∨ c = codeOverflow := by
  unfold evalDiv at h
  simp only at h
  split at h
  · cases h; exact .inl rfl
  · cases op <;> simp only at h
    · cases h
    · split at h
      · cases h; exact .inr rfl
      · cases h
    · cases h
    · cases h

end Wz.Proofs.Front
