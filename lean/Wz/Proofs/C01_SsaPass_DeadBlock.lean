import Wz.Proofs.C01_SsaPass_Basic

/-! Dead-block elimination (`deadBlockElim`) preserves the semantics. -/
namespace Wz.Model.SsaPass

/-! ### successors -/

theorem mem_insertBy (key : BlockId → Nat) (x y : BlockId) (l : List BlockId) :
    y ∈ insertBy key x l ↔ y = x ∨ y ∈ l := by
  induction l with
  | nil => simp [insertBy]
  | cons z zs ih =>
    simp only [insertBy]
    split
    · simp
    · simp only [List.mem_cons, ih]
      constructor
      · rintro (h | h | h)
        · exact Or.inr (Or.inl h)
        · exact Or.inl h
        · exact Or.inr (Or.inr h)
      · rintro (h | h | h)
        · exact Or.inr (Or.inl h)
        · exact Or.inl h
        · exact Or.inr (Or.inr h)

theorem mem_foldl_insertBy (key : BlockId → Nat) (l acc : List BlockId) (y : BlockId) :
    y ∈ l.foldl (fun acc x => insertBy key x acc) acc ↔ y ∈ l ∨ y ∈ acc := by
  induction l generalizing acc with
  | nil => simp
  | cons x xs ih =>
    simp only [List.foldl_cons, ih, mem_insertBy, List.mem_cons]
    constructor
    · rintro (h | h | h)
      · exact Or.inl (Or.inr h)
      · exact Or.inl (Or.inl h)
      · exact Or.inr h
    · rintro ((h | h) | h)
      · exact Or.inr (Or.inl h)
      · exact Or.inl h
      · exact Or.inr (Or.inr h)

theorem mem_sortedSuccs (f : Func) (B : Block) (s : BlockId) : s ∈ f.sortedSuccs B ↔ s ∈ B.succs := by
  simp [Func.sortedSuccs, mem_foldl_insertBy]

/-- only branches transfer control -/
theorem execInstr_goto_branch (w : World) (ρ : Val → Nat) (i : Instr) (st : St) {b : BlockId} {args : List Nat}
    {st' : St} (h : execInstr w ρ i st = .goto b args st') : i.branch?.map (·.1) = some b := by
  cases i <;> simp only [execInstr] at h
  case iconst => cases h
  case bin => cases h
  case icmp => cases h
  case select => cases h
  case un => cases h
  case load => cases h
  case store => cases h
  case call fn sig rs as => split at h <;> cases h
  case div op r ty x y ctx => split at h <;> cases h
  case exitIf ctx c code => split at h <;> cases h
  case exit => cases h
  case jump t as => cases h; rfl
  case brz c t as => split at h <;> cases h; rfl
  case brnz c t as => split at h <;> cases h; rfl
  case ret => cases h

/-- a transfer of control out of a block goes to one of its successors -/
theorem execBody_goto_succ (w : World) (al : List (Val × Val)) :
    ∀ (is : List Instr) (st : St) (b : BlockId) (args : List Nat) (st' : St),
      execBody w al is st = some (.goto b args st') → b ∈ is.filterMap (fun i => i.branch?.map (·.1)) := by
  intro is
  induction is with
  | nil => intro st b args st' h; simp [execBody] at h
  | cons i is ih =>
    intro st b args st' h
    simp only [execBody] at h
    cases hex : execInstr w (fun v => st.env (res al v)) i st with
    | next st1 =>
      rw [hex] at h
      have := ih st1 b args st' h
      simp only [List.filterMap_cons]
      split
      · exact this
      · exact List.mem_cons_of_mem _ this
    | goto b' args' st1 =>
      rw [hex] at h
      simp only [Option.some.injEq, Ctl.goto.injEq] at h
      obtain ⟨hb, _, _⟩ := h
      subst hb
      have : i.branch?.map (·.1) = some b' := execInstr_goto_branch w _ i st hex
      simp only [List.filterMap_cons, this]
      exact List.mem_cons_self ..
    | ret vs st1 => rw [hex] at h; cases h
    | trap c st1 => rw [hex] at h; cases h

/-! ### the visited set is closed under successors -/

def succsOf (f : Func) (b : BlockId) : List BlockId :=
  match f.blockAny b with
  | some B => B.succs
  | none => []

structure ReachInv (f : Func) (stk vis : List BlockId) : Prop where
  closed : ∀ b ∈ vis, ∀ s ∈ succsOf f b, s ∈ vis ∨ s ∈ stk

theorem reachLoop_inv (f : Func) :
    ∀ (n : Nat) (stk vis R : List BlockId), ReachInv f stk vis → reachLoop f n stk vis = some R →
      ReachInv f [] R ∧ (∀ b ∈ vis, b ∈ R) ∧ (∀ b ∈ stk, b ∈ R) := by
  intro n
  induction n with
  | zero => intro stk vis R _ h; simp [reachLoop] at h
  | succ n ih =>
    intro stk vis R hinv h
    cases stk with
    | nil =>
      simp only [reachLoop, Option.some.injEq] at h; subst h
      exact ⟨hinv, fun _ hb => hb, fun _ hb => by cases hb⟩
    | cons b stk =>
      simp only [reachLoop] at h
      have hvis' : ∀ x, x ∈ vis → x ∈ (if b ∈ vis then vis else b :: vis) := by
        intro x hx; split
        · exact hx
        · exact List.mem_cons_of_mem _ hx
      have hb' : b ∈ (if b ∈ vis then vis else b :: vis) := by
        split
        · assumption
        · exact List.mem_cons_self ..
      have hmem : ∀ x, x ∈ (if b ∈ vis then vis else b :: vis) → x = b ∨ x ∈ vis := by
        intro x hx; split at hx
        · exact Or.inr hx
        · cases hx with
          | head => exact Or.inl rfl
          | tail _ h => exact Or.inr h
      obtain ⟨h1, h2, h3⟩ := ih _ _ R (by
        constructor
        intro x hx s hs
        cases hmem x hx with
        | inl hxb =>
          subst hxb
          by_cases hsv : s ∈ (if x ∈ vis then vis else x :: vis)
          · exact Or.inl hsv
          · right
            apply List.mem_append_left
            apply List.mem_reverse.mpr
            simp only [succsOf] at hs
            cases hB : f.blockAny x with
            | none => simp [hB] at hs
            | some B =>
              simp only [hB] at hs
              exact List.mem_filter.mpr ⟨(mem_sortedSuccs f B s).mpr hs, by simpa using hsv⟩
        | inr hxv =>
          cases hinv.closed x hxv s hs with
          | inl h => exact Or.inl (hvis' s h)
          | inr h =>
            cases h with
            | head => exact Or.inl hb'
            | tail _ h => exact Or.inr (List.mem_append_right _ h)) h
      refine ⟨h1, fun x hx => h2 x (hvis' x hx), fun x hx => ?_⟩
      cases hx with
      | head => exact h2 _ hb'
      | tail _ hx => exact h3 x (List.mem_append_right _ hx)

theorem reachable_closed {f : Func} {R : List BlockId} (h : reachable f = some R) :
    f.entry ∈ R ∧ ∀ b ∈ R, ∀ s ∈ succsOf f b, s ∈ R := by
  obtain ⟨h1, _, h3⟩ := reachLoop_inv f _ _ _ R ⟨fun _ hb => by cases hb⟩ h
  refine ⟨h3 _ (List.mem_cons_self ..), fun b hb s hs => ?_⟩
  cases h1.closed b hb s hs with
  | inl h => exact h
  | inr h => cases h

/-! ### simulation -/

theorem find_of_nodup_ids (l : List Block) (hu : (l.map (·.id)).Nodup) {B : Block} (hB : B ∈ l) :
    l.find? (fun C => C.id = B.id) = some B := by
  induction l with
  | nil => cases hB
  | cons C Cs ih =>
    simp only [List.map_cons, List.nodup_cons] at hu
    simp only [List.find?_cons]
    cases hB with
    | head => simp
    | tail _ hm =>
      have hne : C.id ≠ B.id := by
        intro he
        exact hu.1 (he ▸ List.mem_map_of_mem hm)
      simp only [hne, decide_false]
      exact ih hu.2 hm

theorem blockAny_of_mem {f : Func} (hu : UniqueIds f) {B : Block} (hB : B ∈ f.blocks) :
    f.blockAny B.id = some B := find_of_nodup_ids f.blocks hu hB

theorem findBlock_deadBlock (f : Func) (R : List BlockId) (b : BlockId) :
    ({ f with blocks := f.blocks.map (fun B => if B.id ∈ R then B else { B with invalid := true }) } : Func).findBlock b =
    if b ∈ R then f.findBlock b else none := by
  simp only [Func.findBlock]
  induction f.blocks with
  | nil => simp
  | cons C Cs ih =>
    simp only [List.map_cons, List.find?_cons]
    by_cases hC : C.id ∈ R
    · simp only [hC, if_true]
      by_cases hid : C.id = b
      · subst hid
        by_cases hinv : C.invalid = true
        · simp only [hinv, not_true_eq_false, and_false, decide_false]
          exact ih
        · simp [hinv, hC]
      · simp only [hid, false_and, decide_false]
        exact ih
    · simp only [hC, if_false]
      simp only [not_true_eq_false, and_false, decide_false]
      rw [ih]
      by_cases hid : C.id = b
      · subst hid
        simp [hC]
      · simp [hid]

theorem runFrom_deadBlock (w : World) {f : Func} (hu : UniqueIds f) {R : List BlockId}
    (hclosed : ∀ b ∈ R, ∀ s ∈ succsOf f b, s ∈ R) :
    ∀ (n : Nat) (b : BlockId) (args : List Nat) (st : St), b ∈ R →
      runFrom w { f with blocks := f.blocks.map (fun B => if B.id ∈ R then B else { B with invalid := true }) }
        n b args st = runFrom w f n b args st := by
  intro n
  induction n with
  | zero => intro b args st _; rfl
  | succ n ih =>
    intro b args st hb
    simp only [runFrom]
    rw [findBlock_deadBlock, if_pos hb]
    cases hfb : f.findBlock b with
    | none => rfl
    | some B =>
      simp only []
      split
      · rfl
      · cases hex : execBody w f.alias B.instrs { st with env := bindVals st.env B.params args } with
        | none => rfl
        | some c =>
          cases c with
          | next _ => rfl
          | ret _ _ => rfl
          | trap _ _ => rfl
          | goto b' args' st' =>
            simp only []
            apply ih
            obtain ⟨hBm, hBid, _⟩ := findBlock_mem' hfb
            apply hclosed b hb
            have := blockAny_of_mem hu hBm
            rw [hBid] at this
            simp only [succsOf, this]
            exact execBody_goto_succ w _ _ _ _ _ _ hex
where
  findBlock_mem' {f : Func} {b : BlockId} {B : Block} (h : f.findBlock b = some B) :
      B ∈ f.blocks ∧ B.id = b ∧ B.invalid = false := by
    simp only [Func.findBlock] at h
    have h1 := List.mem_of_find?_eq_some h
    have h2 := List.find?_some h
    simp only [decide_eq_true_eq] at h2
    exact ⟨h1, h2.1, by simpa using h2.2⟩

/-- **Dead-block elimination is sound.** -/
theorem deadBlockElim_sound (w : World) (f : Func) (hu : UniqueIds f) (args : List Nat) (fuel : Nat) :
    run w (deadBlockElim f) args fuel = run w f args fuel := by
  unfold deadBlockElim
  cases hR : reachable f with
  | none => rfl
  | some R =>
    obtain ⟨hentry, hclosed⟩ := reachable_closed hR
    simp only [run]
    have he : ({ f with blocks := f.blocks.map (fun B => if B.id ∈ R then B else { B with invalid := true }) } : Func).entry
        = f.entry := by
      simp only [Func.entry]
      cases f.blocks with
      | nil => rfl
      | cons B Bs =>
        simp only [List.map_cons, List.head?_cons, Option.map_some, Option.getD_some]
        split <;> rfl
    rw [he]
    exact runFrom_deadBlock w hu hclosed fuel _ args _ hentry

end Wz.Model.SsaPass
