/- Step lemmas for the straight-line refinement theorem of C01: the regenerated interpreter step
functions, dispatched by typed instruction, equal the typed specification on canonical slots. -/
import Wz.Props.C05
import Wz.Model.InterpStraight

namespace Wz.C01
open Wz.Spec Wz.Go Wz.Gen.InterpNum Wz.Model.InterpStraight Wz.C05

set_option linter.unusedSimpArgs false

theorem interpBin_i32 (op : IBinOp) (a b : BitVec 32) :
    interpBin .i32 op (z b) (z a) =
      match op.eval a b with
      | .ok r => .ok [z r]
      | .error t => .trap (trapName t) := by
  cases op
  case divU => simp only [interpBin, IBinOp.eval, i32_div_u_eq]; cases Int.idivU a b <;> rfl
  case remU => simp only [interpBin, IBinOp.eval, i32_rem_u_eq]; cases Int.iremU a b <;> rfl
  case remS => simp only [interpBin, IBinOp.eval, i32_rem_s_eq]; cases Int.iremS a b <;> rfl
  case divS =>
    simp only [interpBin, IBinOp.eval, i32_div_s_eq]
    by_cases h : b = 0#32
    · simp [h, trapName]
    · simp only [h, if_false]; cases Int.idivS a b <;> rfl
  all_goals
    simp only [interpBin, IBinOp.eval, i32_add_eq, i32_sub_eq, i32_mul_eq, i32_and_eq, i32_or_eq, i32_xor_eq,
      i32_shl_eq, i32_shr_s_eq, i32_shr_u_eq, i32_rotl_eq, i32_rotr_eq]

theorem interpBin_i64 (op : IBinOp) (a b : BitVec 64) :
    interpBin .i64 op b a =
      match op.eval a b with
      | .ok r => .ok [r]
      | .error t => .trap (trapName t) := by
  cases op
  case divU => simp only [interpBin, IBinOp.eval, i64_div_u_eq]; cases Int.idivU a b <;> rfl
  case remU => simp only [interpBin, IBinOp.eval, i64_rem_u_eq]; cases Int.iremU a b <;> rfl
  case remS => simp only [interpBin, IBinOp.eval, i64_rem_s_eq]; cases Int.iremS a b <;> rfl
  case divS =>
    simp only [interpBin, IBinOp.eval, i64_div_s_eq]
    by_cases h : b = 0#64
    · simp [h, trapName]
    · simp only [h, if_false]; cases Int.idivS a b <;> rfl
  all_goals
    simp only [interpBin, IBinOp.eval, i64_add_eq, i64_sub_eq, i64_mul_eq, i64_and_eq, i64_or_eq, i64_xor_eq,
      i64_shl_eq, i64_shr_s_eq, i64_shr_u_eq, i64_rotl_eq, i64_rotr_eq]

theorem interpRel_i32 (op : IRelOp) (a b : BitVec 32) :
    interpRel .i32 op (z b) (z a) = .ok [z (op.eval a b)] := by
  cases op <;> simp only [interpRel, IRelOp.eval, i32_eq_eq, i32_ne_eq, i32_lt_s_eq, i32_lt_u_eq, i32_gt_s_eq,
    i32_gt_u_eq, i32_le_s_eq, i32_le_u_eq, i32_ge_s_eq, i32_ge_u_eq]

theorem interpRel_i64 (op : IRelOp) (a b : BitVec 64) :
    interpRel .i64 op b a = .ok [z (op.eval a b)] := by
  cases op <;> simp only [interpRel, IRelOp.eval, i64_eq_eq, i64_ne_eq, i64_lt_s_eq, i64_lt_u_eq, i64_gt_s_eq,
    i64_gt_u_eq, i64_le_s_eq, i64_le_u_eq, i64_ge_s_eq, i64_ge_u_eq]

theorem interpUn_i32 (op : IUnOp) (a : BitVec 32) :
    interpUn .i32 op (z a) = .ok [z (op.eval a)] := by
  cases op <;> simp only [interpUn, IUnOp.eval, i32_clz_eq, i32_ctz_eq, i32_popcnt_eq]

theorem interpUn_i64 (op : IUnOp) (a : BitVec 64) :
    interpUn .i64 op a = .ok [op.eval a] := by
  cases op <;> simp only [interpUn, IUnOp.eval, i64_clz_eq, i64_ctz_eq, i64_popcnt_eq]



theorem slot_i32 (v : BitVec 32) : slot (.i32 v) = z v := rfl
theorem slot_i64 (v : BitVec 64) : slot (.i64 v) = v := rfl

theorem ieqz_z (a : BitVec 32) : Int.ieqz (z a) = Int.ieqz a := by
  have h : a.toNat % 18446744073709551616 = a.toNat := Nat.mod_eq_of_lt (by have := a.isLt; omega)
  simp [Int.ieqz, z, h]

/-- one step: on a typed stack the interpreter's regenerated step function produces exactly the
specification's result (value, trap kind), never a Go run-time panic, never an underflow -/
theorem step_refines (i : SInstr) (s : List SVal) :
    match specStep i s with
    | .ok s' => interpStep i (s.map slot) = .ok (s'.map slot)
    | .error (.trap t) => interpStep i (s.map slot) = .trap (trapName t)
    | .error .illTyped => True := by
  fun_cases specStep i s
  all_goals first
    | trivial
    | (simp only [List.map_cons, interpStep, slot_i32, slot_i64, interpBin_i32, interpBin_i64, interpRel_i32,
        interpRel_i64, interpUn_i32, interpUn_i64, i32_eqz_eq, i64_eqz_eq, i32_wrap_eq, i64_extend_s_eq,
        i64_extend_u_eq, i32_extend8_s_eq, i32_extend16_s_eq, i64_extend8_s_eq, i64_extend16_s_eq,
        i64_extend32_s_eq, ieqz_z, after, *]
       try simp)

/-- **Straight-line refinement.** For EVERY straight-line integer program and EVERY typed operand
stack: if the specification accepts the program on that stack (no validation error), the interpreter
model — whose step functions are regenerated from interpreter.go — ends with exactly the
specification's stack (each i32 kept zero-extended), or traps with exactly the specification's trap;
it never raises a Go run-time panic and never underflows its stack. -/
theorem interp_refines_spec_straightline (p : List SInstr) (s : List SVal) (o : IOut)
    (h : expected (specRun p s) = some o) : interpRun p (s.map slot) = o := by
  induction p generalizing s with
  | nil =>
    simp [specRun, expected] at h
    simp [interpRun, h]
  | cons i rest ih =>
    have hs := step_refines i s
    simp only [specRun] at h
    simp only [interpRun]
    cases hstep : specStep i s with
    | ok s' =>
      rw [hstep] at hs h
      simp only at hs h
      rw [hs]
      exact ih s' h
    | error e =>
      rw [hstep] at hs h
      cases e with
      | trap t =>
        simp only at hs
        simp [expected] at h
        rw [hs, ← h]
      | illTyped => simp [expected] at h

end Wz.C01
