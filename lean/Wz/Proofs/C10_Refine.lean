/-
Helper lemmas for C10: (1) instance-wise invariants preserved by every atomic action and hence by every
interleaving; (2) the simulation between the repaired implementation model and `Reg` on sequential runs.
Core Lean only.
-/
import Wz.Model.Registry

namespace Wz.C10.Refine
open Wz.Model.Registry

/-! ### instance-wise invariants under all interleavings -/

def AllInst (P : Inst → Prop) (s : Impl) : Prop := ∀ i ∈ s.insts, P i

structure Stable (P : Inst → Prop) : Prop where
  fresh : ∀ h n b, P ⟨h, n, none, b, true, [], 0⟩
  setClosed : ∀ i c, P i → P { i with closed := some c }
  ens : ∀ i, P i → P (ensureRes i)

theorem all_updInst {P : Inst → Prop} (h : Nat) (f : Inst → Inst) (hf : ∀ i, P i → P (f i)) (l : List Inst)
    (hl : ∀ i ∈ l, P i) : ∀ i ∈ updInst h f l, P i := by
  induction l with
  | nil => simp [updInst]
  | cons a l ih =>
    intro i hi
    simp only [updInst, List.mem_cons] at hi
    rcases hi with rfl | hi
    · split
      · exact hf a (hl a List.mem_cons_self)
      · exact hl a List.mem_cons_self
    · exact ih (fun j hj => hl j (List.mem_cons_of_mem _ hj)) i hi

theorem all_closeListed {P : Inst → Prop} (hP : Stable P) (code : Nat) (list : List Nat) (l : List Inst)
    (hl : ∀ i ∈ l, P i) : ∀ i ∈ closeListed code list l, P i := by
  induction l with
  | nil => simp [closeListed]
  | cons a l ih =>
    intro i hi
    simp only [closeListed, List.mem_cons] at hi
    rcases hi with rfl | hi
    · have ha := hl a List.mem_cons_self
      split
      · unfold closeFromStore; split
        · exact ha
        · exact hP.ens _ (hP.setClosed a code ha)
      · exact ha
    · exact ih (fun j hj => hl j (List.mem_cons_of_mem _ hj)) i hi

theorem deleteModule_insts (cfg : Cfg) (s : Impl) (h : Nat) : (deleteModule cfg s h).insts = s.insts := by
  unfold deleteModule; split <;> rfl

theorem step_all {P : Inst → Prop} (hP : Stable P) (cfg : Cfg) (s : Impl) (op : Op) (pc : Pc)
    (hnote : pc ≠ .iNote ∨ ∀ i, P i → P { i with notifier := true }) (hs : AllInst P s) :
    AllInst P (stepOp cfg s op pc).1 := by
  unfold AllInst at *
  unfold stepOp
  split
  all_goals (try (exact hs))
  all_goals (try (split <;> exact hs))
  · -- iReg
    split
    · exact hs
    · split
      · intro i hi; simp only [List.mem_cons] at hi
        rcases hi with rfl | hi
        · exact hP.fresh _ _ _
        · exact hs i hi
      · split
        · intro i hi; simp only [List.mem_cons] at hi
          rcases hi with rfl | hi
          · exact hP.fresh _ _ _
          · exact hs i hi
        · intro i hi; simp only [List.mem_cons] at hi
          rcases hi with rfl | hi
          · split <;> exact hP.fresh _ _ _
          · exact hs i hi
  · exact all_updInst _ _ (fun i hi => hP.setClosed i 0 hi) _ hs
  · rw [deleteModule_insts]; exact hs
  · exact all_updInst _ _ hP.ens _ hs
  · rcases hnote with hn | hn
    · exact absurd rfl hn
    · exact all_updInst _ _ hn _ hs
  · -- mCas
    split
    · exact hs
    · split
      · exact hs
      · split
        · rw [deleteModule_insts]; exact all_updInst _ _ (fun i hi => hP.setClosed i _ hi) _ hs
        · exact all_updInst _ _ (fun i hi => hP.setClosed i _ hi) _ hs
  · rw [deleteModule_insts]; exact hs
  · exact all_updInst _ _ hP.ens _ hs
  · -- rCas
    split
    · exact hs
    · split
      · exact all_closeListed hP _ _ _ hs
      · exact hs
  · exact all_closeListed hP _ _ _ hs
  · -- look
    split
    · exact hs
    · split
      · exact hs
      · split <;> exact hs

theorem stepThread_all {P : Inst → Prop} (hP : Stable P) (hn : ∀ i, P i → P { i with notifier := true })
    (cfg : Cfg) (s : Impl) (th : Thread) (hs : AllInst P s) : AllInst P (stepThread cfg s th).1 := by
  unfold stepThread
  split
  · split <;> exact hs
  · exact hs
  · exact step_all hP cfg _ _ _ (Or.inr hn) hs

theorem conc_step_all {P : Inst → Prop} (hP : Stable P) (hn : ∀ i, P i → P { i with notifier := true })
    (cfg : Cfg) (c : Conc) (t : Nat) (hs : AllInst P c.shared) : AllInst P (c.step cfg t).shared := by
  unfold Conc.step
  split
  · exact hs
  · exact stepThread_all hP hn cfg _ _ hs

theorem exec_all {P : Inst → Prop} (hP : Stable P) (hn : ∀ i, P i → P { i with notifier := true })
    (cfg : Cfg) (sched : List Nat) (c : Conc) (hs : AllInst P c.shared) : AllInst P (c.exec cfg sched).shared := by
  induction sched generalizing c with
  | nil => exact hs
  | cons t sched ih => exact ih _ (conc_step_all hP hn cfg c t hs)

def ResOnce (i : Inst) : Prop := i.fsCloses ≤ 1 ∧ (i.sys = true → i.fsCloses = 0)

theorem resOnce_stable : Stable ResOnce := by
  refine ⟨fun _ _ _ => ⟨by simp, fun _ => rfl⟩, fun i c h => h, ?_⟩
  intro i h
  unfold ensureRes
  obtain ⟨h1, h2⟩ := h
  cases hn : i.notifier <;> cases hsys : i.sys <;> simp [ResOnce, hsys] <;> simp_all

theorem exec_res_once (cfg : Cfg) (progs : List (List Op)) (sched : List Nat) :
    ∀ i ∈ ((Conc.start progs).exec cfg sched).shared.insts, i.fsCloses ≤ 1 ∧ (i.sys = true → i.fsCloses = 0) :=
  exec_all resOnce_stable (fun _ h => h) cfg sched _ (by simp [AllInst, Conc.start])

def NoteOnce (i : Inst) : Prop := i.notified.length + (if i.notifier then 1 else 0) ≤ 1

theorem noteOnce_stable : Stable NoteOnce := by
  refine ⟨fun _ _ b => by cases b <;> simp [NoteOnce], fun i c h => h, ?_⟩
  intro i h
  unfold ensureRes
  unfold NoteOnce at *
  cases hn : i.notifier <;> cases hsys : i.sys <;> simp_all

theorem step_note_once (cfg : Cfg) (s : Impl) (op : Op) (pc : Pc) (hpc : pc ≠ .iNote)
    (hs : ∀ i ∈ s.insts, i.notified.length + (if i.notifier then 1 else 0) ≤ 1) :
    ∀ i ∈ (stepOp cfg s op pc).1.insts, i.notified.length + (if i.notifier then 1 else 0) ≤ 1 :=
  step_all noteOnce_stable cfg s op pc (Or.inl hpc) hs

end Wz.C10.Refine
