/-
C01 / C02 (front end with memory accesses): the canonical embedding `embed mc base bytes` (the two context words and
the non-zero bytes) satisfies `Emb` — the hypothesis of the refinement theorems is satisfiable for every linear
memory below 4 GiB and every placement without overlap and wrap-around.
-/
import Wz.Proofs.C01_FrontMem_Bytes

namespace Wz.Proofs.FrontMem
open Wz.Spec Wz.Model.SsaPass Wz.Model.FrontendSL Wz.Model.FrontendMem

theorem memRead_map (base : Nat) (g : Nat → Nat) : ∀ (js : List Nat) (i : Nat),
    memRead (js.map (fun j => (base + j, g j))) (base + i) = if i ∈ js then g i else 0 := by
  intro js
  induction js with
  | nil => intro i; simp [memRead]
  | cons j js ih =>
    intro i
    simp only [List.map_cons, memRead, List.mem_cons]
    by_cases h : j = i
    · subst h; simp
    · rw [if_neg (by omega), ih]
      by_cases h2 : i ∈ js
      · simp [h2]
      · simp [h2, Ne.symm h]

theorem memRead_map_out (base : Nat) (g : Nat → Nat) : ∀ (js : List Nat) (x : Nat),
    (∀ j ∈ js, base + j ≠ x) → memRead (js.map (fun j => (base + j, g j))) x = 0 := by
  intro js
  induction js with
  | nil => intro x _; rfl
  | cons j js ih =>
    intro x h
    simp only [List.map_cons, memRead]
    rw [if_neg (h j (List.mem_cons_self ..))]
    exact ih x (fun j' hj' => h j' (List.mem_cons_of_mem _ hj'))

theorem embed_emb (mc base : Nat) (bytes : ByteArray) (hdis : mc + 24 ≤ base ∨ base + bytes.size ≤ mc + 8)
    (hmc : mc + 24 ≤ 2 ^ 64) (hbase : base + 2 ^ 34 ≤ 2 ^ 64) (hlen : bytes.size < 2 ^ 32) :
    Emb mc base bytes (embed mc base bytes) := by
  refine ⟨?_, ?_, ?_, by simpa [offMemBase] using hdis, hmc, hbase, hlen⟩
  · intro i hi
    simp only [embed, offMemBase, offMemLen]
    rw [memRead_memStore, if_neg (by omega), memRead_memStore, if_pos (by omega),
      show mc + 8 + i - (mc + 8) = i by omega]
  · intro i hi
    simp only [embed, offMemBase, offMemLen]
    rw [memRead_memStore, if_pos (by omega), show mc + 16 + i - (mc + 16) = i by omega]
  · intro i hi
    simp only [embed, offMemBase, offMemLen]
    rw [memRead_memStore, if_neg (by omega), memRead_memStore, if_neg (by omega), memRead_map]
    by_cases hz : bytes.get! i = 0
    · have : i ∉ (List.range bytes.size).filter (fun i => bytes.get! i ≠ 0) := by
        simp [hz]
      rw [if_neg this, hz]
      rfl
    · have : i ∈ (List.range bytes.size).filter (fun i => bytes.get! i ≠ 0) := by
        simp [hz, hi]
      rw [if_pos this]

end Wz.Proofs.FrontMem
