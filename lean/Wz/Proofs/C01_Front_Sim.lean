import Wz.Proofs.C01_Front_Ops
import Wz.Proofs.C01_SsaPass_Frame

namespace Wz.Proofs.Front
open Wz.Spec Wz.Model.SsaPass Wz.Model.FrontendSL

/-- the SSA state of a straight-line run: no memory, no calls -/
def mk (env : Val → Nat) : St := { env := env, mem := [], trace := [] }

theorem execBody_next {w : World} {i : Instr} {env env' : Val → Nat} (rest : List Instr)
    (h : execInstr w env i (mk env) = .next (mk env')) :
    execBody w [] (i :: rest) (mk env) = execBody w [] rest (mk env') := by
  have : (fun v => (mk env).env (res [] v)) = env := rfl
  simp only [execBody, this, h]

theorem execBody_trap {w : World} {i : Instr} {env : Val → Nat} {c : Nat} {σ : St} (rest : List Instr)
    (h : execInstr w env i (mk env) = .trap c σ) :
    execBody w [] (i :: rest) (mk env) = some (.trap c σ) := by
  have : (fun v => (mk env).env (res [] v)) = env := rfl
  simp only [execBody, this, h]

/-- the invariant of the translation: `s` is the translator's state, `tys` the type stack of the checker,
`stack` / `locals` the frame of the reference semantics, `env` the SSA environment -/
structure Inv (lt : List Ty) (s : LS) (tys : List Ty) (stack : List Nat) (locals : Array Nat) (env : Val → Nat) :
    Prop where
  stk : s.stack.map (fun p => env p.1) = stack
  stkTy : s.stack.map (·.2) = tys
  loc : s.locals.map (fun p => env p.1) = locals.toList
  locTy : s.locals.map (·.2) = lt
  stkR : ∀ p ∈ s.stack, env p.1 < 2 ^ p.2.bits
  locR : ∀ p ∈ s.locals, env p.1 < 2 ^ p.2.bits
  stkF : ∀ p ∈ s.stack, p.1 < s.next
  locF : ∀ p ∈ s.locals, p.1 < s.next

theorem map_upd_fresh {l : List TV} {n : Nat} (env : Val → Nat) (x : Nat) (h : ∀ p ∈ l, p.1 < n) :
    l.map (fun p => upd env n x p.1) = l.map (fun p => env p.1) := by
  apply List.map_congr_left
  intro p hp
  have := h p hp
  simp only [upd]
  rw [if_neg (show ¬ p.1 = n by omega)]

theorem Inv.uncons {lt s t tys stack locals env} (h : Inv lt s (t :: tys) stack locals env) :
    ∃ v srest x stack', s.stack = (v, t) :: srest ∧ stack = x :: stack' ∧ env v = x ∧ x < 2 ^ t.bits ∧
      v < s.next ∧ Inv lt { s with stack := srest } tys stack' locals env := by
  obtain ⟨hstk, hty, hloc, hlt, hR, hLR, hF, hLF⟩ := h
  obtain ⟨next, stk, locs⟩ := s
  simp only at hstk hty hloc hlt hR hLR hF hLF ⊢
  cases stk with
  | nil => simp at hty
  | cons p srest =>
    obtain ⟨v, t'⟩ := p
    simp only [List.map_cons, List.cons.injEq] at hty
    obtain ⟨rfl, hty⟩ := hty
    refine ⟨v, srest, env v, srest.map (fun p => env p.1), rfl, ?_, rfl, ?_, ?_, ?_⟩
    · rw [← hstk]; rfl
    · exact hR (v, t') (List.mem_cons_self ..)
    · exact hF (v, t') (List.mem_cons_self ..)
    · exact ⟨rfl, hty, hloc, hlt, fun p hp => hR p (List.mem_cons_of_mem _ hp), hLR,
        fun p hp => hF p (List.mem_cons_of_mem _ hp), hLF⟩

/-- pushing the result of a new instruction -/
theorem Inv.pushNew {lt s tys stack locals env} (h : Inv lt s tys stack locals env) (t : Ty) (x : Nat)
    (hx : x < 2 ^ t.bits) (k : Nat) (hk : 1 ≤ k) :
    Inv lt { s with next := s.next + k, stack := (s.next + k - 1, t) :: s.stack } (t :: tys) (x :: stack) locals
      (upd env (s.next + k - 1) x) := by
  obtain ⟨hstk, hty, hloc, hlt, hR, hLR, hF, hLF⟩ := h
  have hF' : ∀ p ∈ s.stack, p.1 < s.next + k - 1 := fun p hp => by have := hF p hp; omega
  have hLF' : ∀ p ∈ s.locals, p.1 < s.next + k - 1 := fun p hp => by have := hLF p hp; omega
  refine ⟨?_, ?_, ?_, hlt, ?_, ?_, ?_, ?_⟩
  · simp only [List.map_cons, upd, if_true]
    rw [← hstk]
    congr 1
    exact map_upd_fresh env x hF'
  · simp only [List.map_cons, hty]
  · rw [← hloc]; exact map_upd_fresh env x hLF'
  · intro p hp
    simp only [List.mem_cons] at hp
    rcases hp with rfl | hp
    · simp only [upd, if_true]; exact hx
    · have := hF' p hp
      simp only [upd]; rw [if_neg (show ¬ p.1 = _ by omega)]; exact hR p hp
  · intro p hp
    have := hLF' p hp
    simp only [upd]; rw [if_neg (show ¬ p.1 = _ by omega)]; exact hLR p hp
  · intro p hp
    simp only [List.mem_cons] at hp
    rcases hp with rfl | hp
    · simp only; omega
    · have := hF p hp; simp only; omega
  · intro p hp; have := hLF p hp; simp only; omega

/-- an environment update at a fresh value keeps the invariant -/
theorem Inv.updFresh {lt s tys stack locals env} (h : Inv lt s tys stack locals env) (x : Nat) :
    Inv lt { s with next := s.next + 1 } tys stack locals (upd env s.next x) := by
  obtain ⟨hstk, hty, hloc, hlt, hR, hLR, hF, hLF⟩ := h
  refine ⟨?_, hty, ?_, hlt, ?_, ?_, ?_, ?_⟩
  · rw [← hstk]; exact map_upd_fresh env x hF
  · rw [← hloc]; exact map_upd_fresh env x hLF
  · intro p hp; have := hF p hp
    simp only [upd]; rw [if_neg (show ¬ p.1 = _ by omega)]; exact hR p hp
  · intro p hp; have := hLF p hp
    simp only [upd]; rw [if_neg (show ¬ p.1 = _ by omega)]; exact hLR p hp
  · intro p hp; have := hF p hp; simp only; omega
  · intro p hp; have := hLF p hp; simp only; omega

theorem arr_get (a : Array Nat) (l : List Nat) (h : l = a.toList) (i : Nat) : a[i]! = (l[i]?).getD 0 := by
  subst h
  simp [getElem!_def]
  rfl

theorem Inv.local {lt s tys stack locals env} (h : Inv lt s tys stack locals env) {i : Nat} {t : Ty}
    (hi : lt[i]? = some t) :
    ∃ p, s.locals[i]? = some p ∧ p.2 = t ∧ locals[i]! = env p.1 ∧ p ∈ s.locals ∧ i < locals.size := by
  have h1 : (s.locals.map (·.2))[i]? = some t := by rw [h.locTy]; exact hi
  rw [List.getElem?_map] at h1
  cases hp : s.locals[i]? with
  | none => simp [hp] at h1
  | some p =>
    simp only [hp, Option.map_some, Option.some.injEq] at h1
    refine ⟨p, rfl, h1, ?_, List.mem_of_getElem? hp, ?_⟩
    · rw [arr_get locals _ h.loc, List.getElem?_map, hp]; rfl
    · have := congrArg List.length h.loc
      simp only [List.length_map, Array.length_toList] at this
      have := (List.getElem?_eq_some_iff.mp hp).1
      omega

theorem Inv.setLocal {lt s tys stack locals env} (h : Inv lt s tys stack locals env) {i : Nat} {p : TV}
    (hi : lt[i]? = some p.2) (hR : env p.1 < 2 ^ p.2.bits) (hF : p.1 < s.next) :
    Inv lt { s with locals := s.locals.set i p } tys stack (locals.set! i (env p.1)) env := by
  obtain ⟨hstk, hty, hloc, hlt, hSR, hLR, hSF, hLF⟩ := h
  refine ⟨hstk, hty, ?_, ?_, hSR, ?_, hSF, ?_⟩
  · simp only [List.map_set, hloc, Array.set!, Array.toList_setIfInBounds]
  · simp only [List.map_set, hlt]
    obtain ⟨hlen, hget⟩ := List.getElem?_eq_some_iff.mp hi
    rw [← hget]; exact List.set_getElem_self hlen
  · intro q hq
    rcases List.mem_or_eq_of_mem_set hq with hq | rfl
    · exact hLR q hq
    · exact hR
  · intro q hq
    rcases List.mem_or_eq_of_mem_set hq with hq | rfl
    · exact hLF q hq
    · exact hF
/-- the outcome of one instruction of the fragment, related in both semantics -/
def StepOK (w : World) (m : Wasm.Module) (lt : List Ty) (i : SI) (s : LS) (tys' : List Ty)
    (stack : List Nat) (locals : Array Nat) (env : Val → Nat) (st : Wasm.Store) (n : Nat) : Prop :=
  (∃ stack' locals' env',
      Wasm.execInstr m (n + 1) i.toInstr ⟨stack, locals⟩ st = (.next, ⟨stack', locals'⟩, st) ∧
      (∀ rest, execBody w [] ((lowerI i s).1 ++ rest) (mk env) = execBody w [] rest (mk env')) ∧
      Inv lt (lowerI i s).2 tys' stack' locals' env') ∨
  (∃ code fr', Wasm.execInstr m (n + 1) i.toInstr ⟨stack, locals⟩ st = (.trap (trapKind code), fr', st) ∧
      (∀ rest, execBody w [] ((lowerI i s).1 ++ rest) (mk env) = some (.trap code (mk env))) ∧
      (code = codeDivByZero ∨ code = codeOverflow))

theorem mk_set (env : Val → Nat) (r : Val) (v : Nat) : (mk env).set r v = mk (upd env r v) := rfl

variable {w : World} {m : Wasm.Module} {lt : List Ty} {s : LS} {tys tys' : List Ty} {stack : List Nat}
  {locals : Array Nat} {env : Val → Nat} {st : Wasm.Store} {n : Nat}

theorem step_const (t : Ty) (v : Nat) (hinv : Inv lt s tys stack locals env)
    (htc : tcStep lt (.const t v) tys = some tys') :
    StepOK w m lt (.const t v) s tys' stack locals env st n := by
  simp only [tcStep, Option.some.injEq] at htc
  subst htc
  refine .inl ⟨(v % 2 ^ t.bits) :: stack, locals, upd env s.next (v % 2 ^ t.bits), ?_, ?_, ?_⟩
  · simp only [SI.toInstr, Wasm.execInstr]
  · intro rest
    simp only [lowerI, List.cons_append, List.nil_append]
    exact execBody_next rest (by simp only [execInstr, mk_set, norm, Nat.mod_mod])
  · have := hinv.pushNew t (v % 2 ^ t.bits) (Nat.mod_lt _ (Nat.two_pow_pos _)) 1 (Nat.le_refl _)
    simpa [lowerI, LS.pushNew, norm, Nat.mod_mod] using this
theorem step_localGet (i : Nat) (hinv : Inv lt s tys stack locals env)
    (htc : tcStep lt (.localGet i) tys = some tys') :
    StepOK w m lt (.localGet i) s tys' stack locals env st n := by
  simp only [tcStep] at htc
  cases hi : lt[i]? with
  | none => simp [hi] at htc
  | some t =>
    simp only [hi, Option.map_some, Option.some.injEq] at htc
    subst htc
    obtain ⟨p, hp, hpt, hval, hmem, _⟩ := hinv.local hi
    have hgetD : s.locals.getD i (0, .i32) = p := by simp [List.getD, hp]
    refine .inl ⟨locals[i]! :: stack, locals, env, ?_, ?_, ?_⟩
    · simp only [SI.toInstr, Wasm.execInstr]
    · intro rest; simp only [lowerI, List.nil_append]
    · obtain ⟨hstk, hty, hloc, hlt, hSR, hLR, hSF, hLF⟩ := hinv
      simp only [lowerI, LS.push, hgetD]
      refine ⟨?_, ?_, hloc, hlt, ?_, hLR, ?_, hLF⟩
      · simp only [List.map_cons, hstk, hval]
      · simp only [List.map_cons, hty, hpt]
      · intro q hq
        rcases List.mem_cons.mp hq with rfl | hq
        · exact hLR _ hmem
        · exact hSR q hq
      · intro q hq
        rcases List.mem_cons.mp hq with rfl | hq
        · exact hLF _ hmem
        · exact hSF q hq

theorem step_localSet (i : Nat) (hinv : Inv lt s tys stack locals env)
    (htc : tcStep lt (.localSet i) tys = some tys') :
    StepOK w m lt (.localSet i) s tys' stack locals env st n := by
  match tys, htc, hinv with
  | [], h, _ => simp [tcStep] at h
  | a :: r, h, hinv =>
    simp only [tcStep] at h
    split at h
    · rename_i hi
      simp only [Option.some.injEq] at h; subst h
      obtain ⟨v, s1, x, stk1, hs1, rfl, hx, hxR, hxF, inv1⟩ := hinv.uncons
      have inv2 := inv1.setLocal (i := i) (p := (v, a)) hi (by simpa [hx] using hxR) hxF
      refine .inl ⟨stk1, locals.set! i x, env, ?_, ?_, ?_⟩
      · simp only [SI.toInstr, Wasm.execInstr]
      · intro rest; simp only [lowerI, List.nil_append]
      · simpa [lowerI, LS.pop, hs1, hx] using inv2
    · cases h

theorem step_localTee (i : Nat) (hinv : Inv lt s tys stack locals env)
    (htc : tcStep lt (.localTee i) tys = some tys') :
    StepOK w m lt (.localTee i) s tys' stack locals env st n := by
  match tys, htc, hinv with
  | [], h, _ => simp [tcStep] at h
  | a :: r, h, hinv =>
    simp only [tcStep] at h
    split at h
    · rename_i hi
      simp only [Option.some.injEq] at h; subst h
      obtain ⟨v, s1, x, stk1, hs1, rfl, hx, hxR, hxF, _⟩ := hinv.uncons
      have inv2 := hinv.setLocal (i := i) (p := (v, a)) hi (by simpa [hx] using hxR) hxF
      refine .inl ⟨x :: stk1, locals.set! i x, env, ?_, ?_, ?_⟩
      · simp only [SI.toInstr, Wasm.execInstr]
      · intro rest; simp only [lowerI, List.nil_append]
      · simpa [lowerI, LS.peek, hs1, hx] using inv2
    · cases h

theorem step_drop (hinv : Inv lt s tys stack locals env)
    (htc : tcStep lt .drop tys = some tys') :
    StepOK w m lt .drop s tys' stack locals env st n := by
  match tys, htc, hinv with
  | [], h, _ => simp [tcStep] at h
  | a :: r, h, hinv =>
    simp only [tcStep, Option.some.injEq] at h
    subst h
    obtain ⟨v, s1, x, stk1, hs1, rfl, hx, hxR, hxF, inv1⟩ := hinv.uncons
    refine .inl ⟨stk1, locals, env, ?_, ?_, ?_⟩
    · simp only [SI.toInstr, Wasm.execInstr]
    · intro rest; simp only [lowerI, List.nil_append]
    · simpa [lowerI, LS.pop, hs1] using inv1

theorem step_select (hinv : Inv lt s tys stack locals env)
    (htc : tcStep lt .select tys = some tys') :
    StepOK w m lt .select s tys' stack locals env st n := by
  match tys, htc, hinv with
  | [], h, _ => simp [tcStep] at h
  | [_], h, _ => simp [tcStep] at h
  | [_, _], h, _ => simp [tcStep] at h
  | c :: b :: a :: r, h, hinv =>
    simp only [tcStep] at h
    split at h
    · rename_i hab
      obtain ⟨rfl, rfl⟩ := hab
      simp only [Option.some.injEq] at h; subst h
      obtain ⟨vc, s1, xc, stk1, hs1, rfl, hc, hcR, hcF, inv1⟩ := hinv.uncons
      obtain ⟨v2, s2, x2, stk2, hs2, rfl, h2, h2R, h2F, inv2⟩ := inv1.uncons
      obtain ⟨v1, s3, x1, stk3, hs3, rfl, h1, h1R, h1F, inv3⟩ := inv2.uncons
      obtain ⟨next, stk, locs⟩ := s
      simp only at hs1 hs2 hs3 hcF h2F h1F inv3
      subst hs1; subst hs2; subst hs3
      have hval : (if xc % 2 ^ 32 != 0 then x1 else x2) < 2 ^ a.bits := by split <;> assumption
      refine .inl ⟨(if xc % 2 ^ 32 != 0 then x1 else x2) :: stk3, locals,
        upd env next (if xc % 2 ^ 32 != 0 then x1 else x2), ?_, ?_, ?_⟩
      · simp only [SI.toInstr, Wasm.execInstr]
      · intro rest
        simp only [lowerI, LS.pop, List.headD_cons, List.tail_cons, List.cons_append, List.nil_append]
        refine execBody_next rest ?_
        have hc' : xc % 2 ^ 32 = xc := Nat.mod_eq_of_lt hcR
        simp only [execInstr, mk_set, hc, h1, h2, hc']
        congr 2
        by_cases h0 : xc = 0
        · simp [h0, norm_of_lt h2R]
        · simp [h0, norm_of_lt h1R]
      · have := inv3.pushNew a _ hval 1 (Nat.le_refl _)
        simpa [lowerI, LS.pop, LS.pushNew] using this
    · cases h

theorem step_bin (t : Ty) (op : IBin) (hinv : Inv lt s tys stack locals env)
    (htc : tcStep lt (.bin t op) tys = some tys') :
    StepOK w m lt (.bin t op) s tys' stack locals env st n := by
  match tys, htc, hinv with
  | [], h, _ => simp [tcStep] at h
  | [_], h, _ => simp [tcStep] at h
  | b :: a :: r, h, hinv =>
    simp only [tcStep] at h
    split at h
    · rename_i hab
      obtain ⟨rfl, rfl⟩ := hab
      simp only [Option.some.injEq] at h; subst h
      obtain ⟨vy, s1, y, stk1, hs1, rfl, hy, hyR, hyF, inv1⟩ := hinv.uncons
      obtain ⟨vx, s2, x, stk2, hs2, rfl, hx, hxR, hxF, inv2⟩ := inv1.uncons
      obtain ⟨next, stk, locs⟩ := s
      simp only at hs1 hs2 hyF hxF inv2
      subst hs1; subst hs2
      refine .inl ⟨evalBin op.toSsa b x y :: stk2, locals, upd env next (evalBin op.toSsa b x y), ?_, ?_, ?_⟩
      · simp only [SI.toInstr, Wasm.execInstr, scalar_bin b op x y hyR, Wasm.numResult]
      · intro rest
        simp only [lowerI, LS.pop, List.headD_cons, List.tail_cons, List.cons_append, List.nil_append]
        exact execBody_next rest (by simp only [execInstr, mk_set, hx, hy])
      · have := inv2.pushNew b _ (evalBin_lt op.toSsa b x y) 1 (Nat.le_refl _)
        simpa [lowerI, LS.pop, LS.pushNew] using this
    · cases h

theorem step_rel (t : Ty) (op : IRel) (hinv : Inv lt s tys stack locals env)
    (htc : tcStep lt (.rel t op) tys = some tys') :
    StepOK w m lt (.rel t op) s tys' stack locals env st n := by
  match tys, htc, hinv with
  | [], h, _ => simp [tcStep] at h
  | [_], h, _ => simp [tcStep] at h
  | b :: a :: r, h, hinv =>
    simp only [tcStep] at h
    split at h
    · rename_i hab
      obtain ⟨rfl, rfl⟩ := hab
      simp only [Option.some.injEq] at h; subst h
      obtain ⟨vy, s1, y, stk1, hs1, rfl, hy, hyR, hyF, inv1⟩ := hinv.uncons
      obtain ⟨vx, s2, x, stk2, hs2, rfl, hx, hxR, hxF, inv2⟩ := inv1.uncons
      obtain ⟨next, stk, locs⟩ := s
      simp only at hs1 hs2 hyF hxF inv2
      subst hs1; subst hs2
      refine .inl ⟨evalCond op.toSsa b x y :: stk2, locals, upd env next (evalCond op.toSsa b x y), ?_, ?_, ?_⟩
      · simp only [SI.toInstr, Wasm.execInstr, scalar_rel b op x y, Wasm.numResult]
      · intro rest
        simp only [lowerI, LS.pop, List.headD_cons, List.tail_cons, List.cons_append, List.nil_append]
        exact execBody_next rest (by simp only [execInstr, mk_set, hx, hy])
      · have := inv2.pushNew .i32 _ (evalCond_lt op.toSsa b x y) 1 (Nat.le_refl _)
        simpa [lowerI, LS.pop, LS.pushNew] using this
    · cases h

theorem step_eqz (t : Ty) (hinv : Inv lt s tys stack locals env)
    (htc : tcStep lt (.eqz t) tys = some tys') :
    StepOK w m lt (.eqz t) s tys' stack locals env st n := by
  match tys, htc, hinv with
  | [], h, _ => simp [tcStep] at h
  | a :: r, h, hinv =>
    simp only [tcStep] at h
    split at h
    · rename_i hab
      subst hab
      simp only [Option.some.injEq] at h; subst h
      obtain ⟨vx, s1, x, stk1, hs1, rfl, hx, hxR, hxF, inv1⟩ := hinv.uncons
      obtain ⟨next, stk, locs⟩ := s
      simp only at hs1 hxF inv1
      subst hs1
      refine .inl ⟨evalCond .eq a x 0 :: stk1, locals,
        upd (upd env next 0) (next + 1) (evalCond .eq a x 0), ?_, ?_, ?_⟩
      · simp only [SI.toInstr, Wasm.execInstr, scalar_eqz a x, Wasm.numResult]
      · intro rest
        simp only [lowerI, LS.pop, List.headD_cons, List.tail_cons, List.cons_append, List.nil_append]
        rw [execBody_next (env' := upd env next 0) _ (by simp only [execInstr, mk_set, norm, Nat.zero_mod])]
        refine execBody_next rest ?_
        have h1 : upd env next 0 vx = x := by
          simp only [upd]; rw [if_neg (show ¬ vx = next by omega)]; exact hx
        have h2 : upd env next 0 next = 0 := by simp only [upd, if_true]
        simp only [execInstr, mk_set, h1, h2]
      · have := (inv1.updFresh 0).pushNew .i32 _ (evalCond_lt .eq a x 0) 1 (Nat.le_refl _)
        simpa [lowerI, LS.pop, LS.pushNew] using this
    · cases h

/-- the unary instructions that pop one value of type `a` and push the result of one SSA instruction -/
theorem step_un1 (i : SI) (name : String) (uop : UnOp) (a rt : Ty)
    (hI : i.toInstr = .num1 name)
    (hL : ∀ (next : Nat) (vx : Nat) (s1 : List TV) (locs : List TV),
      lowerI i ⟨next, (vx, a) :: s1, locs⟩ = ([.un uop next rt vx], ⟨next + 1, (next, rt) :: s1, locs⟩))
    (hS : ∀ x, x < 2 ^ a.bits → Num.scalar name [x] = some (.val (evalUn uop rt x)))
    (hinv : Inv lt s (a :: tys) stack locals env) :
    StepOK w m lt i s (rt :: tys) stack locals env st n := by
  obtain ⟨vx, s1, x, stk1, hs1, rfl, hx, hxR, hxF, inv1⟩ := hinv.uncons
  obtain ⟨next, stk, locs⟩ := s
  simp only at hs1 hxF inv1
  subst hs1
  refine .inl ⟨evalUn uop rt x :: stk1, locals, upd env next (evalUn uop rt x), ?_, ?_, ?_⟩
  · simp only [hI, Wasm.execInstr, hS x hxR, Wasm.numResult]
  · intro rest
    simp only [hL, List.cons_append, List.nil_append]
    exact execBody_next rest (by simp only [execInstr, mk_set, hx])
  · have := inv1.pushNew rt _ (evalUn_lt uop rt x) 1 (Nat.le_refl _)
    simpa [hL] using this

theorem step_cnt (t : Ty) (op : ICnt) (hinv : Inv lt s tys stack locals env)
    (htc : tcStep lt (.cnt t op) tys = some tys') :
    StepOK w m lt (.cnt t op) s tys' stack locals env st n := by
  match tys, htc, hinv with
  | [], h, _ => simp [tcStep] at h
  | a :: r, h, hinv =>
    simp only [tcStep] at h
    split at h
    · rename_i hab
      subst hab
      simp only [Option.some.injEq] at h; subst h
      exact step_un1 (.cnt a op) (cntName a op) op.toSsa a a rfl (fun _ _ _ _ => rfl)
        (fun x _ => scalar_cnt a op x) hinv
    · cases h

theorem step_wrap (hinv : Inv lt s tys stack locals env) (htc : tcStep lt .wrap tys = some tys') :
    StepOK w m lt .wrap s tys' stack locals env st n := by
  match tys, htc, hinv with
  | [], h, _ => simp [tcStep] at h
  | a :: r, h, hinv =>
    simp only [tcStep] at h
    split at h
    · rename_i hab
      subst hab
      simp only [Option.some.injEq] at h; subst h
      exact step_un1 .wrap "i32.wrap_i64" .ireduce .i64 .i32 rfl (fun _ _ _ _ => rfl)
        (fun x _ => scalar_wrap x) hinv
    · cases h

theorem step_extendS (hinv : Inv lt s tys stack locals env) (htc : tcStep lt .extendS tys = some tys') :
    StepOK w m lt .extendS s tys' stack locals env st n := by
  match tys, htc, hinv with
  | [], h, _ => simp [tcStep] at h
  | a :: r, h, hinv =>
    simp only [tcStep] at h
    split at h
    · rename_i hab
      subst hab
      simp only [Option.some.injEq] at h; subst h
      exact step_un1 .extendS "i64.extend_i32_s" .sextend .i32 .i64 rfl (fun _ _ _ _ => rfl)
        (fun x _ => scalar_extendS x) hinv
    · cases h

theorem step_extendU (hinv : Inv lt s tys stack locals env) (htc : tcStep lt .extendU tys = some tys') :
    StepOK w m lt .extendU s tys' stack locals env st n := by
  match tys, htc, hinv with
  | [], h, _ => simp [tcStep] at h
  | a :: r, h, hinv =>
    simp only [tcStep] at h
    split at h
    · rename_i hab
      subst hab
      simp only [Option.some.injEq] at h; subst h
      exact step_un1 .extendU "i64.extend_i32_u" .uextend .i32 .i64 rfl (fun _ _ _ _ => rfl)
        (fun x _ => scalar_extendU x) hinv
    · cases h

theorem step_extend32S (hinv : Inv lt s tys stack locals env) (htc : tcStep lt .extend32S tys = some tys') :
    StepOK w m lt .extend32S s tys' stack locals env st n := by
  match tys, htc, hinv with
  | [], h, _ => simp [tcStep] at h
  | a :: r, h, hinv =>
    simp only [tcStep] at h
    split at h
    · rename_i hab
      subst hab
      simp only [Option.some.injEq] at h; subst h
      exact step_un1 .extend32S "i64.extend32_s" .sextend .i64 .i64 rfl (fun _ _ _ _ => rfl)
        (fun x _ => scalar_extend32S x) hinv
    · cases h

theorem step_div (t : Ty) (op : IDiv) (hinv : Inv lt s tys stack locals env)
    (htc : tcStep lt (.div t op) tys = some tys') :
    StepOK w m lt (.div t op) s tys' stack locals env st n := by
  match tys, htc, hinv with
  | [], h, _ => simp [tcStep] at h
  | [_], h, _ => simp [tcStep] at h
  | b :: a :: r, h, hinv =>
    simp only [tcStep] at h
    split at h
    · rename_i hab
      obtain ⟨rfl, rfl⟩ := hab
      simp only [Option.some.injEq] at h; subst h
      obtain ⟨vy, s1, y, stk1, hs1, rfl, hy, hyR, hyF, inv1⟩ := hinv.uncons
      obtain ⟨vx, s2, x, stk2, hs2, rfl, hx, hxR, hxF, inv2⟩ := inv1.uncons
      obtain ⟨next, stk, locs⟩ := s
      simp only at hs1 hs2 hyF hxF inv2
      subst hs1; subst hs2
      cases hd : evalDiv op.toSsa b x y with
      | ok v =>
        refine .inl ⟨v :: stk2, locals, upd env next v, ?_, ?_, ?_⟩
        · simp only [SI.toInstr, Wasm.execInstr, scalar_div b op x y, hd, divRes, Wasm.numResult]
        · intro rest
          simp only [lowerI, LS.pop, List.headD_cons, List.tail_cons, List.cons_append, List.nil_append]
          exact execBody_next rest (by simp only [execInstr, mk_set, hx, hy, hd])
        · have := inv2.pushNew b _ (evalDiv_lt _ _ _ _ _ hd) 1 (Nat.le_refl _)
          simpa [lowerI, LS.pop, LS.pushNew] using this
      | error code =>
        refine .inr ⟨code, ⟨y :: x :: stk2, locals⟩, ?_, ?_, evalDiv_code hd⟩
        · simp only [SI.toInstr, Wasm.execInstr, scalar_div b op x y, hd, divRes, Wasm.numResult]
        · intro rest
          simp only [lowerI, LS.pop, List.headD_cons, List.tail_cons, List.cons_append, List.nil_append]
          exact execBody_trap rest (by simp only [execInstr, hx, hy, hd])
    · cases h

end Wz.Proofs.Front
