import Wz.Model.InstrGroups

/-! Lemmas about instruction groups (see `Wz.Model.InstrGroups`). -/
namespace Wz.Model.InstrGroups

theorem countStrict_append (l1 l2 : List Ins) : countStrict (l1 ++ l2) = countStrict l1 + countStrict l2 := by
  induction l1 with
  | nil => simp [countStrict]
  | cons i is ih => simp [countStrict, ih]; omega

theorem bump_eq (g : Nat) (i : Ins) : bump g i.eff = g + (if i.eff = .strict then 1 else 0) := by
  unfold bump; split <;> simp

theorem gidsFrom_length (g : Nat) (l : List Ins) : (gidsFrom g l).length = l.length := by
  induction l generalizing g with
  | nil => rfl
  | cons i is ih => simp [gidsFrom, ih]

theorem gidsFrom_append (g : Nat) (l1 l2 : List Ins) :
    gidsFrom g (l1 ++ l2) = gidsFrom g l1 ++ gidsFrom (g + countStrict l1) l2 := by
  induction l1 generalizing g with
  | nil => simp [gidsFrom, countStrict]
  | cons i is ih =>
    simp only [List.cons_append, gidsFrom, countStrict, ih, bump_eq]
    rw [Nat.add_assoc]

/-- the group of the instruction that follows the prefix `pre` -/
theorem gid_after_prefix (g : Nat) (pre : List Ins) (a : Ins) (rest : List Ins) :
    (gidsFrom g (pre ++ a :: rest))[pre.length]? = some (g + countStrict pre) := by
  rw [gidsFrom_append]
  rw [List.getElem?_append_right (by simp [gidsFrom_length])]
  simp [gidsFrom_length, gidsFrom]

theorem countStrict_zero {l : List Ins} (h : countStrict l = 0) : ∀ i ∈ l, i.eff ≠ .strict := by
  induction l with
  | nil => intro i hi; cases hi
  | cons x xs ih =>
    intro i hi
    simp only [countStrict] at h
    cases hi with
    | head => intro hs; simp [hs] at h
    | tail _ hm => exact ih (by omega) i hm

/-! ### the machine -/

theorem upd_comm (f : Nat → Nat) {a b : Nat} (h : a ≠ b) (v w : Nat) :
    upd (upd f a v) b w = upd (upd f b w) a v := by
  funext x
  unfold upd
  by_cases h1 : x = b <;> by_cases h2 : x = a
  · subst h1; subst h2; exact absurd rfl h
  · simp [h1]; intro hba; exact absurd hba.symm h
  · simp [h2]; intro hab; exact absurd hab h
  · simp [h1, h2]

theorem upd_other (f : Nat → Nat) {k x : Nat} (h : x ≠ k) (v : Nat) : upd f k v x = f x := by
  unfold upd; simp [h]

theorem exec_append (l1 l2 : List Ins) (s : State) : exec (l1 ++ l2) s = (exec l1 s).bind (exec l2) := by
  induction l1 generalizing s with
  | nil => simp [exec]
  | cons i is ih =>
    simp only [List.cons_append, exec]
    cases step i s with
    | none => simp
    | some s' => simp [ih]

/-- A non-strict instruction that does not touch register `d` commutes with setting `d`. -/
theorem step_setReg (i : Ins) (d v : Nat) (s : State) (he : i.eff ≠ .strict) (hi : Indep d i) :
    step i (s.setReg d v) = (step i s).map (fun s' => s'.setReg d v) := by
  cases i with
  | load dst a =>
    simp only [Indep] at hi
    simp only [step, State.setReg, Option.map_some]
    rw [upd_comm _ (Ne.symm hi)]
  | pure dst f =>
    simp only [Indep] at hi
    simp only [step, State.setReg, Option.map_some]
    rw [hi.2, upd_comm _ (Ne.symm hi.1)]
  | trapIf c =>
    simp only [Indep] at hi
    have hc : upd s.regs d v c = s.regs c := upd_other _ hi v
    simp only [step, State.setReg, hc]
    split <;> simp
  | store a r => simp [Ins.eff] at he
  | call g => simp [Ins.eff] at he

/-- A non-strict instruction leaves the memory as it is. -/
theorem step_mem (i : Ins) (s s' : State) (he : i.eff ≠ .strict) (h : step i s = some s') : s'.mem = s.mem := by
  cases i with
  | load dst a => simp only [step, State.setReg] at h; cases h; rfl
  | pure dst f => simp only [step, State.setReg] at h; cases h; rfl
  | trapIf c =>
    simp only [step] at h
    split at h
    · cases h; rfl
    · cases h
  | store a r => simp [Ins.eff] at he
  | call g => simp [Ins.eff] at he

theorem exec_setReg (l : List Ins) (d v : Nat) (s : State)
    (h : ∀ i ∈ l, i.eff ≠ .strict ∧ Indep d i) :
    exec l (s.setReg d v) = (exec l s).map (fun s' => s'.setReg d v) := by
  induction l generalizing s with
  | nil => simp [exec]
  | cons i is ih =>
    have hi := h i (List.mem_cons_self ..)
    simp only [exec]
    rw [step_setReg i d v s hi.1 hi.2]
    cases step i s with
    | none => simp
    | some s' =>
      simp only [Option.map_some, Option.bind_some]
      exact ih s' (fun j hj => h j (List.mem_cons_of_mem _ hj))

theorem exec_mem (l : List Ins) (s s' : State) (h : ∀ i ∈ l, i.eff ≠ .strict) (he : exec l s = some s') :
    s'.mem = s.mem := by
  induction l generalizing s with
  | nil => simp only [exec] at he; cases he; rfl
  | cons i is ih =>
    simp only [exec] at he
    cases hs : step i s with
    | none => simp [hs] at he
    | some s1 =>
      simp only [hs, Option.bind_some] at he
      rw [ih s1 (fun j hj => h j (List.mem_cons_of_mem _ hj)) he]
      exact step_mem i s s1 (h i (List.mem_cons_self ..)) hs

/-- Sinking a load past non-strict instructions that do not touch its register changes nothing. -/
theorem sink_load (d a : Nat) (mid rest : List Ins) (s : State)
    (h : ∀ i ∈ mid, i.eff ≠ .strict ∧ Indep d i) :
    exec (Ins.load d a :: (mid ++ rest)) s = exec (mid ++ Ins.load d a :: rest) s := by
  simp only [exec, step, Option.bind_some]
  rw [exec_append, exec_append, exec_setReg mid d (s.mem a) s h]
  cases hm : exec mid s with
  | none => simp
  | some s' =>
    have hmem := exec_mem mid s s' (fun i hi => (h i hi).1) hm
    simp only [Option.map_some, Option.bind_some, exec, step, hmem]

end Wz.Model.InstrGroups
