/-
C13 — proofs about the cache-entry codec model (Wz.Model.CacheEntry).
Core Lean only (no Mathlib in this project).
-/
import Wz.Model.CacheEntry

namespace Wz.C13.Entry
open Wz.Model.CacheEntry

/-! ### little-endian codec -/

theorem le_length (n v : Nat) : (le n v).length = n := by
  induction n generalizing v with
  | zero => rfl
  | succ n ih => simp [le, ih]

theorem leDec_le (n v : Nat) : leDec (le n v) = v % 256 ^ n := by
  induction n generalizing v with
  | zero => simp [le, leDec, Nat.mod_one]
  | succ n ih =>
    simp only [le, leDec, ih]
    rw [Nat.pow_succ, Nat.mul_comm (256 ^ n) 256, Nat.mod_mul]

theorem leDec_le4 (v : Nat) : leDec (le 4 v) = v % 2 ^ 32 := by
  rw [leDec_le]

theorem leDec_le8 (v : Nat) (h : v < 2 ^ 64) : leDec (le 8 v) = v := by
  rw [leDec_le]; exact Nat.mod_eq_of_lt h

/-! ### outcomes: errors, and extension of the unread rest -/

def isErr : R CM → Prop
  | .err _ => True
  | _ => False

def app (x : R CM) (t : Bytes) : R CM :=
  match x with
  | .ok a r => .ok a (r ++ t)
  | .stale => .stale
  | .err s => .err s
  | .panic s => .panic s

/-! ### frame lemmas for the primitive readers -/

theorem readU64_frame {r : Bytes} {x : Nat} {r' : Bytes} (t : Bytes) (h : readU64 r = some (x, r')) :
    readU64 (r ++ t) = some (x, r' ++ t) := by
  unfold readU64 at h ⊢
  split at h
  · contradiction
  · rename_i hl
    have hl : 8 ≤ r.length := by omega
    simp only [Option.some.injEq, Prod.mk.injEq] at h
    obtain ⟨rfl, rfl⟩ := h
    rw [if_neg (by simp only [List.length_append]; omega), List.take_append_of_le_length hl,
      List.drop_append_of_le_length hl]

theorem readFull_frame {n : Nat} {r x r' : Bytes} (t : Bytes) (h : readFull n r = some (x, r')) :
    readFull n (r ++ t) = some (x, r' ++ t) := by
  unfold readFull at h ⊢
  split at h
  · contradiction
  · rename_i hl
    have hl : n ≤ r.length := by omega
    simp only [Option.some.injEq, Prod.mk.injEq] at h
    obtain ⟨rfl, rfl⟩ := h
    rw [if_neg (by simp only [List.length_append]; omega), List.take_append_of_le_length hl,
      List.drop_append_of_le_length hl]

theorem readOffsets_frame {n : Nat} {r : Bytes} {xs : List Nat} {r' : Bytes} (t : Bytes)
    (h : readOffsets n r = some (xs, r')) : readOffsets n (r ++ t) = some (xs, r' ++ t) := by
  induction n generalizing r xs r' with
  | zero =>
    simp only [readOffsets, Option.some.injEq, Prod.mk.injEq] at h ⊢
    obtain ⟨rfl, rfl⟩ := h
    exact ⟨rfl, rfl⟩
  | succ n ih =>
    unfold readOffsets at h ⊢
    rcases h1 : readU64 r with _ | ⟨x, r1⟩
    · simp [h1] at h
    · rw [h1] at h
      rw [readU64_frame t h1]
      simp only at h ⊢
      rcases h2 : readOffsets n r1 with _ | ⟨ys, r2⟩
      · simp [h2] at h
      · rw [h2] at h
        rw [ih h2]
        simp only [Option.some.injEq, Prod.mk.injEq] at h ⊢
        obtain ⟨rfl, rfl⟩ := h
        exact ⟨rfl, rfl⟩

theorem readPairs_frame {n : Nat} {r : Bytes} {xs : List (Nat × Nat)} {r' : Bytes} (t : Bytes)
    (h : readPairs n r = some (xs, r')) : readPairs n (r ++ t) = some (xs, r' ++ t) := by
  induction n generalizing r xs r' with
  | zero =>
    simp only [readPairs, Option.some.injEq, Prod.mk.injEq] at h ⊢
    obtain ⟨rfl, rfl⟩ := h
    exact ⟨rfl, rfl⟩
  | succ n ih =>
    unfold readPairs at h ⊢
    rcases h1 : readU64 r with _ | ⟨a, r1⟩
    · simp [h1] at h
    · rw [h1] at h
      rw [readU64_frame t h1]
      simp only at h ⊢
      rcases h2 : readU64 r1 with _ | ⟨b, r2⟩
      · simp [h2] at h
      · rw [h2] at h
        rw [readU64_frame t h2]
        simp only at h ⊢
        rcases h3 : readPairs n r2 with _ | ⟨ys, r3⟩
        · simp [h3] at h
        · rw [h3] at h
          rw [ih h3]
          simp only [Option.some.injEq, Prod.mk.injEq] at h ⊢
          obtain ⟨rfl, rfl⟩ := h
          exact ⟨rfl, rfl⟩

/-- any non-error outcome of the source-map reader is preserved when bytes are appended -/
theorem deserSrcMap_mono (offs : List Nat) (exec r t : Bytes)
    (h : ¬ isErr (deserSrcMap offs exec r)) :
    deserSrcMap offs exec (r ++ t) = app (deserSrcMap offs exec r) t := by
  cases r with
  | nil => simp [deserSrcMap, isErr] at h
  | cons flag r1 =>
    simp only [List.cons_append]
    unfold deserSrcMap at h ⊢
    simp only at h ⊢
    by_cases hf : flag = 1
    · simp only [hf, if_true] at h ⊢
      rcases h1 : readU64 r1 with _ | ⟨n, r2⟩
      · simp [h1, isErr] at h
      · rw [h1] at h
        rw [readU64_frame t h1]
        simp only at h ⊢
        by_cases he : exec = []
        · simp only [he, if_true, app]
        · simp only [he, if_false] at h ⊢
          rcases h2 : readPairs n r2 with _ | ⟨sm, r3⟩
          · simp [h2, isErr] at h
          · rw [readPairs_frame t h2]
            simp only [app]
    · simp only [hf, if_false, app]

/-! ### the reader, cut into header test and body -/

/-- everything after the header -/
def body (crc : Bytes → Nat) (nf : Nat) (r : Bytes) : R CM :=
  match readOffsets nf r with
  | none => .err "error reading func["
  | some (offs, r1) =>
    match readU64 r1 with
    | none => .err "error reading executable size"
    | some (el, r2) =>
      if el > 0 then
        match readFull el r2 with
        | none => .err "executable"
        | some (exec, r3) =>
          match readFull 4 r3 with
          | none => .err "could not read checksum"
          | some (c, r4) =>
            if leDec c ≠ crc exec % 2 ^ 32 then .err "checksum mismatch"
            else deserSrcMap offs exec r4
      else deserSrcMap offs [] r2

/-- the header tests -/
def hdr (crc : Bytes → Nat) (magic ver header r : Bytes) : R CM :=
  if header.take magic.length ≠ magic then .err "invalid magic number"
  else
    if magic.length + 1 + header.getD magic.length 0 ≥ magic.length + 1 + ver.length + 4 then .stale
    else if (header.drop (magic.length + 1)).take (header.getD magic.length 0) ≠ ver then .stale
    else body crc (leDec (header.drop (magic.length + 1 + ver.length + 4 - 4))) r

theorem deserializeR_eq (crc : Bytes → Nat) (magic ver e : Bytes) :
    deserializeR crc magic ver e =
      if e.length = 0 then .err "error reading header"
      else if e.length < magic.length + 1 + ver.length + 4 then .err "invalid header length"
      else hdr crc magic ver (e.take (magic.length + 1 + ver.length + 4))
        (e.drop (magic.length + 1 + ver.length + 4)) := rfl

theorem body_mono (crc : Bytes → Nat) (nf : Nat) (r t : Bytes) (h : ¬ isErr (body crc nf r)) :
    body crc nf (r ++ t) = app (body crc nf r) t := by
  unfold body at h ⊢
  rcases h1 : readOffsets nf r with _ | ⟨offs, r1⟩
  · simp [h1, isErr] at h
  · rw [h1] at h
    rw [readOffsets_frame t h1]
    simp only at h ⊢
    rcases h2 : readU64 r1 with _ | ⟨el, r2⟩
    · simp [h2, isErr] at h
    · rw [h2] at h
      rw [readU64_frame t h2]
      simp only at h ⊢
      by_cases hel : el > 0
      · simp only [hel, if_true] at h ⊢
        rcases h3 : readFull el r2 with _ | ⟨exec, r3⟩
        · simp [h3, isErr] at h
        · rw [h3] at h
          rw [readFull_frame t h3]
          simp only at h ⊢
          rcases h4 : readFull 4 r3 with _ | ⟨c, r4⟩
          · simp [h4, isErr] at h
          · rw [h4] at h
            rw [readFull_frame t h4]
            simp only at h ⊢
            by_cases hc : leDec c ≠ crc exec % 2 ^ 32
            · simp [hc, isErr] at h
            · simp only [hc, if_false] at h ⊢
              exact deserSrcMap_mono offs exec r4 t h
      · simp only [hel, if_false] at h ⊢
        exact deserSrcMap_mono offs [] r2 t h

theorem hdr_mono (crc : Bytes → Nat) (magic ver header r t : Bytes)
    (h : ¬ isErr (hdr crc magic ver header r)) :
    hdr crc magic ver header (r ++ t) = app (hdr crc magic ver header r) t := by
  unfold hdr at h ⊢
  split
  · rename_i h1; simp [h1, isErr] at h
  · rename_i h1
    rw [if_neg h1] at h
    split
    · rfl
    · rename_i h2
      rw [if_neg h2] at h
      split
      · rfl
      · rename_i h3
        rw [if_neg h3] at h
        exact body_mono crc _ r t h

/-- any non-error outcome on `p` is preserved on `p ++ t` -/
theorem deserializeR_mono (crc : Bytes → Nat) (magic ver p t : Bytes)
    (h : ¬ isErr (deserializeR crc magic ver p)) :
    deserializeR crc magic ver (p ++ t) = app (deserializeR crc magic ver p) t := by
  rw [deserializeR_eq] at h ⊢
  rw [deserializeR_eq]
  by_cases h0 : p.length = 0
  · simp [h0, isErr] at h
  · rw [if_neg h0] at h ⊢
    by_cases h1 : p.length < magic.length + 1 + ver.length + 4
    · simp [h1, isErr] at h
    · rw [if_neg h1] at h ⊢
      have hl : magic.length + 1 + ver.length + 4 ≤ p.length := by omega
      rw [if_neg (by simp only [List.length_append]; omega),
        if_neg (by simp only [List.length_append]; omega),
        List.take_append_of_le_length hl, List.drop_append_of_le_length hl]
      exact hdr_mono crc magic ver _ _ t h

/-- frame lemma: a parse that succeeds on `p` succeeds on `p ++ t` with the same value, leaving `rest ++ t` -/
theorem deserializeR_frame (crc : Bytes → Nat) (magic ver p t : Bytes) (cm : CM) (rest : Bytes)
    (h : deserializeR crc magic ver p = .ok cm rest) :
    deserializeR crc magic ver (p ++ t) = .ok cm (rest ++ t) := by
  rw [deserializeR_mono crc magic ver p t (by rw [h]; exact id), h]
  rfl

/-! ### round trip of the primitive readers, with continuation -/

theorem readU64_le8 (v : Nat) (t : Bytes) (h : v < 2 ^ 64) : readU64 (le 8 v ++ t) = some (v, t) := by
  unfold readU64
  rw [if_neg (by simp only [List.length_append, le_length]; omega), List.take_left' (le_length 8 v),
    List.drop_left' (le_length 8 v), leDec_le8 v h]

theorem readFull_self (x t : Bytes) : readFull x.length (x ++ t) = some (x, t) := by
  unfold readFull
  rw [if_neg (by simp only [List.length_append]; omega), List.take_left' rfl, List.drop_left' rfl]

theorem readFull_le4 (v : Nat) (t : Bytes) : readFull 4 (le 4 v ++ t) = some (le 4 v, t) := by
  have := readFull_self (le 4 v) t
  rwa [le_length] at this

theorem readOffsets_ser (offs : List Nat) (t : Bytes) (h : ∀ o ∈ offs, o < 2 ^ 64) :
    readOffsets offs.length (offs.flatMap (le 8) ++ t) = some (offs, t) := by
  induction offs with
  | nil => rfl
  | cons o os ih =>
    simp only [List.length_cons, List.flatMap_cons, List.append_assoc]
    unfold readOffsets
    rw [readU64_le8 o _ (h o (by simp))]
    simp only
    rw [ih (fun o ho => h o (by simp [ho]))]

theorem readPairs_ser (sm : List (Nat × Nat)) (t : Bytes) (h : ∀ p ∈ sm, p.1 < 2 ^ 64 ∧ p.2 < 2 ^ 64) :
    readPairs sm.length (sm.flatMap (fun p => le 8 p.1 ++ le 8 p.2) ++ t) = some (sm, t) := by
  induction sm with
  | nil => rfl
  | cons p ps ih =>
    simp only [List.length_cons, List.flatMap_cons, List.append_assoc]
    unfold readPairs
    rw [readU64_le8 p.1 _ (h p (by simp)).1]
    simp only
    rw [readU64_le8 p.2 _ (h p (by simp)).2]
    simp only
    rw [ih (fun q hq => h q (by simp [hq]))]

theorem deserSrcMap_ser (offs : List Nat) (exec : Bytes) (sm : List (Nat × Nat)) (t : Bytes)
    (hx : exec ≠ []) (hl : sm.length < 2 ^ 64) (h : ∀ p ∈ sm, p.1 < 2 ^ 64 ∧ p.2 < 2 ^ 64) :
    deserSrcMap offs exec (serSrcMap sm ++ t) = .ok ⟨offs, exec, sm⟩ t := by
  unfold serSrcMap
  cases sm with
  | nil => simp [deserSrcMap]
  | cons p ps =>
    simp only [List.isEmpty_cons, Bool.false_eq_true, if_false, List.append_assoc, List.cons_append,
      List.nil_append]
    unfold deserSrcMap
    simp only [if_true]
    rw [readU64_le8 _ _ hl]
    simp only [hx, if_false]
    rw [readPairs_ser (p :: ps) t h]

/-! ### round trip of the body and of the header -/

theorem body_ser (crc : Bytes → Nat) (offs : List Nat) (exec : Bytes) (sm : List (Nat × Nat)) (t : Bytes)
    (ho : ∀ o ∈ offs, o < 2 ^ 64) (hel : exec.length < 2 ^ 64) (hx : exec ≠ [])
    (hl : sm.length < 2 ^ 64) (h : ∀ p ∈ sm, p.1 < 2 ^ 64 ∧ p.2 < 2 ^ 64) :
    body crc offs.length (offs.flatMap (le 8) ++ (le 8 exec.length ++ (exec ++ (le 4 (crc exec) ++
      (serSrcMap sm ++ t))))) = .ok ⟨offs, exec, sm⟩ t := by
  unfold body
  rw [readOffsets_ser offs _ ho]
  simp only
  rw [readU64_le8 _ _ hel]
  simp only
  have hpos : exec.length > 0 := List.length_pos_iff.mpr hx
  rw [if_pos hpos, readFull_self]
  simp only
  rw [readFull_le4]
  simp only [leDec_le4, ne_eq, not_true_eq_false, if_false]
  exact deserSrcMap_ser offs exec sm t hx hl h

/-- a module without code: the reader does not skip the checksum field, it reads the source-map flag there -/
theorem body_ser_nil (crc : Bytes → Nat) (offs : List Nat) (t : Bytes)
    (ho : ∀ o ∈ offs, o < 2 ^ 64) (hc : crc [] % 256 ≠ 1) :
    body crc offs.length (offs.flatMap (le 8) ++ (le 8 0 ++ ([] ++ (le 4 (crc []) ++ t)))) =
      .ok ⟨offs, [], []⟩ (le 3 (crc [] / 256) ++ t) := by
  unfold body
  rw [readOffsets_ser offs _ ho]
  simp only
  rw [readU64_le8 _ _ (by decide)]
  simp only [Nat.lt_irrefl, gt_iff_lt, if_false, List.nil_append]
  show deserSrcMap offs [] ((crc [] % 256) :: (le 3 (crc [] / 256) ++ t)) = _
  unfold deserSrcMap
  simp only [hc, if_false]

theorem hdr_ser (crc : Bytes → Nat) (magic ver : Bytes) (n : Nat) (r : Bytes) (hv : ver.length < 256) :
    hdr crc magic ver (magic ++ (ver.length % 256 :: (ver ++ le 4 n))) r = body crc (n % 2 ^ 32) r := by
  have hvl : ver.length % 256 = ver.length := Nat.mod_eq_of_lt hv
  rw [hvl]
  have hg : (magic ++ (ver.length :: (ver ++ le 4 n))).getD magic.length 0 = ver.length := by
    simp [List.getD_eq_getElem?_getD]
  have hd : (magic ++ (ver.length :: (ver ++ le 4 n))).drop (magic.length + 1) = ver ++ le 4 n := by
    have : magic ++ (ver.length :: (ver ++ le 4 n)) = (magic ++ [ver.length]) ++ (ver ++ le 4 n) := by simp
    rw [this]
    exact List.drop_left' (by simp)
  have hd4 : (magic ++ (ver.length :: (ver ++ le 4 n))).drop (magic.length + 1 + ver.length + 4 - 4) =
      le 4 n := by
    have : magic ++ (ver.length :: (ver ++ le 4 n)) = (magic ++ [ver.length] ++ ver) ++ le 4 n := by simp
    rw [this]
    exact List.drop_left' (by simp only [List.length_append, List.length_cons, List.length_nil]; omega)
  unfold hdr
  rw [hg, hd, hd4, List.take_left' rfl, List.take_left' rfl, leDec_le4]
  rw [if_neg (by simp), if_neg (by omega), if_neg (by simp)]

theorem serialize_split (crc : Bytes → Nat) (magic ver : Bytes) (cm : CM) (t : Bytes) :
    serialize crc magic ver cm ++ t =
      (magic ++ (ver.length % 256 :: (ver ++ le 4 cm.offsets.length))) ++
      (cm.offsets.flatMap (le 8) ++ (le 8 cm.exec.length ++ (cm.exec ++ (le 4 (crc cm.exec) ++
        (serSrcMap cm.srcMap ++ t))))) := by
  simp [serialize]

theorem serialize_length_ge (crc : Bytes → Nat) (magic ver : Bytes) (cm : CM) :
    magic.length + 1 + ver.length + 4 ≤ (serialize crc magic ver cm).length := by
  simp only [serialize, List.length_append, le_length, List.length_cons, List.length_nil]
  omega

/-- reading a serialized entry (followed by anything) gets through the header -/
theorem deserializeR_ser_body (crc : Bytes → Nat) (magic ver : Bytes) (cm : CM) (t : Bytes)
    (hn : cm.offsets.length < 2 ^ 32) (hv : ver.length < 256) :
    deserializeR crc magic ver (serialize crc magic ver cm ++ t) =
      body crc cm.offsets.length
        (cm.offsets.flatMap (le 8) ++ (le 8 cm.exec.length ++ (cm.exec ++ (le 4 (crc cm.exec) ++
          (serSrcMap cm.srcMap ++ t))))) := by
  have hlen := serialize_length_ge crc magic ver cm
  rw [deserializeR_eq]
  rw [if_neg (by simp only [List.length_append]; omega), if_neg (by simp only [List.length_append]; omega)]
  rw [serialize_split]
  have hH : (magic ++ (ver.length % 256 :: (ver ++ le 4 cm.offsets.length))).length =
      magic.length + 1 + ver.length + 4 := by
    simp only [List.length_append, List.length_cons, le_length]; omega
  rw [List.take_left' hH, List.drop_left' hH, hdr_ser crc magic ver _ _ hv, Nat.mod_eq_of_lt hn]

/-- round trip with an arbitrary continuation, entries with code -/
theorem deserializeR_serialize (crc : Bytes → Nat) (magic ver : Bytes) (cm : CM) (t : Bytes)
    (hwf : cm.WF) (hv : ver.length < 256) (hx : cm.exec ≠ []) :
    deserializeR crc magic ver (serialize crc magic ver cm ++ t) = .ok cm t := by
  rw [deserializeR_ser_body crc magic ver cm t hwf.noffs hv]
  exact body_ser crc cm.offsets cm.exec cm.srcMap t hwf.offs hwf.execLen hx hwf.smLen hwf.sm

/-- round trip for every well-formed module: some rest is left (non-empty for a module without code) -/
theorem deserializeR_serialize' (crc : Bytes → Nat) (magic ver : Bytes) (cm : CM) (t : Bytes)
    (hwf : cm.WF) (hv : ver.length < 256) (hx : cm.exec = [] → crc [] % 256 ≠ 1) :
    ∃ rest, deserializeR crc magic ver (serialize crc magic ver cm ++ t) = .ok cm rest := by
  by_cases he : cm.exec = []
  · refine ⟨le 3 (crc [] / 256) ++ (serSrcMap cm.srcMap ++ t), ?_⟩
    rw [deserializeR_ser_body crc magic ver cm t hwf.noffs hv]
    have hsm := hwf.smExec he
    obtain ⟨offs, exec, sm⟩ := cm
    simp only at he hsm hx ⊢
    subst he hsm
    exact body_ser_nil crc offs _ hwf.offs (hx rfl)
  · exact ⟨t, deserializeR_serialize crc magic ver cm t hwf hv he⟩

/-! ### main theorems -/

/-- `deser_ser`: what was serialized is read back. For a module without code the reader skips the checksum
field and takes its first byte as the source-map flag, hence the side condition (the real CRC-32C of the empty
string is 0). -/
theorem deser_ser (crc : Bytes → Nat) (magic ver : Bytes) (cm : CM)
    (hwf : cm.WF) (hv : ver.length < 256) (hx : cm.exec = [] → crc [] % 256 ≠ 1) :
    deserialize crc magic ver (serialize crc magic ver cm) = .ok cm := by
  obtain ⟨rest, h⟩ := deserializeR_serialize' crc magic ver cm [] hwf hv hx
  rw [List.append_nil] at h
  unfold deserialize
  rw [h]

theorem deserialize_ok_iff {crc : Bytes → Nat} {magic ver e : Bytes} {cm : CM}
    (h : deserialize crc magic ver e = .ok cm) : ∃ rest, deserializeR crc magic ver e = .ok cm rest := by
  unfold deserialize at h
  split at h
  · rename_i cm1 rest heq
    injection h with h
    subst h
    exact ⟨rest, heq⟩
  all_goals contradiction

/-- every strict prefix of a valid entry WITH code is refused with an error (not even `stale`) -/
theorem truncation_rejected (crc : Bytes → Nat) (magic ver : Bytes) (cm : CM)
    (hwf : cm.WF) (hv : ver.length < 256) (hx : cm.exec ≠ []) (k : Nat)
    (hk : k < (serialize crc magic ver cm).length) :
    ∃ m, deserialize crc magic ver ((serialize crc magic ver cm).take k) = .err m := by
  have hfull := deserializeR_serialize crc magic ver cm [] hwf hv hx
  rw [List.append_nil] at hfull
  have hsplit := List.take_append_drop k (serialize crc magic ver cm)
  have hmono := deserializeR_mono crc magic ver ((serialize crc magic ver cm).take k)
    ((serialize crc magic ver cm).drop k)
  rw [hsplit, hfull] at hmono
  unfold deserialize
  rcases hd : deserializeR crc magic ver ((serialize crc magic ver cm).take k) with ⟨cm', rest⟩ | _ | m | m
  · exfalso
    rw [hd] at hmono
    have h1 := hmono (fun h => h)
    simp only [app] at h1
    injection h1 with _ h2
    have h3 : ((serialize crc magic ver cm).drop k).length = 0 := by
      have := congrArg List.length h2
      simp only [List.length_nil, List.length_append] at this
      omega
    rw [List.length_drop] at h3
    omega
  · exfalso
    rw [hd] at hmono
    have h1 := hmono (fun h => h)
    simp only [app] at h1
    contradiction
  · exact ⟨m, rfl⟩
  · exfalso
    rw [hd] at hmono
    have h1 := hmono (fun h => h)
    simp only [app] at h1
    contradiction

/-- for ANY valid entry: a strict prefix is never read back as something else: it is refused (error or stale),
or it yields exactly the module that was written (possible only for modules without code, see the witness) -/
theorem truncation_harmless (crc : Bytes → Nat) (magic ver : Bytes) (cm cm' : CM)
    (hwf : cm.WF) (hv : ver.length < 256) (hx : cm.exec = [] → crc [] % 256 ≠ 1) (k : Nat)
    (h : deserialize crc magic ver ((serialize crc magic ver cm).take k) = .ok cm') :
    cm' = cm := by
  obtain ⟨rest, hfull⟩ := deserializeR_serialize' crc magic ver cm [] hwf hv hx
  rw [List.append_nil] at hfull
  obtain ⟨rest', hp⟩ := deserialize_ok_iff h
  have hfr := deserializeR_frame crc magic ver _ ((serialize crc magic ver cm).drop k) cm' rest' hp
  rw [List.take_append_drop, hfull] at hfr
  injection hfr with h1 _
  exact h1.symm

/-- an entry written by another version (of length < 256) is stale, or — when it is shorter than this
version's header — an error; never `ok` -/
theorem other_version_stale (crc : Bytes → Nat) (magic ver ver' : Bytes) (cm : CM)
    (hne : ver ≠ ver') (hv' : ver'.length < 256) :
    deserialize crc magic ver (serialize crc magic ver' cm) = .stale ∨
    deserialize crc magic ver (serialize crc magic ver' cm) = .err "invalid header length" := by
  have hlen := serialize_length_ge crc magic ver' cm
  have hvl : ver'.length % 256 = ver'.length := Nat.mod_eq_of_lt hv'
  have hsp := serialize_split crc magic ver' cm []
  rw [List.append_nil, hvl] at hsp
  generalize serialize crc magic ver' cm = e at hlen hsp ⊢
  generalize cm.offsets.flatMap (le 8) ++ (le 8 cm.exec.length ++ (cm.exec ++ (le 4 (crc cm.exec) ++
        (serSrcMap cm.srcMap ++ [])))) = Y at hsp
  unfold deserialize
  rw [deserializeR_eq, if_neg (by omega)]
  by_cases h1 : e.length < magic.length + 1 + ver.length + 4
  · right; rw [if_pos h1]
  · left
    rw [if_neg h1]
    unfold hdr
    have hm : (e.take (magic.length + 1 + ver.length + 4)).take magic.length = magic := by
      rw [List.take_take, Nat.min_eq_left (by omega), hsp, List.append_assoc]
      exact List.take_left' rfl
    have hg : (e.take (magic.length + 1 + ver.length + 4)).getD magic.length 0 = ver'.length := by
      rw [List.getD_eq_getElem?_getD, List.getElem?_take, if_pos (by omega), hsp]
      simp
    rw [hm, hg, if_neg (by simp)]
    by_cases h2 : magic.length + 1 + ver'.length ≥ magic.length + 1 + ver.length + 4
    · rw [if_pos h2]
    · rw [if_neg h2]
      have hd : ((e.take (magic.length + 1 + ver.length + 4)).drop (magic.length + 1)).take ver'.length
          = ver' := by
        rw [List.drop_take, List.take_take, Nat.min_eq_left (by omega), hsp]
        have : magic ++ ver'.length :: (ver' ++ le 4 cm.offsets.length) ++ Y =
            (magic ++ [ver'.length]) ++ (ver' ++ (le 4 cm.offsets.length ++ Y)) := by simp
        rw [this, List.drop_left' (by simp)]
        exact List.take_left' rfl
      rw [hd, if_pos (fun h => hne h.symm)]

/-! ### concrete witnesses and tests -/

def crc0 : Bytes → Nat := fun _ => 0
def magic0 : Bytes := [87, 65, 90, 69, 86, 79]
def ver0 : Bytes := [100, 101, 118]
def cm0 : CM := ⟨[], [], []⟩

/-- a strict prefix of the entry of a module without code is accepted (the reader never reads the last
bytes of such an entry) -/
theorem truncation_accepted_witness :
    deserialize crc0 magic0 ver0
        ((serialize crc0 magic0 ver0 cm0).take ((serialize crc0 magic0 ver0 cm0).length - 1)) = .ok cm0 ∧
    deserialize crc0 magic0 ver0
        ((serialize crc0 magic0 ver0 cm0).take ((serialize crc0 magic0 ver0 cm0).length - 4)) = .ok cm0 := by
  decide

def crcSum : Bytes → Nat := fun bs => bs.foldl (· + ·) 0
def cm1 : CM := ⟨[0, 16], [1, 2, 3, 4, 5], [(7, 3)]⟩

theorem cm1_wf : cm1.WF := by
  constructor <;> simp [cm1] <;> decide

/-- test: full round trip of a concrete well-formed entry with code and source map -/
example : deserialize crcSum magic0 ver0 (serialize crcSum magic0 ver0 cm1) = .ok cm1 := by
  decide

/-- test: the same through the general theorem (non-vacuity of its hypotheses) -/
example : deserialize crcSum magic0 ver0 (serialize crcSum magic0 ver0 cm1) = .ok cm1 :=
  deser_ser crcSum magic0 ver0 cm1 cm1_wf (by decide) (by decide)

/-- the function offsets are not covered by the checksum: flipping the first offset byte of a valid entry
gives an entry of the same length that is accepted and yields other offsets for the same machine code -/
theorem offsets_not_checksummed :
    ∃ e' cm', e' ≠ serialize crcSum magic0 ver0 cm1 ∧
      e'.length = (serialize crcSum magic0 ver0 cm1).length ∧
      deserialize crcSum magic0 ver0 e' = .ok cm' ∧ cm' ≠ cm1 ∧ cm'.exec = cm1.exec :=
  ⟨(serialize crcSum magic0 ver0 cm1).set 14 255, ⟨[255, 16], [1, 2, 3, 4, 5], [(7, 3)]⟩, by decide⟩

end Wz.C13.Entry
