/-
C06 — lemmas about the call-engine state machines (`Wz.Model.CallEngine`), as-is variant.
-/
import Wz.Model.CallEngine

namespace Wz.C06.CE
open Wz.Gen.ExitCodes Wz.Model.CallEngine

theorem ceiling_val : callStackCeiling = 50000000 := rfl

/-! ### growStack -/

theorem growLen_asis (len req : Nat) :
    growLen false len req = if callStackCeiling < len then none else some (2 * len + req + 16) := by
  simp [growLen, growOverflows, growNewLen]

theorem growLen_capped (len req : Nat) :
    growLen true len req =
      if callStackCeiling ≤ len then none else some (min (2 * len + req + 16) callStackCeiling) := by
  simp [growLen, growNewLen]

theorem growLen_increases (c : Bool) (len req n : Nat) (h : growLen c len req = some n) : len < n := by
  cases c
  · rw [growLen_asis] at h
    split at h
    · simp at h
    · simp at h; omega
  · rw [growLen_capped] at h
    split at h
    · simp at h
    · simp at h; omega

theorem growLen_le (len req n : Nat) (h : growLen false len req = some n) :
    n ≤ 2 * callStackCeiling + req + 16 := by
  rw [growLen_asis] at h
  split at h
  · simp at h
  · simp at h; omega

/-- The stack part of the invariant (everything but `exitCode`). -/
def J (ce : CE) : Prop :=
  ce.top % 16 = 0 ∧ ce.base ≤ ce.top ∧ ce.top < ce.base + ce.len ∧ ce.required ≤ ce.len ∧ 16 ≤ ce.len ∧
    ce.base + ce.len ≤ ce.top + 16

theorem J_realloc (alloc : Nat → Nat) (ce : CE) (n : Nat) (x : Nat) (h : J ce) (hn : ce.len < n) :
    J { (ce.realloc alloc n) with exitCode := x } := by
  unfold J at *
  simp only [CE.realloc, alignedStackTop]
  omega

/-- Specification of the growth loop with enough fuel (`2^k·(len+16)` beyond the ceiling). -/
theorem satisfy_spec (alloc : Nat → Nat) (k : Nat) (ce : CE) (bytes : Option Nat) (req : Nat)
    (hJ : J ce) (hk : callStackCeiling + 16 < 2 ^ k * (ce.len + 16)) :
    (∀ ce', satisfy false alloc (k + 1) ce bytes req = .ok ce' →
        J ce' ∧ (ce' = ce ∨ ce'.exitCode = 0) ∧ bytes ≠ none) ∧
    (∀ e ce', satisfy false alloc (k + 1) ce bytes req = .error (e, ce') →
        e = .overflow ∧ J ce' ∧ (∀ b, bytes = some b → callStackCeiling < b + 16)) := by
  induction k generalizing ce with
  | zero =>
    have hlen : callStackCeiling < ce.len := by simp at hk; omega
    rw [satisfy]
    by_cases hfit : fits ce bytes = true
    · simp only [hfit, if_true]
      refine ⟨?_, (by intro e c h; cases h)⟩
      intro ce' h
      cases h
      refine ⟨hJ, Or.inl rfl, ?_⟩
      intro hb; subst hb; simp [fits] at hfit
    · simp only [hfit, Bool.false_eq_true, if_false, growLen_asis, if_pos hlen]
      refine ⟨(by intro ce' h; cases h), ?_⟩
      intro e c h
      cases h
      refine ⟨rfl, hJ, ?_⟩
      intro b hb
      subst hb
      simp [fits] at hfit
      unfold J at hJ
      omega
  | succ k ih =>
    rw [satisfy]
    by_cases hfit : fits ce bytes = true
    · simp only [hfit, if_true]
      refine ⟨?_, (by intro e c h; cases h)⟩
      intro ce' h
      cases h
      refine ⟨hJ, Or.inl rfl, ?_⟩
      intro hb; subst hb; simp [fits] at hfit
    · simp only [hfit, Bool.false_eq_true, if_false, growLen_asis]
      by_cases hlen : callStackCeiling < ce.len
      · simp only [if_pos hlen]
        refine ⟨(by intro ce' h; cases h), ?_⟩
        intro e c h
        cases h
        refine ⟨rfl, hJ, ?_⟩
        intro b hb
        subst hb
        simp [fits] at hfit
        unfold J at hJ
        omega
      · simp only [if_neg hlen]
        have hJ' := J_realloc alloc ce (2 * ce.len + req + 16) 0 hJ (by omega)
        have hk' : callStackCeiling + 16 <
            2 ^ k * (({ (ce.realloc alloc (2 * ce.len + req + 16)) with exitCode := 0 } : CE).len + 16) := by
          simp only [CE.realloc]
          have h2 : 2 ^ (k + 1) * (ce.len + 16) = 2 ^ k * (2 * (ce.len + 16)) := by
            rw [Nat.pow_succ, Nat.mul_assoc]
          have : 2 ^ k * (2 * (ce.len + 16)) ≤ 2 ^ k * (2 * ce.len + req + 16 + 16) :=
            Nat.mul_le_mul_left _ (by omega)
          omega
        have := ih _ hJ' hk'
        refine ⟨?_, this.2⟩
        intro ce' h
        have h' := this.1 ce' h
        refine ⟨h'.1, Or.inr ?_, h'.2.2⟩
        rcases h'.2.1 with h1 | h1
        · rw [h1]
        · exact h1

theorem fuel_enough (len : Nat) : callStackCeiling + 16 < 2 ^ 63 * (len + 16) := by
  have : 2 ^ 63 * 16 ≤ 2 ^ 63 * (len + 16) := Nat.mul_le_mul_left _ (by omega)
  have h : callStackCeiling + 16 < 2 ^ 63 * 16 := by decide
  omega

/-- A demand that fits below the ceiling is always met. -/
theorem satisfy_small (alloc : Nat → Nat) (ce : CE) (b req : Nat) (hJ : J ce) (hb : b + 16 ≤ callStackCeiling) :
    ∃ ce', satisfy false alloc growFuel ce (some b) req = .ok ce' ∧ J ce' ∧ (ce' = ce ∨ ce'.exitCode = 0) := by
  have hs := satisfy_spec alloc 63 ce (some b) req hJ (fuel_enough _)
  show ∃ ce', satisfy false alloc 64 ce (some b) req = .ok ce' ∧ _
  cases h : satisfy false alloc 64 ce (some b) req with
  | ok ce' => exact ⟨ce', rfl, (hs.1 ce' h).1, (hs.1 ce' h).2.1⟩
  | error e =>
    have := (hs.2 e.1 e.2 h).2.2 b rfl
    omega

/-- Unbounded demand always ends in stack overflow (never out of fuel). -/
theorem satisfy_unbounded (alloc : Nat → Nat) (ce : CE) (req : Nat) (hJ : J ce) :
    ∃ ce', satisfy false alloc growFuel ce none req = .error (.overflow, ce') ∧ J ce' := by
  have hs := satisfy_spec alloc 63 ce none req hJ (fuel_enough _)
  show ∃ ce', satisfy false alloc 64 ce none req = _ ∧ _
  cases h : satisfy false alloc 64 ce none req with
  | ok ce' => exact absurd rfl (hs.1 ce' h).2.2
  | error e =>
    obtain ⟨e, c⟩ := e
    have := hs.2 e c h
    exact ⟨c, by rw [this.1], this.2.1⟩

/-- Any demand: the loop ends with the demand met or with stack overflow. -/
theorem satisfy_total (alloc : Nat → Nat) (ce : CE) (bytes : Option Nat) (req : Nat) (hJ : J ce) :
    (∃ ce', satisfy false alloc growFuel ce bytes req = .ok ce' ∧ J ce' ∧ (ce' = ce ∨ ce'.exitCode = 0)) ∨
    (∃ ce', satisfy false alloc growFuel ce bytes req = .error (.overflow, ce') ∧ J ce') := by
  have hs := satisfy_spec alloc 63 ce bytes req hJ (fuel_enough _)
  show (∃ ce', satisfy false alloc 64 ce bytes req = .ok ce' ∧ _) ∨ (∃ ce', satisfy false alloc 64 ce bytes req = _ ∧ _)
  cases h : satisfy false alloc 64 ce bytes req with
  | ok ce' => exact Or.inl ⟨ce', rfl, (hs.1 ce' h).1, (hs.1 ce' h).2.1⟩
  | error e =>
    obtain ⟨e, c⟩ := e
    have := hs.2 e c h
    exact Or.inr ⟨c, by rw [this.1], this.2.1⟩

/-! ### the dispatch loop -/

/-- Native code never exits with `ExitCodeOK` (it writes a code only when it needs the Go side). -/
def NonOK (evs : List Ev) : Prop := ∀ code host, Ev.exit code host ∈ evs → actionOf code ≠ .ret

/-- Stack requests are described by `Ev.need` (the native prologue re-checks after every growth). -/
def NoRawGrow (evs : List Ev) : Prop := ∀ code host, Ev.exit code host ∈ evs → actionOf code ≠ .growStack

/-- Every bounded stack demand fits below the ceiling. -/
def Small (evs : List Ev) : Prop := ∀ b req, Ev.need (some b) req ∈ evs → b + 16 ≤ callStackCeiling

theorem actionOf_zero : actionOf 0 = .ret := by decide

theorem J_exit (ce : CE) (x : Nat) (h : J ce) : J { ce with exitCode := x } := h

theorem loop_spec (alloc : Nat → Nat) (evs : List Ev) (ce : CE) (closed : Option Nat)
    (hJ : J ce) (h0 : ce.exitCode = 0) (hn : NonOK evs) :
    J (loop false alloc evs ce closed).ce ∧
    ((loop false alloc evs ce closed).returned = none ∨ (loop false alloc evs ce closed).returned = some .overflow) ∧
    ((loop false alloc evs ce closed).recovered = none → (loop false alloc evs ce closed).returned = none →
      (loop false alloc evs ce closed).ce.exitCode = 0) := by
  induction evs generalizing ce closed with
  | nil =>
    rw [loop, h0, actionOf_zero]
    exact ⟨hJ, Or.inl rfl, fun _ _ => h0⟩
  | cons ev rest ih =>
    have hn' : NonOK rest := fun c h hm => hn c h (List.mem_cons_of_mem _ hm)
    cases ev with
    | need bytes req =>
      rw [loop]
      rcases satisfy_total alloc ce bytes req hJ with ⟨ce', hs, hJ', hc⟩ | ⟨ce', hs, hJ'⟩
      · rw [hs]
        have h0' : ce'.exitCode = 0 := by
          rcases hc with hc | hc
          · rw [hc]; exact h0
          · exact hc
        exact ih ce' closed hJ' h0' hn'
      · rw [hs]
        exact ⟨hJ', Or.inr rfl, fun _ h => by cases h⟩
    | exit code host =>
      have hne := hn code host (List.mem_cons_self ..)
      simp only [loop]
      split
      · rename_i h; exact absurd h hne
      · exact ⟨hJ, Or.inl rfl, fun h => by cases h⟩
      · exact ⟨hJ, Or.inl rfl, fun h => by cases h⟩
      · -- growStack
        split
        · exact ⟨hJ, Or.inr rfl, fun _ h => by cases h⟩
        · rename_i n hg
          exact ih _ closed (J_realloc alloc _ n 0 (J_exit ce code hJ) (growLen_increases _ _ _ _ hg)) rfl hn'
      · -- checkExit
        split
        · exact ⟨hJ, Or.inl rfl, fun h => by cases h⟩
        · exact ih _ none (J_exit _ 0 (J_exit ce code hJ)) rfl hn'
      · -- resume
        split
        · exact ⟨hJ, Or.inl rfl, fun h => by cases h⟩
        · exact ih _ _ (J_exit _ 0 (J_exit ce code hJ)) rfl hn'
      · -- resumeOrPanic
        split
        · exact ⟨hJ, Or.inl rfl, fun h => by cases h⟩
        · exact ih _ _ (J_exit _ 0 (J_exit ce code hJ)) rfl hn'

/-- What a caller can observe of the loop's result. -/
def obs (r : LoopRes) : Option Err × Option Err × Option Nat := (r.recovered, r.returned, r.closed)

theorem loop_indep (a₁ a₂ : Nat → Nat) (evs : List Ev) (ce₁ ce₂ : CE) (closed : Option Nat)
    (hJ₁ : J ce₁) (hJ₂ : J ce₂) (h₁ : ce₁.exitCode = 0) (h₂ : ce₂.exitCode = 0)
    (hn : NonOK evs) (hg : NoRawGrow evs) (hs : Small evs) :
    obs (loop false a₁ evs ce₁ closed) = obs (loop false a₂ evs ce₂ closed) := by
  induction evs generalizing ce₁ ce₂ closed with
  | nil =>
    rw [loop, loop, h₁, h₂, actionOf_zero]
    rfl
  | cons ev rest ih =>
    have hn' : NonOK rest := fun c h hm => hn c h (List.mem_cons_of_mem _ hm)
    have hg' : NoRawGrow rest := fun c h hm => hg c h (List.mem_cons_of_mem _ hm)
    have hs' : Small rest := fun b r hm => hs b r (List.mem_cons_of_mem _ hm)
    cases ev with
    | need bytes req =>
      rw [loop, loop]
      cases bytes with
      | none =>
        obtain ⟨c₁, e₁, _⟩ := satisfy_unbounded a₁ ce₁ req hJ₁
        obtain ⟨c₂, e₂, _⟩ := satisfy_unbounded a₂ ce₂ req hJ₂
        rw [e₁, e₂]
        rfl
      | some b =>
        have hb := hs b req (List.mem_cons_self ..)
        obtain ⟨c₁, e₁, j₁, x₁⟩ := satisfy_small a₁ ce₁ b req hJ₁ hb
        obtain ⟨c₂, e₂, j₂, x₂⟩ := satisfy_small a₂ ce₂ b req hJ₂ hb
        rw [e₁, e₂]
        have z₁ : c₁.exitCode = 0 := by
          rcases x₁ with x | x
          · rw [x]; exact h₁
          · exact x
        have z₂ : c₂.exitCode = 0 := by
          rcases x₂ with x | x
          · rw [x]; exact h₂
          · exact x
        exact ih c₁ c₂ closed j₁ j₂ z₁ z₂ hn' hg' hs'
    | exit code host =>
      have hne := hn code host (List.mem_cons_self ..)
      have hng := hg code host (List.mem_cons_self ..)
      simp only [loop]
      split
      · rename_i h; exact absurd h hne
      · rfl
      · rfl
      · rename_i h; exact absurd h hng
      · split
        · rfl
        · exact ih _ _ none (J_exit _ 0 (J_exit ce₁ code hJ₁)) (J_exit _ 0 (J_exit ce₂ code hJ₂)) rfl rfl hn' hg' hs'
      · split
        · rfl
        · exact ih _ _ _ (J_exit _ 0 (J_exit ce₁ code hJ₁)) (J_exit _ 0 (J_exit ce₂ code hJ₂)) rfl rfl hn' hg' hs'
      · split
        · rfl
        · exact ih _ _ _ (J_exit _ 0 (J_exit ce₁ code hJ₁)) (J_exit _ 0 (J_exit ce₂ code hJ₂)) rfl rfl hn' hg' hs'

end Wz.C06.CE
