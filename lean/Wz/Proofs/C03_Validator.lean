/-
C03: soundness of the validator model (`check` ⇒ declarative typing) and progress of well-typed code
under the reference semantics (`Wz.Spec.Wasm`): no internal `"stack"` / `"unsupported"` outcome.

Main results (all of W0, nothing partial; axioms: propext, Classical.choice, Quot.sound):

* `validate_sound_W0 : alignSane body = true → check C body = .ok () → WellTyped C body`
  The side condition excludes memory alignment exponents ≥ 63, which the Go code (and the model) accept although
  the specification rejects them (quirk Q3 of the model; `hasType_load_align` and the examples of Part D show that
  the condition is necessary).  Proof: the part of the algorithm's stack above the current limit (`Rep`), possibly
  ending in the unknown marker, is related to declarative stack types by `Match`; every step of the algorithm is
  reflected BACKWARDS (`Back`): each stack type admitted after the step is reached by the instruction from a stack
  type admitted before it.
* `seq_ok` (the height invariant), `callOK_all`, and from them
  `welltyped_progress`        (callFunc),
  `welltyped_progress_seq`    (execSeq on a function body),
  `welltyped_progress_invoke` (invoke):
  for a module satisfying `ModuleOK m tm` the outcome is never `.trap "stack"`, and never `.trap "unsupported"`
  under `NumOK tm`, for every fuel.
-/
import Wz.Model.Validator
import Wz.Spec.Wasm

namespace Wz.C03v
open Wz.Spec Wz.Spec.Wasm Wz.Model.Validator

/-! ## Part A: the primitives of the value type stack -/

/-- The part `above` of the algorithm's stack that lies above the current limit (top first, possibly with the
unknown marker as its last element) admits the declarative stack type `ts`. -/
def Match : List OT → List OT → Prop
  | [], ts => ts = []
  | x :: xs, ts => (x = none ∧ xs = []) ∨ ∃ t r, ts = t :: r ∧ OT.le x t ∧ Match xs r

/-- `s` is `above` on top of `below`, and the current limit is the height of `below` -/
def Rep (s : VS) (above below : List OT) : Prop :=
  s.stack = above ++ below ∧ s.limit = below.length

theorem match_nil {ts} : Match [] ts ↔ ts = [] := by simp [Match]

theorem match_marker (ts) : Match [none] ts := by simp [Match]

theorem match_inhabited : ∀ above : List OT, ∃ ts, Match above ts
  | [] => ⟨[], rfl⟩
  | x :: xs => by
    obtain ⟨r, hr⟩ := match_inhabited xs
    exact ⟨x :: r, Or.inr ⟨x, r, rfl, Or.inr rfl, hr⟩⟩

theorem match_cons_some {t : VT} {xs ts} (h : Match (some t :: xs) ts) :
    ∃ r, ts = some t :: r ∧ Match xs r := by
  simp only [Match] at h
  rcases h with ⟨h, _⟩ | ⟨t', r, rfl, hle, hm⟩
  · cases h
  · rcases hle with h | h
    · cases h
    · subst h; exact ⟨r, rfl, hm⟩

theorem match_somes_append {l : List VT} {xs ts} (h : Match (somes l ++ xs) ts) :
    ∃ r, ts = somes l ++ r ∧ Match xs r := by
  induction l generalizing ts with
  | nil => exact ⟨ts, rfl, h⟩
  | cons t l ih =>
    obtain ⟨r, rfl, hm⟩ := match_cons_some (by simpa [somes] using h)
    obtain ⟨r', rfl, hm'⟩ := ih (by simpa [somes] using hm)
    exact ⟨r', by simp [somes], hm'⟩

theorem match_cons_of {x : OT} {xs t r} (hle : OT.le x t) (hm : Match xs r) : Match (x :: xs) (t :: r) :=
  Or.inr ⟨t, r, rfl, hle, hm⟩

/-- pushing a (possibly unknown) value on a nonempty `above` -/
theorem match_cons_nonempty {x : OT} {xs ts} (hne : xs ≠ []) (h : Match (x :: xs) ts) :
    ∃ t r, ts = t :: r ∧ OT.le x t ∧ Match xs r := by
  simp only [Match] at h
  rcases h with ⟨_, h⟩ | h
  · exact absurd h hne
  · exact h

theorem rep_length {s above below} (h : Rep s above below) : s.stack.length = above.length + below.length := by
  rw [h.1, List.length_append]

/-- `tryPop` on the abstract view -/
def popA (s : VS) (below : List OT) : List OT → Option (OT × VS)
  | [] => none
  | [none] => some (none, s)
  | x :: r => some (x, { s with stack := r ++ below })

theorem tryPop_spec {s : VS} {above below} (h : Rep s above below) : s.tryPop = popA s below above := by
  obtain ⟨hs, hlim⟩ := h
  obtain ⟨stack, limits⟩ := s
  simp only at hs
  subst hs
  have hL : ∀ stk, VS.limit ⟨stk, limits⟩ = below.length := fun _ => hlim
  match above with
  | [] => simp [VS.tryPop, hL, popA]
  | [none] => simp [VS.tryPop, hL, popA]
  | [some t] => simp [VS.tryPop, hL, popA]
  | x :: y :: r =>
    have h1 : ¬ (r.length + below.length + 1 + 1 ≤ below.length) := by omega
    have h2 : ¬ (r.length + below.length + 1 = below.length) := by omega
    simp [VS.tryPop, hL, popA, h1, h2]

/-- backward effect of a successful `tryPop` -/
theorem tryPop_back {s s' : VS} {x : OT} {above below} (h : Rep s above below)
    (hp : s.tryPop = some (x, s')) :
    ∃ above', Rep s' above' below ∧ s'.limits = s.limits ∧
      (∀ ts t, OT.le x t → Match above' ts → Match above (t :: ts)) ∧ (x = none → above' ≠ []) := by
  rw [tryPop_spec h] at hp
  match above, h, hp with
  | [], _, hp => cases hp
  | [none], h, hp =>
    simp only [popA, Option.some.injEq, Prod.mk.injEq] at hp
    obtain ⟨rfl, rfl⟩ := hp
    exact ⟨[none], h, rfl, fun ts t _ _ => match_marker _, fun _ => by simp⟩
  | [some t0], h, hp =>
    simp only [popA, Option.some.injEq, Prod.mk.injEq] at hp
    obtain ⟨rfl, rfl⟩ := hp
    exact ⟨[], ⟨rfl, h.2⟩, rfl, fun ts t hle hm => match_cons_of hle hm, fun h => by cases h⟩
  | x0 :: y :: r, h, hp =>
    simp only [popA, Option.some.injEq, Prod.mk.injEq] at hp
    obtain ⟨rfl, rfl⟩ := hp
    exact ⟨y :: r, ⟨rfl, h.2⟩, rfl, fun ts t hle hm => match_cons_of hle hm, fun _ => by simp⟩

theorem pop_back {s s' : VS} {x : OT} {above below} (h : Rep s above below)
    (hp : s.pop = .ok (x, s')) :
    ∃ above', Rep s' above' below ∧ s'.limits = s.limits ∧
      (∀ ts t, OT.le x t → Match above' ts → Match above (t :: ts)) ∧ (x = none → above' ≠ []) := by
  unfold VS.pop at hp
  split at hp
  · next r hr =>
    cases hp
    exact tryPop_back h hr
  · cases hp

theorem popAndVerifyType_back {s s' : VS} {t : VT} {above below} (h : Rep s above below)
    (hp : s.popAndVerifyType t = .ok s') :
    ∃ above', Rep s' above' below ∧ s'.limits = s.limits ∧
      (∀ ts, Match above' ts → Match above (some t :: ts)) := by
  unfold VS.popAndVerifyType at hp
  split at hp
  · cases hp
  · next x s1 hr =>
    split at hp
    · next hc =>
      cases hp
      obtain ⟨above', h1, h2, h3, _⟩ := tryPop_back h hr
      refine ⟨above', h1, h2, fun ts hm => h3 ts (some t) ?_ hm⟩
      rcases hc with hc | hc
      · exact Or.inr hc
      · exact Or.inl hc
    · cases hp

theorem push_rep {s : VS} {above below} (v : OT) (h : Rep s above below) : Rep (s.push v) (v :: above) below :=
  ⟨by simp [VS.push, h.1], h.2⟩

theorem popAll_back {s s' : VS} {l : List VT} {above below} (h : Rep s above below)
    (hp : s.popAll l = .ok s') :
    ∃ above', Rep s' above' below ∧ s'.limits = s.limits ∧
      (∀ r, Match above' r → Match above (somes l ++ r)) := by
  induction l generalizing s above with
  | nil =>
    simp only [VS.popAll, Except.ok.injEq] at hp
    subst hp
    exact ⟨above, h, rfl, fun r hm => hm⟩
  | cons t l ih =>
    simp only [VS.popAll] at hp
    split at hp
    · next s1 h1 =>
      obtain ⟨a1, hr1, hl1, hb1⟩ := popAndVerifyType_back h h1
      obtain ⟨a2, hr2, hl2, hb2⟩ := ih hr1 hp
      exact ⟨a2, hr2, hl2.trans hl1, fun r hm => by simpa [somes] using hb1 _ (hb2 r hm)⟩
    · cases hp

theorem pushAll_rep {s : VS} {l : List VT} {above below} (h : Rep s above below) :
    Rep (s.pushAll l) (somes l.reverse ++ above) below ∧ (s.pushAll l).limits = s.limits := by
  induction l generalizing s above with
  | nil => exact ⟨h, rfl⟩
  | cons t l ih =>
    simp only [VS.pushAll]
    obtain ⟨h1, h2⟩ := ih (push_rep (some t) h)
    refine ⟨?_, by simpa [VS.push] using h2⟩
    simpa [somes, List.reverse_cons] using h1

theorem applySig_back {s s' : VS} {ps rs : List VT} {above below} (h : Rep s above below)
    (hp : s.applySig ps rs = .ok s') :
    ∃ above', Rep s' above' below ∧ s'.limits = s.limits ∧
      (∀ ts', Match above' ts' → ∃ r, ts' = somes rs.reverse ++ r ∧ Match above (somes ps.reverse ++ r)) := by
  unfold VS.applySig at hp
  split at hp
  · next s1 h1 =>
    cases hp
    obtain ⟨a1, hr1, hl1, hb1⟩ := popAll_back h h1
    obtain ⟨hr2, hl2⟩ := pushAll_rep (l := rs) hr1
    refine ⟨_, hr2, hl2.trans hl1, fun ts' hm => ?_⟩
    obtain ⟨r, rfl, hm'⟩ := match_somes_append hm
    exact ⟨r, rfl, hb1 r hm'⟩
  · cases hp

theorem stkLe_of_typesOK : ∀ {xs : List OT} {ws : List VT}, xs.length = ws.length →
    VS.typesOK xs ws = true → StkLe xs (somes ws)
  | [], [], _, _ => trivial
  | x :: xs, w :: ws, hl, ht => by
    simp only [VS.typesOK, Bool.and_eq_true, Bool.or_eq_true, beq_iff_eq] at ht
    refine ⟨?_, stkLe_of_typesOK (by simpa using hl) ht.2⟩
    rcases ht.1 with h | h
    · exact Or.inr h
    · exact Or.inl h
  | [], _ :: _, hl, _ => by simp at hl
  | _ :: _, [], hl, _ => by simp at hl

theorem popN_back {s s' : VS} {n : Nat} {xs : List OT} {above below} (h : Rep s above below)
    (hp : s.popN n = some (xs, s')) :
    ∃ above', Rep s' above' below ∧ s'.limits = s.limits ∧ xs.length = n ∧
      (∀ ws r, StkLe xs ws → Match above' r → Match above (ws ++ r)) := by
  induction n generalizing s above xs with
  | zero =>
    simp only [VS.popN, Option.some.injEq, Prod.mk.injEq] at hp
    obtain ⟨rfl, rfl⟩ := hp
    refine ⟨above, h, rfl, rfl, fun ws r hle hm => ?_⟩
    match ws, hle with
    | [], _ => exact hm
  | succ n ih =>
    simp only [VS.popN] at hp
    split at hp
    · cases hp
    · next x s1 h1 =>
      split at hp
      · cases hp
      · next ys s2 h2 =>
        simp only [Option.some.injEq, Prod.mk.injEq] at hp
        obtain ⟨rfl, rfl⟩ := hp
        obtain ⟨a1, hr1, hl1, hb1, _⟩ := tryPop_back h h1
        obtain ⟨a2, hr2, hl2, hlen, hb2⟩ := ih hr1 h2
        refine ⟨a2, hr2, hl2.trans hl1, by simp [hlen], fun ws r hle hm => ?_⟩
        match ws, hle with
        | w :: ws, hle => exact hb1 _ w hle.1 (hb2 ws r hle.2 hm)

theorem requireStackValues_back {s s' : VS} {want : List VT} {chk : Bool} {above below}
    (h : Rep s above below) (hp : s.requireStackValues want chk = .ok s') :
    ∃ above', Rep s' above' below ∧ s'.limits = s.limits ∧
      (∀ r, Match above' r → Match above (somes want.reverse ++ r)) ∧
      (chk = true → Match above' []) := by
  unfold VS.requireStackValues at hp
  split at hp
  · cases hp
  · next popped s1 h1 =>
    obtain ⟨a1, hr1, hl1, hlen, hb1⟩ := popN_back h h1
    split at hp
    · cases hp
    · next hc =>
      split at hp
      · next ht =>
        cases hp
        refine ⟨a1, hr1, hl1, fun r hm => hb1 _ r (stkLe_of_typesOK (by simp [hlen]) ht) hm, fun hchk => ?_⟩
        subst hchk
        have hlen' := rep_length hr1
        simp only [true_and, Classical.not_not] at hc
        rcases hc with hc | ⟨hc1, hc2⟩
        · have : a1 = [] := by
            apply List.eq_nil_of_length_eq_zero
            rw [hr1.2] at hc; omega
          subst this; rfl
        · have hl1' : a1.length = 1 := by rw [hr1.2] at hc1; omega
          match a1, hl1' with
          | [x], _ =>
            rw [hr1.1] at hc2
            simp only [List.cons_append, List.nil_append, List.head?_cons, Option.some.injEq] at hc2
            subst hc2
            exact match_marker _
      · cases hp

theorem reset_rep {s : VS} {above below} (h : Rep s above below) :
    Rep s.resetAtStackLimit [] below ∧ s.resetAtStackLimit.limits = s.limits := by
  refine ⟨⟨?_, h.2⟩, rfl⟩
  simp only [VS.resetAtStackLimit, List.nil_append]
  rw [h.1, h.2]
  simp

theorem unreachable_rep {s : VS} {above below} (h : Rep s above below) :
    Rep s.unreachable [none] below ∧ s.unreachable.limits = s.limits := by
  obtain ⟨h1, h2⟩ := reset_rep h
  exact ⟨push_rep none h1, h2⟩

theorem pushStackLimit_rep {s : VS} {above below} (h : Rep s above below) :
    Rep (s.pushStackLimit 0) [] (above ++ below) ∧ (s.pushStackLimit 0).limits = (above ++ below).length :: s.limits := by
  simp only [VS.pushStackLimit, Nat.sub_zero, h.1, Rep, VS.limit, List.nil_append, List.headD_cons, and_self]

/-- the `end` of a frame entered at `below' = aboveOuter ++ below` -/
theorem endBlock_back {s s' : VS} {rs : List VT} {above bel : List OT} {lims : List Nat}
    (h : Rep s above bel) (hlims : s.limits = bel.length :: lims) (hp : s.endBlock rs = .ok s') :
    s'.stack = somes rs.reverse ++ bel ∧ s'.limits = lims ∧ Match above (somes rs.reverse) := by
  unfold VS.endBlock at hp
  split at hp
  · next s1 h1 =>
    cases hp
    obtain ⟨a1, hr1, hl1, hb1, hc1⟩ := requireStackValues_back h h1
    obtain ⟨hr2, hl2⟩ := reset_rep hr1
    obtain ⟨hr3, hl3⟩ := pushAll_rep (l := rs) hr2
    refine ⟨by simpa [VS.popStackLimit] using hr3.1, ?_, by simpa using hb1 [] (hc1 rfl)⟩
    simp only [VS.popStackLimit]
    rw [hl3, hl2, hl1, hlims]; rfl
  · cases hp

/-! ## Part B: `check` is sound for the declarative rules -/

def labels (cs : List CF) : List (List VT) := cs.map CF.labelTypes

theorem labels_get {cs : List CF} {l : Nat} {f : CF} (h : cs[l]? = some f) : (labels cs)[l]? = some f.labelTypes := by
  simp [labels, List.getElem?_map, h]

/-- One step of the algorithm from `s` (whose part above the limit is `above`) to `s'`: the part below the limit
and the limits are untouched, and every stack type admitted afterwards is reached by `is` from a stack type
admitted before. -/
def Back (C : Ctx) (ls : List (List VT)) (is : List TI) (s : VS) (above below : List OT) (s' : VS) : Prop :=
  ∃ above', Rep s' above' below ∧ s'.limits = s.limits ∧
    ∀ ts', Match above' ts' → ∃ ts, Match above ts ∧ HasType C ls is ts ts'

theorem btResults_reverse (bt : Option VT) : (btResults bt).reverse = btResults bt := by
  cases bt <;> rfl

theorem match_push {x : OT} {xs ts} (hne : x = none → xs ≠ []) (h : Match (x :: xs) ts) :
    ∃ t r, ts = t :: r ∧ OT.le x t ∧ Match xs r := by
  simp only [Match] at h
  rcases h with ⟨h1, h2⟩ | h
  · exact absurd h2 (hne h1)
  · exact h

theorem sig_case {C : Ctx} {ls i} {s s' : VS} {ps rs : List VT} {above below} (h : Rep s above below)
    (hp : s.applySig ps rs = .ok s') (ht : HasType C ls [i] (somes ps.reverse) (somes rs.reverse)) :
    Back C ls [i] s above below s' := by
  obtain ⟨a1, hr1, hl1, hb1⟩ := applySig_back h hp
  refine ⟨a1, hr1, hl1, fun ts' hm => ?_⟩
  obtain ⟨r, rfl, hm'⟩ := hb1 ts' hm
  exact ⟨_, hm', HasType.frame r ht⟩

theorem hasType_id {C : Ctx} {ls} (ts : List OT) : HasType C ls [] ts ts := by
  simpa using HasType.frame ts (HasType.nil (C := C) (ls := ls))

theorem stkLe_refl : ∀ ts : List OT, StkLe ts ts
  | [] => trivial
  | _ :: ts => ⟨Or.inr rfl, stkLe_refl ts⟩

theorem stkLe_of_labelAgrees : ∀ {ds : List OT} {ts : List VT}, labelAgrees ds ts = true → StkLe ds (somes ts)
  | [], [], _ => trivial
  | d :: ds, t :: ts, h => by
    simp only [labelAgrees, Bool.and_eq_true, Bool.or_eq_true, beq_iff_eq] at h
    exact ⟨h.1.elim Or.inl Or.inr, stkLe_of_labelAgrees h.2⟩
  | [], _ :: _, h => by simp [labelAgrees] at h
  | _ :: _, [], h => by simp [labelAgrees] at h

theorem brTablePop_back {s s' : VS} {l : List VT} {dt : List OT} {above below} (h : Rep s above below)
    (hp : brTablePop s l = .ok (dt, s')) :
    ∃ above', Rep s' above' below ∧ s'.limits = s.limits ∧ StkLe dt (somes l) ∧
      (∀ r, Match above' r → Match above (dt ++ r)) := by
  induction l generalizing s above dt with
  | nil =>
    simp only [brTablePop, Except.ok.injEq, Prod.mk.injEq] at hp
    obtain ⟨rfl, rfl⟩ := hp
    exact ⟨above, h, rfl, trivial, fun r hm => hm⟩
  | cons e l ih =>
    simp only [brTablePop] at hp
    split at hp
    · cases hp
    · next actual s1 h1 =>
      obtain ⟨a1, hr1, hl1, hb1, _⟩ := pop_back h h1
      split at hp
      · next hact =>
        split at hp
        · next ts s2 h2 =>
          simp only [Except.ok.injEq, Prod.mk.injEq] at hp
          obtain ⟨rfl, rfl⟩ := hp
          obtain ⟨a2, hr2, hl2, hle2, hb2⟩ := ih hr1 h2
          exact ⟨a2, hr2, hl2.trans hl1, ⟨Or.inl rfl, hle2⟩,
            fun r hm => hb1 _ none (Or.inl hact) (hb2 r hm)⟩
        · cases hp
      · split at hp
        · next hact =>
          split at hp
          · next ts s2 h2 =>
            simp only [Except.ok.injEq, Prod.mk.injEq] at hp
            obtain ⟨rfl, rfl⟩ := hp
            obtain ⟨a2, hr2, hl2, hle2, hb2⟩ := ih hr1 h2
            exact ⟨a2, hr2, hl2.trans hl1, ⟨Or.inr rfl, hle2⟩,
              fun r hm => hb1 _ (some e) (Or.inr hact) (hb2 r hm)⟩
          · cases hp
        · cases hp

mutual
theorem sound_instr (C : Ctx) : (i : TI) → ∀ (cs : List CF) (s s' : VS) (above below : List OT),
    alignSaneI i = true → checkInstr C cs i s = .ok s' → Rep s above below →
    Back C (labels cs) [i] s above below s'
  | .const t b, cs, s, s', above, below, _, hc, hr => by
    simp only [checkInstr, Except.ok.injEq] at hc
    subst hc
    refine ⟨_, push_rep (some t) hr, rfl, fun ts' hm => ?_⟩
    obtain ⟨r, rfl, hm'⟩ := match_cons_some hm
    exact ⟨r, hm', by simpa using HasType.frame r (HasType.const (C := C) (t := t) (b := b))⟩
  | .num name, cs, s, s', above, below, _, hc, hr => by
    simp only [checkInstr] at hc
    split at hc
    · next ps r hs => exact sig_case hr hc (HasType.num hs)
    · cases hc
  | .localGet i, cs, s, s', above, below, _, hc, hr => by
    simp only [checkInstr] at hc
    split at hc
    · next t ht => exact sig_case hr hc (HasType.localGet ht)
    · cases hc
  | .localSet i, cs, s, s', above, below, _, hc, hr => by
    simp only [checkInstr] at hc
    split at hc
    · next t ht => exact sig_case hr hc (HasType.localSet ht)
    · cases hc
  | .localTee i, cs, s, s', above, below, _, hc, hr => by
    simp only [checkInstr] at hc
    split at hc
    · next t ht => exact sig_case hr hc (HasType.localTee ht)
    · cases hc
  | .globalGet i, cs, s, s', above, below, _, hc, hr => by
    simp only [checkInstr] at hc
    split at hc
    · next t mu ht => exact sig_case hr hc (HasType.globalGet ht)
    · cases hc
  | .globalSet i, cs, s, s', above, below, _, hc, hr => by
    simp only [checkInstr] at hc
    split at hc
    · next t ht => exact sig_case hr hc (HasType.globalSet ht)
    · cases hc
    · cases hc
  | .load t w sg al off, cs, s, s', above, below, hal, hc, hr => by
    simp only [checkInstr] at hc
    simp only [alignSaneI, decide_eq_true_eq] at hal
    split at hc
    · cases hc
    · next hmem =>
      split at hc
      · cases hc
      · next hok =>
        split at hc
        · cases hc
        · next halign =>
          simp only [Bool.not_eq_false] at hmem hok halign
          simp only [alignOK, Bool.or_eq_true, decide_eq_true_eq] at halign
          exact sig_case hr hc (HasType.load hmem hok (by omega))
  | .store t w al off, cs, s, s', above, below, hal, hc, hr => by
    simp only [checkInstr] at hc
    simp only [alignSaneI, decide_eq_true_eq] at hal
    split at hc
    · cases hc
    · next hmem =>
      split at hc
      · cases hc
      · next hok =>
        split at hc
        · cases hc
        · next halign =>
          simp only [Bool.not_eq_false] at hmem hok halign
          simp only [alignOK, Bool.or_eq_true, decide_eq_true_eq] at halign
          exact sig_case hr hc (HasType.store hmem hok (by omega))
  | .memSize, cs, s, s', above, below, _, hc, hr => by
    simp only [checkInstr] at hc
    split at hc
    · cases hc
    · next hmem => exact sig_case hr hc (HasType.memSize (by simpa using hmem))
  | .memGrow, cs, s, s', above, below, _, hc, hr => by
    simp only [checkInstr] at hc
    split at hc
    · cases hc
    · next hmem => exact sig_case hr hc (HasType.memGrow (by simpa using hmem))
  | .memCopy, cs, s, s', above, below, _, hc, hr => by
    simp only [checkInstr] at hc
    split at hc
    · cases hc
    · next hmem => exact sig_case hr hc (HasType.memCopy (by simpa using hmem))
  | .memFill, cs, s, s', above, below, _, hc, hr => by
    simp only [checkInstr] at hc
    split at hc
    · cases hc
    · next hmem => exact sig_case hr hc (HasType.memFill (by simpa using hmem))
  | .drop, cs, s, s', above, below, _, hc, hr => by
    simp only [checkInstr] at hc
    split at hc
    · next x s1 h1 =>
      cases hc
      obtain ⟨a1, hr1, hl1, hb1, _⟩ := pop_back hr h1
      refine ⟨a1, hr1, hl1, fun ts' hm => ⟨x :: ts', hb1 ts' x (Or.inr rfl) hm, ?_⟩⟩
      simpa using HasType.frame ts' (HasType.drop (C := C) (ls := labels cs) x)
    · cases hc
  | .select, cs, s, s', above, below, _, hc, hr => by
    simp only [checkInstr] at hc
    split at hc
    · cases hc
    · next s1 h1 =>
      obtain ⟨a1, hr1, hl1, hb1⟩ := popAndVerifyType_back hr h1
      split at hc
      · cases hc
      · next v1 s2 h2 =>
        obtain ⟨a2, hr2, hl2, hb2, hn2⟩ := pop_back hr1 h2
        split at hc
        · cases hc
        · next v2 s3 h3 =>
          obtain ⟨a3, hr3, hl3, hb3, hn3⟩ := pop_back hr2 h3
          split at hc
          · cases hc
          · next hcond =>
            -- the common part: the pushed type `v` with `v1 ≤ v`, `v2 ≤ v`
            have key : ∀ v : OT, s' = s3.push v → (v = none → a3 ≠ []) →
                (∀ t, OT.le v t → OT.le v1 t ∧ OT.le v2 t) → Back C (labels cs) [.select] s above below s' := by
              intro v hs' hne hle
              subst hs'
              refine ⟨_, push_rep v hr3, hl3.trans (hl2.trans hl1), fun ts' hm => ?_⟩
              obtain ⟨t, r, rfl, hvt, hm3⟩ := match_push hne hm
              obtain ⟨h1t, h2t⟩ := hle t hvt
              refine ⟨some .i32 :: t :: t :: r, hb1 _ (hb2 _ t h1t (hb3 _ t h2t hm3)), ?_⟩
              simpa using HasType.frame r (HasType.select (C := C) (ls := labels cs) t)
            split at hc
            · next hv1 =>
              simp only [Except.ok.injEq] at hc
              exact key v2 hc.symm hn3 (fun t hle => ⟨Or.inl hv1, hle⟩)
            · next hv1 =>
              simp only [Except.ok.injEq] at hc
              refine key v1 hc.symm (fun h => absurd h hv1) (fun t hle => ⟨hle, ?_⟩)
              rcases hle with h | h
              · exact absurd h hv1
              · subst h
                by_cases h2n : v2 = none
                · exact Or.inl h2n
                · refine Or.inr ?_
                  by_cases h12 : v1 = v2
                  · exact h12.symm
                  · exact absurd ⟨h12, hv1, h2n⟩ hcond
  | .unreachable, cs, s, s', above, below, _, hc, hr => by
    simp only [checkInstr, Except.ok.injEq] at hc
    subst hc
    obtain ⟨hr1, hl1⟩ := unreachable_rep hr
    obtain ⟨ts, hts⟩ := match_inhabited above
    exact ⟨_, hr1, hl1, fun ts' _ => ⟨ts, hts, HasType.unreachable ts ts'⟩⟩
  | .nop, cs, s, s', above, below, _, hc, hr => by
    simp only [checkInstr, Except.ok.injEq] at hc
    subst hc
    refine ⟨above, hr, rfl, fun ts' hm => ⟨ts', hm, ?_⟩⟩
    simpa using HasType.frame ts' (HasType.nop (C := C) (ls := labels cs))
  | .ret, cs, s, s', above, below, _, hc, hr => by
    simp only [checkInstr] at hc
    split at hc
    · next s1 h1 =>
      cases hc
      obtain ⟨a1, hr1, hl1, hb1, _⟩ := requireStackValues_back hr h1
      obtain ⟨hr2, hl2⟩ := unreachable_rep hr1
      obtain ⟨r, hm1⟩ := match_inhabited a1
      exact ⟨_, hr2, hl2.trans hl1, fun ts' _ => ⟨_, hb1 r hm1, HasType.ret r ts'⟩⟩
    · cases hc
  | .br l, cs, s, s', above, below, _, hc, hr => by
    simp only [checkInstr] at hc
    split at hc
    · cases hc
    · next target htg =>
      split at hc
      · next s1 h1 =>
        cases hc
        obtain ⟨a1, hr1, hl1, hb1, _⟩ := requireStackValues_back hr h1
        obtain ⟨hr2, hl2⟩ := unreachable_rep hr1
        obtain ⟨r, hm1⟩ := match_inhabited a1
        exact ⟨_, hr2, hl2.trans hl1, fun ts' _ => ⟨_, hb1 r hm1, HasType.br r ts' (labels_get htg)⟩⟩
      · cases hc
  | .brIf l, cs, s, s', above, below, _, hc, hr => by
    simp only [checkInstr] at hc
    split at hc
    · cases hc
    · next target htg =>
      split at hc
      · cases hc
      · next s1 h1 =>
        obtain ⟨a1, hr1, hl1, hb1⟩ := popAndVerifyType_back hr h1
        split at hc
        · next s2 h2 =>
          cases hc
          obtain ⟨a2, hr2, hl2, hb2, _⟩ := requireStackValues_back hr1 h2
          obtain ⟨hr3, hl3⟩ := pushAll_rep (l := target.labelTypes) hr2
          refine ⟨_, hr3, hl3.trans (hl2.trans hl1), fun ts' hm => ?_⟩
          obtain ⟨r, rfl, hm'⟩ := match_somes_append hm
          exact ⟨_, hb1 _ (hb2 r hm'), by
            simpa using HasType.frame r (HasType.brIf (C := C) (labels_get htg))⟩
        · cases hc
  | .brTable tbl d, cs, s, s', above, below, _, hc, hr => by
    simp only [checkInstr] at hc
    split at hc
    · cases hc
    · next dflt hd =>
      split at hc
      · cases hc
      · next s1 h1 =>
        obtain ⟨a1, hr1, hl1, hb1⟩ := popAndVerifyType_back hr h1
        split at hc
        · -- reference types enabled
          split at hc
          · cases hc
          · next dt s2 h2 =>
            obtain ⟨a2, hr2, hl2, hle2, hb2⟩ := brTablePop_back hr1 h2
            split at hc
            · next hall =>
              cases hc
              obtain ⟨hr3, hl3⟩ := unreachable_rep hr2
              obtain ⟨r, hm2⟩ := match_inhabited a2
              refine ⟨_, hr3, hl3.trans (hl2.trans hl1), fun ts' _ => ⟨_, hb1 _ (hb2 r hm2), ?_⟩⟩
              refine HasType.brTable dt r ts' (fun l hl => ?_)
              rcases List.mem_cons.1 hl with rfl | hl
              · exact ⟨_, labels_get hd, hle2⟩
              · have := List.all_eq_true.1 hall l hl
                split at this
                · cases this
                · next f hf => exact ⟨_, labels_get hf, stkLe_of_labelAgrees this⟩
            · cases hc
        · -- reference types disabled
          split at hc
          · cases hc
          · next s2 h2 =>
            obtain ⟨a2, hr2, hl2, hb2, _⟩ := requireStackValues_back hr1 h2
            split at hc
            · next hall =>
              cases hc
              obtain ⟨hr3, hl3⟩ := unreachable_rep hr2
              obtain ⟨r, hm2⟩ := match_inhabited a2
              refine ⟨_, hr3, hl3.trans (hl2.trans hl1), fun ts' _ => ⟨_, hb1 _ (hb2 r hm2), ?_⟩⟩
              refine HasType.brTable (somes dflt.labelTypes.reverse) r ts' (fun l hl => ?_)
              rcases List.mem_cons.1 hl with rfl | hl
              · exact ⟨_, labels_get hd, stkLe_refl _⟩
              · have := List.all_eq_true.1 hall l hl
                split at this
                · cases this
                · next f hf =>
                  simp only [beq_iff_eq] at this
                  exact ⟨f.labelTypes, labels_get hf, by rw [this]; exact stkLe_refl _⟩
            · cases hc
  | .call f, cs, s, s', above, below, _, hc, hr => by
    simp only [checkInstr] at hc
    split at hc
    · cases hc
    · next ti hti =>
      split at hc
      · cases hc
      · next ft hft => exact sig_case hr hc (HasType.call hti hft)
  | .callIndirect ti, cs, s, s', above, below, _, hc, hr => by
    simp only [checkInstr] at hc
    split at hc
    · cases hc
    · next ft hft =>
      split at hc
      · cases hc
      · next htab =>
        split at hc
        · cases hc
        · next s1 h1 =>
          obtain ⟨a1, hr1, hl1, hb1⟩ := popAndVerifyType_back hr h1
          obtain ⟨a2, hr2, hl2, hb2⟩ := applySig_back hr1 hc
          refine ⟨a2, hr2, hl2.trans hl1, fun ts' hm => ?_⟩
          obtain ⟨r, rfl, hm'⟩ := hb2 ts' hm
          exact ⟨_, hb1 _ hm', by
            simpa using HasType.frame r (HasType.callIndirect (C := C) (ls := labels cs) (by simpa using htab) hft)⟩
  | .block bt body, cs, s, s', above, below, hal, hc, hr => by
    simp only [checkInstr] at hc
    simp only [alignSaneI] at hal
    split at hc
    · cases hc
    · next s2 h2 =>
      obtain ⟨hr1, hl1⟩ := pushStackLimit_rep hr
      obtain ⟨a2, hr2, hl2, hb2⟩ := sound_seq C body _ _ _ _ _ hal h2 hr1
      obtain ⟨hst, hlim, hm⟩ := endBlock_back hr2 (hl2.trans hl1) hc
      rw [btResults_reverse] at hst hm
      refine ⟨somes (btResults bt) ++ above, ⟨by simp [hst], by rw [VS.limit, hlim]; exact hr.2⟩, hlim,
        fun ts' hm' => ?_⟩
      obtain ⟨r, rfl, hmr⟩ := match_somes_append hm'
      obtain ⟨ts0, hm0, hty⟩ := hb2 _ hm
      rw [match_nil] at hm0
      subst hm0
      exact ⟨r, hmr, by simpa using HasType.frame r (HasType.block (by simpa [labels, CF.labelTypes] using hty))⟩
  | .loop bt body, cs, s, s', above, below, hal, hc, hr => by
    simp only [checkInstr] at hc
    simp only [alignSaneI] at hal
    split at hc
    · cases hc
    · next s2 h2 =>
      obtain ⟨hr1, hl1⟩ := pushStackLimit_rep hr
      obtain ⟨a2, hr2, hl2, hb2⟩ := sound_seq C body _ _ _ _ _ hal h2 hr1
      obtain ⟨hst, hlim, hm⟩ := endBlock_back hr2 (hl2.trans hl1) hc
      rw [btResults_reverse] at hst hm
      refine ⟨somes (btResults bt) ++ above, ⟨by simp [hst], by rw [VS.limit, hlim]; exact hr.2⟩, hlim,
        fun ts' hm' => ?_⟩
      obtain ⟨r, rfl, hmr⟩ := match_somes_append hm'
      obtain ⟨ts0, hm0, hty⟩ := hb2 _ hm
      rw [match_nil] at hm0
      subst hm0
      exact ⟨r, hmr, by simpa using HasType.frame r (HasType.loop (by simpa [labels, CF.labelTypes] using hty))⟩
  | .ite bt th el, cs, s, s', above, below, hal, hc, hr => by
    simp only [checkInstr] at hc
    simp only [alignSaneI, Bool.and_eq_true] at hal
    split at hc
    · cases hc
    · next s0 h0 =>
      obtain ⟨a0, hr0, hl0, hb0⟩ := popAndVerifyType_back hr h0
      split at hc
      · cases hc
      · next s1 h1 =>
        obtain ⟨hrp, hlp⟩ := pushStackLimit_rep hr0
        obtain ⟨a1, hr1, hl1, hb1⟩ := sound_seq C th _ _ _ _ _ hal.1 h1 hrp
        split at hc
        · cases hc
        · next s2 h2 =>
          obtain ⟨a2, hr2, hl2, hbq, hcq⟩ := requireStackValues_back hr1 h2
          have hmth : Match a1 (somes (btResults bt)) := by
            simpa [btResults_reverse] using hbq [] (hcq rfl)
          obtain ⟨hr3, hl3⟩ := reset_rep hr2
          split at hc
          · cases hc
          · next s3 h3 =>
            obtain ⟨a3, hr4, hl4, hb4⟩ := sound_seq C el _ _ _ _ _ hal.2 h3 hr3
            obtain ⟨hst, hlim, hm⟩ :=
              endBlock_back hr4 (hl4.trans (hl3.trans (hl2.trans (hl1.trans hlp)))) hc
            rw [btResults_reverse] at hst hm
            refine ⟨somes (btResults bt) ++ a0, ⟨by simp [hst], by rw [VS.limit, hlim]; exact hr0.2⟩,
              hlim.trans hl0, fun ts' hm' => ?_⟩
            obtain ⟨r, rfl, hmr⟩ := match_somes_append hm'
            obtain ⟨t1, hm1, hty1⟩ := hb1 _ hmth
            obtain ⟨t2, hm2, hty2⟩ := hb4 _ hm
            rw [match_nil] at hm1 hm2
            subst hm1; subst hm2
            exact ⟨some .i32 :: r, hb0 r hmr, by
              simpa using HasType.frame r (HasType.ite (by simpa [labels, CF.labelTypes] using hty1)
                (by simpa [labels, CF.labelTypes] using hty2))⟩
theorem sound_seq (C : Ctx) : (is : List TI) → ∀ (cs : List CF) (s s' : VS) (above below : List OT),
    alignSane is = true → checkSeq C cs is s = .ok s' → Rep s above below →
    Back C (labels cs) is s above below s'
  | [], cs, s, s', above, below, _, hc, hr => by
    simp only [checkSeq, Except.ok.injEq] at hc
    subst hc
    exact ⟨above, hr, rfl, fun ts' hm => ⟨ts', hm, hasType_id ts'⟩⟩
  | i :: is, cs, s, s', above, below, hal, hc, hr => by
    simp only [checkSeq] at hc
    simp only [alignSane, Bool.and_eq_true] at hal
    split at hc
    · next s1 h1 =>
      obtain ⟨a1, hr1, hl1, hb1⟩ := sound_instr C i _ _ _ _ _ hal.1 h1 hr
      obtain ⟨a2, hr2, hl2, hb2⟩ := sound_seq C is _ _ _ _ _ hal.2 hc hr1
      refine ⟨a2, hr2, hl2.trans hl1, fun ts' hm => ?_⟩
      obtain ⟨t1, hm1, hty1⟩ := hb2 ts' hm
      obtain ⟨t0, hm0, hty0⟩ := hb1 t1 hm1
      exact ⟨t0, hm0, HasType.cons hty0 hty1⟩
    · cases hc
end

/-- **Soundness of the validator model** for all W0 bodies: what `check` accepts is well typed by the
declarative rules, provided no load/store uses an alignment exponent ≥ 63 (quirk Q3: those are accepted by the
Go code although the specification rejects them). -/
theorem validate_sound_W0 (C : Ctx) (body : List TI) (hal : alignSane body = true)
    (h : check C body = .ok ()) : WellTyped C body := by
  unfold check at h
  split at h
  · cases h
  · next s hs =>
    split at h
    · next s' he =>
      have hr0 : Rep ({} : VS) [] [] := ⟨rfl, rfl⟩
      obtain ⟨a, hr, hl, hb⟩ := sound_seq C body _ _ _ _ _ hal hs hr0
      -- the function frame has no limit: redo the `end` check by hand
      unfold VS.endBlock at he
      split at he
      · next s1 h1 =>
        obtain ⟨a1, _, _, hb1, hc1⟩ := requireStackValues_back hr h1
        have hm : Match a (somes C.results.reverse) := by simpa using hb1 [] (hc1 rfl)
        obtain ⟨t0, hm0, hty⟩ := hb _ hm
        rw [match_nil] at hm0
        subst hm0
        simpa [WellTyped, labels, CF.labelTypes] using hty
      · cases he
    · cases h

/-! ## Part C: progress of well-typed code under the reference semantics -/

variable {m : Module}

theorem execSeq_zero (is fr st) : execSeq m 0 is fr st = (.exhausted, fr, st) := by
  unfold execSeq; rfl
theorem execInstr_zero (i fr st) : execInstr m 0 i fr st = (.exhausted, fr, st) := by
  unfold execInstr; rfl
theorem execSeq_nil_succ (k fr st) : execSeq m (k+1) [] fr st = (.next, fr, st) := by
  unfold execSeq; rfl
theorem execSeq_cons_next {k i rest fr st fr' st'} (h : execInstr m k i fr st = (.next, fr', st')) :
    execSeq m (k+1) (i :: rest) fr st = execSeq m k rest fr' st' := by
  rw [execSeq, h]
theorem execSeq_cons_other {k i rest fr st} (h : (execInstr m k i fr st).1 ≠ .next) :
    execSeq m (k+1) (i :: rest) fr st = execInstr m k i fr st := by
  rw [execSeq]
  split
  · next h' => rw [h'] at h; exact absurd rfl h
  · rfl

def TrapOK (k : String) : Prop := k = "div0" ∨ k = "overflow" ∨ k = "invalid-conversion"

theorem trapOK_ne {k} (h : TrapOK k) : k ≠ "stack" ∧ k ≠ "unsupported" := by
  rcases h with rfl | rfl | rfl <;> decide

theorem numResult_val (v k) : numResult (.val v) ≠ .error k := by simp [numResult]
theorem numResult_fres (f x k) : numResult (Num.fres f x) ≠ .error k := by
  unfold Num.fres; split
  · unfold numResult; split <;> simp_all
  · simp [numResult]
theorem numResult_optRes {n} {o : Option (BitVec n)} {kind k} (h : numResult (Num.optRes o kind) = .error k) : k = kind := by
  cases o <;> simp [Num.optRes, numResult] at h; exact h.symm
theorem numResult_trap {kind k} (h : numResult (.trap kind) = .error k) : k = kind := by
  simp [numResult] at h; exact h.symm
theorem numResult_truncRes {x k} (h : numResult (Num.truncRes x) = .error k) : TrapOK k := by
  unfold Num.truncRes at h
  split at h
  · exact absurd h (numResult_val _ _)
  · rw [numResult_trap h]; simp [TrapOK]
  · rw [numResult_trap h]; simp [TrapOK]

theorem ibin_ok {n op a b r k} (h : Num.ibin n op a b = some r) (hk : numResult r = .error k) : TrapOK k := by
  unfold Num.ibin at h
  simp only at h
  split at h <;> (try (cases h)) <;> (try (exact absurd hk (numResult_val _ _)))
  · rw [numResult_optRes hk]; simp [TrapOK]
  · rw [numResult_optRes hk]; simp [TrapOK]
  · split at hk
    · rw [numResult_trap hk]; simp [TrapOK]
    · rw [numResult_optRes hk]; simp [TrapOK]
  · rw [numResult_optRes hk]; simp [TrapOK]

theorem iun_ok {n op a r k} (h : Num.iun n op a = some r) (hk : numResult r = .error k) : TrapOK k := by
  unfold Num.iun at h
  simp only at h
  split at h <;> (try (cases h)) <;> (try (exact absurd hk (numResult_val _ _)))

theorem fbin_ok {f op a b r k} (h : Num.fbin f op a b = some r) (hk : numResult r = .error k) : TrapOK k := by
  unfold Num.fbin at h
  split at h <;> (try (cases h)) <;> (try (exact absurd hk (numResult_val _ _))) <;>
    (try (exact absurd hk (numResult_fres _ _ _)))

theorem fun1_ok {f op a r k} (h : Num.fun1 f op a = some r) (hk : numResult r = .error k) : TrapOK k := by
  unfold Num.fun1 at h
  split at h <;> (try (cases h)) <;> (try (exact absurd hk (numResult_val _ _))) <;>
    (try (exact absurd hk (numResult_fres _ _ _)))

theorem conv_ok {name a r k} (h : Num.conv name a = some r) (hk : numResult r = .error k) : TrapOK k := by
  unfold Num.conv at h
  split at h <;> (try (cases h)) <;> (try (exact absurd hk (numResult_val _ _))) <;>
    (try (exact absurd hk (numResult_fres _ _ _))) <;> (try (exact numResult_truncRes hk))

theorem scalar_ok {name args r k} (h : Num.scalar name args = some r) (hk : numResult r = .error k) : TrapOK k := by
  unfold Num.scalar at h
  split at h
  · simp only [Option.orElse] at h
    split at h
    · next hc =>
      cases h
      exact conv_ok hc hk
    · simp only at h
      split at h
      · exact iun_ok h hk
      · exact iun_ok h hk
      · exact fun1_ok h hk
      · exact fun1_ok h hk
      · cases h
  · split at h
    · exact ibin_ok h hk
    · exact ibin_ok h hk
    · exact fbin_ok h hk
    · exact fbin_ok h hk
    · cases h
  · cases h

/-- The outcome of running code of type `ts1 → ts2` on a stack of height `b + |ts1|`
(`n2 = |ts2|`, `ls` the label types, `nres` the number of results of the function). -/
def Good (U : Prop) (ls : List (List VT)) (nres b n2 : Nat) : Ctl × Frame × Store → Prop
  | (.next, fr, _) => fr.stack.length = b + n2
  | (.br n, fr, _) => ∃ lt, ls[n]? = some lt ∧ b + lt.length ≤ fr.stack.length
  | (.ret, fr, _) => nres ≤ fr.stack.length
  | (.trap k, _, _) => k ≠ "stack" ∧ (U → k ≠ "unsupported")
  | (.exhausted, _, _) => True

theorem good_single {U ls nres b n2 e fr st}
    (h : ∀ k, Good U ls nres b n2 (execInstr m k e fr st)) : ∀ k, Good U ls nres b n2 (execSeq m k [e] fr st) := by
  intro k
  match k with
  | 0 => rw [execSeq_zero]; trivial
  | k + 1 =>
    have hk := h k
    by_cases hn : (execInstr m k e fr st).1 = .next
    · rcases hres : execInstr m k e fr st with ⟨c, fr', st'⟩
      rw [hres] at hn
      simp only at hn
      subst hn
      rw [execSeq_cons_next hres]
      match k with
      | 0 => rw [execSeq_zero]; trivial
      | k + 1 => rw [execSeq_nil_succ]; rw [hres] at hk; exact hk
    · rw [execSeq_cons_other hn]; exact hk

theorem good_single' {U ls nres b n2 e fr st} {P : Nat → Prop} (hP : ∀ k, P (k + 1) → P k)
    (h : ∀ k, P k → Good U ls nres b n2 (execInstr m k e fr st)) :
    ∀ k, P k → Good U ls nres b n2 (execSeq m k [e] fr st) := by
  intro k hPk
  match k with
  | 0 => rw [execSeq_zero]; trivial
  | k + 1 =>
    have hk := h k (hP k hPk)
    by_cases hn : (execInstr m k e fr st).1 = .next
    · rcases hres : execInstr m k e fr st with ⟨c, fr', st'⟩
      rw [hres] at hn
      simp only at hn
      subst hn
      rw [execSeq_cons_next hres]
      match k with
      | 0 => rw [execSeq_zero]; trivial
      | k + 1 => rw [execSeq_nil_succ]; rw [hres] at hk; exact hk
    · rw [execSeq_cons_other hn]; exact hk

theorem execSeq_single_succ (k e fr st) : execSeq m (k+2) [e] fr st = execInstr m (k+1) e fr st := by
  by_cases hn : (execInstr m (k+1) e fr st).1 = .next
  · rcases hres : execInstr m (k+1) e fr st with ⟨c, fr', st'⟩
    rw [hres] at hn
    simp only at hn
    subst hn
    rw [execSeq_cons_next hres, execSeq_nil_succ]
  · rw [execSeq_cons_other hn]

/-- `block`: from the body (typed `[] → bt` under the extra label `bt`) to the instruction -/
theorem good_block {U ls nres} {P : Nat → Prop} (hP : ∀ k, P (k + 1) → P k) {bt : List VT} {body : List Instr}
    (hb : ∀ k, P k → ∀ fr st b, fr.stack.length = b → Good U (bt :: ls) nres b bt.length (execSeq m k body fr st)) :
    ∀ k, P k → ∀ fr st b, fr.stack.length = b →
      Good U ls nres b bt.length (execInstr m k (.block bt.length body) fr st) := by
  intro k hPk fr st b hlen
  match k with
  | 0 => rw [execInstr_zero]; trivial
  | k + 1 =>
    have h := hb k (hP k hPk) fr st b hlen
    simp only [execInstr]
    rcases hres : execSeq m k body fr st with ⟨c, fr', st'⟩
    rw [hres] at h
    match c, h with
    | .next, h => exact h
    | .br 0, h =>
      simp only [Good, List.getElem?_cons_zero, Option.some.injEq, exists_eq_left'] at h
      simp only [Good, splitTop, List.length_append, List.length_take, List.length_drop]
      omega
    | .br (n + 1), h => simpa [Good] using h
    | .ret, h => exact h
    | .trap _, h => exact h
    | .exhausted, h => trivial

/-- `loop` (no parameters in W0): a branch to the loop restores the entry height and repeats -/
theorem good_loop {U ls nres n2} {P : Nat → Prop} (hP : ∀ k, P (k + 1) → P k) {body : List Instr}
    (hb : ∀ k, P k → ∀ fr st b, fr.stack.length = b → Good U ([] :: ls) nres b n2 (execSeq m k body fr st)) :
    ∀ k, P k → ∀ fr st b, fr.stack.length = b → Good U ls nres b n2 (execInstr m k (.loop body) fr st) := by
  intro k
  induction k with
  | zero => intro _ fr st b _; rw [execInstr_zero]; trivial
  | succ k ih =>
    intro hPk fr st b hlen
    have h := hb k (hP k hPk) fr st b hlen
    simp only [execInstr]
    rcases hres : execSeq m k body fr st with ⟨c, fr', st'⟩
    rw [hres] at h
    match c, h with
    | .next, h => exact h
    | .br 0, h =>
      simp only [Good, List.getElem?_cons_zero, Option.some.injEq, exists_eq_left', List.length_nil] at h
      simp only
      apply ih (hP k hPk)
      simp only [List.length_drop]
      omega
    | .br (n + 1), h => simpa [Good] using h
    | .ret, h => exact h
    | .trap _, h => exact h
    | .exhausted, h => trivial

theorem len1 {l : List Nat} {b} (h : l.length = b + 1) : ∃ a s, l = a :: s ∧ s.length = b := by
  match l, h with
  | a :: s, h => exact ⟨a, s, rfl, by simpa using h⟩

theorem len2 {l : List Nat} {b} (h : l.length = b + 2) : ∃ a1 a2 s, l = a1 :: a2 :: s ∧ s.length = b := by
  match l, h with
  | a1 :: a2 :: s, h => exact ⟨a1, a2, s, rfl, by simpa using h⟩

theorem len3 {l : List Nat} {b} (h : l.length = b + 3) :
    ∃ a1 a2 a3 s, l = a1 :: a2 :: a3 :: s ∧ s.length = b := by
  match l, h with
  | a1 :: a2 :: a3 :: s, h => exact ⟨a1, a2, a3, s, rfl, by simpa using h⟩

section plain
variable {U : Prop} {ls : List (List VT)} {nres : Nat}

theorem good_ite {P : Nat → Prop} (hP : ∀ k, P (k + 1) → P k) {bt : List VT} {th el : List Instr}
    (h1 : ∀ k, P k → ∀ fr st b, fr.stack.length = b → Good U (bt :: ls) nres b bt.length (execSeq m k th fr st))
    (h2 : ∀ k, P k → ∀ fr st b, fr.stack.length = b → Good U (bt :: ls) nres b bt.length (execSeq m k el fr st)) :
    ∀ k, P k → ∀ fr st b, fr.stack.length = b + 1 →
      Good U ls nres b bt.length (execInstr m k (.ite bt.length th el) fr st) := by
  intro k hPk fr st b hlen
  match k with
  | 0 => rw [execInstr_zero]; trivial
  | k + 1 =>
    obtain ⟨c, s, hs, hl⟩ := len1 hlen
    simp only [execInstr, hs]
    split
    · exact good_block hP h1 k (hP k hPk) _ st b hl
    · exact good_block hP h2 k (hP k hPk) _ st b hl

theorem good_const {v} : ∀ k fr st b, fr.stack.length = b + 0 →
    Good U ls nres b 1 (execInstr m k (.const v) fr st) := by
  intro k fr st b h
  match k with
  | 0 => rw [execInstr_zero]; trivial
  | k + 1 => simp only [execInstr, Good, List.length_cons]; omega

theorem good_num1 {name} (hsc : U → ∀ a, (Num.scalar name [a]).isSome) : ∀ k fr st b,
    fr.stack.length = b + 1 → Good U ls nres b 1 (execInstr m k (.num1 name) fr st) := by
  intro k fr st b h
  match k with
  | 0 => rw [execInstr_zero]; trivial
  | k + 1 =>
    obtain ⟨a, s, hs, hl⟩ := len1 h
    cases hsc' : Num.scalar name [a] with
    | none =>
      simp only [execInstr, hs, hsc', Good]
      exact ⟨by decide, fun hu => by have := hsc hu a; simp [hsc'] at this⟩
    | some r =>
      cases hr : numResult r with
      | ok v => simp only [execInstr, hs, hsc', hr, Good, List.length_cons]; omega
      | error k' =>
        simp only [execInstr, hs, hsc', hr, Good]
        have := trapOK_ne (scalar_ok hsc' hr)
        exact ⟨this.1, fun _ => this.2⟩

theorem good_num2 {name} (hsc : U → ∀ a b, (Num.scalar name [a, b]).isSome) : ∀ k fr st b,
    fr.stack.length = b + 2 → Good U ls nres b 1 (execInstr m k (.num2 name) fr st) := by
  intro k fr st b h
  match k with
  | 0 => rw [execInstr_zero]; trivial
  | k + 1 =>
    obtain ⟨a1, a2, s, hs, hl⟩ := len2 h
    cases hsc' : Num.scalar name [a2, a1] with
    | none =>
      simp only [execInstr, hs, hsc', Good]
      exact ⟨by decide, fun hu => by have := hsc hu a2 a1; simp [hsc'] at this⟩
    | some r =>
      cases hr : numResult r with
      | ok v => simp only [execInstr, hs, hsc', hr, Good, List.length_cons]; omega
      | error k' =>
        simp only [execInstr, hs, hsc', hr, Good]
        have := trapOK_ne (scalar_ok hsc' hr)
        exact ⟨this.1, fun _ => this.2⟩

theorem good_localGet {i} : ∀ k fr st b, fr.stack.length = b + 0 →
    Good U ls nres b 1 (execInstr m k (.localGet i) fr st) := by
  intro k fr st b h
  match k with
  | 0 => rw [execInstr_zero]; trivial
  | k + 1 => simp only [execInstr, Good, List.length_cons]; omega

theorem good_localSet {i} : ∀ k fr st b, fr.stack.length = b + 1 →
    Good U ls nres b 0 (execInstr m k (.localSet i) fr st) := by
  intro k fr st b h
  match k with
  | 0 => rw [execInstr_zero]; trivial
  | k + 1 =>
    obtain ⟨a, s, hs, hl⟩ := len1 h
    simp only [execInstr, hs, Good]; omega

theorem good_localTee {i} : ∀ k fr st b, fr.stack.length = b + 1 →
    Good U ls nres b 1 (execInstr m k (.localTee i) fr st) := by
  intro k fr st b h
  match k with
  | 0 => rw [execInstr_zero]; trivial
  | k + 1 =>
    obtain ⟨a, s, hs, hl⟩ := len1 h
    simp only [execInstr, hs, Good, List.length_cons, hl]

theorem good_globalGet {i} : ∀ k fr st b, fr.stack.length = b + 0 →
    Good U ls nres b 1 (execInstr m k (.globalGet i) fr st) := by
  intro k fr st b h
  match k with
  | 0 => rw [execInstr_zero]; trivial
  | k + 1 => simp only [execInstr, Good, List.length_cons]; omega

theorem good_globalSet {i} : ∀ k fr st b, fr.stack.length = b + 1 →
    Good U ls nres b 0 (execInstr m k (.globalSet i) fr st) := by
  intro k fr st b h
  match k with
  | 0 => rw [execInstr_zero]; trivial
  | k + 1 =>
    obtain ⟨a, s, hs, hl⟩ := len1 h
    simp only [execInstr, hs, Good]; omega

theorem good_load {t w sg off} : ∀ k fr st b, fr.stack.length = b + 1 →
    Good U ls nres b 1 (execInstr m k (.load t w sg off) fr st) := by
  intro k fr st b h
  match k with
  | 0 => rw [execInstr_zero]; trivial
  | k + 1 =>
    obtain ⟨a, s, hs, hl⟩ := len1 h
    simp only [execInstr, hs]
    split
    · exact ⟨by decide, fun _ => by decide⟩
    · simp only [Good, List.length_cons]; omega

theorem good_store {w off} : ∀ k fr st b, fr.stack.length = b + 2 →
    Good U ls nres b 0 (execInstr m k (.store w off) fr st) := by
  intro k fr st b h
  match k with
  | 0 => rw [execInstr_zero]; trivial
  | k + 1 =>
    obtain ⟨a1, a2, s, hs, hl⟩ := len2 h
    simp only [execInstr, hs]
    split
    · exact ⟨by decide, fun _ => by decide⟩
    · simp only [Good]; omega

theorem good_memSize : ∀ k fr st b, fr.stack.length = b + 0 →
    Good U ls nres b 1 (execInstr m k .memSize fr st) := by
  intro k fr st b h
  match k with
  | 0 => rw [execInstr_zero]; trivial
  | k + 1 => simp only [execInstr, Good, List.length_cons]; omega

theorem good_memGrow : ∀ k fr st b, fr.stack.length = b + 1 →
    Good U ls nres b 1 (execInstr m k .memGrow fr st) := by
  intro k fr st b h
  match k with
  | 0 => rw [execInstr_zero]; trivial
  | k + 1 =>
    obtain ⟨a, s, hs, hl⟩ := len1 h
    simp only [execInstr, hs]
    (repeat' split) <;> (simp only [Good, List.length_cons]; omega)

theorem good_memCopy : ∀ k fr st b, fr.stack.length = b + 3 →
    Good U ls nres b 0 (execInstr m k .memCopy fr st) := by
  intro k fr st b h
  match k with
  | 0 => rw [execInstr_zero]; trivial
  | k + 1 =>
    obtain ⟨a1, a2, a3, s, hs, hl⟩ := len3 h
    simp only [execInstr, hs]
    split
    · exact ⟨by decide, fun _ => by decide⟩
    · simp only [Good]; omega

theorem good_memFill : ∀ k fr st b, fr.stack.length = b + 3 →
    Good U ls nres b 0 (execInstr m k .memFill fr st) := by
  intro k fr st b h
  match k with
  | 0 => rw [execInstr_zero]; trivial
  | k + 1 =>
    obtain ⟨a1, a2, a3, s, hs, hl⟩ := len3 h
    simp only [execInstr, hs]
    split
    · exact ⟨by decide, fun _ => by decide⟩
    · simp only [Good]; omega

theorem good_drop : ∀ k fr st b, fr.stack.length = b + 1 →
    Good U ls nres b 0 (execInstr m k .drop fr st) := by
  intro k fr st b h
  match k with
  | 0 => rw [execInstr_zero]; trivial
  | k + 1 =>
    obtain ⟨a, s, hs, hl⟩ := len1 h
    simp only [execInstr, hs, Good]; omega

theorem good_select : ∀ k fr st b, fr.stack.length = b + 3 →
    Good U ls nres b 1 (execInstr m k .select fr st) := by
  intro k fr st b h
  match k with
  | 0 => rw [execInstr_zero]; trivial
  | k + 1 =>
    obtain ⟨a1, a2, a3, s, hs, hl⟩ := len3 h
    simp only [execInstr, hs, Good, List.length_cons]; omega

theorem good_nop : ∀ k fr st b, fr.stack.length = b →
    Good U ls nres b 0 (execInstr m k (.block 0 []) fr st) := by
  have := good_block (m := m) (U := U) (ls := ls) (nres := nres) (bt := []) (body := [])
    (P := fun _ => True) (fun _ _ => trivial) (fun k _ fr st b h => by
      match k with
      | 0 => rw [execSeq_zero]; trivial
      | k + 1 => rw [execSeq_nil_succ]; simpa [Good] using h)
  intro k fr st b h
  exact this k trivial fr st b h

theorem good_unreachable {n2} : ∀ k fr st b, Good U ls nres b n2 (execInstr m k .unreachable fr st) := by
  intro k fr st b
  match k with
  | 0 => rw [execInstr_zero]; trivial
  | k + 1 => simp only [execInstr]; exact ⟨by decide, fun _ => by decide⟩

theorem good_ret {n1 n2} : ∀ k fr st b, fr.stack.length = b + n1 → nres ≤ n1 →
    Good U ls nres b n2 (execInstr m k .ret fr st) := by
  intro k fr st b h hn
  match k with
  | 0 => rw [execInstr_zero]; trivial
  | k + 1 => simp only [execInstr, Good]; omega

theorem good_br {l lt n1 n2} (hl : ls[l]? = some lt) : ∀ k fr st b, fr.stack.length = b + n1 → lt.length ≤ n1 →
    Good U ls nres b n2 (execInstr m k (.br l) fr st) := by
  intro k fr st b h hn
  match k with
  | 0 => rw [execInstr_zero]; trivial
  | k + 1 => simp only [execInstr, Good]; exact ⟨lt, hl, by omega⟩

theorem good_brIf {l lt} (hl : ls[l]? = some lt) : ∀ k fr st b, fr.stack.length = b + (lt.length + 1) →
    Good U ls nres b lt.length (execInstr m k (.brIf l) fr st) := by
  intro k fr st b h
  match k with
  | 0 => rw [execInstr_zero]; trivial
  | k + 1 =>
    obtain ⟨a, s, hs, hl'⟩ := len1 (b := b + lt.length) (by omega)
    simp only [execInstr, hs]
    split
    · exact ⟨lt, hl, by simp only; omega⟩
    · simp only [Good]; omega

theorem getD_mem_cons (tbl : List Nat) (i d : Nat) : tbl.getD i d ∈ d :: tbl := by
  rw [List.getD_eq_getElem?_getD]
  cases h : tbl[i]? with
  | none => simp
  | some x => simp [List.mem_of_getElem? h]

theorem good_brTable {tbl d n n1 n2}
    (hl : ∀ l, l ∈ d :: tbl → ∃ lt, ls[l]? = some lt ∧ lt.length = n) : ∀ k fr st b,
    fr.stack.length = b + n1 → n + 1 ≤ n1 →
    Good U ls nres b n2 (execInstr m k (.brTable tbl d) fr st) := by
  intro k fr st b h hn
  match k with
  | 0 => rw [execInstr_zero]; trivial
  | k + 1 =>
    obtain ⟨a, s, hs, hl'⟩ := len1 (b := b + n1 - 1) (l := fr.stack) (by omega)
    simp only [execInstr, hs]
    obtain ⟨lt, hlt, hlen⟩ := hl _ (getD_mem_cons tbl (a % 2 ^ 32) d)
    exact ⟨lt, hlt, by simp only; omega⟩

end plain

/-! ### typed modules -/

structure TFunc where
  type : Nat
  locals : List VT
  body : List TI

/-- a module with typed function bodies (only what validation and the semantics of calls look at) -/
structure TModule where
  types : List FuncType := []
  imports : List Nat := []              -- type index of each host import
  funcs : List TFunc := []
  globals : List (VT × Bool) := []
  hasMem : Bool := false
  hasTable : Bool := false
  table : List Nat := []

/-- type index per function index, imports first -/
def TModule.funcIdx (tm : TModule) : List Nat := tm.imports ++ tm.funcs.map (·.type)

/-- the validation context of a function of the module -/
def TModule.ctx (tm : TModule) (f : TFunc) : Ctx :=
  { types := tm.types, funcs := tm.funcIdx, globals := tm.globals, hasMem := tm.hasMem, hasTable := tm.hasTable,
    locals := (tm.types.getD f.type default).params ++ f.locals,
    results := (tm.types.getD f.type default).results }

/-- `m` is the erasure of the typed module `tm`, all of whose functions are well typed; host imports have at
most one result (`hostResult` produces at most one value) and the table only holds function indices. -/
structure ModuleOK (m : Module) (tm : TModule) : Prop where
  types : m.types = tm.types
  imports : m.imports = tm.imports
  funcs : m.funcs = tm.funcs.map (fun f => ⟨f.type, f.locals, erase f.body⟩)
  table : m.table = tm.table
  importResults : ∀ ti, ti ∈ tm.imports → (tm.types.getD ti default).results.length ≤ 1
  wellTyped : ∀ f, f ∈ tm.funcs → WellTyped (tm.ctx f) f.body
  tableOK : ∀ fi, fi ∈ tm.table → fi < tm.funcIdx.length

/-- the reference semantics knows the numeric instruction `name` at its arity -/
def NumOKName (name : String) : Prop :=
  ∀ ps r, numSig name = some (ps, r) → ∀ args : List Nat, args.length = ps.length → (Num.scalar name args).isSome

mutual
def numOKI : TI → Prop
  | .num name => NumOKName name
  | .block _ body => numOK body
  | .loop _ body => numOK body
  | .ite _ th el => numOK th ∧ numOK el
  | _ => True
def numOK : List TI → Prop
  | [] => True
  | i :: is => numOKI i ∧ numOK is
end

/-- `NumOK`: every numeric instruction name occurring in the code of the module is known to `Num.scalar` -/
def NumOK (tm : TModule) : Prop := ∀ f, f ∈ tm.funcs → numOK f.body

/-- outcome of a call on a stack that becomes `h` high -/
def GoodCall (U : Prop) (h : Nat) : Ctl × Frame × Store → Prop
  | (.next, fr, _) => fr.stack.length = h
  | (.trap k, _, _) => k ≠ "stack" ∧ (U → k ≠ "unsupported")
  | (.exhausted, _, _) => True
  | _ => False

def CallOK (m : Module) (U : Prop) (nf k : Nat) : Prop :=
  ∀ f fr st, f < nf → (funcType m f).params.length ≤ fr.stack.length →
    GoodCall U (fr.stack.length - (funcType m f).params.length + (funcType m f).results.length)
      (callFunc m k f fr st)

def PCall (m : Module) (U : Prop) (nf k : Nat) : Prop := ∀ j, j < k → CallOK m U nf j

theorem pcall_mono {m U nf} : ∀ k, PCall m U nf (k + 1) → PCall m U nf k :=
  fun _ h j hj => h j (Nat.lt_succ_of_lt hj)

theorem good_of_goodCall {U ls nres b n2 r} (h : GoodCall U (b + n2) r) : Good U ls nres b n2 r := by
  obtain ⟨c, fr, st⟩ := r
  cases c <;> simp_all [GoodCall, Good]

theorem good_mono {U ls nres b n2 n2' r} (hn : r.1 ≠ .next) (h : Good U ls nres b n2 r) :
    Good U ls nres b n2' r := by
  obtain ⟨c, fr, st⟩ := r
  cases c <;> simp_all [Good]

theorem good_frame {U ls nres b n n2 r} (h : Good U ls nres (b + n) n2 r) : Good U ls nres b (n2 + n) r := by
  obtain ⟨c, fr, st⟩ := r
  cases c
  · simp only [Good] at h ⊢; omega
  · simp only [Good] at h ⊢
    obtain ⟨lt, h1, h2⟩ := h
    exact ⟨lt, h1, by omega⟩
  · exact h
  · exact h
  · trivial

theorem good_cast {U ls nres b n2 n2' r} (he : n2 = n2') (h : Good U ls nres b n2 r) : Good U ls nres b n2' r :=
  he ▸ h

theorem stkLe_length : ∀ {a b : List OT}, StkLe a b → a.length = b.length
  | [], [], _ => rfl
  | _ :: as, _ :: bs, h => by simp [stkLe_length h.2]
  | [], _ :: _, h => h.elim
  | _ :: _, [], h => h.elim

theorem somes_length (l : List VT) : (somes l).length = l.length := by simp [somes]

theorem arity_eq (bt : Option VT) : arity bt = (btResults bt).length := by cases bt <;> rfl

section calls
variable {U : Prop} {ls : List (List VT)} {nres nf : Nat}

theorem good_call {f} (hf : f < nf) : ∀ k, PCall m U nf k → ∀ fr st b,
    fr.stack.length = b + (funcType m f).params.length →
    Good U ls nres b (funcType m f).results.length (execInstr m k (.call f) fr st) := by
  intro k hP fr st b h
  match k with
  | 0 => rw [execInstr_zero]; trivial
  | k + 1 =>
    simp only [execInstr]
    have := hP k (Nat.lt_succ_self k) f fr st hf (by omega)
    exact good_of_goodCall (by rwa [show fr.stack.length - (funcType m f).params.length = b by omega] at this)

theorem good_callIndirect {ti ft} (htyp : m.types.getD ti default = ft) (htab : ∀ fi, fi ∈ m.table → fi < nf) :
    ∀ k, PCall m U nf k → ∀ fr st b, fr.stack.length = b + (ft.params.length + 1) →
    Good U ls nres b ft.results.length (execInstr m k (.callIndirect ti) fr st) := by
  intro k hP fr st b h
  match k with
  | 0 => rw [execInstr_zero]; trivial
  | k + 1 =>
    obtain ⟨a, s, hs, hl⟩ := len1 (b := b + ft.params.length) (l := fr.stack) (by omega)
    simp only [execInstr, hs]
    split
    · exact ⟨by decide, fun _ => by decide⟩
    · next hidx =>
      split
      · exact ⟨by decide, fun _ => by decide⟩
      · next hsig =>
        have hlt : a % 2 ^ 32 < m.table.length := by omega
        have hmem : m.table.getD (a % 2 ^ 32) 0 ∈ m.table := by
          rw [List.getD_eq_getElem?_getD, List.getElem?_eq_getElem hlt]
          exact List.getElem_mem hlt
        have hft : funcType m (m.table.getD (a % 2 ^ 32) 0) = ft := by
          rw [← htyp]; simpa using hsig
        have := hP k (Nat.lt_succ_self k) _ { fr with stack := s } st (htab _ hmem) (by rw [hft]; simp only; omega)
        rw [hft] at this
        exact good_of_goodCall (by
          rwa [show ({ fr with stack := s } : Frame).stack.length - ft.params.length = b by simp only; omega] at this)

end calls

/-- **The height invariant**: code of type `ts1 → ts2` run on a stack of height `b + |ts1|` ends with height
`b + |ts2|`, or branches to a label of the context with at least that label's operands above `b`, or returns with at
least the function's results, or traps with a kind other than `"stack"` (and other than `"unsupported"` if `U` holds and
the numeric names are known), or runs out of fuel. -/
theorem seq_ok {m : Module} {U : Prop} {nf : Nat} {C : Ctx}
    (hfun : ∀ f ti ft, C.funcs[f]? = some ti → C.types[ti]? = some ft → f < nf ∧ funcType m f = ft)
    (htyp : ∀ ti ft, C.types[ti]? = some ft → m.types.getD ti default = ft)
    (htab : ∀ fi, fi ∈ m.table → fi < nf)
    {ls is ts1 ts2} (ht : HasType C ls is ts1 ts2) :
    ∀ k, PCall m U nf k → (U → numOK is) → ∀ fr st b, fr.stack.length = b + ts1.length →
      Good U ls C.results.length b ts2.length (execSeq m k (erase is) fr st) := by
  induction ht with
  | nil =>
    intro k _ _ fr st b h
    match k with
    | 0 => rw [execSeq_zero]; trivial
    | k + 1 => simp only [erase]; rw [execSeq_nil_succ]; simpa [Good] using h
  | @cons ls i is ts1 ts2 ts3 _ _ ih1 ih2 =>
    intro k hP hn fr st b h
    have hn1 : U → numOK [i] := fun hu => by
      have := hn hu; simp only [numOK] at this ⊢; exact ⟨this.1, trivial⟩
    have hn2 : U → numOK is := fun hu => by
      have := hn hu; simp only [numOK] at this; exact this.2
    simp only [erase]
    match k with
    | 0 => rw [execSeq_zero]; trivial
    | 1 =>
      rw [execSeq_cons_other (by rw [execInstr_zero]; simp), execInstr_zero]; trivial
    | k + 2 =>
      have g1 := ih1 (k + 2) hP hn1 fr st b h
      simp only [erase] at g1
      rw [execSeq_single_succ] at g1
      by_cases hnx : (execInstr m (k + 1) (eraseI i) fr st).1 = .next
      · rcases hres : execInstr m (k + 1) (eraseI i) fr st with ⟨c, fr', st'⟩
        rw [hres] at hnx g1
        simp only at hnx
        subst hnx
        rw [execSeq_cons_next hres]
        exact ih2 (k + 1) (pcall_mono _ hP) hn2 fr' st' b g1
      · rw [execSeq_cons_other hnx]
        exact good_mono hnx g1
  | frame ts _ ih =>
    intro k hP hn fr st b h
    have := ih k hP hn fr st (b + ts.length) (by simp only [List.length_append] at h; omega)
    exact good_cast (by simp) (good_frame this)
  | sub _ h1 h2 ih =>
    intro k hP hn fr st b h
    rw [stkLe_length h1] at h
    rw [← stkLe_length h2]
    exact ih k hP hn fr st b h
  | const =>
    intro k _ _ fr st b h
    simp only [erase, eraseI]
    exact good_single (fun k => good_const k fr st b h) k
  | @num ls name ps r hsig =>
    intro k _ hn fr st b h
    have hnm : U → NumOKName name := fun hu => by
      have := hn hu; simp only [numOK, numOKI] at this; exact this.1
    simp only [erase, eraseI]
    unfold numSig at hsig
    cases hsh : numShape name with
    | none => simp [hsh] at hsig
    | some sh =>
      cases sh with
      | un a r' =>
        simp only [hsh, Option.some.injEq, Prod.mk.injEq] at hsig
        obtain ⟨rfl, rfl⟩ := hsig
        refine good_single (fun k => good_num1 (fun hu x => ?_) k fr st b h) k
        exact hnm hu [a] r' (by simp [numSig, hsh]) [x] rfl
      | bin a r' =>
        simp only [hsh, Option.some.injEq, Prod.mk.injEq] at hsig
        obtain ⟨rfl, rfl⟩ := hsig
        refine good_single (fun k => good_num2 (fun hu x y => ?_) k fr st b h) k
        exact hnm hu [a, a] r' (by simp [numSig, hsh]) [x, y] rfl
  | localGet _ =>
    intro k _ _ fr st b h
    simp only [erase, eraseI]
    exact good_single (fun k => good_localGet k fr st b h) k
  | localSet _ =>
    intro k _ _ fr st b h
    simp only [erase, eraseI]
    exact good_single (fun k => good_localSet k fr st b h) k
  | localTee _ =>
    intro k _ _ fr st b h
    simp only [erase, eraseI]
    exact good_single (fun k => good_localTee k fr st b h) k
  | globalGet _ =>
    intro k _ _ fr st b h
    simp only [erase, eraseI]
    exact good_single (fun k => good_globalGet k fr st b h) k
  | globalSet _ =>
    intro k _ _ fr st b h
    simp only [erase, eraseI]
    exact good_single (fun k => good_globalSet k fr st b h) k
  | load _ _ _ =>
    intro k _ _ fr st b h
    simp only [erase, eraseI]
    exact good_single (fun k => good_load k fr st b h) k
  | store _ _ _ =>
    intro k _ _ fr st b h
    simp only [erase, eraseI]
    exact good_single (fun k => good_store k fr st b h) k
  | memSize _ =>
    intro k _ _ fr st b h
    simp only [erase, eraseI]
    exact good_single (fun k => good_memSize k fr st b h) k
  | memGrow _ =>
    intro k _ _ fr st b h
    simp only [erase, eraseI]
    exact good_single (fun k => good_memGrow k fr st b h) k
  | memCopy _ =>
    intro k _ _ fr st b h
    simp only [erase, eraseI]
    exact good_single (fun k => good_memCopy k fr st b h) k
  | memFill _ =>
    intro k _ _ fr st b h
    simp only [erase, eraseI]
    exact good_single (fun k => good_memFill k fr st b h) k
  | drop t =>
    intro k _ _ fr st b h
    simp only [erase, eraseI]
    exact good_single (fun k => good_drop k fr st b h) k
  | select t =>
    intro k _ _ fr st b h
    simp only [erase, eraseI]
    exact good_single (fun k => good_select k fr st b h) k
  | nop =>
    intro k _ _ fr st b h
    simp only [erase, eraseI]
    exact good_single (fun k => good_nop k fr st b h) k
  | unreachable ts1 ts2 =>
    intro k _ _ fr st b h
    simp only [erase, eraseI]
    exact good_single (fun k => good_unreachable k fr st b) k
  | ret ts1 ts2 =>
    intro k _ _ fr st b h
    simp only [erase, eraseI]
    exact good_single (fun k => good_ret k fr st b h (by simp [somes])) k
  | br ts1 ts2 hl =>
    intro k _ _ fr st b h
    simp only [erase, eraseI]
    exact good_single (fun k => good_br hl k fr st b h (by simp [somes])) k
  | @brIf ls l lt hl =>
    intro k _ _ fr st b h
    simp only [erase, eraseI]
    have h' : fr.stack.length = b + (lt.length + 1) := by simpa [somes] using h
    exact good_single (fun k => good_cast (by simp [somes]) (good_brIf hl k fr st b h')) k
  | @brTable ls tbl d ts ts1 ts2 hall =>
    intro k _ _ fr st b h
    simp only [erase, eraseI]
    refine good_single (fun k => good_brTable (n := ts.length) (fun l hl => ?_) k fr st b h
      (by simp only [List.length_cons, List.length_append]; omega)) k
    obtain ⟨lt, h1, h2⟩ := hall l hl
    exact ⟨lt, h1, by have := stkLe_length h2; simpa [somes] using this.symm⟩
  | @call ls f ti ft hti hft =>
    intro k hP _ fr st b h
    simp only [erase, eraseI]
    obtain ⟨hf, rfl⟩ := hfun f ti ft hti hft
    have h' : fr.stack.length = b + (funcType m f).params.length := by simpa [somes] using h
    exact good_single' pcall_mono (fun k hPk => good_cast (by simp [somes]) (good_call hf k hPk fr st b h')) k hP
  | @callIndirect ls ti ft _ hft =>
    intro k hP _ fr st b h
    simp only [erase, eraseI]
    have h' : fr.stack.length = b + (ft.params.length + 1) := by simpa [somes] using h
    exact good_single' pcall_mono (fun k hPk =>
      good_cast (by simp [somes]) (good_callIndirect (htyp ti ft hft) htab k hPk fr st b h')) k hP
  | @block ls bt body _ ih =>
    intro k hP hn fr st b h
    have hnb : U → numOK body := fun hu => by
      have := hn hu; simp only [numOK, numOKI] at this; exact this.1
    simp only [erase, eraseI, arity_eq]
    exact good_single' pcall_mono (fun k hPk => good_cast (by simp [somes])
      (good_block pcall_mono (fun k hPk fr st b h => good_cast (by simp [somes])
        (ih k hPk hnb fr st b (by simpa using h))) k hPk fr st b (by simpa using h))) k hP
  | @loop ls bt body _ ih =>
    intro k hP hn fr st b h
    have hnb : U → numOK body := fun hu => by
      have := hn hu; simp only [numOK, numOKI] at this; exact this.1
    simp only [erase, eraseI]
    exact good_single' pcall_mono (fun k hPk =>
      (good_loop pcall_mono (fun k hPk fr st b h => ih k hPk hnb fr st b (by simpa using h))
        k hPk fr st b (by simpa using h))) k hP
  | @ite ls bt th el _ _ ih1 ih2 =>
    intro k hP hn fr st b h
    have hn1 : U → numOK th := fun hu => by
      have := hn hu; simp only [numOK, numOKI] at this; exact this.1.1
    have hn2 : U → numOK el := fun hu => by
      have := hn hu; simp only [numOK, numOKI] at this; exact this.1.2
    simp only [erase, eraseI, arity_eq]
    exact good_single' pcall_mono (fun k hPk => good_cast (by simp [somes])
      (good_ite pcall_mono
        (fun k hPk fr st b h => good_cast (by simp [somes]) (ih1 k hPk hn1 fr st b (by simpa using h)))
        (fun k hPk fr st b h => good_cast (by simp [somes]) (ih2 k hPk hn2 fr st b (by simpa using h)))
        k hPk fr st b (by simpa using h))) k hP

/-! ### the module level -/

theorem funcIdx_length (tm : TModule) : tm.funcIdx.length = tm.imports.length + tm.funcs.length := by
  simp [TModule.funcIdx]

theorem funcType_import {m tm} (hok : ModuleOK m tm) {f} (hf : f < tm.imports.length) :
    funcType m f = tm.types.getD (tm.imports[f]) default := by
  unfold funcType
  have : tm.imports.getD f 0 = tm.imports[f] := by simp [List.getD_eq_getElem?_getD, hf]
  simp only [hok.types, hok.imports, hf, if_true, this]

theorem funcType_defined {m tm} (hok : ModuleOK m tm) {f} (hf : ¬ f < tm.imports.length)
    (hf2 : f - tm.imports.length < tm.funcs.length) :
    funcType m f = tm.types.getD (tm.funcs[f - tm.imports.length]).type default ∧
    m.funcs.getD (f - m.imports.length) default =
      ⟨(tm.funcs[f - tm.imports.length]).type, (tm.funcs[f - tm.imports.length]).locals,
        erase (tm.funcs[f - tm.imports.length]).body⟩ := by
  have h2 : m.funcs.getD (f - m.imports.length) default =
      ⟨(tm.funcs[f - tm.imports.length]).type, (tm.funcs[f - tm.imports.length]).locals,
        erase (tm.funcs[f - tm.imports.length]).body⟩ := by
    rw [hok.funcs, hok.imports, List.getD_eq_getElem?_getD, List.getElem?_map, List.getElem?_eq_getElem hf2]
    rfl
  refine ⟨?_, h2⟩
  unfold funcType
  rw [hok.imports] at h2
  simp only [hok.imports, hf, if_false, hok.types, h2]

theorem funcType_spec {m tm} (hok : ModuleOK m tm) {f ti ft} (h1 : tm.funcIdx[f]? = some ti)
    (h2 : tm.types[ti]? = some ft) : f < tm.funcIdx.length ∧ funcType m f = ft := by
  obtain ⟨hf, hget⟩ := List.getElem?_eq_some_iff.1 h1
  refine ⟨hf, ?_⟩
  have hft : tm.types.getD ti default = ft := by rw [List.getD_eq_getElem?_getD, h2]; rfl
  by_cases hi : f < tm.imports.length
  · rw [funcType_import hok hi, ← hft]
    congr 1
    simp only [TModule.funcIdx] at hget
    rw [List.getElem_append_left hi] at hget
    exact hget
  · have hf2 : f - tm.imports.length < tm.funcs.length := by rw [funcIdx_length] at hf; omega
    rw [(funcType_defined hok hi hf2).1, ← hft]
    congr 1
    simp only [TModule.funcIdx] at hget
    rw [List.getElem_append_right (by omega)] at hget
    simpa using hget

theorem hostResult_length (i : Nat) (ft : FuncType) (args : List Nat) (h : ft.results.length ≤ 1) :
    (hostResult i ft args).length = ft.results.length := by
  unfold hostResult
  match hr : ft.results, h with
  | [], _ => rfl
  | [t], _ => cases t <;> rfl

/-- every call is fine, at every fuel -/
theorem callOK_all {m tm} (hok : ModuleOK m tm) (U : Prop) (hnum : U → NumOK tm) :
    ∀ k, CallOK m U tm.funcIdx.length k := by
  intro k
  induction k using Nat.strongRecOn with
  | _ k ih =>
    intro f fr st hf hargs
    match k with
    | 0 => unfold callFunc; trivial
    | k + 1 =>
      have hP : PCall m U tm.funcIdx.length k := fun j hj => ih j (Nat.lt_succ_of_lt hj)
      rw [callFunc]
      simp only
      by_cases hi : f < tm.imports.length
      · have hi' : f < m.imports.length := by rw [hok.imports]; exact hi
        rw [if_pos hi']
        have hres : (funcType m f).results.length ≤ 1 := by
          rw [funcType_import hok hi]
          exact hok.importResults _ (List.getElem_mem hi)
        simp only [GoodCall, List.length_append, List.length_reverse, List.length_drop,
          hostResult_length _ _ _ hres]
        omega
      · have hi' : ¬ f < m.imports.length := by rw [hok.imports]; exact hi
        rw [if_neg hi']
        have hf2 : f - tm.imports.length < tm.funcs.length := by rw [funcIdx_length] at hf; omega
        obtain ⟨hft, hfn⟩ := funcType_defined hok hi hf2
        have hmem : tm.funcs[f - tm.imports.length] ∈ tm.funcs := List.getElem_mem hf2
        have hwt := hok.wellTyped _ hmem
        have hg := seq_ok (m := m) (U := U) (nf := tm.funcIdx.length) (C := tm.ctx (tm.funcs[f - tm.imports.length]))
          (fun f ti ft h1 h2 => funcType_spec hok h1 h2)
          (fun ti ft h2 => by rw [hok.types, List.getD_eq_getElem?_getD]; simp only [TModule.ctx] at h2; rw [h2]; rfl)
          (fun fi hfi => hok.tableOK fi (by rw [← hok.table]; exact hfi))
          hwt k hP (fun hu => hnum hu _ hmem)
          { stack := [], locals := (((fr.stack.take (funcType m f).params.length).reverse ++
              (m.funcs.getD (f - m.imports.length) default).locals.map (fun _ => 0)).toArray) } st 0 (by simp)
        rw [hfn] at hg ⊢
        simp only at hg ⊢
        have hres : (tm.ctx (tm.funcs[f - tm.imports.length])).results = (funcType m f).results := by
          rw [hft]; rfl
        rw [hres] at hg
        rcases hexec : execSeq m k (erase (tm.funcs[f - tm.imports.length]).body)
          { stack := [], locals := (((fr.stack.take (funcType m f).params.length).reverse ++
              (tm.funcs[f - tm.imports.length]).locals.map (fun _ => 0)).toArray) } st with ⟨c, fr', st'⟩
        rw [hexec] at hg
        rw [hexec]
        match c, hg with
        | .next, hg =>
          simp only [Good, somes_length, List.length_reverse, Nat.zero_add] at hg
          simp only [GoodCall, List.length_append, List.length_take, List.length_drop]
          omega
        | .ret, hg =>
          simp only [Good] at hg
          simp only [GoodCall, List.length_append, List.length_take, List.length_drop]
          omega
        | .br n, hg =>
          simp only [Good] at hg
          obtain ⟨lt, h1, h2⟩ := hg
          match n, h1 with
          | 0, h1 =>
            simp only [List.getElem?_cons_zero, Option.some.injEq] at h1
            subst h1
            simp only [GoodCall, List.length_append, List.length_take, List.length_drop]
            omega
        | .trap k', hg => exact hg
        | .exhausted, _ => trivial


theorem goodCall_no {U h r} (hg : GoodCall U h r) : r.1 ≠ .trap "stack" ∧ (U → r.1 ≠ .trap "unsupported") := by
  obtain ⟨c, fr, st⟩ := r
  cases c
  · exact ⟨by simp, fun _ => by simp⟩
  · exact hg.elim
  · exact hg.elim
  · next k =>
    simp only [GoodCall] at hg
    exact ⟨by simpa using hg.1, fun hu => by simpa using hg.2 hu⟩
  · exact ⟨by simp, fun _ => by simp⟩

/-- **Progress, calls**: in a module all of whose functions are well typed, calling any function with at least
its parameters on the stack never reports the internal outcome `"stack"` (an operand was missing), for every fuel;
and never `"unsupported"` if the numeric names occurring in the code are known to `Num.scalar` (`NumOK`). -/
theorem welltyped_progress {m : Module} {tm : TModule} (hok : ModuleOK m tm) (fuel f : Nat) (fr : Frame)
    (st : Store) (hf : f < tm.funcIdx.length) (hargs : (funcType m f).params.length ≤ fr.stack.length) :
    (callFunc m fuel f fr st).1 ≠ .trap "stack" ∧
      (NumOK tm → (callFunc m fuel f fr st).1 ≠ .trap "unsupported") := by
  refine ⟨(goodCall_no (callOK_all hok False False.elim fuel f fr st hf hargs)).1, fun hnum => ?_⟩
  exact (goodCall_no (callOK_all hok True (fun _ => hnum) fuel f fr st hf hargs)).2 trivial

/-- **Progress, function bodies**: the erased body of any function of the module, run on any frame. -/
theorem welltyped_progress_seq {m : Module} {tm : TModule} (hok : ModuleOK m tm) (tf : TFunc) (hmem : tf ∈ tm.funcs)
    (fuel : Nat) (fr : Frame) (st : Store) :
    (execSeq m fuel (erase tf.body) fr st).1 ≠ .trap "stack" ∧
      (NumOK tm → (execSeq m fuel (erase tf.body) fr st).1 ≠ .trap "unsupported") := by
  have key : ∀ U : Prop, (U → NumOK tm) →
      Good U [(tm.ctx tf).results] (tm.ctx tf).results.length fr.stack.length
        (somes (tm.ctx tf).results.reverse).length (execSeq m fuel (erase tf.body) fr st) := fun U hnum =>
    seq_ok (m := m) (U := U) (nf := tm.funcIdx.length) (C := tm.ctx tf)
      (fun f ti ft h1 h2 => funcType_spec hok h1 h2)
      (fun ti ft h2 => by rw [hok.types, List.getD_eq_getElem?_getD]; simp only [TModule.ctx] at h2; rw [h2]; rfl)
      (fun fi hfi => hok.tableOK fi (by rw [← hok.table]; exact hfi))
      (hok.wellTyped tf hmem) fuel (fun j _ => callOK_all hok U hnum j) (fun hu => hnum hu tf hmem) fr st
      fr.stack.length (by simp)
  have no : ∀ U : Prop, Good U [(tm.ctx tf).results] (tm.ctx tf).results.length fr.stack.length
      (somes (tm.ctx tf).results.reverse).length (execSeq m fuel (erase tf.body) fr st) →
      (execSeq m fuel (erase tf.body) fr st).1 ≠ .trap "stack" ∧
        (U → (execSeq m fuel (erase tf.body) fr st).1 ≠ .trap "unsupported") := by
    intro U hg
    rcases hres : execSeq m fuel (erase tf.body) fr st with ⟨c, fr', st'⟩
    rw [hres] at hg
    cases c
    · exact ⟨by simp, fun _ => by simp⟩
    · exact ⟨by simp, fun _ => by simp⟩
    · exact ⟨by simp, fun _ => by simp⟩
    · next k =>
      simp only [Good] at hg
      exact ⟨by simpa using hg.1, fun hu => by simpa using hg.2 hu⟩
    · exact ⟨by simp, fun _ => by simp⟩
  exact ⟨(no False (key False False.elim)).1, fun hnum => (no True (key True (fun _ => hnum))).2 trivial⟩

/-- **Progress, export calls** (`invoke`): with an argument list of the right length. -/
theorem welltyped_progress_invoke {m : Module} {tm : TModule} (hok : ModuleOK m tm) (fuel f : Nat)
    (args : List Nat) (st : Store) (hf : f < tm.funcIdx.length)
    (hargs : args.length = (funcType m f).params.length) :
    (invoke m fuel f args st).1 ≠ .trap "stack" ∧
      (NumOK tm → (invoke m fuel f args st).1 ≠ .trap "unsupported") := by
  have h := welltyped_progress hok fuel f { stack := args.reverse } { st with log := [] } hf (by simp [hargs])
  unfold invoke
  simp only
  split
  · exact ⟨by simp, fun _ => by simp⟩
  · next k _ st' heq =>
    rw [heq] at h
    exact ⟨by simpa using h.1, fun hn => by simpa using h.2 hn⟩
  · exact ⟨by simp, fun _ => by simp⟩

/-! ## Part D: non-vacuity, and the alignment finding -/

/-- the declarative rules really require `2^align ≤ width/8` of every (top-level) load of a typed sequence -/
theorem hasType_load_align {C : Ctx} {ls is ts1 ts2} (h : HasType C ls is ts1 ts2) :
    ∀ t w sg al off, TI.load t w sg al off ∈ is → 2 ^ al ≤ w / 8 := by
  induction h with
  | cons _ _ ih1 ih2 =>
    intro t w sg al off hmem
    rcases List.mem_cons.1 hmem with rfl | hmem
    · exact ih1 t w sg al off (by simp)
    · exact ih2 t w sg al off hmem
  | frame _ _ ih => exact ih
  | sub _ _ _ ih => exact ih
  | load _ _ h3 =>
    intro t w sg al off hmem
    simp only [List.mem_singleton, TI.load.injEq] at hmem
    obtain ⟨rfl, rfl, rfl, rfl, rfl⟩ := hmem
    exact h3
  | _ => intro t w sg al off hmem; simp at hmem

section examples

def C0 : Ctx :=
  { types := [⟨[.i32], [.i32]⟩], funcs := [0], locals := [.i32], results := [.i32], hasMem := true }

/-- a body with a block, a `br_if`, a call (to itself) and arithmetic -/
def body0 : List TI :=
  [.block (some .i32) [.localGet 0, .localGet 0, .brIf 0, .call 0, .const .i32 1, .num "i32.add"]]

example : check C0 body0 = .ok () := rfl
example : accepts C0 body0 = true := by decide
example : WellTyped C0 body0 := validate_sound_W0 C0 body0 (by decide) rfl

-- ill-typed bodies are rejected
example : accepts C0 [.num "i32.add"] = false := by decide
example : accepts C0 [.const .i64 0, .const .i32 1, .num "i32.add"] = false := by decide
example : accepts C0 [.br 5] = false := by decide
example : accepts C0 [.const .i32 0, .ite (some .i32) [.const .i32 1] []] = false := by decide
-- dead code is polymorphic, but not arbitrarily so
example : accepts C0 [.unreachable, .num "i32.add"] = true := by decide
example : accepts C0 [.unreachable, .const .i64 0, .num "i32.add"] = false := by decide

/-- the erased ill-typed body really runs into the internal outcome -/
example : (execSeq {} 5 (erase [.num "i32.add"]) {} {}).1 = .trap "stack" := by decide

/-- quirk Q3 (a finding): an alignment exponent ≥ 63 is accepted (and 3 … 62 are rejected) -/
example : accepts C0 [.const .i32 0, .load .i32 32 false 64 0] = true := by decide
example : accepts C0 [.const .i32 0, .load .i32 32 false 3 0] = false := by decide
example : alignSane [.const .i32 0, .load .i32 32 false 64 0] = false := by decide
/-- … and that body is NOT well typed by the declarative rules: the side condition of `validate_sound_W0` is needed -/
example : ¬ WellTyped C0 [.const .i32 0, .load .i32 32 false 64 0] := fun h => by
  have := hasType_load_align h .i32 32 false 64 0 (by simp)
  omega

/-- quirk Q4: with reference types, `br_table` in dead code may mix labels of different types -/
def bodyQ4 : List TI :=
  [.block (some .i32) [.block (some .i64) [.unreachable, .brTable [0] 1], .drop, .const .i32 0]]
example : accepts C0 bodyQ4 = true := by decide
example : accepts { C0 with refTypes := false } bodyQ4 = false := by decide

/-- a concrete module satisfying `ModuleOK` (well-typedness obtained from the checker by soundness) -/
def tm0 : TModule :=
  { types := [⟨[.i32], [.i32]⟩], funcs := [⟨0, [], body0⟩], hasMem := true }
def m0 : Module :=
  { types := [⟨[.i32], [.i32]⟩], funcs := [⟨0, [], erase body0⟩], hasMem := true }

example : ModuleOK m0 tm0 where
  types := rfl
  imports := rfl
  funcs := rfl
  table := rfl
  importResults := by intro ti h; cases h
  wellTyped := by
    intro f hf
    simp only [tm0, List.mem_singleton] at hf
    subst hf
    exact validate_sound_W0 _ _ (by decide) rfl
  tableOK := by intro fi h; cases h

end examples

end Wz.C03v
