import Wz.Model.SsaPass

/-! The instruction group ids assigned by `passDeadCodeEliminationOpt` (`gidsFrom`). -/
namespace Wz.Model.SsaPass

/-! ### instruction groups -/

/-- the group ids never decrease -/
theorem gidsFrom_ge (tbl : Opcode → Eff) : ∀ (is : List Instr) (g : Nat), ∀ h ∈ gidsFrom tbl g is, g ≤ h := by
  intro is
  induction is with
  | nil => intro g h hh; cases hh
  | cons i is ih =>
    intro g h hh
    simp only [gidsFrom] at hh
    cases hh with
    | head => exact Nat.le_refl _
    | tail _ hh =>
      have := ih _ h hh
      split at this <;> omega

theorem gidsFrom_length (tbl : Opcode → Eff) (is : List Instr) (g : Nat) : (gidsFrom tbl g is).length = is.length := by
  induction is generalizing g with
  | nil => rfl
  | cons i is ih => simp [gidsFrom, ih]

/-- the order between an instruction and a later one: the group does not decrease, and it increases when the
earlier instruction is `sideEffectStrict` -/
def GidOrder (tbl : Opcode → Eff) (a b : Instr × Nat) : Prop :=
  a.2 ≤ b.2 ∧ (tbl a.1.opcode = .strict → a.2 < b.2)

theorem gidsFrom_pairwise (tbl : Opcode → Eff) (is : List Instr) (g : Nat) :
    (is.zip (gidsFrom tbl g is)).Pairwise (GidOrder tbl) := by
  induction is generalizing g with
  | nil => simp [gidsFrom]
  | cons i is ih =>
    simp only [gidsFrom, List.zip_cons_cons, List.pairwise_cons]
    refine ⟨fun p hp => ?_, ih _⟩
    have hmem : p.2 ∈ gidsFrom tbl (if tbl i.opcode = .strict then g + 1 else g) is := (List.of_mem_zip hp).2
    have := gidsFrom_ge tbl is _ p.2 hmem
    constructor
    · show g ≤ p.2
      split at this <;> omega
    · intro hs
      show g < p.2
      simp only [hs, if_true] at this
      omega

/-- in a list ordered by `GidOrder`, two entries with the same group id have no `sideEffectStrict` instruction
between them, and the earlier one is not `sideEffectStrict` itself -/
theorem no_strict_between_of_pairwise (tbl : Opcode → Eff) {l1 l2 l3 : List (Instr × Nat)} {a b : Instr × Nat}
    (hp : (l1 ++ a :: l2 ++ b :: l3).Pairwise (GidOrder tbl)) (hg : a.2 = b.2) :
    tbl a.1.opcode ≠ .strict ∧ ∀ k ∈ l2, tbl k.1.opcode ≠ .strict := by
  have hp2 : (a :: (l2 ++ b :: l3)).Pairwise (GidOrder tbl) := by
    have : l1 ++ a :: l2 ++ b :: l3 = l1 ++ (a :: (l2 ++ b :: l3)) := by simp
    rw [this] at hp
    exact (List.pairwise_append.mp hp).2.1
  rw [List.pairwise_cons] at hp2
  obtain ⟨ha, hrest⟩ := hp2
  constructor
  · intro hs
    have := (ha b (by simp)).2 hs
    omega
  · intro k hk hs
    have h1 := (ha k (List.mem_append_left _ hk)).1
    have h2 : k.2 < b.2 := by
      have := (List.pairwise_append.mp hrest).2.2 k hk b (List.mem_cons_self ..)
      exact this.2 hs
    omega

/-- **Group-id invariant**: in any selection of the numbered instructions (in particular the ones that
survive dead-code elimination), two instructions with the same group id have no `sideEffectStrict`
instruction between them, and the earlier one is not `sideEffectStrict` itself. -/
theorem same_gid_no_strict_between (tbl : Opcode → Eff) (is : List Instr) (g0 : Nat) (keep : Instr × Nat → Bool)
    (l1 l2 l3 : List (Instr × Nat)) (a b : Instr × Nat)
    (h : (is.zip (gidsFrom tbl g0 is)).filter keep = l1 ++ a :: l2 ++ b :: l3) (hg : a.2 = b.2) :
    tbl a.1.opcode ≠ .strict ∧ ∀ k ∈ l2, tbl k.1.opcode ≠ .strict :=
  no_strict_between_of_pairwise tbl (by rw [← h]; exact (gidsFrom_pairwise tbl is g0).filter _) hg

/-- the per-block numbering of `dceWithGids` is the numbering of the concatenated instructions -/
theorem gidsFrom_append (tbl : Opcode → Eff) (l1 l2 : List Instr) (g : Nat) :
    gidsFrom tbl g (l1 ++ l2) =
      gidsFrom tbl g l1 ++ gidsFrom tbl (g + (l1.filter (fun i => tbl i.opcode = .strict)).length) l2 := by
  induction l1 generalizing g with
  | nil => simp [gidsFrom]
  | cons i is ih =>
    simp only [List.cons_append, gidsFrom, ih, List.filter_cons]
    by_cases hs : tbl i.opcode = .strict
    · simp [hs]; rw [Nat.add_right_comm, Nat.add_assoc]
    · simp [hs]

theorem gidsBlocks_flatten (tbl : Opcode → Eff) (Bs : List Block) (g : Nat) :
    (gidsBlocks tbl g Bs).flatten = gidsFrom tbl g (Bs.flatMap (·.instrs)) := by
  induction Bs generalizing g with
  | nil => simp [gidsBlocks, gidsFrom]
  | cons B Bs ih =>
    simp only [gidsBlocks, List.flatten_cons, List.flatMap_cons, gidsFrom_append, ih]

/-- the per-block pairs of `dceWithGids`, concatenated, are a selection of the numbering of all instructions -/
theorem zip_gidsBlocks_flatMap {β} (tbl : Opcode → Eff) (F : List (Instr × Nat) → List β)
    (hF : ∀ l1 l2, F (l1 ++ l2) = F l1 ++ F l2) (Bs : List Block) (g : Nat) :
    (Bs.zip (gidsBlocks tbl g Bs)).flatMap (fun p => F (p.1.instrs.zip p.2)) =
      F ((Bs.flatMap (·.instrs)).zip (gidsFrom tbl g (Bs.flatMap (·.instrs)))) := by
  induction Bs generalizing g with
  | nil =>
    have := hF [] []
    simp only [List.append_nil] at this
    have hnil : F [] = [] := by
      cases h : F [] with
      | nil => rfl
      | cons x xs => rw [h] at this; simp at this
    simp [gidsBlocks, gidsFrom, hnil]
  | cons B Bs ih =>
    simp only [gidsBlocks, List.zip_cons_cons, List.flatMap_cons, gidsFrom_append]
    rw [List.zip_append (by rw [gidsFrom_length]), hF, ih]

theorem dceWithGids_pairwise (f : Func) :
    ((dceWithGids f).flatMap (·.2)).Pairwise (GidOrder sideEffect) := by
  have hflat : (dceWithGids f).flatMap (·.2) =
      (((f.validBlocks.flatMap (·.instrs)).zip (gidsFrom sideEffect 0 (f.validBlocks.flatMap (·.instrs)))).filter
          (fun p => keepOf sideEffect (liveSet sideEffect f) p.1)).map
        (fun p => (p.1.mapOperands (res f.alias), p.2)) := by
    simp only [dceWithGids, List.flatMap_map]
    exact zip_gidsBlocks_flatMap sideEffect
      (fun l => (l.filter (fun p => keepOf sideEffect (liveSet sideEffect f) p.1)).map
        (fun p => (p.1.mapOperands (res f.alias), p.2)))
      (fun l1 l2 => by simp) f.validBlocks 0
  rw [hflat]
  apply List.Pairwise.map _ _ ((gidsFrom_pairwise sideEffect _ 0).filter _)
  intro a b hab
  simp only [GidOrder] at hab ⊢
  have h1 : (a.1.mapOperands (res f.alias)).opcode = a.1.opcode := by cases a.1 <;> rfl
  rw [h1]
  exact hab

end Wz.Model.SsaPass
