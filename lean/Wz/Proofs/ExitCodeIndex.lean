/-
The Go-function index packed into an exit code survives the round trip (shared by C06: error kinds / dispatch,
and C08: the host function that runs is the one the guest called).  About the REGENERATED definitions
`Wz.Gen.CallEngine.*` (wazevoapi/exitcode.go).
-/
import Wz.Gen.CallEngine

namespace Wz.Proofs.ExitCode

theorem roundtrip (i : BitVec 64) (l : Bool) (h : i.toNat < 2 ^ 24) :
    Wz.Gen.CallEngine.GoFunctionIndexFromExitCode (Wz.Gen.CallEngine.ExitCodeCallGoFunctionWithIndex i l) = i ∧
    Wz.Gen.CallEngine.GoFunctionIndexFromExitCode (Wz.Gen.CallEngine.ExitCodeCallGoModuleFunctionWithIndex i l) = i := by
  unfold Wz.Gen.CallEngine.GoFunctionIndexFromExitCode Wz.Gen.CallEngine.ExitCodeCallGoFunctionWithIndex
    Wz.Gen.CallEngine.ExitCodeCallGoModuleFunctionWithIndex
  cases l <;> simp only [Bool.false_eq_true, if_false, if_true] <;> constructor <;>
    (apply BitVec.eq_of_toNat_eq
     simp only [BitVec.toNat_setWidth, BitVec.toNat_ushiftRight, BitVec.toNat_or, BitVec.toNat_shiftLeft,
       BitVec.toNat_ofNat, Nat.shiftRight_eq_div_pow, Nat.shiftLeft_eq]
     have e1 : i.toNat * 2 ^ 8 % 2 ^ 64 % 2 ^ 32 = i.toNat * 256 := by omega
     rw [e1]
     first
       | (have e2 : (17 % 2 ^ 32 ||| i.toNat * 256) = i.toNat * 256 + 17 := by
            rw [Nat.mul_comm, show (256 : Nat) = 2 ^ 8 from rfl, Nat.or_comm]; exact (Nat.two_pow_add_eq_or_of_lt (by omega) _).symm
          rw [e2]; omega)
       | (have e2 : (6 % 2 ^ 32 ||| i.toNat * 256) = i.toNat * 256 + 6 := by
            rw [Nat.mul_comm, show (256 : Nat) = 2 ^ 8 from rfl, Nat.or_comm]; exact (Nat.two_pow_add_eq_or_of_lt (by omega) _).symm
          rw [e2]; omega)
       | (have e2 : (16 % 2 ^ 32 ||| i.toNat * 256) = i.toNat * 256 + 16 := by
            rw [Nat.mul_comm, show (256 : Nat) = 2 ^ 8 from rfl, Nat.or_comm]; exact (Nat.two_pow_add_eq_or_of_lt (by omega) _).symm
          rw [e2]; omega)
       | (have e2 : (5 % 2 ^ 32 ||| i.toNat * 256) = i.toNat * 256 + 5 := by
            rw [Nat.mul_comm, show (256 : Nat) = 2 ^ 8 from rfl, Nat.or_comm]; exact (Nat.two_pow_add_eq_or_of_lt (by omega) _).symm
          rw [e2]; omega))

end Wz.Proofs.ExitCode
