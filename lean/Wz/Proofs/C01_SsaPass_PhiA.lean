import Wz.Proofs.C01_SsaPass_Nop

/-! Structural lemmas for `removeParam`: lists with one index erased, binding of block parameters, the shape
of the transformed function. -/
namespace Wz.Model.SsaPass

/-! ### lists -/

theorem map_eraseIdx {α β} (g : α → β) (l : List α) (k : Nat) : (l.eraseIdx k).map g = (l.map g).eraseIdx k := by
  induction l generalizing k with
  | nil => rfl
  | cons a l ih =>
    cases k with
    | zero => rfl
    | succ k => simp [List.eraseIdx, ih]

theorem zip_eraseIdx {α β} (l1 : List α) (l2 : List β) (k : Nat) :
    (l1.eraseIdx k).zip (l2.eraseIdx k) = (l1.zip l2).eraseIdx k := by
  induction l1 generalizing l2 k with
  | nil => simp
  | cons a l1 ih =>
    cases l2 with
    | nil => cases k <;> simp [List.eraseIdx]
    | cons b l2 =>
      cases k with
      | zero => rfl
      | succ k => simp [List.eraseIdx, ih]

theorem mem_of_mem_eraseIdx {α} {l : List α} {k : Nat} {x : α} (h : x ∈ l.eraseIdx k) : x ∈ l :=
  (List.eraseIdx_sublist l k).subset h

theorem length_eraseIdx_eq {α β} {l1 : List α} {l2 : List β} (k : Nat) (h : l1.length = l2.length) :
    (l1.eraseIdx k).length = (l2.eraseIdx k).length := by
  simp [List.length_eraseIdx, h]

/-- a member of a list with one index erased sits at another index -/
theorem mem_eraseIdx_ne {α} {l : List α} (hnd : l.Nodup) {k : Nat} {x y : α} (hx : x ∈ l.eraseIdx k)
    (hy : l[k]? = some y) : x ≠ y := by
  induction l generalizing k with
  | nil => simp at hy
  | cons a l ih =>
    rw [List.nodup_cons] at hnd
    cases k with
    | zero =>
      simp only [List.getElem?_cons_zero, Option.some.injEq] at hy
      subst hy
      simp only [List.eraseIdx_cons_zero] at hx
      intro h; subst h; exact hnd.1 hx
    | succ k =>
      simp only [List.getElem?_cons_succ] at hy
      simp only [List.eraseIdx_cons_succ, List.mem_cons] at hx
      rcases hx with hx | hx
      · subst hx
        intro h; subst h
        exact hnd.1 (List.mem_of_getElem? hy)
      · exact ih hnd.2 hx hy

/-! ### binding parameters -/

theorem bindVals_congr_at (rs : List (Val × Ty)) (vs : List Nat) {e e' : Val → Nat} {v : Val} (h : e v = e' v) :
    bindVals e rs vs v = bindVals e' rs vs v :=
  bindVals_agree (S := (· = v)) rs vs (fun x hx => hx ▸ h) v rfl

/-- dropping the binding of one parameter does not change what the other values are bound to -/
theorem bindVals_eraseIdx (ps : List (Val × Ty)) :
    ∀ (k : Nat) (vs : List Nat) (e : Val → Nat) (v : Val), (∀ p, ps[k]? = some p → v ≠ p.1) →
      bindVals e (ps.eraseIdx k) (vs.eraseIdx k) v = bindVals e ps vs v := by
  induction ps with
  | nil => intro k vs e v _; cases k <;> rfl
  | cons p ps ih =>
    obtain ⟨r, ty⟩ := p
    intro k vs e v hv
    cases k with
    | zero =>
      have hne : v ≠ r := hv (r, ty) rfl
      have hvs : vs.eraseIdx 0 = vs.tail := by cases vs <;> rfl
      simp only [List.eraseIdx_cons_zero, hvs, bindVals]
      apply bindVals_congr_at
      simp [upd, hne]
    | succ k =>
      have hvs : (vs.eraseIdx (k + 1)).headD 0 = vs.headD 0 ∧ (vs.eraseIdx (k + 1)).tail = vs.tail.eraseIdx k := by
        cases vs <;> simp [List.eraseIdx]
      simp only [List.eraseIdx_cons_succ, bindVals, hvs.1, hvs.2]
      exact ih k _ _ v (fun p hp => hv p (by simpa using hp))

/-- what a parameter with a unique name is bound to -/
theorem bindVals_at (ps : List (Val × Ty)) :
    ∀ (k : Nat) (vs : List Nat) (e : Val → Nat) (p : Val × Ty), (ps.map (·.1)).Nodup → ps[k]? = some p →
      bindVals e ps vs p.1 = norm p.2 (vs[k]?.getD 0) := by
  induction ps with
  | nil => intro k vs e p _ h; simp at h
  | cons q ps ih =>
    obtain ⟨r, ty⟩ := q
    intro k vs e p hnd hk
    simp only [List.map_cons, List.nodup_cons] at hnd
    cases k with
    | zero =>
      simp only [List.getElem?_cons_zero, Option.some.injEq] at hk
      subst hk
      simp only [bindVals]
      rw [bindVals_frame _ _ _ _ hnd.1]
      cases vs <;> simp [upd]
    | succ k =>
      simp only [List.getElem?_cons_succ] at hk
      simp only [bindVals]
      rw [ih k vs.tail _ p hnd.2 hk]
      cases vs <;> simp

/-! ### `dropArg` -/

theorem dropArg_results (b : BlockId) (idx : Nat) (i : Instr) : (i.dropArg b idx).results = i.results := by
  cases i <;> try rfl
  case jump t as => by_cases h : t = b <;> simp [Instr.dropArg, Instr.branch?, Instr.setBranchArgs, Instr.results, h]
  case brz c t as => by_cases h : t = b <;> simp [Instr.dropArg, Instr.branch?, Instr.setBranchArgs, Instr.results, h]
  case brnz c t as => by_cases h : t = b <;> simp [Instr.dropArg, Instr.branch?, Instr.setBranchArgs, Instr.results, h]

theorem dropArg_typedResults (b : BlockId) (idx : Nat) (i : Instr) :
    (i.dropArg b idx).typedResults = i.typedResults := by
  cases i <;> try rfl
  case jump t as =>
    by_cases h : t = b <;> simp [Instr.dropArg, Instr.branch?, Instr.setBranchArgs, Instr.typedResults, h]
  case brz c t as =>
    by_cases h : t = b <;> simp [Instr.dropArg, Instr.branch?, Instr.setBranchArgs, Instr.typedResults, h]
  case brnz c t as =>
    by_cases h : t = b <;> simp [Instr.dropArg, Instr.branch?, Instr.setBranchArgs, Instr.typedResults, h]

theorem dropArg_of_not_branch {b : BlockId} {idx : Nat} {i : Instr} (h : ∀ as, i.branch? ≠ some (b, as)) :
    i.dropArg b idx = i := by
  unfold Instr.dropArg
  cases hbr : i.branch? with
  | none => rfl
  | some p =>
    obtain ⟨t, as⟩ := p
    simp only []
    split
    · rename_i ht; subst ht; exact absurd hbr (h as)
    · rfl

theorem dropArg_branch (b : BlockId) (idx : Nat) (i : Instr) :
    (i.dropArg b idx).branch? =
      i.branch?.map (fun p => (p.1, if p.1 = b then p.2.eraseIdx idx else p.2)) := by
  cases i <;> try rfl
  case jump t as => by_cases h : t = b <;> simp [Instr.dropArg, Instr.branch?, Instr.setBranchArgs, h]
  case brz c t as => by_cases h : t = b <;> simp [Instr.dropArg, Instr.branch?, Instr.setBranchArgs, h]
  case brnz c t as => by_cases h : t = b <;> simp [Instr.dropArg, Instr.branch?, Instr.setBranchArgs, h]

theorem dropArg_operands_sub (b : BlockId) (idx : Nat) (i : Instr) :
    ∀ o ∈ (i.dropArg b idx).operands, o ∈ i.operands := by
  cases i <;> try (intro o ho; exact ho)
  case jump t as =>
    by_cases h : t = b <;> simp only [Instr.dropArg, Instr.branch?, Instr.setBranchArgs, Instr.operands, h, if_true, if_false]
    · intro o ho; exact mem_of_mem_eraseIdx ho
    · intro o ho; exact ho
  case brz c t as =>
    by_cases h : t = b <;> simp only [Instr.dropArg, Instr.branch?, Instr.setBranchArgs, Instr.operands, h, if_true, if_false]
    · intro o ho
      rcases List.mem_cons.mp ho with ho | ho
      · exact List.mem_cons.mpr (Or.inl ho)
      · exact List.mem_cons.mpr (Or.inr (mem_of_mem_eraseIdx ho))
    · intro o ho; exact ho
  case brnz c t as =>
    by_cases h : t = b <;> simp only [Instr.dropArg, Instr.branch?, Instr.setBranchArgs, Instr.operands, h, if_true, if_false]
    · intro o ho
      rcases List.mem_cons.mp ho with ho | ho
      · exact List.mem_cons.mpr (Or.inl ho)
      · exact List.mem_cons.mpr (Or.inr (mem_of_mem_eraseIdx ho))
    · intro o ho; exact ho

theorem dropArg_bin (b : BlockId) (idx : Nat) (op : BinOp) (r : Val) (ty : Ty) (x y : Val) :
    (Instr.bin op r ty x y).dropArg b idx = .bin op r ty x y := rfl

/-! ### the shape of `removeParam` -/

/-- what `removeParam` makes of a block -/
def rpBlock (b : BlockId) (idx : Nat) (B : Block) : Block :=
  { B with params := if B.id = b ∧ ¬ B.invalid then B.params.eraseIdx idx else B.params,
           instrs := B.instrs.map (Instr.dropArg b idx) }

theorem removeParam_blocks (f : Func) (b : BlockId) (idx : Nat) (p u : Val) :
    (removeParam f b idx p u).blocks = f.blocks.map (rpBlock b idx) := rfl

theorem removeParam_alias (f : Func) (b : BlockId) (idx : Nat) (p u : Val) :
    (removeParam f b idx p u).alias = aliasInsert f.alias p u := rfl

theorem findBlock_removeParam (f : Func) (b : BlockId) (idx : Nat) (p u : Val) (t : BlockId) :
    (removeParam f b idx p u).findBlock t = (f.findBlock t).map (rpBlock b idx) := by
  simp only [Func.findBlock, removeParam_blocks]
  exact find?_map_of_comm _ _ _ (fun B => rfl)

theorem entry_removeParam (f : Func) (b : BlockId) (idx : Nat) (p u : Val) :
    (removeParam f b idx p u).entry = f.entry := by
  simp only [Func.entry, removeParam_blocks]
  cases f.blocks <;> rfl

theorem allInstrs_removeParam (f : Func) (b : BlockId) (idx : Nat) (p u : Val) :
    (removeParam f b idx p u).allInstrs = f.allInstrs.map (Instr.dropArg b idx) := by
  simp only [Func.allInstrs, removeParam_blocks, List.flatMap_map, rpBlock]
  induction f.blocks with
  | nil => rfl
  | cons B Bs ih => simp [List.flatMap_cons, ih]

end Wz.Model.SsaPass
