/- Lemmas for C15: fd_readdir — `maxDirents` and `writeDirents` agree: the writer never leaves the `bufToWrite`
bytes that `maxDirents` computed, for every listing and every buffer length. Core Lean only. -/
import Wz.Model.WasiFs2

namespace Wz.C15
open Wz.Model Wz.Model.Wasi Wz.Gen.Wasi

theorem wdl_zero (len : Nat) (skip : Option Nat) (names : List Nat) (i pos : Nat) :
    writeDirentsLoop len skip names 0 i pos = some pos := by
  cases names <;> simp [writeDirentsLoop]

/-- `maxDirents` and `writeDirents` in lock step, from any loop state (`btw` bytes accounted for = position of the
writer, `cnt` entries counted = index of the next entry). -/
theorem dirents_ok : ∀ (names : List Nat) (rem btw cnt B C T : Nat),
    (∀ n ∈ names, n < 4294967248) → btw + rem < 4294967296 →
    maxDirentsLoop names rem btw cnt = some (B, C, T) →
    btw ≤ B ∧ B ≤ btw + rem ∧ cnt ≤ C ∧ (0 < T → cnt + 1 ≤ C) ∧
    (T = 0 → (writeDirentsLoop B none names (C - cnt) cnt btw).isSome = true) ∧
    (0 < T → T < 24 → (writeDirentsLoop B none names (C - cnt - 1) cnt btw).isSome = true) ∧
    (24 ≤ T → (writeDirentsLoop B (some (C - 1)) names (C - cnt) cnt btw).isSome = true) := by
  intro names
  induction names with
  | nil =>
    intro rem btw cnt B C T _ _ h
    simp only [maxDirentsLoop, Option.some.injEq, Prod.mk.injEq] at h
    obtain ⟨rfl, rfl, rfl⟩ := h
    simp [wdl_zero]
  | cons n rest ih =>
    intro rem btw cnt B C T hn hlt h
    have hn0 : n < 4294967248 := hn n (by simp)
    have hrest : ∀ x ∈ rest, x < 4294967248 := fun x hx => hn x (by simp [hx])
    unfold maxDirentsLoop at h
    split at h
    · -- rem = 0
      simp only [Option.some.injEq, Prod.mk.injEq] at h
      obtain ⟨rfl, rfl, rfl⟩ := h
      simp [wdl_zero]
    · rename_i hrem
      split at h
      · cases h
      · rename_i hlarge
        dsimp only at h
        split at h
        · -- the entry does not fit: truncated
          rename_i hfit
          simp only [Option.some.injEq, Prod.mk.injEq] at h
          obtain ⟨rfl, rfl, rfl⟩ := h
          by_cases h24 : rem ≥ 24
          · simp only [h24, if_true]
            have hw : w32 (btw + 24) = btw + 24 := by unfold w32; omega
            rw [hw]
            refine ⟨by omega, by omega, by omega, fun _ => by first | omega | contradiction, fun h => by first | omega | contradiction, fun _ h => by first | omega | contradiction, fun _ => ?_⟩
            have h1 : cnt + 1 - cnt = 0 + 1 := by omega
            rw [h1]
            unfold writeDirentsLoop
            have a1 : ¬ btw > btw + 24 := by omega
            have a2 : ¬ btw + 24 - btw < 24 := by omega
            simp only [a1, a2, if_false, Nat.add_sub_cancel, if_true, wdl_zero, Option.isSome_some]
          · simp only [h24, if_false]
            have hw : w32 (btw + rem) = btw + rem := by unfold w32; omega
            rw [hw]
            refine ⟨by omega, by omega, by omega, fun _ => by first | omega | contradiction, fun h => by first | omega | contradiction, fun _ _ => ?_, fun h => by first | omega | contradiction⟩
            have h1 : cnt + 1 - cnt - 1 = 0 := by omega
            rw [h1, wdl_zero]
            rfl
        · -- the entry fits
          rename_i hfit
          have hw : w32 (btw + (24 + n)) = btw + (24 + n) := by unfold w32; omega
          rw [hw] at h
          obtain ⟨i1, i2, i3, i4, i5, i6, i7⟩ := ih (rem - (24 + n)) (btw + (24 + n)) (cnt + 1) B C T hrest (by omega) h
          refine ⟨by omega, by omega, by omega, fun h => by have := i4 h; omega, ?_, ?_, ?_⟩
          all_goals intro hT
          · have h1 : C - cnt = (C - (cnt + 1)) + 1 := by omega
            rw [h1]
            unfold writeDirentsLoop
            have a1 : ¬ btw > B := by omega
            have a2 : ¬ B - btw < 24 := by omega
            have hw2 : w32 (btw + 24) = btw + 24 := by unfold w32; omega
            have a3 : ¬ btw + 24 > B := by omega
            have hw3 : w32 (btw + 24 + w32 n) = btw + (24 + n) := by unfold w32; omega
            simp only [a1, a2, if_false, hw2, a3, hw3, reduceCtorEq]
            exact i5 hT
          · intro hT2
            have hc := i4 hT
            have h1 : C - cnt - 1 = (C - (cnt + 1) - 1) + 1 := by omega
            rw [h1]
            unfold writeDirentsLoop
            have a1 : ¬ btw > B := by omega
            have a2 : ¬ B - btw < 24 := by omega
            have hw2 : w32 (btw + 24) = btw + 24 := by unfold w32; omega
            have a3 : ¬ btw + 24 > B := by omega
            have hw3 : w32 (btw + 24 + w32 n) = btw + (24 + n) := by unfold w32; omega
            simp only [a1, a2, if_false, hw2, a3, hw3, reduceCtorEq]
            exact i6 hT hT2
          · have hc := i4 (by omega)
            have h1 : C - cnt = (C - (cnt + 1)) + 1 := by omega
            rw [h1]
            unfold writeDirentsLoop
            have a1 : ¬ btw > B := by omega
            have a2 : ¬ B - btw < 24 := by omega
            have hw2 : w32 (btw + 24) = btw + 24 := by unfold w32; omega
            have a3 : ¬ btw + 24 > B := by omega
            have hw3 : w32 (btw + 24 + w32 n) = btw + (24 + n) := by unfold w32; omega
            have a4 : ¬ (C - 1 = cnt) := by omega
            simp only [a1, a2, if_false, hw2, a3, hw3, Option.some.injEq, a4]
            exact i7 hT

/-- `maxDirents` does not hit "invalid filename: too large" when the host's names are shorter than 4 GiB - 48 -/
theorem maxDirents_some : ∀ (names : List Nat) (rem btw cnt : Nat), (∀ n ∈ names, n < 4294967248) →
    maxDirentsLoop names rem btw cnt ≠ none := by
  intro names
  induction names with
  | nil => intro rem btw cnt _; simp [maxDirentsLoop]
  | cons n rest ih =>
    intro rem btw cnt hn
    have hn0 : n < 4294967248 := hn n (by simp)
    have hrest : ∀ x ∈ rest, x < 4294967248 := fun x hx => hn x (by simp [hx])
    unfold maxDirentsLoop
    split
    · simp
    · split
      · rename_i hl
        unfold largestDirent at hl
        omega
      · dsimp only
        split
        · simp
        · exact ih _ _ _ hrest

/-- the writer stays inside the `bufToWrite` bytes that `maxDirents` computed -/
theorem writeDirents_some (names : List Nat) (bufLen B C T : Nat) (hn : ∀ n ∈ names, n < 4294967248)
    (hb : bufLen < 4294967296) (h : maxDirents names bufLen = some (B, C, T)) :
    writeDirents B names C T ≠ none ∧ B ≤ bufLen := by
  unfold maxDirents at h
  obtain ⟨_, i2, _, _, i5, i6, i7⟩ := dirents_ok names bufLen 0 0 B C T hn (by omega) h
  refine ⟨?_, by omega⟩
  unfold writeDirents
  simp only [Nat.sub_zero] at i5 i6 i7
  intro hnone
  split at hnone
  · rename_i hT
    split at hnone
    · rename_i hT2
      have := i6 hT hT2
      rw [hnone] at this
      cases this
    · have := i7 (by omega)
      rw [hnone] at this
      cases this
  · have := i5 (by omega)
    rw [hnone] at this
    cases this

end Wz.C15
