/-
C06 — lemmas about the reference semantics of calls with failure outcomes (`Wz.Model.Calls`).
-/
import Wz.Model.Calls

namespace Wz.C06.Calls
open Wz.Model.Calls

/-- Sequential decomposition: a failure in the first part ends the body with the state at the point
of failure; otherwise the second part continues from the state the first part left. -/
theorem execBody_append (doCall : Nat → Nat → Nat → State → R) (doHost : HostFn → Nat → State → R)
    (inst x : Nat) (is₁ is₂ : List Instr) (acc : Nat) (σ : State) :
    execBody doCall doHost inst x (is₁ ++ is₂) acc σ =
      match execBody doCall doHost inst x is₁ acc σ with
      | (.ok acc', σ') => execBody doCall doHost inst x is₂ acc' σ'
      | (.error e, σ') => (.error e, σ') := by
  induction is₁ generalizing acc σ with
  | nil => simp [execBody]
  | cons i rest ih =>
    obtain ⟨g, op⟩ := i
    simp only [List.cons_append, execBody]
    split
    · cases op with
      | setg a b => exact ih _ _
      | addg a => exact ih _ _
      | store a b => exact ih _ _
      | storex a => exact ih _ _
      | trap k => rfl
      | call j f a =>
        simp only
        rcases h : doCall j f (evalArg a x) σ with ⟨r, s⟩
        cases r with
        | ok v => simp only; exact ih _ _
        | error e => rfl
      | host hf a =>
        simp only
        rcases h : doHost hf (evalArg a x) σ with ⟨r, s⟩
        cases r with
        | ok v => simp only; exact ih _ _
        | error e => rfl
    · exact ih _ _

theorem closedCheck_snd (j : Nat) (r : R) : (closedCheck j r).2 = r.2 := by
  obtain ⟨res, σ⟩ := r
  cases res with
  | error e => rfl
  | ok v =>
    simp only [closedCheck]
    split <;> rfl

theorem modify_other (σ : State) (i j : Nat) (f : InstState → InstState) (h : i ≠ j) :
    (σ.modify i f)[j]? = σ[j]? := by
  unfold State.modify
  split
  · rfl
  · exact List.getElem?_set_ne h

/-- Instance an operation transfers control to (directly or through a re-entrant host function). -/
def target : Op → Option Nat
  | .call j _ _ => some j
  | .host (.reenter j _ _) _ => some j
  | _ => none

/-- No code outside instance `j` ever calls into `j`. -/
def Isolated (W : World) (j : Nat) : Prop :=
  ∀ i f body, i ≠ j → W.getFunc i f = some body → ∀ ins ∈ body, target ins.2 ≠ some j

theorem execBody_untouched (doCall : Nat → Nat → Nat → State → R) (doHost : HostFn → Nat → State → R)
    (inst x j : Nat) (hne : inst ≠ j) (body : List Instr)
    (hcall : ∀ ins ∈ body, ∀ j' f a, ins.2 = .call j' f a → ∀ s, (doCall j' f (evalArg a x) s).2[j]? = s[j]?)
    (hhost : ∀ ins ∈ body, ∀ h a, ins.2 = .host h a → ∀ s, (doHost h (evalArg a x) s).2[j]? = s[j]?)
    (acc : Nat) (σ : State) :
    (execBody doCall doHost inst x body acc σ).2[j]? = σ[j]? := by
  induction body generalizing acc σ with
  | nil => rfl
  | cons i rest ih =>
    obtain ⟨g, op⟩ := i
    have ih' := ih (fun ins hm => hcall ins (List.mem_cons_of_mem _ hm))
      (fun ins hm => hhost ins (List.mem_cons_of_mem _ hm))
    simp only [execBody]
    split
    · cases op with
      | setg a b => simp only; rw [ih', modify_other _ _ _ _ hne]
      | addg a => simp only; rw [ih', modify_other _ _ _ _ hne]
      | store a b => simp only; rw [ih', modify_other _ _ _ _ hne]
      | storex a => simp only; rw [ih', modify_other _ _ _ _ hne]
      | trap k => rfl
      | call j' f a =>
        simp only
        have hc := hcall (g, .call j' f a) (List.mem_cons_self ..) j' f a rfl σ
        rcases h : doCall j' f (evalArg a x) σ with ⟨r, s⟩
        rw [h] at hc
        cases r with
        | ok v => simp only; rw [ih']; exact hc
        | error e => exact hc
      | host hf a =>
        simp only
        have hc := hhost (g, .host hf a) (List.mem_cons_self ..) hf a rfl σ
        rcases h : doHost hf (evalArg a x) σ with ⟨r, s⟩
        rw [h] at hc
        cases r with
        | ok v => simp only; rw [ih']; exact hc
        | error e => exact hc
    · exact ih' _ _

theorem callFn_untouched (W : World) (D j : Nat) (hiso : Isolated W j) (fuel : Nat) :
    ∀ (depth i f arg : Nat) (σ : State), i ≠ j → (callFn W D fuel depth i f arg σ).2[j]? = σ[j]? := by
  induction fuel with
  | zero => intro depth i f arg σ _; rfl
  | succ fuel ih =>
    intro depth i f arg σ hne
    simp only [callFn]
    split
    · rfl
    · split
      · rfl
      · rename_i body hbody
        apply execBody_untouched _ _ i arg j hne body
        · intro ins hm j' f' a hop s
          have ht := hiso i f body hne hbody ins hm
          rw [hop] at ht
          have hj : j' ≠ j := fun h => ht (by simp [target, h])
          exact ih _ _ _ _ _ hj
        · intro ins hm h a hop s
          split
          · rfl
          · cases h with
            | ok => rfl
            | panic k => rfl
            | close => exact modify_other _ _ _ _ hne
            | exit => exact modify_other _ _ _ _ hne
            | reenter j' g c =>
              have ht := hiso i f body hne hbody ins hm
              rw [hop] at ht
              have hj : j' ≠ j := fun h => ht (by simp [target, h])
              have hc := ih 0 j' g (evalArg a arg) s hj
              simp only [hostStep]
              have hcc := closedCheck_snd j' (callFn W D fuel 0 j' g (evalArg a arg) s)
              rcases hr : closedCheck j' (callFn W D fuel 0 j' g (evalArg a arg) s) with ⟨r, s'⟩
              rw [hr] at hcc
              simp only at hcc
              cases r with
              | ok v => simp only; rw [hcc]; exact hc
              | error e =>
                simp only
                split <;> (simp only; rw [hcc]; exact hc)

end Wz.C06.Calls
