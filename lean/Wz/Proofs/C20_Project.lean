/-
C20 helper lemmas: a listener subset sees the projection of the all-listeners stream; the events are about calls of the forest.
-/
import Wz.Model.Listener

namespace Wz.C20
open Wz.Model.Listener

theorem map_abort_filter (S : Nat → Bool) (k : FailKind) (l : List Nat) :
    (l.filter S).map (fun f => Event.abort f k) =
      ((l.filter (fun _ => true)).map (fun f => Event.abort f k)).filter (fun e => S e.fn) := by
  induction l with
  | nil => rfl
  | cons g l ih =>
    simp only [List.filter_cons, if_true, List.map_cons]
    cases hS : S g <;> simp [Event.fn, hS, ih]

theorem aborts_project (E : Engine) (host S : Nat → Bool) (fl : Fail) :
    aborts E ⟨host, S⟩ fl = (aborts E ⟨host, fun _ => true⟩ fl).filter (fun e => S e.fn) := by
  unfold aborts
  cases fl.panicked with
  | false => simp
  | true => exact map_abort_filter S _ _

theorem run_project (E : Engine) (host S : Nat → Bool) :
    ∀ fr api st,
      (run E ⟨host, S⟩ api st fr).1 = ((run E ⟨host, fun _ => true⟩ api st fr).1).filter (fun e => S e.fn) ∧
      (run E ⟨host, S⟩ api st fr).2 = (run E ⟨host, fun _ => true⟩ api st fr).2 := by
  intro fr
  induction fr with
  | done => intro api st; simp [run]
  | call tail f args body out next ihb ihn =>
    intro api st
    have key : ∀ a s fr', (∀ api st, (run E ⟨host, S⟩ api st fr').1 = ((run E ⟨host, fun _ => true⟩ api st fr').1).filter (fun e => S e.fn) ∧
        (run E ⟨host, S⟩ api st fr').2 = (run E ⟨host, fun _ => true⟩ api st fr').2) →
        run E ⟨host, S⟩ a s fr' = (((run E ⟨host, fun _ => true⟩ a s fr').1).filter (fun e => S e.fn), (run E ⟨host, fun _ => true⟩ a s fr').2) := by
      intro a s fr' h
      exact Prod.ext (h a s).1 (h a s).2
    have hipeq : inPlace E ⟨host, S⟩ api tail f = inPlace E ⟨host, fun _ => true⟩ api tail f := rfl
    simp only [run, hipeq, key _ _ body ihb, key _ _ next ihn, aborts_project E host S]
    generalize inPlace E ⟨host, fun _ => true⟩ api tail f = ip
    generalize (E.tailJump && tail && !api) = tj
    generalize (E.tailJump && !host f && endsWithTail body) = ew
    rcases run E ⟨host, fun _ => true⟩ false (f :: (if api = true then [] else st).tail) body with ⟨e1, r1⟩
    rcases run E ⟨host, fun _ => true⟩ (host f) (f :: (if tj = true then (if api = true then [] else st).tail else (if api = true then [] else st))) body with ⟨e2, r2⟩
    rcases run E ⟨host, fun _ => true⟩ api (if api = true then [] else st) next with ⟨e3, r3⟩
    simp only []
    by_cases hS0 : S f = true <;> by_cases hH0 : host f = true
    · have hS : S f = true := hS0
      have hH : host f = true := hH0
      cases ip
      · cases api <;> cases r2 <;> cases r3 <;> cases E.beforeAtOverflow <;> cases ew <;> rcases out with vals | k <;>
          (try (by_cases hk : k = FailKind.overflow)) <;> (try subst hk) <;>
          (first
            | (simp [List.filter_append, Event.fn, hS, hH, hk]; done)
            | (simp [List.filter_append, Event.fn, hS, hH]; done)
            | (simp [List.filter_append, Event.fn, hS, hH, hk] <;> split <;> simp_all [List.filter_append, Event.fn]; done)
            | (simp [List.filter_append, Event.fn, hS, hH] <;> split <;> simp_all [List.filter_append, Event.fn]))
      · cases api <;> cases r1 <;> cases r3 <;> cases out <;>
          simp [List.filter_append, Event.fn, hS, hH] <;> (try split) <;> simp_all [List.filter_append, Event.fn]
    · have hS : S f = true := hS0
      have hH : host f = false := by simpa using hH0
      cases ip
      · cases api <;> cases r2 <;> cases r3 <;> cases E.beforeAtOverflow <;> cases ew <;> rcases out with vals | k <;>
          (try (by_cases hk : k = FailKind.overflow)) <;> (try subst hk) <;>
          (first
            | (simp [List.filter_append, Event.fn, hS, hH, hk]; done)
            | (simp [List.filter_append, Event.fn, hS, hH]; done)
            | (simp [List.filter_append, Event.fn, hS, hH, hk] <;> split <;> simp_all [List.filter_append, Event.fn]; done)
            | (simp [List.filter_append, Event.fn, hS, hH] <;> split <;> simp_all [List.filter_append, Event.fn]))
      · cases api <;> cases r1 <;> cases r3 <;> cases out <;>
          simp [List.filter_append, Event.fn, hS, hH] <;> (try split) <;> simp_all [List.filter_append, Event.fn]
    · have hS : S f = false := by simpa using hS0
      have hH : host f = true := hH0
      cases ip
      · cases api <;> cases r2 <;> cases r3 <;> cases E.beforeAtOverflow <;> cases ew <;> rcases out with vals | k <;>
          (try (by_cases hk : k = FailKind.overflow)) <;> (try subst hk) <;>
          (first
            | (simp [List.filter_append, Event.fn, hS, hH, hk]; done)
            | (simp [List.filter_append, Event.fn, hS, hH]; done)
            | (simp [List.filter_append, Event.fn, hS, hH, hk] <;> split <;> simp_all [List.filter_append, Event.fn]; done)
            | (simp [List.filter_append, Event.fn, hS, hH] <;> split <;> simp_all [List.filter_append, Event.fn]))
      · cases api <;> cases r1 <;> cases r3 <;> cases out <;>
          simp [List.filter_append, Event.fn, hS, hH] <;> (try split) <;> simp_all [List.filter_append, Event.fn]
    · have hS : S f = false := by simpa using hS0
      have hH : host f = false := by simpa using hH0
      cases ip
      · cases api <;> cases r2 <;> cases r3 <;> cases E.beforeAtOverflow <;> cases ew <;> rcases out with vals | k <;>
          (try (by_cases hk : k = FailKind.overflow)) <;> (try subst hk) <;>
          (first
            | (simp [List.filter_append, Event.fn, hS, hH, hk]; done)
            | (simp [List.filter_append, Event.fn, hS, hH]; done)
            | (simp [List.filter_append, Event.fn, hS, hH, hk] <;> split <;> simp_all [List.filter_append, Event.fn]; done)
            | (simp [List.filter_append, Event.fn, hS, hH] <;> split <;> simp_all [List.filter_append, Event.fn]))
      · cases api <;> cases r1 <;> cases r3 <;> cases out <;>
          simp [List.filter_append, Event.fn, hS, hH] <;> (try split) <;> simp_all [List.filter_append, Event.fn]

end Wz.C20
