/-
C01 / C02 (front end with memory accesses): conservativity over `FrontendSL` (a function without memory instructions
is lowered exactly as by `lowerSL`, and printed the same), and the static statement behind an elided check.
-/
import Wz.Proofs.C01_FrontMem

set_option linter.unusedSimpArgs false

namespace Wz.Proofs.FrontMem
open Wz.Spec Wz.Model.SsaPass Wz.Model.FrontendSL Wz.Model.FrontendMem Wz.Proofs.Front

theorem lowerBodyM_base (nres : Nat) : ∀ (body : List SI) (ms : MS),
    lowerBodyM nres (body.map .base) ms = (lowerBody nres body ms.ls).map .base := by
  intro body
  induction body with
  | nil => intro ms; rfl
  | cons i is ih =>
    intro ms
    by_cases hi : i = .ret
    · subst hi; rfl
    · have h1 : lowerBodyM nres (List.map MI.base (i :: is)) ms =
          (lowerMI (.base i) ms).1 ++ lowerBodyM nres (is.map .base) (lowerMI (.base i) ms).2 := by
        cases i <;> first | rfl | exact absurd rfl hi
      have h2 : lowerBody nres (i :: is) ms.ls = (lowerI i ms.ls).1 ++ lowerBody nres is (lowerI i ms.ls).2 := by
        cases i <;> first | rfl | exact absurd rfl hi
      rw [h1, h2, ih]
      simp only [lowerMI, List.map_append]

theorem contains_base (body : List SI) : (body.map MI.base).contains (.base .ret) = body.contains .ret := by
  induction body with
  | nil => rfl
  | cons i is ih =>
    simp only [List.map_cons, List.contains_cons, ih]
    congr 1
    cases i <;> rfl

/-- what `lowerSL` emits: instructions that do not touch the memory, and the final `ret` -/
def plain : Instr → Bool
  | .ret _ => true
  | i => pureI i

theorem lowerBody_plain (nres : Nat) : ∀ (body : List SI) (s : LS), ∀ i ∈ lowerBody nres body s, plain i = true := by
  intro body
  induction body with
  | nil => intro s i hi; simp only [lowerBody, List.mem_singleton] at hi; subst hi; rfl
  | cons j js ih =>
    intro s i hi
    by_cases hj : j = .ret
    · subst hj; simp only [lowerBody, List.mem_singleton] at hi; subst hi; rfl
    · have h2 : lowerBody nres (j :: js) s = (lowerI j s).1 ++ lowerBody nres js (lowerI j s).2 := by
        cases j <;> first | rfl | exact absurd rfl hj
      rw [h2] at hi
      rcases List.mem_append.mp hi with h | h
      · have := lowerI_pure j s i h
        cases i <;> simp_all [plain, pureI]
      · exact ih _ i h

theorem show_plain (rb : Bool) (i : Instr) (h : plain i = true) : showMInstr rb (.base i) = showInstr rb i := by
  cases i <;> simp_all [plain, pureI, showMInstr]

theorem lowerMem_toM (f : Fn) : lowerMem (toM f) = { params := entryParams f, instrs := (entryInstrs f).map .base } := by
  have : (toM f).sig = { f with body := [] } := rfl
  simp only [lowerMem, entryInstrsM, toM, FnM.sig, lowerBodyM_base, entryInstrs, List.map_append]
  rfl

theorem formatM_toM (f : Fn) : formatM (toM f) = format f := by
  have h1 : entryInstrsM (toM f) = (entryInstrs f).map .base := congrArg MFunc.instrs (lowerMem_toM f)
  have h2 : viaReturnBlockM (toM f) = viaReturnBlock f := by
    simp only [viaReturnBlockM, viaReturnBlock, toM, contains_base]
  have h3 : entryParams (toM f).sig = entryParams f := rfl
  simp only [formatM, format, h1, h2, h3, List.map_map]
  congr 1
  apply List.map_congr_left
  intro i hi
  apply show_plain
  simp only [entryInstrs] at hi
  rcases List.mem_append.mp hi with h | h
  · have := declLocals_pure f.locals (f.params.length + 2) {} i h
    cases i <;> simp_all [plain, pureI]
  · exact lowerBody_plain _ _ _ i h

/-- an elided check: `memOpSetup` emits nothing only when its cache holds a bound that covers the access, and then
the returned value holds the absolute address -/
theorem elision_justified {mc base : Nat} {bytes : ByteArray} {s : MS} {env : Val → Nat} {mem : Mem}
    (h : MInv mc base bytes s env mem) (b ceil : Nat) (hnil : (memOpSetup s b ceil).1 = []) :
    (∃ bound, lookupBound s.bounds b = some (bound, (memOpSetup s b ceil).2.1) ∧ ceil ≤ bound) ∧
    env b + ceil ≤ bytes.size ∧ env (memOpSetup s b ceil).2.1 = base + env b ∧ (memOpSetup s b ceil).2.2 = s := by
  unfold memOpSetup at hnil ⊢
  cases hl : lookupBound s.bounds b with
  | none =>
    rw [hl] at hnil
    simp only [memCheck] at hnil
    cases hnil
  | some e =>
    obtain ⟨bound, a0⟩ := e
    rw [hl] at hnil
    simp only at hnil ⊢
    by_cases hle : ceil ≤ bound
    · rw [if_pos hle]
      obtain ⟨h1, h2, _, _⟩ := h.bnd b bound a0 (lookupBound_mem _ _ _ hl)
      exact ⟨⟨bound, rfl, hle⟩, by omega, h2, rfl⟩
    · rw [if_neg hle] at hnil
      simp only [memCheck] at hnil
      cases hnil

end Wz.Proofs.FrontMem
