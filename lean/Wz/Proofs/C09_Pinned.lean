/-
C09 helper lemmas for the repaired variant (`pinRefs`): a reference stored together with a permanent
pointer holder → record always passes the shadow check.
-/
import Wz.Proofs.C09_Graph

namespace Wz.C09
open Wz.Model.Lifetime

theorem sweep_mono (L : List Edge) : ∀ (S : List Node), ∀ v ∈ S, v ∈ sweep L S := by
  induction L with
  | nil => intro S v hv; exact hv
  | cons e L ih =>
    intro S v hv
    unfold sweep
    rw [List.foldl_cons]
    apply ih
    split
    · exact List.mem_cons_of_mem _ hv
    · exact hv

theorem closure_mono (E : List Edge) : ∀ (n : Nat) (S : List Node), ∀ v ∈ S, v ∈ closure E n S := by
  intro n
  induction n with
  | zero => intro S v hv; simpa [closure] using hv
  | succ n ih =>
    intro S v hv
    unfold closure
    simp only
    split
    · exact sweep_mono E S v hv
    · exact ih _ v (sweep_mono E S v hv)

/-- the executable reachability finds an edge that heads the list -/
theorem reachB_head_edge (E : List Edge) (x y : Node) : reachB ((x, y) :: E) x y = true := by
  unfold reachB reachSet
  apply List.contains_iff_mem.2
  have hy : y ∈ sweep ((x, y) :: E) [x] := by
    unfold sweep
    rw [List.foldl_cons]
    apply sweep_mono
    by_cases h : y = x
    · subst h; simp
    · simp [h]
  unfold closure
  simp only
  split
  · exact hy
  · exact closure_mono _ _ _ y hy

/-- repaired variant, primitive level: pin + store never clears `shadowOk` when the pin succeeds -/
theorem pinned_store_keeps_shadow (g : G) (h t : Node) (hok : primOk g (.perm h t) = true) :
    (applyPrims g [.perm h t, .raw h t]).shadowOk = g.shadowOk := by
  simp only [applyPrims, List.foldl_cons, List.foldl_nil]
  have e1 : applyPrim g (.perm h t) = { g with perm := (h, t) :: g.perm } := by
    simp [applyPrim, hok]
  rw [e1]
  unfold applyPrim
  split
  · simp [guardB, reachB_head_edge]
  · rfl

end Wz.C09

namespace Wz.C09
open Wz.Model.Lifetime

theorem primsOk_head {g : G} {p : Prim} {ps : List Prim} (h : primsOk g (p :: ps) = true) : primOk g p = true := by
  unfold primsOk at h
  exact (Bool.and_eq_true_iff.1 h).1

/-- repaired variant, operation level: storing a reference (any source, any destination, any history
before it) never clears `shadowOk`, provided the primitives of the step passed their guards (the oracle
reports this per step as `primsok`). -/
theorem pinned_pass_shadowed_aux (w : W) (hp : w.pinRefs = true) (s d : Nat) (how : How) (wh : Where)
    (hok : stepOk w (.pass s how d wh) = true) :
    (stepW w (.pass s how d wh)).1.g.shadowOk = w.g.shadowOk := by
  unfold stepOk at hok
  unfold stepW
  simp only
  unfold stepPrims at hok ⊢
  simp only [hp, if_true] at hok ⊢
  repeat' split
  all_goals first
    | rfl
    | (simp_all [applyPrims]; done)
    | (simp_all [applyPrims]
       have h1 := primsOk_head hok
       have h2 := pinned_store_keeps_shadow _ _ _ h1
       simp only [applyPrims, List.foldl_cons, List.foldl_nil] at h2
       exact h2)

end Wz.C09
