/- Lemmas for C15 about the descriptor-table model: shape invariant and space. Core Lean only. -/
import Wz.Model.DescTable

namespace Wz.C15
open Wz.Model.DescTable

/-- shape part of the representation invariant -/
def Shape {α} (t : Table α) : Prop := t.items.length = 64 * t.masks.length

theorem shape_empty {α} : Shape (empty : Table α) := by simp [Shape, empty]

theorem shape_grow {α} (t : Table α) (n : Nat) (h : Shape t) : Shape (grow t n) := by
  simp only [Shape, grow, List.length_append, List.length_replicate] at *
  omega

theorem slots_grow {α} (t : Table α) (n : Nat) : slots (grow t n) = slots t + n * 64 := by
  simp [slots, grow]

theorem shape_setBit {α} (t : Table α) (i s : Nat) (x : α) (h : Shape t) : Shape (setBit t i s x) := by
  simp only [Shape, setBit, List.length_set] at *
  exact h

theorem slots_setBit {α} (t : Table α) (i s : Nat) (x : α) : slots (setBit t i s x) = slots t := by
  simp [slots, setBit]

theorem shape_insert {α} (t : Table α) (x : α) (h : Shape t) : Shape (insert t x).1 := by
  unfold Wz.Model.DescTable.insert
  split
  · exact shape_setBit _ _ _ _ h
  · exact shape_setBit _ _ _ _ (shape_grow _ _ h)

theorem slots_insert_le {α} (t : Table α) (x : α) : slots (insert t x).1 ≤ slots t + 64 := by
  unfold Wz.Model.DescTable.insert
  split
  · simp only [slots_setBit]; omega
  · simp only [slots_setBit, slots_grow]; omega

theorem shape_insertAt {α} (t : Table α) (x : α) (k : Int) (h : Shape t) : Shape (insertAt t x k).1 := by
  unfold insertAt
  split
  · exact h
  · simp only
    split
    · exact shape_setBit _ _ _ _ (shape_grow _ _ h)
    · exact shape_setBit _ _ _ _ h

/-- `InsertAt` makes the table as large as the key demands, whatever the key. -/
theorem slots_insertAt {α} (t : Table α) (x : α) (k : Int) (hk : 0 ≤ k) (h : Shape t) :
    slots (insertAt t x k).1 = max (slots t) (64 * (k.toNat / 64 + 1)) := by
  unfold insertAt
  have : ¬ k < 0 := by omega
  simp only [this, if_false]
  unfold Shape at h
  split
  · simp only [slots_setBit, slots_grow]
    simp only [slots]
    omega
  · simp only [slots_setBit]
    simp only [slots]
    omega

theorem shape_delete {α} (t : Table α) (k : Int) (h : Shape t) : Shape (delete t k) := by
  unfold delete
  split
  · exact h
  · dsimp only
    split
    · split
      · simp only [Shape, List.length_set] at *; exact h
      · exact h
    · exact h

theorem slots_delete {α} (t : Table α) (k : Int) : slots (delete t k) = slots t := by
  unfold delete
  split
  · rfl
  · dsimp only
    split
    · split
      · simp [slots]
      · rfl
    · rfl

theorem shape_reset {α} (t : Table α) (h : Shape t) : Shape (reset t) := by
  simp only [Shape, reset, List.length_map] at *
  exact h

theorem slots_reset {α} (t : Table α) : slots (reset t) = slots t := by simp [slots, reset]

theorem shape_apply {α} (t : Table α) (op : Op α) (h : Shape t) : Shape (apply t op) := by
  cases op with
  | insert it => exact shape_insert t it h
  | insertAt it k => exact shape_insertAt t it k h
  | delete k => exact shape_delete t k h
  | reset => exact shape_reset t h

theorem shape_applyAll {α} (ops : List (Op α)) : ∀ (t : Table α), Shape t → Shape (applyAll t ops) := by
  induction ops with
  | nil => intro t h; exact h
  | cons op rest ih => intro t h; exact ih _ (shape_apply t op h)

def Op.isInsertAt {α} : Op α → Bool
  | .insertAt _ _ => true
  | _ => false

def countInserts {α} : List (Op α) → Nat
  | [] => 0
  | .insert _ :: r => countInserts r + 1
  | _ :: r => countInserts r

theorem space_applyAll {α} (ops : List (Op α)) :
    ∀ (t : Table α), (∀ op ∈ ops, Op.isInsertAt op = false) → slots (applyAll t ops) ≤ slots t + 64 * countInserts ops := by
  induction ops with
  | nil => intro t _; simp [applyAll, countInserts]
  | cons op rest ih =>
    intro t hno
    have hrest : ∀ o ∈ rest, Op.isInsertAt o = false := fun o ho => hno o (List.mem_cons_of_mem _ ho)
    have h := ih (apply t op) hrest
    have hop := hno op (List.mem_cons_self ..)
    simp only [applyAll, List.foldl_cons] at *
    cases op with
    | insert it =>
      have := slots_insert_le t it
      simp only [apply, countInserts] at *
      omega
    | insertAt it k => simp [Op.isInsertAt] at hop
    | delete k =>
      simp only [apply, countInserts, slots_delete] at *
      exact h
    | reset =>
      simp only [apply, countInserts, slots_reset] at *
      exact h

end Wz.C15
