/-
C01 (front end, control-flow setting): the one-instruction lemmas of `C01_Front_Sim` for the instructions that
neither touch the Wasm locals nor return, in a form where
* freshness of the result ids is only "different from every tracked stack value id" (no order on value ids),
* the Wasm locals are not tracked (the frame's `locals` is arbitrary and comes out unchanged),
* the FRAME property is exposed: the SSA environment changes only at the result ids of the emitted instructions.
-/
import Wz.Proofs.C01_Front

namespace Wz.Proofs.FrontCF
open Wz.Spec Wz.Model.SsaPass Wz.Model.FrontendSL Wz.Proofs.Front

/-- straight-line instructions that neither touch the locals nor return -/
def isPlain : SI → Bool
  | .ret | .localGet _ | .localSet _ | .localTee _ => false
  | _ => true

/-- the value stack of SSA values `stk` (top first) holds the Wasm stack `stack` in environment `env` -/
structure InvS (stk : List TV) (tys : List Ty) (stack : List Nat) (env : Val → Nat) : Prop where
  vals : stk.map (fun p => env p.1) = stack
  tys : stk.map (·.2) = tys
  rng : ∀ p ∈ stk, env p.1 < 2 ^ p.2.bits

/-- the result ids of the instructions emitted for `i` -/
def resultsOf (i : SI) (r : Nat) (stk : List TV) : List Val := (lowerI i ⟨r, stk, []⟩).1.flatMap (·.results)

theorem map_upd_ne {l : List TV} {r : Val} (env : Val → Nat) (x : Nat) (h : ∀ p ∈ l, p.1 ≠ r) :
    l.map (fun p => upd env r x p.1) = l.map (fun p => env p.1) := by
  apply List.map_congr_left
  intro p hp
  simp only [upd]
  rw [if_neg (h p hp)]

theorem InvS.uncons {stk : List TV} {t : Ty} {tys : List Ty} {stack : List Nat} {env : Val → Nat}
    (h : InvS stk (t :: tys) stack env) :
    ∃ v srest x stack', stk = (v, t) :: srest ∧ stack = x :: stack' ∧ env v = x ∧ x < 2 ^ t.bits ∧
      InvS srest tys stack' env := by
  obtain ⟨hstk, hty, hR⟩ := h
  cases stk with
  | nil => simp at hty
  | cons p srest =>
    obtain ⟨v, t'⟩ := p
    simp only [List.map_cons, List.cons.injEq] at hty
    obtain ⟨rfl, hty⟩ := hty
    refine ⟨v, srest, env v, srest.map (fun p => env p.1), rfl, ?_, rfl, ?_, ?_⟩
    · rw [← hstk]; rfl
    · exact hR (v, t') (List.mem_cons_self ..)
    · exact ⟨rfl, hty, fun p hp => hR p (List.mem_cons_of_mem _ hp)⟩

/-- an environment update at a value that is not on the stack keeps the invariant -/
theorem InvS.updFresh {stk : List TV} {tys : List Ty} {stack : List Nat} {env : Val → Nat}
    (h : InvS stk tys stack env) {r : Val} (hf : ∀ p ∈ stk, p.1 ≠ r) (x : Nat) :
    InvS stk tys stack (upd env r x) := by
  obtain ⟨hstk, hty, hR⟩ := h
  refine ⟨?_, hty, ?_⟩
  · rw [← hstk]; exact map_upd_ne env x hf
  · intro p hp
    simp only [upd]; rw [if_neg (hf p hp)]; exact hR p hp

/-- pushing the result of a new instruction -/
theorem InvS.pushNew {stk : List TV} {tys : List Ty} {stack : List Nat} {env : Val → Nat}
    (h : InvS stk tys stack env) {r : Val} (hf : ∀ p ∈ stk, p.1 ≠ r) (t : Ty) (x : Nat) (hx : x < 2 ^ t.bits) :
    InvS ((r, t) :: stk) (t :: tys) (x :: stack) (upd env r x) := by
  obtain ⟨hstk, hty, hR⟩ := h.updFresh hf x
  refine ⟨?_, ?_, ?_⟩
  · rw [← hstk]; simp only [List.map_cons, upd, if_true]
  · simp only [List.map_cons, hty]
  · intro p hp
    rcases List.mem_cons.mp hp with rfl | hp
    · simp only [upd, if_true]; exact hx
    · exact hR p hp

theorem upd_frame (env : Val → Nat) (r : Val) (x : Nat) : ∀ v, v ∉ [r] → upd env r x v = env v := by
  intro v hv
  simp only [upd]
  rw [if_neg (fun h => hv (by rw [h]; exact List.mem_singleton_self _))]

/-- the outcome of one plain instruction, related in both semantics, with the frame property -/
def StepS (w : World) (m : Wasm.Module) (i : SI) (r : Nat) (stk : List TV) (tys' : List Ty)
    (stack : List Nat) (locals : Array Nat) (env : Val → Nat) (st : Wasm.Store) (n : Nat) : Prop :=
  (∃ stack' env',
      Wasm.execInstr m (n + 1) i.toInstr ⟨stack, locals⟩ st = (.next, ⟨stack', locals⟩, st) ∧
      (∀ rest, execBody w [] ((lowerI i ⟨r, stk, []⟩).1 ++ rest) (mk env) = execBody w [] rest (mk env')) ∧
      InvS (lowerI i ⟨r, stk, []⟩).2.stack tys' stack' env' ∧
      (∀ v, v ∉ resultsOf i r stk → env' v = env v)) ∨
  (∃ code fr', Wasm.execInstr m (n + 1) i.toInstr ⟨stack, locals⟩ st = (.trap (trapKind code), fr', st) ∧
      (∀ rest, execBody w [] ((lowerI i ⟨r, stk, []⟩).1 ++ rest) (mk env) = some (.trap code (mk env))) ∧
      (code = codeDivByZero ∨ code = codeOverflow))

/-- the freshness hypothesis of `sim_plain` -/
def Fresh (i : SI) (r : Nat) (stk : List TV) : Prop := ∀ p ∈ stk, ∀ q ∈ resultsOf i r stk, p.1 ≠ q

theorem Fresh.one {i : SI} {r : Nat} {stk : List TV} (h : Fresh i r stk) (hres : resultsOf i r stk = [r]) :
    ∀ p ∈ stk, p.1 ≠ r :=
  fun p hp => h p hp r (by rw [hres]; exact List.mem_singleton_self _)

variable {w : World} {m : Wasm.Module} {r : Nat} {stk : List TV} {tys tys' : List Ty} {stack : List Nat}
  {locals : Array Nat} {env : Val → Nat} {st : Wasm.Store} {n : Nat}

theorem step_const (t : Ty) (v : Nat) (hinv : InvS stk tys stack env) (hfresh : Fresh (.const t v) r stk)
    (htc : tcStep [] (.const t v) tys = some tys') :
    StepS w m (.const t v) r stk tys' stack locals env st n := by
  simp only [tcStep, Option.some.injEq] at htc
  subst htc
  have hres : resultsOf (.const t v) r stk = [r] := rfl
  have hf := hfresh.one hres
  refine .inl ⟨(v % 2 ^ t.bits) :: stack, upd env r (v % 2 ^ t.bits), ?_, ?_, ?_, ?_⟩
  · simp only [SI.toInstr, Wasm.execInstr]
  · intro rest
    simp only [lowerI, List.cons_append, List.nil_append]
    exact execBody_next rest (by simp only [execInstr, mk_set, norm, Nat.mod_mod])
  · exact hinv.pushNew hf t (v % 2 ^ t.bits) (Nat.mod_lt _ (Nat.two_pow_pos _))
  · rw [hres]; exact upd_frame env r _

theorem step_drop (hinv : InvS stk tys stack env) (htc : tcStep [] .drop tys = some tys') :
    StepS w m .drop r stk tys' stack locals env st n := by
  match tys, htc, hinv with
  | [], h, _ => simp [tcStep] at h
  | a :: rt, h, hinv =>
    simp only [tcStep, Option.some.injEq] at h
    subst h
    obtain ⟨v, s1, x, stk1, rfl, rfl, hx, hxR, inv1⟩ := hinv.uncons
    refine .inl ⟨stk1, env, ?_, ?_, ?_, ?_⟩
    · simp only [SI.toInstr, Wasm.execInstr]
    · intro rest; simp only [lowerI, List.nil_append]
    · exact inv1
    · intro _ _; rfl

theorem step_select (hinv : InvS stk tys stack env) (hfresh : Fresh .select r stk)
    (htc : tcStep [] .select tys = some tys') :
    StepS w m .select r stk tys' stack locals env st n := by
  match tys, htc, hinv with
  | [], h, _ => simp [tcStep] at h
  | [_], h, _ => simp [tcStep] at h
  | [_, _], h, _ => simp [tcStep] at h
  | c :: b :: a :: rt, h, hinv =>
    simp only [tcStep] at h
    split at h
    · rename_i hab
      obtain ⟨rfl, rfl⟩ := hab
      simp only [Option.some.injEq] at h; subst h
      obtain ⟨vc, s1, xc, stk1, rfl, rfl, hc, hcR, inv1⟩ := hinv.uncons
      obtain ⟨v2, s2, x2, stk2, rfl, rfl, h2, h2R, inv2⟩ := inv1.uncons
      obtain ⟨v1, s3, x1, stk3, rfl, rfl, h1, h1R, inv3⟩ := inv2.uncons
      have hres : resultsOf .select r ((vc, .i32) :: (v2, a) :: (v1, a) :: s3) = [r] := rfl
      have hf := hfresh.one hres
      have hf3 : ∀ p ∈ s3, p.1 ≠ r := fun p hp =>
        hf p (List.mem_cons_of_mem _ (List.mem_cons_of_mem _ (List.mem_cons_of_mem _ hp)))
      have hval : (if xc % 2 ^ 32 != 0 then x1 else x2) < 2 ^ a.bits := by split <;> assumption
      refine .inl ⟨(if xc % 2 ^ 32 != 0 then x1 else x2) :: stk3,
        upd env r (if xc % 2 ^ 32 != 0 then x1 else x2), ?_, ?_, ?_, ?_⟩
      · simp only [SI.toInstr, Wasm.execInstr]
      · intro rest
        simp only [lowerI, LS.pop, List.headD_cons, List.tail_cons, List.cons_append, List.nil_append]
        refine execBody_next rest ?_
        have hc' : xc % 2 ^ 32 = xc := Nat.mod_eq_of_lt hcR
        simp only [execInstr, mk_set, hc, h1, h2, hc']
        congr 2
        by_cases h0 : xc = 0
        · simp [h0, norm_of_lt h2R]
        · simp [h0, norm_of_lt h1R]
      · exact inv3.pushNew hf3 a _ hval
      · rw [hres]; exact upd_frame env r _
    · cases h

theorem step_bin (t : Ty) (op : IBin) (hinv : InvS stk tys stack env) (hfresh : Fresh (.bin t op) r stk)
    (htc : tcStep [] (.bin t op) tys = some tys') :
    StepS w m (.bin t op) r stk tys' stack locals env st n := by
  match tys, htc, hinv with
  | [], h, _ => simp [tcStep] at h
  | [_], h, _ => simp [tcStep] at h
  | b :: a :: rt, h, hinv =>
    simp only [tcStep] at h
    split at h
    · rename_i hab
      obtain ⟨rfl, rfl⟩ := hab
      simp only [Option.some.injEq] at h; subst h
      obtain ⟨vy, s1, y, stk1, rfl, rfl, hy, hyR, inv1⟩ := hinv.uncons
      obtain ⟨vx, s2, x, stk2, rfl, rfl, hx, hxR, inv2⟩ := inv1.uncons
      have hres : resultsOf (.bin b op) r ((vy, b) :: (vx, b) :: s2) = [r] := rfl
      have hf := hfresh.one hres
      have hf2 : ∀ p ∈ s2, p.1 ≠ r := fun p hp => hf p (List.mem_cons_of_mem _ (List.mem_cons_of_mem _ hp))
      refine .inl ⟨evalBin op.toSsa b x y :: stk2, upd env r (evalBin op.toSsa b x y), ?_, ?_, ?_, ?_⟩
      · simp only [SI.toInstr, Wasm.execInstr, scalar_bin b op x y hyR, Wasm.numResult]
      · intro rest
        simp only [lowerI, LS.pop, List.headD_cons, List.tail_cons, List.cons_append, List.nil_append]
        exact execBody_next rest (by simp only [execInstr, mk_set, hx, hy])
      · exact inv2.pushNew hf2 b _ (evalBin_lt op.toSsa b x y)
      · rw [hres]; exact upd_frame env r _
    · cases h

theorem step_rel (t : Ty) (op : IRel) (hinv : InvS stk tys stack env) (hfresh : Fresh (.rel t op) r stk)
    (htc : tcStep [] (.rel t op) tys = some tys') :
    StepS w m (.rel t op) r stk tys' stack locals env st n := by
  match tys, htc, hinv with
  | [], h, _ => simp [tcStep] at h
  | [_], h, _ => simp [tcStep] at h
  | b :: a :: rt, h, hinv =>
    simp only [tcStep] at h
    split at h
    · rename_i hab
      obtain ⟨rfl, rfl⟩ := hab
      simp only [Option.some.injEq] at h; subst h
      obtain ⟨vy, s1, y, stk1, rfl, rfl, hy, hyR, inv1⟩ := hinv.uncons
      obtain ⟨vx, s2, x, stk2, rfl, rfl, hx, hxR, inv2⟩ := inv1.uncons
      have hres : resultsOf (.rel b op) r ((vy, b) :: (vx, b) :: s2) = [r] := rfl
      have hf := hfresh.one hres
      have hf2 : ∀ p ∈ s2, p.1 ≠ r := fun p hp => hf p (List.mem_cons_of_mem _ (List.mem_cons_of_mem _ hp))
      refine .inl ⟨evalCond op.toSsa b x y :: stk2, upd env r (evalCond op.toSsa b x y), ?_, ?_, ?_, ?_⟩
      · simp only [SI.toInstr, Wasm.execInstr, scalar_rel b op x y, Wasm.numResult]
      · intro rest
        simp only [lowerI, LS.pop, List.headD_cons, List.tail_cons, List.cons_append, List.nil_append]
        exact execBody_next rest (by simp only [execInstr, mk_set, hx, hy])
      · exact inv2.pushNew hf2 .i32 _ (evalCond_lt op.toSsa b x y)
      · rw [hres]; exact upd_frame env r _
    · cases h

theorem step_eqz (t : Ty) (hinv : InvS stk tys stack env) (hfresh : Fresh (.eqz t) r stk)
    (htc : tcStep [] (.eqz t) tys = some tys') :
    StepS w m (.eqz t) r stk tys' stack locals env st n := by
  match tys, htc, hinv with
  | [], h, _ => simp [tcStep] at h
  | a :: rt, h, hinv =>
    simp only [tcStep] at h
    split at h
    · rename_i hab
      subst hab
      simp only [Option.some.injEq] at h; subst h
      obtain ⟨vx, s1, x, stk1, rfl, rfl, hx, hxR, inv1⟩ := hinv.uncons
      have hres : resultsOf (.eqz a) r ((vx, a) :: s1) = [r, r + 1] := rfl
      have hfa : ∀ p ∈ (vx, a) :: s1, p.1 ≠ r := fun p hp => hfresh p hp r (by rw [hres]; simp)
      have hfb : ∀ p ∈ (vx, a) :: s1, p.1 ≠ r + 1 := fun p hp => hfresh p hp (r + 1) (by rw [hres]; simp)
      have hvx : vx ≠ r := hfa (vx, a) (List.mem_cons_self ..)
      refine .inl ⟨evalCond .eq a x 0 :: stk1,
        upd (upd env r 0) (r + 1) (evalCond .eq a x 0), ?_, ?_, ?_, ?_⟩
      · simp only [SI.toInstr, Wasm.execInstr, scalar_eqz a x, Wasm.numResult]
      · intro rest
        simp only [lowerI, LS.pop, List.headD_cons, List.tail_cons, List.cons_append, List.nil_append]
        rw [execBody_next (env' := upd env r 0) _ (by simp only [execInstr, mk_set, norm, Nat.zero_mod])]
        refine execBody_next rest ?_
        have h1 : upd env r 0 vx = x := by
          simp only [upd]; rw [if_neg hvx]; exact hx
        have h2 : upd env r 0 r = 0 := by simp only [upd, if_true]
        simp only [execInstr, mk_set, h1, h2]
      · exact (inv1.updFresh (fun p hp => hfa p (List.mem_cons_of_mem _ hp)) 0).pushNew
          (fun p hp => hfb p (List.mem_cons_of_mem _ hp)) .i32 _ (evalCond_lt .eq a x 0)
      · rw [hres]
        intro v hv
        simp only [List.mem_cons, List.not_mem_nil, or_false, not_or] at hv
        simp only [upd]
        rw [if_neg hv.2, if_neg hv.1]
    · cases h

/-- the unary instructions that pop one value of type `a` and push the result of one SSA instruction -/
theorem step_un1 (i : SI) (name : String) (uop : UnOp) (a rt : Ty)
    (hI : i.toInstr = .num1 name)
    (hL : ∀ (next : Nat) (vx : Nat) (s1 : List TV) (locs : List TV),
      lowerI i ⟨next, (vx, a) :: s1, locs⟩ = ([.un uop next rt vx], ⟨next + 1, (next, rt) :: s1, locs⟩))
    (hS : ∀ x, x < 2 ^ a.bits → Num.scalar name [x] = some (.val (evalUn uop rt x)))
    (hinv : InvS stk (a :: tys) stack env) (hfresh : Fresh i r stk) :
    StepS w m i r stk (rt :: tys) stack locals env st n := by
  obtain ⟨vx, s1, x, stk1, rfl, rfl, hx, hxR, inv1⟩ := hinv.uncons
  have hres : resultsOf i r ((vx, a) :: s1) = [r] := by
    simp only [resultsOf, hL, List.flatMap_cons, List.flatMap_nil, Instr.results, List.append_nil]
  have hf := hfresh.one hres
  refine .inl ⟨evalUn uop rt x :: stk1, upd env r (evalUn uop rt x), ?_, ?_, ?_, ?_⟩
  · simp only [hI, Wasm.execInstr, hS x hxR, Wasm.numResult]
  · intro rest
    simp only [hL, List.cons_append, List.nil_append]
    exact execBody_next rest (by simp only [execInstr, mk_set, hx])
  · simp only [hL]
    exact inv1.pushNew (fun p hp => hf p (List.mem_cons_of_mem _ hp)) rt _ (evalUn_lt uop rt x)
  · rw [hres]; exact upd_frame env r _

theorem step_cnt (t : Ty) (op : ICnt) (hinv : InvS stk tys stack env) (hfresh : Fresh (.cnt t op) r stk)
    (htc : tcStep [] (.cnt t op) tys = some tys') :
    StepS w m (.cnt t op) r stk tys' stack locals env st n := by
  match tys, htc, hinv with
  | [], h, _ => simp [tcStep] at h
  | a :: rt, h, hinv =>
    simp only [tcStep] at h
    split at h
    · rename_i hab
      subst hab
      simp only [Option.some.injEq] at h; subst h
      exact step_un1 (.cnt a op) (cntName a op) op.toSsa a a rfl (fun _ _ _ _ => rfl)
        (fun x _ => scalar_cnt a op x) hinv hfresh
    · cases h

theorem step_wrap (hinv : InvS stk tys stack env) (hfresh : Fresh .wrap r stk)
    (htc : tcStep [] .wrap tys = some tys') :
    StepS w m .wrap r stk tys' stack locals env st n := by
  match tys, htc, hinv with
  | [], h, _ => simp [tcStep] at h
  | a :: rt, h, hinv =>
    simp only [tcStep] at h
    split at h
    · rename_i hab
      subst hab
      simp only [Option.some.injEq] at h; subst h
      exact step_un1 .wrap "i32.wrap_i64" .ireduce .i64 .i32 rfl (fun _ _ _ _ => rfl)
        (fun x _ => scalar_wrap x) hinv hfresh
    · cases h

theorem step_extendS (hinv : InvS stk tys stack env) (hfresh : Fresh .extendS r stk)
    (htc : tcStep [] .extendS tys = some tys') :
    StepS w m .extendS r stk tys' stack locals env st n := by
  match tys, htc, hinv with
  | [], h, _ => simp [tcStep] at h
  | a :: rt, h, hinv =>
    simp only [tcStep] at h
    split at h
    · rename_i hab
      subst hab
      simp only [Option.some.injEq] at h; subst h
      exact step_un1 .extendS "i64.extend_i32_s" .sextend .i32 .i64 rfl (fun _ _ _ _ => rfl)
        (fun x _ => scalar_extendS x) hinv hfresh
    · cases h

theorem step_extendU (hinv : InvS stk tys stack env) (hfresh : Fresh .extendU r stk)
    (htc : tcStep [] .extendU tys = some tys') :
    StepS w m .extendU r stk tys' stack locals env st n := by
  match tys, htc, hinv with
  | [], h, _ => simp [tcStep] at h
  | a :: rt, h, hinv =>
    simp only [tcStep] at h
    split at h
    · rename_i hab
      subst hab
      simp only [Option.some.injEq] at h; subst h
      exact step_un1 .extendU "i64.extend_i32_u" .uextend .i32 .i64 rfl (fun _ _ _ _ => rfl)
        (fun x _ => scalar_extendU x) hinv hfresh
    · cases h

theorem step_extend32S (hinv : InvS stk tys stack env) (hfresh : Fresh .extend32S r stk)
    (htc : tcStep [] .extend32S tys = some tys') :
    StepS w m .extend32S r stk tys' stack locals env st n := by
  match tys, htc, hinv with
  | [], h, _ => simp [tcStep] at h
  | a :: rt, h, hinv =>
    simp only [tcStep] at h
    split at h
    · rename_i hab
      subst hab
      simp only [Option.some.injEq] at h; subst h
      exact step_un1 .extend32S "i64.extend32_s" .sextend .i64 .i64 rfl (fun _ _ _ _ => rfl)
        (fun x _ => scalar_extend32S x) hinv hfresh
    · cases h

theorem step_div (t : Ty) (op : IDiv) (hinv : InvS stk tys stack env) (hfresh : Fresh (.div t op) r stk)
    (htc : tcStep [] (.div t op) tys = some tys') :
    StepS w m (.div t op) r stk tys' stack locals env st n := by
  match tys, htc, hinv with
  | [], h, _ => simp [tcStep] at h
  | [_], h, _ => simp [tcStep] at h
  | b :: a :: rt, h, hinv =>
    simp only [tcStep] at h
    split at h
    · rename_i hab
      obtain ⟨rfl, rfl⟩ := hab
      simp only [Option.some.injEq] at h; subst h
      obtain ⟨vy, s1, y, stk1, rfl, rfl, hy, hyR, inv1⟩ := hinv.uncons
      obtain ⟨vx, s2, x, stk2, rfl, rfl, hx, hxR, inv2⟩ := inv1.uncons
      have hres : resultsOf (.div b op) r ((vy, b) :: (vx, b) :: s2) = [r] := rfl
      have hf := hfresh.one hres
      have hf2 : ∀ p ∈ s2, p.1 ≠ r := fun p hp => hf p (List.mem_cons_of_mem _ (List.mem_cons_of_mem _ hp))
      cases hd : evalDiv op.toSsa b x y with
      | ok v =>
        refine .inl ⟨v :: stk2, upd env r v, ?_, ?_, ?_, ?_⟩
        · simp only [SI.toInstr, Wasm.execInstr, scalar_div b op x y, hd, divRes, Wasm.numResult]
        · intro rest
          simp only [lowerI, LS.pop, List.headD_cons, List.tail_cons, List.cons_append, List.nil_append]
          exact execBody_next rest (by simp only [execInstr, mk_set, hx, hy, hd])
        · exact inv2.pushNew hf2 b _ (evalDiv_lt _ _ _ _ _ hd)
        · rw [hres]; exact upd_frame env r _
      | error code =>
        refine .inr ⟨code, ⟨y :: x :: stk2, locals⟩, ?_, ?_, evalDiv_code hd⟩
        · simp only [SI.toInstr, Wasm.execInstr, scalar_div b op x y, hd, divRes, Wasm.numResult]
        · intro rest
          simp only [lowerI, LS.pop, List.headD_cons, List.tail_cons, List.cons_append, List.nil_append]
          exact execBody_trap rest (by simp only [execInstr, hx, hy, hd])
    · cases h

theorem sim_plain (w : World) (m : Wasm.Module) (i : SI) (hi : isPlain i = true) (r : Nat) (stk : List TV)
    (tys tys' : List Ty) (stack : List Nat) (locals : Array Nat) (env : Val → Nat) (st : Wasm.Store) (n : Nat)
    (hinv : InvS stk tys stack env)
    (hfresh : ∀ p ∈ stk, ∀ q ∈ resultsOf i r stk, p.1 ≠ q)
    (htc : tcStep [] i tys = some tys') :
    (∃ stack' env',
        Wasm.execInstr m (n + 1) i.toInstr ⟨stack, locals⟩ st = (.next, ⟨stack', locals⟩, st) ∧
        (∀ rest, execBody w [] ((lowerI i ⟨r, stk, []⟩).1 ++ rest) (mk env) = execBody w [] rest (mk env')) ∧
        InvS (lowerI i ⟨r, stk, []⟩).2.stack tys' stack' env' ∧
        (∀ v, v ∉ resultsOf i r stk → env' v = env v)) ∨
    (∃ code fr', Wasm.execInstr m (n + 1) i.toInstr ⟨stack, locals⟩ st = (.trap (trapKind code), fr', st) ∧
        (∀ rest, execBody w [] ((lowerI i ⟨r, stk, []⟩).1 ++ rest) (mk env) = some (.trap code (mk env))) ∧
        (code = codeDivByZero ∨ code = codeOverflow)) := by
  cases i with
  | const t v => exact step_const t v hinv hfresh htc
  | localGet i => cases hi
  | localSet i => cases hi
  | localTee i => cases hi
  | drop => exact step_drop hinv htc
  | select => exact step_select hinv hfresh htc
  | bin t op => exact step_bin t op hinv hfresh htc
  | rel t op => exact step_rel t op hinv hfresh htc
  | eqz t => exact step_eqz t hinv hfresh htc
  | cnt t op => exact step_cnt t op hinv hfresh htc
  | wrap => exact step_wrap hinv hfresh htc
  | extendS => exact step_extendS hinv hfresh htc
  | extendU => exact step_extendU hinv hfresh htc
  | extend32S => exact step_extend32S hinv hfresh htc
  | div t op => exact step_div t op hinv hfresh htc
  | ret => cases hi

end Wz.Proofs.FrontCF
