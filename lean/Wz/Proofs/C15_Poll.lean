/- Lemmas for C15: memory guard, writeEvent, the poll_oneoff subscription loop. Core Lean only. -/
import Wz.Model.Wasi

namespace Wz.C15
open Wz.Model Wz.Model.Wasi Wz.Gen.Wasi

theorem has_iff (m : Mem) (off cnt : Nat) (ho : off < 4294967296) (hc : cnt < 4294967296)
    (hs : m.size < 9223372036854775808) : m.has off cnt = true ↔ off + cnt ≤ m.size := by
  unfold Mem.has Wz.Gen.Memory.hasSize
  simp only [BitVec.ule, decide_eq_true_eq, BitVec.toNat_add, BitVec.toNat_setWidth, BitVec.toNat_ofNat]
  omega

theorem write_size (m : Mem) (a : Nat) (bs : List Nat) : (m.write a bs).size = m.size := rfl

/-- `writeEvent` passes all its bounds checks when 14 bytes are available. -/
theorem writeEvent_ok (m : Mem) (ws : List Wr) (base len off ud e ty : Nat) (h : off + 14 ≤ len) :
    (writeEvent m ws base len off ud e ty).2.2 = true := by
  unfold writeEvent
  have h1 : ¬ off > len := by omega
  have h2 : ¬ len - off ≤ 8 := by omega
  have h3 : ¬ len - off ≤ 9 := by omega
  have h4 : ¬ len - off < 14 := by omega
  simp only [h1, h2, h3, h4, if_false]

end Wz.C15
